(* C05 - opening and walking arbitrary bytes never crashes, hangs, leaks or
   explodes: the termination / totality skeletons.  Statements only; the
   proofs are in the *Proofs.v files.  What is NOT proved here (goroutines,
   allocation, wall time; font programs, JBIG2, DCT, the object syntax itself)
   is measured by harness/c05 and listed under `partial` in the evidence. *)
From Coq Require Import List NArith ZArith Bool Lia.
From GoPdf.Base Require Import Bytes Res.
From GoPdf.Gen Require Import Gen_Consts Gen_Limits Gen_C05.
From GoPdf.C05 Require Import Refill RefillProofs PrevChain PrevChainProofs Resolve ResolveProofs
     Walk WalkProofs XRefCount XRefCountProofs ObjStmGet ObjStmGetProofs Nest NestProofs ObjStmIndex ObjStmIndexProofs DecodePath DecodePathProofs Stages StagesProofs.
Import ListNotations.
Close Scope Z_scope.
Close Scope N_scope.
Open Scope nat_scope.

(* ---- (1) scanner buffer state machine ------------------------------- *)

(* ScanBytes (hence SkipWhiteSpace, ReadInteger, ReadNumber, ReadName ...) over
   ANY source (bytes, then EOF or an error), from ANY well-formed buffer state,
   for ANY accept closure: with fuel linear in the bytes still to come it
   returns - never OutOfFuel, never Panic - and what it returns is nil, io.EOF,
   the latched error or the source's terminal error. *)
Theorem scan_bytes_total :
  forall (A : Type) (accept : A -> byte -> option A) (cap fuel : nat) (a : A) (empty : bool) (s : sc),
    wf cap s ->
    length (sdata (source s)) + 2 <= fuel ->
    exists a' e s',
      scan_bytes A accept cap fuel a empty s = Ok (a', e, s') /\
      wf cap s' /\
      (e = None \/ e = Some EOF \/ from_source s e).
Proof. exact scan_bytes_total_lemma. Qed.
Print Assumptions scan_bytes_total.

(* after the source's terminal error, the error is what ScanBytes returns:
   however much the closure accepts, a source that ends in an error makes the
   call return that error (not spin, not report a clean EOF) *)
Theorem scan_bytes_returns_source_error :
  forall (A : Type) (accept : A -> byte -> option A) (cap fuel : nat) (a : A) (empty : bool)
         (data : bytes) (id : N),
    0 < cap ->
    (forall a b, accept a b <> None) ->
    length data + 2 <= fuel ->
    exists a' s',
      scan_bytes A accept cap fuel a empty (new_scanner (mkSrc data (TErr id))) = Ok (a', Some (IO id), s').
Proof. exact scan_bytes_error_lemma. Qed.
Print Assumptions scan_bytes_returns_source_error.

(* the F16 state: error latched, buffer consumed (pos = used, possibly > 0):
   one step returns the latched error *)
Theorem scan_bytes_returns_latched :
  forall (A : Type) (accept : A -> byte -> option A) (cap fuel : nat) (a : A) (empty : bool) (s : sc) (c : cls),
    wf cap s -> latch s = Some c -> pos s = used s -> 1 <= fuel ->
    exists s', scan_bytes A accept cap fuel a empty s = Ok (a, Some c, s').
Proof. exact scan_bytes_latched_lemma. Qed.
Print Assumptions scan_bytes_returns_latched.

(* refill, PeekN (window within the buffer) and ReadByte never panic and keep
   the buffer invariant *)
Theorem buffer_ops_never_panic :
  forall (cap : nat) (s : sc),
    wf cap s ->
    (exists err s', refill cap s = Ok (err, s') /\ wf cap s') /\
    (forall n, n <= cap -> exists bs e s', peek_n cap n s = Ok (bs, e, s') /\ wf cap s' /\ length bs <= n) /\
    (exists r e s', read_byte cap s = Ok (r, e, s') /\ wf cap s').
Proof. exact buffer_ops_never_panic_lemma. Qed.
Print Assumptions buffer_ops_never_panic.

(* the code BEFORE the F16 repair (ScanBytes leaves its loop only when
   used = 0): in the state "error latched, buffer consumed but not empty" the
   loop steps to itself - no amount of fuel suffices - and that state is reached
   from a fresh scanner on the input "one blank, then the source fails" *)
Theorem scan_bytes_spin_refuted :
  (forall (A : Type) (accept : A -> byte -> option A) (cap : nat) (c : cls),
      c <> EOF ->
      forall fuel a empty s,
        latch s = Some c -> pos s = used s -> 0 < used s ->
        scan_bytes_prefix A accept cap fuel a empty s = Err OutOfFuel) /\
  (forall (id : N) (n : nat),
      skip_white_space_prefix cap0 n (new_scanner (mkSrc [32%N] (TErr id))) = Err OutOfFuel) /\
  (forall (id : N) (n : nat), 3 <= n ->
      exists a s', skip_white_space cap0 n (new_scanner (mkSrc [32%N] (TErr id))) = Ok (a, Some (IO id), s')).
Proof. exact scan_bytes_spin_refuted_lemma. Qed.
Print Assumptions scan_bytes_spin_refuted.

Example wf_fresh : forall s, wf cap0 (new_scanner s).
Proof. intros s. unfold wf, used, new_scanner, latch_ok. cbn. repeat split; auto; lia. Qed.

Example ws_run :
  run_ops true [OpWS; OpInt; OpWS; OpByte]
          (new_scanner (mkSrc [32; 37; 65; 10; 49; 50; 32; 120]%N TEOF))
  = [Obs None 4 []; Obs None 6 []; Obs None 7 []; Obs None 8 [120%N]].
Proof. vm_compute. reflexivity. Qed.

(* ---- (2) the /Prev chain --------------------------------------------- *)

(* for ANY assignment of sections to offsets (any /Prev and /XRefStm wiring,
   cyclic or not) the loop runs at most one iteration per distinct offset,
   stops within size - hdr iterations, and fails only with Malformed or with an
   error of the section reads *)
Theorem prev_chain_total :
  forall (read_section : Z -> res xsection) (read_stm : Z -> res unit)
         (size hdr start0 : Z) (fuel : nat),
    (hdr < start0 < size)%Z ->
    prev_fuel size hdr <= fuel ->
    match read_xref read_section read_stm size hdr fuel start0 with
    | Ok t =>
      NoDup (sections_of t) /\
      (forall o, In o (sections_of t) -> (hdr < o < size)%Z) /\
      length (sections_of t) <= prev_fuel size hdr
    | Err c =>
      c = Malformed \/ (exists o, read_section o = Err c) \/ (exists o, read_stm o = Err c)
    end.
Proof. exact prev_chain_total_lemma. Qed.
Print Assumptions prev_chain_total.

(* a two-section cycle 100 -> 200 -> 100 with a shared /XRefStm at 300 *)
Example prev_cycle :
  read_xref (fun o => if (o =? 100)%Z then Ok (mkSection true (TInt 300) (TInt 200))
                      else if (o =? 200)%Z then Ok (mkSection true (TInt 300) (TInt 100))
                      else Err Malformed)
            (fun _ => Ok tt) 1000 0 (prev_fuel 1000 0) 100
  = Ok [EvSection 100%Z; EvXRefStm 300%Z; EvSection 200%Z].
Proof. vm_compute. reflexivity. Qed.

(* ---- (3) reference following ----------------------------------------- *)

(* for ANY Get function (any reference graph): resolvePath stops after at most
   MaxExtractDepth calls of Get, with a value, Malformed (cycle or depth) or
   Get's own error *)
Theorem resolve_total :
  forall (get : N -> got) (ref : N) (fuel : nat),
    resolve_fuel <= fuel ->
    let o := resolve_loop get fuel [] ref 0 in
    o <> OFuel /\
    (forall c, to_res o = Err c -> c = Malformed \/ exists r, get r = GErr c) /\
    gets_of o <= Z.to_nat MaxExtractDepth /\
    (forall v p g, o = OVal v p g -> NoDup p /\ length p <= Z.to_nat MaxExtractDepth).
Proof. exact resolve_total_lemma. Qed.
Print Assumptions resolve_total.

Example resolve_cycle : resolve_in [(1, GRef 2); (2, GRef 3); (3, GRef 1)]%N 1%N = OCycle 3.
Proof. vm_compute. reflexivity. Qed.

Example resolve_deep :
  (* the infinite chain n -> n+1: cut by the depth cap after exactly 256 Gets *)
  resolve_loop (fun n => GRef (n + 1)%N) resolve_fuel [] 0%N 0 = ODepth 256.
Proof. vm_compute. reflexivity. Qed.

(* ---- (4) walkers ------------------------------------------------------ *)

(* page tree (Iterator.All with frames = true, FindPages with frames = false),
   for ANY graph: terminates within |universe|+1 iterations, never indexes an
   empty work list, yields each page reference at most once *)
Theorem walk_total :
  forall (frames : bool) (g : pgraph) (root : N) (fuel : nat),
    pages_fuel g root <= fuel ->
    match walk_pages frames g fuel [root] [] [root] [] with
    | Ok l => NoDup l /\ (forall x, In x l -> exists nd, lookup g x = Some nd /\ pkind_of nd = KPage)
    | Err c => exists r nd, lookup g r = Some nd /\ pkind_of nd = KFail c
    end.
Proof. exact walk_pages_total_lemma. Qed.
Print Assumptions walk_total.

(* name / number tree: structurally bounded by the depth cap; with the shared
   seen-set each kid reference is dereferenced at most once, so the number of
   nodes entered is at most the number of distinct references in /Kids arrays
   (which is what keeps the work linear instead of fan-out^depth) *)
Theorem tree_walk_once :
  forall (g : tgraph) (root : N),
    NoDup (tree_all g root) /\ ~ In root (tree_all g root) /\
    length (tree_all g root) <= length (t_universe g).
Proof. exact tree_all_nodup_lemma. Qed.
Print Assumptions tree_walk_once.

(* outline: /First and /Next chains of ANY graph: terminates (call depth at most
   the number of distinct references), reads each item at most once *)
Theorem outline_total :
  forall (g : ograph) (root : N) (first : option N),
    match outline_items g root first with
    | Ok l => NoDup l
    | Err c => exists r, ofail (olookup g r) = Some c
    end.
Proof. exact outline_total_lemma. Qed.
Print Assumptions outline_total.

(* root 1 -> kids [2;3;1;2], 2 is a page, 3 -> kids [1;2;4;4], 4 is a page *)
Example walk_cyclic_value :
  iter_pages [(1, mkP KPages [2;3;1;2] true); (2, mkP KPage [] false);
              (3, mkP KPages [1;2;4;4] true); (4, mkP KPage [7] false)]%N 1%N
  = Ok [4; 2]%N.
Proof. vm_compute. reflexivity. Qed.

Example outline_cyclic :
  outline_items [(2, mkO (Some 3) (Some 4) None); (3, mkO (Some 2) (Some 3) None);
                 (4, mkO (Some 1) (Some 2) None)]%N 1%N (Some 2%N)
  = Ok [2; 3; 4]%N.
Proof. vm_compute. reflexivity. Qed.

(* ---- (5) cross-reference stream entry count --------------------------- *)

(* for ANY /Size, /W, /Index (of a length the scanner can produce) and any
   decoded data: the number of loop bodies executed by decodeXRefStream - an
   upper bound for the entries allocated - is at most the TRANSLATED
   limits.MaxXRefEntries(rawLen) <= 8192 + 32*rawLen and at most maxXRefSize;
   the only error class is Malformed (no Panic, no OutOfFuel) *)
Theorem xref_entries_bounded :
  forall (size_o w_o index_o : obj) (rawLen : Z) (data : bytes) (xref : list (Z * xentry)),
    (match index_o with OArr ind => (Z.of_nat (length ind) <= maxArrayLen)%Z | _ => True end) ->
    match read_xref_stream size_o w_o index_o rawLen data xref with
    | Ok (xref', iters, _) =>
      (Z.of_nat iters <= MaxXRefEntries rawLen)%Z /\
      (Z.of_nat iters <= 8192 + 32 * Z.max 0 rawLen)%Z /\
      (Z.of_nat iters <= maxXRefSize)%Z /\
      length xref' <= length xref + iters
    | Err c => c = Malformed
    end.
Proof. exact xref_entries_bounded_lemma. Qed.
Print Assumptions xref_entries_bounded.

(* /Size 2^24 with 10 raw bytes is refused; /Size 3 is decoded *)
Example xref_refused :
  read_xref_stream (OInt 16777216) (OArr [OInt 1; OInt 2; OInt 1]) ONull 10 [] [] = Err Malformed.
Proof. vm_compute. reflexivity. Qed.

Example xref_small :
  read_xref_stream (OInt 3) (OArr [OInt 1; OInt 1; OInt 0]) (OArr [OInt 1; OInt 2]) 10
                   [1; 9; 2; 5]%N [] = Ok ([(2, XInStm 5 0); (1, XUsed 9 0)]%Z, 2, None).
Proof. vm_compute. reflexivity. Qed.

(* ---- (6) object streams: no re-entry ---------------------------------- *)

(* for ANY cross-reference table (any object claimed to be compressed in any
   stream, itself included), any indirect dictionary entries of the object
   streams and any member values (stream-shaped ones included): because the
   container and its /Filter, /DecodeParms, ... are fetched with
   canObjStm = false and a stream-shaped member is refused before its /Length
   is looked at, calls of Reader.get nest at most two deep *)
Theorem objstm_get_depth_bounded :
  forall (xref : N -> entry) (member : N -> mval) (fuel : nat) (ref : N) (can : bool),
    2 <= fuel ->
    get xref member false true fuel ref can <> Err OutOfFuel.
Proof. exact get_depth_bounded_lemma. Qed.
Print Assumptions objstm_get_depth_bounded.

(* a compressed object that is stored stream-shaped (`<< /Length l 0 R >> stream`)
   never yields a value: Get returns a value only for direct or free entries *)
Theorem objstm_stream_shaped_member_refused :
  forall (xref : N -> entry) (member : N -> mval) (fuel : nat) (ref : N) (can : bool) (l : N) (o : sobj),
    member ref = MStreamShaped l ->
    get xref member false true fuel ref can = Ok o ->
    exists d, xref ref = EDirect d \/ (xref ref = EFree /\ o = SVal).
Proof. exact stream_shaped_member_lemma. Qed.
Print Assumptions objstm_stream_shaped_member_refused.

(* variant (seeded change C05-1): dictionary entries of an object stream fetched
   with canObjStm = true re-enter without bound: object 10 compressed in
   stream 3 whose /Filter is the indirect object 10 *)
Theorem objstm_get_reentry_refuted :
  forall fuel, get bad_xref (fun _ => MObj SVal) true true fuel 10%N true = Err OutOfFuel.
Proof. exact get_reentry_refuted_lemma. Qed.
Print Assumptions objstm_get_reentry_refuted.

(* variant (the code before F40): the /Length of a stream-shaped member is
   resolved before the member is refused: object 10 compressed in stream 3 and
   stored there as `<< /Length 10 0 R >> stream` *)
Theorem objstm_get_f40_refuted :
  forall fuel, get f40_xref (fun _ => MStreamShaped 10%N) false false fuel 10%N true = Err OutOfFuel.
Proof. exact get_f40_refuted_lemma. Qed.
Print Assumptions objstm_get_f40_refuted.

Example objstm_same_stream_refused :
  get_in [(10, EInStm 3); (3, EDirect (SStm 3 [10]))]%N [] 10%N = Err Malformed.
Proof. vm_compute. reflexivity. Qed.

Example objstm_ordinary_filter_ok :
  get_in [(10, EInStm 3); (3, EDirect (SStm 3 [30])); (30, EDirect (SRef 31)); (31, EDirect SVal)]%N
         [(10, MObj (SRef 7))]%N 10%N = Ok (SRef 7%N).
Proof. vm_compute. reflexivity. Qed.

Example objstm_stream_shaped_self :
  get_in [(10, EInStm 3); (3, EDirect (SStm 3 []))]%N [(10, MStreamShaped 10)]%N 10%N = Err Malformed.
Proof. vm_compute. reflexivity. Qed.

(* ---- (7) nesting depth and reference look-back of the object scanner ---- *)

(* for EVERY token sequence: ReadObject either fails with Malformed or returns -
   never Panic: the two type assertions of ReadArray's `n g R` look-back cannot
   fail, because integersSeen never exceeds the number of trailing Integer
   elements; the containers open at any moment (the value of s.nestDepth, hence
   the depth of the Go recursion ReadObject -> ReadArray/ReadDict -> ReadObject)
   never exceed maxScannerNestDepth; one step per token, so fuel |toks|+1
   suffices (never OutOfFuel) *)
Theorem nest_bounded :
  forall (toks : list tok),
    match read_object toks with
    | Ok (rest, h) => h <= maxd
    | Err c => c = Malformed
    end.
Proof. exact nest_bounded_lemma. Qed.
Print Assumptions nest_bounded.

Theorem nest_bounded_from_any_state :
  forall (fuel : nat) (st : list frame) (toks : list tok),
    length toks < fuel -> length st <= maxd -> Forall fok st ->
    match run true fuel st toks 0 with
    | Ok (rest, h) => h <= maxd
    | Err c => c = Malformed
    end.
Proof. exact nest_bounded_general_lemma. Qed.
Print Assumptions nest_bounded_from_any_state.

(* the variant `integersSeen -= 2` after a reference has been assembled
   (seeded change C05-5) panics on [ 0 0 612 3 0 R 792 R ]; the code as it is
   reports Malformed *)
Theorem integers_seen_refuted :
  read_object_gen false [TAO; TI; TI; TI; TI; TI; TR; TI; TR; TAC] = Err Panic /\
  read_object_gen true [TAO; TI; TI; TI; TI; TI; TR; TI; TR; TAC] = Err Malformed.
Proof. exact integers_seen_refuted_lemma. Qed.
Print Assumptions integers_seen_refuted.

Example nest_small : read_object [TDO; TN; TAO; TA; TDO; TDC; TAC; TDC; TA] = Ok ([TA], 3).
Proof. vm_compute. reflexivity. Qed.

Example nest_refs :
  read_indirect true [TAO; TI; TI; TR; TI; TI; TI; TR; TAC] = Ok true /\
  read_indirect true [TDO; TN; TI; TI; TR; TN; TI; TDC] = Ok true /\
  read_indirect true [TI; TI; TR] = Ok true.
Proof. repeat split; vm_compute; reflexivity. Qed.

Example nest_at_limit :
  read_object (repeat TAO 256 ++ repeat TAC 256) = Ok ([], 256) /\
  read_object (repeat TAO 257 ++ repeat TAC 257) = Err Malformed.
Proof. split; vm_compute; reflexivity. Qed.

(* ---- (8) the index of an object stream -------------------------------- *)

(* for ANY /N, /First and ANY offset table (short, damaged, absurd numbers):
   getObjStm never panics; it fails only with Malformed or the scanner's own
   error; on success it has allocated exactly /N <= 10000 entries, made 2*/N
   ReadInteger calls - no more than there are integers in the data, so the
   work is bounded by the decoded length as well - and every entry lies at or
   behind the end of the table *)
Theorem objstm_index_total :
  forall (n_o first_o : dval) (ints : list (Z * Z)) (tail_err : cls),
    nonneg_pos ints -> int64_first first_o ->
    match get_objstm n_o first_o ints tail_err with
    | Ok ix =>
      (exists n, n_o = DInt n /\ (0 <= n <= max_n)%Z /\ length (entries ix) = Z.to_nat n /\
                 reads ix = 2 * Z.to_nat n) /\
      reads ix <= length ints /\
      Forall (fun e => (0 <= fst e <= max_uint32)%Z /\ (ipos ix <= snd e)%Z) (entries ix)
    | Err c => c = Malformed \/ c = tail_err
    end.
Proof. exact objstm_index_total_lemma. Qed.
Print Assumptions objstm_index_total.

(* the member lookup of getFromObjStm: idx[m] is always in range (no Panic),
   the `delta < 0` branch cannot be taken, a miss is Malformed *)
Theorem objstm_lookup_total :
  forall (n_o first_o : dval) (ints : list (Z * Z)) (tail_err : cls) (number : Z),
    nonneg_pos ints -> int64_first first_o ->
    match objstm_find n_o first_o ints tail_err number with
    | Ok (FReadAt off) =>
      exists ix, get_objstm n_o first_o ints tail_err = Ok ix /\ (ipos ix <= off)%Z
    | Ok FNull => False
    | Err c => c = Malformed \/ c = tail_err
    end.
Proof. exact objstm_lookup_total_lemma. Qed.
Print Assumptions objstm_lookup_total.

(* ownership of the decoded reader: every exit of getObjStm either hands the
   open reader over (success) or has closed it or never opened it; no exit of
   getFromObjStm leaves it open - for any /N, /First, offset table, any failure
   of DecodeStream and of the scanner *)
Theorem objstm_reader_ownership :
  forall (derr : option cls) (n_o first_o : dval) (ints : list (Z * Z)) (tail_err : cls),
    match get_objstm_own true derr n_o first_o ints tail_err with
    | (Ok _, ROpen) => derr = None
    | (Err _, RNone) => True
    | (Err _, RClosed) => derr = None
    | _ => False
    end.
Proof. exact objstm_reader_ownership_lemma. Qed.
Print Assumptions objstm_reader_ownership.

Theorem objstm_get_closes_reader :
  forall (derr : option cls) (n_o first_o : dval) (ints : list (Z * Z)) (tail_err : cls) (number : Z),
    snd (get_from_objstm_own true derr n_o first_o ints tail_err number) <> ROpen.
Proof. exact objstm_get_closes_reader_lemma. Qed.
Print Assumptions objstm_get_closes_reader.

(* the code before F55 (no Close on the error paths of getObjStm): /N 1 and
   data without an integer leave the reader open *)
Theorem objstm_reader_leak_refuted :
  get_from_objstm_own false None (DInt 1) (DInt 4) [] Malformed 3%Z = (Err Malformed, ROpen).
Proof. exact objstm_reader_leak_refuted_lemma. Qed.
Print Assumptions objstm_reader_leak_refuted.

Example objstm_index_ok :
  objstm_find (DInt 2) (DInt 10) [(10, 2); (0, 4); (11, 7); (3, 9)]%Z Malformed 11%Z = Ok (FReadAt 13%Z).
Proof. vm_compute. reflexivity. Qed.

Example objstm_index_n_lies :
  objstm_find (DInt 3) (DInt 10) [(10, 2); (0, 4); (11, 7); (3, 9)]%Z Malformed 11%Z = Err Malformed /\
  objstm_find (DInt 10001) (DInt 10) [] Malformed 11%Z = Err Malformed /\
  objstm_find (DInt 1) (DInt 9223372036854775807) [(10, 2); (5, 4)]%Z Malformed 10%Z = Err Malformed.
Proof. repeat split; vm_compute; reflexivity. Qed.

(* ---- (9) typed decoding through references ----------------------------- *)

(* for ANY Get function (any graph) and any cache contents: a typed decoder
   that decodes the children of its node through nested pdf.Decode calls
   recurses at most MaxExtractDepth + 1 calls deep - each nested call extends
   the Cursor's path by one reference, CycleCheck.step refuses a reference
   that is on the path and a path longer than MaxExtractDepth *)
Theorem decode_depth_bounded :
  forall (get : N -> dnode) (fuel : nat) (ref : N) (s : dstate),
    decode_fuel <= fuel ->
    dec_ref get fuel [] [] s ref <> DFuel.
Proof. exact decode_depth_bounded_lemma. Qed.
Print Assumptions decode_depth_bounded.

(* 1 -> kids [2; 3], 2 -> alias of 3, 3 -> kids [1]: the cycle is found when 1
   is met again on the path; nothing is cached *)
Example decode_cycle :
  decode_in [(1, DNode [2; 3]); (2, DRef 3); (3, DNode [1])]%N 1%N = DCycle (mkD [] 3).
Proof. vm_compute. reflexivity. Qed.

(* a diamond: 4 is decoded once, the second visit is answered by the cache *)
Example decode_diamond :
  decode_in [(1, DNode [2; 3]); (2, DNode [4]); (3, DNode [4]); (4, DNull)]%N 1%N
  = DOk (mkD [1; 3; 2; 4]%N 4).
Proof. vm_compute. reflexivity. Qed.

(* ---- (10) closing a filter chain; the documented stream budget --------- *)

(* sourceAwareReader.Close: for ANY chain of stages and ANY results of their
   Close calls, every stage is closed exactly once and the error reported is
   the outer stage's *)
Theorem close_all_stages :
  forall (results : list (option cls)),
    let '(err, trace) := close_chain false results in
    NoDup trace /\
    (forall i, In i trace <-> i < length results) /\
    err = nth (length results - 1) results None.
Proof. exact close_all_stages_lemma. Qed.
Print Assumptions close_all_stages.

(* the variant that returns as soon as the outer Close reports an error
   (seeded change C05-12) leaves the inner stage - the pipe - open *)
Theorem close_early_return_refuted :
  forall c, close_chain true [None; Some c] = (Some c, [1]) /\
            ~ In 0 (snd (close_chain true [None; Some c])).
Proof. exact close_early_return_refuted_lemma. Qed.
Print Assumptions close_early_return_refuted.

(* the TRANSLATED limits.StreamBudget: never below the base, never above
   base + hard cap, linear below the knee, flat above it - for every rawLen *)
Theorem stream_budget_bound :
  forall rawLen : Z,
    (StreamBudgetBase <= StreamBudget rawLen <= StreamBudgetBase + StreamBudgetHardCap)%Z /\
    ((0 <= rawLen <= StreamBudgetHardCap / StreamBudgetMultiplier)%Z ->
       StreamBudget rawLen = (StreamBudgetBase + StreamBudgetMultiplier * rawLen)%Z) /\
    ((StreamBudgetHardCap / StreamBudgetMultiplier < rawLen)%Z ->
       StreamBudget rawLen = (StreamBudgetBase + StreamBudgetHardCap)%Z) /\
    ((rawLen <= 0)%Z -> StreamBudget rawLen = StreamBudgetBase).
Proof. exact stream_budget_bound_lemma. Qed.
Print Assumptions stream_budget_bound.

Example close_three : close_chain false [None; Some Malformed; Some (IO 3)] = (Some (IO 3), [2; 1; 0]).
Proof. reflexivity. Qed.
