(* C05 (4): the walkers with seen-sets over arbitrary, possibly cyclic object
   graphs: page tree (pagetree/read.go: FindPages, Iterator.All), name/number
   tree (internal/pdftree/streaming.go: yieldFromNode) and outline
   (outline/outline.go: readChildren/readItem).

   The object graph is an ARBITRARY association list from references to
   nodes: /Kids, /First, /Next may point anywhere (back to an ancestor, to
   itself, to a missing object, several times to the same object); /Parent
   and /Count are never consulted by the walkers, so lying about them has no
   influence (they do not even occur in the model).  Definitions only. *)
From Coq Require Import List NArith ZArith Bool Lia.
From GoPdf.Base Require Import Res.
From GoPdf.Gen Require Import Gen_C05.
Import ListNotations.
Close Scope Z_scope.
Open Scope nat_scope.

Definition nmem (x : N) (l : list N) : bool := existsb (N.eqb x) l.

Section Lookup.
  Context {X : Type}.
  Fixpoint lookup (g : list (N * X)) (r : N) : option X :=
    match g with
    | [] => None
    | (k, v) :: g' => if N.eqb k r then Some v else lookup g' r
    end.
End Lookup.

(* ------------------------------------------------------------------ *)
(* page tree *)

Inductive pkind :=
| KPage
| KPages
| KOther                 (* a dict with another /Type, or c.Dict / c.Name gave a malformed error *)
| KFail (c : cls).       (* reading the object fails with a non-malformed error *)

Record pnode := mkP {
  pkind_of : pkind;
  pkids : list N;        (* the reference entries of /Kids (other entries are ignored by the code) *)
  pinh : bool            (* the node carries an inheritable attribute *)
}.

Definition pgraph := list (N * pnode).

(* the loop  `for i := len(kids)-1; i >= 0; i--`  with `todo = append(todo, kid)`:
   the head of [todo] is the top of the Go slice *)
Definition push_kids (kids : list N) (todo seen : list N) : list N * list N :=
  fold_left (fun (ts : list N * list N) k =>
               let '(t, s) := ts in
               if nmem k s then (t, s) else (k :: t, k :: s))
            (rev kids) (todo, seen).

(* Iterator.All; [frames] = false gives FindPages (no inheritance frames).
   Result: the page references in the order they are yielded. *)
Fixpoint walk_pages (frames : bool) (g : pgraph) (fuel : nat)
         (todo : list N) (stack : list (list N)) (seen : list N) (out : list N)
  : res (list N) :=
  match todo, stack with
  | [], [] => Ok (rev out)
  | _, _ =>
    match fuel with
    | O => Err OutOfFuel
    | S f =>
      (* if len(todo) == 0 { pop a frame } *)
      let popped : res (list N * list (list N)) :=
        match todo with
        | [] => match stack with
                | fr :: st => Ok (fr, st)
                | [] => Err Panic            (* unreachable: guarded above *)
                end
        | _ => Ok (todo, stack)
        end in
      match popped with
      | Err c => Err c
      | Ok (todo1, stack1) =>
        match todo1 with
        | [] => Err Panic                    (* todo[len(todo)-1] with an empty frame *)
        | ref :: todo2 =>
          match lookup g ref with
          | None => walk_pages frames g f todo2 stack1 seen out
          | Some nd =>
            match pkind_of nd with
            | KFail c => Err c
            | KOther => walk_pages frames g f todo2 stack1 seen out
            | KPage => walk_pages frames g f todo2 stack1 seen (ref :: out)
            | KPages =>
              let '(todo3, stack2) :=
                if frames && pinh nd then
                  match todo2 with
                  | [] => (todo2, stack1)
                  | _ => ([], todo2 :: stack1)
                  end
                else (todo2, stack1) in
              let '(todo4, seen') := push_kids (pkids nd) todo3 seen in
              walk_pages frames g f todo4 stack2 seen' out
            end
          end
        end
      end
    end
  end.

(* every reference that can ever be put on the work list *)
Definition p_universe (g : pgraph) (root : N) : list N :=
  nodup N.eq_dec (root :: flat_map (fun kv => pkids (snd kv)) g).

Definition pages_fuel (g : pgraph) (root : N) : nat := S (length (p_universe g root)).

Definition iter_pages (g : pgraph) (root : N) : res (list N) :=
  walk_pages true g (pages_fuel g root) [root] [] [root] [].
Definition find_pages (g : pgraph) (root : N) : res (list N) :=
  walk_pages false g (pages_fuel g root) [root] [] [root] [].

(* ------------------------------------------------------------------ *)
(* name tree / number tree: depth-first with a shared seen-set and a depth cap *)

Record tnode := mkT {
  tleaf : bool;          (* the node has /Names (/Nums): it is treated as a leaf *)
  tkids : list N         (* reference entries of /Kids *)
}.

Definition tgraph := list (N * tnode).

Section KidsLoop.
  Variable g : tgraph.
  Variable rec : tnode -> list N -> list N -> list N * list N.
  (* for _, kid := range arr *)
  Fixpoint kids_loop (ks : list N) (seen acc : list N) : list N * list N :=
    match ks with
    | [] => (seen, acc)
    | k :: ks' =>
      if nmem k seen then kids_loop ks' seen acc
      else
        let seen1 := k :: seen in
        match lookup g k with
        | None => kids_loop ks' seen1 (k :: acc)
        | Some ch => let '(seen2, acc2) := rec ch seen1 (k :: acc) in kids_loop ks' seen2 acc2
        end
    end.
End KidsLoop.

(* yieldFromNode with [d] = maxDepth - depth; [acc] collects the kid references
   that were dereferenced (t.cur.Dict(kid)), newest first; a missing object
   reads as an empty dictionary, which yields nothing *)
Fixpoint yield_node (g : tgraph) (d : nat) (nd : tnode) (seen acc : list N) : list N * list N :=
  match d with
  | O => (seen, acc)
  | S d' =>
    if tleaf nd then (seen, acc)
    else kids_loop g (yield_node g d') (tkids nd) seen acc
  end.

Definition tree_all (g : tgraph) (root : N) : list N :=
  match lookup g root with
  | None => []
  | Some nd => rev (snd (yield_node g (Z.to_nat MaxNameTreeDepth) nd [root] []))
  end.

(* every reference the walker can dereference *)
Definition t_universe (g : tgraph) : list N :=
  nodup N.eq_dec (flat_map (fun kv => tkids (snd kv)) g).

(* ------------------------------------------------------------------ *)
(* outline: /First and /Next chains with a visited set and a depth cap *)

Record onode := mkO {
  ofirst : option N;
  onext : option N;
  ofail : option cls     (* decoding the item fails (readItem returns an error) *)
}.

Definition ograph := list (N * onode).

(* a missing object reads as an empty dictionary *)
Definition olookup (g : ograph) (r : N) : onode :=
  match lookup g r with Some nd => nd | None => mkO None None None end.

(* readChildren(ref, depth) and the readItem it calls, on one fuel that bounds
   the depth of the call tree; [acc]: items read, newest first *)
Fixpoint read_children (g : ograph) (fuel : nat) (depth : nat) (ref : option N)
         (seen acc : list N) : res (list N * list N) :=
  match fuel with
  | O => Err OutOfFuel
  | S f =>
    if (MaxOutlineDepth <=? Z.of_nat depth)%Z then Ok (seen, acc)
    else
      match ref with
      | None => Ok (seen, acc)
      | Some r =>
        if nmem r seen then Ok (seen, acc)
        else
          let nd := olookup g r in
          match ofail nd with
          | Some c => Err c
          | None =>
            match read_children g f (S depth) (ofirst nd) (r :: seen) (r :: acc) with
            | Err c => Err c
            | Ok (seen2, acc2) => read_children g f depth (onext nd) seen2 acc2
            end
          end
      end
  end.

Definition opt_list (o : option N) : list N := match o with Some x => [x] | None => [] end.

Definition o_universe (g : ograph) (first : option N) : list N :=
  nodup N.eq_dec (opt_list first ++
                  flat_map (fun kv => opt_list (ofirst (snd kv)) ++ opt_list (onext (snd kv))) g).

Definition outline_fuel (g : ograph) (first : option N) : nat := S (length (o_universe g first)).

(* outline.Decode: the root's reference is in the visited set from the start *)
Definition outline_items (g : ograph) (root : N) (first : option N) : res (list N) :=
  match read_children g (outline_fuel g first) 0 first [root] [] with
  | Err c => Err c
  | Ok (_, acc) => Ok (rev acc)
  end.
