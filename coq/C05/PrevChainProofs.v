From Coq Require Import List ZArith Bool Lia Arith.
From GoPdf.Base Require Import Res.
From GoPdf.Gen Require Import Gen_C05.
From GoPdf.C05 Require Import PrevChain.
Import ListNotations.
Open Scope Z_scope.

Lemma zmem_In x l : zmem x l = true <-> In x l.
Proof.
  unfold zmem. rewrite existsb_exists. split.
  - intros (y & Hy & He). apply Z.eqb_eq in He. subst. exact Hy.
  - intros H. exists x. split; [exact H|apply Z.eqb_refl].
Qed.

Lemma zmem_not_In x l : zmem x l = false <-> ~ In x l.
Proof. rewrite <- zmem_In. destruct (zmem x l); split; congruence. Qed.

(* pigeonhole: distinct integers strictly between lo and hi *)
Lemma nodup_range_length (l : list Z) lo hi :
  NoDup l -> (forall x, In x l -> lo < x < hi) -> (length l <= Z.to_nat (hi - lo - 1))%nat.
Proof.
  intros Hnd Hr.
  set (f := fun x => Z.to_nat (x - lo - 1)).
  assert (Hinj : NoDup (map f l)).
  { clear -Hnd Hr. induction l as [|a l IH]; cbn; [constructor|].
    inversion Hnd; subst. constructor.
    - intros Hin. apply in_map_iff in Hin. destruct Hin as (y & Hy & Hiny).
      assert (Ha := Hr a (or_introl eq_refl)). assert (Hy' := Hr y (or_intror Hiny)).
      unfold f in Hy. assert (y = a) by lia. subst. contradiction.
    - apply IH; [assumption|]. intros x Hx. apply Hr. right; exact Hx. }
  assert (Hincl : incl (map f l) (seq 0 (Z.to_nat (hi - lo - 1)))).
  { intros n Hn. apply in_map_iff in Hn. destruct Hn as (y & <- & Hiny).
    apply in_seq. specialize (Hr y Hiny). unfold f. lia. }
  pose proof (NoDup_incl_length Hinj Hincl) as H.
  rewrite map_length, seq_length in H. exact H.
Qed.

Lemma sections_of_app a b : sections_of (a ++ b) = sections_of a ++ sections_of b.
Proof. unfold sections_of. apply flat_map_app. Qed.

Lemma sections_of_rev t : sections_of (rev t) = rev (sections_of t).
Proof.
  induction t as [|e t IH]; [reflexivity|].
  cbn [rev]. rewrite sections_of_app, IH. destruct e; cbn; [reflexivity|].
  rewrite app_nil_r. reflexivity.
Qed.

Section LoopProofs.
  Variable read_section : Z -> res xsection.
  Variable read_stm : Z -> res unit.
  Variable size hdr : Z.

  Definition in_range (o : Z) : Prop := hdr < o < size.

  Definition inv (seen : list Z) (trace : list event) : Prop :=
    NoDup (sections_of trace) /\
    (forall o, In o (sections_of trace) -> In o seen /\ in_range o).

  (* where an error of the loop can come from *)
  Definition err_origin (c : cls) : Prop :=
    c = Malformed \/ (exists o, read_section o = Err c) \/ (exists o, read_stm o = Err c).

  Definition good_result (r : res (list event)) : Prop :=
    match r with
    | Ok t => NoDup (sections_of t) /\ (forall o, In o (sections_of t) -> in_range o)
    | Err c => err_origin c
    end.

  Lemma inv_good seen trace : inv seen trace -> good_result (Ok (rev trace)).
  Proof.
    intros (Hnd & Hin). cbn. rewrite sections_of_rev. split.
    - apply NoDup_rev. exact Hnd.
    - intros o Ho. apply in_rev in Ho. apply Hin. exact Ho.
  Qed.

  Lemma prev_loop_total :
    forall fuel seen trace start,
      inv seen trace -> in_range start ->
      (Z.to_nat (size - hdr - 1) <= length (sections_of trace) + fuel)%nat ->
      good_result (prev_loop read_section read_stm size hdr fuel seen trace start).
  Proof.
    induction fuel as [|f IH]; intros seen trace start Hinv Hr Hf.
    - cbn [prev_loop]. destruct (zmem start seen) eqn:Hm; [apply (inv_good seen); exact Hinv|].
      exfalso. apply zmem_not_In in Hm. destruct Hinv as (Hnd & Hin).
      assert (Hnd' : NoDup (start :: sections_of trace)).
      { constructor; [|exact Hnd]. intros H. apply Hin in H. tauto. }
      assert (Hlen := nodup_range_length (start :: sections_of trace) hdr size Hnd').
      cbn [length] in Hlen. rewrite Nat.add_0_r in Hf.
      assert (forall x, In x (start :: sections_of trace) -> hdr < x < size).
      { intros x [<-|Hx]; [exact Hr|]. apply Hin in Hx. apply Hx. }
      specialize (Hlen H). lia.
    - cbn [prev_loop]. destruct (zmem start seen) eqn:Hm; [apply (inv_good seen); exact Hinv|].
      apply zmem_not_In in Hm.
      destruct (read_section start) as [sec|c] eqn:Hrs;
        [|cbn; right; left; eauto].
      (* the invariant after recording this section, for any superset of seen1 *)
      assert (Hinv1 : forall seen2 tr2,
                 (forall o, In o (start :: seen) -> In o seen2) ->
                 sections_of tr2 = start :: sections_of trace ->
                 inv seen2 tr2).
      { intros seen2 tr2 Hsub Hs. destruct Hinv as (Hnd & Hin). unfold inv. rewrite Hs. split.
        - constructor; [|exact Hnd]. intros H. apply Hin in H. tauto.
        - intros o [<-|Ho].
          + split; [apply Hsub; left; reflexivity|exact Hr].
          + destruct (Hin o Ho) as [H1 H2]. split; [apply Hsub; right; exact H1|exact H2]. }
      (* continue with /Prev once the XRefStm part is done *)
      assert (Hcont : forall seen2 tr2,
                 (forall o, In o (start :: seen) -> In o seen2) ->
                 sections_of tr2 = start :: sections_of trace ->
                 good_result
                   match prev sec with
                   | TAbsent => Ok (rev tr2)
                   | TNotInt => Err Malformed
                   | TInt p =>
                     if (p <=? 0) || (size - hdr <=? p) then Err Malformed
                     else prev_loop read_section read_stm size hdr f seen2 tr2 (p + hdr)
                   end).
      { intros seen2 tr2 Hsub Hs. specialize (Hinv1 seen2 tr2 Hsub Hs).
        destruct (prev sec) as [| |p].
        - apply (inv_good seen2). exact Hinv1.
        - cbn. left. reflexivity.
        - destruct ((p <=? 0) || (size - hdr <=? p)) eqn:Hp; [cbn; left; reflexivity|].
          apply orb_false_iff in Hp. destruct Hp as [Hp1 Hp2].
          apply Z.leb_gt in Hp1. apply Z.leb_gt in Hp2.
          apply IH; [exact Hinv1|unfold in_range; lia|].
          rewrite Hs. cbn [length]. lia. }
      destruct (is_table sec).
      + destruct (xrefstm sec) as [| |z].
        * apply Hcont; [auto|reflexivity].
        * cbn. left. reflexivity.
        * destruct (zmem (swrap 64 (z + hdr)) (start :: seen)).
          -- apply Hcont; [auto|reflexivity].
          -- destruct (read_stm (swrap 64 (z + hdr))) as [u|c] eqn:Hst.
             ++ apply Hcont; [intros o Ho; right; exact Ho|reflexivity].
             ++ cbn. right. right. eauto.
      + apply Hcont; [auto|reflexivity].
  Qed.
End LoopProofs.

(* statement used by Prop_C05.v *)
Theorem prev_chain_total_lemma :
  forall (read_section : Z -> res xsection) (read_stm : Z -> res unit)
         (size hdr start0 : Z) (fuel : nat),
    hdr < start0 < size ->
    (prev_fuel size hdr <= fuel)%nat ->
    match read_xref read_section read_stm size hdr fuel start0 with
    | Ok t =>
      NoDup (sections_of t) /\
      (forall o, In o (sections_of t) -> hdr < o < size) /\
      (length (sections_of t) <= prev_fuel size hdr)%nat
    | Err c =>
      c = Malformed \/ (exists o, read_section o = Err c) \/ (exists o, read_stm o = Err c)
    end.
Proof.
  intros read_section read_stm size hdr start0 fuel Hs Hf.
  unfold read_xref, prev_fuel in *.
  pose proof (prev_loop_total read_section read_stm size hdr fuel [] [] start0) as H.
  assert (Hinv : inv size hdr [] []).
  { split; [constructor|]. intros o []. }
  specialize (H Hinv Hs). cbn [sections_of flat_map length] in H.
  assert (Hle : (Z.to_nat (size - hdr - 1) <= 0 + fuel)%nat) by lia.
  specialize (H Hle).
  destruct (prev_loop read_section read_stm size hdr fuel [] [] start0) as [t|c]; cbn in H.
  - destruct H as [Hnd Hin]. split; [exact Hnd|]. split; [exact Hin|].
    pose proof (nodup_range_length (sections_of t) hdr size Hnd Hin). lia.
  - exact H.
Qed.
