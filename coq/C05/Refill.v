(* C05 (1): the scanner's buffer state machine (scanner.go: refill, PeekN,
   ReadByte, ScanBytes, SkipWhiteSpace) over a source that is a byte string
   followed by a terminal event.  Definitions only; proofs in RefillProofs.v.

   Faithfulness notes
   - io.ReadFull hides how the underlying Read calls chunk the data; what the
     scanner sees is "as many bytes as fit, or everything that is left together
     with the terminal event".  io.EOF and io.ErrUnexpectedEOF are both mapped
     to "no error" by refill, so the terminal event is TEOF or an error TErr id
     (reported as class IO id).
   - [buf] is s.buf[0:s.used]; [cap] is len(s.buf) = scannerBufSize.
   - every slice / index expression that could panic is an explicit Err Panic. *)
From Coq Require Import List NArith ZArith Bool Arith Lia.
From GoPdf.Base Require Import Bytes Res.
From GoPdf.Gen Require Import Gen_Consts Gen_C05.
Import ListNotations.
Close Scope Z_scope.
Close Scope N_scope.
Open Scope nat_scope.

Inductive term := TEOF | TErr (id : N).

Record src := mkSrc { sdata : bytes; sterm : term }.

(* io.ReadFull(src, p) with len(p) = k: bytes delivered, non-EOF error, rest *)
Definition read_full (k : nat) (s : src) : bytes * option cls * src :=
  match k with
  | O => ([], None, s)
  | _ =>
    if k <=? length (sdata s) then
      (firstn k (sdata s), None, mkSrc (skipn k (sdata s)) (sterm s))
    else
      (sdata s,
       match sterm s with TEOF => None | TErr id => Some (IO id) end,
       mkSrc [] (sterm s))
  end.

Record sc := mkSc {
  filepos : nat;          (* s.filePos *)
  buf : bytes;            (* s.buf[:s.used] *)
  pos : nat;              (* s.pos *)
  latch : option cls;     (* s.err *)
  source : src
}.

Definition used (s : sc) : nat := length (buf s).

Definition new_scanner (s : src) : sc := mkSc 0 [] 0 None s.

(* func (s *scanner) refill() error *)
Definition refill (cap : nat) (s : sc) : res (option cls * sc) :=
  match latch s with
  | Some e => Ok (Some e, s)
  | None =>
    if used s <? pos s then Err Panic            (* s.buf[s.pos:s.used] *)
    else
      let rest := skipn (pos s) (buf s) in
      if cap <? length rest then Err Panic       (* s.buf[s.used:] *)
      else
        let '(got, e, src') := read_full (cap - length rest) (source s) in
        let s' := mkSc (filepos s + pos s) (rest ++ got) 0 e src' in
        match e with
        | Some c => Ok (match got with [] => Some c | _ => None end, s')
        | None => Ok (None, s')
        end
  end.

(* func (s *scanner) PeekN(n int) ([]byte, error) *)
Definition peek_n (cap n : nat) (s : sc) : res (bytes * option cls * sc) :=
  if cap <? n then Err Panic                     (* panic("peek window too large") *)
  else if used s <? pos s + n then
    match refill cap s with
    | Err c => Err c
    | Ok (err, s') =>
      if used s' <? pos s' + n then
        if used s' <? pos s' then Err Panic      (* s.buf[s.pos:s.used] *)
        else
          (* a refill that got data together with a read error latches the
             error and reports success; if the data is still too short, the
             latched error is the reason, not the end of the input *)
          let err' := match err with None => latch s' | e => e end in
          Ok (skipn (pos s') (buf s'), err', s')
      else Ok (firstn n (skipn (pos s') (buf s')), None, s')
    end
  else Ok (firstn n (skipn (pos s) (buf s)), None, s).

Definition advance (n : nat) (s : sc) : sc :=
  mkSc (filepos s) (buf s) (pos s + n) (latch s) (source s).

(* func (s *scanner) ReadByte() (byte, error) *)
Definition read_byte (cap : nat) (s : sc) : res (option byte * option cls * sc) :=
  match peek_n cap 1 s with
  | Err c => Err c
  | Ok (bs, err, s') =>
    match err with
    | Some EOF | None =>
      match bs with
      | [] => Ok (None, Some EOF, s')
      | b :: _ => Ok (Some b, None, advance 1 s')
      end
    | Some c => Ok (None, Some c, s')
    end
  end.

Section Scan.
  (* the accept closure of ScanBytes as a state machine: None = "return false" *)
  Variable A : Type.
  Variable accept : A -> byte -> option A.

  (* the inner loop `for s.pos < s.used` over buf[pos:used] *)
  Fixpoint eat (a : A) (l : bytes) (n : nat) : A * nat * bool :=
    match l with
    | [] => (a, n, false)
    | b :: l' =>
      match accept a b with
      | None => (a, n, true)
      | Some a' => eat a' l' (S n)
      end
    end.

  (* func (s *scanner) ScanBytes(accept func(b byte) bool) error
     [fixed] = true: the code as it is now; false: the code before the F16
     repair (the `if err != nil && err != io.EOF { return err }` lines absent) *)
  Fixpoint scan_bytes_gen (fixed : bool) (cap fuel : nat) (a : A) (empty : bool) (s : sc)
    : res (A * option cls * sc) :=
    match fuel with
    | O => Err OutOfFuel
    | S f =>
      let '(a', n, rejected) := eat a (skipn (pos s) (buf s)) 0 in
      let s1 := advance n s in
      if rejected then Ok (a', None, s1)
      else
        let empty' := empty && (n =? 0) in
        match refill cap s1 with
        | Err c => Err c
        | Ok (err, s2) =>
          let tail :=
            if used s2 =? 0 then
              Ok (a', (match err with None => Some EOF | e => e end), s2)
            else scan_bytes_gen fixed cap f a' empty' s2 in
          match err with
          | Some EOF => if negb empty' then Ok (a', None, s2) else tail
          | Some c => if fixed then Ok (a', Some c, s2) else tail
          | None => tail
          end
        end
    end.

  Definition scan_bytes := scan_bytes_gen true.
  Definition scan_bytes_prefix := scan_bytes_gen false.   (* the pre-fix code *)
End Scan.

(* func (s *scanner) SkipWhiteSpace() error *)
Definition is_space (b : byte) : bool :=
  Z.eqb (nth (N.to_nat b) class 0%Z) space.

Definition ws_accept (is_comment : bool) (b : byte) : option bool :=
  if is_comment then
    Some (negb ((b =? 13)%N || (b =? 10)%N))
  else if (b =? 37)%N then Some true
  else if is_space b then Some false else None.

Definition skip_white_space (cap fuel : nat) (s : sc) : res (bool * option cls * sc) :=
  scan_bytes bool ws_accept cap fuel false true s.
Definition skip_white_space_prefix (cap fuel : nat) (s : sc) : res (bool * option cls * sc) :=
  scan_bytes_prefix bool ws_accept cap fuel false true s.

(* the digit run of ReadInteger (sign only in front) *)
Definition int_accept (first : bool) (b : byte) : option bool :=
  if first && ((b =? 43)%N || (b =? 45)%N) then Some false
  else if (48 <=? b)%N && (b <=? 57)%N then Some false
  else None.

Definition scan_int (cap fuel : nat) (s : sc) : res (bool * option cls * sc) :=
  scan_bytes bool int_accept cap fuel true true s.

Definition cap0 : nat := Z.to_nat scannerBufSize.

(* fuel that always suffices (RefillProofs.scan_bytes_total) *)
Definition scan_fuel (s : sc) : nat := length (sdata (source s)) + 2.

Definition current_pos (s : sc) : nat := filepos s + pos s.

(* a little interpreter for the correspondence run: a program of scanner
   calls, each observed as (error class, CurrentPos, bytes peeked / read) *)
Inductive op := OpWS | OpInt | OpPeek (n : nat) | OpByte | OpSkip (n : nat).

Inductive obs := Obs (err : option cls) (cpos : nat) (data : bytes) | ObsPanic | ObsFuel.

Definition run_op (fixed : bool) (o : op) (s : sc) : obs * sc :=
  match o with
  | OpWS =>
    match scan_bytes_gen bool ws_accept fixed cap0 (scan_fuel s) false true s with
    | Ok (_, e, s') => (Obs e (current_pos s') [], s')
    | Err OutOfFuel => (ObsFuel, s)
    | Err _ => (ObsPanic, s)
    end
  | OpInt =>
    match scan_bytes_gen bool int_accept fixed cap0 (scan_fuel s) true true s with
    | Ok (_, e, s') => (Obs e (current_pos s') [], s')
    | Err OutOfFuel => (ObsFuel, s)
    | Err _ => (ObsPanic, s)
    end
  | OpPeek n =>
    match peek_n cap0 n s with
    | Ok (bs, e, s') => (Obs e (current_pos s') bs, s')
    | Err _ => (ObsPanic, s)
    end
  | OpByte =>
    match read_byte cap0 s with
    | Ok (Some b, e, s') => (Obs e (current_pos s') [b], s')
    | Ok (None, e, s') => (Obs e (current_pos s') [], s')
    | Err _ => (ObsPanic, s)
    end
  | OpSkip n =>
    (* s.pos += n after a successful PeekN(n), as the callers do *)
    match peek_n cap0 n s with
    | Ok (bs, e, s') =>
      if length bs =? n then (Obs e (current_pos s' + n) [], advance n s')
      else (Obs e (current_pos s') bs, s')
    | Err _ => (ObsPanic, s)
    end
  end.

Fixpoint run_ops (fixed : bool) (os : list op) (s : sc) : list obs :=
  match os with
  | [] => []
  | o :: os' => let '(ob, s') := run_op fixed o s in ob :: run_ops fixed os' s'
  end.
