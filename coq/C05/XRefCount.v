(* C05 (5): the number of cross-reference stream entries that are decoded
   (one heap allocation each) is bounded by the TRANSLATED limits.MaxXRefEntries
   of the stream's on-disk length, for any /Size, /Index, /W.
   xref.go: checkXRefStreamDict, decodeXRefStream, decodeInt.  Definitions only. *)
From Coq Require Import List NArith ZArith Bool Lia.
From GoPdf.Base Require Import Bytes Res.
From GoPdf.Gen Require Import Gen_Consts Gen_Limits.
Import ListNotations.
Close Scope N_scope.
Open Scope Z_scope.

(* the dictionary values the check looks at *)
Inductive obj :=
| OInt (z : Z)
| OArr (l : list obj)
| ONull                 (* key absent or null *)
| OOther.               (* any other type *)

Definition int64_max : Z := 9223372036854775807.

(* W: array of exactly three integers in 0..8 *)
Fixpoint check_w (l : list obj) : option (list Z) :=
  match l with
  | [] => Some []
  | OInt wi :: l' =>
    if (wi <? 0) || (8 <? wi) then None
    else match check_w l' with Some r => Some (wi :: r) | None => None end
  | _ :: _ => None
  end.

(* the loop over /Index pairs *)
Fixpoint check_index (size : Z) (l : list obj) : option (list (Z * Z)) :=
  match l with
  | [] => Some []
  | OInt st :: OInt sz :: l' =>
    if (st <? 0) || (sz <=? 0) || (size <? st) || (size - st <? sz) then None
    else match check_index size l' with
         | Some r => Some ((uwrap 32 st, uwrap 32 sz) :: r)
         | None => None
         end
  | _ => None
  end.

(* `total += int64(sec.Size)` *)
Definition total_entries (ss : list (Z * Z)) : Z :=
  fold_left (fun acc s => swrap 64 (acc + snd s)) ss 0.

(* func checkXRefStreamDict(dict Dict, rawLen int64) ([]int, []*xRefSubSection, error) *)
Definition check_xref_stream_dict (size_o w_o index_o : obj) (rawLen : Z)
  : res (list Z * list (Z * Z)) :=
  match size_o with
  | OInt size =>
    if (size <? 0) || (maxXRefSize <? size) then Err Malformed
    else
      match w_o with
      | OArr wl =>
        if negb (Nat.eqb (length wl) 3) then Err Malformed
        else
          match check_w wl with
          | None => Err Malformed
          | Some w =>
            match w with
            | [w0; w1; w2] =>
              if w0 + w1 + w2 =? 0 then Err Malformed
              else
                let ssr :=
                  match index_o with
                  | ONull => Some [(0, uwrap 32 size)]
                  | OArr ind =>
                    if negb (Nat.even (length ind)) then None else check_index size ind
                  | _ => None
                  end in
                match ssr with
                | None => Err Malformed
                | Some ss =>
                  let maxEntries := Z.min maxXRefSize (MaxXRefEntries rawLen) in
                  if maxEntries <? total_entries ss then Err Malformed
                  else Ok (w, ss)
                end
            | _ => Err Panic           (* w[0], w[1], w[2] *)
            end
          end
      | _ => Err Malformed
      end
  | _ => Err Malformed
  end.

(* func decodeInt(buf []byte) (int64, error) *)
Definition decode_int (bs : bytes) : option Z :=
  let v := fold_left (fun acc b => acc * 256 + Z.of_N b) bs 0 in
  if int64_max <? v then None else Some v.

Inductive xentry :=
| XFree (gen : Z)
| XUsed (pos gen : Z)
| XInStm (stm idx : Z).

Definition xmem (i : Z) (x : list (Z * xentry)) : bool := existsb (fun e => Z.eqb (fst e) i) x.

(* one loop body of decodeXRefStream after io.ReadFull delivered [buf] *)
Definition decode_entry (w0 w1 w2 : Z) (buf : bytes) : res (option xentry) :=
  let n0 := Z.to_nat w0 in let n1 := Z.to_nat w1 in let n2 := Z.to_nat w2 in
  if (length buf <? n0 + n1 + n2)%nat then Err Panic      (* buf[w0+w1 : w0+w1+w2] *)
  else
    match decode_int (firstn n0 buf) with
    | None => Ok None
    | Some tp0 =>
      let tp := if w0 =? 0 then 1 else tp0 in
      match decode_int (firstn n1 (skipn n0 buf)) with
      | None => Ok None
      | Some a =>
        match decode_int (firstn n2 (skipn (n0 + n1) buf)) with
        | None => Ok None
        | Some b =>
          if tp =? 0 then (if maxGeneration <? b then Ok None else Ok (Some (XFree b)))
          else if tp =? 1 then (if maxGeneration <? b then Ok None else Ok (Some (XUsed a b)))
          else if tp =? 2 then (if maxXRefSize <=? a then Ok None else Ok (Some (XInStm a b)))
          else Ok None
        end
      end
    end.

(* func decodeXRefStream(xref, r, w, ss): the two nested loops flattened.
   [cur] = Some (i, end) inside `for i := sec.Start; i < sec.Start+sec.Size; i++`
   (uint32 arithmetic).  Returns the map (new entries in front), the number of
   loop-body executions and the read error that stopped the loop, if any. *)
Fixpoint decode_loop (fuel : nat) (w0 w1 w2 : Z) (cur : option (Z * Z)) (ss : list (Z * Z))
         (data : bytes) (xref : list (Z * xentry)) (iters : nat)
  : res (list (Z * xentry) * nat * option cls) :=
  match fuel with
  | O => Err OutOfFuel
  | S f =>
    match cur with
    | None =>
      match ss with
      | [] => Ok (xref, iters, None)
      | (st, sz) :: ss' => decode_loop f w0 w1 w2 (Some (st, uwrap 32 (st + sz))) ss' data xref iters
      end
    | Some (i, e) =>
      if i <? e then
        let wt := Z.to_nat (w0 + w1 + w2) in
        let buf := firstn wt data in
        if (length buf <? wt)%nat then Ok (xref, S iters, Some EOF)      (* io.ReadFull fails *)
        else
          let data' := skipn wt data in
          let next := Some (uwrap 32 (i + 1), e) in
          if xmem i xref then decode_loop f w0 w1 w2 next ss data' xref (S iters)
          else
            match decode_entry w0 w1 w2 buf with
            | Err c => Err c
            | Ok None => decode_loop f w0 w1 w2 next ss data' xref (S iters)
            | Ok (Some en) => decode_loop f w0 w1 w2 next ss data' ((i, en) :: xref) (S iters)
            end
      else decode_loop f w0 w1 w2 None ss data xref iters
    end
  end.

Definition sum_sizes (ss : list (Z * Z)) : Z := fold_right (fun s acc => snd s + acc) 0 ss.

Definition decode_fuel (ss : list (Z * Z)) : nat :=
  S (Z.to_nat (sum_sizes ss) + 2 * length ss).

Definition decode_xref_stream (w : list Z) (ss : list (Z * Z)) (data : bytes) (xref : list (Z * xentry))
  : res (list (Z * xentry) * nat * option cls) :=
  match w with
  | w0 :: w1 :: w2 :: _ => decode_loop (decode_fuel ss) w0 w1 w2 None ss data xref 0
  | _ => Err Panic                       (* w[0], w[1], w[2] *)
  end.

(* readXRefStream: check, then decode *)
Definition read_xref_stream (size_o w_o index_o : obj) (rawLen : Z) (data : bytes)
           (xref : list (Z * xentry)) : res (list (Z * xentry) * nat * option cls) :=
  match check_xref_stream_dict size_o w_o index_o rawLen with
  | Err c => Err c
  | Ok (w, ss) => decode_xref_stream w ss data xref
  end.
