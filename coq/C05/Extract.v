Require Extraction.
Require Import ExtrOcamlBasic.
From GoPdf.Base Require Import WireAnchor.
From GoPdf.C05 Require Import Refill PrevChain Resolve Walk XRefCount ObjStmGet Nest ObjStmIndex DecodePath.
Separate Extraction wire_anchor
  Refill.run_ops Refill.new_scanner
  PrevChain.read_xref PrevChain.prev_fuel
  Resolve.resolve_in
  Walk.iter_pages Walk.find_pages Walk.tree_all Walk.outline_items
  XRefCount.read_xref_stream
  ObjStmGet.get_in
  Nest.read_indirect
  ObjStmIndex.objstm_find
  DecodePath.decode_in.
