From Coq Require Import List NArith ZArith Bool Lia.
From GoPdf.Base Require Import Res.
From GoPdf.Gen Require Import Gen_C05.
From GoPdf.C05 Require Import Resolve ResolveProofs DecodePath.
Import ListNotations.
Close Scope Z_scope.
Open Scope nat_scope.

Section Proofs.
  Variable get : N -> dnode.

  Lemma dec_kids_no_fuel rec s ks :
    (forall s' k, rec s' k <> DFuel) -> dec_kids rec s ks <> DFuel.
  Proof.
    intros Hrec. revert s. induction ks as [|k ks IH]; intros s; cbn [dec_kids]; [discriminate|].
    pose proof (Hrec s k) as H. destruct (rec s k); try discriminate; [apply IH|exact H].
  Qed.

  (* nested Decode calls: each one extends the path, the path never exceeds
     MaxExtractDepth, so the nesting is bounded for ANY graph *)
  Lemma dec_ref_no_fuel :
    forall fuel path refs s ref,
      (Z.of_nat (length path) <= MaxExtractDepth)%Z ->
      S (S (Z.to_nat MaxExtractDepth)) <= fuel + length path ->
      dec_ref get fuel path refs s ref <> DFuel.
  Proof.
    induction fuel as [|f IH]; intros path refs s ref Hp Hf; [lia|].
    cbn [dec_ref]. destruct (nmem ref (cache s)); [discriminate|].
    destruct (step path ref) as [path'| |] eqn:Hs; try discriminate.
    destruct (step_ok _ _ _ Hs) as (-> & _ & Hlen).
    assert (Hf' : S (S (Z.to_nat MaxExtractDepth)) <= f + length (ref :: path)) by (cbn [length]; lia).
    destruct (get ref) as [r'|kids| |c]; try discriminate.
    - apply IH; assumption.
    - pose proof (dec_kids_no_fuel
                    (fun s' k => dec_ref get f (ref :: path) [] s' k)
                    (mkD (cache s) (S (gets s))) kids) as Hk.
      destruct (dec_kids _ _ kids); try discriminate.
      apply Hk. intros s' k. apply IH; assumption.
  Qed.
End Proofs.

Theorem decode_depth_bounded_lemma :
  forall (get : N -> dnode) (fuel : nat) (ref : N) (s : dstate),
    decode_fuel <= fuel ->
    dec_ref get fuel [] [] s ref <> DFuel.
Proof.
  intros get fuel ref s Hf. apply dec_ref_no_fuel.
  - cbn. unfold MaxExtractDepth. lia.
  - unfold decode_fuel in Hf. cbn [length]. lia.
Qed.
