(* C05 (6): the resolution discipline of object streams (reader.go: Reader.get,
   getFromObjStm, getObjStm; container.go: DecodeStream/GetFilters).
   Reading a member of an object stream needs the stream object itself and the
   indirect values of its dictionary (/Filter, /DecodeParms, array elements,
   /Length ...).  The code fetches all of these with canObjStm = false, so that
   Reader.get is never re-entered through another object stream.  The
   cross-reference table is an ARBITRARY function: any object may be claimed
   to be compressed in any stream (itself included).  [depflag] is the
   canObjStm value used for the dictionary entries: false in the code as it
   is; true gives the variant that re-enters.  Definitions only. *)
From Coq Require Import List NArith Bool.
From GoPdf.Base Require Import Res.
Import ListNotations.

Inductive sobj :=
| SRef (r : N)              (* an indirect reference *)
| SStm (id : N) (deps : list N)   (* the stream object number id, whose dictionary has these indirect entries *)
| SVal.                     (* anything else (null, name, number, dict) *)

(* what is stored for a compressed object inside the object stream's data *)
Inductive mval :=
| MObj (o : sobj)               (* an ordinary object *)
| MStreamShaped (len : N).      (* `<< /Length len 0 R >> stream ...`: a dictionary followed by
                                   the keyword stream (not allowed inside an object stream) *)

Inductive entry :=
| EFree                     (* free or missing: reads as null *)
| EDirect (o : sobj)        (* type 1: the object at a file offset *)
| EInStm (s : N).           (* type 2: compressed in object stream s *)

Definition depth_cap : nat := 256.   (* limits.MaxExtractDepth, see Resolve.v *)

(* resolve(r, obj, canObjStm): follow references through [g] = Reader.get,
   depth-capped (the cycle check yields the same error class) *)
Fixpoint resolve_with (g : N -> bool -> res sobj) (k : nat) (r : N) (can : bool) : res sobj :=
  match k with
  | O => Err Malformed
  | S k' =>
    match g r can with
    | Ok (SRef r') => resolve_with g k' r' can
    | other => other
    end
  end.

(* getObjStm -> DecodeStream -> GetFilters: fetch the indirect dictionary entries *)
Fixpoint deps_with (g : N -> bool -> res sobj) (flag : bool) (result : sobj) (ds : list N) : res sobj :=
  match ds with
  | [] => Ok result
  | d :: ds' =>
    match resolve_with g depth_cap d flag with
    | Err c => Err c
    | Ok _ => deps_with g flag result ds'
    end
  end.

(* contents.s.ReadObject() for the member.  A scanner inside an object stream
   has no access to the file: since F40 ReadStreamData refuses a stream-shaped
   member before looking at its /Length; before, it first resolved the
   indirect /Length through lengthGetter.Get (canObjStm = true), ignored a
   malformed result and only then refused. *)
Definition read_member (g : N -> bool -> res sobj) (f40 : bool) (m : mval) : res sobj :=
  match m with
  | MObj o => Ok o
  | MStreamShaped l =>
    if f40 then Err Malformed
    else
      match resolve_with g depth_cap l true with
      | Err Malformed => Err Malformed
      | Err c => Err c
      | Ok _ => Err Malformed
      end
  end.

Section Get.
  Variable xref : N -> entry.
  Variable member : N -> mval.     (* the value stored for a compressed object *)
  Variable depflag : bool.         (* canObjStm used for the dictionary entries: false in the code *)
  Variable f40 : bool.             (* true: the code as it is *)

  (* Reader.get(ref, canObjStm); the fuel bounds the NESTING of get calls *)
  Fixpoint get (fuel : nat) (ref : N) (can : bool) {struct fuel} : res sobj :=
    match fuel with
    | O => Err OutOfFuel
    | S f =>
      match xref ref with
      | EFree => Ok SVal
      | EDirect o => Ok o
      | EInStm s =>
        if can then
          (* getFromObjStm: container, err := resolve(r, sRef, false) *)
          match resolve_with (get f) depth_cap s false with
          | Ok (SStm id deps) =>
            match deps_with (get f) depflag SVal deps with
            | Err c => Err c
            | Ok _ =>
              (* the index of the stream that was found must list the object *)
              if N.eqb id s then read_member (get f) f40 (member ref)
              else Err Malformed            (* "object not found" *)
            end
          | Ok _ => Err Malformed           (* not a stream *)
          | Err c => Err c
          end
        else Err Malformed                  (* "object in object stream" *)
      end
    end.
End Get.

(* association-list front end for the executable driver *)
Fixpoint alookup {X} (d : X) (g : list (N * X)) (r : N) : X :=
  match g with
  | [] => d
  | (k, v) :: g' => if N.eqb k r then v else alookup d g' r
  end.

Definition get_in (xr : list (N * entry)) (mem : list (N * mval)) (ref : N) : res sobj :=
  get (alookup EFree xr) (alookup (MObj SVal) mem) false true 2 ref true.
