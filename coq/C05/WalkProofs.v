From Coq Require Import List NArith ZArith Bool Lia Arith.
From GoPdf.Base Require Import Res.
From GoPdf.Gen Require Import Gen_C05.
From GoPdf.C05 Require Import Walk.
Import ListNotations.
Close Scope Z_scope.
Open Scope nat_scope.

Lemma nmem_In x l : nmem x l = true <-> In x l.
Proof.
  unfold nmem. rewrite existsb_exists. split.
  - intros (y & Hy & He). apply N.eqb_eq in He. subst. exact Hy.
  - intros H. exists x. split; [exact H|apply N.eqb_refl].
Qed.

Lemma nmem_cons x a l : nmem x (a :: l) = ((x =? a)%N || nmem x l).
Proof. reflexivity. Qed.

Arguments nmem : simpl never.

Lemma nmem_not_In x l : nmem x l = false <-> ~ In x l.
Proof. rewrite <- nmem_In. destruct (nmem x l); split; congruence. Qed.

Lemma lookup_In {X} (g : list (N * X)) r v : lookup g r = Some v -> exists k, In (k, v) g.
Proof.
  induction g as [|[k w] g IH]; cbn; [discriminate|].
  destruct (N.eqb k r).
  - intros H; inversion H; subst. exists k. left; reflexivity.
  - intros H. destruct (IH H) as [k' Hk]. exists k'. right; exact Hk.
Qed.

(* ------------------------------------------------------------------ *)
(* counting the references of the universe that are not yet in the seen set *)

Definition count_unseen (seen U : list N) : nat :=
  length (filter (fun u => negb (nmem u seen)) U).

Lemma cu_mono seen seen' U :
  (forall x, In x seen -> In x seen') -> count_unseen seen' U <= count_unseen seen U.
Proof.
  intros Hs. unfold count_unseen. induction U as [|a U IH]; cbn [filter length]; [lia|].
  destruct (nmem a seen) eqn:E1; destruct (nmem a seen') eqn:E2; cbn [negb length]; try lia.
  apply nmem_In in E1. apply Hs in E1. apply nmem_In in E1. congruence.
Qed.

Lemma cu_notin u seen U : ~ In u U -> count_unseen (u :: seen) U = count_unseen seen U.
Proof.
  unfold count_unseen. induction U as [|a U IH]; intros Hn; cbn [filter]; [reflexivity|].
  assert (Hne : a <> u) by (intros ->; apply Hn; left; reflexivity).
  assert (E : (a =? u)%N = false) by (apply N.eqb_neq; exact Hne).
  rewrite nmem_cons, E. cbn [orb].
  assert (IH' := IH (fun H => Hn (or_intror H))).
  destruct (negb (nmem a seen)); cbn [length]; rewrite IH'; reflexivity.
Qed.

Lemma cu_add u seen U :
  NoDup U -> In u U -> ~ In u seen -> S (count_unseen (u :: seen) U) = count_unseen seen U.
Proof.
  intros Hnd. induction Hnd as [|a U Hna Hnd IH]; intros Hin Hns; [destruct Hin|].
  destruct (N.eq_dec a u) as [->|Hne].
  - pose proof (cu_notin u seen U Hna) as Hc. unfold count_unseen in *. cbn [filter].
    rewrite nmem_cons, N.eqb_refl. cbn [orb negb].
    apply nmem_not_In in Hns. rewrite Hns. cbn [negb length]. rewrite Hc. reflexivity.
  - destruct Hin as [->|Hin]; [congruence|].
    specialize (IH Hin Hns). unfold count_unseen in *. cbn [filter].
    assert (E : (a =? u)%N = false) by (apply N.eqb_neq; exact Hne).
    rewrite nmem_cons, E. cbn [orb].
    destruct (negb (nmem a seen)); cbn [length]; lia.
Qed.

Lemma cu_add_list new seen U :
  NoDup U -> NoDup new -> (forall x, In x new -> In x U /\ ~ In x seen) ->
  count_unseen (new ++ seen) U + length new = count_unseen seen U.
Proof.
  intros HU. induction new as [|a new IH]; intros Hnd Hx; cbn [app length]; [lia|].
  inversion Hnd; subst.
  assert (Ha : In a U /\ ~ In a seen) by (apply Hx; left; reflexivity).
  rewrite <- (IH H2); [|intros x Hi; apply Hx; right; exact Hi].
  rewrite <- (cu_add a (new ++ seen) U HU (proj1 Ha)); [lia|].
  intros Hin. apply in_app_or in Hin. destruct Hin; [contradiction|]. apply Ha. assumption.
Qed.

Lemma nodup_app {X} (l1 l2 : list X) :
  NoDup l1 -> NoDup l2 -> (forall x, In x l1 -> ~ In x l2) -> NoDup (l1 ++ l2).
Proof.
  induction l1 as [|a l1 IH]; intros H1 H2 H; cbn; [exact H2|].
  inversion H1; subst. constructor.
  - intros Hin. apply in_app_or in Hin. destruct Hin as [Hin|Hin]; [contradiction|].
    apply (H a); [left; reflexivity|exact Hin].
  - apply IH; auto. intros x Hx. apply H. right; exact Hx.
Qed.

Lemma nodup_app_inv {X} (l1 l2 : list X) :
  NoDup (l1 ++ l2) -> NoDup l1 /\ NoDup l2 /\ (forall x, In x l1 -> ~ In x l2).
Proof.
  induction l1 as [|a l1 IH]; cbn; intros H.
  - split; [constructor|]. split; [exact H|intros x []].
  - inversion H; subst. destruct (IH H3) as (A & B & C). split.
    + constructor; [|exact A]. intros Hin. apply H2. apply in_or_app. left; exact Hin.
    + split; [exact B|]. intros x [<-|Hx]; [|apply C; exact Hx].
      intros Hin. apply H2. apply in_or_app. right; exact Hin.
Qed.

(* ------------------------------------------------------------------ *)
(* push_kids *)

Lemma push_fold l : forall t s,
  exists new,
    fold_left (fun (ts : list N * list N) k =>
                 let '(t, s) := ts in if nmem k s then (t, s) else (k :: t, k :: s)) l (t, s)
    = (new ++ t, new ++ s) /\
    NoDup new /\ (forall x, In x new -> In x l /\ ~ In x s).
Proof.
  induction l as [|k l IH]; intros t s; cbn [fold_left].
  - exists []. split; [reflexivity|]. split; [constructor|intros x []].
  - destruct (nmem k s) eqn:E.
    + destruct (IH t s) as (new & H1 & H2 & H3). exists new. split; [exact H1|]. split; [exact H2|].
      intros x Hx. destruct (H3 x Hx). split; [right; assumption|assumption].
    + destruct (IH (k :: t) (k :: s)) as (new & H1 & H2 & H3).
      exists (new ++ [k]). rewrite <- !app_assoc. cbn [app]. split; [exact H1|]. split.
      * apply nodup_app; [exact H2|constructor; [intros []|constructor]|].
        intros x Hx [Hk|[]]. subst x. destruct (H3 k Hx) as [_ Hn]. apply Hn. left; reflexivity.
      * intros x Hx. apply in_app_or in Hx. destruct Hx as [Hx|[<-|[]]].
        -- destruct (H3 x Hx) as [Ha Hb]. split; [right; exact Ha|]. intros Hs. apply Hb. right; exact Hs.
        -- split; [left; reflexivity|]. apply nmem_not_In. exact E.
Qed.

Lemma push_kids_spec kids todo seen :
  exists new,
    push_kids kids todo seen = (new ++ todo, new ++ seen) /\
    NoDup new /\ (forall x, In x new -> In x kids /\ ~ In x seen).
Proof.
  unfold push_kids. destruct (push_fold (rev kids) todo seen) as (new & H1 & H2 & H3).
  exists new. split; [exact H1|]. split; [exact H2|].
  intros x Hx. destruct (H3 x Hx) as [Ha Hb]. split; [apply in_rev; exact Ha|exact Hb].
Qed.

(* ------------------------------------------------------------------ *)
(* page tree walker *)

Section PageWalk.
  Variable frames : bool.
  Variable g : pgraph.
  Variable root : N.

  Let U := p_universe g root.

  Lemma U_nodup : NoDup U.
  Proof. apply NoDup_nodup. Qed.

  Lemma U_kids r nd k : lookup g r = Some nd -> In k (pkids nd) -> In k U.
  Proof.
    intros Hl Hk. unfold U, p_universe. apply nodup_In. right.
    apply in_flat_map. destruct (lookup_In g r nd Hl) as [k' Hin].
    exists (k', nd). split; [exact Hin|exact Hk].
  Qed.

  Definition pinv (todo : list N) (stack : list (list N)) (seen out : list N) : Prop :=
    NoDup (out ++ todo ++ concat stack) /\
    (forall x, In x (out ++ todo ++ concat stack) -> In x seen) /\
    (forall fr, In fr stack -> fr <> []) /\
    (forall x, In x out -> exists nd, lookup g x = Some nd /\ pkind_of nd = KPage).

  Definition pgood (r : res (list N)) : Prop :=
    match r with
    | Ok l => NoDup l /\ (forall x, In x l -> exists nd, lookup g x = Some nd /\ pkind_of nd = KPage)
    | Err c => exists r nd, lookup g r = Some nd /\ pkind_of nd = KFail c
    end.

  Definition phi (todo : list N) (stack : list (list N)) (seen : list N) : nat :=
    length todo + length (concat stack) + count_unseen seen U.

  Lemma pinv_done seen out : pinv [] [] seen out -> pgood (Ok (rev out)).
  Proof.
    intros (H1 & _ & _ & H4). cbn in H1. rewrite app_nil_r in H1. cbn. split.
    - apply NoDup_rev. exact H1.
    - intros x Hx. apply in_rev in Hx. apply H4. exact Hx.
  Qed.

  (* the state after taking [ref] from the work list *)
  Lemma pinv_drop ref todo2 stack seen out :
    pinv (ref :: todo2) stack seen out -> pinv todo2 stack seen out.
  Proof.
    intros (H1 & H2 & H3 & H4). split; [|split; [|split]]; auto.
    - apply NoDup_remove_1 in H1. exact H1.
    - intros x Hx. apply H2. apply in_app_or in Hx. apply in_or_app.
      destruct Hx as [Hx|Hx]; [left; exact Hx|right; right; exact Hx].
  Qed.

  Lemma pinv_page ref nd todo2 stack seen out :
    lookup g ref = Some nd -> pkind_of nd = KPage ->
    pinv (ref :: todo2) stack seen out -> pinv todo2 stack seen (ref :: out).
  Proof.
    intros Hl Hk (H1 & H2 & H3 & H4). split; [|split; [|split]]; auto.
    - apply NoDup_remove in H1. destruct H1 as [Ha Hb]. cbn. constructor; assumption.
    - intros x Hx. apply H2. cbn in Hx. destruct Hx as [<-|Hx].
      + apply in_or_app. right. left; reflexivity.
      + apply in_app_or in Hx. apply in_or_app.
        destruct Hx as [Hx|Hx]; [left; exact Hx|right; right; exact Hx].
    - intros x [<-|Hx]; [eauto|apply H4; exact Hx].
  Qed.

  Lemma walk_pages_total :
    forall fuel todo stack seen out,
      pinv todo stack seen out ->
      phi todo stack seen < fuel ->
      pgood (walk_pages frames g fuel todo stack seen out).
  Proof.
    induction fuel as [|f IH]; intros todo stack seen out Hinv Hphi; [lia|].
    (* normalise: the frame pop *)
    assert (Hmain : forall ref todo2 stack1,
               pinv (ref :: todo2) stack1 seen out ->
               phi (ref :: todo2) stack1 seen < S f ->
               pgood
                 match lookup g ref with
                 | None => walk_pages frames g f todo2 stack1 seen out
                 | Some nd =>
                   match pkind_of nd with
                   | KFail c => Err c
                   | KOther => walk_pages frames g f todo2 stack1 seen out
                   | KPage => walk_pages frames g f todo2 stack1 seen (ref :: out)
                   | KPages =>
                     let '(todo3, stack2) :=
                       if frames && pinh nd then
                         match todo2 with
                         | [] => (todo2, stack1)
                         | _ => ([], todo2 :: stack1)
                         end
                       else (todo2, stack1) in
                     let '(todo4, seen') := push_kids (pkids nd) todo3 seen in
                     walk_pages frames g f todo4 stack2 seen' out
                   end
                 end).
    { intros ref todo2 stack1 Hi Hp.
      assert (Hp2 : phi todo2 stack1 seen < f) by (unfold phi in *; cbn [length] in Hp; lia).
      destruct (lookup g ref) as [nd|] eqn:Hl.
      - destruct (pkind_of nd) eqn:Hk.
        + apply IH; [eapply pinv_page; eauto|exact Hp2].
        + (* KPages *)
          set (ts := if frames && pinh nd then
                       match todo2 with [] => (todo2, stack1) | _ => ([], todo2 :: stack1) end
                     else (todo2, stack1)).
          assert (Hts : fst ts ++ concat (snd ts) = todo2 ++ concat stack1 /\
                        (forall fr, In fr (snd ts) -> fr <> [])).
          { destruct Hi as (_ & _ & H3 & _). unfold ts.
            destruct (frames && pinh nd); [|cbn; auto].
            destruct todo2 as [|t todo2']; cbn; [auto|].
            split; [reflexivity|]. intros fr [<-|Hfr]; [discriminate|apply H3; exact Hfr]. }
          destruct ts as [todo3 stack2]. cbn [fst snd] in Hts. destruct Hts as [Hflat Hne].
          destruct (push_kids_spec (pkids nd) todo3 seen) as (new & Hpk & Hnd & Hnew). rewrite Hpk.
          pose proof (pinv_drop _ _ _ _ _ Hi) as (H1 & H2 & H3 & H4).
          apply IH.
          * split; [|split; [|split]]; auto.
            -- rewrite <- app_assoc, Hflat.
               (* out ++ new ++ todo2 ++ concat stack1 *)
               assert (Hd : forall x, In x new -> ~ In x (out ++ todo2 ++ concat stack1)).
               { intros x Hx Hin. apply H2 in Hin. destruct (Hnew x Hx) as [_ Hn]. contradiction. }
               destruct (nodup_app_inv _ _ H1) as (Ho & Hw & How).
               apply nodup_app; [exact Ho| |].
               ++ apply nodup_app; [exact Hnd|exact Hw|].
                  intros x Hx Hin. apply (Hd x Hx). apply in_or_app. right; exact Hin.
               ++ intros x Hx Hin. apply in_app_or in Hin. destruct Hin as [Hin|Hin].
                  ** apply (Hd x Hin). apply in_or_app. left; exact Hx.
                  ** apply (How x Hx Hin).
            -- intros x Hx. rewrite <- app_assoc, Hflat in Hx.
               apply in_app_or in Hx. destruct Hx as [Hx|Hx].
               ++ apply in_or_app. right. apply H2. apply in_or_app. left; exact Hx.
               ++ apply in_app_or in Hx. destruct Hx as [Hx|Hx].
                  ** apply in_or_app. left; exact Hx.
                  ** apply in_or_app. right. apply H2. apply in_or_app. right; exact Hx.
          * unfold phi in *. rewrite app_length.
            assert (Hl3 : length todo3 + length (concat stack2) = length todo2 + length (concat stack1)).
            { rewrite <- !app_length, Hflat. reflexivity. }
            pose proof (cu_add_list new seen U U_nodup Hnd) as Hcu.
            rewrite <- Hcu in Hp2; [lia|].
            intros x Hx. destruct (Hnew x Hx) as [Ha Hb]. split; [|exact Hb].
            eapply U_kids; eauto.
        + apply IH; [eapply pinv_drop; eauto|exact Hp2].
        + cbn. eauto.
      - apply IH; [eapply pinv_drop; eauto|exact Hp2]. }
    destruct todo as [|ref todo2].
    - destruct stack as [|fr st].
      + cbn [walk_pages]. apply (pinv_done seen). exact Hinv.
      + cbn [walk_pages].
        assert (Hfr : fr <> []) by (destruct Hinv as (_ & _ & H3 & _); apply H3; left; reflexivity).
        destruct fr as [|ref todo2]; [congruence|].
        apply Hmain.
        * destruct Hinv as (H1 & H2 & H3 & H4). cbn [app concat] in H1, H2.
          refine (conj _ (conj _ (conj _ _))).
          -- exact H1.
          -- intros x Hx. apply H2. exact Hx.
          -- intros fr Hin. apply H3. right; exact Hin.
          -- exact H4.
        * unfold phi in *. cbn [length concat] in *. rewrite app_length in Hphi. cbn [length] in *. lia.
    - destruct stack; cbn [walk_pages]; apply Hmain; assumption.
  Qed.
End PageWalk.

Theorem walk_pages_total_lemma :
  forall (frames : bool) (g : pgraph) (root : N) (fuel : nat),
    pages_fuel g root <= fuel ->
    match walk_pages frames g fuel [root] [] [root] [] with
    | Ok l => NoDup l /\ (forall x, In x l -> exists nd, lookup g x = Some nd /\ pkind_of nd = KPage)
    | Err c => exists r nd, lookup g r = Some nd /\ pkind_of nd = KFail c
    end.
Proof.
  intros frames g root fuel Hf.
  apply (walk_pages_total frames g root fuel [root] [] [root] []).
  - split; [|split; [|split]].
    + cbn. constructor; [intros []|constructor].
    + cbn. intros x [<-|[]]. left; reflexivity.
    + intros fr [].
    + intros x [].
  - unfold phi, pages_fuel in *. cbn [length concat].
    assert (Hroot : In root (p_universe g root)).
    { unfold p_universe. apply nodup_In. left; reflexivity. }
    pose proof (cu_add root [] (p_universe g root) (U_nodup g root) Hroot (fun H => H)) as Hc.
    assert (Hall : count_unseen [] (p_universe g root) <= length (p_universe g root)).
    { unfold count_unseen. generalize (p_universe g root). intros l.
      induction l as [|a l IHl]; cbn; [lia|]. destruct (negb (nmem a [])); cbn; lia. }
    lia.
Qed.

(* ------------------------------------------------------------------ *)
(* name / number tree walker *)

Section TreeWalk.
  Variable g : tgraph.

  Let U := t_universe g.

  Definition node_in_g (nd : tnode) : Prop := forall k, In k (tkids nd) -> In k U.

  Lemma lookup_node_in_g r nd : lookup g r = Some nd -> node_in_g nd.
  Proof.
    intros Hl k Hk. unfold U, t_universe. apply nodup_In. apply in_flat_map.
    destruct (lookup_In g r nd Hl) as [k' Hin]. exists (k', nd). split; [exact Hin|exact Hk].
  Qed.

  Definition tinv (seen acc : list N) : Prop :=
    NoDup acc /\ (forall x, In x acc -> In x seen).

  Definition tpost (seen acc : list N) (r : list N * list N) : Prop :=
    tinv (fst r) (snd r) /\ (forall x, In x seen -> In x (fst r)) /\
    (exists new, snd r = new ++ acc /\ forall x, In x new -> ~ In x seen /\ In x U).

  Lemma kids_loop_post rec :
    (forall ch seen acc, node_in_g ch -> tinv seen acc -> tpost seen acc (rec ch seen acc)) ->
    forall ks seen acc, (forall k, In k ks -> In k U) -> tinv seen acc ->
                        tpost seen acc (kids_loop g rec ks seen acc).
  Proof.
    intros Hrec. induction ks as [|k ks IH]; intros seen acc HksU Hinv; cbn [kids_loop].
    - split; [exact Hinv|]. split; [auto|]. exists []. split; [reflexivity|intros x []].
    - assert (HkU : In k U) by (apply HksU; left; reflexivity).
      assert (HksU' : forall k0, In k0 ks -> In k0 U) by (intros k0 H0; apply HksU; right; exact H0).
      destruct (nmem k seen) eqn:Hk; [apply IH; assumption|].
      apply nmem_not_In in Hk.
      assert (Hinv1 : tinv (k :: seen) (k :: acc)).
      { destruct Hinv as [Ha Hb]. split.
        - constructor; [|exact Ha]. intros Hin. apply Hk. apply Hb. exact Hin.
        - intros x [<-|Hx]; [left; reflexivity|right; apply Hb; exact Hx]. }
      destruct (lookup g k) as [ch|] eqn:Hl.
      + destruct (Hrec ch (k :: seen) (k :: acc) (lookup_node_in_g k ch Hl) Hinv1) as (Hi2 & Hs2 & new2 & Hn2 & Hd2).
        destruct (rec ch (k :: seen) (k :: acc)) as [seen2 acc2]. cbn [fst snd] in *.
        destruct (IH seen2 acc2 HksU' Hi2) as (Hi3 & Hs3 & new3 & Hn3 & Hd3).
        split; [exact Hi3|]. split.
        * intros x Hx. apply Hs3. apply Hs2. right; exact Hx.
        * exists (new3 ++ new2 ++ [k]). split.
          -- rewrite Hn3, Hn2. rewrite <- !app_assoc. reflexivity.
          -- intros x Hx. apply in_app_or in Hx. destruct Hx as [Hx|Hx].
             ++ destruct (Hd3 x Hx) as [Hn HU']. split; [|exact HU'].
                intros Hin. apply Hn. apply Hs2. right; exact Hin.
             ++ apply in_app_or in Hx. destruct Hx as [Hx|[<-|[]]].
                ** destruct (Hd2 x Hx) as [Hn HU']. split; [|exact HU'].
                   intros Hin. apply Hn. right; exact Hin.
                ** split; assumption.
      + destruct (IH (k :: seen) (k :: acc) HksU' Hinv1) as (Hi3 & Hs3 & new3 & Hn3 & Hd3).
        split; [exact Hi3|]. split.
        * intros x Hx. apply Hs3. right; exact Hx.
        * exists (new3 ++ [k]). split; [rewrite Hn3, <- app_assoc; reflexivity|].
          intros x Hx. apply in_app_or in Hx. destruct Hx as [Hx|[<-|[]]].
          -- destruct (Hd3 x Hx) as [Hn HU']. split; [|exact HU'].
             intros Hin. apply Hn. right; exact Hin.
          -- split; assumption.
  Qed.

  Lemma yield_node_post :
    forall d nd seen acc, node_in_g nd -> tinv seen acc -> tpost seen acc (yield_node g d nd seen acc).
  Proof.
    induction d as [|d IH]; intros nd seen acc Hnd Hinv; cbn [yield_node].
    - split; [exact Hinv|]. split; [auto|]. exists []. split; [reflexivity|intros x []].
    - destruct (tleaf nd).
      + split; [exact Hinv|]. split; [auto|]. exists []. split; [reflexivity|intros x []].
      + apply kids_loop_post; [|exact Hnd|exact Hinv]. intros ch s a Hc Hi. apply IH; assumption.
  Qed.
End TreeWalk.

Theorem tree_all_nodup_lemma :
  forall (g : tgraph) (root : N),
    NoDup (tree_all g root) /\ ~ In root (tree_all g root) /\
    length (tree_all g root) <= length (t_universe g).
Proof.
  intros g root. unfold tree_all. destruct (lookup g root) as [nd|] eqn:Hl.
  2:{ split; [constructor|]. split; [intros []|cbn; lia]. }
  assert (Hinv : tinv [root] []) by (split; [constructor|intros x []]).
  destruct (yield_node_post g (Z.to_nat MaxNameTreeDepth) nd [root] []
              (lookup_node_in_g g root nd Hl) Hinv) as ((Hnd & _) & _ & new & Hn & Hd).
  split; [apply NoDup_rev; exact Hnd|]. split.
  - intros Hin. apply in_rev in Hin. rewrite Hn, app_nil_r in Hin.
    destruct (Hd root Hin) as [Hx _]. apply Hx. left; reflexivity.
  - rewrite rev_length. apply NoDup_incl_length; [exact Hnd|].
    intros x Hx. rewrite Hn, app_nil_r in Hx. apply (Hd x Hx).
Qed.

(* ------------------------------------------------------------------ *)
(* outline walker *)

Definition oinv (seen acc : list N) : Prop :=
  NoDup acc /\ (forall x, In x acc -> In x seen).

Section OutlineWalk.
  Variable g : ograph.
  Variable first0 : option N.

  Let U := o_universe g first0.

  Lemma oU_nodup : NoDup U.
  Proof. apply NoDup_nodup. Qed.

  (* the references the walker can be asked to visit *)
  Definition in_U (o : option N) : Prop := forall r, o = Some r -> In r U.

  Lemma oU_first r : in_U (ofirst (olookup g r)).
  Proof.
    unfold in_U, olookup. intros x Hx. destruct (lookup g r) as [nd|] eqn:Hl; [|discriminate].
    destruct (lookup_In g r nd Hl) as [k Hin].
    unfold U, o_universe. apply nodup_In. apply in_or_app. right.
    apply in_flat_map. exists (k, nd). split; [exact Hin|]. cbn [snd]. rewrite Hx. cbn. left; reflexivity.
  Qed.

  Lemma oU_next r : in_U (onext (olookup g r)).
  Proof.
    unfold in_U, olookup. intros x Hx. destruct (lookup g r) as [nd|] eqn:Hl; [|discriminate].
    destruct (lookup_In g r nd Hl) as [k Hin].
    unfold U, o_universe. apply nodup_In. apply in_or_app. right.
    apply in_flat_map. exists (k, nd). split; [exact Hin|]. cbn [snd]. rewrite Hx.
    apply in_or_app. right. left; reflexivity.
  Qed.

  Definition ogood (seen acc : list N) (r : res (list N * list N)) : Prop :=
    match r with
    | Ok (seen', acc') => oinv seen' acc' /\ (forall x, In x seen -> In x seen')
    | Err c => exists r, ofail (olookup g r) = Some c
    end.

  Lemma read_children_total :
    forall fuel depth ref seen acc,
      oinv seen acc -> in_U ref ->
      count_unseen seen U < fuel ->
      ogood seen acc (read_children g fuel depth ref seen acc).
  Proof.
    induction fuel as [|f IH]; intros depth ref seen acc Hinv HU Hf; [lia|].
    cbn [read_children].
    destruct (MaxOutlineDepth <=? Z.of_nat depth)%Z; [cbn; split; [exact Hinv|auto]|].
    destruct ref as [r|]; [|cbn; split; [exact Hinv|auto]].
    destruct (nmem r seen) eqn:Hr; [cbn; split; [exact Hinv|auto]|].
    apply nmem_not_In in Hr.
    destruct (ofail (olookup g r)) as [c|] eqn:Hfail; [cbn; eauto|].
    assert (HrU : In r U) by (apply HU; reflexivity).
    pose proof (cu_add r seen U oU_nodup HrU Hr) as Hcu.
    assert (Hinv1 : oinv (r :: seen) (r :: acc)).
    { destruct Hinv as [Ha Hb]. split.
      - constructor; [|exact Ha]. intros Hin. apply Hr. apply Hb. exact Hin.
      - intros x [<-|Hx]; [left; reflexivity|right; apply Hb; exact Hx]. }
    pose proof (IH (S depth) (ofirst (olookup g r)) (r :: seen) (r :: acc) Hinv1 (oU_first r)) as H1.
    assert (Hf1 : count_unseen (r :: seen) U < f) by lia. specialize (H1 Hf1).
    destruct (read_children g f (S depth) (ofirst (olookup g r)) (r :: seen) (r :: acc)) as [[seen2 acc2]|c];
      [|exact H1].
    cbn in H1. destruct H1 as [Hi2 Hs2].
    pose proof (IH depth (onext (olookup g r)) seen2 acc2 Hi2 (oU_next r)) as H2.
    assert (Hf2 : count_unseen seen2 U < f).
    { pose proof (cu_mono (r :: seen) seen2 U Hs2). lia. }
    specialize (H2 Hf2).
    destruct (read_children g f depth (onext (olookup g r)) seen2 acc2) as [[seen3 acc3]|c]; [|exact H2].
    cbn in *. destruct H2 as [Hi3 Hs3]. split; [exact Hi3|].
    intros x Hx. apply Hs3. apply Hs2. right; exact Hx.
  Qed.
End OutlineWalk.

Theorem outline_total_lemma :
  forall (g : ograph) (root : N) (first : option N),
    match outline_items g root first with
    | Ok l => NoDup l
    | Err c => exists r, ofail (olookup g r) = Some c
    end.
Proof.
  intros g root first. unfold outline_items.
  assert (Hinv : oinv [root] []) by (split; [constructor|intros x []]).
  assert (HU : in_U g first first).
  { intros r ->. unfold o_universe. apply nodup_In. apply in_or_app. left. left; reflexivity. }
  pose proof (read_children_total g first (outline_fuel g first) 0 first [root] [] Hinv HU) as H.
  assert (Hf : count_unseen [root] (o_universe g first) < outline_fuel g first).
  { unfold outline_fuel, count_unseen. generalize (o_universe g first). intros l.
    induction l as [|a l IHl]; cbn [filter length]; [lia|].
    destruct (negb (nmem a [root])); cbn [length]; lia. }
  specialize (H Hf).
  destruct (read_children g (outline_fuel g first) 0 first [root] []) as [[seen acc]|c]; [|exact H].
  cbn in H. destruct H as [[Hnd Hin] Hs]. apply NoDup_rev. exact Hnd.
Qed.
