From Coq Require Import List NArith ZArith Bool Lia Arith.
From Coq Require Import ZifyNat ZifyBool.
From GoPdf.Base Require Import Bytes Res.
From GoPdf.Gen Require Import Gen_Consts Gen_Limits.
From GoPdf.C05 Require Import XRefCount.
Import ListNotations.
Close Scope N_scope.
Open Scope Z_scope.

Definition sec_ok (s : Z * Z) : Prop := 0 <= fst s /\ 0 <= snd s /\ fst s + snd s <= maxXRefSize.

Lemma uwrap32_id x : 0 <= x <= maxXRefSize -> uwrap 32 x = x.
Proof. unfold uwrap, maxXRefSize. intros H. apply Z.mod_small. lia. Qed.

Lemma swrap64_id x : - 2^63 <= x < 2^63 -> swrap 64 x = x.
Proof.
  unfold swrap. intros H. change (2 ^ (64 - 1)) with (2^63).
  rewrite Z.mod_small; lia.
Qed.

Lemma check_w_spec l w :
  check_w l = Some w -> length w = length l /\ Forall (fun x => 0 <= x <= 8) w.
Proof.
  revert w. induction l as [|o l IH]; intros w H; cbn in H.
  - inversion H; subst. split; [reflexivity|constructor].
  - destruct o as [wi| | |]; try discriminate.
    destruct ((wi <? 0) || (8 <? wi)) eqn:E; [discriminate|].
    destruct (check_w l) as [r|]; [|discriminate]. inversion H; subst.
    destruct (IH r eq_refl) as [Hl Hf]. split; [cbn; lia|].
    constructor; [lia|exact Hf].
Qed.

Lemma check_index_spec size :
  0 <= size <= maxXRefSize ->
  forall n l ss, (length l <= n)%nat -> check_index size l = Some ss ->
    Forall sec_ok ss /\ (length ss <= length l)%nat.
Proof.
  intros Hs. induction n as [|n IH]; intros l ss Hn H.
  - destruct l; [|cbn in Hn; lia]. cbn in H. inversion H; subst. split; [constructor|cbn; lia].
  - destruct l as [|o1 l]; [cbn in H; inversion H; subst; split; [constructor|cbn; lia]|].
    destruct o1 as [st| | |]; try (cbn in H; discriminate).
    destruct l as [|o2 l]; [cbn in H; discriminate|].
    destruct o2 as [sz| | |]; try (cbn in H; discriminate).
    cbn [check_index] in H.
    destruct ((st <? 0) || (sz <=? 0) || (size <? st) || (size - st <? sz)) eqn:E; [discriminate|].
    destruct (check_index size l) as [r|] eqn:Er; [|discriminate]. inversion H; subst.
    destruct (IH l r) as [Hf Hl]; [cbn in Hn; lia|exact Er|].
    split; [|cbn; lia].
    constructor; [|exact Hf].
    unfold sec_ok. cbn [fst snd]. unfold maxXRefSize in *.
    rewrite !uwrap32_id by (unfold maxXRefSize; lia). lia.
Qed.

Lemma sum_sizes_bound ss :
  Forall sec_ok ss -> 0 <= sum_sizes ss <= Z.of_nat (length ss) * maxXRefSize.
Proof.
  induction 1 as [|s ss Hs Hf IH]; cbn [sum_sizes fold_right length].
  - lia.
  - fold (sum_sizes ss). destruct Hs as (H1 & H2 & H3). unfold maxXRefSize in *. lia.
Qed.

Lemma total_entries_exact ss :
  Forall sec_ok ss -> Z.of_nat (length ss) <= maxArrayLen ->
  total_entries ss = sum_sizes ss.
Proof.
  intros Hf Hl. unfold total_entries.
  assert (H : forall acc, 0 <= acc -> acc + Z.of_nat (length ss) * maxXRefSize < 2^62 ->
                fold_left (fun a s => swrap 64 (a + snd s)) ss acc = acc + sum_sizes ss).
  { clear Hl. induction Hf as [|s ss Hs Hf IH]; intros acc Ha Hb; cbn [fold_left sum_sizes fold_right].
    - lia.
    - fold (sum_sizes ss). destruct Hs as (H1 & H2 & H3).
      cbn [length] in Hb. unfold maxXRefSize in *.
      rewrite swrap64_id by lia. rewrite IH; lia. }
  rewrite H; [lia|lia|]. unfold maxArrayLen, maxXRefSize in *. lia.
Qed.

Lemma MaxXRefEntries_le rawLen : MaxXRefEntries rawLen <= 8192 + 32 * Z.max 0 rawLen.
Proof.
  unfold MaxXRefEntries. 
  assert (Hsw : forall x, 0 <= x -> swrap 64 x <= x).
  { intros x Hx. unfold swrap. change (2 ^ (64 - 1)) with (2^63).
    pose proof (Z.mod_le (x + 2^63) (2^64)). lia. }
  destruct (rawLen <? 0) eqn:E.
  - change (swrap 64 (8192 + swrap 64 (32 * 0))) with 8192. lia.
  - assert (0 <= rawLen) by lia.
    assert (H1 : swrap 64 (32 * rawLen) <= 32 * rawLen) by (apply Hsw; lia).
    destruct (Z_le_gt_dec 0 (8192 + swrap 64 (32 * rawLen))) as [Hp|Hn].
    + specialize (Hsw _ Hp). lia.
    + (* a negative argument wraps to something below 2^63 - we only need <= *)
      unfold swrap at 1. change (2 ^ (64 - 1)) with (2^63).
      pose proof (Z.mod_pos_bound (8192 + swrap 64 (32 * rawLen) + 2^63) (2^64)).
      assert (Hlow : - 2^63 <= swrap 64 (32 * rawLen)).
      { unfold swrap. change (2 ^ (64 - 1)) with (2^63).
        pose proof (Z.mod_pos_bound (32 * rawLen + 2^63) (2^64)). lia. }
      rewrite Z.mod_small by lia. lia.
Qed.

(* what a successful check guarantees *)
Lemma check_spec size_o w_o index_o rawLen w ss :
  check_xref_stream_dict size_o w_o index_o rawLen = Ok (w, ss) ->
  (exists w0 w1 w2, w = [w0; w1; w2] /\ 0 <= w0 <= 8 /\ 0 <= w1 <= 8 /\ 0 <= w2 <= 8 /\ 0 < w0 + w1 + w2) /\
  Forall sec_ok ss /\
  (match index_o with OArr ind => (length ss <= length ind)%nat | _ => length ss = 1%nat end) /\
  total_entries ss <= Z.min maxXRefSize (MaxXRefEntries rawLen).
Proof.
  unfold check_xref_stream_dict.
  destruct size_o as [size| | |]; try discriminate.
  destruct ((size <? 0) || (maxXRefSize <? size)) eqn:Es; [discriminate|].
  assert (Hsize : 0 <= size <= maxXRefSize) by lia.
  destruct w_o as [|wl| |]; try discriminate.
  destruct (negb (length wl =? 3)%nat) eqn:El; [discriminate|].
  destruct (check_w wl) as [w'|] eqn:Ew; [|discriminate].
  destruct (check_w_spec _ _ Ew) as [Hlen Hall].
  destruct w' as [|w0 [|w1 [|w2 [|w3 w']]]]; try discriminate.
  destruct (w0 + w1 + w2 =? 0) eqn:E0; [discriminate|].
  inversion Hall as [|? ? H0 Hall1]; subst. inversion Hall1 as [|? ? H1 Hall2]; subst.
  inversion Hall2 as [|? ? H2 _]; subst.
  set (ssr := match index_o with
              | ONull => Some [(0, uwrap 32 size)]
              | OArr ind => if negb (Nat.even (length ind)) then None else check_index size ind
              | _ => None end).
  destruct ssr as [ss'|] eqn:Essr; [|discriminate].
  destruct (Z.min maxXRefSize (MaxXRefEntries rawLen) <? total_entries ss') eqn:Et; [discriminate|].
  intros H; inversion H; subst w ss'. split.
  - exists w0, w1, w2. repeat split; lia.
  - unfold ssr in Essr. destruct index_o as [|ind| |]; try discriminate.
    + destruct (negb (Nat.even (length ind))); [discriminate|].
      destruct (check_index_spec size Hsize (length ind) ind ss (le_n _) Essr) as [Hf Hl].
      split; [exact Hf|]. split; [exact Hl|lia].
    + inversion Essr; subst. split.
      * constructor; [|constructor]. unfold sec_ok. cbn [fst snd].
        rewrite uwrap32_id by lia. lia.
      * split; [reflexivity|lia].
Qed.

(* ------------------------------------------------------------------ *)
(* the decode loop *)

Definition measure (cur : option (Z * Z)) (ss : list (Z * Z)) : nat :=
  (match cur with Some (i, e) => S (Z.to_nat (e - i)) | None => 0 end +
   Z.to_nat (sum_sizes ss) + 2 * length ss + 1)%nat.

Definition remaining (cur : option (Z * Z)) (ss : list (Z * Z)) : nat :=
  (match cur with Some (i, e) => Z.to_nat (e - i) | None => 0 end + Z.to_nat (sum_sizes ss))%nat.

Definition cur_ok (cur : option (Z * Z)) : Prop :=
  match cur with Some (i, e) => 0 <= i /\ 0 <= e <= maxXRefSize | None => True end.

Lemma decode_entry_no_panic w0 w1 w2 buf :
  0 <= w0 -> 0 <= w1 -> 0 <= w2 -> length buf = Z.to_nat (w0 + w1 + w2) ->
  exists r, decode_entry w0 w1 w2 buf = Ok r.
Proof.
  intros H0 H1 H2 Hl. unfold decode_entry.
  assert (E : (length buf <? Z.to_nat w0 + Z.to_nat w1 + Z.to_nat w2)%nat = false).
  { apply Nat.ltb_ge. lia. }
  rewrite E.
  destruct (decode_int _); [|eauto].
  destruct (decode_int _); [|eauto].
  destruct (decode_int _); [|eauto].
  destruct (_ =? 0); [destruct (_ <? _); eauto|].
  destruct (_ =? 1); [destruct (_ <? _); eauto|].
  destruct (_ =? 2); [destruct (_ <=? _); eauto|eauto].
Qed.

Lemma decode_loop_bound w0 w1 w2 :
  0 <= w0 -> 0 <= w1 -> 0 <= w2 ->
  forall fuel cur ss data xref iters,
    Forall sec_ok ss -> cur_ok cur ->
    (measure cur ss <= fuel)%nat ->
    exists x it e,
      decode_loop fuel w0 w1 w2 cur ss data xref iters = Ok (x, it, e) /\
      (iters <= it <= iters + remaining cur ss)%nat /\
      (length x + iters <= length xref + it)%nat.
Proof.
  intros H0 H1 H2.
  induction fuel as [|f IH]; intros cur ss data xref iters Hss Hcur Hm.
  - unfold measure in Hm. lia.
  - cbn [decode_loop]. destruct cur as [[i e]|].
    + cbn in Hcur. destruct (i <? e) eqn:Eie.
      * destruct (length (firstn (Z.to_nat (w0 + w1 + w2)) data) <? Z.to_nat (w0 + w1 + w2))%nat eqn:Ed.
        -- do 3 eexists. split; [reflexivity|]. unfold remaining. split; lia.
        -- apply Nat.ltb_ge in Ed.
           assert (Hbuf : length (firstn (Z.to_nat (w0 + w1 + w2)) data) = Z.to_nat (w0 + w1 + w2)).
           { rewrite firstn_length in *. lia. }
           assert (Hnext : uwrap 32 (i + 1) = i + 1) by (apply uwrap32_id; lia).
           rewrite Hnext.
           assert (Hcur' : cur_ok (Some (i + 1, e))) by (cbn; lia).
           assert (Hm' : (measure (Some ((i + 1)%Z, e)) ss <= f)%nat) by (unfold measure in *; lia).
           assert (Hrem : (S (remaining (Some ((i + 1)%Z, e)) ss) = remaining (Some (i, e)) ss)%nat)
             by (unfold remaining; lia).
           destruct (xmem i xref).
           ++ destruct (IH (Some (i + 1, e)) ss (skipn (Z.to_nat (w0 + w1 + w2)) data) xref (S iters) Hss Hcur' Hm')
                as (x & it & er & Hr & Hit & Hx).
              rewrite Hr. do 3 eexists. split; [reflexivity|]. split; lia.
           ++ destruct (decode_entry_no_panic w0 w1 w2 _ H0 H1 H2 Hbuf) as [r Hr0]. rewrite Hr0.
              destruct r as [en|].
              ** destruct (IH (Some (i + 1, e)) ss (skipn (Z.to_nat (w0 + w1 + w2)) data) ((i, en) :: xref) (S iters) Hss Hcur' Hm')
                   as (x & it & er & Hr & Hit & Hx).
                 rewrite Hr. do 3 eexists. split; [reflexivity|]. cbn [length] in Hx. split; lia.
              ** destruct (IH (Some (i + 1, e)) ss (skipn (Z.to_nat (w0 + w1 + w2)) data) xref (S iters) Hss Hcur' Hm')
                   as (x & it & er & Hr & Hit & Hx).
                 rewrite Hr. do 3 eexists. split; [reflexivity|]. split; lia.
      * destruct (IH None ss data xref iters Hss I) as (x & it & er & Hr & Hit & Hx).
        { unfold measure in *. lia. }
        rewrite Hr. do 3 eexists. split; [reflexivity|]. unfold remaining in *. split; lia.
    + destruct ss as [|[st sz] ss'].
      * do 3 eexists. split; [reflexivity|]. split; lia.
      * inversion Hss as [|? ? Hs Hss']; subst. destruct Hs as (Ha & Hb & Hc). cbn [fst snd] in *.
        assert (Hw : uwrap 32 (st + sz) = st + sz) by (apply uwrap32_id; lia). rewrite Hw.
        pose proof (sum_sizes_bound ss' Hss') as Hsb.
        destruct (IH (Some (st, st + sz)) ss' data xref iters Hss') as (x & it & er & Hr & Hit & Hx).
        { cbn. lia. }
        { unfold measure in *. cbn [sum_sizes fold_right length snd] in Hm. fold (sum_sizes ss') in Hm. lia. }
        rewrite Hr. do 3 eexists. split; [reflexivity|].
        unfold remaining in *. cbn [sum_sizes fold_right snd]. fold (sum_sizes ss'). split; lia.
Qed.

(* statement used by Prop_C05.v *)
Theorem xref_entries_bounded_lemma :
  forall (size_o w_o index_o : obj) (rawLen : Z) (data : bytes) (xref : list (Z * xentry)),
    (match index_o with OArr ind => Z.of_nat (length ind) <= maxArrayLen | _ => True end) ->
    match read_xref_stream size_o w_o index_o rawLen data xref with
    | Ok (xref', iters, _) =>
      Z.of_nat iters <= MaxXRefEntries rawLen /\
      Z.of_nat iters <= 8192 + 32 * Z.max 0 rawLen /\
      Z.of_nat iters <= maxXRefSize /\
      (length xref' <= length xref + iters)%nat
    | Err c => c = Malformed
    end.
Proof.
  intros size_o w_o index_o rawLen data xref Hind. unfold read_xref_stream.
  destruct (check_xref_stream_dict size_o w_o index_o rawLen) as [[w ss]|c] eqn:Ec.
  - destruct (check_spec _ _ _ _ _ _ Ec) as ((w0 & w1 & w2 & -> & Hw0 & Hw1 & Hw2 & Hsum) & Hss & Hlen & Htot).
    assert (Hl : Z.of_nat (length ss) <= maxArrayLen).
    { destruct index_o as [|ind| |]; try (rewrite Hlen; unfold maxArrayLen; lia). lia. }
    rewrite (total_entries_exact ss Hss Hl) in Htot.
    unfold decode_xref_stream.
    destruct (decode_loop_bound w0 w1 w2 (proj1 Hw0) (proj1 Hw1) (proj1 Hw2)
                (decode_fuel ss) None ss data xref 0%nat Hss I) as (x & it & e & Hr & Hit & Hx).
    { unfold measure, decode_fuel. lia. }
    rewrite Hr. unfold remaining in Hit. pose proof (sum_sizes_bound ss Hss).
    pose proof (MaxXRefEntries_le rawLen).
    repeat split; lia.
  - (* errors of the check are all Malformed, except the unreachable w-index panic *)
    revert Ec. unfold check_xref_stream_dict.
    destruct size_o as [size| | |]; try (intros H; inversion H; reflexivity).
    destruct ((size <? 0) || (maxXRefSize <? size)); [intros H; inversion H; reflexivity|].
    destruct w_o as [|wl| |]; try (intros H; inversion H; reflexivity).
    destruct (negb (length wl =? 3)%nat) eqn:El; [intros H; inversion H; reflexivity|].
    destruct (check_w wl) as [w'|] eqn:Ew; [|intros H; inversion H; reflexivity].
    destruct (check_w_spec _ _ Ew) as [Hlen _].
    apply negb_false_iff in El. apply Nat.eqb_eq in El. rewrite El in Hlen.
    destruct w' as [|w0 [|w1 [|w2 [|w3 w']]]]; cbn in Hlen; try lia.
    destruct (w0 + w1 + w2 =? 0); [intros H; inversion H; reflexivity|].
    destruct (match index_o with
              | ONull => Some [(0, uwrap 32 size)]
              | OArr ind => if negb (Nat.even (length ind)) then None else check_index size ind
              | _ => None end); [|intros H; inversion H; reflexivity].
    destruct (_ <? _); intros H; inversion H; reflexivity.
Qed.
