(* C05 (7): nesting depth and the reference look-back of the object scanner
   (scanner.go: ReadObject, ReadArray, ReadDict, their nestDepth counter and
   ReadArray's integersSeen counter).  The input is an ARBITRARY sequence of
   tokens; the recursion of the Go code is made explicit as a stack of open
   containers, whose height is the value of s.nestDepth (and half the depth of
   the Go call chain ReadObject -> ReadArray -> ReadObject ...).  An array
   frame carries what ReadArray's two type assertions `array[k-2].(Integer)`,
   `array[k-1].(Integer)` look at: for every element whether it is an Integer
   (newest first), and integersSeen.  Scalars other than integers are abstract
   (their syntax is property C01's).  Definitions only. *)
From Coq Require Import List ZArith Bool Arith Lia.
From GoPdf.Base Require Import Res.
From GoPdf.Gen Require Import Gen_C05.
Import ListNotations.
Close Scope Z_scope.
Open Scope nat_scope.

Inductive tok :=
| TA          (* a scalar that is neither a name nor an integer *)
| TI          (* an integer *)
| TR          (* the keyword R *)
| TN          (* a name *)
| TAO | TAC   (* [ ] *)
| TDO | TDC.  (* << >> *)

Inductive frame :=
| FArr (elems : list bool) (seen : nat)
              (* inside ReadArray's loop: is-Integer of the elements so far,
                 newest first, and integersSeen *)
| FKey        (* inside ReadDict's loop, a key or >> comes next *)
| FVal        (* inside ReadDict's loop, the value of a key comes next *)
| FValI       (* the value was an Integer: a key, >>, or a generation number comes next *)
| FValII.     (* two integers: R must come next *)

Definition maxd : nat := Z.to_nat maxScannerNestDepth.

(* a value has been read in the context [st]; None: the top-level object is complete *)
Definition complete (isint : bool) (st : list frame) : option (list frame) :=
  match st with
  | [] => None
  | FArr elems seen :: s2 => Some (FArr (isint :: elems) (if isint then S seen else 0) :: s2)
  | FVal :: s2 => Some ((if isint then FValI else FKey) :: s2)
  | _ => Some st
  end.

(* one token.  [fixed] = true: the code as it is (`integersSeen = 0` after a
   reference has been assembled); false: the variant `integersSeen -= 2` *)
Definition step (fixed : bool) (st : list frame) (t : tok) : res (option (list frame)) :=
  match st, t with
  | FKey :: s2, TN => Ok (Some (FVal :: s2))                 (* a key *)
  | FKey :: s2, TDC => Ok (complete false s2)                (* SkipString(">>") *)
  | FKey :: _, _ => Err Malformed
  | FValI :: s2, TN => Ok (Some (FVal :: s2))                (* buf[0] == '/': the next key *)
  | FValI :: s2, TDC => Ok (complete false s2)               (* buf[0] == '>' *)
  | FValI :: s2, TI => Ok (Some (FValII :: s2))              (* ReadInteger *)
  | FValI :: _, _ => Err Malformed
  | FValII :: s2, TR => Ok (Some (FKey :: s2))
  | FValII :: _, _ => Err Malformed                          (* "expected /Name but found Integer" *)
  | FArr _ _ :: s2, TAC => Ok (complete false s2)
  | FArr elems seen :: s2, TR =>
    if 2 <=? seen then
      match elems with
      | true :: true :: e2 =>
        Ok (Some (FArr (false :: e2) (if fixed then 0 else seen - 2) :: s2))
      | _ => Err Panic                                       (* array[k-2].(Integer), array[k-1].(Integer) *)
      end
    else Err Malformed                                       (* ReadObject: unexpected character 'R' *)
  | _, TI => Ok (complete true st)
  | _, TA => Ok (complete false st)
  | _, TN => Ok (complete false st)
  | _, TAO => if maxd <=? length st then Err Malformed else Ok (Some (FArr [] 0 :: st))
  | _, TDO => if maxd <=? length st then Err Malformed else Ok (Some (FKey :: st))
  | _, _ => Err Malformed                                    (* unexpected character *)
  end.

(* ReadObject with [st] = the containers that are open; every step consumes
   one token.  Returns the unread tokens and the greatest stack height seen. *)
Fixpoint run (fixed : bool) (fuel : nat) (st : list frame) (toks : list tok) (hmax : nat)
  : res (list tok * nat) :=
  match fuel with
  | O => Err OutOfFuel
  | S f =>
    let hmax := Nat.max hmax (length st) in
    match toks with
    | [] => Err Malformed                       (* unexpected EOF *)
    | t :: rest =>
      match step fixed st t with
      | Err c => Err c
      | Ok None => Ok (rest, hmax)
      | Ok (Some st') => run fixed f st' rest hmax
      end
    end
  end.

Definition read_object_gen (fixed : bool) (toks : list tok) : res (list tok * nat) :=
  run fixed (S (length toks)) [] toks 0.

Definition read_object := read_object_gen true.

(* ReadIndirectObject's tail: the value, then endobj; an Integer value may be
   followed by `g R` *)
Definition read_indirect (fixed : bool) (toks : list tok) : res bool :=
  match read_object_gen fixed toks with
  | Err c => Err c
  | Ok (rest, _) =>
    match toks, rest with
    | _, [] => Ok true
    | TI :: _, [TI; TR] => Ok true
    | _, _ => Ok false              (* endobj expected: Malformed *)
    end
  end.
