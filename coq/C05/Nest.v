(* C05 (7): nesting depth of the object scanner (scanner.go: ReadObject,
   ReadArray, ReadDict and their nestDepth counter).  The input is an
   ARBITRARY sequence of tokens; the recursion of the Go code is made explicit
   as a stack of open containers, whose height is the value of s.nestDepth
   (and half the depth of the Go call chain ReadObject -> ReadArray ->
   ReadObject ...).  Scalars are abstract (their syntax is property C01's);
   integers followed by R are not distinguished from other scalars.
   Definitions only. *)
From Coq Require Import List ZArith Bool Arith Lia.
From GoPdf.Base Require Import Res.
From GoPdf.Gen Require Import Gen_C05.
Import ListNotations.
Close Scope Z_scope.
Open Scope nat_scope.

Inductive tok :=
| TA          (* a scalar that is not a name: string, number, true, null ... *)
| TN          (* a name *)
| TAO | TAC   (* [ ] *)
| TDO | TDC.  (* << >> *)

Inductive frame :=
| FArr        (* inside ReadArray's loop *)
| FKey        (* inside ReadDict's loop, a key or >> comes next *)
| FVal.       (* inside ReadDict's loop, the value of a key comes next *)

Definition maxd : nat := Z.to_nat maxScannerNestDepth.

(* ReadObject at the top with [st] = the containers that are open; every step
   consumes one token.  Returns the unread tokens and the greatest stack
   height seen. *)
Fixpoint run (fuel : nat) (st : list frame) (toks : list tok) (hmax : nat) : res (list tok * nat) :=
  match fuel with
  | O => Err OutOfFuel
  | S f =>
    let hmax := Nat.max hmax (length st) in
    (* a value has been completed with [st'] still open *)
    let continue (st' : list frame) (rest : list tok) : res (list tok * nat) :=
        match st' with
        | [] => Ok (rest, hmax)
        | FVal :: s2 => run f (FKey :: s2) rest hmax
        | _ => run f st' rest hmax
        end in
    (* `if s.nestDepth >= maxScannerNestDepth` in ReadArray / ReadDict *)
    let open (fr : frame) (rest : list tok) : res (list tok * nat) :=
        if maxd <=? length st then Err Malformed else run f (fr :: st) rest hmax in
    match toks with
    | [] => Err Malformed                       (* unexpected EOF *)
    | t :: rest =>
      match st with
      | FKey :: st' =>
        match t with
        | TN => run f (FVal :: st') rest hmax   (* a key *)
        | TDC => continue st' rest              (* SkipString(">>") *)
        | _ => Err Malformed
        end
      | _ =>
        (* a value is expected; inside an array ] ends the loop instead *)
        match t, st with
        | TAC, FArr :: st' => continue st' rest
        | TA, _ | TN, _ => continue st rest
        | TAO, _ => open FArr rest
        | TDO, _ => open FKey rest
        | _, _ => Err Malformed                 (* unexpected character *)
        end
      end
    end
  end.

Definition read_object (toks : list tok) : res (list tok * nat) :=
  run (S (length toks)) [] toks 0.
