(* C05 (8): the index of an object stream (reader.go: getObjStm and the member
   lookup of getFromObjStm): /N and /First may lie, the offset table may be
   short, damaged or absurd.  The decoded data is seen through the results of
   the successive ReadInteger calls: a list of (value, position after the
   integer) followed by the error every later call yields.  Definitions only. *)
From Coq Require Import List ZArith Bool Lia.
From GoPdf.Base Require Import Res.
From GoPdf.Gen Require Import Gen_C05.
Import ListNotations.
Open Scope Z_scope.

Inductive dval := DInt (z : Z) | DOther.     (* a dictionary value: Integer or not *)

Definition max_n : Z := maxObjStmMembers.     (* translated from reader.go *)
Definition max_uint32 : Z := 4294967295.
Definition max_int : Z := 9223372036854775807.

Record index := mkIndex {
  entries : list (Z * Z);     (* (number, offset + First) *)
  ipos : Z;                   (* s.CurrentPos() after the table *)
  reads : nat                 (* ReadInteger calls made *)
}.

(* for i := range n { no := ReadInteger(); offs := ReadInteger(); checks } *)
Fixpoint read_table (n : nat) (ints : list (Z * Z)) (tail_err : cls)
         (acc : list (Z * Z)) (pos : Z) (rd : nat) : res (list (Z * Z) * Z * nat) :=
  match n with
  | O => Ok (rev acc, pos, rd)
  | S n' =>
    match ints with
    | [] => Err tail_err
    | (no, _) :: ints1 =>
      match ints1 with
      | [] => Err tail_err
      | (offs, p2) :: ints2 =>
        if (no <? 0) || (max_uint32 <? no) || (offs <? 0) || (max_int <? offs)
        then Err Malformed
        else read_table n' ints2 tail_err ((no, offs) :: acc) p2 (S (S rd))
      end
    end
  end.

(* for i := range idx { x := offs + firstInt; if x < offs { error } } *)
Fixpoint add_first (f : Z) (l : list (Z * Z)) : res (list (Z * Z)) :=
  match l with
  | [] => Ok []
  | (no, offs) :: l' =>
    let x := swrap 64 (offs + f) in
    if x <? offs then Err Malformed
    else match add_first f l' with
         | Err c => Err c
         | Ok r => Ok ((no, x) :: r)
         end
  end.

(* func getObjStm: the number of table entries allocated is Z.to_nat n *)
Definition get_objstm (n_o first_o : dval) (ints : list (Z * Z)) (tail_err : cls) : res index :=
  match n_o with
  | DInt n =>
    if (n <? 0) || (max_n <? n) then Err Malformed
    else
      match read_table (Z.to_nat n) ints tail_err [] 0 0 with
      | Err c => Err c
      | Ok (tbl, pos, rd) =>
        match first_o with
        | DInt f =>
          if f <? pos then Err Malformed
          else match add_first f tbl with
               | Err c => Err c
               | Ok es => Ok (mkIndex es pos rd)
               end
        | DOther => Err Malformed
        end
      end
  | DOther => Err Malformed
  end.

Inductive found :=
| FNull                     (* delta < 0: the member reads as null *)
| FReadAt (off : Z).        (* Discard(delta), then ReadObject at this offset of the data *)

(* the loop over contents.idx in getFromObjStm; idx[m] is an explicit Panic
   branch when m is out of range *)
Fixpoint find_first (number : Z) (l : list (Z * Z)) (i : nat) : option nat :=
  match l with
  | [] => None
  | (no, _) :: l' => if no =? number then Some i else find_first number l' (S i)
  end.

Definition lookup_member (ix : index) (number : Z) : res found :=
  match find_first number (entries ix) 0 with
  | None => Err Malformed                           (* "object not found" *)
  | Some m =>
    match nth_error (entries ix) m with
    | None => Err Panic                             (* contents.idx[m] *)
    | Some (_, offs) =>
      let delta := offs - ipos ix in
      if delta <? 0 then Ok FNull else Ok (FReadAt offs)
    end
  end.

Definition objstm_find (n_o first_o : dval) (ints : list (Z * Z)) (tail_err : cls) (number : Z)
  : res found :=
  match get_objstm n_o first_o ints tail_err with
  | Err c => Err c
  | Ok ix => lookup_member ix number
  end.

(* ------------------------------------------------------------------ *)
(* ownership of the decoded reader (the ReadCloser that DecodeStream returns:
   behind it may be a pipe fed by a producer goroutine, which is released only
   by Close) *)

Inductive rstate :=
| RNone        (* DecodeStream was not called, or failed: nothing to close *)
| ROpen        (* open *)
| RClosed.     (* Close was called *)

Definition n_ok (n_o : dval) : bool :=
  match n_o with
  | DInt n => negb ((n <? 0) || (max_n <? n))
  | DOther => false
  end.

(* getObjStm with what happens to the reader.  [close_on_error] = true: the
   code as it is (F55: `defer func() { if err != nil { decoded.Close() } }()`);
   false: the code before.  [derr]: DecodeStream itself fails.
   On success the reader is part of the returned *objStm: it is the caller's. *)
Definition get_objstm_own (close_on_error : bool) (derr : option cls)
           (n_o first_o : dval) (ints : list (Z * Z)) (tail_err : cls) : res index * rstate :=
  if negb (n_ok n_o) then (Err Malformed, RNone)        (* before DecodeStream *)
  else
    match derr with
    | Some c => (Err c, RNone)
    | None =>
      match get_objstm n_o first_o ints tail_err with
      | Ok ix => (Ok ix, ROpen)
      | Err c => (Err c, if close_on_error then RClosed else ROpen)
      end
    end.

(* getFromObjStm: `defer contents.Close()` once getObjStm has succeeded; the
   lookup, Discard and ReadObject may fail afterwards *)
Definition get_from_objstm_own (close_on_error : bool) (derr : option cls)
           (n_o first_o : dval) (ints : list (Z * Z)) (tail_err : cls) (number : Z)
  : res found * rstate :=
  match get_objstm_own close_on_error derr n_o first_o ints tail_err with
  | (Ok ix, _) => (lookup_member ix number, RClosed)
  | (Err c, st) => (Err c, st)
  end.
