(* C05 (2): the /Prev loop of Reader.readXRef (xref.go) with its `seen` set of
   offsets.  The file is an ARBITRARY function from offsets to what reading a
   cross-reference section there yields, so every cyclic or self-referential
   /Prev and /XRefStm wiring is covered.  An event EvSection stands for one
   ITERATION of the loop (the code parses a classic table twice within its
   iteration - first into a scratch map to learn its trailer, then, after the
   /XRefStm stream whose entries take precedence, for real - which the model
   abstracts into the one [read_section] result; an error of the second parse
   has the same class as the first).
   Definitions only. *)
From Coq Require Import List ZArith Bool Lia.
From GoPdf.Base Require Import Res.
From GoPdf.Gen Require Import Gen_C05.
Import ListNotations.
Open Scope Z_scope.

(* trailer /Prev and /XRefStm as the loop sees them *)
Inductive tval := TAbsent | TNotInt | TInt (z : Z).

Record xsection := mkSection {
  is_table : bool;      (* starts with "xref" (else: cross-reference stream) *)
  xrefstm : tval;       (* dict["XRefStm"], looked at for tables only *)
  prev : tval           (* dict["Prev"] *)
}.

Inductive event := EvSection (off : Z) | EvXRefStm (off : Z).

Definition zmem (x : Z) (l : list Z) : bool := existsb (Z.eqb x) l.

Section Loop.
  (* readXRefTable / readXRefStream at an offset: a section or an error *)
  Variable read_section : Z -> res xsection.
  (* readXRefStream for a table's /XRefStm *)
  Variable read_stm : Z -> res unit.
  Variable size hdr : Z.    (* r.size, r.headerOffset *)

  (* for !seen[start] { ... }   returns the trace of decoded sections *)
  Fixpoint prev_loop (fuel : nat) (seen : list Z) (trace : list event) (start : Z)
    : res (list event) :=
    if zmem start seen then Ok (rev trace)
    else
      match fuel with
      | O => Err OutOfFuel
      | S f =>
        let seen1 := start :: seen in
        match read_section start with
        | Err c => Err c
        | Ok sec =>
          let after_stm : res (list Z * list event) :=
            if is_table sec then
              match xrefstm sec with
              | TAbsent => Ok (seen1, EvSection start :: trace)
              | TNotInt => Err Malformed
              | TInt z =>
                let stm := swrap 64 (z + hdr) in
                if zmem stm seen1 then Ok (seen1, EvSection start :: trace)
                else
                  match read_stm stm with
                  | Err c => Err c
                  | Ok _ => Ok (stm :: seen1, EvXRefStm stm :: EvSection start :: trace)
                  end
              end
            else Ok (seen1, EvSection start :: trace) in
          match after_stm with
          | Err c => Err c
          | Ok (seen2, trace2) =>
            match prev sec with
            | TAbsent => Ok (rev trace2)
            | TNotInt => Err Malformed
            | TInt p =>
              if (p <=? 0) || (size - hdr <=? p) then Err Malformed
              else prev_loop f seen2 trace2 (p + hdr)
            end
          end
        end
      end.

  (* readXRef after findXRef returned start0 *)
  Definition read_xref (fuel : nat) (start0 : Z) : res (list event) :=
    prev_loop fuel [] [] start0.
End Loop.

Definition sections_of (t : list event) : list Z :=
  flat_map (fun e => match e with EvSection o => [o] | EvXRefStm _ => [] end) t.

(* the fuel that always suffices *)
Definition prev_fuel (size hdr : Z) : nat := Z.to_nat (size - hdr).
