From Coq Require Import List ZArith Bool Arith Lia.
From GoPdf.Base Require Import Res.
From GoPdf.Gen Require Import Gen_C05.
From GoPdf.C05 Require Import Nest.
Import ListNotations.
Close Scope Z_scope.
Open Scope nat_scope.

Definition good (st : list frame) (hmax0 : nat) (r : res (list tok * nat)) : Prop :=
  match r with
  | Ok (_, h) => h <= Nat.max maxd hmax0
  | Err c => c = Malformed
  end.

Lemma run_good :
  forall fuel st toks hmax,
    length toks < fuel -> length st <= maxd ->
    good st hmax (run fuel st toks hmax).
Proof.
  induction fuel as [|f IH]; intros st toks hmax Hf Hst; [lia|].
  cbn [run].
  destruct toks as [|t rest]; [reflexivity|].
  cbn [length] in Hf.
  assert (Hrest : length rest < f) by lia.
  set (h1 := Nat.max hmax (length st)).
  assert (Hh1 : length st <= maxd -> Nat.max maxd h1 = Nat.max maxd hmax) by (unfold h1; lia).
  specialize (Hh1 Hst). clearbody h1.
  (* the recursive calls all have the shape run f st2 rest h1 with a short stack *)
  assert (Hrec : forall st2, length st2 <= maxd -> good st hmax (run f st2 rest h1)).
  { intros st2 H2. specialize (IH st2 rest h1 Hrest H2). unfold good in *.
    destruct (run f st2 rest h1) as [[r h]|c]; [lia|exact IH]. }
  assert (Hcont : forall st', length st' <= maxd ->
            good st hmax
                 match st' with
                 | [] => Ok (rest, h1)
                 | FVal :: s2 => run f (FKey :: s2) rest h1
                 | _ => run f st' rest h1
                 end).
  { intros st' H'. destruct st' as [|fr s2]; [unfold good; lia|].
    destruct fr; apply Hrec; cbn [length] in *; lia. }
  assert (Hopen : forall fr,
            good st hmax (if maxd <=? length st then Err Malformed else run f (fr :: st) rest h1)).
  { intros fr. destruct (maxd <=? length st) eqn:E; [reflexivity|].
    apply Nat.leb_gt in E. apply Hrec. cbn [length]. lia. }
  destruct st as [|fr st'].
  - destruct t; try reflexivity; try (apply (Hcont []); cbn [length]; lia); try apply Hopen.
  - cbn [length] in Hst.
    destruct fr; destruct t; try reflexivity;
      try (apply Hopen);
      try (apply Hrec; cbn [length]; lia);
      try (apply (Hcont st'); lia);
      try (apply (Hcont (FArr :: st')); cbn [length]; lia);
      try (apply (Hcont (FVal :: st')); cbn [length]; lia).
Qed.

(* statement for Prop_C05.v *)
Theorem nest_bounded_lemma :
  forall (toks : list tok),
    match read_object toks with
    | Ok (rest, h) => h <= maxd
    | Err c => c = Malformed
    end.
Proof.
  intros toks. unfold read_object.
  pose proof (run_good (S (length toks)) [] toks 0 (Nat.lt_succ_diag_r _) (Nat.le_0_l _)) as H.
  unfold good in H. destruct (run (S (length toks)) [] toks 0) as [[r h]|c]; [lia|exact H].
Qed.

(* the same from any state the scanner can be in, with any sufficient fuel *)
Theorem nest_bounded_general_lemma :
  forall fuel st toks,
    length toks < fuel -> length st <= maxd ->
    match run fuel st toks 0 with
    | Ok (rest, h) => h <= maxd
    | Err c => c = Malformed
    end.
Proof.
  intros fuel st toks Hf Hs. pose proof (run_good fuel st toks 0 Hf Hs) as H.
  unfold good in H. destruct (run fuel st toks 0) as [[r h]|c]; [lia|exact H].
Qed.
