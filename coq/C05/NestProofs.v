From Coq Require Import List ZArith Bool Arith Lia.
From GoPdf.Base Require Import Res.
From GoPdf.Gen Require Import Gen_C05.
From GoPdf.C05 Require Import Nest.
Import ListNotations.
Close Scope Z_scope.
Open Scope nat_scope.

(* the number of Integer elements at the end of the array (newest first) *)
Fixpoint lead (l : list bool) : nat :=
  match l with
  | true :: l' => S (lead l')
  | _ => 0
  end.

(* ReadArray's invariant: integersSeen never exceeds the trailing Integers *)
Definition fok (fr : frame) : Prop :=
  match fr with
  | FArr elems seen => seen <= lead elems
  | _ => True
  end.

Definition inv (st : list frame) : Prop := length st <= maxd /\ Forall fok st.

Lemma complete_inv isint st st' :
  inv st -> complete isint st = Some st' -> inv st'.
Proof.
  intros [Hl Hf] H. destruct st as [|fr s2]; [discriminate|].
  inversion Hf as [|? ? Hfr Hf2]; subst.
  destruct fr; cbn [complete] in H; inversion H; subst; clear H.
  - split; [cbn [length] in *; lia|]. constructor; [|exact Hf2].
    cbn [fok] in *. destruct isint; cbn [lead]; lia.
  - split; [exact Hl|constructor; assumption].
  - split; [cbn [length] in *; lia|]. constructor; [destruct isint; exact I|exact Hf2].
  - split; [exact Hl|constructor; assumption].
  - split; [exact Hl|constructor; assumption].
Qed.

Lemma inv_tail fr st : inv (fr :: st) -> inv st.
Proof. intros [Hl Hf]. inversion Hf; subst. split; [cbn [length] in Hl; lia|assumption]. Qed.

Lemma lead_ge2 elems : 2 <= lead elems -> exists e2, elems = true :: true :: e2.
Proof.
  destruct elems as [|[|] [|[|] e2]]; cbn [lead]; intros H; try lia. eauto.
Qed.

(* one token: no Panic, the invariant is kept *)
Lemma step_inv st t :
  inv st ->
  match step true st t with
  | Ok (Some st') => inv st'
  | Ok None => True
  | Err c => c = Malformed
  end.
Proof.
  intros Hi.
  assert (Hc : forall b s, inv s ->
             match complete b s with Some s' => inv s' | None => True end).
  { intros b s Hs. destruct (complete b s) eqn:E; [eapply complete_inv; eauto|exact I]. }
  assert (Hopen : forall fr, fok fr ->
             match (if maxd <=? length st then Err Malformed else Ok (Some (fr :: st)))
             with Ok (Some st') => inv st' | Ok None => True | Err c => c = Malformed end).
  { intros fr Hfr. destruct (maxd <=? length st) eqn:E; [reflexivity|].
    apply Nat.leb_gt in E. destruct Hi as [Hl Hf]. split; [cbn [length]; lia|constructor; assumption]. }
  destruct st as [|fr s2].
  - destruct t; cbn [step]; try reflexivity; try (apply (Hc _ [] Hi));
      try (apply (Hopen (FArr [] 0)); cbn; lia); try (apply (Hopen FKey); exact I).
  - pose proof (inv_tail _ _ Hi) as Ht.
    destruct fr as [elems seen| | | |].
    + destruct t; cbn [step]; try reflexivity;
        try (apply (Hc _ _ Hi)); try (apply (Hc _ _ Ht));
        try (apply (Hopen (FArr [] 0)); cbn; lia); try (apply (Hopen FKey); exact I).
      (* TR *)
      destruct (2 <=? seen) eqn:E; [|reflexivity]. apply Nat.leb_le in E.
      destruct Hi as [Hl Hf]. inversion Hf as [|? ? Hfr Hf2]; subst. cbn [fok] in Hfr.
      destruct (lead_ge2 elems) as [e2 ->]; [lia|].
      split; [exact Hl|]. constructor; [cbn; lia|exact Hf2].
    + destruct t; cbn [step]; try reflexivity; try (apply (Hc _ _ Ht)).
      destruct Hi as [Hl Hf]. inversion Hf; subst. split; [exact Hl|constructor; [exact I|assumption]].
    + destruct t; cbn [step]; try reflexivity; try (apply (Hc _ _ Hi));
        try (apply (Hopen (FArr [] 0)); cbn; lia); try (apply (Hopen FKey); exact I).
    + destruct t; cbn [step]; try reflexivity; try (apply (Hc _ _ Ht));
        destruct Hi as [Hl Hf]; inversion Hf; subst; split; try exact Hl; constructor; try exact I; assumption.
    + destruct t; cbn [step]; try reflexivity.
      destruct Hi as [Hl Hf]. inversion Hf; subst. split; [exact Hl|constructor; [exact I|assumption]].
Qed.

Definition good (hmax0 : nat) (r : res (list tok * nat)) : Prop :=
  match r with
  | Ok (_, h) => h <= Nat.max maxd hmax0
  | Err c => c = Malformed
  end.

Lemma run_good :
  forall fuel st toks hmax,
    length toks < fuel -> inv st ->
    good hmax (run true fuel st toks hmax).
Proof.
  induction fuel as [|f IH]; intros st toks hmax Hf Hi; [lia|].
  cbn [run]. destruct toks as [|t rest]; [reflexivity|]. cbn [length] in Hf.
  pose proof (step_inv st t Hi) as Hs.
  assert (Hl : length st <= maxd) by (destruct Hi; assumption).
  destruct (step true st t) as [[st'|]|c].
  - specialize (IH st' rest (Nat.max hmax (length st)) ltac:(lia) Hs).
    unfold good in *. destruct (run true f st' rest _) as [[r h]|c]; [lia|exact IH].
  - unfold good. lia.
  - exact Hs.
Qed.

(* statements for Prop_C05.v *)
Theorem nest_bounded_lemma :
  forall (toks : list tok),
    match read_object toks with
    | Ok (rest, h) => h <= maxd
    | Err c => c = Malformed
    end.
Proof.
  intros toks. unfold read_object, read_object_gen.
  assert (Hi : inv []) by (split; [cbn; lia|constructor]).
  pose proof (run_good (S (length toks)) [] toks 0 (Nat.lt_succ_diag_r _) Hi) as H.
  unfold good in H. destruct (run true (S (length toks)) [] toks 0) as [[r h]|c]; [lia|exact H].
Qed.

Theorem nest_bounded_general_lemma :
  forall fuel st toks,
    length toks < fuel -> length st <= maxd -> Forall fok st ->
    match run true fuel st toks 0 with
    | Ok (rest, h) => h <= maxd
    | Err c => c = Malformed
    end.
Proof.
  intros fuel st toks Hf Hs Hk. pose proof (run_good fuel st toks 0 Hf (conj Hs Hk)) as H.
  unfold good in H. destruct (run true fuel st toks 0) as [[r h]|c]; [lia|exact H].
Qed.

(* the variant `integersSeen -= 2`: [ 0 0 612 3 0 R 792 R ] *)
Theorem integers_seen_refuted_lemma :
  read_object_gen false [TAO; TI; TI; TI; TI; TI; TR; TI; TR; TAC] = Err Panic /\
  read_object_gen true [TAO; TI; TI; TI; TI; TI; TR; TI; TR; TAC] = Err Malformed.
Proof. split; vm_compute; reflexivity. Qed.
