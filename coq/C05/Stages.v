(* C05 (10): closing a filter chain (container.go: sourceAwareReader.Close).
   The decoded reader of a stream with several filters is a stack of stages,
   innermost first; behind any of them may be a pipe fed by a producer
   goroutine, which is released only by that stage's Close.  Each stage's
   Close may return ANY result.  Definitions only. *)
From Coq Require Import List Arith.
From GoPdf.Base Require Import Res.
Import ListNotations.

(* func (s *sourceAwareReader) Close() error.
   [results]: what each stage's Close returns (None = nil), innermost first,
   the last one is s.inner.  [early_return] = false: the code as it is;
   true: the variant that returns as soon as the outer stage's Close reports
   an error.  Result: the error returned and the trace of Close calls (stage
   indices in the order they are closed):
     err := s.inner.Close()
     for i := len(s.stages) - 2; i >= 0; i-- { s.stages[i].Close() }
     return err *)
Definition close_chain (early_return : bool) (results : list (option cls)) : option cls * list nat :=
  match length results with
  | O => (None, [])                    (* DecodeStream never builds an empty chain *)
  | S m =>
    let err := nth m results None in
    match err, early_return with
    | Some c, true => (Some c, [m])
    | _, _ => (err, m :: rev (seq 0 m))
    end
  end.
