From Coq Require Import List Arith ZArith Lia.
From GoPdf.Base Require Import Res.
From GoPdf.Gen Require Import Gen_Limits.
From GoPdf.C05 Require Import Stages.
Import ListNotations.
Close Scope Z_scope.
Open Scope nat_scope.

(* every stage is closed exactly once, whatever the Close calls return, and
   the error reported is the outer stage's *)
Theorem close_all_stages_lemma :
  forall (results : list (option cls)),
    let '(err, trace) := close_chain false results in
    NoDup trace /\
    (forall i, In i trace <-> i < length results) /\
    err = nth (length results - 1) results None.
Proof.
  intros results. unfold close_chain.
  destruct (length results) as [|m] eqn:El.
  - split; [constructor|]. split; [intros i; split; [intros []|lia]|].
    destruct results; [reflexivity|discriminate].
  - assert (Ht : NoDup (m :: rev (seq 0 m)) /\ (forall i, In i (m :: rev (seq 0 m)) <-> i < S m)).
    { split.
      - constructor.
        + rewrite <- in_rev. rewrite in_seq. lia.
        + apply NoDup_rev. apply seq_NoDup.
      - intros i. cbn [In]. rewrite <- in_rev, in_seq. lia. }
    replace (S m - 1) with m by lia.
    destruct (nth m results None) as [c|]; (split; [apply Ht|split; [apply Ht|reflexivity]]).
Qed.

(* the variant: an error of the outer stage leaves every inner stage open *)
Theorem close_early_return_refuted_lemma :
  forall c, close_chain true [None; Some c] = (Some c, [1]) /\
            ~ In 0 (snd (close_chain true [None; Some c])).
Proof. intros c. split; [reflexivity|]. cbn. intros [H|[]]. discriminate. Qed.

(* ---- the documented per-stream memory budget (limits.StreamBudget, translated) ---- *)

Open Scope Z_scope.

Lemma swrap64_id x : - 2^63 <= x < 2^63 -> swrap 64 x = x.
Proof.
  unfold swrap. intros H. change (2 ^ (64 - 1)) with (2^63). rewrite Z.mod_small; lia.
Qed.

Theorem stream_budget_bound_lemma :
  forall rawLen : Z,
    StreamBudgetBase <= StreamBudget rawLen <= StreamBudgetBase + StreamBudgetHardCap /\
    (0 <= rawLen <= StreamBudgetHardCap / StreamBudgetMultiplier ->
       StreamBudget rawLen = StreamBudgetBase + StreamBudgetMultiplier * rawLen) /\
    (StreamBudgetHardCap / StreamBudgetMultiplier < rawLen ->
       StreamBudget rawLen = StreamBudgetBase + StreamBudgetHardCap) /\
    (rawLen <= 0 -> StreamBudget rawLen = StreamBudgetBase).
Proof.
  intros rawLen. unfold StreamBudget, StreamBudgetBase, StreamBudgetHardCap, StreamBudgetMultiplier.
  change (Z.quot 268435456 1024) with 262144. change (268435456 / 1024) with 262144.
  destruct (Z.ltb rawLen 0) eqn:E0.
  - apply Z.ltb_lt in E0. change (Z.ltb 262144 0) with false. cbv iota.
    change (1024 * 0) with 0. rewrite (swrap64_id 0) by lia.
    rewrite swrap64_id by lia. repeat split; lia.
  - apply Z.ltb_ge in E0. destruct (Z.ltb 262144 rawLen) eqn:E1.
    + apply Z.ltb_lt in E1. rewrite swrap64_id by lia. repeat split; lia.
    + apply Z.ltb_ge in E1. rewrite (swrap64_id (1024 * rawLen)) by lia.
      rewrite swrap64_id by lia. repeat split; lia.
Qed.
