From Coq Require Import List NArith Bool Lia.
From GoPdf.Base Require Import Res.
From GoPdf.C05 Require Import ObjStmGet.
Import ListNotations.

Lemma resolve_with_no_fuel g k r can :
  (forall r', g r' can <> Err OutOfFuel) -> resolve_with g k r can <> Err OutOfFuel.
Proof.
  intros Hg. revert r. induction k as [|k IH]; intros r; cbn [resolve_with]; [discriminate|].
  pose proof (Hg r) as H.
  destruct (g r can) as [[r'|id deps|]|c]; try discriminate; [apply IH|exact H].
Qed.

Lemma deps_with_no_fuel g flag result ds :
  (forall r', g r' flag <> Err OutOfFuel) -> deps_with g flag result ds <> Err OutOfFuel.
Proof.
  intros Hg. induction ds as [|d ds IH]; cbn [deps_with]; [discriminate|].
  pose proof (resolve_with_no_fuel g depth_cap d flag Hg) as H.
  destruct (resolve_with g depth_cap d flag) as [o|c]; [exact IH|].
  intros Hc. inversion Hc; subst. apply H. reflexivity.
Qed.

Section Proofs.
  Variable xref : N -> entry.
  Variable member : N -> sobj.

  Lemma get_S depflag f ref can :
    get xref member depflag (S f) ref can =
    match xref ref with
    | EFree => Ok SVal
    | EDirect o => Ok o
    | EInStm s =>
      if can then
        match resolve_with (get xref member depflag f) depth_cap s false with
        | Ok (SStm id deps) =>
          if N.eqb id s then deps_with (get xref member depflag f) depflag (member ref) deps
          else
            match deps_with (get xref member depflag f) depflag (member ref) deps with
            | Err c => Err c
            | Ok _ => Err Malformed
            end
        | Ok _ => Err Malformed
        | Err c => Err c
        end
      else Err Malformed
    end.
  Proof. reflexivity. Qed.

  (* with canObjStm = false, get does not recurse: one level of fuel suffices *)
  Lemma get_false_flat depflag f ref :
    get xref member depflag (S f) ref false <> Err OutOfFuel.
  Proof. rewrite get_S. destruct (xref ref); discriminate. Qed.

  (* the code as it is (dictionary entries fetched with canObjStm = false):
     get calls nest at most two deep, whatever the cross-reference table says *)
  Theorem get_depth_bounded_lemma :
    forall fuel ref can, 2 <= fuel ->
      get xref member false fuel ref can <> Err OutOfFuel.
  Proof.
    intros fuel ref can Hf. destruct fuel as [|[|f]]; try lia.
    rewrite get_S. destruct (xref ref) as [|o|s]; try discriminate.
    destruct can; [|discriminate].
    assert (Hg : forall r', get xref member false (S f) r' false <> Err OutOfFuel)
      by (intros r'; apply get_false_flat).
    pose proof (resolve_with_no_fuel _ depth_cap s false Hg) as Hs.
    destruct (resolve_with (get xref member false (S f)) depth_cap s false) as [[r|id deps|]|c];
      try discriminate.
    - pose proof (deps_with_no_fuel _ false (member ref) deps Hg) as Hd.
      destruct (N.eqb id s); [exact Hd|].
      destruct (deps_with (get xref member false (S f)) false (member ref) deps) as [o|c]; [discriminate|].
      intros Hc. inversion Hc; subst. apply Hd. reflexivity.
    - intros Hc. inversion Hc; subst. apply Hs. reflexivity.
  Qed.
End Proofs.

(* the variant that fetches the dictionary entries with canObjStm = true:
   object 10 is compressed in stream 3 whose /Filter is the indirect object 10 *)
Definition bad_xref (r : N) : entry :=
  if N.eqb r 10 then EInStm 3 else if N.eqb r 3 then EDirect (SStm 3%N [10%N]) else EFree.

Theorem get_reentry_refuted_lemma :
  forall fuel, get bad_xref (fun _ => SVal) true fuel 10%N true = Err OutOfFuel.
Proof.
  induction fuel as [|f IH]; [reflexivity|].
  rewrite get_S. change (bad_xref 10) with (EInStm 3). cbv iota.
  destruct f as [|f']; [reflexivity|].
  change depth_cap with (S 255). cbn [resolve_with].
  rewrite (get_S bad_xref (fun _ => SVal) true f' 3%N false).
  change (bad_xref 3) with (EDirect (SStm 3%N [10%N])). cbv iota.
  change (N.eqb 3 3) with true. cbv iota. cbn [deps_with]. change depth_cap with (S 255). cbn [resolve_with].
  rewrite IH. reflexivity.
Qed.
