From Coq Require Import List NArith Bool Lia.
From GoPdf.Base Require Import Res.
From GoPdf.C05 Require Import ObjStmGet.
Import ListNotations.

Lemma resolve_with_no_fuel g k r can :
  (forall r', g r' can <> Err OutOfFuel) -> resolve_with g k r can <> Err OutOfFuel.
Proof.
  intros Hg. revert r. induction k as [|k IH]; intros r; cbn [resolve_with]; [discriminate|].
  pose proof (Hg r) as H.
  destruct (g r can) as [[r'|id deps|]|c]; try discriminate; [apply IH|exact H].
Qed.

Lemma deps_with_no_fuel g flag result ds :
  (forall r', g r' flag <> Err OutOfFuel) -> deps_with g flag result ds <> Err OutOfFuel.
Proof.
  intros Hg. induction ds as [|d ds IH]; cbn [deps_with]; [discriminate|].
  pose proof (resolve_with_no_fuel g depth_cap d flag Hg) as H.
  destruct (resolve_with g depth_cap d flag) as [o|c]; [exact IH|].
  intros Hc. inversion Hc; subst. apply H. reflexivity.
Qed.

Section Proofs.
  Variable xref : N -> entry.
  Variable member : N -> mval.

  Lemma get_S depflag f40 f ref can :
    get xref member depflag f40 (S f) ref can =
    match xref ref with
    | EFree => Ok SVal
    | EDirect o => Ok o
    | EInStm s =>
      if can then
        match resolve_with (get xref member depflag f40 f) depth_cap s false with
        | Ok (SStm id deps) =>
          match deps_with (get xref member depflag f40 f) depflag SVal deps with
          | Err c => Err c
          | Ok _ =>
            if N.eqb id s then read_member (get xref member depflag f40 f) f40 (member ref)
            else Err Malformed
          end
        | Ok _ => Err Malformed
        | Err c => Err c
        end
      else Err Malformed
    end.
  Proof. reflexivity. Qed.

  (* with canObjStm = false, get does not recurse: one level of fuel suffices *)
  Lemma get_false_flat depflag f40 f ref :
    get xref member depflag f40 (S f) ref false <> Err OutOfFuel.
  Proof. rewrite get_S. destruct (xref ref); discriminate. Qed.

  (* the code as it is: dictionary entries of an object stream are fetched with
     canObjStm = false and a stream-shaped member is refused without a Get:
     get calls nest at most two deep, whatever the cross-reference table and
     the contents of the object streams say *)
  Theorem get_depth_bounded_lemma :
    forall fuel ref can, 2 <= fuel ->
      get xref member false true fuel ref can <> Err OutOfFuel.
  Proof.
    intros fuel ref can Hf. destruct fuel as [|[|f]]; try lia.
    rewrite get_S. destruct (xref ref) as [|o|s]; try discriminate.
    destruct can; [|discriminate].
    assert (Hg : forall r', get xref member false true (S f) r' false <> Err OutOfFuel)
      by (intros r'; apply get_false_flat).
    pose proof (resolve_with_no_fuel _ depth_cap s false Hg) as Hs.
    destruct (resolve_with (get xref member false true (S f)) depth_cap s false) as [[r|id deps|]|c];
      try discriminate.
    - pose proof (deps_with_no_fuel _ false SVal deps Hg) as Hd.
      destruct (deps_with (get xref member false true (S f)) false SVal deps) as [o|c].
      + destruct (N.eqb id s); [|discriminate].
        unfold read_member. destruct (member ref); discriminate.
      + intros Hc. inversion Hc; subst. apply Hd. reflexivity.
    - intros Hc. inversion Hc; subst. apply Hs. reflexivity.
  Qed.

  (* a stream-shaped member never yields a value: it is Malformed as soon as
     its container has been found (no Get is made for its /Length) *)
  Theorem stream_shaped_member_lemma :
    forall fuel ref can l o,
      member ref = MStreamShaped l ->
      get xref member false true fuel ref can = Ok o ->
      exists d, xref ref = EDirect d \/ (xref ref = EFree /\ o = SVal).
  Proof.
    intros fuel ref can l o Hm Hg. destruct fuel as [|f]; [discriminate|].
    rewrite get_S in Hg. destruct (xref ref) as [|d|s].
    - exists SVal. right. split; [reflexivity|]. inversion Hg; reflexivity.
    - exists d. left; reflexivity.
    - exfalso. destruct can; [|discriminate].
      destruct (resolve_with _ depth_cap s false) as [[r|id deps|]|c]; try discriminate.
      destruct (deps_with _ false SVal deps) as [o'|c]; [|discriminate].
      destruct (N.eqb id s); [|discriminate].
      rewrite Hm in Hg. cbn in Hg. discriminate.
  Qed.
End Proofs.

(* variant 1 (seeded change C05-1): the dictionary entries fetched with
   canObjStm = true: object 10 is compressed in stream 3 whose /Filter is the
   indirect object 10 *)
Definition bad_xref (r : N) : entry :=
  if N.eqb r 10 then EInStm 3 else if N.eqb r 3 then EDirect (SStm 3%N [10%N]) else EFree.

Theorem get_reentry_refuted_lemma :
  forall fuel, get bad_xref (fun _ => MObj SVal) true true fuel 10%N true = Err OutOfFuel.
Proof.
  induction fuel as [|f IH]; [reflexivity|].
  rewrite get_S. change (bad_xref 10) with (EInStm 3). cbv iota.
  destruct f as [|f']; [reflexivity|].
  change depth_cap with (S 255). cbn [resolve_with].
  rewrite (get_S bad_xref (fun _ => MObj SVal) true true f' 3%N false).
  change (bad_xref 3) with (EDirect (SStm 3%N [10%N])). cbv iota.
  cbn [deps_with]. change depth_cap with (S 255). cbn [resolve_with].
  rewrite IH. reflexivity.
Qed.

(* variant 2 (the code before F40): object 10 is compressed in stream 3 and is
   stored there as `<< /Length 10 0 R >> stream` *)
Definition f40_xref (r : N) : entry :=
  if N.eqb r 10 then EInStm 3 else if N.eqb r 3 then EDirect (SStm 3%N []) else EFree.

Theorem get_f40_refuted_lemma :
  forall fuel, get f40_xref (fun _ => MStreamShaped 10%N) false false fuel 10%N true = Err OutOfFuel.
Proof.
  induction fuel as [|f IH]; [reflexivity|].
  rewrite get_S. change (f40_xref 10) with (EInStm 3). cbv iota.
  destruct f as [|f']; [reflexivity|].
  change depth_cap with (S 255). cbn [resolve_with].
  rewrite (get_S f40_xref (fun _ => MStreamShaped 10%N) false false f' 3%N false).
  change (f40_xref 3) with (EDirect (SStm 3%N [])). cbv iota.
  cbn [deps_with]. change (N.eqb 3 3) with true. cbv iota.
  unfold read_member. change depth_cap with (S 255). cbn [resolve_with].
  rewrite IH. reflexivity.
Qed.
