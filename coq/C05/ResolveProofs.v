From Coq Require Import List NArith ZArith Bool Lia.
From GoPdf.Base Require Import Res.
From GoPdf.Gen Require Import Gen_C05.
From GoPdf.C05 Require Import Resolve.
Import ListNotations.
Close Scope Z_scope.
Open Scope nat_scope.

Lemma nmem_In x l : nmem x l = true <-> In x l.
Proof.
  unfold nmem. rewrite existsb_exists. split.
  - intros (y & Hy & He). apply N.eqb_eq in He. subst. exact Hy.
  - intros H. exists x. split; [exact H|apply N.eqb_refl].
Qed.

Lemma step_ok path ref path' :
  step path ref = SOk path' ->
  path' = ref :: path /\ ~ In ref path /\ (Z.of_nat (length path') <= MaxExtractDepth)%Z.
Proof.
  unfold step. destruct (nmem ref path) eqn:Hm; [discriminate|].
  destruct (MaxExtractDepth <? Z.of_nat (S (length path)))%Z eqn:Hd; [discriminate|].
  intros H; inversion H; subst. split; [reflexivity|]. split.
  - intros Hin. apply nmem_In in Hin. congruence.
  - apply Z.ltb_ge in Hd. cbn [length]. exact Hd.
Qed.

Section ResolveProofs.
  Variable get : N -> got.

  Definition good (path0 : list N) (gets0 : nat) (o : outcome) : Prop :=
    o <> OFuel /\
    (gets_of o + length path0 <= gets0 + Z.to_nat MaxExtractDepth) /\
    (gets0 <= gets_of o) /\
    (forall c g, o = OGetErr c g -> exists r, get r = GErr c) /\
    (forall v p g, o = OVal v p g -> NoDup path0 -> NoDup p) /\
    (forall v p g, o = OVal v p g -> (Z.of_nat (length p) <= MaxExtractDepth)%Z).

  Lemma resolve_loop_total :
    forall fuel path ref gets,
      (Z.of_nat (length path) <= MaxExtractDepth)%Z ->
      (S (Z.to_nat MaxExtractDepth) <= fuel + length path) ->
      good path gets (resolve_loop get fuel path ref gets).
  Proof.
    induction fuel as [|f IH]; intros path ref gets Hp Hf; [lia|].
    cbn [resolve_loop]. destruct (step path ref) as [path'| |] eqn:Hs.
    - destruct (step_ok _ _ _ Hs) as (-> & Hnin & Hlen).
      destruct (get ref) as [v| |r|c] eqn:Hg.
      + unfold good; cbn [gets_of]. repeat split; try discriminate; try lia.
        * cbn [length] in Hlen. lia.
        * intros v0 p g H Hnd; inversion H; subst. constructor; assumption.
        * intros v0 p g H; inversion H; subst. exact Hlen.
      + unfold good; cbn [gets_of]. repeat split; try discriminate; try lia.
        * cbn [length] in Hlen. lia.
        * intros v0 p g H Hnd; inversion H; subst. constructor; assumption.
        * intros v0 p g H; inversion H; subst. exact Hlen.
      + destruct (IH (ref :: path) r (S gets) Hlen) as (H1 & H2 & H3 & H4 & H5 & H6).
        { cbn [length]. lia. }
        unfold good. repeat split; auto.
        * cbn [length] in H2. lia.
        * lia.
        * intros v p g H Hnd. eapply H5; [exact H|]. constructor; assumption.
      + unfold good; cbn [gets_of]. repeat split; try discriminate; try lia.
        * cbn [length] in Hlen. lia.
        * intros c0 g H; inversion H; subst. eauto.
    - unfold good; cbn [gets_of]. repeat split; try discriminate; lia.
    - unfold good; cbn [gets_of]. repeat split; try discriminate; lia.
  Qed.
End ResolveProofs.

(* statement used by Prop_C05.v *)
Theorem resolve_total_lemma :
  forall (get : N -> got) (ref : N) (fuel : nat),
    resolve_fuel <= fuel ->
    let o := resolve_loop get fuel [] ref 0 in
    o <> OFuel /\
    (forall c, to_res o = Err c -> c = Malformed \/ exists r, get r = GErr c) /\
    gets_of o <= Z.to_nat MaxExtractDepth /\
    (forall v p g, o = OVal v p g -> NoDup p /\ length p <= Z.to_nat MaxExtractDepth).
Proof.
  intros get ref fuel Hf o.
  destruct (resolve_loop_total get fuel [] ref 0) as (H1 & H2 & H3 & H4 & H5 & H6).
  - cbn. unfold MaxExtractDepth. lia.
  - unfold resolve_fuel in Hf. cbn [length]. lia.
  - fold o in H1, H2, H4, H5, H6. split; [exact H1|]. split.
    + intros c. destruct o; cbn; try discriminate; try congruence.
      * intros H; inversion H; auto.
      * intros H; inversion H; auto.
      * intros H; inversion H; subst. right. eapply H4; reflexivity.
    + split; [cbn [length] in H2; lia|].
        intros v p g Ho. split; [eapply H5; [exact Ho|constructor]|].
        specialize (H6 v p g Ho). lia.
Qed.
