From Coq Require Import List ZArith Bool Lia Arith.
From GoPdf.Base Require Import Res.
From GoPdf.Gen Require Import Gen_C05.
From GoPdf.C05 Require Import ObjStmIndex.
Import ListNotations.
Open Scope Z_scope.

Definition nonneg_pos (ints : list (Z * Z)) : Prop := Forall (fun e => 0 <= snd e) ints.

(* a Go Integer is an int64 *)
Definition int64_first (first_o : dval) : Prop :=
  match first_o with DInt f => f <= max_int | DOther => True end.

Definition entry_ok (e : Z * Z) : Prop := 0 <= fst e <= max_uint32 /\ 0 <= snd e <= max_int.

Lemma read_table_spec n : forall ints tail_err acc pos rd tbl pos' rd',
  read_table n ints tail_err acc pos rd = Ok (tbl, pos', rd') ->
  nonneg_pos ints -> 0 <= pos -> Forall entry_ok acc ->
  length tbl = (length acc + n)%nat /\ rd' = (rd + 2 * n)%nat /\
  (2 * n <= length ints)%nat /\ 0 <= pos' /\ Forall entry_ok tbl.
Proof.
  induction n as [|n IH]; intros ints tail_err acc pos rd tbl pos' rd' H Hnn Hp Hacc; cbn [read_table] in H.
  - inversion H; subst. rewrite rev_length. repeat split; try lia. apply Forall_rev. exact Hacc.
  - destruct ints as [|[no p1] [|[offs p2] ints2]]; try discriminate.
    destruct ((no <? 0) || (max_uint32 <? no) || (offs <? 0) || (max_int <? offs)) eqn:E; [discriminate|].
    inversion Hnn as [|? ? _ Hnn1]; subst. inversion Hnn1 as [|? ? Hp2 Hnn2]; subst. cbn [snd] in Hp2.
    destruct (IH _ _ _ _ _ _ _ _ H Hnn2 Hp2) as (H1 & H2 & H3 & H4 & H5).
    { constructor; [|exact Hacc]. unfold entry_ok. cbn [fst snd]. lia. }
    cbn [length] in *. repeat split; try lia. exact H5.
Qed.

Lemma read_table_err n : forall ints tail_err acc pos rd c,
  read_table n ints tail_err acc pos rd = Err c -> c = Malformed \/ c = tail_err.
Proof.
  induction n as [|n IH]; intros ints tail_err acc pos rd c H; cbn [read_table] in H; [discriminate|].
  destruct ints as [|[no p1] [|[offs p2] ints2]]; try (inversion H; auto).
  destruct ((no <? 0) || (max_uint32 <? no) || (offs <? 0) || (max_int <? offs)); [inversion H; auto|].
  eapply IH; exact H1.
Qed.

Lemma swrap64_small x : 0 <= x < 2^63 -> swrap 64 x = x.
Proof. intros H. unfold swrap. change (2 ^ (64 - 1)) with (2^63). rewrite Z.mod_small; lia. Qed.

Lemma swrap64_big x : 2^63 <= x < 2^64 -> swrap 64 x < 0.
Proof.
  intros H. unfold swrap. change (2 ^ (64 - 1)) with (2^63).
  replace (x + 2^63) with ((x - 2^63) + 1 * 2^64) by lia.
  rewrite Z.mod_add by lia. rewrite Z.mod_small; lia.
Qed.

Lemma add_first_spec f : forall l es,
  0 <= f <= max_int -> Forall entry_ok l -> add_first f l = Ok es ->
  length es = length l /\
  Forall (fun e => 0 <= fst e <= max_uint32 /\ f <= snd e) es.
Proof.
  induction l as [|[no offs] l IH]; intros es Hf Hl H; cbn [add_first] in H.
  - inversion H; subst. split; [reflexivity|constructor].
  - destruct (swrap 64 (offs + f) <? offs) eqn:E; [discriminate|].
    destruct (add_first f l) as [r|c] eqn:Er; [|discriminate]. inversion H; subst.
    inversion Hl as [|? ? [Hno Hoffs] Hl']; subst. cbn [fst snd] in *.
    destruct (IH r Hf Hl' eq_refl) as [H1 H2]. split; [cbn; lia|].
    constructor; [|exact H2]. cbn [fst snd]. split; [exact Hno|].
    apply Z.ltb_ge in E. unfold max_int in *.
    destruct (Z_lt_ge_dec (offs + f) (2^63)) as [Hs|Hb].
    + rewrite swrap64_small in * by lia. lia.
    + assert (swrap 64 (offs + f) < 0) by (apply swrap64_big; lia). lia.
Qed.

Lemma add_first_err f l c : add_first f l = Err c -> c = Malformed.
Proof.
  revert c. induction l as [|[no offs] l IH]; intros c H; cbn [add_first] in H; [discriminate|].
  destruct (swrap 64 (offs + f) <? offs); [inversion H; reflexivity|].
  destruct (add_first f l) as [r|c'] eqn:E; [discriminate|]. inversion H; subst. apply IH. reflexivity.
Qed.

(* statements for Prop_C05.v *)
Theorem objstm_index_total_lemma :
  forall (n_o first_o : dval) (ints : list (Z * Z)) (tail_err : cls),
    nonneg_pos ints -> int64_first first_o ->
    match get_objstm n_o first_o ints tail_err with
    | Ok ix =>
      (exists n, n_o = DInt n /\ 0 <= n <= max_n /\ length (entries ix) = Z.to_nat n /\
                 reads ix = (2 * Z.to_nat n)%nat) /\
      (reads ix <= length ints)%nat /\
      Forall (fun e => 0 <= fst e <= max_uint32 /\ ipos ix <= snd e) (entries ix)
    | Err c => c = Malformed \/ c = tail_err
    end.
Proof.
  intros n_o first_o ints tail_err Hnn Hfm. unfold get_objstm.
  destruct n_o as [n|]; [|left; reflexivity].
  destruct ((n <? 0) || (max_n <? n)) eqn:En; [left; reflexivity|].
  destruct (read_table (Z.to_nat n) ints tail_err [] 0 0) as [[[tbl pos] rd]|c] eqn:Er.
  - destruct (read_table_spec _ _ _ _ _ _ _ _ _ Er Hnn (Z.le_refl 0) (Forall_nil _)) as (H1 & H2 & H3 & H4 & H5).
    destruct first_o as [f|]; [|left; reflexivity]. cbn in Hfm.
    destruct (f <? pos) eqn:Ef; [left; reflexivity|]. apply Z.ltb_ge in Ef.
    destruct (add_first f tbl) as [es|c] eqn:Ea.
    + cbn [entries reads ipos].
      destruct (add_first_spec f tbl es (conj (Z.le_trans _ _ _ H4 Ef) Hfm) H5 Ea) as [L1 L2].
      split; [exists n; repeat split; cbn [length] in *; lia|]. split; [lia|].
      eapply Forall_impl; [|exact L2]. cbn. intros e [Ha Hb]. split; [exact Ha|lia].
    + left. eapply add_first_err. exact Ea.
  - eapply read_table_err. exact Er.
Qed.

Lemma find_first_lt number l i m : find_first number l i = Some m -> (i <= m < i + length l)%nat.
Proof.
  revert i. induction l as [|[no offs] l IH]; intros i H; cbn [find_first] in H; [discriminate|].
  destruct (no =? number).
  - inversion H; subst. cbn [length]. lia.
  - apply IH in H. cbn [length]. lia.
Qed.

Theorem objstm_lookup_total_lemma :
  forall (n_o first_o : dval) (ints : list (Z * Z)) (tail_err : cls) (number : Z),
    nonneg_pos ints -> int64_first first_o ->
    match objstm_find n_o first_o ints tail_err number with
    | Ok (FReadAt off) =>
      exists ix, get_objstm n_o first_o ints tail_err = Ok ix /\ ipos ix <= off
    | Ok FNull => False          (* the delta < 0 branch is dead code after the /First check *)
    | Err c => c = Malformed \/ c = tail_err
    end.
Proof.
  intros n_o first_o ints tail_err number Hnn Hfm. unfold objstm_find.
  pose proof (objstm_index_total_lemma n_o first_o ints tail_err Hnn Hfm) as H.
  destruct (get_objstm n_o first_o ints tail_err) as [ix|c]; [|exact H].
  destruct H as (_ & _ & Hall). unfold lookup_member.
  destruct (find_first number (entries ix) 0) as [m|] eqn:Ef; [|left; reflexivity].
  pose proof (find_first_lt _ _ _ _ Ef) as Hm.
  destruct (nth_error (entries ix) m) as [[no offs]|] eqn:En.
  - apply nth_error_In in En. rewrite Forall_forall in Hall. specialize (Hall _ En). cbn [fst snd] in Hall.
    assert (E : (offs - ipos ix <? 0) = false) by (apply Z.ltb_ge; lia). rewrite E.
    exists ix. split; [reflexivity|lia].
  - exfalso. apply nth_error_None in En. lia.
Qed.

(* ownership: every exit of getObjStm either hands the open reader to the
   caller (success) or has closed it / never opened it *)
Theorem objstm_reader_ownership_lemma :
  forall (derr : option cls) (n_o first_o : dval) (ints : list (Z * Z)) (tail_err : cls),
    match get_objstm_own true derr n_o first_o ints tail_err with
    | (Ok _, ROpen) => derr = None
    | (Err _, RNone) => True
    | (Err _, RClosed) => derr = None
    | _ => False
    end.
Proof.
  intros derr n_o first_o ints tail_err. unfold get_objstm_own.
  destruct (negb (n_ok n_o)); [exact I|].
  destruct derr as [c|]; [exact I|].
  destruct (get_objstm n_o first_o ints tail_err); reflexivity.
Qed.

(* the result is the one of the pure model whenever the stream could be opened *)
Lemma get_objstm_own_result f n_o first_o ints tail_err :
  fst (get_objstm_own f None n_o first_o ints tail_err) = get_objstm n_o first_o ints tail_err.
Proof.
  unfold get_objstm_own, get_objstm, n_ok.
  destruct n_o as [n|]; cbn [negb]; [|reflexivity].
  destruct ((n <? 0) || (max_n <? n)); cbn [negb]; [reflexivity|].
  destruct (read_table (Z.to_nat n) ints tail_err [] 0 0) as [[[tbl pos] rd]|c]; [|reflexivity].
  destruct first_o as [f0|]; [|reflexivity].
  destruct (f0 <? pos); [reflexivity|]. destruct (add_first f0 tbl); reflexivity.
Qed.

(* no exit of getFromObjStm leaves the reader open *)
Theorem objstm_get_closes_reader_lemma :
  forall (derr : option cls) (n_o first_o : dval) (ints : list (Z * Z)) (tail_err : cls) (number : Z),
    snd (get_from_objstm_own true derr n_o first_o ints tail_err number) <> ROpen.
Proof.
  intros derr n_o first_o ints tail_err number. unfold get_from_objstm_own.
  pose proof (objstm_reader_ownership_lemma derr n_o first_o ints tail_err) as H.
  destruct (get_objstm_own true derr n_o first_o ints tail_err) as [[ix|c] st]; cbn [snd]; [discriminate|].
  destruct st; try discriminate. exact (False_ind _ H).
Qed.

(* the code before F55: /N = 1 and no integer in the data leaves it open *)
Theorem objstm_reader_leak_refuted_lemma :
  get_from_objstm_own false None (DInt 1) (DInt 4) [] Malformed 3 = (Err Malformed, ROpen).
Proof. vm_compute. reflexivity. Qed.
