(* CCITTFax K = 0: the code tables (finite checks by evaluation). *)
From Coq Require Import List NArith ZArith Bool Lia ZifyN ZifyNat ZifyBool Arith FMapPositive.
From GoPdf.Base Require Import Bytes Res.
From GoPdf.Gen Require Import Gen_C06ccitt.
From GoPdf.C06 Require Import Machine CCITT.
Import ListNotations.
Open Scope N_scope.

(* ---- the code tables ---- *)

(* a code word: its bits and the decoder's (state, run length) for it *)
Definition cword := (list bool * (N * N))%type.

Definition nrange (n : nat) : list N := map N.of_nat (seq 0 n).

Definition codes_of (white : bool) : list cword :=
  map (fun n => (term_bits white n, (if white then st_termw else st_termb, n))) (nrange 64)
  ++ map (fun i => (makeup_bits white i, (if white then st_makeupw else st_makeupb, 64 * (i + 1)))) (nrange 27)
  ++ map (fun i => (ext_bits i, (st_makeup, 1792 + 64 * i))) (nrange 13)
  ++ [(repeat false 11, (st_eol, 0))].

Fixpoint is_prefix (a l : list bool) : bool :=
  match a, l with
  | [], _ => true
  | x :: a', y :: l' => Bool.eqb x y && is_prefix a' l'
  | _ :: _, [] => false
  end.

Fixpoint all_bits (n : nat) : list (list bool) :=
  match n with
  | O => [[]]
  | S n' => map (cons false) (all_bits n') ++ map (cons true) (all_bits n')
  end.

Lemma all_bits_in : forall n l, length l = n -> In l (all_bits n).
Proof.
  induction n as [|n IH]; intros l H.
  - destruct l; [left; reflexivity|discriminate].
  - destruct l as [|b l]; [discriminate|]. cbn [all_bits]. apply in_or_app.
    destruct b; [right|left]; apply in_map; apply IH; cbn in H; lia.
Qed.

(* no code word is a prefix of another one (T.4: the codes are a prefix code) *)
Definition prefix_free (cs : list cword) : bool :=
  forallb (fun ic => forallb (fun jc => Nat.eqb (fst ic) (fst jc) || negb (is_prefix (fst (snd ic)) (fst (snd jc))))
                             (combine (seq 0 (length cs)) cs))
          (combine (seq 0 (length cs)) cs).

Lemma ccitt_prefix_free_check : prefix_free (codes_of true) && prefix_free (codes_of false) = true.
Proof. vm_compute. reflexivity. Qed.

(* the decoder's lookup tables (4096 / 8192 entries) are what the code words say *)
Definition entry (white : bool) (l : list bool) : N * N * N :=
  let v := num_of l 0 in
  if white then (tget whiteW v, tget whiteS v, tget whiteP v) else (tget blackW v, tget blackS v, tget blackP v).

Definition entry_is (e : N * N * N) (c : cword) : bool :=
  let '(w, s, p) := e in
  (w =? N.of_nat (length (fst c))) && (s =? fst (snd c)) && (p =? snd (snd c)).

Definition window (white : bool) : nat := if white then 12%nat else 13%nat.

Definition table_ok (white : bool) : bool :=
  forallb (fun l =>
    forallb (fun c => negb (is_prefix (fst c) l) || entry_is (entry white l) c) (codes_of white)
    && (existsb (fun c => is_prefix (fst c) l) (codes_of white) || (fst (fst (entry white l)) =? 0)))
    (all_bits (window white))
  && forallb (fun c => Nat.leb 1 (length (fst c)) && Nat.leb (length (fst c)) (window white)) (codes_of white).

Lemma table_ok_white : table_ok true = true.
Proof. vm_compute. reflexivity. Qed.
Lemma table_ok_black : table_ok false = true.
Proof. vm_compute. reflexivity. Qed.
Lemma table_ok_all white : table_ok white = true.
Proof. destruct white; [exact table_ok_white|exact table_ok_black]. Qed.
Lemma ccitt_table_check : table_ok true && table_ok false = true.
Proof. rewrite table_ok_white, table_ok_black. reflexivity. Qed.

Global Opaque whiteW whiteS whiteP blackW blackS blackP prefix_free table_ok.
