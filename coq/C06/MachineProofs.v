From Coq Require Import List Arith Lia.
From GoPdf.C06 Require Import Machine.
Import ListNotations.

Section MachineP.
  Context {S I O : Type}.
  Variable step : S -> I -> S * list O.

  Lemma run_app st xs ys :
    run step st (xs ++ ys) =
    let '(st1, o1) := run step st xs in
    let '(st2, o2) := run step st1 ys in (st2, o1 ++ o2).
  Proof.
    revert st; induction xs as [|x xs IH]; intros st; cbn [run app].
    - destruct (run step st ys); reflexivity.
    - destruct (step st x) as [st1 o1]. rewrite IH.
      destruct (run step st1 xs) as [st2 o2]. destruct (run step st2 ys) as [st3 o3].
      rewrite app_assoc. reflexivity.
  Qed.

  Lemma run_app_fst st xs ys :
    fst (run step st (xs ++ ys)) = fst (run step (fst (run step st xs)) ys).
  Proof.
    rewrite run_app. destruct (run step st xs) as [s1 o1]; cbn [fst].
    destruct (run step s1 ys); reflexivity.
  Qed.

  Lemma run_app_snd st xs ys :
    snd (run step st (xs ++ ys)) = snd (run step st xs) ++ snd (run step (fst (run step st xs)) ys).
  Proof.
    rewrite run_app. destruct (run step st xs) as [s1 o1]; cbn [fst snd].
    destruct (run step s1 ys); reflexivity.
  Qed.

  Theorem run_chunks_concat st cs : run_chunks step st cs = run step st (concat cs).
  Proof.
    revert st; induction cs as [|c cs IH]; intros st; cbn [run_chunks concat]; [reflexivity|].
    rewrite run_app. destruct (run step st c) as [st1 o1]. rewrite IH. reflexivity.
  Qed.

  Lemma run_cons st x xs :
    run step st (x :: xs) =
    let '(st1, o1) := step st x in let '(st2, o2) := run step st1 xs in (st2, o1 ++ o2).
  Proof. reflexivity. Qed.

  Lemma run_step1 st x xs st1 o1 :
    step st x = (st1, o1) ->
    run step st (x :: xs) = let '(st2, o2) := run step st1 xs in (st2, o1 ++ o2).
  Proof. intros H. cbn [run]. rewrite H. reflexivity. Qed.
End MachineP.

Section RowsP.
  Context {P A : Type}.
  Variable n : nat.
  Variable f : P -> list A -> P * list A.
  Hypothesis npos : (0 < n)%nat.

  (* filling up a row that has [cur] (reversed) so far *)
  Lemma rows_fill : forall r p cur rest,
    (length cur + length r = n)%nat -> r <> [] ->
    run (rows_step n f) {| rp := p; rcur := cur; rcnt := length cur |} (r ++ rest) =
    let '(p', out) := f p (rev cur ++ r) in
    let '(st2, o2) := run (rows_step n f) (rows_init p') rest in (st2, out ++ o2).
  Proof.
    induction r as [|b r IH]; intros p cur rest Hlen Hne; [congruence|].
    cbn [app run]. unfold rows_step at 1. cbn [rcnt rcur rp].
    destruct r as [|b' r'].
    - cbn [length] in Hlen. replace (S (length cur) =? n)%nat with true by (symmetry; apply Nat.eqb_eq; lia).
      cbn [rev app]. destruct (f p (rev cur ++ [b])) as [p' out].
      unfold rows_init. cbn [app]. destruct (run _ _ rest). reflexivity.
    - cbn [length] in Hlen. replace (S (length cur) =? n)%nat with false by (symmetry; apply Nat.eqb_neq; lia).
      specialize (IH p (b :: cur) rest). cbn [length] in IH.
      rewrite IH by (try lia; congruence).
      cbn [rev]. rewrite <- app_assoc. cbn [app].
      destruct (f p (rev cur ++ b :: b' :: r')). destruct (run _ _ rest). reflexivity.
  Qed.

  Theorem rows_run : forall rows p,
    Forall (fun r => length r = n) rows ->
    run (rows_step n f) (rows_init p) (concat rows) =
    let '(p', out) := rows_fold f p rows in (rows_init p', out).
  Proof.
    induction rows as [|r rows IH]; intros p Hall; cbn [concat rows_fold run]; [reflexivity|].
    inversion Hall as [|? ? Hr Hrest]. clear Hall.
    unfold rows_init at 1. change (@nil A) with (@rev A []) at 1.
    pose proof (rows_fill r p [] (concat rows)) as Hf. cbn [length rev app] in Hf.
    unfold rows_init. cbn [rev].
    rewrite Hf; [|lia|destruct r; cbn in *; [lia|congruence]].
    destruct (f p r) as [p1 o1]. rewrite IH by assumption.
    destruct (rows_fold f p1 rows). reflexivity.
  Qed.
End RowsP.
