(* LZW, code level: the decoder, fed the (width, code) pairs the encoder emits, is at the same code
   width as the encoder at every code, rebuilds the encoder's table one entry behind, and returns
   the encoder's input. *)
From Coq Require Import List NArith ZArith Bool Lia ZifyN ZifyNat ZifyBool FMapPositive.
From GoPdf.Base Require Import Bytes Res.
From GoPdf.Gen Require Import Gen_C06.
From GoPdf.C06 Require Import Machine MachineProofs LZW.
Import ListNotations.
Open Scope N_scope.

Lemma succ_pos_inj a b : N.succ_pos a = N.succ_pos b -> a = b.
Proof. intros H. apply (f_equal Npos) in H. rewrite !N.succ_pos_spec in H. lia. Qed.

Lemma lzw_key_inj k x k' x' : x < 256 -> x' < 256 -> lzw_key k x = lzw_key k' x' -> k = k' /\ x = x'.
Proof. unfold lzw_key. intros Hx Hx' H. apply succ_pos_inj in H. lia. Qed.

Lemma lzw_consts : lzw_clear_code = 256 /\ lzw_eod_code = 257 /\ lzw_max_code = 4095 /\
  lzw_min_width = 9 /\ lzw_max_width = 12.
Proof. repeat split; reflexivity. Qed.

(* code-level decoding; the width the encoder used must be the decoder's current width *)
Fixpoint dec_codes (ec : N) (d : lzw_dst) (cs : list (N * N)) : lzw_dst * list byte :=
  match cs with
  | [] => (d, [])
  | (w, c) :: r =>
    match ld_status d with
    | LZ_Run =>
      if w =? ld_width d then
        let '(d1, o1) := lzw_dec_code ec d c in
        let '(d2, o2) := dec_codes ec d1 r in (d2, o1 ++ o2)
      else (lzw_set_status d LZ_Fail, [])
    | _ => (d, [])
    end
  end.

Definition code_ok (wc : N * N) : Prop := 9 <= fst wc /\ fst wc <= 12 /\ snd wc < 2 ^ fst wc.

Lemma dec_codes_app ec : forall a d b,
  dec_codes ec d (a ++ b) =
  let '(d1, o1) := dec_codes ec d a in
  let '(d2, o2) := dec_codes ec d1 b in (d2, o1 ++ o2).
Proof.
  induction a as [|[w c] a IH]; intros d b; cbn [app dec_codes].
  - destruct (dec_codes ec d b); reflexivity.
  - destruct (ld_status d) eqn:Es.
    + destruct (w =? ld_width d).
      * destruct (lzw_dec_code ec d c) as [d1 o1]. rewrite IH.
        destruct (dec_codes ec d1 a) as [d2 o2]. destruct (dec_codes ec d2 b) as [d3 o3].
        rewrite app_assoc. reflexivity.
      * assert (Hf : forall l, dec_codes ec (lzw_set_status d LZ_Fail) l = (lzw_set_status d LZ_Fail, [])).
        { intros [|[w' c'] l]; reflexivity. }
        rewrite Hf. reflexivity.
    + assert (Hf : forall l, dec_codes ec d l = (d, [])).
      { intros [|[w' c'] l]; cbn [dec_codes]; [reflexivity|rewrite Es; reflexivity]. }
      rewrite Hf. reflexivity.
    + assert (Hf : forall l, dec_codes ec d l = (d, [])).
      { intros [|[w' c'] l]; cbn [dec_codes]; [reflexivity|rewrite Es; reflexivity]. }
      rewrite Hf. reflexivity.
Qed.

(* the string a code stands for, seen from the encoder: the decoder's table plus the entry
   the decoder will only add with the next code *)
Definition ext_str (d : lzw_dst) (pend : option (list byte)) (c : N) : option (list byte) :=
  if c =? ld_hi d then pend else lzw_str (ld_tbl d) c.

Record rel (ec : N) (e : lzw_est) (d : lzw_dst) (cur : N) (m : list byte) (pend : option (list byte)) : Prop := {
  r_run : ld_status d = LZ_Run;
  r_hi : le_hi e = ld_hi d;
  r_w : le_width e = ld_width d;
  r_hi_lo : 257 <= ld_hi d;
  r_fit : ld_hi d + ec < 2 ^ ld_width d;
  r_max : ld_hi d + ec < 4095;
  r_wlo : 9 <= ld_width d;
  r_whi : ld_width d <= 12;
  r_saved : le_saved e = Some cur;
  r_m : m <> [];
  r_cur : cur < 256 \/ (258 <= cur /\ cur <= ld_hi d);
  r_dtbl : forall c, 258 <= c -> c < ld_hi d ->
           exists s, PM.find (N.succ_pos c) (ld_tbl d) = Some s /\ s <> [];
  r_pend : match ld_last d with
           | None => ld_hi d = 257 /\ pend = None
           | Some lastc => 258 <= ld_hi d /\ exists sl, lzw_str (ld_tbl d) lastc = Some sl /\ sl <> [] /\
                           pend = Some (sl ++ [hd 0 m])
           end;
  r_curstr : ext_str d pend cur = Some m;
  r_etbl : forall k x c, x < 256 -> PM.find (lzw_key k x) (le_tbl e) = Some c ->
           258 <= c /\ c <= ld_hi d /\ k <= ld_hi d /\
           exists sk, ext_str d pend k = Some sk /\ ext_str d pend c = Some (sk ++ [x])
}.

Section Code.
  Variable ec : N.
  Hypothesis Hec : ec = 0 \/ ec = 1.

  Lemma rel_hit e d cur m pend x c :
    rel ec e d cur m pend -> x < 256 -> PM.find (lzw_key cur x) (le_tbl e) = Some c ->
    rel ec {| le_tbl := le_tbl e; le_hi := le_hi e; le_width := le_width e; le_saved := Some c |}
        d c (m ++ [x]) pend.
  Proof.
    intros R Hx Hf. destruct (r_etbl _ _ _ _ _ _ R cur x c Hx Hf) as (Hc1 & Hc2 & Hk0 & sk & Hk & Hc).
    rewrite (r_curstr _ _ _ _ _ _ R) in Hk. inversion Hk; subst sk.
    destruct R. constructor; cbn [le_tbl le_hi le_width le_saved]; auto.
    - destruct m; [congruence|discriminate].
    - destruct (ld_last d) as [lastc|]; [|assumption].
      destruct r_pend0 as (H1 & sl & H2 & H3 & H4). split; [assumption|]. exists sl. repeat split; auto.
      destruct m; [congruence|assumption].
  Qed.

  (* the table the decoder has after the pending entry has been added *)
  Definition tbl_next (d : lzw_dst) (pend : option (list byte)) : PM.t (list byte) :=
    match pend with Some p => PM.add (N.succ_pos (ld_hi d)) p (ld_tbl d) | None => ld_tbl d end.

  Definition width_next (d : lzw_dst) : N :=
    if ld_hi d + 1 + ec =? 2 ^ ld_width d then ld_width d + 1 else ld_width d.

  Definition d_next (d : lzw_dst) (pend : option (list byte)) (cur : N) : lzw_dst :=
    {| ld_acc := ld_acc d; ld_n := ld_n d; ld_width := width_next d; ld_hi := ld_hi d + 1;
       ld_last := Some cur; ld_tbl := tbl_next d pend; ld_status := LZ_Run |}.

  Lemma pow2_bounds w : 9 <= w -> w <= 12 -> 512 <= 2 ^ w /\ 2 ^ w <= 4096 /\ (w < 12 -> 2 ^ w <= 2048) /\ (12 <= w -> 2 ^ w = 4096).
  Proof.
    intros H1 H2.
    assert (w = 9 \/ w = 10 \/ w = 11 \/ w = 12) as [ -> | [ -> | [ -> | -> ] ] ] by lia; cbn; lia.
  Qed.

  Lemma dec_data_code e d cur m pend :
    rel ec e d cur m pend -> lzw_dec_code ec d cur = (d_next d pend cur, m).
  Proof.
    intros R. destruct R. unfold lzw_dec_code.
    destruct lzw_consts as (Hc & He & _). rewrite Hc, He.
    replace (cur =? 256) with false by lia. replace (cur =? 257) with false by lia.
    replace (cur <=? ld_hi d) with true by lia.
    unfold ext_str in r_curstr0.
    assert (Hs : (match (match ld_last d with Some l => lzw_str (ld_tbl d) l | None => None end) with
                  | Some sl => if cur =? ld_hi d then Some (sl ++ [hd 0 sl]) else lzw_str (ld_tbl d) cur
                  | None => lzw_str (ld_tbl d) cur end) = Some m).
    { destruct (ld_last d) as [lastc|].
      - destruct r_pend0 as (H1 & sl & H2 & H3 & H4). rewrite H2.
        destruct (cur =? ld_hi d) eqn:E; [|assumption].
        rewrite H4 in r_curstr0. inversion r_curstr0 as [Hm].
        f_equal. rewrite <- Hm. f_equal. f_equal.
        destruct sl; [congruence|]. rewrite <- Hm. reflexivity.
      - destruct r_pend0 as [H1 H2]. replace (cur =? ld_hi d) with false in r_curstr0 by lia. assumption. }
    rewrite Hs.
    assert (Ht : (match (match ld_last d with Some l => lzw_str (ld_tbl d) l | None => None end) with
                  | Some sl => PM.add (N.succ_pos (ld_hi d)) (sl ++ [hd 0 m]) (ld_tbl d)
                  | None => ld_tbl d end) = tbl_next d pend).
    { unfold tbl_next. destruct (ld_last d) as [lastc|].
      - destruct r_pend0 as (H1 & sl & H2 & H3 & H4). rewrite H2, H4. reflexivity.
      - destruct r_pend0 as [H1 H2]. rewrite H2. reflexivity. }
    rewrite Ht. f_equal.
    unfold lzw_bump, d_next, width_next. destruct lzw_consts as (_ & _ & _ & _ & Hmw). rewrite Hmw.
    destruct (pow2_bounds _ r_wlo0 r_whi0) as (P1 & P2 & P3 & P4).
    destruct (2 ^ ld_width d <=? ld_hi d + 1 + ec) eqn:E.
    - replace (12 <=? ld_width d) with false by lia.
      replace (ld_hi d + 1 + ec =? 2 ^ ld_width d) with true by lia. reflexivity.
    - replace (ld_hi d + 1 + ec =? 2 ^ ld_width d) with false by lia. reflexivity.
  Qed.

  Lemma lzw_str_next d pend c s :
    (match ld_last d with None => ld_hi d = 257 /\ pend = None | Some _ => 258 <= ld_hi d end) ->
    c <= ld_hi d -> ext_str d pend c = Some s -> lzw_str (tbl_next d pend) c = Some s.
  Proof.
    intros Hp Hc. unfold ext_str, tbl_next, lzw_str.
    destruct (c =? ld_hi d) eqn:E.
    - intros ->. assert (c = ld_hi d) by lia. subst c.
      destruct (ld_last d); [|destruct Hp; congruence].
      replace (ld_hi d <? 256) with false by lia. apply PM.gss.
    - destruct (c <? 256); [destruct pend; auto|].
      destruct pend; [|auto]. intros H. rewrite PM.gso; [assumption|].
      intros Heq. apply succ_pos_inj in Heq. lia.
  Qed.

  Lemma rel_miss e d cur m pend x :
    rel ec e d cur m pend -> x < 256 ->
    (le_hi e + 1 + ec =? 4095) = false ->
    rel ec {| le_tbl := PM.add (lzw_key cur x) (le_hi e + 1) (le_tbl e); le_hi := le_hi e + 1;
              le_width := (if le_hi e + 1 + ec =? 2 ^ le_width e then le_width e + 1 else le_width e);
              le_saved := Some x |}
        (d_next d pend cur) x [x] (Some (m ++ [x])).
  Proof.
    intros R Hx Hnc.
    assert (Hpend : match ld_last d with None => ld_hi d = 257 /\ pend = None | Some _ => 258 <= ld_hi d end).
    { pose proof (r_pend _ _ _ _ _ _ R) as Hp. destruct (ld_last d); [destruct Hp; assumption|assumption]. }
    assert (Hcurle : cur <= ld_hi d) by (pose proof (r_cur _ _ _ _ _ _ R); pose proof (r_hi_lo _ _ _ _ _ _ R); lia).
    pose proof (lzw_str_next d pend cur m Hpend Hcurle (r_curstr _ _ _ _ _ _ R)) as Hcurnext.
    destruct R. destruct (pow2_bounds _ r_wlo0 r_whi0) as (P1 & P2 & P3 & P4).
    rewrite r_hi0, r_w0 in *.
    constructor; cbn [le_tbl le_hi le_width le_saved d_next ld_status ld_hi ld_width ld_last ld_tbl]; unfold width_next.
    - reflexivity.
    - reflexivity.
    - reflexivity.
    - lia.
    - destruct (ld_hi d + 1 + ec =? 2 ^ ld_width d) eqn:E.
      + rewrite N.pow_add_r. change (2 ^ 1) with 2. lia.
      + lia.
    - lia.
    - destruct (ld_hi d + 1 + ec =? 2 ^ ld_width d); lia.
    - destruct (ld_hi d + 1 + ec =? 2 ^ ld_width d) eqn:E; [|assumption].
      assert (ld_width d < 12) by (destruct (N.lt_ge_cases (ld_width d) 12); [assumption|specialize (P4 ltac:(assumption)); lia]). lia.
    - reflexivity.
    - discriminate.
    - left; assumption.
    - intros c Hc1 Hc2. destruct (N.eq_dec c (ld_hi d)) as [->|Hne].
      + unfold tbl_next. destruct (ld_last d) as [lastc|].
        * destruct r_pend0 as (H1 & sl & H2 & H3 & H4). rewrite H4. rewrite PM.gss.
          eexists; split; [reflexivity|]. destruct sl; discriminate.
        * destruct r_pend0 as [H1 H2]. lia.
      + destruct (r_dtbl0 c Hc1 ltac:(lia)) as (s0 & Hs0 & Hne0). exists s0. split; [|assumption].
        unfold tbl_next. destruct pend; [|assumption]. rewrite PM.gso; [assumption|].
        intros Heq. apply succ_pos_inj in Heq. lia.
    - split; [lia|]. exists m. split; [assumption|]. split; [assumption|reflexivity].
    - unfold ext_str. cbn [d_next ld_hi ld_tbl]. replace (x =? ld_hi d + 1) with false by lia.
      unfold lzw_str. replace (x <? 256) with true by lia. reflexivity.
    - intros k x0 c Hx0 Hf.
      assert (Hstab : forall c0 s0, c0 <= ld_hi d -> ext_str d pend c0 = Some s0 ->
                ext_str (d_next d pend cur) (Some (m ++ [x])) c0 = Some s0).
      { intros c0 s0 Hc0 Hs0. unfold ext_str. cbn [d_next ld_hi ld_tbl].
        replace (c0 =? ld_hi d + 1) with false by lia. apply lzw_str_next; assumption. }
      destruct (Pos.eq_dec (lzw_key k x0) (lzw_key cur x)) as [Heq|Hne].
      + apply lzw_key_inj in Heq; try assumption. destruct Heq as [-> ->].
        rewrite PM.gss in Hf. inversion Hf; subst c. split; [lia|]. split; [lia|]. split; [lia|].
        exists m. split.
        * apply Hstab; assumption.
        * unfold ext_str. cbn [d_next ld_hi]. rewrite N.eqb_refl. reflexivity.
      + rewrite PM.gso in Hf by assumption.
        destruct (r_etbl0 k x0 c Hx0 Hf) as (Hc1 & Hc2 & Hk0 & sk & Hk & Hc).
        split; [assumption|]. split; [lia|]. split; [lia|]. exists sk. split.
        * apply Hstab; assumption.
        * apply Hstab; assumption.
  Qed.

  Definition d_clear (d : lzw_dst) : lzw_dst :=
    {| ld_acc := ld_acc d; ld_n := ld_n d; ld_width := 9; ld_hi := 257; ld_last := None;
       ld_tbl := PM.empty (list byte); ld_status := LZ_Run |}.

  Lemma dec_clear d : lzw_dec_code ec d 256 = (d_clear d, []).
  Proof. reflexivity. Qed.

  Lemma dec_eod d : lzw_dec_code ec d 257 = (lzw_set_status d LZ_Done, []).
  Proof. reflexivity. Qed.

  Lemma rel_fresh d x : x < 256 ->
    rel ec {| le_tbl := PM.empty N; le_hi := 257; le_width := 9; le_saved := Some x |} (d_clear d) x [x] None.
  Proof.
    intros Hx. constructor; cbn [le_tbl le_hi le_width le_saved d_clear ld_status ld_hi ld_width ld_last ld_tbl];
      try reflexivity; try lia.
    - discriminate.
    - split; reflexivity.
    - unfold ext_str. cbn [d_clear ld_hi ld_tbl]. replace (x =? 257) with false by lia.
      unfold lzw_str. replace (x <? 256) with true by lia. reflexivity.
    - intros k x0 c _ Hf. rewrite PM.gempty in Hf. discriminate.
  Qed.

  Lemma code_ok_data e d cur m pend : rel ec e d cur m pend -> code_ok (ld_width d, cur).
  Proof.
    intros R. destruct R. unfold code_ok; cbn [fst snd]. split; [assumption|]. split; [assumption|]. lia.
  Qed.

  Lemma width_next_bounds e d cur m pend : rel ec e d cur m pend -> 9 <= width_next d /\ width_next d <= 12.
  Proof.
    intros R. destruct R. destruct (pow2_bounds _ r_wlo0 r_whi0) as (P1 & P2 & P3 & P4). unfold width_next.
    destruct (ld_hi d + 1 + ec =? 2 ^ ld_width d) eqn:E; [|lia].
    assert (ld_width d < 12) by (destruct (N.lt_ge_cases (ld_width d) 12); [assumption|specialize (P4 ltac:(assumption)); lia]).
    lia.
  Qed.

  Lemma code_ok_small w c : 9 <= w -> w <= 12 -> c < 512 -> code_ok (w, c).
  Proof.
    intros H1 H2 Hc. destruct (pow2_bounds _ H1 H2) as (P1 & _). unfold code_ok; cbn [fst snd]. lia.
  Qed.

  (* encoder and decoder after the encoder has emitted [cur] and used up a table index *)
  Lemma emit_sync e d cur m pend newkey saved' :
    rel ec e d cur m pend ->
    let '(e1, o) := lzw_inc_hi ec e newkey saved' in
    exists d1, dec_codes ec d ((le_width e, cur) :: o) = (d1, m) /\ ld_status d1 = LZ_Run /\
      ld_width d1 = le_width e1 /\ Forall code_ok ((le_width e, cur) :: o) /\ 9 <= ld_width d1 /\ ld_width d1 <= 12 /\
      le_saved e1 = saved' /\
      ((le_hi e + 1 + ec =? 4095) = true /\ d1 = d_clear (d_next d pend cur) /\
         e1 = {| le_tbl := PM.empty N; le_hi := 257; le_width := 9; le_saved := saved' |}
       \/
       (le_hi e + 1 + ec =? 4095) = false /\ d1 = d_next d pend cur /\
         e1 = {| le_tbl := match newkey with Some k => PM.add k (le_hi e + 1) (le_tbl e) | None => le_tbl e end;
                 le_hi := le_hi e + 1;
                 le_width := (if le_hi e + 1 + ec =? 2 ^ le_width e then le_width e + 1 else le_width e);
                 le_saved := saved' |}).
  Proof.
    intros R. pose proof (dec_data_code e d cur m pend R) as Hd.
    pose proof (code_ok_data _ _ _ _ _ R) as Hok. pose proof (width_next_bounds _ _ _ _ _ R) as [Hw1 Hw2].
    pose proof (r_run _ _ _ _ _ _ R) as Hrun. pose proof (r_hi _ _ _ _ _ _ R) as Hhi. pose proof (r_w _ _ _ _ _ _ R) as Hw.
    clear R. destruct e as [etbl ehi ew esaved]. cbn [le_tbl le_hi le_width le_saved] in *. subst ehi ew.
    unfold lzw_inc_hi. cbn [le_tbl le_hi le_width le_saved].
    destruct lzw_consts as (Hcc & Hce & Hcm & Hcw & _). rewrite Hcm, Hcc, Hce, Hcw.
    unfold width_next in Hw1, Hw2.
    destruct (ld_hi d + 1 + ec =? 4095) eqn:E.
    - exists (d_clear (d_next d pend cur)). cbn [dec_codes]. rewrite Hrun, N.eqb_refl, Hd.
      cbn [d_next ld_status ld_width]. unfold width_next. rewrite N.eqb_refl, dec_clear.
      cbn [app]. rewrite app_nil_r.
      split; [reflexivity|]. split; [reflexivity|]. split; [reflexivity|]. split.
      { constructor; [assumption|]. constructor; [|constructor]. apply code_ok_small; try assumption; lia. }
      split; [cbn; lia|]. split; [cbn; lia|]. split; [reflexivity|].
      left. split; [reflexivity|]. split; reflexivity.
    - exists (d_next d pend cur). cbn [dec_codes]. rewrite Hrun, N.eqb_refl, Hd. cbn [app]. rewrite app_nil_r.
      split; [reflexivity|]. split; [reflexivity|]. split; [reflexivity|]. split.
      { constructor; [assumption|constructor]. }
      split; [assumption|]. split; [assumption|]. split; [reflexivity|].
      right. split; [reflexivity|]. split; reflexivity.
  Qed.

  Lemma codes_rt : forall rest e d cur m pend,
    rel ec e d cur m pend -> Forall (fun b => b < 256) rest ->
    let '(e', out) := run (lzw_enc_step ec) e rest in
    exists d', dec_codes ec d (out ++ lzw_enc_close ec e') = (d', m ++ rest) /\ ld_status d' = LZ_Done /\
               Forall code_ok (out ++ lzw_enc_close ec e').
  Proof.
    induction rest as [|x rest IH]; intros e d cur m pend R Hwf.
    - cbn [run app]. unfold lzw_enc_close. rewrite (r_saved _ _ _ _ _ _ R).
      pose proof (emit_sync e d cur m pend None None R) as Hs.
      destruct (lzw_inc_hi ec e None None) as [e1 o].
      destruct Hs as (d1 & Hd & Hrun & Hw & Hok & Hw1 & Hw2 & _ & _).
      exists (lzw_set_status d1 LZ_Done).
      change ((le_width e, cur) :: o ++ [(le_width e1, lzw_eod_code)])
        with (((le_width e, cur) :: o) ++ [(le_width e1, 257)]).
      rewrite dec_codes_app, Hd. cbn [dec_codes]. rewrite Hrun, Hw, N.eqb_refl, dec_eod.
      rewrite !app_nil_r. split; [reflexivity|]. split; [reflexivity|].
      apply Forall_app. split; [assumption|]. constructor; [|constructor].
      apply code_ok_small; rewrite <- ?Hw; try assumption; lia.
    - pose proof (Forall_inv Hwf) as Hx. pose proof (Forall_inv_tail Hwf) as Hrest. cbn beta in Hx.
      cbn [run]. unfold lzw_enc_step at 1. rewrite (r_saved _ _ _ _ _ _ R).
      destruct (PM.find (lzw_key cur x) (le_tbl e)) as [c|] eqn:Ef.
      + pose proof (rel_hit e d cur m pend x c R Hx Ef) as R'.
        specialize (IH _ d c (m ++ [x]) pend R' Hrest).
        destruct (run (lzw_enc_step ec) _ rest) as [e' out]. cbn [app].
        destruct IH as (d' & Hd & Hdone & Hok). exists d'. rewrite <- app_assoc in Hd. cbn [app] in Hd.
        split; [assumption|]. split; assumption.
      + pose proof (emit_sync e d cur m pend (Some (lzw_key cur x)) (@Some byte x) R) as Hs.
        destruct (lzw_inc_hi ec e (Some (lzw_key cur x)) (@Some byte x)) as [e1 o] eqn:Einc.
        destruct Hs as (d1 & Hd & Hrun & Hw & Hok & Hw1 & Hw2 & Hsv & Hcase).
        assert (R1 : exists pend1, rel ec e1 d1 x [x] pend1).
        { destruct Hcase as [(E & -> & ->)|(E & -> & ->)].
          - exists None. apply rel_fresh, Hx.
          - exists (Some (m ++ [x])). apply rel_miss; assumption. }
        destruct R1 as [pend1 R1]. specialize (IH e1 d1 x [x] pend1 R1 Hrest). revert IH.
        rewrite ?Einc. cbv beta iota.
        destruct (run (lzw_enc_step ec) e1 rest) as [e' out]. intros IH. cbv beta iota in IH.
        destruct IH as (d' & Hd' & Hdone & Hok'). exists d'.
        rewrite <- app_assoc. rewrite dec_codes_app, Hd, Hd'. cbn [app].
        split; [reflexivity|]. split; [assumption|].
        change (Forall code_ok (((le_width e, cur) :: o) ++ (out ++ lzw_enc_close ec e'))).
        apply Forall_app. split; assumption.
  Qed.

  Lemma dec_codes_initial cs :
    dec_codes ec lzw_dinit ((lzw_min_width, lzw_clear_code) :: cs) = dec_codes ec (d_clear lzw_dinit) cs.
  Proof.
    change (lzw_min_width, lzw_clear_code) with (9, 256). cbn [dec_codes].
    change (ld_status lzw_dinit) with LZ_Run. change (9 =? ld_width lzw_dinit) with true. cbv iota.
    rewrite dec_clear. destruct (dec_codes ec (d_clear lzw_dinit) cs). reflexivity.
  Qed.

  Theorem lzw_codes_rt x : Forall (fun b => b < 256) x ->
    exists d', dec_codes ec lzw_dinit (lzw_enc_codes ec x) = (d', x) /\ ld_status d' = LZ_Done /\
               Forall code_ok (lzw_enc_codes ec x).
  Proof.
    intros Hwf. unfold lzw_enc_codes.
    destruct x as [|b rest].
    - cbn [run app]. rewrite dec_codes_initial.
      exists (lzw_set_status (d_clear lzw_dinit) LZ_Done). split; [reflexivity|]. split; [reflexivity|].
      repeat constructor; cbn; lia.
    - pose proof (Forall_inv Hwf) as Hb. pose proof (Forall_inv_tail Hwf) as Hrest. cbn beta in Hb.
      cbn [run]. change (lzw_enc_step ec lzw_einit b) with
        ({| le_tbl := PM.empty N; le_hi := 257; le_width := 9; le_saved := @Some byte b |}, @nil (N * N)).
      cbv beta iota.
      pose proof (codes_rt rest _ (d_clear lzw_dinit) b [b] None (rel_fresh lzw_dinit b Hb) Hrest) as H. revert H.
      destruct (run (lzw_enc_step ec) _ rest) as [e' out]. intros H. cbv beta iota in H.
      destruct H as (d' & Hd & Hdone & Hok).
      exists d'. cbn [app]. rewrite dec_codes_initial. split; [exact Hd|]. split; [assumption|].
      constructor; [|assumption]. unfold code_ok. cbn. lia.
  Qed.
End Code.
