(* Filter parameter structs and their /DecodeParms dictionaries (filter.go:
   toDict / Info, parseFlate / parseLZW / parseCCITTFax, validateFlateLZW, validate).
   A dictionary is an association list over the keys that occur; a missing key, a nil
   dictionary and an empty dictionary are the same thing here (every parse function only
   looks keys up).  Go ints are Z; [maxInt] = 2^63-1. *)
From Coq Require Import List ZArith Bool.
From GoPdf.Gen Require Import Gen_C06.
Import ListNotations.
Open Scope Z_scope.

Inductive pkey :=
| KPredictor | KColors | KBitsPerComponent | KColumns | KEarlyChange
| KK | KEndOfLine | KEncodedByteAlign | KRows | KEndOfBlock | KBlackIs1 | KDamagedRowsBeforeError.

Inductive pval := VInt (z : Z) | VBool (b : bool) | VOther.

Definition pdict := list (pkey * pval).

Definition pkey_eqb (a b : pkey) : bool :=
  match a, b with
  | KPredictor, KPredictor | KColors, KColors | KBitsPerComponent, KBitsPerComponent
  | KColumns, KColumns | KEarlyChange, KEarlyChange | KK, KK | KEndOfLine, KEndOfLine
  | KEncodedByteAlign, KEncodedByteAlign | KRows, KRows | KEndOfBlock, KEndOfBlock
  | KBlackIs1, KBlackIs1 | KDamagedRowsBeforeError, KDamagedRowsBeforeError => true
  | _, _ => false
  end.

Fixpoint plookup (k : pkey) (d : pdict) : option pval :=
  match d with
  | [] => None
  | (k', v) :: r => if pkey_eqb k k' then Some v else plookup k r
  end.

Definition get_int (k : pkey) (d : pdict) : option Z :=
  match plookup k d with Some (VInt z) => Some z | _ => None end.
Definition get_bool (k : pkey) (d : pdict) : option bool :=
  match plookup k d with Some (VBool b) => Some b | _ => None end.

Definition maxInt : Z := 9223372036854775807.
Definition maxDim : Z := 1048576.          (* 1 << 20 *)

(* ---- Flate / LZW ---- *)

Record flate := { f_pred : Z; f_colors : Z; f_bpc : Z; f_columns : Z }.
Record lzwp := { l_flate : flate; l_offbyone : bool }.

Definition uses_predictor (p : Z) : bool := negb (p =? 0) && negb (p =? FlatePredictorNone).

Definition flate_to_dict (f : flate) : pdict :=
  if uses_predictor (f_pred f) then
    [(KPredictor, VInt (f_pred f))]
    ++ (if negb (f_colors f =? 0) && negb (f_colors f =? 1) then [(KColors, VInt (f_colors f))] else [])
    ++ (if negb (f_bpc f =? 0) && negb (f_bpc f =? 8) then [(KBitsPerComponent, VInt (f_bpc f))] else [])
    ++ (if negb (f_columns f =? 0) && negb (f_columns f =? 1) then [(KColumns, VInt (f_columns f))] else [])
  else [].

Definition lzw_to_dict (l : lzwp) : pdict :=
  flate_to_dict (l_flate l) ++ (if l_offbyone l then [] else [(KEarlyChange, VInt 0)]).

Definition bpc_ok (z : Z) : bool := (z =? 1) || (z =? 2) || (z =? 4) || (z =? 8) || (z =? 16).

Definition parse_flate (d : pdict) : flate :=
  let p := match get_int KPredictor d with
           | Some v => if isValid v && negb (v =? 0) then v else FlatePredictorNone
           | None => FlatePredictorNone
           end in
  if negb (p =? FlatePredictorNone) then
    {| f_pred := p;
       f_colors := match get_int KColors d with
                   | Some v => if (1 <=? v) && (v <=? maxInt) then v else 1 | None => 1 end;
       f_bpc := match get_int KBitsPerComponent d with
                | Some v => if bpc_ok v then v else 8 | None => 8 end;
       f_columns := match get_int KColumns d with
                    | Some v => if (1 <=? v) && (v <=? maxDim) then v else 1 | None => 1 end |}
  else {| f_pred := p; f_colors := 0; f_bpc := 0; f_columns := 0 |}.

Definition parse_lzw (d : pdict) : lzwp :=
  {| l_flate := parse_flate d;
     l_offbyone := match get_int KEarlyChange d with Some 0 => false | _ => true end |}.

Definition validate_flate_lzw (v : Z) (f : flate) : bool :=
  isValid (f_pred f) &&
  (if uses_predictor (f_pred f) then
     ((f_colors f =? 0) || ((1 <=? f_colors f) && negb ((v <? V1_3) && (4 <? f_colors f)))) &&
     ((f_bpc f =? 0) || (f_bpc f =? 1) || (f_bpc f =? 2) || (f_bpc f =? 4) || (f_bpc f =? 8)
      || ((f_bpc f =? 16) && (V1_5 <=? v))) &&
     ((f_columns f =? 0) || ((1 <=? f_columns f) && (f_columns f <=? maxDim)))
   else (f_colors f =? 0) && (f_bpc f =? 0) && (f_columns f =? 0)).

Definition validate_flate (v : Z) (f : flate) : bool := (V1_2 <=? v) && validate_flate_lzw v f.

(* the parameters in force: zero-value shorthands resolved *)
Definition effective_flate (f : flate) : flate :=
  if uses_predictor (f_pred f) then
    {| f_pred := f_pred f;
       f_colors := if f_colors f =? 0 then 1 else f_colors f;
       f_bpc := if f_bpc f =? 0 then 8 else f_bpc f;
       f_columns := if f_columns f =? 0 then 1 else f_columns f |}
  else {| f_pred := FlatePredictorNone; f_colors := 0; f_bpc := 0; f_columns := 0 |}.

Definition effective_lzw (l : lzwp) : lzwp :=
  {| l_flate := effective_flate (l_flate l); l_offbyone := l_offbyone l |}.

(* Go ints *)
Definition int_ok (z : Z) : bool := (- maxInt - 1 <=? z) && (z <=? maxInt).
Definition flate_ints (f : flate) : bool :=
  int_ok (f_pred f) && int_ok (f_colors f) && int_ok (f_bpc f) && int_ok (f_columns f).

(* ---- CCITTFax ---- *)

Record ccitt := {
  c_k : Z; c_eol : bool; c_align : bool; c_columns : Z; c_rows : Z;
  c_ignore_eob : bool; c_blackis1 : bool; c_damaged : Z }.

Definition ccitt_to_dict (c : ccitt) : pdict :=
  (if negb (c_k c =? 0) then [(KK, VInt (c_k c))] else [])
  ++ (if c_eol c then [(KEndOfLine, VBool true)] else [])
  ++ (if c_align c then [(KEncodedByteAlign, VBool true)] else [])
  ++ (if negb (c_columns c =? 0) && negb (c_columns c =? 1728) then [(KColumns, VInt (c_columns c))] else [])
  ++ (if 0 <? c_rows c then [(KRows, VInt (c_rows c))] else [])
  ++ (if c_ignore_eob c then [(KEndOfBlock, VBool false)] else [])
  ++ (if c_blackis1 c then [(KBlackIs1, VBool true)] else [])
  ++ (if 0 <? c_damaged c then [(KDamagedRowsBeforeError, VInt (c_damaged c))] else []).

Definition parse_ccitt (d : pdict) : ccitt :=
  {| c_k := match get_int KK d with
            | Some v => if v <? 0 then -1 else if maxInt <? v then maxInt else v
            | None => 0 end;
     c_eol := match get_bool KEndOfLine d with Some b => b | None => false end;
     c_align := match get_bool KEncodedByteAlign d with Some b => b | None => false end;
     c_columns := match get_int KColumns d with
                  | Some v => if (0 <? v) && (v <=? maxDim) then v else 1728 | None => 1728 end;
     c_rows := match get_int KRows d with
               | Some v => if (0 <? v) && (v <=? maxDim) then v else 0 | None => 0 end;
     c_ignore_eob := match get_bool KEndOfBlock d with Some b => negb b | None => false end;
     c_blackis1 := match get_bool KBlackIs1 d with Some b => b | None => false end;
     c_damaged := match get_int KDamagedRowsBeforeError d with
                  | Some v => if (0 <? v) && (v <=? maxDim) then v else 0 | None => 0 end |}.

Definition validate_ccitt (c : ccitt) : bool :=
  (0 <=? c_columns c) && (c_columns c <=? maxDim) &&
  (0 <=? c_rows c) && (c_rows c <=? maxDim) &&
  (0 <=? c_damaged c) && (c_damaged c <=? maxDim).

(* all negative K select Group 4; the parser maps them to -1 *)
Definition effective_ccitt (c : ccitt) : ccitt :=
  {| c_k := if c_k c <? 0 then -1 else c_k c;
     c_eol := c_eol c; c_align := c_align c;
     c_columns := if c_columns c =? 0 then 1728 else c_columns c;
     c_rows := c_rows c; c_ignore_eob := c_ignore_eob c; c_blackis1 := c_blackis1 c;
     c_damaged := c_damaged c |}.
