(* CCITTFax two-dimensional coding: one row given its reference row - the decoder paints exactly the
   coding row's pixels.  Builds on g4_row_sync (CCITT2DProofs.v). *)
From Coq Require Import List NArith ZArith Bool Lia ZifyN ZifyNat ZifyBool Arith.
From GoPdf.Base Require Import Bytes Res.
From GoPdf.C06 Require Import Machine CCITT CCITTTables CCITTProofs CCITT2D CCITT2DProofs.
Import ListNotations.
Open Scope Z_scope.

Definition pxat (px : list bool) (i : Z) : bool := nth (Z.to_nat i) px false.

(* y is a changing element iff its pixel differs from the one before *)
Lemma changes_from_in : forall px x prev y, x <= y < x + Z.of_nat (length px) ->
  (In y (changes_from x prev px) <-> pxat px (y - x) <> (if y =? x then prev else pxat px (y - x - 1))).
Proof.
  induction px as [|c px IH]; intros x prev y Hy; cbn [length] in Hy; [lia|].
  cbn [changes_from]. unfold pxat in *.
  destruct (y =? x) eqn:Eyx.
  - assert (y = x) by lia. subst y. rewrite Z.sub_diag. cbn [Z.to_nat nth].
    destruct (Bool.eqb c prev) eqn:E.
    + apply eqb_prop in E. subst c. split; [|intros H; congruence].
      intros Hin. exfalso. destruct (changes_from_incr px (x + 1) prev) as [I1 _].
      clear - Hin I1. revert Hin I1. generalize (changes_from (x + 1) prev px). intros l.
      destruct l as [|z l]; [intros []|]. cbn [In incr]. intros [->|Hin] [H1 H2]; [lia|].
      clear - Hin H1 H2. revert z H1 H2 Hin. induction l as [|w l IHl]; intros z H1 H2 []; cbn [incr] in H2.
      * subst. lia.
      * apply (IHl w); [lia|tauto|assumption].
    + split; [intros _ Hc; subst; rewrite eqb_reflx in E; discriminate|intros _; left; reflexivity].
  - assert (Hy' : x + 1 <= y < x + 1 + Z.of_nat (length px)) by lia.
    specialize (IH (x + 1)).
    replace (Z.to_nat (y - x)) with (S (Z.to_nat (y - (x + 1)))) by lia. cbn [nth].
    assert (Hrel : forall pv, (if y =? x + 1 then pv else nth (Z.to_nat (y - (x + 1) - 1)) px false) =
                    (if y =? x + 1 then pv else nth (Z.to_nat (y - x - 1)) (c :: px) false)).
    { intros pv. destruct (y =? x + 1) eqn:E1; [reflexivity|].
      replace (Z.to_nat (y - x - 1)) with (S (Z.to_nat (y - (x + 1) - 1))) by lia. reflexivity. }
    destruct (Bool.eqb c prev) eqn:E.
    + apply eqb_prop in E. subst c. rewrite (IH prev y Hy'). rewrite Hrel.
      destruct (y =? x + 1) eqn:E1; [|reflexivity].
      replace (Z.to_nat (y - x - 1)) with 0%nat by lia. reflexivity.
    + cbn [In]. rewrite (IH c y Hy'). rewrite Hrel.
      destruct (y =? x + 1) eqn:E1.
      * replace (Z.to_nat (y - x - 1)) with 0%nat by lia. cbn [nth]. split; [intros [H|H]; [lia|exact H]|intros H; right; exact H].
      * split; [intros [H|H]; [lia|exact H]|intros H; right; exact H].
Qed.

Lemma incr_head_min x l y : incr x l -> In y l -> x < y.
Proof.
  revert x. induction l as [|z l IH]; intros x Hi []; cbn [incr] in Hi; [subst; lia|].
  assert (z < y) by (apply IH; tauto). lia.
Qed.

(* colour (bit value) of pixel x of a row; white before the row *)
Definition colz (w : bool) (px : list bool) (x : Z) : bool := if x <? 0 then w else pxat px x.

Section Row.
  Variables (w : bool) (px : list bool).
  Let cols := Z.of_nat (length px).
  Let linec := changes_from 0 w px.

  Lemma linec_in y : 0 <= y < cols -> (In y linec <-> colz w px y <> colz w px (y - 1)).
  Proof.
    intros Hy. unfold linec. rewrite (changes_from_in px 0 w y) by (fold cols; lia).
    unfold colz. replace (y <? 0) with false by lia. rewrite Z.sub_0_r.
    destruct (y =? 0) eqn:E.
    - replace (y - 1 <? 0) with true by lia. reflexivity.
    - replace (y - 1 <? 0) with false by lia. replace (y - 0 - 1) with (y - 1) by lia. reflexivity.
  Qed.

  Lemma linec_range y : In y linec -> 0 <= y < cols.
  Proof.
    intros H. destruct (changes_from_incr px 0 w) as [I1 I2]. fold linec in I1, I2.
    rewrite Forall_forall in I2. specialize (I2 y H). fold cols in I2.
    pose proof (incr_head_min (0 - 1) linec y I1 H). lia.
  Qed.

  (* no changing element in (u, v]: same colour *)
  Lemma colour_const : forall n u v, Z.of_nat n = v - u -> -1 <= u -> v < cols ->
    (forall y, u < y <= v -> ~ In y linec) -> colz w px v = colz w px u.
  Proof.
    induction n as [|n IH]; intros u v Hn Hu Hv Hno.
    - replace v with u by lia. reflexivity.
    - assert (Hlast : ~ In v linec) by (apply Hno; lia).
      rewrite linec_in in Hlast by lia.
      assert (Hv1 : colz w px v = colz w px (v - 1)) by (destruct (colz w px v), (colz w px (v - 1)); try reflexivity; exfalso; apply Hlast; discriminate).
      rewrite Hv1. apply (IH u (v - 1)); try lia. intros y Hy. apply Hno. lia.
  Qed.

  Lemma colour_flip y : In y linec -> colz w px y = negb (colz w px (y - 1)).
  Proof.
    intros H. pose proof (linec_range y H) as Hr. rewrite linec_in in H by assumption.
    destruct (colz w px y), (colz w px (y - 1)); try reflexivity; exfalso; apply H; reflexivity.
  Qed.

  (* what next_two returns *)
  Lemma drop_le_in a0 : forall l lo, incr lo l ->
    (forall y, In y (drop_le a0 l) <-> In y l /\ a0 < y).
  Proof.
    induction l as [|x l IH]; intros lo Hi y; cbn [drop_le]; [cbn; tauto|].
    destruct Hi as [H1 H2]. destruct (x <=? a0) eqn:E.
    - rewrite (IH x H2). cbn [In]. split; [intros [A B]; tauto|intros [[->|A] B]; [lia|tauto]].
    - cbn [In]. split.
      + intros [->|A]; [split; [left; reflexivity|lia]|]. split; [right; assumption|].
        assert (x < y). { clear - H2 A. revert x H2 A. induction l as [|z l IHl]; intros x H2 []; cbn [incr] in H2; [subst; lia|]. assert (z < y) by (apply IHl; tauto). lia. }
        lia.
      + intros [A _]. exact A.
  Qed.

  Lemma next_two_changes a0 : a0 < cols ->
    let '(a1, a2) := next_two linec cols a0 in
    (forall y, a0 < y < a1 -> ~ In y linec) /\ (a1 < cols -> In a1 linec) /\
    (forall y, a1 < y < a2 -> ~ In y linec) /\ (a2 < cols -> In a2 linec).
  Proof.
    intros Ha. unfold next_two. destruct (changes_from_incr px 0 w) as [I1 I2]. fold linec in I1, I2.
    pose proof (drop_le_in a0 linec (0 - 1) I1) as Hin.
    destruct (drop_le_incr a0 cols linec (0 - 1) I1 I2) as [D1 D2].
    destruct (drop_le a0 linec) as [|a1 [|a2 l]]; cbn [incr] in D1.
    - repeat split; try lia. intros y Hy Hc. apply (proj2 (Hin y)). split; [assumption|lia].
    - split; [|split; [|split; [|lia]]].
      + intros y Hy Hc. assert (In y [a1]) by (apply Hin; split; [assumption|lia]). cbn in H. lia.
      + intros _. apply Hin. left; reflexivity.
      + intros y Hy Hc. assert (In y [a1]) by (apply Hin; split; [assumption|lia]). cbn in H. lia.
    - destruct D1 as (E1 & E2 & E3). split; [|split; [|split]].
      + intros y Hy Hc. assert (Hy2 : In y (a1 :: a2 :: l)) by (apply Hin; split; [assumption|lia]).
        destruct Hy2 as [->|Hy2]; [lia|]. assert (a1 < y) by (apply (incr_head_min a1 (a2 :: l)); [cbn [incr]; tauto|assumption]). lia.
      + intros _. apply Hin. left; reflexivity.
      + intros y Hy Hc. assert (Hy2 : In y (a1 :: a2 :: l)) by (apply Hin; split; [assumption|lia]).
        destruct Hy2 as [->|[->|Hy2]]; try lia. assert (a2 < y) by (apply (incr_head_min a2 l); assumption). lia.
      + intros _. apply Hin. right; left; reflexivity.
  Qed.
End Row.

(* ---- painting ---- *)

Lemma nth_set_range s t : forall l k i, (i < length l)%nat ->
  nth i (set_range k s t l) false = (nth i l false || ((s <=? k + Z.of_nat i) && (k + Z.of_nat i <? t))).
Proof.
  induction l as [|b l IH]; intros k i Hi; cbn [length] in Hi; [lia|].
  cbn [set_range]. destruct i as [|i].
  - cbn [nth]. rewrite Z.add_0_r. reflexivity.
  - cbn [nth]. rewrite IH by lia. replace (k + 1 + Z.of_nat i) with (k + Z.of_nat (S i)) by lia. reflexivity.
Qed.

Lemma set_range_length s t : forall l k, length (set_range k s t l) = length l.
Proof. induction l as [|b l IH]; intros k; cbn [set_range length]; [reflexivity|]. rewrite IH. reflexivity. Qed.

Definition bytes_for (x : Z) : nat := (8 * Z.to_nat ((Z.max x 0 + 7) / 8))%nat.

(* the line painted so far: the row's pixels before a0, zeros after, whole bytes *)
Definition pinv (px : list bool) (line : list bool) (a0 : Z) : Prop :=
  length line = bytes_for a0 /\
  forall i, (i < length line)%nat -> nth i line false = (if Z.of_nat i <? a0 then pxat px (Z.of_nat i) else false).

Lemma bytes_for_mono a b : a <= b -> (bytes_for a <= bytes_for b)%nat.
Proof.
  intros H. unfold bytes_for. assert ((Z.max a 0 + 7) / 8 <= (Z.max b 0 + 7) / 8) by (apply Z.div_le_mono; [reflexivity|apply Z.add_le_mono_r, Z.max_le_compat_r, H]). lia.
Qed.

Lemma bytes_for_ge a : 0 <= a -> (Z.to_nat a <= bytes_for a)%nat.
Proof.
  intros H. unfold bytes_for. rewrite Z.max_l by lia.
  pose proof (Z.div_mod (a + 7) 8 ltac:(lia)). pose proof (Z.mod_pos_bound (a + 7) 8 ltac:(lia)). lia.
Qed.

Lemma fill_pinv px line a0 s t v :
  pinv px line a0 -> (s = a0 \/ s = Z.max a0 0) -> s <= t -> -1 <= a0 ->
  (forall i, Z.max a0 0 <= i < t -> pxat px i = v) ->
  pinv px (fill_row line s t v) t.
Proof.
  intros [Hlen Hnth] Hs Hst Ha Hpx. unfold fill_row.
  destruct (t <=? s) eqn:E.
  - (* nothing painted: t = s *)
    assert (t = s) by lia. subst t. split.
    + rewrite Hlen. unfold bytes_for. destruct Hs as [->| ->]; [reflexivity|]. rewrite (Z.max_l (Z.max a0 0) 0) by lia. reflexivity.
    + intros i Hi. rewrite (Hnth i Hi). destruct Hs as [->| ->]; [reflexivity|].
      destruct (Z.of_nat i <? a0) eqn:E1; destruct (Z.of_nat i <? Z.max a0 0) eqn:E2; try reflexivity; lia.
  - assert (Hbt : (8 * Z.to_nat ((t + 7) / 8))%nat = bytes_for t).
    { unfold bytes_for. rewrite Z.max_l by lia. reflexivity. }
    rewrite Hbt.
    assert (Hmono : (length line <= bytes_for t)%nat) by (rewrite Hlen; apply bytes_for_mono; lia).
    set (line' := line ++ repeat false (bytes_for t - length line)).
    assert (Hl' : length line' = bytes_for t) by (unfold line'; rewrite app_length, repeat_length; lia).
    assert (Hn' : forall i, (i < length line')%nat -> nth i line' false = (if Z.of_nat i <? a0 then pxat px (Z.of_nat i) else false)).
    { intros i Hi. unfold line'. destruct (Nat.lt_ge_cases i (length line)) as [Hlt|Hge].
      - rewrite app_nth1 by assumption. apply Hnth. assumption.
      - rewrite app_nth2 by assumption. rewrite nth_repeat.
        replace (Z.of_nat i <? a0) with false; [reflexivity|]. symmetry. apply Z.ltb_ge.
        rewrite Hlen in Hge. destruct (Z.le_gt_cases a0 0); [lia|]. pose proof (bytes_for_ge a0 ltac:(lia)). lia. }
    assert (Hgoal : forall i, (i < bytes_for t)%nat ->
              (nth i line' false || (v && ((s <=? Z.of_nat i) && (Z.of_nat i <? t)))) =
              (if Z.of_nat i <? t then pxat px (Z.of_nat i) else false)).
    { intros i Hi. rewrite Hn' by lia.
      destruct (Z.of_nat i <? a0) eqn:E1.
      - replace (s <=? Z.of_nat i) with false by (destruct Hs as [->| ->]; lia). rewrite andb_false_r, orb_false_r.
        replace (Z.of_nat i <? t) with true by (destruct Hs as [->| ->]; lia). reflexivity.
      - cbn [orb]. destruct (Z.of_nat i <? t) eqn:E2.
        + replace (s <=? Z.of_nat i) with true by (destruct Hs as [->| ->]; lia). cbn [andb]. rewrite andb_true_r.
          symmetry. apply Hpx. lia.
        + rewrite !andb_false_r. reflexivity. }
    destruct v.
    + split; [rewrite set_range_length; assumption|]. intros i Hi. rewrite set_range_length in Hi.
      rewrite nth_set_range by assumption. cbn [Z.add]. rewrite <- (Hgoal i ltac:(lia)). reflexivity.
    + split; [assumption|]. intros i Hi. rewrite <- (Hgoal i ltac:(lia)). cbn [andb]. rewrite orb_false_r. reflexivity.
Qed.

Lemma next_two_strict w px a0 : a0 < Z.of_nat (length px) ->
  let '(a1, a2) := next_two (changes_from 0 w px) (Z.of_nat (length px)) a0 in
  a1 < Z.of_nat (length px) -> a1 < a2.
Proof.
  intros Ha. unfold next_two. destruct (changes_from_incr px 0 w) as [I1 I2].
  destruct (drop_le_incr a0 (Z.of_nat (length px)) _ (0 - 1) I1 I2) as [D1 D2].
  destruct (drop_le a0 (changes_from 0 w px)) as [|a1 [|a2 l]]; cbn [incr] in D1; lia.
Qed.

Ltac slia := repeat match goal with H : forall _, _ |- _ => clear H end; lia.

(* ---- the decoder paints the row ---- *)

Theorem g4_row_paint p refc px lo (cols := Z.of_N (g_cols p)) (w := white_bit p) (linec := changing p px) :
  length px = N.to_nat (g_cols p) ->
  incr lo refc -> Forall (fun x => x < cols) refc ->
  forall fuelE a0 cur pa pc line r rb tail,
  -1 <= a0 -> (a0 <> pa \/ cur <> pc) -> good r rb ->
  real r rb = enc2d fuelE p refc linec cols a0 cur ++ tail ->
  pinv px line a0 -> (a0 < cols -> colz w px a0 = cur) ->
  exists r' rb' line' pa' pc', good r' rb' /\ real r' rb' = tail /\
    (fst (enc2d_end fuelE p refc linec cols a0 cur) <> pa' \/ snd (enc2d_end fuelE p refc linec cols a0 cur) <> pc') /\
    (forall f, dec2d (fuelE + f) p refc cols a0 cur pa pc line r =
      dec2d f p refc cols (fst (enc2d_end fuelE p refc linec cols a0 cur)) (snd (enc2d_end fuelE p refc linec cols a0 cur))
            pa' pc' line' r') /\
    pinv px line' (fst (enc2d_end fuelE p refc linec cols a0 cur)) /\
    (fst (enc2d_end fuelE p refc linec cols a0 cur) < cols ->
       colz w px (fst (enc2d_end fuelE p refc linec cols a0 cur)) = snd (enc2d_end fuelE p refc linec cols a0 cur)).
Proof.
  intros Hlen Hri Hrf.
  assert (Hcols : cols = Z.of_nat (length px)) by (unfold cols; slia).
  destruct (changes_from_incr px 0 w) as [Hli0 Hlf0]. change (changes_from 0 w px) with linec in Hli0, Hlf0.
  assert (Hlf : Forall (fun x => x < cols) linec) by (rewrite Hcols; rewrite Z.add_0_l in Hlf0; exact Hlf0).
  induction fuelE as [|fuelE IH]; intros a0 cur pa pc line r rb tail Ha Hg G Hs Hp Hcol.
  - cbn [enc2d enc2d_end app fst snd] in *. exists r, rb, line, pa, pc.
    split; [assumption|]. split; [assumption|]. split; [assumption|]. split; [intros f; reflexivity|]. split; assumption.
  - cbn [enc2d enc2d_end] in *. destruct (a0 <? cols) eqn:Ea.
    2:{ cbn [app fst snd] in *. exists r, rb, line, pa, pc. split; [assumption|]. split; [assumption|]. split; [assumption|].
        split; [|split; assumption].
        intros f. assert (Hd : forall k, dec2d k p refc cols a0 cur pa pc line r = (line, r)).
        { intros [|k]; cbn [dec2d]; [reflexivity|]. fold cols. rewrite Ea. reflexivity. }
        rewrite !Hd. reflexivity. }
    apply Z.ltb_lt in Ea. specialize (Hcol Ea).
    pose proof (next_two_spec linec cols a0 (0 - 1) Hli0 Hlf Ea) as Hn.
    pose proof (next_two_changes w px a0 ltac:(slia)) as Hch.
    pose proof (next_two_strict w px a0 ltac:(slia)) as Hstr.
    change (changes_from 0 w px) with linec in Hch, Hstr. rewrite <- Hcols in Hch, Hstr.
    pose proof (find_b1b2_spec p refc cols a0 cur lo Hri Hrf Ea) as Hb.
    destruct (next_two linec cols a0) as [a1 a2]. destruct (find_b1b2 p refc cols a0 cur) as [b1 b2] eqn:Eb.
    destruct Hn as (N1 & N2 & N3). destruct Hb as (B1 & B2 & B3). destruct Hch as (C1 & C2 & C3 & C4).
    destruct st2_values as (V1 & V2 & V3 & V4 & V5).
    (* colours between a0 and a2 *)
    assert (K1 : forall i, Z.max a0 0 <= i < a1 -> pxat px i = cur).
    { intros i Hi. rewrite <- Hcol. transitivity (colz w px i); [unfold colz; replace (i <? 0) with false by slia; reflexivity|].
      apply (colour_const w px (Z.to_nat (i - a0)) a0 i); try slia. intros y Hy. apply C1. slia. }
    assert (K2 : a1 < cols -> colz w px a1 = negb cur).
    { intros H1. rewrite (colour_flip w px a1 (C2 H1)). f_equal. rewrite <- Hcol.
      apply (colour_const w px (Z.to_nat (a1 - 1 - a0)) a0 (a1 - 1)); try slia. intros y Hy. apply C1. slia. }
    assert (K3 : forall i, a1 <= i < a2 -> pxat px i = negb cur).
    { intros i Hi. rewrite <- K2 by slia. transitivity (colz w px i); [unfold colz; replace (i <? 0) with false by slia; reflexivity|].
      apply (colour_const w px (Z.to_nat (i - a1)) a1 i); try slia. intros y Hy. apply C3. slia. }
    assert (K4 : a2 < cols -> colz w px a2 = cur).
    { intros H2. specialize (Hstr ltac:(slia)). rewrite (colour_flip w px a2 (C4 H2)).
      replace (colz w px (a2 - 1)) with (negb cur); [destruct cur; reflexivity|]. rewrite <- K2 by slia. symmetry.
      apply (colour_const w px (Z.to_nat (a2 - 1 - a1)) a1 (a2 - 1)); try slia. intros y Hy. apply C3. slia. }
    destruct (b2 <? a1) eqn:Ep.
    + (* pass mode *)
      rewrite <- app_assoc in Hs.
      destruct (dec2d_mode p refc cols a0 cur pa pc line r rb ([false; false; false; true], (st_pass, 0%N)) _
                  ltac:(cbn; auto) ltac:(cbn [fst snd]; slia) Ea Hg G Hs) as (r2 & rb2 & G2 & R2 & F2).
      assert (Hp2 : pinv px (fill_row line a0 b2 cur) b2).
      { apply (fill_pinv px line a0 a0 b2 cur Hp); [left; reflexivity|slia|assumption|]. intros i Hi. apply K1. slia. }
      assert (Hc2 : b2 < cols -> colz w px b2 = cur).
      { intros _. rewrite <- Hcol. apply (colour_const w px (Z.to_nat (b2 - a0)) a0 b2); try slia. intros y Hy. apply C1. slia. }
      destruct (IH b2 cur a0 cur (fill_row line a0 b2 cur) r2 rb2 tail ltac:(slia) ltac:(left; slia) G2 R2 Hp2 Hc2)
        as (r' & rb' & line' & pa' & pc' & G' & R' & Hg' & F' & P' & C').
      exists r', rb', line', pa', pc'. split; [assumption|]. split; [assumption|]. split; [assumption|]. split; [|split; assumption].
      intros f. cbn [Nat.add]. rewrite F2. cbn [fst snd]. rewrite Eb. replace (st_pass =? st_pass)%N with true by (clear - V1 V2 V3 V4 V5; slia). apply F'.
    + destruct ((-3 <=? a1 - b1) && (a1 - b1 <=? 3)) eqn:Ev.
      * (* vertical mode *)
        destruct (vert_word (a1 - b1) ltac:(slia)) as (c & Hc & Hbits & Hst & Hd).
        rewrite <- Hbits in Hs. rewrite <- app_assoc in Hs.
        destruct (dec2d_mode p refc cols a0 cur pa pc line r rb c _ Hc ltac:(rewrite Hst; slia) Ea Hg G Hs) as (r2 & rb2 & G2 & R2 & F2).
        assert (Hp2 : pinv px (fill_row line a0 a1 cur) a1).
        { apply (fill_pinv px line a0 a0 a1 cur Hp); [left; reflexivity|slia|assumption|]. exact K1. }
        destruct (IH a1 (negb cur) a0 cur (fill_row line a0 a1 cur) r2 rb2 tail ltac:(slia)
                    ltac:(right; destruct cur; discriminate) G2 R2 Hp2 K2) as (r' & rb' & line' & pa' & pc' & G' & R' & Hg' & F' & P' & C').
        exists r', rb', line', pa', pc'. split; [assumption|]. split; [assumption|]. split; [assumption|]. split; [|split; assumption].
        intros f. cbn [Nat.add]. rewrite F2. cbv zeta. rewrite Eb, Hst, Hd.
        replace (st_vert =? st_pass)%N with false by (clear - V1 V2 V3 V4 V5; slia). replace (st_vert =? st_horiz)%N with false by (clear - V1 V2 V3 V4 V5; slia).
        replace (st_vert =? st_vert)%N with true by (clear - V1 V2 V3 V4 V5; slia).
        replace (Z.min (b1 + (a1 - b1)) cols) with a1 by slia. apply F'.
      * (* horizontal mode *)
        rewrite <- !app_assoc in Hs.
        destruct (dec2d_mode p refc cols a0 cur pa pc line r rb ([false; false; true], (st_horiz, 0%N)) _
                    ltac:(cbn; auto) ltac:(cbn [fst snd]; slia) Ea Hg G Hs) as (r2 & rb2 & G2 & R2 & F2).
        destruct (decode_full_run_rt (Bool.eqb cur (white_bit p)) (g_cols p) (Z.to_N (a1 - Z.max a0 0)) _ r2 rb2 G2 R2
                    ltac:(unfold cols in *; slia)) as (r3 & rb3 & D3 & G3 & R3).
        destruct (decode_full_run_rt (negb (Bool.eqb cur (white_bit p))) (g_cols p) (Z.to_N (a2 - a1)) _ r3 rb3 G3 R3
                    ltac:(unfold cols in *; slia)) as (r4 & rb4 & D4 & G4 & R4).
        assert (Hp1 : pinv px (fill_row line (Z.max a0 0) a1 cur) a1).
        { apply (fill_pinv px line a0 (Z.max a0 0) a1 cur Hp); [right; reflexivity|slia|assumption|]. exact K1. }
        assert (Hp2 : pinv px (fill_row (fill_row line (Z.max a0 0) a1 cur) a1 a2 (negb cur)) a2).
        { apply (fill_pinv px _ a1 a1 a2 (negb cur) Hp1); [left; reflexivity|slia|slia|]. intros i Hi. apply K3. slia. }
        destruct (IH a2 cur a0 cur
                    (fill_row (fill_row line (Z.max a0 0) a1 cur) a1 a2 (negb cur)) r4 rb4 tail ltac:(slia) ltac:(left; slia) G4 R4 Hp2 K4)
          as (r' & rb' & line' & pa' & pc' & G' & R' & Hg' & F' & P' & C').
        exists r', rb', line', pa', pc'. split; [assumption|]. split; [assumption|]. split; [assumption|]. split; [|split; assumption].
        intros f. cbn [Nat.add]. rewrite F2. cbv zeta. cbn [fst snd]. rewrite Eb.
        replace (st_horiz =? st_pass)%N with false by (clear - V1 V2 V3 V4 V5; slia). replace (st_horiz =? st_horiz)%N with true by (clear - V1 V2 V3 V4 V5; slia).
        rewrite D3, D4.
        replace (Z.min (Z.of_N (Z.to_N (a1 - Z.max a0 0))) (cols - Z.max a0 0)) with (a1 - Z.max a0 0) by slia.
        replace (Z.max a0 0 + (a1 - Z.max a0 0)) with a1 by slia.
        replace (Z.min (Z.of_N (Z.to_N (a2 - a1))) (cols - a1)) with (a2 - a1) by slia.
        replace (a1 + (a2 - a1)) with a2 by slia. apply F'.
Qed.

(* ---- the encoder's steps: each writes at least one bit, and S (S cols) of them reach the end of the row ---- *)

Lemma vert_bits_nonempty delta : -3 <= delta <= 3 -> (1 <= length (vert_bits delta))%nat.
Proof.
  intros H. assert (delta = -3 \/ delta = -2 \/ delta = -1 \/ delta = 0 \/ delta = 1 \/ delta = 2 \/ delta = 3) as Hd by lia.
  destruct Hd as [-> | [-> | [-> | [-> | [-> | [-> | ->]]]]]]; cbn; lia.
Qed.

Lemma enc2d_steps p refc linec cols : forall fuel a0 cur,
  exists n, (n <= length (enc2d fuel p refc linec cols a0 cur))%nat /\
    enc2d n p refc linec cols a0 cur = enc2d fuel p refc linec cols a0 cur /\
    enc2d_end n p refc linec cols a0 cur = enc2d_end fuel p refc linec cols a0 cur.
Proof.
  induction fuel as [|fuel IH]; intros a0 cur.
  - exists 0%nat. repeat split; cbn; lia.
  - cbn [enc2d enc2d_end]. destruct (a0 <? cols) eqn:Ea.
    2:{ exists 0%nat. cbn [enc2d enc2d_end length]. repeat split. lia. }
    destruct (next_two linec cols a0) as [a1 a2] eqn:En. destruct (find_b1b2 p refc cols a0 cur) as [b1 b2] eqn:Eb.
    cbv zeta. destruct (b2 <? a1) eqn:Ep; [|destruct ((-3 <=? a1 - b1) && (a1 - b1 <=? 3)) eqn:Ev].
    + destruct (IH b2 cur) as (n & L & E1 & E2). exists (S n). cbn [enc2d enc2d_end]. rewrite Ea, En, Eb, Ep, E1, E2.
      repeat split. rewrite app_length. cbn [length]. lia.
    + destruct (IH a1 (negb cur)) as (n & L & E1 & E2). exists (S n). cbn [enc2d enc2d_end]. rewrite Ea, En, Eb, Ep. cbv zeta.
      rewrite Ev, E1, E2. repeat split. rewrite app_length. pose proof (vert_bits_nonempty (a1 - b1) ltac:(lia)). lia.
    + destruct (IH a2 cur) as (n & L & E1 & E2). exists (S n). cbn [enc2d enc2d_end]. rewrite Ea, En, Eb, Ep. cbv zeta.
      rewrite Ev, E1, E2. repeat split. rewrite !app_length. cbn [length]. lia.
Qed.

Lemma enc2d_reach p refc linec lo lo' cols :
  incr lo refc -> Forall (fun x => x < cols) refc -> incr lo' linec -> Forall (fun x => x < cols) linec ->
  forall fuel a0 cur, a0 <= cols -> cols - a0 <= Z.of_nat fuel -> fst (enc2d_end fuel p refc linec cols a0 cur) = cols.
Proof.
  intros Hri Hrf Hli Hlf. induction fuel as [|fuel IH]; intros a0 cur H1 H2.
  - cbn. lia.
  - cbn [enc2d_end]. destruct (a0 <? cols) eqn:Ea; [|cbn; lia]. apply Z.ltb_lt in Ea.
    pose proof (next_two_spec linec cols a0 lo' Hli Hlf Ea) as Hn.
    pose proof (find_b1b2_spec p refc cols a0 cur lo Hri Hrf Ea) as Hb.
    destruct (next_two linec cols a0) as [a1 a2]. destruct (find_b1b2 p refc cols a0 cur) as [b1 b2].
    cbv zeta. destruct (b2 <? a1); [|destruct ((-3 <=? a1 - b1) && (a1 - b1 <=? 3))]; apply IH; lia.
Qed.

Lemma changing_bound p row : let refc := changing p (row_px p row) in
  incr (0 - 1) refc /\ Forall (fun x => x < Z.of_N (g_cols p)) refc.
Proof.
  cbv zeta. unfold changing. destruct (changes_from_incr (row_px p row) 0 (white_bit p)) as [I1 I2]. split; [assumption|].
  eapply Forall_impl; [|exact I2]. cbn beta. intros y Hy.
  assert (length (row_px p row) <= N.to_nat (g_cols p))%nat by (unfold row_px; rewrite firstn_length; lia). lia.
Qed.

Lemma row_px_length p row : row_ok p row -> length (row_px p row) = N.to_nat (g_cols p).
Proof.
  intros (Hl & _ & _). unfold row_px. rewrite firstn_length, flat_bits_length, Hl. unfold line_bytes.
  pose proof (N.div_mod (g_cols p + 7) 8 ltac:(lia)). pose proof (N.mod_lt (g_cols p + 7) 8 ltac:(lia)). lia.
Qed.

Lemma pinv_full p row line : row_ok p row -> pinv (row_px p row) line (Z.of_N (g_cols p)) -> line = flat_map bits8 row.
Proof.
  intros Hok [Pl Pn]. pose proof (row_px_length p row Hok) as Hpx. destruct Hok as (Hl & _ & Hpad).
  assert (Hb : bytes_for (Z.of_N (g_cols p)) = (8 * line_bytes p)%nat).
  { unfold bytes_for, line_bytes. rewrite Z.max_l by lia. f_equal.
    rewrite <- (N2Z.id ((g_cols p + 7) / 8)), N2Z.inj_div, N2Z.inj_add. rewrite Z_N_nat. reflexivity. }
  apply (nth_ext _ _ false false); [rewrite Pl, Hb, flat_bits_length, Hl; reflexivity|].
  intros i Hi. rewrite (Pn i Hi). set (all := flat_map bits8 row) in *.
  assert (Hall : all = row_px p row ++ repeat false (8 * line_bytes p - N.to_nat (g_cols p))).
  { rewrite <- Hpad. unfold row_px. fold all. symmetry. apply firstn_skipn. }
  destruct (Z.of_nat i <? Z.of_N (g_cols p)) eqn:E.
  - apply Z.ltb_lt in E. unfold pxat. rewrite Nat2Z.id. rewrite Hall, app_nth1 by lia. reflexivity.
  - apply Z.ltb_ge in E. rewrite Hall, app_nth2 by lia. symmetry. apply nth_repeat.
Qed.

(* one row: the decoder loop on the row's code yields the row and stops right behind the code *)
Theorem g4_row_dec p ref row r rb tail (cols := Z.of_N (g_cols p)) :
  (0 < g_cols p)%N -> row_ok p row -> good r rb -> real r rb = row2d_bits p ref row ++ tail ->
  exists r' rb', good r' rb' /\ real r' rb' = tail /\
    dec2d (S (S (bits_left r))) p (changing p (row_px p ref)) cols (-1) (white_bit p) (-2) (negb (white_bit p)) [] r
    = (flat_map bits8 row, r').
Proof.
  intros Hc Hok G R. pose proof (row_px_length p row Hok) as Hpx.
  destruct (changing_bound p ref) as [Ri Rf]. destruct (changing_bound p row) as [Li Lf].
  set (refc := changing p (row_px p ref)) in *. set (linec := changing p (row_px p row)) in *.
  unfold row2d_bits in R. fold refc linec cols in R.
  destruct (enc2d_steps p refc linec cols (S (S (N.to_nat (g_cols p)))) (-1) (white_bit p)) as (n & Ln & E1 & E2).
  rewrite <- E1 in R.
  assert (Hend : fst (enc2d_end n p refc linec cols (-1) (white_bit p)) = cols).
  { rewrite E2. apply (enc2d_reach p refc linec (0 - 1) (0 - 1) cols Ri Rf Li Lf); unfold cols; lia. }
  destruct (g4_row_paint p refc (row_px p row) (0 - 1) Hpx Ri Rf n (-1) (white_bit p) (-2) (negb (white_bit p)) [] r rb tail
              ltac:(lia) ltac:(left; lia) G R) as (r' & rb' & line' & pa' & pc' & G' & R' & _ & F' & P' & _).
  { split; [reflexivity|]. intros i Hi. cbn in Hi. lia. }
  { intros _. reflexivity. }
  fold linec cols in F', P'. rewrite Hend in F', P'.
  exists r', rb'. split; [assumption|]. split; [assumption|].
  pose proof (real_le_bits_left r rb G) as Hbl. rewrite R, app_length in Hbl. rewrite E1 in Hbl.
  replace (S (S (bits_left r))) with (n + (S (S (bits_left r)) - n))%nat by lia. rewrite F'.
  rewrite (pinv_full p row line' Hok P').
  destruct (S (S (bits_left r)) - n)%nat; cbn [dec2d]; [reflexivity|]. fold cols. rewrite Z.ltb_irrefl. reflexivity.
Qed.
