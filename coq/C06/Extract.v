Require Extraction.
Require Import ExtrOcamlBasic.
From GoPdf.Base Require Import WireAnchor.
From GoPdf.C06 Require Import Machine AHx A85 RunLen LZW Predict Chain FilterParams ChainInst CCITT CCITT2D CCITTParams LZWStage.
Separate Extraction wire_anchor
  ahx_enc ahx_dec a85_enc a85_dec rl_enc rl_dec lzw_enc lzw_dec lzw_stage_dec
  png_enc png_dec tiff_enc tiff_dec bytes_per_pixel bytes_per_row g3_enc g3_dec g4_enc g4_dec ccitt_max_rows rows_accepted
  c06_roundtrip c06_open c06_get
  flate_to_dict lzw_to_dict ccitt_to_dict parse_flate parse_lzw parse_ccitt
  validate_flate validate_flate_lzw validate_ccitt effective_flate effective_lzw effective_ccitt.
