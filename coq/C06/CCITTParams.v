(* FilterCCITTFax.toParams: the row limit handed to the CCITT writer and reader alike (filter.go).
   A conforming image has at most MaxImageHeight rows and MaxImagePixels pixels; /Rows lowers the limit. *)
From Coq Require Import ZArith Bool List.
From GoPdf.Base Require Import Bytes Res.
From GoPdf.Gen Require Import Gen_C06ccitt Gen_C06ccitt2d.
From GoPdf.C06 Require Import Machine FilterParams CCITT CCITT2D.
Import ListNotations.
Open Scope Z_scope.

(* ccitt_geo_max_rows : the expression assigned to maxRows in toParams, translated from the Go source
   (Gen_C06ccitt2d.v); the two limits it mentions are the translated constants of internal/limits. *)
Lemma ccitt_geo_max_rows_limits cols :
  ccitt_geo_max_rows cols = Z.max 1 (Z.min MaxImageHeight (Z.quot MaxImagePixels (Z.max cols 1))).
Proof. reflexivity. Qed.

Definition ccitt_max_rows (columns rows : Z) : Z :=
  let cols := if columns =? 0 then 1728 else columns in
  let g := ccitt_geo_max_rows cols in
  if (0 <? rows) && (rows <? g) then rows else g.

(* Writer.Write: rows beyond MaxRows are refused ("too many rows"); MaxRows = 0 means no limit *)
Definition rows_accepted (p : g3p) (nrows : nat) : bool :=
  Nat.eqb (g_maxrows p) 0 || Nat.leb nrows (g_maxrows p).

Definition g3_encode (p : g3p) (rows : list bytes) : res bytes :=
  if rows_accepted p (length rows) then Ok (g3_enc p (concat rows)) else Err Other.

Definition g4_encode (p : g3p) (rows : list bytes) : res bytes :=
  if rows_accepted p (length rows) then Ok (g4_enc p (concat rows)) else Err Other.

(* the codec parameters FilterCCITTFax{K: 0, ...}.toParams hands to writer and reader *)
Definition g3p_of (c : ccitt) : g3p :=
  {| g_cols := Z.to_N (if c_columns c =? 0 then 1728 else c_columns c);
     g_eol := c_eol c; g_align := c_align c; g_blackis1 := c_blackis1 c; g_ignore_eob := c_ignore_eob c;
     g_maxrows := Z.to_nat (ccitt_max_rows (c_columns c) (c_rows c)) |}.
