(* Predictors of the Flate/LZW filters (ISO 32000-2, 7.4.4.4): TIFF predictor 2
   (TIFF 6.0, section 14: horizontal differencing per component) and the PNG filters
   (PNG specification, section 9: None, Sub, Up, Average, Paeth; one filter-type byte
   per row; predictors 10..14 use one filter throughout, 15 lets the encoder choose per
   row).  A row is handled when its last byte arrives (Machine.rows_step). *)
From Coq Require Import List NArith ZArith Bool.
From GoPdf.Base Require Import Bytes Res.
From GoPdf.C06 Require Import Machine.
Import ListNotations.
Open Scope N_scope.

(* geometry *)
Definition bytes_per_pixel (colors bpc : N) : N := (colors * bpc + 7) / 8.
Definition bytes_per_row (colors bpc columns : N) : N := (colors * bpc * columns + 7) / 8.

(* ---- PNG ---- *)

(* PNG 9.4: a = left, b = above, c = upper left; ties resolved in the order a, b, c *)
Definition paeth (a b c : N) : N :=
  let p := (Z.of_N a + Z.of_N b - Z.of_N c)%Z in
  let pa := Z.abs (p - Z.of_N a) in
  let pb := Z.abs (p - Z.of_N b) in
  let pc := Z.abs (p - Z.of_N c) in
  if ((pa <=? pb) && (pa <=? pc))%Z then a else if (pb <=? pc)%Z then b else c.

Definition png_pred (t a b c : N) : N :=
  match t with
  | 1 => a
  | 2 => b
  | 3 => (a + b) / 2
  | 4 => paeth a b c
  | _ => 0       (* 0 = None; an unknown filter type is treated like None by the Go reader *)
  end.

(* [q]: the last bpp bytes of this row (oldest first), [pq]: the same for the row above *)
Fixpoint png_filt (t : N) (q pq row prev : list N) : list N :=
  match row, prev with
  | x :: row', b :: prev' =>
    (x + 256 - png_pred t (hd 0 q) b (hd 0 pq) mod 256) mod 256
      :: png_filt t (tl q ++ [x]) (tl pq ++ [b]) row' prev'
  | _, _ => []
  end.

Fixpoint png_unfilt (t : N) (q pq data prev : list N) : list N :=
  match data, prev with
  | d :: data', b :: prev' =>
    let x := (d + png_pred t (hd 0 q) b (hd 0 pq)) mod 256 in
    x :: png_unfilt t (tl q ++ [x]) (tl pq ++ [b]) data' prev'
  | _, _ => []
  end.

Definition zeros (n : nat) : list N := repeat 0 n.

(* encoder row function: state = (row above, filter types still to be used) *)
Definition png_enc_row (bpp : nat) (p : list N * list N) (row : list N) : (list N * list N) * list N :=
  let '(prev, tags) := p in
  let t := hd 0 tags in
  ((row, tl tags), t :: png_filt t (zeros bpp) (zeros bpp) row prev).

Definition png_dec_row (bpp : nat) (prev : list N) (erow : list N) : list N * list N :=
  match erow with
  | t :: data => let row := png_unfilt t (zeros bpp) (zeros bpp) data prev in (row, row)
  | [] => (prev, [])
  end.

(* a final partial row is padded with zeros, as predict/write.go does on Close *)
Definition pad_row (rowlen : nat) (cur_rev : list N) : list N :=
  rev cur_rev ++ zeros (rowlen - length cur_rev).

Definition png_enc (bpp rowlen : nat) (tags : list N) (x : bytes) : bytes :=
  let '(st, out) := run (rows_step rowlen (png_enc_row bpp)) (rows_init (zeros rowlen, tags)) x in
  out ++ match rcur st with [] => [] | cur => snd (png_enc_row bpp (rp st) (pad_row rowlen cur)) end.

Definition png_dec (bpp rowlen : nat) (e : bytes) : res bytes :=
  let '(st, out) := run (rows_step (S rowlen) (png_dec_row bpp)) (rows_init (zeros rowlen)) e in
  match rcur st with [] => Ok out | _ => Err EOF end.

(* ---- TIFF predictor 2 ---- *)

Definition tiff_fields (bpc : N) (b : byte) : list N :=
  match bpc with
  | 1 => [b / 128 mod 2; b / 64 mod 2; b / 32 mod 2; b / 16 mod 2; b / 8 mod 2; b / 4 mod 2; b / 2 mod 2; b mod 2]
  | 2 => [b / 64 mod 4; b / 16 mod 4; b / 4 mod 4; b mod 4]
  | 4 => [b / 16 mod 16; b mod 16]
  | _ => [b]
  end.

Fixpoint tiff_pairs (row : list N) : list N :=
  match row with
  | hi :: lo :: r => hi * 256 + lo :: tiff_pairs r
  | _ => []
  end.

Definition tiff_unpack (bpc : N) (row : list N) : list N :=
  if bpc =? 16 then tiff_pairs row else flat_map (tiff_fields bpc) row.

Fixpoint tiff_pack1 (cs : list N) : list N :=
  match cs with
  | a :: b :: c :: d :: e :: f :: g :: h :: r =>
    ((((((a * 2 + b) * 2 + c) * 2 + d) * 2 + e) * 2 + f) * 2 + g) * 2 + h :: tiff_pack1 r
  | _ => []
  end.
Fixpoint tiff_pack2 (cs : list N) : list N :=
  match cs with
  | a :: b :: c :: d :: r => ((a * 4 + b) * 4 + c) * 4 + d :: tiff_pack2 r
  | _ => []
  end.
Fixpoint tiff_pack4 (cs : list N) : list N :=
  match cs with
  | a :: b :: r => a * 16 + b :: tiff_pack4 r
  | _ => []
  end.
Fixpoint tiff_pack16 (cs : list N) : list N :=
  match cs with
  | v :: r => v / 256 :: v mod 256 :: tiff_pack16 r
  | [] => []
  end.

Definition tiff_pack (bpc : N) (cs : list N) : list N :=
  match bpc with
  | 1 => tiff_pack1 cs
  | 2 => tiff_pack2 cs
  | 4 => tiff_pack4 cs
  | 16 => tiff_pack16 cs
  | _ => cs
  end.

(* [n] components take part; the padding after them is left alone.
   [q]: the previous pixel's components (oldest first) *)
Fixpoint tiff_diff (m : N) (q : list N) (n : nat) (cs : list N) : list N :=
  match n, cs with
  | S n', c :: cs' => (c + m - hd 0 q mod m) mod m :: tiff_diff m (tl q ++ [c]) n' cs'
  | _, _ => cs
  end.

Fixpoint tiff_undiff (m : N) (q : list N) (n : nat) (ds : list N) : list N :=
  match n, ds with
  | S n', d :: ds' => let c := (d + hd 0 q) mod m in c :: tiff_undiff m (tl q ++ [c]) n' ds'
  | _, _ => ds
  end.

Definition tiff_enc_row (colors : nat) (bpc : N) (ncomp : nat) (_ : unit) (row : list N) : unit * list N :=
  (tt, tiff_pack bpc (tiff_diff (2 ^ bpc) (zeros colors) ncomp (tiff_unpack bpc row))).

Definition tiff_dec_row (colors : nat) (bpc : N) (ncomp : nat) (_ : unit) (row : list N) : unit * list N :=
  (tt, tiff_pack bpc (tiff_undiff (2 ^ bpc) (zeros colors) ncomp (tiff_unpack bpc row))).

Definition tiff_enc (colors : nat) (bpc : N) (columns rowlen : nat) (x : bytes) : bytes :=
  let f := tiff_enc_row colors bpc (colors * columns) in
  let '(st, out) := run (rows_step rowlen f) (rows_init tt) x in
  out ++ match rcur st with [] => [] | cur => snd (f tt (pad_row rowlen cur)) end.

Definition tiff_dec (colors : nat) (bpc : N) (columns rowlen : nat) (e : bytes) : res bytes :=
  let '(st, out) := run (rows_step rowlen (tiff_dec_row colors bpc (colors * columns))) (rows_init tt) e in
  match rcur st with [] => Ok out | _ => Err EOF end.
