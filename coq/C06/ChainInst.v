(* Chain.v instantiated for the executable model: filter names are small numbers
   (1 ASCII85Decode, 2 ASCIIHexDecode, 3 RunLengthDecode, 4 FlateDecode, 5 LZWDecode,
   6 CCITTFaxDecode), parameter dictionaries are FilterParams.pdict. *)
From Coq Require Import List NArith.
From GoPdf.Base Require Import Bytes Res.
From GoPdf.C06 Require Import Chain FilterParams.
Import ListNotations.

Definition c06_append (s : @sdict N pdict) (n : N) (d : pdict) : @sdict N pdict :=
  append_filter (@length _) [] s n d.

Definition c06_open (stages : list (N * pdict)) : @sdict N pdict :=
  open_stream_dict (@length _) [] stages.

Definition c06_get (s : @sdict N pdict) : res (list (N * pdict)) := get_filters [] s.

Definition c06_roundtrip (stages : list (N * pdict)) : res (list (N * pdict)) := c06_get (c06_open stages).
