From Coq Require Import List NArith Bool Lia ZifyN ZifyBool.
From GoPdf.Base Require Import Bytes Res.
From GoPdf.C06 Require Import Machine MachineProofs AHx Conform.
Import ListNotations.
Open Scope N_scope.

Lemma hexval_not_ws c v : hexval c = Some v -> is_ws c = false.
Proof.
  unfold hexval, is_ws. intros H.
  destruct ((48 <=? c) && (c <=? 57)) eqn:E1; [lia|].
  destruct ((65 <=? c) && (c <=? 70)) eqn:E2; [lia|].
  destruct ((97 <=? c) && (c <=? 102)) eqn:E3; [lia|discriminate].
Qed.

Lemma hexval_hexdig n : n < 16 -> hexval (hexdig n) = Some n.
Proof.
  intros H. unfold hexdig, hexval.
  destruct (n <? 10) eqn:E.
  - replace ((48 <=? 48 + n) && (48 + n <=? 57)) with true by lia. f_equal; lia.
  - replace ((48 <=? 87 + n) && (87 + n <=? 57)) with false by lia.
    replace ((65 <=? 87 + n) && (87 + n <=? 70)) with false by lia.
    replace ((97 <=? 87 + n) && (87 + n <=? 102)) with true by lia. f_equal; lia.
Qed.

Lemma ahx_ws_step hi c : is_ws c = true -> ahx_dec_step (AHx_Go hi) c = (AHx_Go hi, []).
Proof.
  intros H. unfold ahx_dec_step.
  destruct (hexval c) eqn:E; [apply hexval_not_ws in E; congruence|].
  rewrite H. reflexivity.
Qed.

Lemma ahx_done_run e : run ahx_dec_step AHx_Done e = (AHx_Done, []).
Proof. induction e as [|c e IH]; cbn [run ahx_dec_step]; [reflexivity|]. rewrite IH. reflexivity. Qed.

Lemma ahx_fail_run e : run ahx_dec_step AHx_Fail e = (AHx_Fail, []).
Proof. induction e as [|c e IH]; cbn [run ahx_dec_step]; [reflexivity|]. rewrite IH. reflexivity. Qed.

(* white space does not matter while the decoder is running *)
Lemma ahx_run_strip_eq body hi :
  run ahx_dec_step (AHx_Go hi) body = run ahx_dec_step (AHx_Go hi) (strip_ws body).
Proof.
  revert hi. induction body as [|c body IH]; intros hi; [reflexivity|].
  unfold strip_ws in *. cbn [filter]. destruct (is_ws c) eqn:W; cbn [negb].
  - rewrite run_cons, ahx_ws_step by assumption. rewrite IH. destruct (run _ _ _); reflexivity.
  - rewrite !run_cons. destruct (ahx_dec_step (AHx_Go hi) c) as [st o] eqn:E.
    assert (Hst : (exists hi', st = AHx_Go hi') \/ forall r, run ahx_dec_step st (filter (fun c => negb (is_ws c)) r) = run ahx_dec_step st r).
    { unfold ahx_dec_step in E. destruct (hexval c).
      - destruct hi; inversion E; left; eauto.
      - rewrite W in E. destruct (c =? 62); inversion E; right; intros r.
        + rewrite !ahx_done_run. reflexivity.
        + rewrite !ahx_fail_run. reflexivity. }
    destruct Hst as [[hi' ->]|Hst].
    + rewrite IH. reflexivity.
    + rewrite Hst. reflexivity.
Qed.

(* a body of digits decodes to its bytes and leaves the half byte (if any) pending *)
Lemma ahx_run_body : forall e x, ahx_body e x ->
  forall rest, run ahx_dec_step (AHx_Go None) (e ++ 62 :: rest) = (AHx_Done, x).
Proof.
  assert (Hend : forall hi rest, run ahx_dec_step (AHx_Go hi) (62 :: rest) =
            (AHx_Done, match hi with Some h => [h * 16] | None => [] end)).
  { intros hi rest. erewrite run_step1 by reflexivity. rewrite ahx_done_run, app_nil_r. reflexivity. }
  induction 1 as [|h b Hh Hm Hb|h l b e x Hh Hl Hb Hbody IH]; intros rest.
  - cbn [app]. apply Hend.
  - cbn [app]. erewrite run_step1 by (unfold ahx_dec_step; rewrite Hh; reflexivity).
    rewrite Hend. cbn [app]. f_equal. f_equal. lia.
  - cbn [app]. erewrite run_step1 by (unfold ahx_dec_step; rewrite Hh; reflexivity).
    erewrite run_step1 by (unfold ahx_dec_step; rewrite Hl; reflexivity).
    rewrite IH. cbn [app]. f_equal. f_equal. lia.
Qed.

Theorem ahx_accepts_all_proof e x : ahx_conforming e x -> ahx_dec e = Ok x.
Proof.
  intros (body & rest & -> & Hb). unfold ahx_dec.
  rewrite run_app. rewrite ahx_run_strip_eq.
  pose proof (ahx_run_body _ _ Hb rest) as H. rewrite run_app in H.
  destruct (run ahx_dec_step (AHx_Go None) (strip_ws body)) as [st o].
  destruct (run ahx_dec_step st (62 :: rest)) as [st2 o2]. inversion H; subst. reflexivity.
Qed.

(* the encoder's output is conforming *)
Lemma ahx_enc_body : forall x col, Forall (fun b => b < 256) x ->
  ahx_body (strip_ws (snd (run ahx_enc_step col x))) x.
Proof.
  induction x as [|b x IH]; intros col Hwf; [constructor|].
  inversion Hwf as [|? ? Hb Hx]; subst.
  assert (H1 : hexval (hexdig (b / 16)) = Some (b / 16)) by (apply hexval_hexdig; lia).
  assert (H2 : hexval (hexdig (b mod 16)) = Some (b mod 16)) by (apply hexval_hexdig; lia).
  pose proof (hexval_not_ws _ _ H1) as W1. pose proof (hexval_not_ws _ _ H2) as W2.
  destruct (col =? ahx_line) eqn:E.
  - erewrite run_step1 by (unfold ahx_enc_step; rewrite E; reflexivity).
    specialize (IH 1 Hx). destruct (run ahx_enc_step 1 x) as [c' o']. cbn [snd app] in *.
    unfold strip_ws in *. cbn [filter]. replace (is_ws 10) with true by reflexivity. cbn [negb].
    rewrite W1, W2. cbn [negb]. constructor; assumption.
  - erewrite run_step1 by (unfold ahx_enc_step; rewrite E; reflexivity).
    specialize (IH (col + 1) Hx). destruct (run ahx_enc_step (col + 1) x) as [c' o']. cbn [snd app] in *.
    unfold strip_ws in *. cbn [filter]. rewrite W1, W2. cbn [negb]. constructor; assumption.
Qed.

Theorem ahx_enc_conforming x : Forall (fun b => b < 256) x -> ahx_conforming (ahx_enc x) x.
Proof.
  intros Hwf. unfold ahx_enc, ahx_enc_close. pose proof (ahx_enc_body x 0 Hwf) as H.
  destruct (run ahx_enc_step 0 x) as [col out]. cbn [snd] in H.
  exists out, []. split; [reflexivity|assumption].
Qed.

Theorem ahx_rt_proof x : Forall (fun b => b < 256) x -> ahx_dec (ahx_enc x) = Ok x.
Proof. intros H. apply ahx_accepts_all_proof, ahx_enc_conforming, H. Qed.
