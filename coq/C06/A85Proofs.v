From Coq Require Import List NArith Bool Lia ZifyN ZifyNat ZifyBool.
From GoPdf.Base Require Import Bytes Res.
From GoPdf.C06 Require Import Machine MachineProofs AHx A85 Conform.
Import ListNotations.
Open Scope N_scope.

Lemma list_ind4 {A} (P : list A -> Prop) :
  P [] -> (forall a, P [a]) -> (forall a b, P [a; b]) -> (forall a b c, P [a; b; c]) ->
  (forall a b c d l, P l -> P (a :: b :: c :: d :: l)) -> forall l, P l.
Proof.
  intros H0 H1 H2 H3 H4. fix IH 1. intros [|a [|b [|c [|d l]]]].
  - exact H0.
  - apply H1.
  - apply H2.
  - apply H3.
  - apply H4. apply IH.
Qed.

Lemma In_firstn {A} (c : A) : forall n l, In c (firstn n l) -> In c l.
Proof.
  induction n as [|n IH]; intros [|a l] H; cbn in *; try contradiction.
  destruct H as [H|H]; [left; assumption|right; apply IH, H].
Qed.

(* ---- decoder steps ---- *)

Lemma a85_ws_step v k c : is_ws c = true -> a85_dec_step (A_Go v k) c = (A_Go v k, []).
Proof.
  intros W. unfold a85_dec_step. unfold is_ws in W.
  replace ((33 <=? c) && (c <? 118)) with false by lia.
  replace ((k =? 0) && (c =? 122)) with false by lia.
  unfold is_ws. rewrite W. reflexivity.
Qed.

Lemma a85_digit_step v k d : d < 85 -> k < 4 ->
  a85_dec_step (A_Go v k) (d + 33) = (A_Go (a85_acc v d) (k + 1), []).
Proof.
  intros Hd Hk. unfold a85_dec_step.
  replace ((33 <=? d + 33) && (d + 33 <? 118)) with true by lia.
  replace (k =? 4) with false by lia. replace (d + 33 - 33) with d by lia. reflexivity.
Qed.

Lemma a85_digit_step5 v d : d < 85 ->
  a85_dec_step (A_Go v 4) (d + 33) = (A_Go 0 0, be32 (a85_acc v d)).
Proof.
  intros Hd. unfold a85_dec_step.
  replace ((33 <=? d + 33) && (d + 33 <? 118)) with true by lia.
  replace (4 =? 4) with true by reflexivity. replace (d + 33 - 33) with d by lia. reflexivity.
Qed.

Lemma a85_done_run e : run a85_dec_step A_Done e = (A_Done, []).
Proof. induction e as [|c e IH]; cbn [run a85_dec_step]; [reflexivity|]. rewrite IH. reflexivity. Qed.

Lemma a85_fail_run e : run a85_dec_step A_Fail e = (A_Fail, []).
Proof. induction e as [|c e IH]; cbn [run a85_dec_step]; [reflexivity|]. rewrite IH. reflexivity. Qed.

Lemma a85_step_not_tilde st c : st <> A_Tilde -> c <> 126 -> fst (a85_dec_step st c) <> A_Tilde.
Proof.
  intros Hst Hc. destruct st as [v k| | |]; try congruence; cbn [a85_dec_step fst]; try congruence.
  destruct ((33 <=? c) && (c <? 118)); [destruct (k =? 4); cbn; congruence|].
  destruct ((k =? 0) && (c =? 122)); [cbn; congruence|].
  destruct (is_ws c); [cbn; congruence|].
  replace (c =? 126) with false by lia. cbn; congruence.
Qed.

Lemma a85_ws_any st c : st <> A_Tilde -> is_ws c = true -> a85_dec_step st c = (st, []).
Proof.
  intros Hst W. destruct st as [v k| | |]; try congruence; try reflexivity. apply a85_ws_step, W.
Qed.

Lemma a85_run_strip : forall body st, st <> A_Tilde -> Forall (fun c => c <> 126) body ->
  run a85_dec_step st body = run a85_dec_step st (strip_ws body).
Proof.
  induction body as [|c body IH]; intros st Hst Hall; [reflexivity|].
  inversion Hall as [|? ? Hc Hb]; subst.
  unfold strip_ws in *. cbn [filter]. destruct (is_ws c) eqn:W; cbn [negb].
  - erewrite run_step1 by (apply a85_ws_any; assumption). rewrite IH by assumption.
    destruct (run _ _ _); reflexivity.
  - cbn [run]. pose proof (a85_step_not_tilde st c Hst Hc) as Hn.
    destruct (a85_dec_step st c) as [st1 o1]. cbn [fst] in Hn. rewrite IH by assumption. reflexivity.
Qed.

(* ---- arithmetic ---- *)

Lemma a85_acc_div q : q < 4294967296 -> a85_acc (q / 85) (q mod 85) = q.
Proof. intros H. unfold a85_acc. rewrite N.mod_small; [|pose proof (N.div_mod q 85); lia]. pose proof (N.div_mod q 85). lia. Qed.
Lemma a85_acc_small v d : v * 85 + d < 4294967296 -> a85_acc v d = v * 85 + d.
Proof. intros H. unfold a85_acc. apply N.mod_small, H. Qed.
Lemma div85_lt a q : a < 85 * q -> a / 85 < q.
Proof. intros H. apply N.div_lt_upper_bound; [discriminate|assumption]. Qed.
Lemma div85_bounds a : 85 * (a / 85) <= a < 85 * (a / 85) + 85.
Proof. pose proof (N.div_mod a 85). pose proof (N.mod_lt a 85). lia. Qed.

Lemma horner V : V < 4294967296 ->
  let q1 := V / 85 in let q2 := q1 / 85 in let q3 := q2 / 85 in let q4 := q3 / 85 in
  a85_acc (a85_acc (a85_acc (a85_acc (a85_acc 0 (q4 mod 85)) (q3 mod 85)) (q2 mod 85)) (q1 mod 85)) (V mod 85) = V.
Proof.
  intros HV q1 q2 q3 q4.
  assert (H1 : q1 < 50529028) by (apply div85_lt; lia).
  assert (H2 : q2 < 594460) by (apply div85_lt; lia).
  assert (H3 : q3 < 6994) by (apply div85_lt; lia).
  assert (H4 : q4 < 83) by (apply div85_lt; lia).
  replace 0 with (q4 / 85) by (apply N.div_small; lia).
  rewrite (a85_acc_div q4) by lia. subst q4.
  rewrite (a85_acc_div q3) by lia. subst q3.
  rewrite (a85_acc_div q2) by lia. subst q2.
  rewrite (a85_acc_div q1) by lia. subst q1.
  apply a85_acc_div, HV.
Qed.

Lemma part1_arith b0 : b0 < 256 ->
  let V := be_val b0 0 0 0 in
  let q1 := V / 85 in let q2 := q1 / 85 in let q3 := q2 / 85 in let q4 := q3 / 85 in
  a85_pad (a85_acc (a85_acc 0 (q4 mod 85)) (q3 mod 85)) 2 / 16777216 mod 256 = b0.
Proof.
  intros H0 V q1 q2 q3 q4.
  assert (HV : V = b0 * 16777216) by (unfold V, be_val; lia).
  pose proof (div85_bounds V) as B1. pose proof (div85_bounds q1) as B2. pose proof (div85_bounds q2) as B3.
  fold q1 in B1. fold q2 in B2. fold q3 in B3.
  assert (H4 : q4 < 85) by (apply div85_lt; lia).
  replace 0 with (q4 / 85) by (apply N.div_small; lia).
  rewrite (a85_acc_div q4) by lia. subst q4. rewrite (a85_acc_div q3) by lia.
  clearbody q3 q2 q1 V. unfold a85_pad.
  rewrite (a85_acc_small q3) by lia. rewrite (a85_acc_small (q3 * 85 + 84)) by lia.
  rewrite (a85_acc_small ((q3 * 85 + 84) * 85 + 84)) by lia.
  set (v' := ((q3 * 85 + 84) * 85 + 84) * 85 + 84).
  assert (Hv : V <= v' < V + 16777216) by (unfold v'; lia).
  clearbody v'. subst V. clear - Hv H0.
  pose proof (N.div_mod v' 16777216). pose proof (N.mod_lt v' 16777216).
  assert (v' / 16777216 = b0) by nia. rewrite H2. apply N.mod_small, H0.
Qed.

Lemma top_bytes v' b0 b1 b2 b3 : b0 < 256 -> b1 < 256 -> b2 < 256 -> b3 < 256 ->
  v' = be_val b0 b1 b2 b3 ->
  v' / 16777216 mod 256 = b0 /\ v' / 65536 mod 256 = b1 /\ v' / 256 mod 256 = b2 /\ v' mod 256 = b3.
Proof. intros. subst v'. unfold be_val. repeat split; lia. Qed.

Lemma part2_arith b0 b1 : b0 < 256 -> b1 < 256 ->
  let V := be_val b0 b1 0 0 in
  let q1 := V / 85 in let q2 := q1 / 85 in let q3 := q2 / 85 in let q4 := q3 / 85 in
  let v' := a85_pad (a85_acc (a85_acc (a85_acc 0 (q4 mod 85)) (q3 mod 85)) (q2 mod 85)) 3 in
  v' / 16777216 mod 256 = b0 /\ v' / 65536 mod 256 = b1.
Proof.
  intros H0 H1 V q1 q2 q3 q4.
  assert (HV : V = b0 * 16777216 + b1 * 65536) by (unfold V, be_val; lia).
  pose proof (div85_bounds V) as B1. pose proof (div85_bounds q1) as B2. pose proof (div85_bounds q2) as B3.
  fold q1 in B1. fold q2 in B2. fold q3 in B3.
  assert (H4 : q4 < 85) by (apply div85_lt; lia).
  replace 0 with (q4 / 85) by (apply N.div_small; lia).
  rewrite (a85_acc_div q4) by lia. subst q4. rewrite (a85_acc_div q3) by lia. subst q3.
  rewrite (a85_acc_div q2) by lia.
  clearbody q2 q1 V. unfold a85_pad.
  rewrite (a85_acc_small q2) by lia. rewrite (a85_acc_small (q2 * 85 + 84)) by lia.
  set (w := (q2 * 85 + 84) * 85 + 84).
  assert (Hv : V <= w < V + 65536) by (unfold w; lia).
  clearbody w. cbv zeta.
  assert (exists b2 b3, b2 < 256 /\ b3 < 256 /\ w = be_val b0 b1 b2 b3) as (b2 & b3 & Hb2 & Hb3 & E).
  { exists ((w - V) / 256), ((w - V) mod 256). unfold be_val. lia. }
  destruct (top_bytes w b0 b1 b2 b3) as (? & ? & _); auto.
Qed.

Lemma part3_arith b0 b1 b2 : b0 < 256 -> b1 < 256 -> b2 < 256 ->
  let V := be_val b0 b1 b2 0 in
  let q1 := V / 85 in let q2 := q1 / 85 in let q3 := q2 / 85 in let q4 := q3 / 85 in
  let v' := a85_pad (a85_acc (a85_acc (a85_acc (a85_acc 0 (q4 mod 85)) (q3 mod 85)) (q2 mod 85)) (q1 mod 85)) 4 in
  v' / 16777216 mod 256 = b0 /\ v' / 65536 mod 256 = b1 /\ v' / 256 mod 256 = b2.
Proof.
  intros H0 H1 H2 V q1 q2 q3 q4.
  assert (HV : V = b0 * 16777216 + b1 * 65536 + b2 * 256) by (unfold V, be_val; lia).
  pose proof (div85_bounds V) as B1. pose proof (div85_bounds q1) as B2. pose proof (div85_bounds q2) as B3.
  fold q1 in B1. fold q2 in B2. fold q3 in B3.
  assert (H4 : q4 < 85) by (apply div85_lt; lia).
  replace 0 with (q4 / 85) by (apply N.div_small; lia).
  rewrite (a85_acc_div q4) by lia. subst q4. rewrite (a85_acc_div q3) by lia. subst q3.
  rewrite (a85_acc_div q2) by lia. subst q2. rewrite (a85_acc_div q1) by lia.
  clearbody q1 V. unfold a85_pad.
  rewrite (a85_acc_small q1) by lia.
  set (w := q1 * 85 + 84).
  assert (Hv : V <= w < V + 256) by (unfold w; lia).
  clearbody w. cbv zeta.
  assert (exists b3, b3 < 256 /\ w = be_val b0 b1 b2 b3) as (b3 & Hb3 & E).
  { exists (w - V). unfold be_val. lia. }
  destruct (top_bytes w b0 b1 b2 b3) as (? & ? & ? & _); auto.
Qed.


Ltac dstep := erewrite run_step1 by (apply a85_digit_step; [apply N.mod_lt; discriminate|reflexivity]).

Lemma a85_group_run V rest : V < 4294967296 ->
  run a85_dec_step (A_Go 0 0) (a85_digits V ++ rest) =
  let '(st, o) := run a85_dec_step (A_Go 0 0) rest in (st, be32 V ++ o).
Proof.
  intros HV. pose proof (horner V HV) as E. unfold a85_digits. cbv zeta in *. cbn [app].
  dstep. dstep. dstep. dstep.
  erewrite run_step1 by (apply a85_digit_step5; apply N.mod_lt; discriminate).
  rewrite E. destruct (run a85_dec_step (A_Go 0 0) rest). reflexivity.
Qed.

Lemma be32_be_val b0 b1 b2 b3 : b0 < 256 -> b1 < 256 -> b2 < 256 -> b3 < 256 ->
  be32 (be_val b0 b1 b2 b3) = [b0; b1; b2; b3].
Proof.
  intros. destruct (top_bytes (be_val b0 b1 b2 b3) b0 b1 b2 b3) as (E0 & E1 & E2 & E3); auto.
  unfold be32. rewrite E0, E1, E2, E3. reflexivity.
Qed.

Lemma a85_tail rest k v (Hk : 2 <= k <= 4) :
  run a85_dec_step (A_Go v k) (126 :: 62 :: rest) =
  (A_Done, firstn (N.to_nat k - 1) (be32 (a85_pad v k))).
Proof.
  erewrite run_step1 by (unfold a85_dec_step; replace ((33 <=? 126) && (126 <? 118)) with false by reflexivity;
    replace ((k =? 0) && (126 =? 122)) with false by lia; replace (is_ws 126) with false by reflexivity;
    replace (126 =? 126) with true by reflexivity; replace (k =? 0) with false by lia;
    replace (k =? 1) with false by lia; reflexivity).
  erewrite run_step1 by reflexivity. rewrite a85_done_run. cbn [app]. rewrite app_nil_r. reflexivity.
Qed.

Lemma a85_tail0 rest : run a85_dec_step (A_Go 0 0) (126 :: 62 :: rest) = (A_Done, []).
Proof.
  erewrite run_step1 by reflexivity. erewrite run_step1 by reflexivity. rewrite a85_done_run. reflexivity.
Qed.

Lemma a85_part1 b0 rest : b0 < 256 ->
  run a85_dec_step (A_Go 0 0) (firstn 2 (a85_digits (be_val b0 0 0 0)) ++ 126 :: 62 :: rest) = (A_Done, [b0]).
Proof.
  intros H0. pose proof (part1_arith b0 H0) as E. unfold a85_digits. cbv zeta in *. cbn [firstn app].
  dstep. dstep. change (0 + 1 + 1) with 2.
  rewrite a85_tail by lia. cbn [app]. change (N.to_nat 2 - 1)%nat with 1%nat.
  unfold be32. cbn [firstn]. rewrite E. reflexivity.
Qed.

Lemma a85_part2 b0 b1 rest : b0 < 256 -> b1 < 256 ->
  run a85_dec_step (A_Go 0 0) (firstn 3 (a85_digits (be_val b0 b1 0 0)) ++ 126 :: 62 :: rest) = (A_Done, [b0; b1]).
Proof.
  intros H0 H1. pose proof (part2_arith b0 b1 H0 H1) as [E0 E1]. unfold a85_digits. cbv zeta in *. cbn [firstn app].
  dstep. dstep. dstep. change (0 + 1 + 1 + 1) with 3.
  rewrite a85_tail by lia. cbn [app]. change (N.to_nat 3 - 1)%nat with 2%nat.
  unfold be32. cbn [firstn]. rewrite E0, E1. reflexivity.
Qed.

Lemma a85_part3 b0 b1 b2 rest : b0 < 256 -> b1 < 256 -> b2 < 256 ->
  run a85_dec_step (A_Go 0 0) (firstn 4 (a85_digits (be_val b0 b1 b2 0)) ++ 126 :: 62 :: rest) = (A_Done, [b0; b1; b2]).
Proof.
  intros H0 H1 H2. pose proof (part3_arith b0 b1 b2 H0 H1 H2) as (E0 & E1 & E2). unfold a85_digits. cbv zeta in *. cbn [firstn app].
  dstep. dstep. dstep. dstep. change (0 + 1 + 1 + 1 + 1) with 4.
  rewrite a85_tail by lia. cbn [app]. change (N.to_nat 4 - 1)%nat with 3%nat.
  unfold be32. cbn [firstn]. rewrite E0, E1, E2. reflexivity.
Qed.

Lemma a85_body_run : forall e x, a85_body e x ->
  forall rest, run a85_dec_step (A_Go 0 0) (e ++ 126 :: 62 :: rest) = (A_Done, x).
Proof.
  induction 1 as [|b0 b1 b2 b3 e x H0 H1 H2 H3 Hb IH|e x Hb IH|b0 H0|b0 b1 H0 H1|b0 b1 b2 H0 H1 H2]; intros rest.
  - apply a85_tail0.
  - rewrite <- app_assoc. rewrite a85_group_run by (unfold be_val; lia).
    rewrite IH. rewrite be32_be_val by assumption. reflexivity.
  - cbn [app]. erewrite run_step1 by reflexivity. rewrite IH. reflexivity.
  - apply a85_part1; assumption.
  - apply a85_part2; assumption.
  - apply a85_part3; assumption.
Qed.

Lemma a85_digits_range V : Forall (fun c => 33 <= c < 118) (a85_digits V).
Proof.
  unfold a85_digits. cbv zeta.
  repeat (constructor; [match goal with |- 33 <= ?q mod 85 + 33 < 118 => pose proof (N.mod_lt q 85); lia end|]).
  constructor.
Qed.

Lemma a85_body_chars : forall e x, a85_body e x -> Forall (fun c => 33 <= c < 118 \/ c = 122) e.
Proof.
  assert (Hd : forall V, Forall (fun c => 33 <= c < 118 \/ c = 122) (a85_digits V)).
  { intros V. eapply Forall_impl; [|apply a85_digits_range]. cbn. intros; lia. }
  assert (Hf : forall n V, Forall (fun c => 33 <= c < 118 \/ c = 122) (firstn n (a85_digits V))).
  { intros n V. apply Forall_forall. intros c Hc. apply In_firstn in Hc.
    revert c Hc. apply Forall_forall. apply Hd. }
  induction 1 as [|b0 b1 b2 b3 e x H0 H1 H2 H3 Hb IH|e x Hb IH|b0 H0|b0 b1 H0 H1|b0 b1 b2 H0 H1 H2].
  - constructor.
  - apply Forall_app; split; auto.
  - constructor; [lia|assumption].
  - apply Hf.
  - apply Hf.
  - apply Hf.
Qed.

Theorem a85_accepts_all_proof e x : a85_conforming e x -> a85_dec e = Ok x.
Proof.
  intros (body & rest & -> & Hb). unfold a85_dec.
  assert (Hno : Forall (fun c => c <> 126) body).
  { apply Forall_forall. intros c Hc Heq. subst c.
    assert (Hin : In 126 (strip_ws body)) by (unfold strip_ws; apply filter_In; split; [assumption|reflexivity]).
    pose proof (a85_body_chars _ _ Hb) as Hch. rewrite Forall_forall in Hch. specialize (Hch _ Hin). lia. }
  rewrite run_app. rewrite a85_run_strip by (congruence || assumption).
  pose proof (a85_body_run _ _ Hb rest) as H. rewrite run_app in H.
  destruct (run a85_dec_step (A_Go 0 0) (strip_ws body)) as [st o].
  destruct (run a85_dec_step st (126 :: 62 :: rest)) as [st2 o2]. inversion H; subst. reflexivity.
Qed.

(* ---- the encoder's output is conforming ---- *)

Lemma strip_digits V l : strip_ws (a85_digits V ++ l) = a85_digits V ++ strip_ws l.
Proof.
  unfold strip_ws. rewrite filter_app. f_equal.
  pose proof (a85_digits_range V) as H. induction H as [|c l' Hc Hl IH]; [reflexivity|].
  cbn [filter]. replace (is_ws c) with false by (unfold is_ws; lia). cbn [negb]. rewrite IH. reflexivity.
Qed.

Lemma strip_firstn_digits n V : strip_ws (firstn n (a85_digits V)) = firstn n (a85_digits V).
Proof.
  unfold strip_ws.
  assert (H : Forall (fun c => 33 <= c < 118) (firstn n (a85_digits V))).
  { apply Forall_forall. intros c Hc. apply In_firstn in Hc. revert c Hc. apply Forall_forall, a85_digits_range. }
  induction H as [|c l' Hc Hl IH]; [reflexivity|].
  cbn [filter]. replace (is_ws c) with false by (unfold is_ws; lia). cbn [negb]. rewrite IH. reflexivity.
Qed.

Lemma a85_enc_nf v k col b : (k =? 3) = false ->
  a85_enc_step {| ev := v; ek := k; ecol := col |} b = ({| ev := v * 256 + b; ek := k + 1; ecol := col |}, []).
Proof. intros H. unfold a85_enc_step. cbn [ev ek ecol]. rewrite H. reflexivity. Qed.

Ltac estep := erewrite run_step1 by (apply a85_enc_nf; reflexivity).

Lemma a85_enc_group col b0 b1 b2 b3 x :
  run a85_enc_step {| ev := 0; ek := 0; ecol := col |} (b0 :: b1 :: b2 :: b3 :: x) =
  let V := be_val b0 b1 b2 b3 in
  let '(nl, col') := if 80 <? col + 8 then ([10], 0) else ([], col) in
  let g := if V =? 0 then [122] else a85_digits V in
  let '(st, o) := run a85_enc_step {| ev := 0; ek := 0; ecol := col' + N.of_nat (length g) |} x in
  (st, nl ++ g ++ o).
Proof.
  estep. estep. estep. cbn [run]. unfold a85_enc_step at 1. cbn [ev ek ecol].
  change (0 + 1 + 1 + 1 =? 3) with true. cbv iota.
  replace (((0 * 256 + b0) * 256 + b1) * 256 + b2) with (b0 * 65536 + b1 * 256 + b2) by lia.
  replace ((b0 * 65536 + b1 * 256 + b2) * 256 + b3) with (be_val b0 b1 b2 b3) by (unfold be_val; lia).
  cbv zeta. destruct (80 <? col + 8);
    destruct (run a85_enc_step _ x) as [st o]; cbn [app]; rewrite <- ?app_assoc; reflexivity.
Qed.

Lemma a85_enc_conf_gen : forall x col, Forall (fun b => b < 256) x ->
  let '(st, out) := run a85_enc_step {| ev := 0; ek := 0; ecol := col |} x in
  a85_body (strip_ws (out ++ a85_enc_tail st)) x.
Proof.
  induction x as [|a|a b|a b c|a b c d x IH] using list_ind4; intros col Hwf.
  - cbn. constructor.
  - inversion Hwf; subst. estep. cbn [run app]. unfold a85_enc_tail. cbn [ek ev]. change (0 + 1 =? 0) with false. cbv iota.
    change (N.to_nat (0 + 1) + 1)%nat with 2%nat. change (a85_shift (0 + 1)) with 16777216.
    replace ((0 * 256 + a) * 16777216) with (be_val a 0 0 0) by (unfold be_val; lia).
    rewrite strip_firstn_digits. constructor; assumption.
  - inversion Hwf as [|? ? Ha Hw1]; subst. inversion Hw1 as [|? ? Hb Hw2]; subst.
    estep. estep. cbn [run app]. unfold a85_enc_tail. cbn [ek ev]. change (0 + 1 + 1 =? 0) with false. cbv iota.
    change (N.to_nat (0 + 1 + 1) + 1)%nat with 3%nat. change (a85_shift (0 + 1 + 1)) with 65536.
    replace (((0 * 256 + a) * 256 + b) * 65536) with (be_val a b 0 0) by (unfold be_val; lia).
    rewrite strip_firstn_digits. constructor; assumption.
  - inversion Hwf as [|? ? Ha Hw1]; subst. inversion Hw1 as [|? ? Hb Hw2]; subst. inversion Hw2 as [|? ? Hc Hw3]; subst.
    estep. estep. estep. cbn [run app]. unfold a85_enc_tail. cbn [ek ev]. change (0 + 1 + 1 + 1 =? 0) with false. cbv iota.
    change (N.to_nat (0 + 1 + 1 + 1) + 1)%nat with 4%nat. change (a85_shift (0 + 1 + 1 + 1)) with 256.
    replace ((((0 * 256 + a) * 256 + b) * 256 + c) * 256) with (be_val a b c 0) by (unfold be_val; lia).
    rewrite strip_firstn_digits. constructor; assumption.
  - inversion Hwf as [|? ? Ha Hw1]; subst. inversion Hw1 as [|? ? Hb Hw2]; subst.
    inversion Hw2 as [|? ? Hc Hw3]; subst. inversion Hw3 as [|? ? Hd Hw4]; subst.
    rewrite a85_enc_group. cbv zeta.
    destruct (80 <? col + 8).
    + destruct (be_val a b c d =? 0) eqn:EV.
      * specialize (IH (0 + N.of_nat (length [122])) Hw4).
        destruct (run a85_enc_step _ x) as [st o]. cbn [app].
        assert (a = 0 /\ b = 0 /\ c = 0 /\ d = 0) as (-> & -> & -> & ->) by (unfold be_val in EV; lia).
        unfold strip_ws in *. cbn [filter]. change (negb (is_ws 10)) with false. change (negb (is_ws 122)) with true.
        cbv iota. constructor. assumption.
      * specialize (IH (0 + N.of_nat (length (a85_digits (be_val a b c d)))) Hw4).
        destruct (run a85_enc_step _ x) as [st o]. cbn [app].
        unfold strip_ws at 1. cbn [filter]. change (negb (is_ws 10)) with false. cbv iota.
        fold (strip_ws ((a85_digits (be_val a b c d) ++ o) ++ a85_enc_tail st)).
        rewrite <- app_assoc, strip_digits. constructor; assumption.
    + destruct (be_val a b c d =? 0) eqn:EV.
      * specialize (IH (col + N.of_nat (length [122])) Hw4).
        destruct (run a85_enc_step _ x) as [st o]. cbn [app].
        assert (a = 0 /\ b = 0 /\ c = 0 /\ d = 0) as (-> & -> & -> & ->) by (unfold be_val in EV; lia).
        unfold strip_ws in *. cbn [filter]. change (negb (is_ws 122)) with true.
        cbv iota. constructor. assumption.
      * specialize (IH (col + N.of_nat (length (a85_digits (be_val a b c d)))) Hw4).
        destruct (run a85_enc_step _ x) as [st o]. cbn [app].
        rewrite <- app_assoc, strip_digits. constructor; assumption.
Qed.

Theorem a85_enc_conforming x : Forall (fun b => b < 256) x -> a85_conforming (a85_enc x) x.
Proof.
  intros Hwf. unfold a85_enc. pose proof (a85_enc_conf_gen x 0 Hwf) as H.
  change {| ev := 0; ek := 0; ecol := 0 |} with a85_einit in H.
  destruct (run a85_enc_step a85_einit x) as [st out].
  exists (out ++ a85_enc_tail st), [].
  split; [|assumption]. unfold a85_enc_close. rewrite <- app_assoc. reflexivity.
Qed.

Theorem a85_rt_proof x : Forall (fun b => b < 256) x -> a85_dec (a85_enc x) = Ok x.
Proof. intros H. apply a85_accepts_all_proof, a85_enc_conforming, H. Qed.
