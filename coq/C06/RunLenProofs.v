From Coq Require Import List NArith Bool Lia ZifyN ZifyNat ZifyBool Arith.
From GoPdf.Base Require Import Bytes Res.
From GoPdf.C06 Require Import Machine MachineProofs RunLen Conform.
Import ListNotations.
Open Scope N_scope.

(* ---- decoder is correct for every conforming record sequence ---- *)

Lemma rl_done_run e : run rl_dec_step RL_Done e = (RL_Done, []).
Proof. induction e as [|c e IH]; cbn [run rl_dec_step]; [reflexivity|]. rewrite IH. reflexivity. Qed.

Lemma rl_lit_run : forall l n rest, l <> [] -> N.of_nat (length l) = n ->
  run rl_dec_step (RL_Lit n) (l ++ rest) =
  let '(st, o) := run rl_dec_step RL_Len rest in (st, l ++ o).
Proof.
  induction l as [|c l IH]; intros n rest Hne Hn; [congruence|].
  cbn [app]. destruct l as [|c' l'].
  - cbn [length] in Hn. erewrite run_step1 by (unfold rl_dec_step; replace (n =? 1) with true by lia; reflexivity).
    cbn [app]. destruct (run rl_dec_step RL_Len rest). reflexivity.
  - cbn [length] in Hn. erewrite run_step1 by (unfold rl_dec_step; replace (n =? 1) with false by lia; reflexivity).
    rewrite (IH (n - 1) rest) by (try congruence; cbn [length]; lia).
    destruct (run rl_dec_step RL_Len rest). reflexivity.
Qed.

Lemma rl_rec_run r rest : rl_rec_ok r ->
  run rl_dec_step RL_Len (rl_rec_enc r ++ rest) =
  let '(st, o) := run rl_dec_step RL_Len rest in (st, rl_rec_exp r ++ o).
Proof.
  destruct r as [l|n b]; cbn [rl_rec_ok rl_rec_enc rl_rec_exp]; intros Hok.
  - cbn [app].
    erewrite run_step1 by (unfold rl_dec_step;
      replace (N.of_nat (length l) - 1 =? 128) with false by lia;
      replace (N.of_nat (length l) - 1 <? 128) with true by lia; reflexivity).
    rewrite (rl_lit_run l (N.of_nat (length l) - 1 + 1) rest); [|destruct l; cbn in *; [lia|congruence]|lia].
    destruct (run rl_dec_step RL_Len rest). reflexivity.
  - cbn [app].
    erewrite run_step1 by (unfold rl_dec_step;
      replace (257 - n =? 128) with false by lia;
      replace (257 - n <? 128) with false by lia; reflexivity).
    erewrite run_step1 by reflexivity.
    replace (257 - (257 - n)) with n by lia.
    destruct (run rl_dec_step RL_Len rest). reflexivity.
Qed.

Lemma rl_recs_run : forall rs rest, Forall rl_rec_ok rs ->
  run rl_dec_step RL_Len (flat_map rl_rec_enc rs ++ 128 :: rest) = (RL_Done, flat_map rl_rec_exp rs).
Proof.
  induction rs as [|r rs IH]; intros rest Hok.
  - cbn [flat_map app]. erewrite run_step1 by reflexivity. rewrite rl_done_run. reflexivity.
  - inversion Hok as [|? ? Hr Hrs]; subst. cbn [flat_map]. rewrite <- app_assoc.
    rewrite rl_rec_run by assumption. rewrite IH by assumption. reflexivity.
Qed.

Theorem rl_accepts_all_proof e x : rl_conforming e x -> rl_dec e = Ok x.
Proof.
  intros (rs & rest & Hok & -> & ->). unfold rl_dec. rewrite rl_recs_run by assumption. reflexivity.
Qed.

(* ---- the encoder emits well-formed records that expand to its input ---- *)

Definition rl_pending (st : rl_st) : list byte :=
  if 0 <? rl_rc st then repeat (rl_rv st) (N.to_nat (rl_rc st)) else rev (rl_buf st).

Definition rl_inv (st : rl_st) : Prop :=
  (length (rl_buf st) <= 127)%nat /\
  (rl_rc st = 0 \/ (3 <= rl_rc st <= 128 /\ rl_buf st = [])).

Lemma rl_flush_lit_ok buf : (length buf <= 128)%nat ->
  Forall rl_rec_ok (rl_flush_lit buf) /\ flat_map rl_rec_exp (rl_flush_lit buf) = rev buf.
Proof.
  intros H. destruct buf as [|b buf]; cbn [rl_flush_lit].
  - split; [constructor|reflexivity].
  - split.
    + constructor; [|constructor]. cbn [rl_rec_ok]. rewrite rev_length. cbn [length] in *. lia.
    + cbn [flat_map rl_rec_exp]. rewrite app_nil_r. reflexivity.
Qed.

Lemma rl_push_ok buf b : (length buf <= 127)%nat ->
  let '(st', o) := rl_push buf b in
  rl_inv st' /\ Forall rl_rec_ok o /\ flat_map rl_rec_exp o ++ rl_pending st' = rev buf ++ [b].
Proof.
  intros Hlen. unfold rl_push.
  destruct buf as [|y [|z lit]].
  - unfold rl_inv, rl_pending; cbn. split; [split; [lia|left; reflexivity]|split; [constructor|reflexivity]].
  - unfold rl_inv, rl_pending; cbn. split; [split; [lia|left; reflexivity]|split; [constructor|reflexivity]].
  - destruct ((b =? y) && (y =? z)) eqn:E.
    + assert (b = y /\ y = z) as [-> ->] by lia.
      destruct (rl_flush_lit_ok lit) as [Hok Hexp]; [cbn [length] in Hlen; lia|].
      unfold rl_inv, rl_pending; cbn [rl_buf rl_rc rl_rv length]. split; [|split].
      * split; [lia|]. right. split; [lia|reflexivity].
      * assumption.
      * rewrite Hexp. replace (0 <? 3) with true by reflexivity.
        cbn [rev]. change (N.to_nat 3) with 3%nat. cbn [repeat]. rewrite <- !app_assoc. reflexivity.
    + destruct (Nat.eqb (length (b :: y :: z :: lit)) 128) eqn:E2.
      * apply Nat.eqb_eq in E2. unfold rl_inv, rl_pending, rl_init; cbn [rl_buf rl_rc rl_rv].
        split; [|split].
        -- split; [cbn; lia|left; reflexivity].
        -- constructor; [|constructor]. cbn [rl_rec_ok]. rewrite rev_length. lia.
        -- cbn [flat_map rl_rec_exp]. replace (0 <? 0) with false by reflexivity. cbn [rev]. rewrite !app_nil_r. reflexivity.
      * apply Nat.eqb_neq in E2. unfold rl_inv, rl_pending; cbn [rl_buf rl_rc rl_rv].
        split; [|split].
        -- split; [cbn [length] in *; lia|left; reflexivity].
        -- constructor.
        -- replace (0 <? 0) with false by reflexivity. reflexivity.
Qed.

Lemma rl_step_ok st b : rl_inv st ->
  let '(st', o) := rl_enc_step st b in
  rl_inv st' /\ Forall rl_rec_ok o /\ flat_map rl_rec_exp o ++ rl_pending st' = rl_pending st ++ [b].
Proof.
  intros [Hlen Hrc]. unfold rl_enc_step.
  destruct (0 <? rl_rc st) eqn:E0.
  - destruct Hrc as [Hz|[Hr Hb]]; [lia|].
    destruct ((b =? rl_rv st) && (rl_rc st <? 128)) eqn:E1.
    + assert (b = rl_rv st) by lia. subst b.
      unfold rl_inv, rl_pending; cbn [rl_buf rl_rc rl_rv]. split; [|split].
      * split; [assumption|]. right. split; [lia|assumption].
      * constructor.
      * cbn [flat_map app]. rewrite E0. replace (0 <? rl_rc st + 1) with true by lia.
        replace (N.to_nat (rl_rc st + 1)) with (S (N.to_nat (rl_rc st))) by lia.
        rewrite <- repeat_cons. reflexivity.
    + pose proof (rl_push_ok (rl_buf st) b Hlen) as Hp.
      destruct (rl_push (rl_buf st) b) as [st' o]. destruct Hp as (Hi & Ho & He).
      split; [assumption|split].
      * constructor; [cbn [rl_rec_ok]; lia|assumption].
      * cbn [flat_map rl_rec_exp]. rewrite <- app_assoc, He. unfold rl_pending. rewrite E0, Hb. reflexivity.
  - pose proof (rl_push_ok (rl_buf st) b Hlen) as Hp.
    destruct (rl_push (rl_buf st) b) as [st' o]. destruct Hp as (Hi & Ho & He).
    split; [assumption|split; [assumption|]]. rewrite He. unfold rl_pending. rewrite E0. reflexivity.
Qed.

Lemma rl_run_ok : forall x st, rl_inv st ->
  let '(st', o) := run rl_enc_step st x in
  rl_inv st' /\ Forall rl_rec_ok o /\ flat_map rl_rec_exp o ++ rl_pending st' = rl_pending st ++ x.
Proof.
  induction x as [|b x IH]; intros st Hinv.
  - cbn [run]. rewrite app_nil_r. split; [assumption|split; [constructor|reflexivity]].
  - cbn [run]. pose proof (rl_step_ok st b Hinv) as Hs.
    destruct (rl_enc_step st b) as [st1 o1]. destruct Hs as (Hi1 & Ho1 & He1).
    specialize (IH st1 Hi1). destruct (run rl_enc_step st1 x) as [st2 o2]. destruct IH as (Hi2 & Ho2 & He2).
    split; [assumption|split].
    + apply Forall_app; auto.
    + rewrite flat_map_app, <- app_assoc, He2, app_assoc, He1, <- app_assoc. reflexivity.
Qed.

Lemma rl_close_ok st : rl_inv st ->
  Forall rl_rec_ok (rl_enc_close st) /\ flat_map rl_rec_exp (rl_enc_close st) = rl_pending st.
Proof.
  intros [Hlen Hrc]. unfold rl_enc_close, rl_pending.
  destruct (rl_flush_lit_ok (rl_buf st)) as [Hok Hexp]; [lia|].
  destruct (0 <? rl_rc st) eqn:E0.
  - destruct Hrc as [Hz|[Hr Hb]]; [lia|]. rewrite Hb. cbn [rl_flush_lit app]. split.
    + constructor; [cbn [rl_rec_ok]; lia|constructor].
    + cbn [flat_map rl_rec_exp]. apply app_nil_r.
  - cbn [app]. split; assumption.
Qed.

Theorem rl_enc_conforming x : rl_conforming (rl_enc x) x.
Proof.
  unfold rl_enc, rl_enc_records.
  assert (Hinit : rl_inv rl_init) by (unfold rl_inv, rl_init; cbn; split; [lia|left; reflexivity]).
  pose proof (rl_run_ok x rl_init Hinit) as H.
  destruct (run rl_enc_step rl_init x) as [st o]. destruct H as (Hi & Ho & He).
  destruct (rl_close_ok st Hi) as [Hc1 Hc2].
  exists (o ++ rl_enc_close st), []. split; [|split].
  - apply Forall_app; auto.
  - reflexivity.
  - rewrite flat_map_app, Hc2, He. reflexivity.
Qed.

Theorem rl_rt_proof x : rl_dec (rl_enc x) = Ok x.
Proof. apply rl_accepts_all_proof, rl_enc_conforming. Qed.
