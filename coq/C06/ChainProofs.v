From Coq Require Import List Arith Bool Lia.
From GoPdf.Base Require Import Bytes Res.
From GoPdf.C06 Require Import Chain.
Import ListNotations.

Lemma Forall2_len {A B} (R : A -> B -> Prop) l1 l2 : Forall2 R l1 l2 -> length l1 = length l2.
Proof. induction 1; cbn; congruence. Qed.

Lemma map_fst_combine_eq {A B} : forall (l1 : list A) (l2 : list B), length l1 = length l2 ->
  map fst (combine l1 l2) = l1.
Proof. induction l1; intros [|b l2] H; cbn in *; try lia; f_equal; auto. Qed.

Lemma map_snd_combine_eq {A B} : forall (l1 : list A) (l2 : list B), length l1 = length l2 ->
  map snd (combine l1 l2) = l2.
Proof. induction l1; intros [|b l2] H; cbn in *; try lia; f_equal; auto. Qed.

Section ChainP.
  Context {Nm D : Type}.
  Variable dsize : D -> nat.
  Variable dnil : D.
  Hypothesis dnil_size : dsize dnil = 0.

  Notation sdict := (@sdict Nm D).
  Notation append_filter := (@append_filter Nm D dsize dnil).
  Notation get_filters := (@get_filters Nm D dnil).
  Notation open_stream_dict := (@open_stream_dict Nm D dsize dnil).
  Notation nonempty := (@nonempty D dsize).

  (* what is read back stands for what was written: equal, or an empty dictionary read back as nil *)
  Definition same_parms (d' d : D) : Prop := d' = d \/ (dsize d = 0 /\ d' = dnil).

  Inductive inv : list (Nm * D) -> sdict -> Prop :=
  | inv0 : inv [] sdict_empty
  | inv1a n d : dsize d = 0 -> inv [(n, d)] {| s_filter := FName n; s_parms := PAbsent |}
  | inv1b n d : dsize d <> 0 -> inv [(n, d)] {| s_filter := FName n; s_parms := PDict d |}
  | inv2a st : 2 <= length st -> Forall (fun p => dsize (snd p) = 0) st ->
      inv st {| s_filter := FArr (map fst st); s_parms := PAbsent |}
  | inv2b st l : 2 <= length st -> Forall2 same_parms l (map snd st) -> existsb nonempty l = true ->
      inv st {| s_filter := FArr (map fst st); s_parms := PArr l |}.

  Lemma nonempty_true d : nonempty d = true <-> dsize d <> 0.
  Proof. unfold Chain.nonempty. rewrite negb_true_iff, Nat.eqb_neq. tauto. Qed.
  Lemma nonempty_false d : nonempty d = false <-> dsize d = 0.
  Proof. unfold Chain.nonempty. rewrite negb_false_iff, Nat.eqb_eq. tauto. Qed.

  Lemma same_refl d : same_parms d d.
  Proof. left; reflexivity. Qed.

  Lemma Forall2_same_nil st : Forall (fun p : Nm * D => dsize (snd p) = 0) st ->
    Forall2 same_parms (repeat dnil (length st)) (map snd st).
  Proof.
    induction 1 as [|p st Hp Hst IH]; cbn; constructor; auto. right; auto.
  Qed.

  Lemma existsb_app_true {A} (f : A -> bool) l1 l2 : existsb f (l1 ++ l2) = existsb f l1 || existsb f l2.
  Proof. apply existsb_app. Qed.

  Lemma inv_step st s n d : inv st s -> inv (st ++ [(n, d)]) (append_filter s n d).
  Proof.
    intros H. destruct H as [|n0 d0 H0|n0 d0 H0|st Hlen Hall|st l Hlen Hl Hex];
      unfold Chain.append_filter; cbn [s_filter s_parms app].
    - (* first filter *)
      destruct (nonempty d) eqn:E.
      + apply inv1b. apply nonempty_true, E.
      + apply inv1a. apply nonempty_false, E.
    - (* second filter, first one had no parameters *)
      rewrite dnil_size. cbn [Nat.add].
      destruct (Nat.ltb 0 (dsize d)) eqn:E.
      + apply Nat.ltb_lt in E.
        apply (inv2b [(n0, d0); (n, d)] [dnil; d]); cbn; try lia.
        * constructor; [right; auto|constructor; [left; auto|constructor]].
        * replace (nonempty d) with true by (symmetry; apply nonempty_true; lia). apply orb_true_r.
      + apply Nat.ltb_ge in E.
        apply (inv2a [(n0, d0); (n, d)]); cbn; try lia.
        constructor; [assumption|constructor; [cbn; lia|constructor]].
    - (* second filter, first one had parameters *)
      replace (Nat.ltb 0 (dsize d0 + dsize d)) with true by (symmetry; apply Nat.ltb_lt; lia).
      apply (inv2b [(n0, d0); (n, d)] [d0; d]); cbn; try lia.
      + constructor; [left; auto|constructor; [left; auto|constructor]].
      + replace (nonempty d0) with true by (symmetry; apply nonempty_true; assumption). reflexivity.
    - (* third or later filter, no parameters so far *)
      cbn [existsb]. rewrite orb_false_r. rewrite <- map_app with (l' := [(n, d)]) (f := fst).
      destruct (nonempty d) eqn:E.
      + cbn [app length]. rewrite Nat.sub_0_r, firstn_all2 by (rewrite repeat_length; lia).
        apply inv2b.
        * rewrite app_length; cbn; lia.
        * rewrite map_app. apply Forall2_app; [|constructor; [left; auto|constructor]].
          rewrite map_length. apply Forall2_same_nil, Hall.
        * rewrite existsb_app. cbn. rewrite E. rewrite orb_true_r. reflexivity.
      + apply inv2a.
        * rewrite app_length; cbn; lia.
        * apply Forall_app. split; [assumption|]. constructor; [apply nonempty_false, E|constructor].
    - (* third or later filter, parameter array present *)
      rewrite Hex, orb_true_r. rewrite <- map_app with (l' := [(n, d)]) (f := fst).
      assert (Hll : length l = length (map fst st)).
      { apply Forall2_len in Hl. rewrite Hl, !map_length. reflexivity. }
      rewrite Hll, Nat.sub_diag. cbn [repeat]. rewrite app_nil_r, <- Hll, firstn_all.
      apply inv2b.
      + rewrite app_length; cbn; lia.
      + rewrite map_app. apply Forall2_app; [assumption|constructor; [left; auto|constructor]].
      + rewrite existsb_app, Hex. reflexivity.
  Qed.

  Lemma inv_open : forall st, inv st (open_stream_dict st).
  Proof.
    unfold Chain.open_stream_dict.
    assert (H : forall st2 st1 s, inv st1 s ->
      inv (st1 ++ st2) (fold_left (fun s st => append_filter s (fst st) (snd st)) st2 s)).
    { induction st2 as [|[n d] st2 IH]; intros st1 s Hs; cbn [fold_left].
      - rewrite app_nil_r. assumption.
      - replace (st1 ++ (n, d) :: st2) with ((st1 ++ [(n, d)]) ++ st2) by (rewrite <- app_assoc; reflexivity).
        apply IH. cbn [fst snd]. apply inv_step, Hs. }
    intros st. apply (H st [] _ inv0).
  Qed.

  Lemma combine_nth_seq : forall (fl : list Nm) (l pre : list D), length l = length fl ->
    map (fun ni : Nm * nat => (fst ni, nth (snd ni) (pre ++ l) dnil)) (combine fl (seq (length pre) (length fl)))
    = combine fl l.
  Proof.
    induction fl as [|f fl IH]; intros l pre Hlen; [reflexivity|].
    destruct l as [|d l]; cbn [length] in Hlen; [lia|].
    cbn [length seq combine map fst snd]. f_equal.
    - f_equal. rewrite app_nth2 by lia. rewrite Nat.sub_diag. reflexivity.
    - specialize (IH l (pre ++ [d])). rewrite app_length in IH. cbn [length] in IH.
      rewrite Nat.add_1_r in IH. rewrite <- app_assoc in IH. cbn [app] in IH. apply IH. lia.
  Qed.

  Lemma inv_get st s : inv st s -> length st <= max_filter_chain ->
    exists l', get_filters s = Ok l' /\ map fst l' = map fst st /\ Forall2 same_parms (map snd l') (map snd st).
  Proof.
    intros H Hmax. destruct H as [|n d H0|n d H0|st Hlen Hall|st l Hlen Hl Hex];
      unfold Chain.get_filters; cbn [s_filter s_parms].
    - exists []. repeat split; constructor.
    - exists [(n, dnil)]. repeat split. cbn. constructor; [right; auto|constructor].
    - exists [(n, d)]. repeat split. cbn. constructor; [left; auto|constructor].
    - rewrite map_length. replace (Nat.ltb max_filter_chain (length st)) with false by (symmetry; apply Nat.ltb_ge; lia).
      exists (map (fun n => (n, dnil)) (map fst st)). split; [reflexivity|]. split.
      + rewrite !map_map. cbn [fst]. reflexivity.
      + rewrite !map_map. cbn [snd].
        replace (map (fun _ : Nm * D => dnil) st) with (repeat dnil (length st)).
        * apply Forall2_same_nil, Hall.
        * clear. induction st; cbn; f_equal; auto.
    - rewrite map_length. replace (Nat.ltb max_filter_chain (length st)) with false by (symmetry; apply Nat.ltb_ge; lia).
      assert (Hll : length l = length (map fst st)).
      { apply Forall2_len in Hl. rewrite Hl, !map_length. reflexivity. }
      pose proof (combine_nth_seq (map fst st) l [] Hll) as Hc. cbn [app length] in Hc.
      rewrite map_length in Hc. rewrite Hc.
      exists (combine (map fst st) l). split; [reflexivity|].
      rewrite map_fst_combine_eq, map_snd_combine_eq by (symmetry; exact Hll). split; [reflexivity|assumption].
  Qed.

  Theorem chain_align st : length st <= max_filter_chain ->
    exists l', get_filters (open_stream_dict st) = Ok l' /\ map fst l' = map fst st /\
               Forall2 same_parms (map snd l') (map snd st).
  Proof. intros H. apply inv_get; [apply inv_open|assumption]. Qed.

  Section Compose.
    Variable stage : Type.
    Variable info : stage -> Nm * D.          (* Filter.Info *)
    Variable mk : Nm -> D -> stage.           (* MakeFilter *)
    Variable enc : stage -> bytes -> bytes.
    Variable dec : stage -> bytes -> res bytes.
    Hypothesis mk_nil : forall n d, dsize d = 0 -> mk n d = mk n dnil.

    Definition remake (p : Nm * D) : stage := mk (fst p) (snd p).
    Definition stage_ok (s : stage) : Prop := forall x, dec (remake (info s)) (enc s x) = Ok x.

    Lemma remake_same : forall l' st, map fst l' = map fst st ->
      Forall2 same_parms (map snd l') (map snd st) -> map remake l' = map remake st.
    Proof.
      induction l' as [|[n' d'] l' IH]; intros [|[n d] st] Hf Hs; cbn in *; try discriminate; [reflexivity|].
      inversion Hf; subst. inversion Hs as [|? ? ? ? Hd Hrest]; subst. f_equal; [|apply IH; assumption].
      unfold remake; cbn [fst snd]. destruct Hd as [->|[Hz ->]]; [reflexivity|]. symmetry. apply mk_nil, Hz.
    Qed.

    Lemma dec_enc_all : forall ss, Forall stage_ok ss ->
      forall x, dec_all _ dec (map (fun s => remake (info s)) ss) (enc_all _ enc ss x) = Ok x.
    Proof.
      induction 1 as [|s ss Hs Hss IH]; intros x; cbn [map dec_all enc_all]; [reflexivity|].
      rewrite Hs. cbn [bind]. apply IH.
    Qed.

    Theorem chain_rt_proof ss : length ss <= max_filter_chain -> Forall stage_ok ss ->
      exists l', get_filters (open_stream_dict (map info ss)) = Ok l' /\
        map fst l' = map fst (map info ss) /\
        Forall2 same_parms (map snd l') (map snd (map info ss)) /\
        forall x, dec_all _ dec (map remake l') (enc_all _ enc ss x) = Ok x.
    Proof.
      intros Hlen Hok. destruct (chain_align (map info ss)) as (l' & Hg & Hf & Hs); [rewrite map_length; assumption|].
      exists l'. repeat (split; [assumption|]). intros x.
      rewrite (remake_same l' (map info ss) Hf Hs), map_map. apply dec_enc_all, Hok.
    Qed.
  End Compose.
End ChainP.
