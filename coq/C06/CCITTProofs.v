(* CCITTFax K = 0 (T.4 one-dimensional coding): runs, rows, images. *)
From Coq Require Import List NArith ZArith Bool Lia ZifyN ZifyNat ZifyBool Arith FMapPositive.
From GoPdf.Base Require Import Bytes Res.
From GoPdf.C06 Require Import Machine MachineProofs CCITT CCITTTables.
Import ListNotations.
Open Scope N_scope.


Local Transparent table_ok.

Lemma table_code white c l : In c (codes_of white) -> length l = window white ->
  is_prefix (fst c) l = true ->
  entry white l = (N.of_nat (length (fst c)), fst (snd c), snd (snd c)).
Proof.
  intros Hc Hl Hp. pose proof (table_ok_all white) as Ht.
  unfold table_ok in Ht. apply andb_true_iff in Ht as [Ht _]. rewrite forallb_forall in Ht.
  specialize (Ht l (all_bits_in _ l Hl)). apply andb_true_iff in Ht as [Ht _]. rewrite forallb_forall in Ht.
  specialize (Ht c Hc). rewrite Hp in Ht. cbn [negb orb] in Ht. unfold entry_is in Ht.
  destruct (entry white l) as [[w s] p]. apply andb_true_iff in Ht as [Ht Hpp]. apply andb_true_iff in Ht as [Hw Hs].
  apply N.eqb_eq in Hw, Hs, Hpp. subst. reflexivity.
Qed.

Lemma code_len white c : In c (codes_of white) ->
  (1 <= length (fst c))%nat /\ (length (fst c) <= window white)%nat.
Proof.
  intros Hc. pose proof (table_ok_all white) as Ht.
  unfold table_ok in Ht. apply andb_true_iff in Ht as [_ Ht]. rewrite forallb_forall in Ht.
  specialize (Ht c Hc). apply andb_true_iff in Ht as [H1 H2]. apply Nat.leb_le in H1, H2. split; assumption.
Qed.

Global Opaque table_ok.

Lemma is_prefix_app a t n : (length a <= n)%nat -> is_prefix a (firstn n (a ++ t)) = true.
Proof.
  revert n. induction a as [|x a IH]; intros n H; [reflexivity|].
  destruct n as [|n]; cbn [length] in H; [lia|]. cbn [app firstn is_prefix].
  rewrite eqb_reflx. apply IH. lia.
Qed.

(* ---- the bit reader ---- *)

(* [good r rb]: no error so far; the buffer is [rb] followed by [r_pad r] padding zeros, and padding
   only exists once the input is exhausted.  [real r rb]: the input bits still to come. *)
Definition good (r : g3r) (rb : list bool) : Prop :=
  r_err r = None /\ r_buf r = rb ++ repeat false (r_pad r) /\
  (r_eof r = false -> r_pad r = 0%nat) /\ (r_eof r = true -> r_rest r = []) /\ (r_pad r mod 8 = 0)%nat.

Definition real (r : g3r) (rb : list bool) : list bool := rb ++ flat_map bits8 (r_rest r).

Lemma bits8_length b : length (bits8 b) = 8%nat.
Proof. reflexivity. Qed.

Lemma fill_good : forall fuel n r rb, good r rb ->
  exists rb', good (fill fuel n r) rb' /\ real (fill fuel n r) rb' = real r rb /\
    ((n <= length (r_buf r) + 8 * fuel)%nat -> (n <= length (r_buf (fill fuel n r)))%nat).
Proof.
  induction fuel as [|fuel IH]; intros n r rb G; cbn [fill].
  - exists rb. split; [assumption|]. split; [reflexivity|]. lia.
  - destruct (Nat.ltb (length (r_buf r)) n) eqn:E.
    2:{ exists rb. split; [assumption|]. split; [reflexivity|]. apply Nat.ltb_ge in E. lia. }
    destruct G as (Ge & Gb & Gp & Gr & Gm). rewrite Ge.
    destruct (r_eof r) eqn:Eeof.
    + (* already at the end: more padding *)
      specialize (Gr eq_refl). rewrite Gr.
      destruct (IH n {| r_buf := r_buf r ++ repeat false 8; r_rest := []; r_err := None; r_eof := true;
                        r_pad := r_pad r + 8 |} rb) as (rb' & G' & R' & L').
      { unfold good; cbn [r_err r_buf r_eof r_pad r_rest]. split; [reflexivity|]. split.
        - rewrite Gb, <- app_assoc, <- repeat_app. reflexivity.
        - split; [discriminate|]. split; [reflexivity|]. rewrite Nat.add_comm, <- Nat.add_mod_idemp_r, Gm by lia. reflexivity. }
      exists rb'. split; [assumption|]. split.
      * rewrite R'. unfold real. cbn [r_rest]. rewrite Gr. reflexivity.
      * intros H. apply L'. cbn [r_buf]. rewrite app_length, repeat_length. lia.
    + specialize (Gp eq_refl). destruct (r_rest r) as [|b rest] eqn:Er.
      * destruct (IH n {| r_buf := r_buf r ++ repeat false 8; r_rest := []; r_err := None; r_eof := true;
                          r_pad := r_pad r + 8 |} rb) as (rb' & G' & R' & L').
        { unfold good; cbn [r_err r_buf r_eof r_pad r_rest]. split; [reflexivity|]. split.
          - rewrite Gb, <- app_assoc, <- repeat_app. reflexivity.
          - split; [discriminate|]. split; [reflexivity|]. rewrite Gp. reflexivity. }
        exists rb'. split; [assumption|]. split.
        -- rewrite R'. unfold real. cbn [r_rest]. rewrite Er. reflexivity.
        -- intros H. apply L'. cbn [r_buf]. rewrite app_length, repeat_length. lia.
      * destruct (IH n {| r_buf := r_buf r ++ bits8 b; r_rest := rest; r_err := None; r_eof := false;
                          r_pad := r_pad r |} (rb ++ bits8 b)) as (rb' & G' & R' & L').
        { unfold good; cbn [r_err r_buf r_eof r_pad r_rest]. split; [reflexivity|]. split.
          - rewrite Gb, Gp. cbn [repeat]. rewrite !app_nil_r. reflexivity.
          - split; [intros _; assumption|]. split; [discriminate|]. rewrite Gp. reflexivity. }
        exists rb'. split; [assumption|]. split.
        -- rewrite R'. unfold real. cbn [r_rest]. rewrite Er. cbn [flat_map]. rewrite <- app_assoc. reflexivity.
        -- intros H. apply L'. cbn [r_buf]. rewrite app_length, bits8_length. lia.
Qed.

Lemma firstn_pad (a : list bool) n p q : (n <= length a + p)%nat -> (n <= length a + q)%nat ->
  firstn n (a ++ repeat false p) = firstn n (a ++ repeat false q).
Proof.
  intros Hp Hq. rewrite !firstn_app. f_equal.
  assert (H : forall k m, (k <= m)%nat -> firstn k (repeat false m) = repeat false k).
  { induction k as [|k IHk]; intros [|m] Hk; cbn; try lia; try reflexivity. f_equal. apply IHk. lia. }
  rewrite !H by lia. reflexivity.
Qed.

(* what the reader sees next: the real bits, then zeros for ever *)
Lemma peek_good n r rb : good r rb -> (n <= 24)%nat ->
  exists rb', fst (peek n r) = num_of (firstn n (real r rb ++ repeat false n)) 0 /\
    good (snd (peek n r)) rb' /\ real (snd (peek n r)) rb' = real r rb.
Proof.
  intros G Hn. unfold peek. cbn [fst snd].
  destruct (fill_good 4 n r rb G) as (rb' & G' & R' & L'). specialize (L' ltac:(lia)).
  exists rb'. split; [|split; assumption]. f_equal. rewrite <- R'. unfold real.
  destruct G' as (Ge & Gb & Gp & Gr & Gm). rewrite Gb in *. rewrite app_length, repeat_length in L'.
  destruct (r_eof (fill 4 n r)) eqn:Eeof.
  - rewrite (Gr eq_refl). cbn [flat_map]. rewrite app_nil_r. apply firstn_pad; lia.
  - rewrite (Gp eq_refl) in *. cbn [repeat]. rewrite app_nil_r. rewrite Nat.add_0_r in L'.
    rewrite <- app_assoc. rewrite (firstn_app n rb'). replace (n - length rb')%nat with 0%nat by lia.
    cbn [firstn]. rewrite ?app_nil_r. reflexivity.
Qed.

Lemma consume_good n r rb : good r rb -> (n <= 24)%nat -> (n <= length (real r rb))%nat ->
  exists rb', good (consume n r) rb' /\ real (consume n r) rb' = skipn n (real r rb).
Proof.
  intros G Hn Hr. unfold consume.
  destruct (fill_good 4 n r rb G) as (rb' & G' & R' & L'). specialize (L' ltac:(lia)).
  rewrite <- R' in *. clear R'. set (r' := fill 4 n r) in *.
  destruct G' as (Ge & Gb & Gp & Gr & Gm). unfold real in *.
  assert (Hrb : (n <= length rb')%nat).
  { destruct (r_eof r') eqn:Eeof.
    - rewrite (Gr eq_refl) in Hr. cbn [flat_map] in Hr. rewrite app_nil_r in Hr. assumption.
    - rewrite (Gp eq_refl) in Gb. cbn [repeat] in Gb. rewrite app_nil_r in Gb. rewrite Gb in L'. assumption. }
  assert (Hsk : skipn n (r_buf r') = skipn n rb' ++ repeat false (r_pad r')).
  { rewrite Gb, skipn_app. replace (n - length rb')%nat with 0%nat by lia. reflexivity. }
  replace (Nat.ltb (length (skipn n (r_buf r'))) (r_pad r')) with false.
  2:{ symmetry. apply Nat.ltb_ge. rewrite Hsk, app_length, repeat_length. lia. }
  exists (skipn n rb'). split.
  - unfold good. cbn [r_err r_buf r_eof r_pad r_rest]. repeat split; assumption.
  - cbn [r_rest]. rewrite skipn_app. replace (n - length rb')%nat with 0%nat by lia. reflexivity.
Qed.

(* one code word *)
Lemma decode_run_code white c tail r rb :
  In c (codes_of white) -> good r rb -> real r rb = fst c ++ tail ->
  exists r' rb', decode_run white r = (snd (snd c), fst (snd c), r') /\ good r' rb' /\ real r' rb' = tail.
Proof.
  intros Hc G Hs. destruct (code_len white c Hc) as [L1 L2].
  unfold decode_run.
  assert (Hw : (window white <= 24)%nat) by (destruct white; cbn; lia).
  destruct (peek_good (window white) r rb G Hw) as (rb1 & Pv & G1 & R1).
  change (if white then 12%nat else 13%nat) with (window white).
  destruct (peek (window white) r) as [v r1]. cbn [fst snd] in *.
  pose proof (table_code white c (firstn (window white) (real r rb ++ repeat false (window white))) Hc) as Ht.
  rewrite firstn_length_le in Ht by (rewrite app_length, repeat_length; lia). specialize (Ht eq_refl).
  rewrite Hs, <- app_assoc in Ht. specialize (Ht (is_prefix_app _ _ _ L2)).
  unfold entry in Ht. rewrite Hs, <- app_assoc in Pv. rewrite <- Pv in Ht.
  assert (Hent : (if white then tget whiteW v else tget blackW v) = N.of_nat (length (fst c)) /\
                 (if white then tget whiteS v else tget blackS v) = fst (snd c) /\
                 (if white then tget whiteP v else tget blackP v) = snd (snd c)).
  { destruct white; apply pair_equal_spec in Ht as [Ht1 Ht3]; apply pair_equal_spec in Ht1 as [Ht1 Ht2]; auto. }
  destruct Hent as (E1 & E2 & E3). rewrite E1, E2, E3.
  replace (N.of_nat (length (fst c)) =? 0) with false by lia.
  rewrite Nat2N.id.
  destruct (consume_good (length (fst c)) r1 rb1 G1 ltac:(lia)) as (rb2 & G2 & R2).
  { rewrite R1, Hs, app_length. lia. }
  exists (consume (length (fst c)) r1), rb2. split; [reflexivity|]. split; [assumption|].
  rewrite R2, R1, Hs. rewrite skipn_app, skipn_all, Nat.sub_diag. reflexivity.
Qed.

Lemma wait_for_one_good : forall j fuel r rb tail, good r rb ->
  real r rb = repeat false j ++ true :: tail -> (j < fuel)%nat ->
  exists rb', good (wait_for_one fuel r) rb' /\ real (wait_for_one fuel r) rb' = tail.
Proof.
  induction j as [|j IH]; intros fuel r rb tail G Hs Hf; (destruct fuel as [|fuel]; [lia|]); cbn [wait_for_one];
    rewrite (proj1 G);
    destruct (peek_good 1 r rb G ltac:(lia)) as (rb1 & Pv & G1 & R1);
    destruct (peek 1 r) as [v r1]; cbn [fst snd] in *;
    (destruct (consume_good 1 r1 rb1 G1 ltac:(lia)) as (rb2 & G2 & R2); [rewrite R1, Hs; cbn; lia|]);
    rewrite R1, Hs in R2; rewrite Hs in Pv; cbn [repeat app firstn num_of] in Pv.
  - subst v. cbn. exists rb2. split; [assumption|]. rewrite R2. reflexivity.
  - subst v. cbn [N.eqb N.mul N.add]. apply (IH fuel _ rb2 tail G2); [|lia]. rewrite R2. reflexivity.
Qed.

(* ---- codes of the tables ---- *)

Lemma nrange_in n k : (N.to_nat k < n)%nat -> In k (nrange n).
Proof. intros H. unfold nrange. apply in_map_iff. exists (N.to_nat k). split; [lia|]. apply in_seq. lia. Qed.

Lemma term_in white n : n < 64 ->
  In (term_bits white n, (if white then st_termw else st_termb, n)) (codes_of white).
Proof.
  intros H. unfold codes_of. apply in_or_app. left.
  apply (in_map (fun n => (term_bits white n, (if white then st_termw else st_termb, n)))). apply nrange_in. lia.
Qed.

Lemma makeup_in white i : i < 27 ->
  In (makeup_bits white i, (if white then st_makeupw else st_makeupb, 64 * (i + 1))) (codes_of white).
Proof.
  intros H. unfold codes_of. apply in_or_app. right. apply in_or_app. left.
  apply (in_map (fun i => (makeup_bits white i, (if white then st_makeupw else st_makeupb, 64 * (i + 1))))).
  apply nrange_in. lia.
Qed.

Lemma ext_in white i : i < 13 -> In (ext_bits i, (st_makeup, 1792 + 64 * i)) (codes_of white).
Proof.
  intros H. unfold codes_of. apply in_or_app. right. apply in_or_app. right. apply in_or_app. left.
  apply (in_map (fun i => (ext_bits i, (st_makeup, 1792 + 64 * i)))). apply nrange_in. lia.
Qed.

Lemma eol_in white : In (repeat false 11, (st_eol, 0)) (codes_of white).
Proof. unfold codes_of. apply in_or_app. right. apply in_or_app. right. apply in_or_app. right. left. reflexivity. Qed.

(* ---- the line decoder, one code at a time ---- *)

Definition pix (p : g3p) (white : bool) : bool := negb (Bool.eqb white (g_blackis1 p)).

Lemma repeat_add {A} (x : A) a b l : repeat x a ++ repeat x b ++ l = repeat x (b + a) ++ l.
Proof. rewrite app_assoc, <- repeat_app. f_equal. rewrite Nat.add_comm. reflexivity. Qed.

Lemma line_code p white c tail r rb xpos ne pending line :
  In c (codes_of white) -> good r rb -> real r rb = fst c ++ tail ->
  (xpos < g_cols p \/ pending = true) -> xpos + snd (snd c) <= g_cols p ->
  fst (snd c) <> st_eol ->
  exists r' rb', good r' rb' /\ real r' rb' = tail /\
    forall f, g3_line (S f) p xpos white ne pending line r =
    g3_line f p (xpos + snd (snd c))
      (if fst (snd c) =? st_termw then false else if fst (snd c) =? st_termb then true else white) ne
      ((fst (snd c) =? st_makeupw) || (fst (snd c) =? st_makeupb) || (fst (snd c) =? st_makeup))
      (repeat (pix p white) (N.to_nat (snd (snd c))) ++ line) r'.
Proof.
  intros Hc G Hs Hcont Hx Hne.
  destruct (decode_run_code white c tail r rb Hc G Hs) as (r' & rb' & Hd & G' & R').
  exists r', rb'. split; [assumption|]. split; [assumption|]. intros f.
  cbn [g3_line]. rewrite (proj1 G).
  replace ((xpos <? g_cols p) || pending) with true
    by (symmetry; destruct Hcont as [H|H]; [lia|rewrite H; apply orb_true_r]).
  cbn [andb]. rewrite Hd.
  replace (N.min (snd (snd c)) (g_cols p - xpos)) with (snd (snd c)) by lia.
  replace (fst (snd c) =? st_eol) with false by lia.
  fold (pix p white).
  destruct (fst (snd c) =? st_termw); [reflexivity|]. destruct (fst (snd c) =? st_termb); reflexivity.
Qed.

Lemma st_values : st_eol = 10 /\ st_termw = 5 /\ st_termb = 6 /\ st_makeupw = 7 /\ st_makeupb = 8 /\ st_makeup = 9.
Proof. repeat split; reflexivity. Qed.

Lemma rep_bits_length k l : length (rep_bits k l) = (k * length l)%nat.
Proof. induction k as [|k IH]; cbn [rep_bits]; [reflexivity|]. rewrite app_length, IH. lia. Qed.

(* make-up codes: the colour stays, the terminating code is still due *)
Lemma line_makeup p white c tail r rb xpos ne pending line :
  In c (codes_of white) -> good r rb -> real r rb = fst c ++ tail ->
  (xpos < g_cols p \/ pending = true) -> xpos + snd (snd c) <= g_cols p ->
  (fst (snd c) = st_makeupw \/ fst (snd c) = st_makeupb \/ fst (snd c) = st_makeup) ->
  exists r' rb', good r' rb' /\ real r' rb' = tail /\
    forall f, g3_line (S f) p xpos white ne pending line r =
    g3_line f p (xpos + snd (snd c)) white ne true (repeat (pix p white) (N.to_nat (snd (snd c))) ++ line) r'.
Proof.
  intros Hc G Hs Hcont Hx Hst. destruct st_values as (V1 & V2 & V3 & V4 & V5 & V6).
  destruct (line_code p white c tail r rb xpos ne pending line Hc G Hs Hcont Hx) as (r' & rb' & G' & R' & E).
  { rewrite V1. lia. }
  exists r', rb'. split; [assumption|]. split; [assumption|]. intros f. rewrite E.
  replace (fst (snd c) =? st_termw) with false by lia. replace (fst (snd c) =? st_termb) with false by lia.
  replace ((fst (snd c) =? st_makeupw) || (fst (snd c) =? st_makeupb) || (fst (snd c) =? st_makeup)) with true by lia.
  reflexivity.
Qed.

Lemma line_term p white n tail r rb xpos ne pending line :
  n < 64 -> good r rb -> real r rb = term_bits white n ++ tail ->
  (xpos < g_cols p \/ pending = true) -> xpos + n <= g_cols p ->
  exists r' rb', good r' rb' /\ real r' rb' = tail /\
    forall f, g3_line (S f) p xpos white ne pending line r =
    g3_line f p (xpos + n) (negb white) ne false (repeat (pix p white) (N.to_nat n) ++ line) r'.
Proof.
  intros Hn G Hs Hcont Hx. destruct st_values as (V1 & V2 & V3 & V4 & V5 & V6).
  destruct (line_code p white _ tail r rb xpos ne pending line (term_in white n Hn) G Hs Hcont Hx) as (r' & rb' & G' & R' & E).
  { cbn [fst snd]. destruct white; lia. }
  exists r', rb'. split; [assumption|]. split; [assumption|]. intros f. rewrite E. cbn [fst snd].
  destruct white.
  - replace (st_termw =? st_termw) with true by lia.
    replace ((st_termw =? st_makeupw) || (st_termw =? st_makeupb) || (st_termw =? st_makeup)) with false by lia. reflexivity.
  - replace (st_termb =? st_termw) with false by lia. replace (st_termb =? st_termb) with true by lia.
    replace ((st_termb =? st_makeupw) || (st_termb =? st_makeupb) || (st_termb =? st_makeup)) with false by lia. reflexivity.
Qed.

(* the 2560 make-up codes of a very long run *)
Lemma line_big p white : forall k tail r rb xpos ne pending line,
  good r rb -> real r rb = rep_bits k (ext_bits 12) ++ tail ->
  (xpos < g_cols p \/ pending = true) -> xpos + 2560 * N.of_nat k <= g_cols p ->
  exists r' rb', good r' rb' /\ real r' rb' = tail /\
    forall f, g3_line (k + f) p xpos white ne pending line r =
      g3_line f p (xpos + 2560 * N.of_nat k) white ne (match k with O => pending | _ => true end)
        (repeat (pix p white) (N.to_nat (2560 * N.of_nat k)) ++ line) r'.
Proof.
  induction k as [|k IH]; intros tail r rb xpos ne pending line G Hs Hcont Hx.
  - exists r, rb. split; [assumption|]. split; [exact Hs|]. intros f. cbn [Nat.add].
    replace (xpos + 2560 * N.of_nat 0) with xpos by lia. reflexivity.
  - cbn [rep_bits] in Hs. rewrite <- app_assoc in Hs.
    destruct (line_makeup p white _ _ r rb xpos ne pending line (ext_in white 12 ltac:(lia)) G Hs Hcont) as (r1 & rb1 & G1 & R1 & E1).
    { cbn [fst snd]. lia. } { right; right; reflexivity. }
    cbn [fst snd] in *.
    destruct (IH tail r1 rb1 (xpos + (1792 + 64 * 12)) ne true
                 (repeat (pix p white) (N.to_nat (1792 + 64 * 12)) ++ line) G1 R1 (or_intror eq_refl)) as (r2 & rb2 & G2 & R2 & E2).
    { lia. }
    exists r2, rb2. split; [assumption|]. split; [assumption|]. intros f.
    cbn [Nat.add]. rewrite E1, E2. rewrite repeat_add.
    replace (xpos + (1792 + 64 * 12) + 2560 * N.of_nat k) with (xpos + 2560 * N.of_nat (S k)) by lia.
    match goal with |- context [repeat _ ?n ++ line] =>
      replace n with (N.to_nat (2560 * N.of_nat (S k))) by lia end.
    destruct k; reflexivity.
Qed.

(* one run: [2560]* [1792..2496] [64..1728] terminating code *)
Lemma line_run p white n tail r rb xpos ne pending line :
  good r rb -> real r rb = run_bits white n ++ tail ->
  (xpos < g_cols p \/ pending = true) -> xpos + n <= g_cols p ->
  exists m r' rb', (m <= length (run_bits white n))%nat /\ good r' rb' /\ real r' rb' = tail /\
    forall f, g3_line (m + f) p xpos white ne pending line r =
      g3_line f p (xpos + n) (negb white) ne false (repeat (pix p white) (N.to_nat n) ++ line) r'.
Proof.
  intros G Hs Hcont Hx. unfold run_bits in *.
  set (k := N.to_nat (n / 2560)) in *. set (n1 := n mod 2560) in *.
  assert (Hn : n = 2560 * N.of_nat k + n1) by (subst k n1; pose proof (N.div_mod n 2560); lia).
  assert (Hn1 : n1 < 2560) by (subst n1; apply N.mod_lt; discriminate).
  clearbody k n1.
  pose proof (proj1 (code_len white _ (ext_in white 12 ltac:(lia)))) as Lbig. cbn [fst] in Lbig.
  destruct (1792 <=? n1) eqn:E1.
  - (* extended make-up code, then the terminating code *)
    set (i := (n1 - 1792) / 64) in *.
    assert (Hi : i < 13) by (subst i; apply N.div_lt_upper_bound; lia).
    assert (Hi2 : 64 * i <= n1 - 1792 < 64 * i + 64) by (subst i; pose proof (N.div_mod (n1 - 1792) 64); pose proof (N.mod_lt (n1 - 1792) 64); lia).
    clearbody i.
    replace (64 <=? n1 - (i + 28) * 64) with false in * by lia. cbn [app] in *.
    rewrite <- !app_assoc in Hs.
    destruct (line_big p white k _ r rb xpos ne pending line G Hs Hcont ltac:(lia)) as (r1 & rb1 & G1 & R1 & F1).
    assert (Hc1 : xpos + 2560 * N.of_nat k < g_cols p \/ (match k with O => pending | _ => true end) = true).
    { destruct k; [destruct Hcont; [left; lia|right; assumption]|right; reflexivity]. }
    destruct (line_makeup p white _ _ r1 rb1 (xpos + 2560 * N.of_nat k) ne (match k with O => pending | _ => true end) (repeat (pix p white) (N.to_nat (2560 * N.of_nat k)) ++ line) (ext_in white i Hi) G1 R1 Hc1) as (r2 & rb2 & G2 & R2 & F2).
    { cbn [fst snd]. lia. } { right; right; reflexivity. }
    cbn [fst snd] in *.
    destruct (line_term p white (n1 - (i + 28) * 64) tail r2 rb2 (xpos + 2560 * N.of_nat k + (1792 + 64 * i)) ne true (repeat (pix p white) (N.to_nat (1792 + 64 * i)) ++ repeat (pix p white) (N.to_nat (2560 * N.of_nat k)) ++ line) ltac:(lia) G2 R2 (or_intror eq_refl)) as (r3 & rb3 & G3 & R3 & F3).
    { lia. }
    pose proof (proj1 (code_len white _ (ext_in white i Hi))) as L2. cbn [fst] in L2.
    pose proof (proj1 (code_len white _ (term_in white (n1 - (i + 28) * 64) ltac:(lia)))) as L3. cbn [fst] in L3.
    exists (k + 2)%nat, r3, rb3. split; [|split; [assumption|split; [assumption|]]].
    + rewrite !app_length, rep_bits_length. nia.
    + intros f. replace (k + 2 + f)%nat with (k + S (S f))%nat by lia. rewrite F1, F2, F3.
      rewrite !repeat_add.
      replace (xpos + 2560 * N.of_nat k + (1792 + 64 * i) + (n1 - (i + 28) * 64)) with (xpos + n) by lia.
      match goal with |- context [repeat _ ?a ++ line] => replace a with (N.to_nat n) by lia end. reflexivity.
  - cbn [app] in *.
    destruct (64 <=? n1) eqn:E2.
    + (* make-up code, then the terminating code *)
      set (i := n1 / 64 - 1) in *.
      assert (Hq : 64 * (n1 / 64) <= n1 < 64 * (n1 / 64) + 64) by (pose proof (N.div_mod n1 64); pose proof (N.mod_lt n1 64); lia).
      assert (Hi : i < 27) by (subst i; assert (n1 / 64 < 28) by (apply N.div_lt_upper_bound; lia); lia).
      assert (Hi2 : 64 * (i + 1) = 64 * (n1 / 64)) by (subst i; lia).
      assert (Hm : n1 mod 64 = n1 - 64 * (n1 / 64)) by (pose proof (N.div_mod n1 64); lia).
      clearbody i. rewrite <- !app_assoc in Hs.
      destruct (line_big p white k _ r rb xpos ne pending line G Hs Hcont ltac:(lia)) as (r1 & rb1 & G1 & R1 & F1).
      assert (Hc1 : xpos + 2560 * N.of_nat k < g_cols p \/ (match k with O => pending | _ => true end) = true).
      { destruct k; [destruct Hcont; [left; lia|right; assumption]|right; reflexivity]. }
      destruct (line_makeup p white _ _ r1 rb1 (xpos + 2560 * N.of_nat k) ne (match k with O => pending | _ => true end) (repeat (pix p white) (N.to_nat (2560 * N.of_nat k)) ++ line) (makeup_in white i Hi) G1 R1 Hc1) as (r2 & rb2 & G2 & R2 & F2).
      { cbn [fst snd]. lia. } { cbn [fst snd]. destruct white; [left|right; left]; reflexivity. }
      cbn [fst snd] in *.
      destruct (line_term p white (n1 mod 64) tail r2 rb2 (xpos + 2560 * N.of_nat k + 64 * (i + 1)) ne true (repeat (pix p white) (N.to_nat (64 * (i + 1))) ++ repeat (pix p white) (N.to_nat (2560 * N.of_nat k)) ++ line) ltac:(lia) G2 R2 (or_intror eq_refl)) as (r3 & rb3 & G3 & R3 & F3).
      { lia. }
      pose proof (proj1 (code_len white _ (makeup_in white i Hi))) as L2. cbn [fst] in L2.
      pose proof (proj1 (code_len white _ (term_in white (n1 mod 64) ltac:(lia)))) as L3. cbn [fst] in L3.
      exists (k + 2)%nat, r3, rb3. split; [|split; [assumption|split; [assumption|]]].
      * rewrite !app_length, rep_bits_length. nia.
      * intros f. replace (k + 2 + f)%nat with (k + S (S f))%nat by lia. rewrite F1, F2, F3.
        rewrite !repeat_add.
        replace (xpos + 2560 * N.of_nat k + 64 * (i + 1) + n1 mod 64) with (xpos + n) by lia.
        match goal with |- context [repeat _ ?a ++ line] => replace a with (N.to_nat n) by lia end. reflexivity.
    + (* terminating code only *)
      cbn [app] in Hs. rewrite <- !app_assoc in Hs.
      destruct (line_big p white k _ r rb xpos ne pending line G Hs Hcont ltac:(lia)) as (r1 & rb1 & G1 & R1 & F1).
      assert (Hc1 : xpos + 2560 * N.of_nat k < g_cols p \/ (match k with O => pending | _ => true end) = true).
      { destruct k; [destruct Hcont; [left; lia|right; assumption]|right; reflexivity]. }
      destruct (line_term p white n1 tail r1 rb1 (xpos + 2560 * N.of_nat k) ne (match k with O => pending | _ => true end) (repeat (pix p white) (N.to_nat (2560 * N.of_nat k)) ++ line) ltac:(lia) G1 R1 Hc1) as (r3 & rb3 & G3 & R3 & F3).
      { lia. }
      pose proof (proj1 (code_len white _ (term_in white n1 ltac:(lia)))) as L3. cbn [fst] in L3.
      exists (k + 1)%nat, r3, rb3. split; [|split; [assumption|split; [assumption|]]].
      * rewrite !app_length, rep_bits_length. nia.
      * intros f. replace (k + 1 + f)%nat with (k + S f)%nat by lia. rewrite F1, F3.
        rewrite !repeat_add.
        replace (xpos + 2560 * N.of_nat k + n1) with (xpos + n) by lia.
        match goal with |- context [repeat _ ?a ++ line] => replace a with (N.to_nat n) by lia end. reflexivity.
Qed.

(* ---- a whole line ---- *)

Fixpoint unruns (white : bool) (rs : list N) : list bool :=
  match rs with
  | [] => []
  | n :: r => repeat white (N.to_nat n) ++ unruns (negb white) r
  end.

Fixpoint paint (p : g3p) (white : bool) (rs : list N) (line : list bool) : list bool :=
  match rs with
  | [] => line
  | n :: r => paint p (negb white) r (repeat (pix p white) (N.to_nat n) ++ line)
  end.

Fixpoint nsum (rs : list N) : N := match rs with [] => 0 | n :: r => n + nsum r end.

Lemma repeat_mid {A} (x : A) k l : repeat x k ++ x :: l = x :: repeat x k ++ l.
Proof. induction k as [|k IH]; [reflexivity|]. cbn [repeat app]. rewrite IH. reflexivity. Qed.

Lemma unruns_runs_of : forall px cur n, unruns cur (runs_of cur n px) = repeat cur (N.to_nat n) ++ px.
Proof.
  induction px as [|b px IH]; intros cur n; cbn [runs_of].
  - cbn [unruns]. reflexivity.
  - destruct (Bool.eqb b cur) eqn:E.
    + apply eqb_prop in E. subst b. rewrite IH. replace (N.to_nat (n + 1)) with (S (N.to_nat n)) by lia.
      cbn [repeat app]. rewrite repeat_mid. reflexivity.
    + cbn [unruns]. rewrite IH. change (N.to_nat 1) with 1%nat. cbn [repeat app].
      assert (b = negb cur) by (destruct b, cur; cbn in E; try discriminate; reflexivity). subst b. reflexivity.
Qed.

Lemma runs_of_pos : forall px cur n, 1 <= n -> Forall (fun k => 1 <= k) (runs_of cur n px).
Proof.
  induction px as [|b px IH]; intros cur n Hn; cbn [runs_of]; [constructor; [assumption|constructor]|].
  destruct (Bool.eqb b cur); [apply IH; lia|constructor; [assumption|apply IH; lia]].
Qed.

Lemma runs_of_tl_pos : forall px cur n, Forall (fun k => 1 <= k) (tl (runs_of cur n px)).
Proof.
  induction px as [|b px IH]; intros cur n; cbn [runs_of]; [constructor|].
  destruct (Bool.eqb b cur); [apply IH|cbn [tl]; apply runs_of_pos; lia].
Qed.

Lemma runs_of_sum : forall px cur n, nsum (runs_of cur n px) = n + N.of_nat (length px).
Proof.
  induction px as [|b px IH]; intros cur n; cbn [runs_of nsum length]; [lia|].
  destruct (Bool.eqb b cur); [rewrite IH; lia|cbn [nsum]; rewrite IH; lia].
Qed.

Lemma runs_of_nonempty px cur n : runs_of cur n px <> [].
Proof. revert cur n. induction px as [|b px IH]; intros cur n; cbn [runs_of]; [discriminate|]. destruct (Bool.eqb b cur); [apply IH|discriminate]. Qed.

Lemma paint_unruns p : forall rs white line,
  paint p white rs line = rev (map (pix p) (unruns white rs)) ++ line.
Proof.
  induction rs as [|n rs IH]; intros white line; cbn [paint unruns]; [reflexivity|].
  rewrite IH, map_app, rev_app_distr, <- app_assoc. f_equal. f_equal.
  clear. induction (N.to_nat n) as [|k IHk]; [reflexivity|].
  cbn [repeat map rev]. rewrite <- IHk. apply repeat_cons.
Qed.


Lemma line_done p f ne line r : g3_line f p (g_cols p) true ne false line r = (line, r) /\
  g3_line f p (g_cols p) false ne false line r = (line, r).
Proof.
  destruct f as [|f]; [split; reflexivity|]. cbn [g3_line].
  replace (g_cols p <? g_cols p) with false by lia. cbn [orb andb]. split; reflexivity.
Qed.

Lemma line_runs p : forall rs white tail r rb xpos ne line,
  good r rb -> real r rb = runs_bits white rs ++ tail -> rs <> [] ->
  xpos < g_cols p -> xpos + nsum rs = g_cols p -> Forall (fun k => 1 <= k) (tl rs) ->
  exists m r' rb', (m <= length (runs_bits white rs))%nat /\ good r' rb' /\ real r' rb' = tail /\
    forall f, g3_line (m + f) p xpos white ne false line r = (paint p white rs line, r').
Proof.
  induction rs as [|n rs IH]; intros white tail r rb xpos ne line G Hs Hne Hx Hsum Htl; [congruence|].
  cbn [runs_bits nsum tl] in *. rewrite <- app_assoc in Hs.
  destruct (line_run p white n _ r rb xpos ne false line G Hs (or_introl Hx) ltac:(lia)) as (m1 & r1 & rb1 & L1 & G1 & R1 & F1).
  destruct rs as [|n2 rs].
  - cbn [runs_bits app nsum] in *. exists m1, r1, rb1. split; [rewrite app_nil_r; assumption|].
    split; [assumption|]. split; [assumption|]. intros f. rewrite F1. cbn [paint].
    replace (xpos + n) with (g_cols p) by lia. destruct (line_done p f ne (repeat (pix p white) (N.to_nat n) ++ line) r1) as [D1 D2].
    destruct white; cbn [negb]; assumption.
  - pose proof (Forall_inv Htl) as Hn2. cbn beta in Hn2.
    destruct (IH (negb white) tail r1 rb1 (xpos + n) ne (repeat (pix p white) (N.to_nat n) ++ line) G1 R1 ltac:(discriminate)) as (m2 & r2 & rb2 & L2 & G2 & R2 & F2).
    { cbn [nsum] in Hsum. lia. } { cbn [nsum] in *. lia. } { exact (Forall_inv_tail Htl). }
    exists (m1 + m2)%nat, r2, rb2. split; [rewrite app_length; lia|]. split; [assumption|]. split; [assumption|].
    intros f. rewrite <- Nat.add_assoc, F1, F2. reflexivity.
Qed.

(* an EOL code at the start of a line *)
Lemma line_eol p tail r rb ne :
  0 < g_cols p -> good r rb -> real r rb = eol_bits ++ tail ->
  exists r' rb', good r' rb' /\ real r' rb' = tail /\
    forall f, g3_line (S f) p 0 true ne false [] r =
      if negb (g_ignore_eob p) && Nat.leb 6 (S ne) then ([], set_err r' EOF)
      else g3_line f p 0 true (S ne) false [] r'.
Proof.
  intros Hcols G Hs. destruct st_values as (V1 & V2 & V3 & V4 & V5 & V6).
  unfold eol_bits in Hs. rewrite <- app_assoc in Hs.
  destruct (decode_run_code true _ _ r rb (eol_in true) G Hs) as (r1 & rb1 & Hd & G1 & R1).
  cbn [fst snd app] in *.
  destruct (wait_for_one_good 0 (S (bits_left r1)) r1 rb1 tail G1 R1 ltac:(lia)) as (rb2 & G2 & R2).
  exists (wait_for_one (S (bits_left r1)) r1), rb2. split; [assumption|]. split; [assumption|]. intros f.
  cbn [g3_line]. rewrite (proj1 G).
  replace ((0 <? g_cols p) || false) with (0 <? g_cols p) by (destruct (0 <? g_cols p); reflexivity).
  replace (0 <? g_cols p) with true by lia.
  cbn [andb]. rewrite Hd.
  replace (N.min 0 (g_cols p - 0)) with 0 by lia. cbn [N.to_nat repeat app].
  replace (st_eol =? st_eol) with true by lia.
  replace ((st_eol =? st_makeupw) || (st_eol =? st_makeupb) || (st_eol =? st_makeup)) with false by lia.
  replace (0 + 0 =? 0) with true by reflexivity. reflexivity.
Qed.

(* return to control: six EOL codes end the data *)
Lemma line_rtc p tail r rb :
  0 < g_cols p -> g_ignore_eob p = false -> good r rb -> real r rb = rep_bits 6 eol_bits ++ tail ->
  forall f, exists r', g3_line (6 + f) p 0 true 0 false [] r = ([], r') /\ r_err r' = Some EOF.
Proof.
  intros Hc Hi G Hs f. cbn [rep_bits] in Hs. rewrite <- !app_assoc in Hs. cbn [app] in Hs.
  destruct (line_eol p _ r rb 0 Hc G Hs) as (r1 & rb1 & G1 & R1 & F1).
  destruct (line_eol p _ r1 rb1 1 Hc G1 R1) as (r2 & rb2 & G2 & R2 & F2).
  destruct (line_eol p _ r2 rb2 2 Hc G2 R2) as (r3 & rb3 & G3 & R3 & F3).
  destruct (line_eol p _ r3 rb3 3 Hc G3 R3) as (r4 & rb4 & G4 & R4 & F4).
  destruct (line_eol p _ r4 rb4 4 Hc G4 R4) as (r5 & rb5 & G5 & R5 & F5).
  rewrite ?app_nil_r in R5.
  destruct (line_eol p _ r5 rb5 5 Hc G5 R5) as (r6 & rb6 & G6 & R6 & F6).
  exists (set_err r6 EOF). split; [|reflexivity].
  change (6 + f)%nat with (S (S (S (S (S (S f)))))). rewrite F1, F2, F3, F4, F5, F6, Hi. reflexivity.
Qed.

(* consuming more than is there ends the data *)
Lemma consume_past n r rb : good r rb -> (n <= 24)%nat -> (length (real r rb) < n)%nat ->
  r_err (consume n r) = Some EOF.
Proof.
  intros G Hn Hr. unfold consume.
  destruct (fill_good 4 n r rb G) as (rb' & G' & R' & L'). specialize (L' ltac:(lia)).
  rewrite <- R' in *. clear R'. set (r' := fill 4 n r) in *.
  destruct G' as (Ge & Gb & Gp & Gr & Gm). unfold real in *.
  destruct (r_eof r') eqn:Eeof.
  - rewrite (Gr eq_refl) in Hr. cbn [flat_map] in Hr. rewrite app_nil_r in Hr.
    rewrite Gb in *. rewrite app_length, repeat_length in L'.
    replace (Nat.ltb (length (skipn n (rb' ++ repeat false (r_pad r')))) (r_pad r')) with true.
    + cbn [r_err]. rewrite Ge. reflexivity.
    + symmetry. apply Nat.ltb_lt. rewrite skipn_length, app_length, repeat_length. lia.
  - exfalso. rewrite (Gp eq_refl) in Gb. cbn [repeat] in Gb. rewrite app_nil_r in Gb. rewrite Gb in L'.
    rewrite app_length in Hr. lia.
Qed.

(* nothing but a few zero bits left: end of data *)
Lemma line_end p j r rb :
  0 < g_cols p -> g_ignore_eob p = true -> good r rb -> real r rb = repeat false j -> (j < 11)%nat ->
  forall f, exists r', g3_line (S (S f)) p 0 true 0 false [] r = ([], r') /\ r_err r' = Some EOF.
Proof.
  intros Hc Hi G Hs Hj f. destruct st_values as (V1 & V2 & V3 & V4 & V5 & V6).
  cbn [g3_line]. rewrite (proj1 G). replace ((0 <? g_cols p) || false) with true by lia. cbn [andb].
  unfold decode_run.
  destruct (peek_good 12 r rb G ltac:(lia)) as (rb1 & Pv & G1 & R1).
  destruct (peek 12 r) as [v r1]. cbn [fst snd] in *.
  pose proof (table_code true _ (firstn 12 (real r rb ++ repeat false 12)) (eol_in true)) as Ht.
  rewrite firstn_length_le in Ht by (rewrite app_length, repeat_length; lia). specialize (Ht eq_refl).
  assert (Hz : firstn 12 (real r rb ++ repeat false 12) = repeat false 12).
  { rewrite Hs, <- repeat_app.
    assert (forall a b, firstn a (repeat false (a + b)) = repeat false a) as Hf
      by (induction a; intros; cbn [Nat.add repeat firstn]; [reflexivity|f_equal; auto]).
    replace (j + 12)%nat with (12 + j)%nat by lia. apply Hf. }
  rewrite Hz in *. specialize (Ht eq_refl). unfold entry in Ht. rewrite <- Pv in Ht. cbn [fst snd length repeat] in Ht.
  apply pair_equal_spec in Ht as [Ht1 Ht3]. apply pair_equal_spec in Ht1 as [Ht1 Ht2].
  rewrite Ht1, Ht2, Ht3. change (N.of_nat 11 =? 0) with false. cbv iota. change (N.to_nat (N.of_nat 11)) with 11%nat.
  assert (He : r_err (consume 11 r1) = Some EOF).
  { apply (consume_past 11 r1 rb1 G1); [lia|]. rewrite R1, Hs, repeat_length. assumption. }
  replace (N.min 0 (g_cols p - 0)) with 0 by lia. cbn [N.to_nat repeat app].
  replace (st_eol =? st_eol) with true by lia.
  replace (0 + 0 =? 0) with true by reflexivity. rewrite Hi. cbn [negb andb].
  assert (Hw : forall fuel, wait_for_one fuel (consume 11 r1) = consume 11 r1).
  { intros [|fuel]; cbn [wait_for_one]; [reflexivity|]. rewrite He. reflexivity. }
  rewrite Hw. exists (consume 11 r1). split; [|assumption].
  cbn [g3_line]. rewrite He.
  match goal with |- (if ?c && false then _ else _) = _ => replace (c && false) with false by (symmetry; apply andb_false_r) end.
  reflexivity.
Qed.

(* a whole encoded line (with its EOL code if EndOfLine is set) *)
Lemma line_row p rs tail r rb :
  0 < g_cols p -> good r rb ->
  real r rb = (if g_eol p then eol_bits else []) ++ runs_bits true rs ++ tail ->
  rs <> [] -> nsum rs = g_cols p -> Forall (fun k => 1 <= k) (tl rs) ->
  exists m r' rb', (m <= length ((if g_eol p then eol_bits else []) ++ runs_bits true rs))%nat /\
    good r' rb' /\ real r' rb' = tail /\
    forall f, g3_line (m + f) p 0 true 0 false [] r = (paint p true rs [], r').
Proof.
  intros Hc G Hs Hne Hsum Htl. destruct (g_eol p).
  - destruct (line_eol p _ r rb 0 Hc G Hs) as (r1 & rb1 & G1 & R1 & F1).
    destruct (line_runs p rs true tail r1 rb1 0 1 [] G1 R1 Hne Hc ltac:(lia) Htl) as (m & r2 & rb2 & L2 & G2 & R2 & F2).
    exists (S m), r2, rb2. split; [rewrite app_length; cbn; lia|]. split; [assumption|]. split; [assumption|].
    intros f. cbn [Nat.add]. rewrite F1. change (Nat.leb 6 1) with false. rewrite andb_false_r.
    apply F2.
  - cbn [app] in Hs.
    destruct (line_runs p rs true tail r rb 0 0 [] G Hs Hne Hc ltac:(lia) Htl) as (m & r2 & rb2 & L2 & G2 & R2 & F2).
    exists m, r2, rb2. split; [assumption|]. split; [assumption|]. split; assumption.
Qed.

(* ---- packing bits into bytes ---- *)

Lemma list8_ind (P : list bool -> Prop) :
  (forall l, (length l < 8)%nat -> P l) ->
  (forall a b c d e f g h r, P r -> P (a :: b :: c :: d :: e :: f :: g :: h :: r)) ->
  forall l, P l.
Proof.
  intros Hs Hc. fix IH 1. intros l.
  destruct l as [|a [|b [|c [|d [|e [|f [|g [|h r]]]]]]]]; try (apply Hs; cbn; lia).
  apply Hc. apply IH.
Qed.

Definition bits8_ok : bool :=
  forallb (fun l => match bits8 (num_of l 0), l with
                    | [a; b; c; d; e; f; g; h], [a'; b'; c'; d'; e'; f'; g'; h'] =>
                      Bool.eqb a a' && Bool.eqb b b' && Bool.eqb c c' && Bool.eqb d d' &&
                      Bool.eqb e e' && Bool.eqb f f' && Bool.eqb g g' && Bool.eqb h h' && (num_of l 0 <? 256)
                    | _, _ => false end) (all_bits 8).
Lemma bits8_ok_check : bits8_ok = true.
Proof. vm_compute. reflexivity. Qed.

Lemma bits8_num_of a b c d e f g h :
  bits8 (num_of [a; b; c; d; e; f; g; h] 0) = [a; b; c; d; e; f; g; h] /\ num_of [a; b; c; d; e; f; g; h] 0 < 256.
Proof.
  pose proof bits8_ok_check as H. unfold bits8_ok in H. rewrite forallb_forall in H.
  specialize (H [a; b; c; d; e; f; g; h] (all_bits_in 8 [a; b; c; d; e; f; g; h] eq_refl)).
  destruct (bits8 (num_of [a; b; c; d; e; f; g; h] 0)) as [|a' [|b' [|c' [|d' [|e' [|f' [|g' [|h' [|x t]]]]]]]]]; try discriminate.
  repeat (apply andb_true_iff in H as [H ?]).
  repeat match goal with E : Bool.eqb _ _ = true |- _ => apply eqb_prop in E end. subst.
  split; [reflexivity|lia].
Qed.

Definition byte_bits_ok : bool := forallb (fun b => num_of (bits8 b) 0 =? b) (map N.of_nat (seq 0 256)).
Lemma byte_bits_ok_check : byte_bits_ok = true.
Proof. vm_compute. reflexivity. Qed.

Lemma num_of_bits8 b : b < 256 -> num_of (bits8 b) 0 = b.
Proof.
  intros H. pose proof byte_bits_ok_check as Hc. unfold byte_bits_ok in Hc. rewrite forallb_forall in Hc.
  apply N.eqb_eq. apply Hc. apply in_map_iff. exists (N.to_nat b). split; [lia|]. apply in_seq. lia.
Qed.

Lemma pack_full_spec : forall l, flat_map bits8 (fst (pack_full l)) ++ snd (pack_full l) = l /\
  (length (snd (pack_full l)) < 8)%nat /\ length (snd (pack_full l)) = (length l mod 8)%nat.
Proof.
  induction l as [l Hl|a b c d e f g h r IH] using list8_ind.
  - assert (E : pack_full l = ([], l)).
    { destruct l as [|a [|b [|c [|d [|e [|f [|g [|h r]]]]]]]]; try reflexivity. cbn in Hl. lia. }
    rewrite E. cbn [fst snd flat_map app]. split; [reflexivity|]. split; [assumption|]. symmetry. apply Nat.mod_small. assumption.
  - cbn [pack_full]. destruct (pack_full r) as [bs rest]. cbn [fst snd] in *. destruct IH as (I1 & I2 & I3).
    cbn [flat_map]. rewrite (proj1 (bits8_num_of a b c d e f g h)). cbn [app]. rewrite I1. split; [reflexivity|]. split; [assumption|].
    rewrite I3. cbn [length]. replace (S (S (S (S (S (S (S (S (length r)))))))))%nat with (length r + 1 * 8)%nat by lia.
    rewrite Nat.mod_add by lia. reflexivity.
Qed.

Lemma pack_bits_full : forall l x, pack_bits (l ++ x) = fst (pack_full l) ++ pack_bits (snd (pack_full l) ++ x).
Proof.
  induction l as [l Hl|a b c d e f g h r IH] using list8_ind; intros x.
  - assert (E : pack_full l = ([], l)).
    { destruct l as [|a [|b [|c [|d [|e [|f [|g [|h r]]]]]]]]; try reflexivity. cbn in Hl. lia. }
    rewrite E. reflexivity.
  - cbn [pack_full app pack_bits]. destruct (pack_full r) as [bs rest] eqn:E. cbn [fst snd app].
    f_equal. specialize (IH x). rewrite ?E in IH. exact IH.
Qed.

Lemma pack_bits_bytes : forall bs, Forall (fun b => b < 256) bs -> pack_bits (flat_map bits8 bs) = bs.
Proof.
  induction 1 as [|b bs Hb Hbs IH]; [reflexivity|]. cbn [flat_map].
  change (bits8 b) with (bits_of 8 b) at 1. cbn [bits_of]. cbn [app pack_bits].
  f_equal; [|exact IH]. apply (num_of_bits8 b Hb).
Qed.

Lemma pack_bits_pad : forall l, pack_bits (pad_to_byte l) = pack_bits l.
Proof.
  induction l as [l Hl|a b c d e f g h r IH] using list8_ind.
  - unfold pad_to_byte. rewrite (Nat.mod_small (length l) 8 Hl).
    destruct l as [|a [|b [|c [|d [|e [|f [|g [|h r]]]]]]]]; try reflexivity. cbn in Hl. lia.
  - unfold pad_to_byte in *. cbn [length].
    replace (S (S (S (S (S (S (S (S (length r)))))))) mod 8)%nat with (length r mod 8)%nat
      by (replace (S (S (S (S (S (S (S (S (length r)))))))))%nat with (length r + 1 * 8)%nat by lia; rewrite Nat.mod_add by lia; reflexivity).
    cbn [app pack_bits]. rewrite IH. reflexivity.
Qed.

Lemma pack_bits_spec : forall l, flat_map bits8 (pack_bits l) = pad_to_byte l.
Proof.
  induction l as [l Hl|a b c d e f g h r IH] using list8_ind.
  - unfold pad_to_byte. rewrite (Nat.mod_small (length l) 8 Hl).
    destruct l as [|a [|b [|c [|d [|e [|f [|g [|h r]]]]]]]]; try (cbn in Hl; lia); try reflexivity;
      cbn [pack_bits app firstn repeat flat_map length Nat.sub Nat.modulo];
      rewrite (proj1 (bits8_num_of _ _ _ _ _ _ _ _)); reflexivity.
  - unfold pad_to_byte in *. cbn [length].
    replace (S (S (S (S (S (S (S (S (length r)))))))) mod 8)%nat with (length r mod 8)%nat
      by (replace (S (S (S (S (S (S (S (S (length r)))))))))%nat with (length r + 1 * 8)%nat by lia; rewrite Nat.mod_add by lia; reflexivity).
    cbn [pack_bits flat_map app]. rewrite (proj1 (bits8_num_of a b c d e f g h)). cbn [app]. rewrite IH. reflexivity.
Qed.

(* ---- the encoder's bit stream ---- *)

Definition chunk (p : g3p) (row : bytes) : list bool :=
  if g_align p then pad_to_byte (row_bits p row) else row_bits p row.
Definition close_bits (p : g3p) : list bool := if g_ignore_eob p then [] else rep_bits 6 eol_bits.
Definition img_bits (p : g3p) (rows : list bytes) : list bool := flat_map (chunk p) rows ++ close_bits p.

Lemma pad_to_byte_mod l : (length (pad_to_byte l) mod 8 = 0)%nat.
Proof.
  unfold pad_to_byte. rewrite app_length, repeat_length.
  pose proof (Nat.div_mod (length l) 8 ltac:(lia)) as H. pose proof (Nat.mod_upper_bound (length l) 8 ltac:(lia)) as H2.
  destruct (Nat.eq_dec (length l mod 8) 0) as [E|E].
  - rewrite E. cbn. rewrite Nat.add_0_r. assumption.
  - rewrite (Nat.mod_small (8 - length l mod 8) 8) by lia.
    replace (length l + (8 - length l mod 8))%nat with ((length l / 8 + 1) * 8)%nat by lia. apply Nat.mod_mul. lia.
Qed.

Lemma enc_fold p : forall rows pend, (g_align p = true -> pend = []) ->
  (g_align p = true -> fst (rows_fold (g3_enc_row p) pend rows) = []) /\
  forall c, snd (rows_fold (g3_enc_row p) pend rows) ++ pack_bits (fst (rows_fold (g3_enc_row p) pend rows) ++ c) =
            pack_bits (pend ++ flat_map (chunk p) rows ++ c).
Proof.
  induction rows as [|row rows IH]; intros pend Hp.
  - cbn [rows_fold fst snd flat_map app]. split; [assumption|reflexivity].
  - cbn [rows_fold]. unfold g3_enc_row at 1 3 5.
    set (bits' := if g_align p then pad_to_byte (pend ++ row_bits p row) else pend ++ row_bits p row).
    assert (Hb : bits' = pend ++ chunk p row).
    { subst bits'. unfold chunk. destruct (g_align p); [rewrite (Hp eq_refl)|]; reflexivity. }
    pose proof (pack_full_spec bits') as (S1 & S2 & S3). pose proof (pack_bits_full bits') as PF.
    destruct (pack_full bits') as [bs rest]. cbn [fst snd] in *.
    assert (Hr : g_align p = true -> rest = []).
    { intros Ha. subst bits'. rewrite Ha in S3. rewrite pad_to_byte_mod in S3. destruct rest; [reflexivity|discriminate]. }
    specialize (IH rest Hr). destruct (rows_fold (g3_enc_row p) rest rows) as [pend' out]. cbn [fst snd] in *.
    destruct IH as [I1 I2]. split; [assumption|]. intros c. rewrite <- app_assoc, I2.
    cbn [flat_map]. rewrite <- (PF (flat_map (chunk p) rows ++ c)), Hb, <- !app_assoc. reflexivity.
Qed.

(* ---- pixels of a row ---- *)

Definition row_ok (p : g3p) (row : bytes) : Prop :=
  length row = line_bytes p /\ Forall (fun b => b < 256) row /\
  skipn (N.to_nat (g_cols p)) (flat_map bits8 row) = repeat false (8 * line_bytes p - N.to_nat (g_cols p)).

Lemma pix_white p b : pix p (Bool.eqb b (negb (g_blackis1 p))) = b.
Proof. unfold pix. destruct b, (g_blackis1 p); reflexivity. Qed.

Lemma flat_bits_length bs : length (flat_map bits8 bs) = (8 * length bs)%nat.
Proof. induction bs as [|b bs IH]; [reflexivity|]. cbn [flat_map length]. rewrite app_length, IH. cbn. lia. Qed.

Lemma row_rebuilt p row : 0 < g_cols p -> row_ok p row ->
  pack_bits (rev_append (paint p true (runs_of true 0 (row_pixels p row)) []) []) = row /\
  paint p true (runs_of true 0 (row_pixels p row)) [] <> [].
Proof.
  intros Hc (Hl & Hwf & Hz).
  rewrite rev_append_rev, app_nil_r, paint_unruns, app_nil_r, rev_involutive, unruns_runs_of.
  cbn [N.to_nat repeat app]. unfold row_pixels. rewrite map_map.
  assert (Hm : forall l, map (fun x => pix p (Bool.eqb x (negb (g_blackis1 p)))) l = l).
  { induction l as [|x l IHl]; [reflexivity|]. cbn [map]. rewrite pix_white, IHl. reflexivity. }
  rewrite Hm.
  set (all := flat_map bits8 row) in *. set (n := N.to_nat (g_cols p)) in *.
  assert (Hall : length all = (8 * line_bytes p)%nat) by (subst all; rewrite flat_bits_length, Hl; reflexivity).
  assert (Hlb : (n <= 8 * line_bytes p)%nat /\ (8 * line_bytes p - n < 8)%nat).
  { unfold line_bytes. subst n. pose proof (N.div_mod (g_cols p + 7) 8 ltac:(lia)). pose proof (N.mod_lt (g_cols p + 7) 8 ltac:(lia)). lia. }
  split.
  - rewrite <- pack_bits_pad. unfold pad_to_byte. rewrite firstn_length_le by lia.
    replace ((8 - n mod 8) mod 8)%nat with (8 * line_bytes p - n)%nat.
    + rewrite <- Hz, firstn_skipn. apply pack_bits_bytes. assumption.
    + destruct Hlb as [H1 H2]. set (k := (8 * line_bytes p - n)%nat) in *.
      assert (Hn : n = (8 * line_bytes p - k)%nat) by lia.
      destruct (Nat.eq_dec k 0) as [E|E].
      * rewrite E in *. replace n with (line_bytes p * 8)%nat by lia. rewrite Nat.mod_mul by lia. reflexivity.
      * assert (Hlp : (1 <= line_bytes p)%nat) by lia.
        replace n with ((8 - k) + (line_bytes p - 1) * 8)%nat by lia. rewrite Nat.mod_add by lia.
        rewrite (Nat.mod_small (8 - k) 8) by lia. replace (8 - (8 - k))%nat with k by lia. symmetry. apply Nat.mod_small. lia.
  - intros Hcontra. apply (f_equal (@length bool)) in Hcontra. rewrite rev_length, firstn_length_le in Hcontra by lia.
    cbn in Hcontra. lia.
Qed.

(* ---- whole images ---- *)

Lemma buf_real_mod r rb : good r rb -> (length (r_buf r) mod 8 = length (real r rb) mod 8)%nat.
Proof.
  intros (Ge & Gb & Gp & Gr & Gm). unfold real. rewrite Gb, !app_length, repeat_length, flat_bits_length.
  rewrite <- (Nat.add_mod_idemp_r (length rb) (r_pad r)) by lia. rewrite Gm, Nat.add_0_r.
  rewrite (Nat.mul_comm 8), Nat.mod_add by lia. reflexivity.
Qed.

Lemma real_le_bits_left r rb : good r rb -> (length (real r rb) <= bits_left r)%nat.
Proof.
  intros (Ge & Gb & Gp & Gr & Gm). unfold real, bits_left. rewrite Gb, !app_length, flat_bits_length. lia.
Qed.

Lemma row_bits_runs p row : 0 < g_cols p -> row_ok p row ->
  let rs := runs_of true 0 (row_pixels p row) in
  rs <> [] /\ nsum rs = g_cols p /\ Forall (fun k => 1 <= k) (tl rs).
Proof.
  intros Hc (Hl & Hwf & Hz). cbv zeta. split; [apply runs_of_nonempty|]. split; [|apply runs_of_tl_pos].
  rewrite runs_of_sum. unfold row_pixels. rewrite map_length, firstn_length_le; [lia|].
  rewrite flat_bits_length, Hl. unfold line_bytes.
  pose proof (N.div_mod (g_cols p + 7) 8 ltac:(lia)). pose proof (N.mod_lt (g_cols p + 7) 8 ltac:(lia)). lia.
Qed.

Lemma g3_rows_rt p (Hc : 0 < g_cols p) : forall rows nrows fuel r rb q j,
  good r rb -> real r rb = repeat false q ++ img_bits p rows ++ repeat false j ->
  (g_align p = true -> (q < 8)%nat /\ ((length (img_bits p rows) + j) mod 8 = 0)%nat) ->
  (g_align p = false -> q = 0%nat) -> (j < 8)%nat ->
  (g_maxrows p = 0%nat \/ (nrows + length rows <= g_maxrows p)%nat) ->
  Forall (row_ok p) rows -> (length rows + 1 < fuel)%nat ->
  g3_rows fuel p nrows r = (concat rows, Some EOF).
Proof.
  induction rows as [|row rows IH]; intros nrows fuel r rb q j G Hs Ha Hna Hj Hmax Hok Hf;
    (destruct fuel as [|fuel]; [lia|]); cbn [g3_rows]; rewrite (proj1 G).
  - (* after the last row *)
    destruct (negb (Nat.eqb (g_maxrows p) 0) && Nat.leb (g_maxrows p) nrows) eqn:Em; [reflexivity|].
    unfold img_bits in Hs. cbn [flat_map app] in Hs.
    assert (Hskip : exists r0 rb0, (if g_align p then consume (length (r_buf r) mod 8) r else r) = r0 /\
              good r0 rb0 /\ real r0 rb0 = close_bits p ++ repeat false j).
    { destruct (g_align p) eqn:Eal.
      - destruct (Ha eq_refl) as [Hq Hm]. unfold img_bits in Hm. cbn [flat_map app] in Hm.
        assert (Hmod : (length (r_buf r) mod 8 = q)%nat).
        { rewrite (buf_real_mod r rb G), Hs, !app_length, !repeat_length.
          rewrite <- Nat.add_mod_idemp_r, Hm, Nat.add_0_r by lia. apply Nat.mod_small. assumption. }
        rewrite Hmod. destruct (consume_good q r rb G ltac:(lia)) as (rb0 & G0 & R0).
        { rewrite Hs, app_length, repeat_length. lia. }
        exists (consume q r), rb0. split; [reflexivity|]. split; [assumption|].
        rewrite R0, Hs, skipn_app, repeat_length, Nat.sub_diag. rewrite skipn_all2 by (rewrite repeat_length; lia). reflexivity.
      - rewrite (Hna eq_refl) in Hs. exists r, rb. split; [reflexivity|]. split; [assumption|exact Hs]. }
    destruct Hskip as (r0 & rb0 & -> & G0 & R0).
    unfold close_bits in R0. destruct (g_ignore_eob p) eqn:Ei.
    + cbn [app] in R0. destruct (line_end p j r0 rb0 Hc Ei G0 R0 ltac:(lia) (bits_left r0)) as (r' & E' & Er').
      rewrite E', Er'. reflexivity.
    + pose proof (real_le_bits_left r0 rb0 G0) as Hbl. rewrite R0, app_length, rep_bits_length in Hbl.
      change (length eol_bits) with 12%nat in Hbl.
      destruct (line_rtc p _ r0 rb0 Hc Ei G0 R0 (S (S (bits_left r0)) - 6)) as (r' & E' & Er').
      replace (6 + (S (S (bits_left r0)) - 6))%nat with (S (S (bits_left r0))) in E' by lia.
      rewrite E', Er'. reflexivity.
  - (* one more row *)
    pose proof (Forall_inv Hok) as Hrow. pose proof (Forall_inv_tail Hok) as Hok'.
    replace (negb (Nat.eqb (g_maxrows p) 0) && Nat.leb (g_maxrows p) nrows) with false.
    2:{ symmetry. cbn [length] in Hmax. destruct Hmax as [-> | Hm]; [reflexivity|].
        apply andb_false_iff. right. apply Nat.leb_gt. lia. }
    unfold img_bits in Hs. cbn [flat_map] in Hs. rewrite <- !app_assoc in Hs.
    fold (img_bits p rows) in Hs.
    assert (Hchunk : chunk p row ++ img_bits p rows = chunk p row ++ flat_map (chunk p) rows ++ close_bits p) by reflexivity.
    (* skip the fill bits *)
    assert (Hskip : exists r0 rb0, (if g_align p then consume (length (r_buf r) mod 8) r else r) = r0 /\
              good r0 rb0 /\ real r0 rb0 = chunk p row ++ (flat_map (chunk p) rows ++ close_bits p) ++ repeat false j).
    { destruct (g_align p) eqn:Eal.
      - destruct (Ha eq_refl) as [Hq Hm].
        assert (Hmod : (length (r_buf r) mod 8 = q)%nat).
        { rewrite (buf_real_mod r rb G), Hs, !app_length, !repeat_length.
          unfold img_bits in Hm. cbn [flat_map] in Hm. rewrite !app_length in Hm. clear - Hq Hm. lia. }
        rewrite Hmod. destruct (consume_good q r rb G ltac:(lia)) as (rb0 & G0 & R0).
        { rewrite Hs, app_length, repeat_length. lia. }
        exists (consume q r), rb0. split; [reflexivity|]. split; [assumption|].
        rewrite R0, Hs, skipn_app, repeat_length, Nat.sub_diag. rewrite skipn_all2 by (rewrite repeat_length; lia).
        cbn [skipn app]. rewrite <- !app_assoc. reflexivity.
      - rewrite (Hna eq_refl) in Hs. exists r, rb. split; [reflexivity|]. split; [assumption|].
        cbn [repeat app] in Hs. rewrite Hs, <- !app_assoc. reflexivity. }
    destruct Hskip as (r0 & rb0 & -> & G0 & R0).
    destruct (row_bits_runs p row Hc Hrow) as (Hr1 & Hr2 & Hr3). cbv zeta in *.
    set (rs := runs_of true 0 (row_pixels p row)) in *.
    (* the padding after this row *)
    set (q' := if g_align p then ((8 - length (row_bits p row) mod 8) mod 8)%nat else 0%nat).
    assert (Hck : chunk p row = row_bits p row ++ repeat false q').
    { unfold chunk, q', pad_to_byte. destruct (g_align p); [reflexivity|]. cbn [repeat]. symmetry. apply app_nil_r. }
    rewrite Hck in R0. unfold row_bits in R0 at 1. fold rs in R0. rewrite <- !app_assoc in R0.
    destruct (line_row p rs _ r0 rb0 Hc G0 R0 Hr1 Hr2 Hr3) as (m & r1 & rb1 & Lm & G1 & R1 & F1).
    pose proof (real_le_bits_left r0 rb0 G0) as Hbl. rewrite R0 in Hbl.
    assert (Hm : (m <= bits_left r0)%nat).
    { rewrite !app_length in Hbl. rewrite app_length in Lm. lia. }
    replace (S (S (bits_left r0))) with (m + (S (S (bits_left r0)) - m))%nat by lia. rewrite F1.
    destruct (row_rebuilt p row Hc Hrow) as [Hpack Hne]. fold rs in Hpack, Hne.
    destruct (paint p true rs []) as [|x l] eqn:Ep; [congruence|].
    rewrite (IH (S nrows) fuel r1 rb1 q' j G1).
    + rewrite Hpack. reflexivity.
    + rewrite R1. unfold img_bits. rewrite <- !app_assoc. reflexivity.
    + intros Hal. split.
      * unfold q'. rewrite Hal. apply Nat.mod_upper_bound. lia.
      * destruct (Ha Hal) as [_ Hm']. unfold img_bits in *. cbn [flat_map] in Hm'. rewrite !app_length in *.
        assert (Hp8 : (length (chunk p row) mod 8 = 0)%nat) by (unfold chunk; rewrite Hal; apply pad_to_byte_mod).
        clear - Hm' Hp8. lia.
    + intros Hal. unfold q'. rewrite Hal. reflexivity.
    + assumption.
    + cbn [length] in Hmax. destruct Hmax as [Hm0|Hm0]; [left; assumption|right; lia].
    + assumption.
    + cbn [length] in Hf. lia.
Qed.

Lemma run_bits_pos white n : (1 <= length (run_bits white n))%nat.
Proof.
  unfold run_bits. set (n1 := n mod 2560). assert (Hn1 : n1 < 2560) by (apply N.mod_lt; discriminate).
  destruct (1792 <=? n1) eqn:E1.
  - set (i := (n1 - 1792) / 64).
    assert (Hi2 : 64 * i <= n1 - 1792 < 64 * i + 64) by (subst i; pose proof (N.div_mod (n1 - 1792) 64); pose proof (N.mod_lt (n1 - 1792) 64); lia).
    replace (64 <=? n1 - (i + 28) * 64) with false by lia.
    pose proof (proj1 (code_len white _ (term_in white (n1 - (i + 28) * 64) ltac:(lia)))) as L. cbn [fst] in L.
    rewrite !app_length. lia.
  - destruct (64 <=? n1) eqn:E2.
    + pose proof (proj1 (code_len white _ (term_in white (n1 mod 64) ltac:(apply N.mod_lt; discriminate)))) as L. cbn [fst] in L.
      rewrite !app_length. lia.
    + pose proof (proj1 (code_len white _ (term_in white n1 ltac:(lia)))) as L. cbn [fst] in L.
      rewrite !app_length. lia.
Qed.

Lemma chunk_pos p row : (1 <= length (chunk p row))%nat.
Proof.
  assert (H : (1 <= length (row_bits p row))%nat).
  { unfold row_bits. rewrite app_length.
    pose proof (runs_of_nonempty (row_pixels p row) true 0) as Hne.
    destruct (runs_of true 0 (row_pixels p row)) as [|n rs]; [congruence|]. cbn [runs_bits]. rewrite app_length.
    pose proof (run_bits_pos true n). lia. }
  unfold chunk, pad_to_byte. destruct (g_align p); [rewrite app_length|]; lia.
Qed.

Lemma img_bits_rows p rows : (length rows <= length (img_bits p rows))%nat.
Proof.
  unfold img_bits. rewrite app_length.
  assert (H : (length rows <= length (flat_map (chunk p) rows))%nat).
  { induction rows as [|row rows IH]; [cbn; lia|]. cbn [flat_map length]. rewrite app_length. pose proof (chunk_pos p row). lia. }
  lia.
Qed.

Theorem g3_1d_rt_proof p rows :
  0 < g_cols p -> Forall (row_ok p) rows ->
  (g_maxrows p = 0%nat \/ (length rows <= g_maxrows p)%nat) ->
  g3_dec p (g3_enc p (concat rows)) = Ok (concat rows).
Proof.
  intros Hc Hok Hmax.
  assert (Hlb : (0 < line_bytes p)%nat).
  { unfold line_bytes. assert (1 <= (g_cols p + 7) / 8) by (apply N.div_le_lower_bound; lia). lia. }
  assert (Hlen : Forall (fun r => length r = line_bytes p) rows) by (eapply Forall_impl; [|exact Hok]; intros r Hr; apply Hr).
  assert (Henc : g3_enc p (concat rows) = pack_bits (img_bits p rows)).
  { unfold g3_enc. rewrite (rows_run (line_bytes p) (g3_enc_row p) Hlb rows [] Hlen).
    destruct (enc_fold p rows [] (fun _ => eq_refl)) as [_ E]. specialize (E (close_bits p)).
    destruct (rows_fold (g3_enc_row p) [] rows) as [pend' out]. cbn [fst snd rp rows_init] in *.
    unfold g3_enc_close. fold (close_bits p). rewrite E. reflexivity. }
  rewrite Henc. unfold g3_dec.
  set (e := pack_bits (img_bits p rows)).
  set (r0 := {| r_buf := []; r_rest := e; r_err := None; r_eof := false; r_pad := 0 |}).
  assert (G0 : good r0 []). { unfold good, r0; cbn. repeat split; auto; discriminate. }
  assert (R0 : real r0 [] = repeat false 0 ++ img_bits p rows ++ repeat false ((8 - length (img_bits p rows) mod 8) mod 8)).
  { unfold real, r0. cbn [r_rest app repeat]. subst e. apply pack_bits_spec. }
  assert (He : (length (img_bits p rows) <= 8 * length e)%nat).
  { rewrite <- flat_bits_length. subst e. rewrite pack_bits_spec. unfold pad_to_byte. rewrite app_length. lia. }
  pose proof (img_bits_rows p rows) as Hr.
  rewrite (g3_rows_rt p Hc rows 0 (S (S (8 * length e))) r0 [] 0 _ G0 R0).
  - reflexivity.
  - intros _. split; [lia|]. pose proof (pad_to_byte_mod (img_bits p rows)) as H. unfold pad_to_byte in H.
    rewrite app_length, repeat_length in H. exact H.
  - reflexivity.
  - apply Nat.mod_upper_bound. lia.
  - cbn [Nat.add]. assumption.
  - assumption.
  - lia.
Qed.
