(* CCITTFax K = 0 (T.4 one-dimensional coding): code tables, runs, rows, images. *)
From Coq Require Import List NArith ZArith Bool Lia ZifyN ZifyNat ZifyBool Arith FMapPositive.
From GoPdf.Base Require Import Bytes Res.
From GoPdf.Gen Require Import Gen_C06ccitt.
From GoPdf.C06 Require Import Machine MachineProofs CCITT.
Import ListNotations.
Open Scope N_scope.

(* ---- the code tables ---- *)

(* a code word: its bits and the decoder's (state, run length) for it *)
Definition cword := (list bool * (N * N))%type.

Definition nrange (n : nat) : list N := map N.of_nat (seq 0 n).

Definition codes_of (white : bool) : list cword :=
  map (fun n => (term_bits white n, (if white then st_termw else st_termb, n))) (nrange 64)
  ++ map (fun i => (makeup_bits white i, (if white then st_makeupw else st_makeupb, 64 * (i + 1)))) (nrange 27)
  ++ map (fun i => (ext_bits i, (st_makeup, 1792 + 64 * i))) (nrange 13)
  ++ [(repeat false 11, (st_eol, 0))].

Fixpoint is_prefix (a l : list bool) : bool :=
  match a, l with
  | [], _ => true
  | x :: a', y :: l' => Bool.eqb x y && is_prefix a' l'
  | _ :: _, [] => false
  end.

Fixpoint all_bits (n : nat) : list (list bool) :=
  match n with
  | O => [[]]
  | S n' => map (cons false) (all_bits n') ++ map (cons true) (all_bits n')
  end.

Lemma all_bits_in : forall n l, length l = n -> In l (all_bits n).
Proof.
  induction n as [|n IH]; intros l H.
  - destruct l; [left; reflexivity|discriminate].
  - destruct l as [|b l]; [discriminate|]. cbn [all_bits]. apply in_or_app.
    destruct b; [right|left]; apply in_map; apply IH; cbn in H; lia.
Qed.

(* no code word is a prefix of another one (T.4: the codes are a prefix code) *)
Definition prefix_free (cs : list cword) : bool :=
  forallb (fun ic => forallb (fun jc => Nat.eqb (fst ic) (fst jc) || negb (is_prefix (fst (snd ic)) (fst (snd jc))))
                             (combine (seq 0 (length cs)) cs))
          (combine (seq 0 (length cs)) cs).

Lemma ccitt_prefix_free_check : prefix_free (codes_of true) && prefix_free (codes_of false) = true.
Proof. vm_compute. reflexivity. Qed.

(* the decoder's lookup tables (4096 / 8192 entries) are what the code words say *)
Definition entry (white : bool) (l : list bool) : N * N * N :=
  let v := num_of l 0 in
  if white then (tget whiteW v, tget whiteS v, tget whiteP v) else (tget blackW v, tget blackS v, tget blackP v).

Definition entry_is (e : N * N * N) (c : cword) : bool :=
  let '(w, s, p) := e in
  (w =? N.of_nat (length (fst c))) && (s =? fst (snd c)) && (p =? snd (snd c)).

Definition window (white : bool) : nat := if white then 12%nat else 13%nat.

Definition table_ok (white : bool) : bool :=
  forallb (fun l =>
    forallb (fun c => negb (is_prefix (fst c) l) || entry_is (entry white l) c) (codes_of white)
    && (existsb (fun c => is_prefix (fst c) l) (codes_of white) || (fst (fst (entry white l)) =? 0)))
    (all_bits (window white))
  && forallb (fun c => Nat.leb 1 (length (fst c)) && Nat.leb (length (fst c)) (window white)) (codes_of white).

Lemma ccitt_table_check : table_ok true && table_ok false = true.
Proof. vm_compute. reflexivity. Qed.

Global Opaque whiteW whiteS whiteP blackW blackS blackP.

Lemma table_code white c l : In c (codes_of white) -> length l = window white ->
  is_prefix (fst c) l = true ->
  entry white l = (N.of_nat (length (fst c)), fst (snd c), snd (snd c)).
Proof.
  intros Hc Hl Hp. pose proof ccitt_table_check as H. apply andb_true_iff in H.
  assert (Ht : table_ok white = true) by (destruct white; tauto). clear H.
  unfold table_ok in Ht. apply andb_true_iff in Ht as [Ht _]. rewrite forallb_forall in Ht.
  specialize (Ht l (all_bits_in _ l Hl)). apply andb_true_iff in Ht as [Ht _]. rewrite forallb_forall in Ht.
  specialize (Ht c Hc). rewrite Hp in Ht. cbn [negb orb] in Ht. unfold entry_is in Ht.
  destruct (entry white l) as [[w s] p]. apply andb_true_iff in Ht as [Ht Hpp]. apply andb_true_iff in Ht as [Hw Hs].
  apply N.eqb_eq in Hw, Hs, Hpp. subst. reflexivity.
Qed.

Lemma code_len white c : In c (codes_of white) ->
  (1 <= length (fst c))%nat /\ (length (fst c) <= window white)%nat.
Proof.
  intros Hc. pose proof ccitt_table_check as H. apply andb_true_iff in H.
  assert (Ht : table_ok white = true) by (destruct white; tauto). clear H.
  unfold table_ok in Ht. apply andb_true_iff in Ht as [_ Ht]. rewrite forallb_forall in Ht.
  specialize (Ht c Hc). apply andb_true_iff in Ht as [H1 H2]. apply Nat.leb_le in H1, H2. split; assumption.
Qed.

Lemma is_prefix_app a t n : (length a <= n)%nat -> is_prefix a (firstn n (a ++ t)) = true.
Proof.
  revert n. induction a as [|x a IH]; intros n H; [reflexivity|].
  destruct n as [|n]; cbn [length] in H; [lia|]. cbn [app firstn is_prefix].
  rewrite eqb_reflx. apply IH. lia.
Qed.

(* ---- the bit reader ---- *)

(* [good r rb]: no error so far; the buffer is [rb] followed by [r_pad r] padding zeros, and padding
   only exists once the input is exhausted.  [real r rb]: the input bits still to come. *)
Definition good (r : g3r) (rb : list bool) : Prop :=
  r_err r = None /\ r_buf r = rb ++ repeat false (r_pad r) /\
  (r_eof r = false -> r_pad r = 0%nat) /\ (r_eof r = true -> r_rest r = []).

Definition real (r : g3r) (rb : list bool) : list bool := rb ++ flat_map bits8 (r_rest r).

Lemma bits8_length b : length (bits8 b) = 8%nat.
Proof. reflexivity. Qed.

Lemma fill_good : forall fuel n r rb, good r rb ->
  exists rb', good (fill fuel n r) rb' /\ real (fill fuel n r) rb' = real r rb /\
    ((n <= length (r_buf r) + 8 * fuel)%nat -> (n <= length (r_buf (fill fuel n r)))%nat).
Proof.
  induction fuel as [|fuel IH]; intros n r rb G; cbn [fill].
  - exists rb. split; [assumption|]. split; [reflexivity|]. lia.
  - destruct (Nat.ltb (length (r_buf r)) n) eqn:E.
    2:{ exists rb. split; [assumption|]. split; [reflexivity|]. apply Nat.ltb_ge in E. lia. }
    destruct G as (Ge & Gb & Gp & Gr). rewrite Ge.
    destruct (r_eof r) eqn:Eeof.
    + (* already at the end: more padding *)
      specialize (Gr eq_refl).
      assert (Hm : (match r_rest r with
                | [] | _ => fill fuel n {| r_buf := r_buf r ++ repeat false 8; r_rest := r_rest r; r_err := None;
                                          r_eof := true; r_pad := r_pad r + 8 |} end) =
              fill fuel n {| r_buf := r_buf r ++ repeat false 8; r_rest := r_rest r; r_err := None;
                             r_eof := true; r_pad := r_pad r + 8 |}) by (destruct (r_rest r); reflexivity).
      rewrite Hm. clear Hm.
      destruct (IH n {| r_buf := r_buf r ++ repeat false 8; r_rest := r_rest r; r_err := None; r_eof := true;
                        r_pad := r_pad r + 8 |} rb) as (rb' & G' & R' & L').
      { unfold good; cbn [r_err r_buf r_eof r_pad r_rest]. split; [reflexivity|]. split.
        - rewrite Gb, <- app_assoc, <- repeat_app. reflexivity.
        - split; [discriminate|intros _; assumption]. }
      exists rb'. split; [assumption|]. split.
      * rewrite R'. unfold real. cbn [r_rest]. reflexivity.
      * intros H. apply L'. cbn [r_buf]. rewrite app_length, repeat_length. lia.
    + specialize (Gp eq_refl). destruct (r_rest r) as [|b rest] eqn:Er.
      * destruct (IH n {| r_buf := r_buf r ++ repeat false 8; r_rest := []; r_err := None; r_eof := true;
                          r_pad := r_pad r + 8 |} rb) as (rb' & G' & R' & L').
        { unfold good; cbn [r_err r_buf r_eof r_pad r_rest]. split; [reflexivity|]. split.
          - rewrite Gb, <- app_assoc, <- repeat_app. reflexivity.
          - split; [discriminate|reflexivity]. }
        exists rb'. split; [assumption|]. split.
        -- rewrite R'. unfold real. cbn [r_rest]. rewrite Er. reflexivity.
        -- intros H. apply L'. cbn [r_buf]. rewrite app_length, repeat_length. lia.
      * destruct (IH n {| r_buf := r_buf r ++ bits8 b; r_rest := rest; r_err := None; r_eof := false;
                          r_pad := r_pad r |} (rb ++ bits8 b)) as (rb' & G' & R' & L').
        { unfold good; cbn [r_err r_buf r_eof r_pad r_rest]. split; [reflexivity|]. split.
          - rewrite Gb, Gp. cbn [repeat]. rewrite !app_nil_r. reflexivity.
          - split; [intros _; assumption|discriminate]. }
        exists rb'. split; [assumption|]. split.
        -- rewrite R'. unfold real. cbn [r_rest]. rewrite Er. cbn [flat_map]. rewrite <- app_assoc. reflexivity.
        -- intros H. apply L'. cbn [r_buf]. rewrite app_length, bits8_length. lia.
Qed.
