(* CCITTFaxDecode, K < 0: ITU-T T.6 (Group 4) two-dimensional coding as internal/filter/ccittfax
   implements it.  A row is coded relative to the row above (the reference row; all white for the
   first row) by pass, vertical and horizontal mode codes (T.6 table 1); the runs of the horizontal
   mode are the one-dimensional run codes of CCITT.v.  Positions are Z because a0 starts at -1.
   Colours are bit values here, as in the Go code: white is 1 unless BlackIs1. *)
From Coq Require Import List NArith ZArith Bool FMapPositive.
From GoPdf.Base Require Import Bytes Res.
From GoPdf.Gen Require Import Gen_C06ccitt.
From GoPdf.C06 Require Import Machine CCITT.
Import ListNotations.
Open Scope Z_scope.

Definition white_bit (p : g3p) : bool := negb (g_blackis1 p).

(* Params.changingElements: positions whose pixel differs from the one before (white before the row) *)
Fixpoint changes_from (x : Z) (prev : bool) (px : list bool) : list Z :=
  match px with
  | [] => []
  | c :: r => if Bool.eqb c prev then changes_from (x + 1) prev r else x :: changes_from (x + 1) c r
  end.
Definition changing (p : g3p) (px : list bool) : list Z := changes_from 0 (white_bit p) px.

(* nextTwoChanges *)
Fixpoint drop_le (a0 : Z) (l : list Z) : list Z :=
  match l with
  | [] => []
  | x :: r => if x <=? a0 then drop_le a0 r else l
  end.
Definition next_two (changes : list Z) (cols a0 : Z) : Z * Z :=
  match drop_le a0 changes with
  | [] => (cols, cols)
  | [a1] => (a1, cols)
  | a1 :: a2 :: _ => (a1, a2)
  end.

(* findB1B2FromChanges: [cur] is the current colour (bit value); changing elements with an even index
   are changes to the non-white colour *)
Fixpoint drop_le_idx (a0 : Z) (i : nat) (l : list Z) : nat * list Z :=
  match l with
  | [] => (i, [])
  | x :: r => if x <=? a0 then drop_le_idx a0 (S i) r else (i, l)
  end.
Definition find_b1b2 (p : g3p) (changes : list Z) (cols a0 : Z) (cur : bool) : Z * Z :=
  let '(idx, l) := drop_le_idx a0 0 changes in
  let cur_is_white := Bool.eqb cur (white_bit p) in
  let l' := match l with
            | _ :: r => if negb (Bool.eqb (Nat.even idx) cur_is_white) then r else l
            | [] => l
            end in
  match l' with
  | [] => (cols, cols)
  | [b1] => (b1, cols)
  | b1 :: b2 :: _ => (b1, b2)
  end.

(* ---- encoder: Writer.encode2DLineG3 ---- *)

Definition vert_bits (delta : Z) : list bool :=
  match delta with
  | 0 => [true]
  | 1 => [false; true; true]
  | 2 => [false; false; false; false; true; true]
  | 3 => [false; false; false; false; false; true; true]
  | -1 => [false; true; false]
  | -2 => [false; false; false; false; true; false]
  | -3 => [false; false; false; false; false; true; false]
  | _ => []
  end.

Fixpoint enc2d (fuel : nat) (p : g3p) (refc linec : list Z) (cols a0 : Z) (cur : bool) : list bool :=
  match fuel with
  | O => []
  | S fuel' =>
    if a0 <? cols then
      let '(a1, a2) := next_two linec cols a0 in
      let '(b1, b2) := find_b1b2 p refc cols a0 cur in
      let delta := a1 - b1 in
      if b2 <? a1 then [false; false; false; true] ++ enc2d fuel' p refc linec cols b2 cur
      else if (-3 <=? delta) && (delta <=? 3) then vert_bits delta ++ enc2d fuel' p refc linec cols a1 (negb cur)
      else
        [false; false; true]
        ++ run_bits (Bool.eqb cur (white_bit p)) (Z.to_N (a1 - Z.max a0 0))
        ++ run_bits (negb (Bool.eqb cur (white_bit p))) (Z.to_N (a2 - a1))
        ++ enc2d fuel' p refc linec cols a2 cur
    else []
  end.

Definition row_px (p : g3p) (row : bytes) : list bool := firstn (N.to_nat (g_cols p)) (flat_map bits8 row).

Definition row2d_bits (p : g3p) (ref row : bytes) : list bool :=
  let cols := Z.of_N (g_cols p) in
  enc2d (S (S (N.to_nat (g_cols p)))) p (changing p (row_px p ref)) (changing p (row_px p row)) cols (-1) (white_bit p).

Definition eofb_bits : list bool := eol_bits ++ eol_bits.

(* rows machine: state = (reference row, bits not yet written) *)
Definition g4_enc_row (p : g3p) (st : bytes * list bool) (row : list byte) : (bytes * list bool) * list byte :=
  let '(ref, pend) := st in
  let bits := pend ++ row2d_bits p ref row in
  let bits := if g_align p then pad_to_byte bits else bits in
  let '(bs, rest) := pack_full bits in ((row, rest), bs).

Definition white_row (p : g3p) : bytes := repeat (if g_blackis1 p then 0%N else 255%N) (line_bytes p).

Definition g4_enc (p : g3p) (x : bytes) : bytes :=
  let '(st, out) := run (rows_step (line_bytes p) (g4_enc_row p)) (rows_init (white_row p, [])) x in
  out ++ pack_bits (snd (rp st) ++ (if g_ignore_eob p then [] else eofb_bits)).

(* ---- decoder: Reader.decode2D ---- *)

Definition mainS := tmap mainTable_State.
Definition mainW := tmap mainTable_Width.
Definition mainP := tmap mainTable_Param.

Definition st_pass : N := Z.to_N S_Pass.
Definition st_horiz : N := Z.to_N S_Horiz.
Definition st_vert : N := Z.to_N S_Vert.
Definition st_ext : N := Z.to_N S_Ext.

(* Reader.fillRowBits on a line kept as bits (a multiple of 8 of them) *)
Fixpoint set_range (i : Z) (start stop : Z) (l : list bool) : list bool :=
  match l with
  | [] => []
  | b :: r => ((b || ((start <=? i) && (i <? stop))) : bool) :: set_range (i + 1) start stop r
  end.

Definition fill_row (line : list bool) (start stop : Z) (v : bool) : list bool :=
  if stop <=? start then line
  else
    let need := (8 * Z.to_nat ((stop + 7) / 8))%nat in
    let line' := line ++ repeat false (need - length line) in
    if v then set_range 0 start stop line' else line'.

Definition int16 (x : N) : Z := let z := Z.of_N x in if 32768 <=? z then z - 65536 else z.

Definition no_err (r : g3r) : bool := match r_err r with None => true | Some _ => false end.

Fixpoint dec2d (fuel : nat) (p : g3p) (refc : list Z) (cols a0 : Z) (cur : bool)
         (prev_a0 : Z) (prev_cur : bool) (line : list bool) (r : g3r) : list bool * g3r :=
  match fuel with
  | O => (line, r)
  | S fuel' =>
    if (a0 <? cols) && no_err r then
      if (a0 =? prev_a0) && Bool.eqb cur prev_cur then (line, set_err r Malformed)
      else
        let '(v, r1) := peek 7 r in
        let st := tget mainS v in
        if (st =? st_eol)%N then
          (* the Go code looks at 11 bits here and goes on to the end of the line *)
          let '(_, r2) := peek 11 r1 in (line, r2)
        else
          let r2 := consume (N.to_nat (tget mainW v)) r1 in
          let '(b1, b2) := find_b1b2 p refc cols a0 cur in
          if (st =? st_pass)%N then
            dec2d fuel' p refc cols b2 cur a0 cur (fill_row line a0 b2 cur) r2
          else if (st =? st_horiz)%N then
            let '(n1, r3) := decode_full_run (g_cols p) (Bool.eqb cur (white_bit p)) r2 in
            let a0' := Z.max a0 0 in
            let k1 := Z.min (Z.of_N n1) (cols - a0') in
            let line1 := fill_row line a0' (a0' + k1) cur in
            let a1 := a0' + k1 in
            let '(n2, r4) := decode_full_run (g_cols p) (negb (Bool.eqb cur (white_bit p))) r3 in
            let k2 := Z.min (Z.of_N n2) (cols - a1) in
            let line2 := fill_row line1 a1 (a1 + k2) (negb cur) in
            dec2d fuel' p refc cols (a1 + k2) cur a0 cur line2 r4
          else if (st =? st_vert)%N then
            let a1 := Z.min (b1 + int16 (tget mainP v)) cols in
            dec2d fuel' p refc cols a1 (negb cur) a0 cur (fill_row line a0 a1 cur) r2
          else if (st =? st_ext)%N then (line, set_err r2 Malformed)
          else dec2d fuel' p refc cols a0 cur a0 cur line r2
    else (line, r)
  end.

(* Reader.decodeG4ScanLine *)
Definition g4_line (p : g3p) (ref : bytes) (r : g3r) : list bool * g3r :=
  let cols := Z.of_N (g_cols p) in
  let '(line, r1) := dec2d (S (S (bits_left r))) p (changing p (row_px p ref)) cols (-1) (white_bit p)
                           (-2) (negb (white_bit p)) [] r in
  if negb (g_ignore_eob p) then
    let '(v, r2) := peek 24 r1 in
    if (v =? 4097)%N then (line, set_err (consume 24 r2) EOF) else (line, r2)
  else (line, r1).

(* copy(r.refLine, r.line): the new reference row is the decoded line, followed by what the old
   reference row had beyond it *)
Definition new_ref (ref line : bytes) : bytes := line ++ skipn (length line) ref.

Fixpoint g4_rows (fuel : nat) (p : g3p) (nrows : nat) (ref : bytes) (r : g3r) : bytes * option cls :=
  match fuel with
  | O => ([], Some OutOfFuel)
  | S fuel' =>
    match r_err r with
    | Some e => ([], Some e)
    | None =>
      if negb (Nat.eqb (g_maxrows p) 0) && Nat.leb (g_maxrows p) nrows then ([], Some EOF)
      else
        let r0 := if g_align p then consume (length (r_buf r) mod 8) r else r in
        let '(line, r1) := g4_line p ref r0 in
        match line with
        | [] => ([], match r_err r1 with Some e => Some e | None => Some EOF end)
        | _ =>
          let lb := pack_bits line in
          let '(out, e) := g4_rows fuel' p (S nrows) (new_ref ref lb) r1 in
          (lb ++ out, e)
        end
    end
  end.

Definition g4_dec (p : g3p) (e : bytes) : res bytes :=
  let r := {| r_buf := []; r_rest := e; r_err := None; r_eof := false; r_pad := 0 |} in
  match g4_rows (S (S (8 * length e))) p 0 (white_row p) r with
  | (out, Some EOF) => Ok out
  | (_, Some c) => Err c
  | (_, None) => Err Panic
  end.
