(* Group 4 (K < 0), whole images: the rows of an image, the end-of-facsimile-block code, byte alignment and the
   reference row.  Built on the one-row theorem g4_row_dec of CCITT2DRowProofs.v. *)
From Coq Require Import NArith ZArith Bool List Lia.
From GoPdf.Base Require Import Bytes Res.
From GoPdf.C06 Require Import Machine MachineProofs CCITT CCITTTables CCITTProofs CCITT2D CCITT2DProofs CCITT2DRowProofs.
Import ListNotations.
Open Scope Z_scope.

(* ---- numbers and bits ---- *)

Lemma num_of_inj : forall l1 l2 a1 a2, length l1 = length l2 -> num_of l1 a1 = num_of l2 a2 -> a1 = a2 /\ l1 = l2.
Proof.
  induction l1 as [|b1 l1 IH]; intros [|b2 l2] a1 a2 Hl H; try discriminate.
  - split; [exact H|reflexivity].
  - cbn [num_of] in H. cbn [length] in Hl. destruct (IH l2 _ _ ltac:(lia) H) as [Ha ->].
    destruct b1, b2; split; try reflexivity; try lia; exfalso; lia.
Qed.

Lemma nth_firstn_lt {A} (d : A) : forall n k l, (k < n)%nat -> nth k (firstn n l) d = nth k l d.
Proof.
  induction n as [|n IH]; intros k l Hk; [lia|]. destruct l as [|x l]; [destruct k; reflexivity|].
  destruct k as [|k]; [reflexivity|]. cbn [firstn nth]. apply IH. lia.
Qed.

(* ---- the next row's code never looks like the end-of-facsimile-block code ---- *)

Definition pos_words : list (list bool) :=
  [ [false; false; false; true]; [false; false; true]; [true]; [false; true; true];
    [false; false; false; false; true; true]; [false; false; false; false; false; true; true] ].
Definition neg_words : list (list bool) :=
  [ [false; true; false]; [false; false; false; false; true; false]; [false; false; false; false; false; true; false] ].

(* some known bit among the first 24 differs from the EOFB code *)
Definition differs_known (known : list bool) : bool :=
  existsb (fun k => negb (Bool.eqb (nth k known false) (nth k eofb_bits false))) (seq 0 (Nat.min (length known) 24)).

Lemma differs_sound known Y : differs_known known = true -> firstn 24 (known ++ Y) <> eofb_bits.
Proof.
  unfold differs_known. intros H E. apply existsb_exists in H as (k & Hk & Hd). apply in_seq in Hk.
  assert (Hn : nth k (firstn 24 (known ++ Y)) false = nth k known false).
  { rewrite nth_firstn_lt by lia. apply app_nth1. lia. }
  rewrite E in Hn. rewrite Hn in Hd. rewrite eqb_reflx in Hd. discriminate.
Qed.

Definition mimic_check : bool :=
  forallb (fun q =>
    forallb (fun W => differs_known (repeat false q ++ W)) pos_words &&
    forallb (fun W => forallb (fun W2 => differs_known (repeat false q ++ W ++ W2)) (pos_words ++ neg_words)) neg_words)
    (seq 0 8).
Lemma mimic_check_ok : mimic_check = true.
Proof. vm_compute. reflexivity. Qed.

Lemma vert_bits_word delta : -3 <= delta <= 3 ->
  (0 <= delta -> In (vert_bits delta) pos_words) /\ (delta < 0 -> In (vert_bits delta) neg_words).
Proof.
  intros H. assert (delta = -3 \/ delta = -2 \/ delta = -1 \/ delta = 0 \/ delta = 1 \/ delta = 2 \/ delta = 3) as Hd by lia.
  destruct Hd as [-> | [-> | [-> | [-> | [-> | [-> | ->]]]]]]; (split; intros Hs; [try lia|try lia]); cbn; tauto.
Qed.

Lemma enc2d_word p refc linec cols fuel a0 cur : a0 < cols ->
  exists W Y, In W (pos_words ++ neg_words) /\ enc2d (S fuel) p refc linec cols a0 cur = W ++ Y.
Proof.
  intros Ha. cbn [enc2d]. replace (a0 <? cols) with true by lia.
  destruct (next_two linec cols a0) as [a1 a2]. destruct (find_b1b2 p refc cols a0 cur) as [b1 b2]. cbv zeta.
  destruct (b2 <? a1).
  - do 2 eexists. split; [|reflexivity]. cbn; tauto.
  - destruct ((-3 <=? a1 - b1) && (a1 - b1 <=? 3)) eqn:Ev.
    + do 2 eexists. split; [|reflexivity]. destruct (vert_bits_word (a1 - b1) ltac:(lia)) as [Hp Hn]. apply in_or_app.
      destruct (Z_lt_le_dec (a1 - b1) 0); [right; auto|left; auto].
    + do 2 eexists. split; [|reflexivity]. cbn; tauto.
Qed.

Lemma enc2d_first p refc linec lo cols : incr lo refc -> Forall (fun x => x < cols) refc ->
  forall fuel a0 cur, a0 < cols ->
  (exists W Y, In W pos_words /\ enc2d (S (S fuel)) p refc linec cols a0 cur = W ++ Y) \/
  (exists W W2 Y, In W neg_words /\ In W2 (pos_words ++ neg_words) /\ enc2d (S (S fuel)) p refc linec cols a0 cur = W ++ W2 ++ Y).
Proof.
  intros Hri Hrf fuel a0 cur Ha.
  pose proof (find_b1b2_spec p refc cols a0 cur lo Hri Hrf Ha) as Hb.
  cbn [enc2d]. replace (a0 <? cols) with true by lia.
  destruct (next_two linec cols a0) as [a1 a2]. destruct (find_b1b2 p refc cols a0 cur) as [b1 b2]. cbv zeta.
  destruct Hb as (B1 & B2 & B3).
  destruct (b2 <? a1).
  - left. do 2 eexists. split; [|reflexivity]. cbn; tauto.
  - destruct ((-3 <=? a1 - b1) && (a1 - b1 <=? 3)) eqn:Ev.
    + destruct (vert_bits_word (a1 - b1) ltac:(lia)) as [Hp Hn]. destruct (Z_lt_le_dec (a1 - b1) 0) as [Hneg|Hpos].
      * right. destruct (enc2d_word p refc linec cols fuel a1 (negb cur) ltac:(lia)) as (W2 & Y & HW2 & E).
        exists (vert_bits (a1 - b1)), W2, Y. split; [auto|]. split; [assumption|].
        cbn [enc2d] in E. rewrite E. reflexivity.
      * left. do 2 eexists. split; [|reflexivity]. auto.
    + left. do 2 eexists. split; [|reflexivity]. cbn; tauto.
Qed.

Lemma no_mimic p ref row q X : (0 < g_cols p)%N -> (q < 8)%nat ->
  firstn 24 (repeat false q ++ row2d_bits p ref row ++ X) <> eofb_bits.
Proof.
  intros Hc Hq. destruct (changing_bound p ref) as [Ri Rf].
  pose proof mimic_check_ok as Hm. unfold mimic_check in Hm. rewrite forallb_forall in Hm.
  specialize (Hm q ltac:(apply in_seq; lia)). apply andb_true_iff in Hm as [Hm1 Hm2]. rewrite forallb_forall in Hm1, Hm2.
  unfold row2d_bits.
  destruct (enc2d_first p _ (changing p (row_px p row)) (0 - 1) (Z.of_N (g_cols p)) Ri Rf (N.to_nat (g_cols p)) (-1) (white_bit p)
              ltac:(lia)) as [(W & Y & HW & ->) | (W & W2 & Y & HW & HW2 & ->)].
  - rewrite <- app_assoc, app_assoc. apply differs_sound. apply Hm1. assumption.
  - specialize (Hm2 W HW). rewrite forallb_forall in Hm2. specialize (Hm2 W2 HW2).
    replace (repeat false q ++ (W ++ W2 ++ Y) ++ X) with ((repeat false q ++ W ++ W2) ++ Y ++ X) by (rewrite <- !app_assoc; reflexivity).
    apply differs_sound. assumption.
Qed.

(* ---- the encoder's bit stream ---- *)

Definition chunk4 (p : g3p) (ref row : bytes) : list bool :=
  if g_align p then pad_to_byte (row2d_bits p ref row) else row2d_bits p ref row.
Definition close4 (p : g3p) : list bool := if g_ignore_eob p then [] else eofb_bits.
Fixpoint rows4_bits (p : g3p) (ref : bytes) (rows : list bytes) : list bool :=
  match rows with [] => [] | row :: rest => chunk4 p ref row ++ rows4_bits p row rest end.
Definition img4_bits (p : g3p) (ref : bytes) (rows : list bytes) : list bool := rows4_bits p ref rows ++ close4 p.

Lemma enc_fold4 p : forall rows (ref : list byte) pend, (g_align p = true -> pend = []) ->
  (g_align p = true -> snd (fst (rows_fold (g4_enc_row p) (ref, pend) rows)) = []) /\
  forall c, snd (rows_fold (g4_enc_row p) (ref, pend) rows) ++
            pack_bits (snd (fst (rows_fold (g4_enc_row p) (ref, pend) rows)) ++ c) =
            pack_bits (pend ++ rows4_bits p ref rows ++ c).
Proof.
  induction rows as [|row rows IH]; intros ref pend Hp.
  - cbn [rows_fold fst snd rows4_bits app]. split; [assumption|reflexivity].
  - cbn [rows_fold]. unfold g4_enc_row at 1 3 5.
    set (bits' := if g_align p then pad_to_byte (pend ++ row2d_bits p ref row) else pend ++ row2d_bits p ref row).
    assert (Hb : bits' = pend ++ chunk4 p ref row).
    { subst bits'. unfold chunk4. destruct (g_align p); [rewrite (Hp eq_refl)|]; reflexivity. }
    pose proof (pack_full_spec bits') as (S1 & S2 & S3). pose proof (pack_bits_full bits') as PF.
    destruct (pack_full bits') as [bs rest]. cbn [fst snd] in *.
    assert (Hr : g_align p = true -> rest = []).
    { intros Ha. subst bits'. rewrite Ha in S3. rewrite pad_to_byte_mod in S3. destruct rest; [reflexivity|discriminate]. }
    specialize (IH row rest Hr).
    destruct (rows_fold (g4_enc_row p) (row, rest) rows) as [[ref' pend'] out]. cbn [fst snd] in *.
    destruct IH as [I1 I2]. split; [assumption|]. intros c. rewrite <- app_assoc, I2.
    cbn [rows4_bits]. rewrite <- (PF (rows4_bits p row rows ++ c)), Hb, <- !app_assoc. reflexivity.
Qed.

Lemma enc_fold4_start p rows (ref : bytes) c :
  snd (rows_fold (g4_enc_row p) (ref, []) rows) ++ pack_bits (snd (fst (rows_fold (g4_enc_row p) (ref, []) rows)) ++ c) =
  pack_bits (rows4_bits p ref rows ++ c).
Proof. exact (proj2 (enc_fold4 p rows ref [] (fun _ => eq_refl)) c). Qed.

Lemma g4_enc_bits p rows : (0 < g_cols p)%N -> Forall (row_ok p) rows ->
  g4_enc p (concat rows) = pack_bits (img4_bits p (white_row p) rows).
Proof.
  intros Hc Hok.
  assert (Hlb : (0 < line_bytes p)%nat).
  { unfold line_bytes. assert (1 <= (g_cols p + 7) / 8)%N by (apply N.div_le_lower_bound; lia). lia. }
  assert (Hlen : Forall (fun r => length r = line_bytes p) rows) by (eapply Forall_impl; [|exact Hok]; intros r Hr; apply Hr).
  unfold g4_enc. rewrite (rows_run (line_bytes p) (g4_enc_row p) Hlb rows (white_row p, []) Hlen).
  pose proof (enc_fold4_start p rows (white_row p) (close4 p)) as E. revert E.
  destruct (rows_fold (g4_enc_row p) (white_row p, []) rows) as [[ref' pend'] out]. cbn [fst snd rp rows_init]. intros E.
  fold (close4 p). rewrite E. reflexivity.
Qed.

(* ---- byte alignment: the fill bits before a row are skipped ---- *)

Lemma align_skip p r rb q body : good r rb -> real r rb = repeat false q ++ body ->
  (g_align p = true -> (q < 8)%nat /\ (length body mod 8 = 0)%nat) -> (g_align p = false -> q = 0%nat) ->
  exists r0 rb0, (if g_align p then consume (length (r_buf r) mod 8) r else r) = r0 /\ good r0 rb0 /\ real r0 rb0 = body.
Proof.
  intros G Hs Ha Hna. destruct (g_align p) eqn:Eal.
  - destruct (Ha eq_refl) as [Hq Hm].
    assert (Hmod : (length (r_buf r) mod 8 = q)%nat).
    { rewrite (buf_real_mod r rb G), Hs, !app_length, !repeat_length.
      rewrite <- Nat.add_mod_idemp_r, Hm, Nat.add_0_r by lia. apply Nat.mod_small. assumption. }
    rewrite Hmod. destruct (consume_good q r rb G ltac:(lia)) as (rb0 & G0 & R0).
    { rewrite Hs, app_length, repeat_length. lia. }
    exists (consume q r), rb0. split; [reflexivity|]. split; [assumption|].
    rewrite R0, Hs, skipn_app, repeat_length, Nat.sub_diag. rewrite skipn_all2 by (rewrite repeat_length; lia). reflexivity.
  - rewrite (Hna eq_refl) in Hs. exists r, rb. split; [reflexivity|]. split; [assumption|exact Hs].
Qed.

(* ---- the end of the data ---- *)

Lemma firstn_zeros a b : firstn a (repeat false (a + b)) = repeat false a.
Proof. induction a; cbn [Nat.add repeat firstn]; [reflexivity|f_equal; auto]. Qed.

Lemma eol_word_in : In (repeat false 7, (st_eol, 0%N)) mode_codes.
Proof. unfold mode_codes. cbn. tauto. Qed.

Lemma g4_line_end p ref r rb j : (0 < g_cols p)%N -> good r rb -> real r rb = close4 p ++ repeat false j ->
  exists r1, g4_line p ref r = ([], r1) /\ (r_err r1 = None \/ r_err r1 = Some EOF).
Proof.
  intros Hc G Hs. destruct st2_values as (V1 & V2 & V3 & V4 & V5).
  unfold g4_line. cbn [dec2d]. unfold no_err. rewrite (proj1 G).
  replace (-1 <? Z.of_N (g_cols p)) with true by lia. cbn [andb]. change (-1 =? -2) with false. cbn [andb].
  destruct (peek_good 7 r rb G ltac:(lia)) as (rb1 & Pv & G1 & R1).
  destruct (peek 7 r) as [v r1]. cbn [fst snd] in *.
  assert (Hz : firstn 7 (real r rb ++ repeat false 7) = repeat false 7).
  { rewrite Hs. unfold close4, eofb_bits, eol_bits. destruct (g_ignore_eob p).
    - cbn [app]. rewrite <- repeat_app. replace (j + 7)%nat with (7 + j)%nat by lia. apply firstn_zeros.
    - reflexivity. }
  pose proof (mode_code _ (firstn 7 (real r rb ++ repeat false 7)) eol_word_in) as Ht.
  rewrite Hz in Ht. specialize (Ht eq_refl eq_refl). unfold main_entry in Ht. rewrite <- Hz, <- Pv in Ht.
  apply pair_equal_spec in Ht as [Ht1 Ht3]. apply pair_equal_spec in Ht1 as [Ht1 Ht2]. cbn [fst snd] in Ht2.
  rewrite Ht2. replace (st_eol =? st_eol)%N with true by lia.
  destruct (peek_good 11 r1 rb1 G1 ltac:(lia)) as (rb2 & _ & G2 & R2).
  destruct (peek 11 r1) as [v2 r2]. cbn [fst snd] in *.
  unfold close4 in Hs. destruct (g_ignore_eob p); cbn [negb].
  - exists r2. split; [reflexivity|]. left. apply G2.
  - destruct (peek_good 24 r2 rb2 G2 ltac:(lia)) as (rb3 & Pv3 & G3 & R3).
    destruct (peek 24 r2) as [v3 r3]. cbn [fst snd] in *.
    rewrite R2, R1, Hs in Pv3. rewrite <- app_assoc in Pv3.
    change 24%nat with (length eofb_bits + 0)%nat in Pv3. rewrite firstn_app_2 in Pv3. cbn [firstn] in Pv3. rewrite app_nil_r in Pv3.
    change (num_of eofb_bits 0) with 4097%N in Pv3. rewrite Pv3. change (4097 =? 4097)%N with true. cbv iota.
    eexists. split; [reflexivity|]. right. reflexivity.
Qed.

(* ---- the rows of an image ---- *)

Lemma chunk4_split p ref row : exists k, chunk4 p ref row = row2d_bits p ref row ++ repeat false k /\
  (k = if g_align p then ((8 - length (row2d_bits p ref row) mod 8) mod 8)%nat else 0%nat).
Proof.
  unfold chunk4, pad_to_byte. destruct (g_align p); eexists; (split; [|reflexivity]); [reflexivity|].
  cbn [repeat]. symmetry. apply app_nil_r.
Qed.

Lemma row_line p row : (0 < g_cols p)%N -> row_ok p row ->
  flat_map bits8 row <> [] /\ pack_bits (flat_map bits8 row) = row.
Proof.
  intros Hc (Hl & Hwf & _). split; [|apply pack_bits_bytes; assumption].
  assert (Hlb : (0 < line_bytes p)%nat).
  { unfold line_bytes. assert (1 <= (g_cols p + 7) / 8)%N by (apply N.div_le_lower_bound; lia). lia. }
  intros E. apply (f_equal (@length bool)) in E. rewrite flat_bits_length in E. cbn in E. lia.
Qed.

Lemma g4_rows_err p fuel nrows ref r e : r_err r = Some e -> g4_rows (S fuel) p nrows ref r = ([], Some e).
Proof. intros H. cbn [g4_rows]. rewrite H. reflexivity. Qed.

Lemma g4_rows_rt p (Hc : (0 < g_cols p)%N) : forall rows ref nrows fuel r rb q j,
  good r rb -> real r rb = repeat false q ++ img4_bits p ref rows ++ repeat false j ->
  (g_align p = true -> (q < 8)%nat /\ ((length (img4_bits p ref rows) + j) mod 8 = 0)%nat) ->
  (g_align p = false -> q = 0%nat) -> (j < 8)%nat ->
  (g_maxrows p = 0%nat \/ (nrows + length rows <= g_maxrows p)%nat) ->
  Forall (row_ok p) rows -> length ref = line_bytes p -> (length rows + 1 < fuel)%nat ->
  g4_rows fuel p nrows ref r = (concat rows, Some EOF).
Proof.
  induction rows as [|row rows IH]; intros ref nrows fuel r rb q j G Hs Ha Hna Hj Hmax Hok Hrl Hf;
    (destruct fuel as [|fuel]; [lia|]); cbn [g4_rows]; rewrite (proj1 G).
  - (* after the last row *)
    destruct (negb (Nat.eqb (g_maxrows p) 0) && Nat.leb (g_maxrows p) nrows) eqn:Em; [reflexivity|].
    unfold img4_bits in Hs, Ha. cbn [rows4_bits app] in Hs, Ha.
    destruct (align_skip p r rb q (close4 p ++ repeat false j) G Hs) as (r0 & rb0 & -> & G0 & R0).
    { intros Hal. destruct (Ha Hal) as [Hq Hm]. split; [assumption|]. rewrite app_length, repeat_length. assumption. }
    { assumption. }
    destruct (g4_line_end p ref r0 rb0 j Hc G0 R0) as (r1 & -> & [He | He]); rewrite He; reflexivity.
  - (* one more row *)
    pose proof (Forall_inv Hok) as Hrow. pose proof (Forall_inv_tail Hok) as Hok'.
    replace (negb (Nat.eqb (g_maxrows p) 0) && Nat.leb (g_maxrows p) nrows) with false.
    2:{ symmetry. cbn [length] in Hmax. destruct Hmax as [-> | Hm]; [reflexivity|].
        apply andb_false_iff. right. apply Nat.leb_gt. lia. }
    unfold img4_bits in Hs, Ha. cbn [rows4_bits] in Hs, Ha. rewrite <- !app_assoc in Hs.
    destruct (chunk4_split p ref row) as (q' & Hck & Hq').
    assert (Hc8 : g_align p = true -> (length (chunk4 p ref row) mod 8 = 0)%nat).
    { intros Hal. unfold chunk4. rewrite Hal. apply pad_to_byte_mod. }
    destruct (align_skip p r rb q (chunk4 p ref row ++ rows4_bits p row rows ++ close4 p ++ repeat false j) G Hs)
      as (r0 & rb0 & -> & G0 & R0).
    { intros Hal. destruct (Ha Hal) as [Hq Hm]. split; [assumption|].
      rewrite !app_length, repeat_length. rewrite !app_length in Hm. rewrite !Nat.add_assoc. exact Hm. }
    { assumption. }
    rewrite Hck, <- !app_assoc in R0.
    destruct (g4_row_dec p ref row r0 rb0 _ Hc Hrow G0 R0) as (r1 & rb1 & G1 & R1 & D1).
    destruct (row_line p row Hc Hrow) as [Hne Hpack].
    assert (Hnr : new_ref ref row = row).
    { unfold new_ref. rewrite skipn_all2 by (rewrite Hrl; destruct Hrow as (Hl & _); lia). apply app_nil_r. }
    (* what follows the row: the next rows or the end of the data *)
    assert (Hcont : forall rX rbX, good rX rbX -> real rX rbX = real r1 rb1 ->
              g4_rows fuel p (S nrows) row rX = (concat rows, Some EOF)).
    { intros rX rbX GX RX. apply (IH row (S nrows) fuel rX rbX q' j GX).
      - rewrite RX, R1. unfold img4_bits. rewrite <- !app_assoc. reflexivity.
      - intros Hal. split.
        + rewrite Hq', Hal. apply Nat.mod_upper_bound. lia.
        + destruct (Ha Hal) as [_ Hm]. specialize (Hc8 Hal). unfold img4_bits. rewrite !app_length in *.
          clear - Hm Hc8. rewrite <- !Nat.add_assoc in Hm.
          rewrite <- Nat.add_mod_idemp_l, Hc8, Nat.add_0_l in Hm by lia. rewrite <- Nat.add_assoc. exact Hm.
      - intros Hal. rewrite Hq', Hal. reflexivity.
      - assumption.
      - cbn [length] in Hmax. destruct Hmax as [Hm0|Hm0]; [left; assumption|right; lia].
      - assumption.
      - apply Hrow.
      - cbn [length] in Hf. lia. }
    unfold g4_line. fold (Z.of_N (g_cols p)). rewrite D1.
    destruct (g_ignore_eob p) eqn:Ei; cbn [negb].
    + destruct (flat_map bits8 row) as [|x l] eqn:El; [congruence|]. rewrite Hpack, Hnr.
      rewrite (Hcont r1 rb1 G1 eq_refl). reflexivity.
    + destruct (peek_good 24 r1 rb1 G1 ltac:(lia)) as (rb2 & Pv & G2 & R2).
      destruct (peek 24 r1) as [v r2]. cbn [fst snd] in *.
      destruct (v =? 4097)%N eqn:Ev.
      * (* this can only be the end of the data *)
        apply N.eqb_eq in Ev. rewrite Pv in Ev. change 4097%N with (num_of eofb_bits 0) in Ev.
        apply num_of_inj in Ev as [_ Ev].
        2:{ rewrite firstn_length_le; [reflexivity|]. rewrite app_length, repeat_length. lia. }
        destruct rows as [|row' rows].
        -- destruct (flat_map bits8 row) as [|x l] eqn:El; [congruence|]. rewrite Hpack, Hnr.
           destruct fuel as [|fuel]; [cbn [length] in Hf; lia|]. rewrite g4_rows_err with (e := EOF) by reflexivity.
           cbn [concat]. reflexivity.
        -- exfalso. rewrite R1 in Ev. cbn [rows4_bits] in Ev.
           destruct (chunk4_split p row row') as (q2 & Hck2 & _). rewrite Hck2, <- !app_assoc in Ev.
           apply (no_mimic p row row' q' _ Hc) in Ev; [assumption|].
           rewrite Hq'. destruct (g_align p); [apply Nat.mod_upper_bound|]; lia.
      * destruct (flat_map bits8 row) as [|x l] eqn:El; [congruence|]. rewrite Hpack, Hnr.
        rewrite (Hcont r2 rb2 G2 R2). reflexivity.
Qed.

Lemma chunk4_pos p ref row : (0 < g_cols p)%N -> (1 <= length (chunk4 p ref row))%nat.
Proof.
  intros Hc. assert (H : (1 <= length (row2d_bits p ref row))%nat).
  { unfold row2d_bits.
    destruct (enc2d_word p (changing p (row_px p ref)) (changing p (row_px p row)) (Z.of_N (g_cols p))
                (S (N.to_nat (g_cols p))) (-1) (white_bit p) ltac:(lia)) as (W & Y & HW & ->).
    rewrite app_length. assert (1 <= length W)%nat; [|lia].
    unfold pos_words, neg_words in HW. cbn [app In] in HW.
    repeat (destruct HW as [<-|HW]; [cbn; lia|]). contradiction. }
  unfold chunk4, pad_to_byte. destruct (g_align p); [rewrite app_length|]; lia.
Qed.

Lemma img4_bits_rows p : (0 < g_cols p)%N -> forall rows ref, (length rows <= length (img4_bits p ref rows))%nat.
Proof.
  intros Hc rows ref. unfold img4_bits. rewrite app_length.
  assert (H : (length rows <= length (rows4_bits p ref rows))%nat).
  { revert ref. induction rows as [|row rows IH]; intros ref; [cbn; lia|]. cbn [rows4_bits length]. rewrite app_length.
    pose proof (chunk4_pos p ref row Hc). specialize (IH row). lia. }
  lia.
Qed.

Lemma white_row_length p : length (white_row p) = line_bytes p.
Proof. unfold white_row. apply repeat_length. Qed.

(* Group 4: every image of whole rows survives encoding and decoding *)
Theorem g4_rt_proof p rows :
  (0 < g_cols p)%N -> Forall (row_ok p) rows ->
  (g_maxrows p = 0%nat \/ (length rows <= g_maxrows p)%nat) ->
  g4_dec p (g4_enc p (concat rows)) = Ok (concat rows).
Proof.
  intros Hc Hok Hmax. rewrite (g4_enc_bits p rows Hc Hok). unfold g4_dec.
  set (bits := img4_bits p (white_row p) rows). set (e := pack_bits bits).
  set (r0 := {| r_buf := []; r_rest := e; r_err := None; r_eof := false; r_pad := 0 |}).
  assert (G0 : good r0 []). { unfold good, r0; cbn. repeat split; auto; discriminate. }
  assert (R0 : real r0 [] = repeat false 0 ++ bits ++ repeat false ((8 - length bits mod 8) mod 8)).
  { unfold real, r0. cbn [r_rest app repeat]. subst e. apply pack_bits_spec. }
  assert (He : (length bits <= 8 * length e)%nat).
  { rewrite <- flat_bits_length. subst e. rewrite pack_bits_spec. unfold pad_to_byte. rewrite app_length. lia. }
  pose proof (img4_bits_rows p Hc rows (white_row p)) as Hr. fold bits in Hr.
  rewrite (g4_rows_rt p Hc rows (white_row p) 0 (S (S (8 * length e))) r0 [] 0 _ G0 R0).
  - reflexivity.
  - intros _. split; [lia|]. pose proof (pad_to_byte_mod bits) as H. unfold pad_to_byte in H.
    rewrite app_length, repeat_length in H. exact H.
  - reflexivity.
  - apply Nat.mod_upper_bound. lia.
  - cbn [Nat.add]. assumption.
  - assumption.
  - apply white_row_length.
  - lia.
Qed.

(* ---- with the row limit of FilterCCITTFax.toParams ---- *)

From GoPdf.C06 Require Import FilterParams CCITTParams.

Theorem g4_encode_rt p rows e :
  (0 < g_cols p)%N -> Forall (row_ok p) rows -> g4_encode p rows = Ok e -> g4_dec p e = Ok (concat rows).
Proof.
  intros Hc Hok. unfold g4_encode, rows_accepted.
  destruct (Nat.eqb (g_maxrows p) 0 || Nat.leb (length rows) (g_maxrows p)) eqn:E; [|discriminate].
  intros H. inversion H; subst. apply g4_rt_proof; try assumption.
  apply orb_true_iff in E as [E|E]; [left; apply Nat.eqb_eq, E|right; apply Nat.leb_le, E].
Qed.

Theorem ccitt_filter_rt4 c rows e :
  validate_ccitt c = true -> 0 <= c_columns c -> Forall (row_ok (g3p_of c)) rows ->
  g4_encode (g3p_of c) rows = Ok e ->
  g4_dec (g3p_of c) e = Ok (concat rows) /\ (length rows <= Z.to_nat (ccitt_max_rows (c_columns c) (c_rows c)))%nat.
Proof.
  intros Hv Hcols Hok He. split.
  - apply (g4_encode_rt (g3p_of c) rows e); try assumption. unfold g3p_of; cbn [g_cols].
    destruct (c_columns c =? 0) eqn:E; lia.
  - unfold g4_encode, rows_accepted in He. cbn [g3p_of g_maxrows] in He.
    pose proof (ccitt_max_rows_pos (c_columns c) (c_rows c)).
    destruct (Nat.eqb (Z.to_nat (ccitt_max_rows (c_columns c) (c_rows c))) 0) eqn:E0; [apply Nat.eqb_eq in E0; lia|].
    cbn [orb] in He. destruct (Nat.leb (length rows) (Z.to_nat (ccitt_max_rows (c_columns c) (c_rows c)))) eqn:E1; [|discriminate].
    apply Nat.leb_le, E1.
Qed.
