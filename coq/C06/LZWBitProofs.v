(* LZW, bit level: the byte-at-a-time decoder, fed the bytes the packer makes of a list of
   (width, code) pairs, does what code-level decoding does - provided the decoder is at the packer's
   width at every code (which LZWCodeProofs establishes for the encoder's output). *)
From Coq Require Import List NArith ZArith Bool Lia ZifyN ZifyNat ZifyBool FMapPositive.
From GoPdf.Base Require Import Bytes Res.
From GoPdf.C06 Require Import Machine MachineProofs LZW LZWCodeProofs.
Import ListNotations.
Open Scope N_scope.

Definition with_bits (d : lzw_dst) (a n : N) : lzw_dst :=
  {| ld_acc := a; ld_n := n; ld_width := ld_width d; ld_hi := ld_hi d; ld_last := ld_last d;
     ld_tbl := ld_tbl d; ld_status := ld_status d |}.

Definition obs (p : lzw_dst * list byte) : lzw_status * list byte := (ld_status (fst p), snd p).

Lemma dec_code_with_bits ec d a n c :
  lzw_dec_code ec (with_bits d a n) c = let '(d1, o) := lzw_dec_code ec d c in (with_bits d1 a n, o).
Proof.
  unfold lzw_dec_code, lzw_bump, lzw_set_status, with_bits.
  cbn [ld_acc ld_n ld_width ld_hi ld_last ld_tbl ld_status].
  destruct (c =? lzw_clear_code); [reflexivity|].
  destruct (c =? lzw_eod_code); [reflexivity|].
  destruct (c <=? ld_hi d); [|reflexivity].
  destruct (match ld_last d with Some l => lzw_str (ld_tbl d) l | None => None end) as [sl|];
    [destruct (c =? ld_hi d)|]; try destruct (lzw_str (ld_tbl d) c); try reflexivity;
    destruct (2 ^ ld_width d <=? ld_hi d + 1 + ec); try destruct (lzw_max_width <=? ld_width d); reflexivity.
Qed.

Lemma with_bits_status d a n : ld_status (with_bits d a n) = ld_status d.
Proof. reflexivity. Qed.

Lemma with_bits_twice d a n a' n' : with_bits (with_bits d a n) a' n' = with_bits d a' n'.
Proof. reflexivity. Qed.

Lemma obs_dec_codes_bits ec : forall cs d a n,
  obs (dec_codes ec (with_bits d a n) cs) = obs (dec_codes ec d cs).
Proof.
  induction cs as [|[w c] cs IH]; intros d a n; cbn [dec_codes]; [reflexivity|].
  rewrite with_bits_status. change (ld_width (with_bits d a n)) with (ld_width d).
  destruct (ld_status d) eqn:Es; try (unfold obs; cbn; rewrite Es; reflexivity).
  destruct (w =? ld_width d); [|reflexivity].
  rewrite dec_code_with_bits. destruct (lzw_dec_code ec d c) as [d1 o1].
  specialize (IH d1 a n). unfold obs in *.
  destruct (dec_codes ec (with_bits d1 a n) cs) as [d2 o2]. destruct (dec_codes ec d1 cs) as [d3 o3].
  cbn [fst snd] in *. inversion IH; subst. rewrite H0. reflexivity.
Qed.

Lemma run_stopped ec : forall bs d, ld_status d <> LZ_Run -> run (lzw_dec_step ec) d bs = (d, []).
Proof.
  induction bs as [|b bs IH]; intros d H; cbn [run]; [reflexivity|].
  unfold lzw_dec_step at 1. destruct (ld_status d) eqn:E; [congruence| |]; rewrite IH by congruence; reflexivity.
Qed.

Lemma dec_codes_stopped ec cs d : ld_status d <> LZ_Run -> dec_codes ec d cs = (d, []).
Proof. intros H. destruct cs as [|[w c] cs]; cbn [dec_codes]; [reflexivity|]. destruct (ld_status d); congruence. Qed.

(* ---- the packer ---- *)

Lemma flush1 acc n : 8 <= n -> n < 16 ->
  bits_flush 3 acc n = ([acc / 2 ^ (n - 8)], {| b_acc := acc mod 2 ^ (n - 8); b_n := n - 8 |}).
Proof.
  intros H1 H2. cbn [bits_flush]. replace (8 <=? n) with true by lia. replace (8 <=? n - 8) with false by lia. reflexivity.
Qed.

Lemma flush2 acc n : 16 <= n -> n < 24 ->
  bits_flush 3 acc n = ([acc / 2 ^ (n - 8); acc mod 2 ^ (n - 8) / 2 ^ (n - 8 - 8)],
                        {| b_acc := acc mod 2 ^ (n - 8) mod 2 ^ (n - 8 - 8); b_n := n - 8 - 8 |}).
Proof.
  intros H1 H2. cbn [bits_flush]. replace (8 <=? n) with true by lia. replace (8 <=? n - 8) with true by lia.
  replace (8 <=? n - 8 - 8) with false by lia. reflexivity.
Qed.

Definition pack_from (p : bit_st) (cs : list (N * N)) : bytes :=
  let '(st, out) := run pack_step p cs in out ++ pack_close st.

Lemma pack_from_cons p w c cs :
  pack_from p ((w, c) :: cs) =
  let '(bs, st') := bits_flush 3 (b_acc p * 2 ^ w + c) (b_n p + w) in bs ++ pack_from st' cs.
Proof.
  unfold pack_from. cbn [run]. unfold pack_step at 1.
  destruct (bits_flush 3 (b_acc p * 2 ^ w + c) (b_n p + w)) as [bs st'].
  destruct (run pack_step st' cs) as [st2 o2]. rewrite app_assoc. reflexivity.
Qed.

(* ---- arithmetic of bit positions (r pending bits in the packer, code width w) ---- *)

Ltac pows := repeat match goal with
  | |- context [2 ^ ?e] => let v := eval vm_compute in (2 ^ e) in change (2 ^ e) with v
  | H : context [2 ^ ?e] |- _ => let v := eval vm_compute in (2 ^ e) in change (2 ^ e) with v in H
  end.

Ltac split_r r :=
  let H := fresh in
  assert (H : r = 0 \/ r = 1 \/ r = 2 \/ r = 3 \/ r = 4 \/ r = 5 \/ r = 6 \/ r = 7) by lia;
  destruct H as [H|[H|[H|[H|[H|[H|[H|H]]]]]]]; subst r.
Ltac split_w w :=
  let H := fresh in
  assert (H : w = 9 \/ w = 10 \/ w = 11 \/ w = 12) by lia;
  destruct H as [H|[H|[H|H]]]; subst w.

Lemma first_byte_arith r c t : 1 <= r -> r <= 7 -> t < 2 ^ (8 - r) ->
  ((c / 2 ^ r) * 256 + ((c mod 2 ^ r) * 2 ^ (8 - r) + t)) / 2 ^ (8 - r) = c /\
  ((c / 2 ^ r) * 256 + ((c mod 2 ^ r) * 2 ^ (8 - r) + t)) mod 2 ^ (8 - r) = t.
Proof. intros H1 H2 Ht. split_r r; try (exfalso; clear - H1; lia); pows; lia. Qed.

Lemma pack_arith r w a c : r <= 7 -> 9 <= w -> w <= 12 -> a < 2 ^ r -> c < 2 ^ w ->
  (a * 2 ^ w + c) / 2 ^ (r + w - 8) = a * 2 ^ (8 - r) + c / 2 ^ (r + w - 8) /\
  c / 2 ^ (r + w - 8) < 2 ^ (8 - r) /\
  (a * 2 ^ w + c) mod 2 ^ (r + w - 8) = c mod 2 ^ (r + w - 8).
Proof. intros H1 H2 H3 Ha Hc. split_r r; split_w w; pows; lia. Qed.

Lemma pack_arith2 r w c : r <= 7 -> 9 <= w -> w <= 12 -> 16 <= r + w ->
  (c / 2 ^ (r + w - 8)) * 256 + (c mod 2 ^ (r + w - 8)) / 2 ^ (r + w - 8 - 8) = c / 2 ^ (r + w - 8 - 8) /\
  (c mod 2 ^ (r + w - 8)) mod 2 ^ (r + w - 8 - 8) = c mod 2 ^ (r + w - 8 - 8).
Proof.
  intros H1 H2 H3 H4. split_r r; split_w w; try (exfalso; clear - H4; lia); pows.
  all: lia.
Qed.

Lemma mod_pow2_lt c r : c mod 2 ^ r < 2 ^ r.
Proof. apply N.mod_lt, N.pow_nonzero. discriminate. Qed.

Section Bits.
  Variable ec : N.

  Lemma with_bits_run d0 a n : ld_status d0 = LZ_Run ->
    {| ld_acc := a; ld_n := n; ld_width := ld_width d0; ld_hi := ld_hi d0; ld_last := ld_last d0;
       ld_tbl := ld_tbl d0; ld_status := LZ_Run |} = with_bits d0 a n.
  Proof. intros H. unfold with_bits. rewrite H. reflexivity. Qed.

  Lemma step_pending d0 v n b : ld_status d0 = LZ_Run -> n + 8 < ld_width d0 ->
    lzw_dec_step ec (with_bits d0 v n) b = (with_bits d0 (v * 256 + b) (n + 8), []).
  Proof.
    intros Hrun Hn. unfold lzw_dec_step. cbn [with_bits ld_status ld_acc ld_n ld_width ld_hi ld_last ld_tbl].
    rewrite Hrun. replace (ld_width d0 <=? n + 8) with false by lia.
    rewrite (with_bits_run d0 _ _ Hrun). reflexivity.
  Qed.

  Lemma step_complete d0 v n b : ld_status d0 = LZ_Run -> ld_width d0 <= n + 8 ->
    lzw_dec_step ec (with_bits d0 v n) b =
    let k := n + 8 - ld_width d0 in
    let '(d1, o) := lzw_dec_code ec d0 ((v * 256 + b) / 2 ^ k) in
    (with_bits d1 ((v * 256 + b) mod 2 ^ k) k, o).
  Proof.
    intros Hrun Hn. unfold lzw_dec_step. cbn [with_bits ld_status ld_acc ld_n ld_width ld_hi ld_last ld_tbl].
    rewrite Hrun. replace (ld_width d0 <=? n + 8) with true by lia.
    rewrite (with_bits_run d0 _ _ Hrun). cbv zeta. rewrite dec_code_with_bits. reflexivity.
  Qed.

  Definition done_final (d0 : lzw_dst) (cs : list (N * N)) : Prop :=
    ld_status (fst (dec_codes ec d0 cs)) = LZ_Done.

  Lemma done_final_cons d0 w c cs : ld_status d0 = LZ_Run -> done_final d0 ((w, c) :: cs) ->
    w = ld_width d0 /\ done_final (fst (lzw_dec_code ec d0 c)) cs.
  Proof.
    unfold done_final. intros Hrun. cbn [dec_codes]. rewrite Hrun.
    destruct (w =? ld_width d0) eqn:E; [|cbn; discriminate].
    destruct (lzw_dec_code ec d0 c) as [d1 o1]. cbn [fst]. destruct (dec_codes ec d1 cs) as [d2 o2]. cbn [fst].
    intros H. split; [lia|assumption].
  Qed.

  Lemma obs_prepend (p q : lzw_dst * list byte) o1 : obs p = obs q ->
    obs (let '(s, o) := p in (s, o1 ++ o)) = obs (let '(s, o) := q in (s, o1 ++ o)).
  Proof. destruct p, q. unfold obs. cbn. intros H. inversion H; subst. reflexivity. Qed.

  (* the first byte after a code has been packed completes that code in the decoder *)
  Lemma complete_code d0 w c r t bs : ld_status d0 = LZ_Run -> w = ld_width d0 -> 1 <= r -> r <= 7 -> r < w ->
    t < 2 ^ (8 - r) ->
    run (lzw_dec_step ec) (with_bits d0 (c / 2 ^ r) (w - r)) (((c mod 2 ^ r) * 2 ^ (8 - r) + t) :: bs) =
    let '(d1, o1) := lzw_dec_code ec d0 c in
    let '(d2, o2) := run (lzw_dec_step ec) (with_bits d1 t (8 - r)) bs in (d2, o1 ++ o2).
  Proof.
    intros Hrun Hw H1 H2 H3 Ht. cbn [run]. rewrite step_complete by (try assumption; clear Ht; lia).
    replace (w - r + 8 - ld_width d0) with (8 - r) by (clear Ht; lia). cbv zeta.
    destruct (first_byte_arith r c t H1 H2 Ht) as [E1 E2]. rewrite E1, E2.
    destruct (lzw_dec_code ec d0 c) as [d1 o1]. reflexivity.
  Qed.

  Lemma dec_codes_cons_run d w c cs : ld_status d = LZ_Run -> w = ld_width d ->
    dec_codes ec d ((w, c) :: cs) =
    let '(d1, o1) := lzw_dec_code ec d c in let '(d2, o2) := dec_codes ec d1 cs in (d2, o1 ++ o2).
  Proof. intros Hrun Hw. cbn [dec_codes]. rewrite Hrun. replace (w =? ld_width d) with true by lia. reflexivity. Qed.

  Ltac clear_pow := repeat match goal with H : context [N.pow _ _] |- _ => clear H end.
  Ltac lin := clear_pow; lia.

  Lemma pow2_pos k : 0 < 2 ^ k.
  Proof. apply N.neq_0_lt_0, N.pow_nonzero. discriminate. Qed.

  Lemma bits_main : forall cs,
    (forall d0, ld_status d0 = LZ_Run -> Forall code_ok cs -> done_final d0 cs ->
       obs (run (lzw_dec_step ec) (with_bits d0 0 0) (pack_from {| b_acc := 0; b_n := 0 |} cs)) =
       obs (dec_codes ec d0 cs)) /\
    (forall d0 w c r, ld_status d0 = LZ_Run -> w = ld_width d0 -> code_ok (w, c) -> 1 <= r -> r <= 7 ->
       Forall code_ok cs -> done_final d0 ((w, c) :: cs) ->
       obs (run (lzw_dec_step ec) (with_bits d0 (c / 2 ^ r) (w - r))
                (pack_from {| b_acc := c mod 2 ^ r; b_n := r |} cs)) =
       obs (dec_codes ec d0 ((w, c) :: cs))).
  Proof.
    induction cs as [|[w2 c2] cs [IHA IHB]].
    - split.
      + intros d0 Hrun _ Hdone. unfold done_final in Hdone. cbn in Hdone. congruence.
      + intros d0 w c r Hrun Hw Hcode H1 H2 _ Hdone. destruct Hcode as (Hw1 & Hw2 & _). cbn [fst snd] in *.
        unfold pack_from. cbn [run app]. unfold pack_close. cbn [b_n b_acc]. replace (0 <? r) with true by lin.
        replace (c mod 2 ^ r * 2 ^ (8 - r)) with (c mod 2 ^ r * 2 ^ (8 - r) + 0) by apply N.add_0_r.
        rewrite (complete_code d0 w c r 0 [] Hrun Hw H1 H2 ltac:(lin) (pow2_pos _)).
        rewrite (dec_codes_cons_run d0 w c [] Hrun Hw). cbn [run dec_codes].
        destruct (lzw_dec_code ec d0 c) as [d1 o1]. reflexivity.
    - split.
      + (* packer empty, next code (w2, c2) *)
        intros d0 Hrun Hok Hdone. pose proof (Forall_inv Hok) as Hcode2. pose proof (Forall_inv_tail Hok) as Hok'.
        destruct (done_final_cons d0 w2 c2 cs Hrun Hdone) as [Hw _].
        assert (Hw1 : 9 <= w2) by apply Hcode2. assert (Hw2 : w2 <= 12) by apply Hcode2. cbn [fst] in Hw1, Hw2.
        rewrite pack_from_cons. cbn [b_acc b_n]. rewrite flush1 by lin.
        replace (0 * 2 ^ w2 + c2) with c2 by (rewrite N.mul_0_l; reflexivity).
        replace (0 + w2 - 8) with (w2 - 8) by lin. cbn [app].
        cbn [run]. rewrite step_pending by (try assumption; lin).
        replace (0 * 256 + c2 / 2 ^ (w2 - 8)) with (c2 / 2 ^ (w2 - 8)) by (rewrite N.mul_0_l; reflexivity).
        replace (0 + 8) with (w2 - (w2 - 8)) by lin.
        specialize (IHB d0 w2 c2 (w2 - 8) Hrun Hw Hcode2 ltac:(lin) ltac:(lin) Hok' Hdone).
        destruct (run (lzw_dec_step ec) _ _) as [s o]. exact IHB.
      + (* r bits of (w, c) pending in the packer, next code (w2, c2) *)
        intros d0 w c r Hrun Hw Hcode H1 H2 Hok Hdone.
        pose proof (Forall_inv Hok) as Hcode2. pose proof (Forall_inv_tail Hok) as Hok'.
        assert (Hw1 : 9 <= w) by apply Hcode. assert (Hw2 : w <= 12) by apply Hcode.
        assert (Hv1 : 9 <= w2) by apply Hcode2. assert (Hv2 : w2 <= 12) by apply Hcode2. cbn [fst] in Hw1, Hw2, Hv1, Hv2.
        destruct (done_final_cons d0 w c _ Hrun Hdone) as [_ Hdone1].
        rewrite (dec_codes_cons_run d0 w c _ Hrun Hw).
        rewrite pack_from_cons. cbn [b_acc b_n].
        destruct (pack_arith r w2 (c mod 2 ^ r) c2 H2 Hv1 Hv2 (mod_pow2_lt c r) (proj2 (proj2 Hcode2))) as (Pa & Pt & Pm).
        destruct (N.lt_ge_cases (r + w2) 16) as [Hlt|Hge].
        * (* one byte *)
          rewrite flush1 by lin. rewrite Pa, Pm. cbn [app].
          rewrite (complete_code d0 w c r _ _ Hrun Hw H1 H2 ltac:(lin) Pt). clear Pa Pt Pm.
          destruct (lzw_dec_code ec d0 c) as [d1 o1]. cbn [fst] in Hdone1.
          apply obs_prepend.
          destruct (ld_status d1) eqn:Es1.
          -- destruct (done_final_cons d1 w2 c2 cs Es1 Hdone1) as [Hw' _].
             replace (8 - r) with (w2 - (r + w2 - 8)) by lin.
             apply IHB; try assumption; lin.
          -- rewrite run_stopped by (rewrite with_bits_status; congruence).
             rewrite dec_codes_stopped by congruence. unfold obs. cbn. reflexivity.
          -- rewrite run_stopped by (rewrite with_bits_status; congruence).
             rewrite dec_codes_stopped by congruence. unfold obs. cbn. reflexivity.
        * (* two bytes *)
          rewrite flush2 by lin. rewrite Pa, Pm.
          destruct (pack_arith2 r w2 c2 H2 Hv1 Hv2 Hge) as [Q1 Q2]. rewrite Q2. cbn [app].
          rewrite (complete_code d0 w c r _ _ Hrun Hw H1 H2 ltac:(lin) Pt). clear Pa Pt Pm Q2.
          destruct (lzw_dec_code ec d0 c) as [d1 o1]. cbn [fst] in Hdone1.
          apply obs_prepend.
          destruct (ld_status d1) eqn:Es1.
          -- destruct (done_final_cons d1 w2 c2 cs Es1 Hdone1) as [Hw' Hdone2].
             destruct (N.eq_dec (r + w2) 16) as [E16|N16].
             ++ (* the second byte completes (w2, c2) *)
                cbn [run]. rewrite step_complete by (try assumption; lin).
                replace (8 - r + 8 - ld_width d1) with 0 by lin. cbv zeta.
                rewrite Q1. clear Q1. replace (r + w2 - 8 - 8) with 0 by lin.
                change (2 ^ 0) with 1. rewrite !N.div_1_r, !N.mod_1_r.
                rewrite (dec_codes_cons_run d1 w2 c2 _ Es1 Hw').
                destruct (lzw_dec_code ec d1 c2) as [d2 o2]. cbn [fst] in Hdone2.
                apply obs_prepend.
                destruct (ld_status d2) eqn:Es2.
                ** apply IHA; assumption.
                ** rewrite run_stopped by (rewrite with_bits_status; congruence).
                   rewrite dec_codes_stopped by congruence. unfold obs. cbn. reflexivity.
                ** rewrite run_stopped by (rewrite with_bits_status; congruence).
                   rewrite dec_codes_stopped by congruence. unfold obs. cbn. reflexivity.
             ++ (* still pending after two bytes *)
                cbn [run]. rewrite step_pending by (try assumption; lin). rewrite Q1. clear Q1. cbn [app].
                replace (8 - r + 8) with (w2 - (r + w2 - 8 - 8)) by lin.
                specialize (IHB d1 w2 c2 (r + w2 - 8 - 8) Es1 Hw' Hcode2 ltac:(lin) ltac:(lin) Hok' Hdone1).
                destruct (run (lzw_dec_step ec) _ _) as [s o]. exact IHB.
          -- rewrite run_stopped by (rewrite with_bits_status; congruence).
             rewrite dec_codes_stopped by congruence. unfold obs. cbn. reflexivity.
          -- rewrite run_stopped by (rewrite with_bits_status; congruence).
             rewrite dec_codes_stopped by congruence. unfold obs. cbn. reflexivity.
  Qed.
End Bits.

Theorem lzw_rt_proof early x : Forall (fun b => b < 256) x -> lzw_dec early (lzw_enc early x) = Ok x.
Proof.
  intros Hwf. set (ec := ec_of early).
  assert (Hec : ec = 0 \/ ec = 1) by (subst ec; destruct early; [right|left]; reflexivity).
  destruct (lzw_codes_rt ec Hec x Hwf) as (d' & Hd & Hdone & Hok).
  assert (Hfin : done_final ec lzw_dinit (lzw_enc_codes ec x)) by (unfold done_final; rewrite Hd; exact Hdone).
  pose proof (proj1 (bits_main ec (lzw_enc_codes ec x)) lzw_dinit eq_refl Hok Hfin) as Hobs.
  rewrite Hd in Hobs. unfold lzw_dec, lzw_enc, lzw_pack. fold ec.
  change (with_bits lzw_dinit 0 0) with lzw_dinit in Hobs. unfold pack_from in Hobs.
  destruct (run pack_step {| b_acc := 0; b_n := 0 |} (lzw_enc_codes ec x)) as [pst pout].
  destruct (run (lzw_dec_step ec) lzw_dinit (pout ++ pack_close pst)) as [dfin out].
  unfold obs in Hobs. cbn [fst snd] in Hobs. inversion Hobs as [[Hs Ho]].
  destruct dfin as [a n w h l t st]. cbn [ld_status] in Hs. rewrite Hdone in Hs. subst st. reflexivity.
Qed.
