From Coq Require Import List NArith ZArith Bool Lia ZifyN ZifyNat ZifyBool Arith.
From GoPdf.Base Require Import Bytes Res.
From GoPdf.C06 Require Import Machine MachineProofs Predict.
Import ListNotations.
Open Scope N_scope.

(* ---- PNG: one row ---- *)

Lemma png_byte_rt x p : x < 256 -> ((x + 256 - p mod 256) mod 256 + p) mod 256 = x.
Proof.
  intros H. pose proof (N.mod_lt p 256). pose proof (N.div_mod p 256).
  set (r := p mod 256) in *. set (k := p / 256) in *.
  replace ((x + 256 - r) mod 256 + p) with ((x + 256 - r) mod 256 + r + k * 256) by lia.
  rewrite N.mod_add by discriminate.
  destruct (N.le_gt_cases r x).
  - replace (x + 256 - r) with ((x - r) + 1 * 256) by lia. rewrite N.mod_add by discriminate.
    rewrite (N.mod_small (x - r)) by lia. replace (x - r + r) with x by lia. apply N.mod_small, H.
  - rewrite (N.mod_small (x + 256 - r)) by lia. replace (x + 256 - r + r) with (x + 1 * 256) by lia.
    rewrite N.mod_add by discriminate. apply N.mod_small, H.
Qed.

Lemma png_filt_length t : forall row q pq prev, (length row <= length prev)%nat ->
  length (png_filt t q pq row prev) = length row.
Proof.
  induction row as [|x row IH]; intros q pq prev H; [reflexivity|].
  destruct prev as [|b prev]; cbn [length] in H; [lia|]. cbn [png_filt length].
  rewrite IH by lia. reflexivity.
Qed.

Lemma png_row_rt t : forall row q pq prev,
  Forall (fun b => b < 256) row -> (length row <= length prev)%nat ->
  png_unfilt t q pq (png_filt t q pq row prev) prev = row.
Proof.
  induction row as [|x row IH]; intros q pq prev Hwf Hlen; [reflexivity|].
  destruct prev as [|b prev]; cbn [length] in Hlen; [lia|]. cbn [png_filt png_unfilt].
  inversion Hwf as [|? ? Hx Hrow]; subst.
  rewrite png_byte_rt by assumption. rewrite IH by (try assumption; lia). reflexivity.
Qed.

(* ---- PNG: all rows ---- *)

Lemma png_rows_rt bpp n : forall rows prev tags,
  Forall (fun r => length r = n /\ Forall (fun b => b < 256) r) rows -> length prev = n ->
  let '(_, out) := rows_fold (png_enc_row bpp) (prev, tags) rows in
  exists erows, out = concat erows /\ Forall (fun r => length r = S n) erows /\
    snd (rows_fold (png_dec_row bpp) prev erows) = concat rows.
Proof.
  induction rows as [|r rows IH]; intros prev tags Hall Hprev.
  - cbn [rows_fold]. exists []. repeat split; constructor.
  - pose proof (Forall_inv Hall) as [Hr Hwf]. pose proof (Forall_inv_tail Hall) as Hrest. cbn beta in Hr.
    cbn [rows_fold png_enc_row].
    specialize (IH r (tl tags) Hrest Hr).
    destruct (rows_fold (png_enc_row bpp) (r, tl tags) rows) as [p2 o2].
    destruct IH as (erows & -> & Hlen & Hdec).
    exists ((hd 0 tags :: png_filt (hd 0 tags) (zeros bpp) (zeros bpp) r prev) :: erows).
    split; [reflexivity|]. split.
    + constructor; [|assumption]. cbn [length]. rewrite png_filt_length by lia. rewrite Hr. reflexivity.
    + cbn [rows_fold png_dec_row]. rewrite png_row_rt by (try assumption; lia).
      destruct (rows_fold (png_dec_row bpp) r erows) as [p3 o3]. cbn [snd concat] in *. rewrite Hdec. reflexivity.
Qed.

Theorem png_rt_proof bpp n tags rows :
  (0 < n)%nat -> Forall (fun r => length r = n /\ Forall (fun b => b < 256) r) rows ->
  png_dec bpp n (png_enc bpp n tags (concat rows)) = Ok (concat rows).
Proof.
  intros Hn Hall. unfold png_enc, png_dec.
  assert (Hlen : Forall (fun r => length r = n) rows) by (eapply Forall_impl; [|exact Hall]; cbn; tauto).
  rewrite (rows_run n (png_enc_row bpp) Hn rows (zeros n, tags) Hlen).
  pose proof (png_rows_rt bpp n rows (zeros n) tags Hall) as H.
  destruct (rows_fold (png_enc_row bpp) (zeros n, tags) rows) as [p out].
  destruct H as (erows & -> & Hel & Hdec); [apply repeat_length|].
  cbn [rcur rows_init]. rewrite app_nil_r.
  rewrite (rows_run (S n) (png_dec_row bpp) (Nat.lt_0_succ n) erows (zeros n) Hel).
  destruct (rows_fold (png_dec_row bpp) (zeros n) erows) as [p3 o3]. cbn [snd] in Hdec. subst o3.
  reflexivity.
Qed.

(* ---- PNG specification facts (C07 png_spec) ---- *)

Lemma paeth_spec a b c :
  let p := (Z.of_N a + Z.of_N b - Z.of_N c)%Z in
  let pa := Z.abs (p - Z.of_N a) in let pb := Z.abs (p - Z.of_N b) in let pc := Z.abs (p - Z.of_N c) in
  (paeth a b c = a /\ (pa <= pb)%Z /\ (pa <= pc)%Z) \/
  (paeth a b c = b /\ ~ ((pa <= pb)%Z /\ (pa <= pc)%Z) /\ (pb <= pc)%Z) \/
  (paeth a b c = c /\ ~ ((pa <= pb)%Z /\ (pa <= pc)%Z) /\ ~ (pb <= pc)%Z).
Proof.
  cbv zeta. unfold paeth.
  destruct ((Z.abs (Z.of_N a + Z.of_N b - Z.of_N c - Z.of_N a) <=? Z.abs (Z.of_N a + Z.of_N b - Z.of_N c - Z.of_N b))%Z &&
            (Z.abs (Z.of_N a + Z.of_N b - Z.of_N c - Z.of_N a) <=? Z.abs (Z.of_N a + Z.of_N b - Z.of_N c - Z.of_N c))%Z) eqn:E1.
  - left. split; [reflexivity|]. lia.
  - destruct (Z.abs (Z.of_N a + Z.of_N b - Z.of_N c - Z.of_N b) <=? Z.abs (Z.of_N a + Z.of_N b - Z.of_N c - Z.of_N c))%Z eqn:E2.
    + right; left. split; [reflexivity|]. lia.
    + right; right. split; [reflexivity|]. lia.
Qed.

(* PNG 9.2: Filt(x) = Orig(x) - pred, Recon(x) = Filt(x) + pred, byte arithmetic modulo 256, where for
   the byte at index i of a row: a = Orig(i - bpp) (0 if i < bpp), b = Prior(i), c = Prior(i - bpp) *)
Lemma png_filt_nth t : forall row q pq prev i,
  (i < length row)%nat -> (length row <= length prev)%nat -> length q = length pq -> (0 < length q)%nat ->
  nth i (png_filt t q pq row prev) 0 =
  (nth i row 0 + 256 - png_pred t (nth i (q ++ row) 0) (nth i prev 0) (nth i (pq ++ prev) 0) mod 256) mod 256.
Proof.
  induction row as [|x row IH]; intros q pq prev i Hi Hlen Hq Hq0; cbn [length] in *; [lia|].
  destruct prev as [|b prev]; cbn [length] in Hlen; [lia|].
  destruct q as [|a0 q]; cbn [length] in *; [lia|].
  destruct pq as [|c0 pq]; cbn [length] in *; [lia|].
  destruct i as [|i].
  - reflexivity.
  - cbn [png_filt nth tl hd app].
    rewrite IH by (rewrite ?app_length; cbn [length]; lia).
    rewrite <- !app_assoc. reflexivity.
Qed.

(* ---- TIFF predictor ---- *)

Lemma tiff_byte_rt m c h : 0 < m -> c < m -> ((c + m - h mod m) mod m + h) mod m = c.
Proof.
  intros Hm Hc. assert (Hm0 : m <> 0) by lia.
  pose proof (N.mod_lt h m Hm0). pose proof (N.div_mod h m Hm0).
  set (r := h mod m) in *. set (k := h / m) in *.
  replace ((c + m - r) mod m + h) with ((c + m - r) mod m + r + k * m) by lia.
  rewrite N.mod_add by assumption.
  destruct (N.le_gt_cases r c).
  - replace (c + m - r) with ((c - r) + 1 * m) by lia. rewrite N.mod_add by assumption.
    rewrite (N.mod_small (c - r)) by lia. replace (c - r + r) with c by lia. apply N.mod_small, Hc.
  - rewrite (N.mod_small (c + m - r)) by lia. replace (c + m - r + r) with (c + 1 * m) by lia.
    rewrite N.mod_add by assumption. apply N.mod_small, Hc.
Qed.

Lemma tiff_diff_rt m : 0 < m -> forall n cs q, Forall (fun c => c < m) cs ->
  tiff_undiff m q n (tiff_diff m q n cs) = cs.
Proof.
  intros Hm. induction n as [|n IH]; intros cs q Hwf; [destruct cs; reflexivity|].
  destruct cs as [|c cs]; [reflexivity|]. inversion Hwf as [|? ? Hc Hcs]; subst.
  cbn [tiff_diff tiff_undiff]. rewrite tiff_byte_rt by assumption. rewrite IH by assumption. reflexivity.
Qed.

Lemma tiff_diff_bound m : 0 < m -> forall n cs q, Forall (fun c => c < m) cs ->
  Forall (fun c => c < m) (tiff_diff m q n cs).
Proof.
  intros Hm. induction n as [|n IH]; intros cs q Hwf; [destruct cs; assumption|].
  destruct cs as [|c cs]; [assumption|]. inversion Hwf as [|? ? Hc Hcs]; subst.
  cbn [tiff_diff]. constructor; [apply N.mod_lt; lia|apply IH; assumption].
Qed.

Lemma tiff_diff_length m : forall n cs q, length (tiff_diff m q n cs) = length cs.
Proof.
  induction n as [|n IH]; intros cs q; [destruct cs; reflexivity|].
  destruct cs as [|c cs]; [reflexivity|]. cbn [tiff_diff length]. rewrite IH. reflexivity.
Qed.

(* packing: per-byte facts by exhaustive evaluation *)
Definition all_bytes : list N := map N.of_nat (seq 0 256).

Lemma all_bytes_in b : b < 256 -> In b all_bytes.
Proof.
  intros H. unfold all_bytes. apply in_map_iff. exists (N.to_nat b). split; [lia|]. apply in_seq. lia.
Qed.

Definition pack_unpack_ok (bpc : N) : bool :=
  forallb (fun b => match tiff_pack bpc (tiff_fields bpc b) with [b'] => b' =? b | _ => false end) all_bytes.

Lemma pack_unpack_check : pack_unpack_ok 1 && pack_unpack_ok 2 && pack_unpack_ok 4 && pack_unpack_ok 8 = true.
Proof. vm_compute. reflexivity. Qed.

Lemma fields_bound bpc b : (bpc = 1 \/ bpc = 2 \/ bpc = 4 \/ bpc = 8) -> b < 256 ->
  Forall (fun c => c < 2 ^ bpc) (tiff_fields bpc b).
Proof.
  intros [ -> | [ -> | [ -> | -> ] ] ] Hb; cbn [tiff_fields]; repeat constructor;
    try (apply N.mod_lt; discriminate); assumption.
Qed.

Lemma pack_fields_byte bpc b : (bpc = 1 \/ bpc = 2 \/ bpc = 4 \/ bpc = 8) -> b < 256 ->
  forall rest, tiff_pack bpc (tiff_fields bpc b ++ rest) = b :: tiff_pack bpc rest.
Proof.
  intros Hbpc Hb rest.
  pose proof pack_unpack_check as Hc. rewrite !andb_true_iff in Hc. destruct Hc as [[[H1 H2] H4] H8].
  assert (Hok : pack_unpack_ok bpc = true) by (destruct Hbpc as [ -> | [ -> | [ -> | -> ] ] ]; assumption).
  unfold pack_unpack_ok in Hok. rewrite forallb_forall in Hok. specialize (Hok b (all_bytes_in b Hb)).
  destruct Hbpc as [ -> | [ -> | [ -> | -> ] ] ]; cbn [tiff_fields tiff_pack app] in *.
  - cbn [tiff_pack1] in *. apply N.eqb_eq in Hok. rewrite Hok. reflexivity.
  - cbn [tiff_pack2] in *. apply N.eqb_eq in Hok. rewrite Hok. reflexivity.
  - cbn [tiff_pack4] in *. apply N.eqb_eq in Hok. rewrite Hok. reflexivity.
  - reflexivity.
Qed.

Lemma pack_unpack_row bpc row : (bpc = 1 \/ bpc = 2 \/ bpc = 4 \/ bpc = 8) ->
  Forall (fun b => b < 256) row -> tiff_pack bpc (tiff_unpack bpc row) = row.
Proof.
  intros Hbpc Hwf. unfold tiff_unpack.
  replace (bpc =? 16) with false by (destruct Hbpc as [ -> | [ -> | [ -> | -> ] ] ]; reflexivity).
  induction Hwf as [|b row Hb Hrow IH]; cbn [flat_map].
  - destruct Hbpc as [ -> | [ -> | [ -> | -> ] ] ]; reflexivity.
  - rewrite pack_fields_byte by assumption. rewrite IH. reflexivity.
Qed.

Lemma unpack_bound bpc row : (bpc = 1 \/ bpc = 2 \/ bpc = 4 \/ bpc = 8) ->
  Forall (fun b => b < 256) row -> Forall (fun c => c < 2 ^ bpc) (tiff_unpack bpc row).
Proof.
  intros Hbpc Hwf. unfold tiff_unpack.
  replace (bpc =? 16) with false by (destruct Hbpc as [ -> | [ -> | [ -> | -> ] ] ]; reflexivity).
  induction Hwf as [|b row Hb Hrow IH]; cbn [flat_map]; [constructor|].
  apply Forall_app. split; [apply fields_bound; assumption|assumption].
Qed.

(* rows with a stateless row function *)
Lemma rows_fold_unit_rt (f g : unit -> list N -> unit * list N) n : forall rows,
  Forall (fun r => length (snd (f tt r)) = n /\ snd (g tt (snd (f tt r))) = r) rows ->
  exists erows, snd (rows_fold f tt rows) = concat erows /\ Forall (fun r => length r = n) erows /\
    snd (rows_fold g tt erows) = concat rows.
Proof.
  induction rows as [|r rows IH]; intros Hall.
  - exists []. repeat split; constructor.
  - pose proof (Forall_inv Hall) as [Hl Hg]. pose proof (Forall_inv_tail Hall) as Hrest. cbn beta in Hl, Hg. destruct (IH Hrest) as (erows & He & Hlen & Hd).
    exists (snd (f tt r) :: erows). cbn [rows_fold].
    destruct (f tt r) as [[] o1] eqn:Ef. cbn [snd] in *.
    destruct (rows_fold f tt rows) as [p2 o2]. cbn [snd] in *. subst o2.
    split; [reflexivity|]. split; [constructor; assumption|].
    destruct (g tt o1) as [[] o3] eqn:Eg. cbn [snd] in *. subst o3.
    destruct (rows_fold g tt erows) as [p4 o4]. cbn [snd concat] in *. rewrite Hd. reflexivity.
Qed.

Lemma unpack8 row : tiff_unpack 8 row = row.
Proof.
  unfold tiff_unpack. change (8 =? 16) with false. cbv iota.
  induction row as [|b row IH]; [reflexivity|]. cbn [flat_map tiff_fields app]. rewrite IH. reflexivity.
Qed.

Lemma tiff_row_rt colors bpc ncomp row : (bpc = 1 \/ bpc = 2 \/ bpc = 4 \/ bpc = 8) ->
  Forall (fun b => b < 256) row ->
  tiff_unpack bpc (tiff_pack bpc (tiff_diff (2 ^ bpc) (zeros colors) ncomp (tiff_unpack bpc row))) =
    tiff_diff (2 ^ bpc) (zeros colors) ncomp (tiff_unpack bpc row) ->
  snd (tiff_dec_row colors bpc ncomp tt (snd (tiff_enc_row colors bpc ncomp tt row))) = row.
Proof.
  intros Hbpc Hwf Hup. unfold tiff_dec_row, tiff_enc_row. cbn [snd]. rewrite Hup.
  rewrite tiff_diff_rt.
  - apply pack_unpack_row; assumption.
  - destruct Hbpc as [ -> | [ -> | [ -> | -> ] ] ]; reflexivity.
  - apply unpack_bound; assumption.
Qed.

Theorem tiff8_rt_proof colors columns rows :
  (0 < colors * columns)%nat ->
  Forall (fun r => length r = (colors * columns)%nat /\ Forall (fun b => b < 256) r) rows ->
  tiff_dec colors 8 columns (colors * columns) (tiff_enc colors 8 columns (colors * columns) (concat rows)) = Ok (concat rows).
Proof.
  intros Hn Hall. unfold tiff_enc, tiff_dec. set (n := (colors * columns)%nat) in *.
  assert (Hlen : Forall (fun r => length r = n) rows) by (eapply Forall_impl; [|exact Hall]; cbn; tauto).
  rewrite (rows_run n (tiff_enc_row colors 8 n) Hn rows tt Hlen).
  destruct (rows_fold_unit_rt (tiff_enc_row colors 8 n) (tiff_dec_row colors 8 n) n rows) as (erows & He & Hel & Hd).
  { eapply Forall_impl; [|exact Hall]. cbn beta. intros r [Hr Hwf]. split.
    - unfold tiff_enc_row. cbn [snd tiff_pack]. rewrite tiff_diff_length, unpack8. assumption.
    - apply tiff_row_rt; [auto|assumption|]. cbn [tiff_pack]. rewrite unpack8. reflexivity. }
  destruct (rows_fold (tiff_enc_row colors 8 n) tt rows) as [p out]. cbn [snd] in He. subst out.
  cbn [rcur rows_init]. rewrite app_nil_r.
  rewrite (rows_run n (tiff_dec_row colors 8 n) Hn erows tt Hel).
  destruct (rows_fold (tiff_dec_row colors 8 n) tt erows) as [p3 o3]. cbn [snd] in Hd. subst o3. reflexivity.
Qed.

(* ---- TIFF predictor, every BitsPerComponent ---- *)

Definition fields_per_byte (bpc : N) : nat :=
  match bpc with 1%N => 8%nat | 2%N => 4%nat | 4%N => 2%nat | _ => 1%nat end.

Lemma fields_length bpc b : length (tiff_fields bpc b) = fields_per_byte bpc.
Proof.
  unfold tiff_fields, fields_per_byte.
  destruct bpc as [|p]; [reflexivity|].
  destruct p as [p|p|]; try reflexivity; destruct p as [p|p|]; try reflexivity; destruct p as [p|p|]; reflexivity.
Qed.

Lemma unpack_length bpc row : bpc <> 16 -> length (tiff_unpack bpc row) = (fields_per_byte bpc * length row)%nat.
Proof.
  intros H. unfold tiff_unpack. replace (bpc =? 16) with false by lia.
  induction row as [|b row IH]; cbn [flat_map length]; [lia|]. rewrite app_length, fields_length, IH. lia.
Qed.

Lemma fields_pack1 a b c d e f g h : a < 2 -> b < 2 -> c < 2 -> d < 2 -> e < 2 -> f < 2 -> g < 2 -> h < 2 ->
  tiff_fields 1 (((((((a * 2 + b) * 2 + c) * 2 + d) * 2 + e) * 2 + f) * 2 + g) * 2 + h) = [a; b; c; d; e; f; g; h].
Proof. intros. cbn [tiff_fields]. repeat f_equal; lia. Qed.

Lemma fields_pack2 a b c d : a < 4 -> b < 4 -> c < 4 -> d < 4 ->
  tiff_fields 2 (((a * 4 + b) * 4 + c) * 4 + d) = [a; b; c; d].
Proof. intros. cbn [tiff_fields]. repeat f_equal; lia. Qed.

Lemma fields_pack4 a b : a < 16 -> b < 16 -> tiff_fields 4 (a * 16 + b) = [a; b].
Proof. intros. cbn [tiff_fields]. repeat f_equal; lia. Qed.

Lemma unpack_pack1 : forall m cs, length cs = (8 * m)%nat -> Forall (fun c => c < 2) cs ->
  flat_map (tiff_fields 1) (tiff_pack1 cs) = cs.
Proof.
  induction m as [|m IH]; intros cs Hlen Hb.
  - destruct cs; [reflexivity|cbn in Hlen; lia].
  - destruct cs as [|a [|b [|c [|d [|e [|f [|g [|h cs]]]]]]]]; cbn [length] in Hlen; try lia.
    repeat match goal with H : Forall _ (_ :: _) |- _ => inversion H; clear H; subst end.
    cbn [tiff_pack1 flat_map]. rewrite fields_pack1 by assumption. cbn [app]. rewrite IH by (try assumption; lia). reflexivity.
Qed.

Lemma unpack_pack2 : forall m cs, length cs = (4 * m)%nat -> Forall (fun c => c < 4) cs ->
  flat_map (tiff_fields 2) (tiff_pack2 cs) = cs.
Proof.
  induction m as [|m IH]; intros cs Hlen Hb.
  - destruct cs; [reflexivity|cbn in Hlen; lia].
  - destruct cs as [|a [|b [|c [|d cs]]]]; cbn [length] in Hlen; try lia.
    repeat match goal with H : Forall _ (_ :: _) |- _ => inversion H; clear H; subst end.
    cbn [tiff_pack2 flat_map]. rewrite fields_pack2 by assumption. cbn [app]. rewrite IH by (try assumption; lia). reflexivity.
Qed.

Lemma unpack_pack4 : forall m cs, length cs = (2 * m)%nat -> Forall (fun c => c < 16) cs ->
  flat_map (tiff_fields 4) (tiff_pack4 cs) = cs.
Proof.
  induction m as [|m IH]; intros cs Hlen Hb.
  - destruct cs; [reflexivity|cbn in Hlen; lia].
  - destruct cs as [|a [|b cs]]; cbn [length] in Hlen; try lia.
    repeat match goal with H : Forall _ (_ :: _) |- _ => inversion H; clear H; subst end.
    cbn [tiff_pack4 flat_map]. rewrite fields_pack4 by assumption. cbn [app]. rewrite IH by (try assumption; lia). reflexivity.
Qed.

Lemma unpack_pack bpc m cs : (bpc = 1 \/ bpc = 2 \/ bpc = 4 \/ bpc = 8) ->
  length cs = (fields_per_byte bpc * m)%nat -> Forall (fun c => c < 2 ^ bpc) cs ->
  tiff_unpack bpc (tiff_pack bpc cs) = cs.
Proof.
  intros [ -> | [ -> | [ -> | -> ] ] ] Hlen Hb; unfold tiff_unpack, tiff_pack;
    cbn [N.eqb Pos.eqb fields_per_byte] in *.
  - apply (unpack_pack1 m); assumption.
  - apply (unpack_pack2 m); assumption.
  - apply (unpack_pack4 m); assumption.
  - clear. induction cs as [|c cs IH]; [reflexivity|]. cbn [flat_map tiff_fields app]. rewrite IH. reflexivity.
Qed.

(* 16 bits per component: two bytes, most significant first *)
Lemma pairs_pack16 cs : Forall (fun c => c < 65536) cs -> tiff_pairs (tiff_pack16 cs) = cs.
Proof.
  induction 1 as [|c cs Hc Hcs IH]; [reflexivity|]. cbn [tiff_pack16 tiff_pairs]. rewrite IH. f_equal. lia.
Qed.

Lemma pack16_pairs : forall m row, length row = (2 * m)%nat -> Forall (fun b => b < 256) row ->
  tiff_pack16 (tiff_pairs row) = row.
Proof.
  induction m as [|m IH]; intros row Hlen Hwf.
  - destruct row; [reflexivity|cbn in Hlen; lia].
  - destruct row as [|hi [|lo row]]; cbn [length] in Hlen; try lia.
    inversion Hwf as [|? ? Hhi Hw1]; subst. inversion Hw1 as [|? ? Hlo Hw2]; subst.
    cbn [tiff_pairs tiff_pack16]. rewrite IH by (try assumption; lia). f_equal; [lia|f_equal; lia].
Qed.

Lemma pairs_bound : forall m row, length row = (2 * m)%nat -> Forall (fun b => b < 256) row ->
  Forall (fun c => c < 65536) (tiff_pairs row) /\ length (tiff_pairs row) = m.
Proof.
  induction m as [|m IH]; intros row Hlen Hwf.
  - destruct row; [split; [constructor|reflexivity]|cbn in Hlen; lia].
  - destruct row as [|hi [|lo row]]; cbn [length] in Hlen; try lia.
    inversion Hwf as [|? ? Hhi Hw1]; subst. inversion Hw1 as [|? ? Hlo Hw2]; subst.
    destruct (IH row ltac:(lia) Hw2) as [Hb Hl]. cbn [tiff_pairs length]. split; [constructor; [lia|assumption]|lia].
Qed.

Lemma pack16_length cs : length (tiff_pack16 cs) = (2 * length cs)%nat.
Proof. induction cs as [|c cs IH]; [reflexivity|]. cbn [tiff_pack16 length]. lia. Qed.

Lemma pack_length bpc m cs : (bpc = 1 \/ bpc = 2 \/ bpc = 4 \/ bpc = 8) ->
  length cs = (fields_per_byte bpc * m)%nat -> length (tiff_pack bpc cs) = m.
Proof.
  intros [ -> | [ -> | [ -> | -> ] ] ]; unfold tiff_pack; cbn [fields_per_byte]; revert cs.
  - induction m as [|m IH]; intros cs Hlen; [destruct cs; [reflexivity|cbn in Hlen; lia]|].
    destruct cs as [|a [|b [|c [|d [|e [|f [|g [|h cs]]]]]]]]; cbn [length] in Hlen; try lia.
    cbn [tiff_pack1 length]. rewrite IH by lia. reflexivity.
  - induction m as [|m IH]; intros cs Hlen; [destruct cs; [reflexivity|cbn in Hlen; lia]|].
    destruct cs as [|a [|b [|c [|d cs]]]]; cbn [length] in Hlen; try lia.
    cbn [tiff_pack2 length]. rewrite IH by lia. reflexivity.
  - induction m as [|m IH]; intros cs Hlen; [destruct cs; [reflexivity|cbn in Hlen; lia]|].
    destruct cs as [|a [|b cs]]; cbn [length] in Hlen; try lia.
    cbn [tiff_pack4 length]. rewrite IH by lia. reflexivity.
  - intros cs Hlen. lia.
Qed.

(* one row, any bpc *)
Lemma tiff_row_rt_all colors bpc ncomp row :
  (bpc = 1 \/ bpc = 2 \/ bpc = 4 \/ bpc = 8 \/ bpc = 16) -> Forall (fun b => b < 256) row ->
  (bpc = 16 -> Nat.even (length row) = true) ->
  length (snd (tiff_enc_row colors bpc ncomp tt row)) = length row /\
  snd (tiff_dec_row colors bpc ncomp tt (snd (tiff_enc_row colors bpc ncomp tt row))) = row.
Proof.
  intros Hbpc Hwf Heven. unfold tiff_enc_row, tiff_dec_row. cbn [snd].
  destruct (N.eq_dec bpc 16) as [->|Hne].
  - specialize (Heven eq_refl). apply Nat.even_spec in Heven. destruct Heven as [m Hm].
    destruct (pairs_bound m row Hm Hwf) as [Hb Hl].
    change (tiff_unpack 16) with tiff_pairs. change (tiff_pack 16) with tiff_pack16. change (2 ^ 16) with 65536.
    split.
    + rewrite pack16_length, tiff_diff_length, Hl. lia.
    + rewrite pairs_pack16 by (apply tiff_diff_bound; [lia|assumption]).
      rewrite tiff_diff_rt by (try assumption; lia). apply (pack16_pairs m); assumption.
  - assert (H4 : bpc = 1 \/ bpc = 2 \/ bpc = 4 \/ bpc = 8) by lia.
    pose proof (unpack_length bpc row Hne) as Hul. pose proof (unpack_bound bpc row H4 Hwf) as Hub.
    assert (Hpos : 0 < 2 ^ bpc) by (destruct H4 as [ -> | [ -> | [ -> | -> ] ] ]; reflexivity).
    split.
    + apply pack_length; [assumption|]. rewrite tiff_diff_length. exact Hul.
    + rewrite (unpack_pack bpc (length row)); try assumption.
      * rewrite tiff_diff_rt by assumption. apply pack_unpack_row; assumption.
      * rewrite tiff_diff_length. exact Hul.
      * apply tiff_diff_bound; assumption.
Qed.

Theorem tiff_rt_proof colors bpc columns rows :
  (bpc = 1 \/ bpc = 2 \/ bpc = 4 \/ bpc = 8 \/ bpc = 16) ->
  let n := N.to_nat (bytes_per_row (N.of_nat colors) bpc (N.of_nat columns)) in
  (0 < n)%nat -> Forall (fun r => length r = n /\ Forall (fun b => b < 256) r) rows ->
  tiff_dec colors bpc columns n (tiff_enc colors bpc columns n (concat rows)) = Ok (concat rows).
Proof.
  intros Hbpc n Hn Hall. unfold tiff_enc, tiff_dec.
  assert (Heven : bpc = 16 -> Nat.even n = true).
  { intros ->. subst n. unfold bytes_per_row. apply Nat.even_spec. exists (colors * columns)%nat. lia. }
  assert (Hlen : Forall (fun r => length r = n) rows) by (eapply Forall_impl; [|exact Hall]; cbn; tauto).
  set (nc := (colors * columns)%nat).
  rewrite (rows_run n (tiff_enc_row colors bpc nc) Hn rows tt Hlen).
  destruct (rows_fold_unit_rt (tiff_enc_row colors bpc nc) (tiff_dec_row colors bpc nc) n rows) as (erows & He & Hel & Hd).
  { eapply Forall_impl; [|exact Hall]. cbn beta. intros r [Hr Hwf].
    destruct (tiff_row_rt_all colors bpc nc r Hbpc Hwf) as [H1 H2]; [rewrite Hr; assumption|].
    split; [rewrite H1; assumption|assumption]. }
  destruct (rows_fold (tiff_enc_row colors bpc nc) tt rows) as [p out]. cbn [snd] in He. subst out.
  cbn [rcur rows_init]. rewrite app_nil_r.
  rewrite (rows_run n (tiff_dec_row colors bpc nc) Hn erows tt Hel).
  destruct (rows_fold (tiff_dec_row colors bpc nc) tt erows) as [p3 o3]. cbn [snd] in Hd. subst o3. reflexivity.
Qed.
