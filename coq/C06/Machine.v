(* C06: every codec of the model is a byte-at-a-time state machine.  [run] feeds a
   list of inputs, [run_chunks] feeds it piece by piece (the io.Writer / io.Reader
   view: each Write/Read call hands over one chunk).  Chunking invariance of all
   codecs is the single lemma [run_chunks_concat] of MachineProofs.v. *)
From Coq Require Import List.
Import ListNotations.

Section Machine.
  Context {S I O : Type}.
  Variable step : S -> I -> S * list O.

  Fixpoint run (st : S) (xs : list I) : S * list O :=
    match xs with
    | [] => (st, [])
    | x :: r =>
      let '(st1, o1) := step st x in
      let '(st2, o2) := run st1 r in
      (st2, o1 ++ o2)
    end.

  Fixpoint run_chunks (st : S) (cs : list (list I)) : S * list O :=
    match cs with
    | [] => (st, [])
    | c :: r =>
      let '(st1, o1) := run st c in
      let '(st2, o2) := run_chunks st1 r in
      (st2, o1 ++ o2)
    end.
End Machine.

(* rows: a machine that collects [n] input bytes and hands the complete row to [f]
   (used by the predictors in both directions).  [rcur] is the partial row in
   reverse order, [rcnt] its length. *)
Section Rows.
  Context {P A : Type}.
  Variable n : nat.
  Variable f : P -> list A -> P * list A.

  Record rows_st := { rp : P; rcur : list A; rcnt : nat }.

  Definition rows_step (st : rows_st) (b : A) : rows_st * list A :=
    let cur := b :: rcur st in
    if Nat.eqb (S (rcnt st)) n then
      let '(p', out) := f (rp st) (rev cur) in
      ({| rp := p'; rcur := []; rcnt := 0 |}, out)
    else ({| rp := rp st; rcur := cur; rcnt := S (rcnt st) |}, []).

  Definition rows_init (p : P) : rows_st := {| rp := p; rcur := []; rcnt := 0 |}.

  (* the same thing, row by row (specification view) *)
  Fixpoint rows_fold (p : P) (rows : list (list A)) : P * list A :=
    match rows with
    | [] => (p, [])
    | r :: rest =>
      let '(p1, o1) := f p r in
      let '(p2, o2) := rows_fold p1 rest in
      (p2, o1 ++ o2)
    end.
End Rows.
Arguments rows_st : clear implicits.
