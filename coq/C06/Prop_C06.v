(* C06: property theorems only; each closed by [exact] and followed by Print Assumptions. *)
From Coq Require Import List NArith ZArith Bool.
From GoPdf.Base Require Import Bytes Res.
From GoPdf.Gen Require Import Gen_C06 Gen_C06ccitt2d.
From GoPdf.C06 Require Import Machine MachineProofs AHx A85 RunLen LZW Predict Chain FilterParams Conform CCITT CCITTTables CCITTProofs CCITT2D CCITTParams CCITT2DProofs CCITT2DRowProofs CCITT2DImgProofs
  AHxProofs A85Proofs RunLenProofs LZWCodeProofs LZWBitProofs LZWStage PredictProofs ChainProofs FilterParamsProofs.
Import ListNotations.

Definition wf (x : bytes) : Prop := Forall (fun b => (b < 256)%N) x.

Example wf_inhabited : wf [0; 65; 255]%N.
Proof. repeat constructor. Qed.

(* ---- decode (encode x) = x ---- *)

Theorem ahx_rt : forall x, wf x -> ahx_dec (ahx_enc x) = Ok x.
Proof. exact ahx_rt_proof. Qed.
Print Assumptions ahx_rt.

Theorem rl_rt : forall x, rl_dec (rl_enc x) = Ok x.
Proof. exact rl_rt_proof. Qed.
Print Assumptions rl_rt.

Theorem a85_rt : forall x, wf x -> a85_dec (a85_enc x) = Ok x.
Proof. exact a85_rt_proof. Qed.
Print Assumptions a85_rt.

(* ---- chunking: every codec is [run] of a step function (encoders: ahx_enc_step, a85_enc_step,
   rl_enc_step, lzw_enc_step, pack_step, rows_step; decoders: ahx_dec_step, a85_dec_step, rl_dec_step,
   lzw_dec_step, rows_step), so handing the input over in pieces gives the same state and output ---- *)

Theorem chunking : forall (S I O : Type) (step : S -> I -> S * list O) (st : S) (chunks : list (list I)),
  run_chunks step st chunks = run step st (concat chunks).
Proof. exact (@run_chunks_concat). Qed.
Print Assumptions chunking.

(* ---- PNG predictors: any bytes-per-pixel, any row length, any filter type per row (constant for
   predictors 10..14, free for 15), whole rows ---- *)

Theorem png_rt : forall (bpp n : nat) (tags : list N) (rows : list (list N)),
  (0 < n)%nat -> Forall (fun r => length r = n /\ wf r) rows ->
  png_dec bpp n (png_enc bpp n tags (concat rows)) = Ok (concat rows).
Proof. exact png_rt_proof. Qed.
Print Assumptions png_rt.

Example png_rt_hyp : Forall (fun r => length r = 3%nat /\ wf r) [[1; 2; 3]; [255; 0; 7]]%N.
Proof. repeat constructor. Qed.

(* TIFF predictor 2, every BitsPerComponent; rows of bytes_per_row bytes (padding bits are kept) *)
Theorem tiff_rt : forall (colors : nat) (bpc : N) (columns : nat) (rows : list (list N)),
  (bpc = 1 \/ bpc = 2 \/ bpc = 4 \/ bpc = 8 \/ bpc = 16)%N ->
  let n := N.to_nat (bytes_per_row (N.of_nat colors) bpc (N.of_nat columns)) in
  (0 < n)%nat -> Forall (fun r => length r = n /\ wf r) rows ->
  tiff_dec colors bpc columns n (tiff_enc colors bpc columns n (concat rows)) = Ok (concat rows).
Proof. exact tiff_rt_proof. Qed.
Print Assumptions tiff_rt.

(* ---- chains: /Filter and /DecodeParms stay aligned, composed decode inverts composed encode ---- *)

Theorem chain_rt :
  forall (Nm D : Type) (dsize : D -> nat) (dnil : D), dsize dnil = 0%nat ->
  forall (stage : Type) (info : stage -> Nm * D) (mk : Nm -> D -> stage)
         (enc : stage -> bytes -> bytes) (dec : stage -> bytes -> res bytes),
  (forall n d, dsize d = 0%nat -> mk n d = mk n dnil) ->
  forall ss : list stage, (length ss <= max_filter_chain)%nat ->
  Forall (stage_ok stage info mk enc dec) ss ->
  exists l', get_filters dnil (open_stream_dict dsize dnil (map info ss)) = Ok l' /\
    map fst l' = map fst (map info ss) /\
    Forall2 (same_parms dsize dnil) (map snd l') (map snd (map info ss)) /\
    forall x, dec_all stage dec (map (remake stage mk) l') (enc_all stage enc ss x) = Ok x.
Proof. exact (@chain_rt_proof). Qed.
Print Assumptions chain_rt.

(* ---- parameters survive the dictionary ---- *)

Theorem params_rt_flate : forall v f,
  validate_flate_lzw v f = true -> flate_ints f = true -> parse_flate (flate_to_dict f) = effective_flate f.
Proof. exact flate_params_rt_proof. Qed.
Print Assumptions params_rt_flate.

Theorem params_rt_lzw : forall v l,
  validate_flate_lzw v (l_flate l) = true -> flate_ints (l_flate l) = true ->
  parse_lzw (lzw_to_dict l) = effective_lzw l.
Proof. exact lzw_params_rt_proof. Qed.
Print Assumptions params_rt_lzw.

Theorem params_rt_ccitt : forall c,
  validate_ccitt c = true -> int_ok (c_k c) = true -> parse_ccitt (ccitt_to_dict c) = effective_ccitt c.
Proof. exact ccitt_params_rt_proof. Qed.
Print Assumptions params_rt_ccitt.

Example params_hyp :
  validate_flate_lzw V1_5 {| f_pred := 12; f_colors := 3; f_bpc := 0; f_columns := 20 |} = true /\
  validate_ccitt {| c_k := -1; c_eol := true; c_align := false; c_columns := 0; c_rows := 5;
                    c_ignore_eob := false; c_blackis1 := true; c_damaged := 0 |} = true.
Proof. split; reflexivity. Qed.

Theorem parse_clamps : forall d,
  validate_flate_lzw V2_0 (parse_flate d) = true /\ flate_ints (parse_flate d) = true /\
  validate_ccitt (parse_ccitt d) = true /\ int_ok (c_k (parse_ccitt d)) = true.
Proof. exact parse_valid_proof. Qed.
Print Assumptions parse_clamps.

(* ---- LZW, both EarlyChange values: code table and code width of the decoder follow the encoder's
   (LZWCodeProofs), the bit packer and the byte-at-a-time bit reader agree (LZWBitProofs) ---- *)

Theorem lzw_rt : forall early x, wf x -> lzw_dec early (lzw_enc early x) = Ok x.
Proof. exact lzw_rt_proof. Qed.
Print Assumptions lzw_rt.

(* the LZW reader's output buffer (reader.go): decoded bytes wait at the start of r.output until there are
   flushBuffer of them, while the expansion of a table code is built at the END of r.output.  The sizes are the
   constants in the Go source (translated: lzw_flushBuffer, lzw_outputLen, lzw_maxCode).  The longest expansion a
   4096-entry table can hold is maxCode - 256 bytes, and the buffer has room for it beside flushBuffer - 1 pending
   bytes ... *)
Theorem lzw_staging_room :
  (lzw_flushBuffer - 1 + (lzw_maxCode - 256) <= lzw_outputLen)%Z /\ (0 < lzw_flushBuffer)%Z.
Proof. exact stage_room_source. Qed.
Print Assumptions lzw_staging_room.

(* ... so for EVERY code stream e (valid or not, either EarlyChange) the staging area never reaches pending bytes:
   the decoder of LZW.v run with the buffer bookkeeping alongside (pending count o, o + expansion length checked
   against the buffer size at every code, high-water mark) ends with the check never failed *)
Theorem lzw_staging_safe : forall early e,
  sg_ok (lzw_stage_run early e) = true /\ (sg_hw (lzw_stage_run early e) <= lzw_out_len)%N.
Proof. exact lzw_staging_safe_proof. Qed.
Print Assumptions lzw_staging_safe.

(* the decoder with the bookkeeping is the decoder of lzw_rt *)
Theorem lzw_stage_decoder : forall early e,
  fst (lzw_stage_dec early e) = lzw_stage_run early e /\ snd (lzw_stage_dec early e) = lzw_dec early e.
Proof. exact lzw_stage_dec_spec. Qed.
Print Assumptions lzw_stage_decoder.

(* ---- CCITTFax, K = 0 (ITU-T T.4 one-dimensional coding); tables translated from the Go source ---- *)

(* the terminating, make-up and extended make-up codes of either colour, with the EOL prefix, form a prefix code *)
Theorem ccitt_tables_prefix_free : prefix_free (codes_of true) && prefix_free (codes_of false) = true.
Proof. exact ccitt_prefix_free_check. Qed.
Print Assumptions ccitt_tables_prefix_free.

(* the reader's 4096- and 8192-entry lookup tables agree with the writer's code tables: every 12/13-bit
   window that starts with a code word yields that word's width, state and run length; every other window is
   marked invalid (width 0); all codes fit the window *)
Theorem ccitt_decode_tables : table_ok true && table_ok false = true.
Proof. exact ccitt_table_check. Qed.
Print Assumptions ccitt_decode_tables.

(* a run: the line decoder, at column xpos with the bits of run_bits white n ahead (anything may follow),
   paints n pixels of that colour, switches colour and has consumed exactly those bits - for every n *)
Theorem g3_run_rt : forall p white n tail r rb xpos ne pending line,
  good r rb -> real r rb = run_bits white n ++ tail ->
  (xpos < g_cols p \/ pending = true)%N -> (xpos + n <= g_cols p)%N ->
  exists m r' rb', (m <= length (run_bits white n))%nat /\ good r' rb' /\ real r' rb' = tail /\
    forall f, g3_line (m + f) p xpos white ne pending line r =
      g3_line f p (xpos + n)%N (negb white) ne false (repeat (pix p white) (N.to_nat n) ++ line) r'.
Proof. exact line_run. Qed.
Print Assumptions g3_run_rt.

(* a line: EOL code (if EndOfLine) and the runs of a row, white first, are decoded to exactly those runs *)
Theorem g3_row_rt : forall p rs tail r rb,
  (0 < g_cols p)%N -> good r rb ->
  real r rb = (if g_eol p then eol_bits else []) ++ runs_bits true rs ++ tail ->
  rs <> [] -> nsum rs = g_cols p -> Forall (fun k => 1 <= k)%N (tl rs) ->
  exists m r' rb', (m <= length ((if g_eol p then eol_bits else []) ++ runs_bits true rs))%nat /\
    good r' rb' /\ real r' rb' = tail /\
    forall f, g3_line (m + f) p 0%N true 0 false [] r = (paint p true rs [], r').
Proof. exact line_row. Qed.
Print Assumptions g3_row_rt.

(* whole images, every parameter class of K = 0 (EndOfLine, EncodedByteAlign, BlackIs1, EndOfBlock, Rows):
   rows of ceil(Columns/8) bytes whose padding bits are zero *)
Theorem g3_1d_rt : forall p rows,
  (0 < g_cols p)%N -> Forall (row_ok p) rows ->
  (g_maxrows p = 0%nat \/ (length rows <= g_maxrows p)%nat) ->
  g3_dec p (g3_enc p (concat rows)) = Ok (concat rows).
Proof. exact g3_1d_rt_proof. Qed.
Print Assumptions g3_1d_rt.

Example g3_hyp :
  row_ok {| g_cols := 13; g_eol := true; g_align := true; g_blackis1 := false; g_ignore_eob := true; g_maxrows := 0 |}
         [255; 0]%N.
Proof. repeat split; repeat constructor. Qed.

(* ---- CCITTFax two-dimensional coding (K <> 0): the run decoder of the horizontal mode, Reader.decodeFullRun.
   Its iteration bound full_run_iter is the expression of the `for range` statement in the Go source
   (Gen_C06ccitt2d.decodeFullRun_bound, regenerated on every run). ---- *)

(* a run written by Writer.encode1DRun is decoded completely iff the loop may run for as many code words as
   the run has (run_codes n = n/2560 make-up codes of 2560, one more make-up code if needed, the terminating code) *)
Theorem full_run_complete_iff : forall white cols n iter tail r rb,
  good r rb -> real r rb = run_bits white n ++ tail -> (n <= cols)%N ->
  ((run_codes n <= iter)%nat ->
     exists r' rb', full_run iter cols white 0 r = (n, r') /\ good r' rb' /\ real r' rb' = tail) /\
  ((iter < run_codes n)%nat ->
     exists r' rb' left, snd (full_run iter cols white 0 r) = r' /\ good r' rb' /\
       real r' rb' = left ++ tail /\ left <> []).
Proof.
  exact (fun white cols n iter tail r rb G Hs Hn =>
    conj (full_run_complete white cols n iter tail r rb G Hs Hn) (full_run_incomplete white cols n iter tail r rb G Hs Hn)).
Qed.
Print Assumptions full_run_complete_iff.

(* the bound in the source suffices for every run that fits into the line *)
Theorem full_run_bound : forall cols n, (n <= cols)%N -> (run_codes n <= full_run_iter cols)%nat.
Proof. exact full_run_bound_suffices. Qed.
Print Assumptions full_run_bound.

Theorem g4_full_run_rt : forall white cols n tail r rb,
  good r rb -> real r rb = run_bits white n ++ tail -> (n <= cols)%N ->
  exists r' rb', decode_full_run cols white r = (n, r') /\ good r' rb' /\ real r' rb' = tail.
Proof. exact decode_full_run_rt. Qed.
Print Assumptions g4_full_run_rt.

(* the row limit FilterCCITTFax.toParams gives to writer and reader alike (geometric bound from
   MaxImageHeight / MaxImagePixels, lowered by /Rows) is never "no limit"; what the K = 0 encoder accepts is
   decoded exactly, and it accepts at most that many rows *)
Theorem ccitt_rows_rt : forall c rows e,
  validate_ccitt c = true -> (0 <= c_columns c)%Z -> Forall (row_ok (g3p_of c)) rows ->
  g3_encode (g3p_of c) rows = Ok e ->
  g3_dec (g3p_of c) e = Ok (concat rows) /\ (length rows <= Z.to_nat (ccitt_max_rows (c_columns c) (c_rows c)))%nat.
Proof. exact ccitt_filter_rt. Qed.
Print Assumptions ccitt_rows_rt.

(* the reader's 128-entry mode table (mainTable) is T.6 table 1: pass 0001, horizontal 001, vertical V0 1,
   VR1..3 011 000011 0000011, VL1..3 010 000010 0000010 (offsets stored as 16-bit two's complement), extension
   0000001, and seven zeros for the start of an EOL; the mode codes are a prefix code and every 7-bit window
   starts with exactly one of them *)
Theorem ccitt_mode_table : mode_table_ok = true.
Proof. exact mode_table_check. Qed.
Print Assumptions ccitt_mode_table.

(* a row in two-dimensional coding, given ANY reference row: the decoder loop (Reader.decode2D), fed the mode codes
   the encoder writes for the row (pass / vertical / horizontal with its two runs), paints exactly the row's pixels
   (whole bytes, zero padding bits), raises no forward-progress error and stops right behind the row's code,
   whatever follows *)
Theorem g4_row_rt : forall p ref row r rb tail,
  (0 < g_cols p)%N -> row_ok p row -> good r rb -> real r rb = row2d_bits p ref row ++ tail ->
  exists r' rb', good r' rb' /\ real r' rb' = tail /\
    dec2d (S (S (bits_left r))) p (changing p (row_px p ref)) (Z.of_N (g_cols p)) (-1)%Z (white_bit p) (-2)%Z
          (negb (white_bit p)) [] r = (flat_map bits8 row, r').
Proof. exact g4_row_dec. Qed.
Print Assumptions g4_row_rt.

(* the code of a row (after up to 7 fill bits) never reads as the end-of-facsimile-block code the reader looks
   for after every row *)
Theorem g4_eofb_not_mimicked : forall p ref row q X, (0 < g_cols p)%N -> (q < 8)%nat ->
  firstn 24 (repeat false q ++ row2d_bits p ref row ++ X) <> eofb_bits.
Proof. exact no_mimic. Qed.
Print Assumptions g4_eofb_not_mimicked.

(* Group 4 (K < 0), whole images: rows of ceil(Columns/8) bytes with zero padding bits, any EncodedByteAlign,
   BlackIs1, EndOfBlock setting, within the row limit *)
Theorem g4_rt : forall p rows,
  (0 < g_cols p)%N -> Forall (row_ok p) rows ->
  (g_maxrows p = 0%nat \/ (length rows <= g_maxrows p)%nat) ->
  g4_dec p (g4_enc p (concat rows)) = Ok (concat rows).
Proof. exact g4_rt_proof. Qed.
Print Assumptions g4_rt.

(* ... and with the row limit of FilterCCITTFax.toParams: what the K < 0 encoder accepts is decoded exactly, and it
   accepts at most ccitt_max_rows rows *)
Theorem ccitt_rows_rt_g4 : forall c rows e,
  validate_ccitt c = true -> (0 <= c_columns c)%Z -> Forall (row_ok (g3p_of c)) rows ->
  g4_encode (g3p_of c) rows = Ok e ->
  g4_dec (g3p_of c) e = Ok (concat rows) /\ (length rows <= Z.to_nat (ccitt_max_rows (c_columns c) (c_rows c)))%nat.
Proof. exact ccitt_filter_rt4. Qed.
Print Assumptions ccitt_rows_rt_g4.

(* the row limit is the expression in the Go source (translated, Gen_C06ccitt2d.v) over the translated limits *)
Theorem ccitt_row_limit_source : forall cols,
  ccitt_geo_max_rows cols = Z.max 1 (Z.min Gen_C06ccitt.MaxImageHeight (Z.quot Gen_C06ccitt.MaxImagePixels (Z.max cols 1))).
Proof. exact ccitt_geo_max_rows_limits. Qed.
Print Assumptions ccitt_row_limit_source.

Example g4_hyp :
  row_ok {| g_cols := 13; g_eol := false; g_align := false; g_blackis1 := true; g_ignore_eob := false; g_maxrows := 4 |}
         [170; 80]%N.
Proof. repeat split; repeat constructor. Qed.
