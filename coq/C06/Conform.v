(* What ISO 32000-2 allows a conforming *encoder* to produce (used by C07: the
   decoders must be correct for every such encoding, not only for the output of the
   encoders modelled here).  White space may be inserted anywhere before the EOD
   marker; anything may follow the EOD marker. *)
From Coq Require Import List NArith Bool.
From GoPdf.Base Require Import Bytes Res.
From GoPdf.C06 Require Import Machine AHx A85 RunLen.
Import ListNotations.
Open Scope N_scope.

Definition strip_ws (e : bytes) : bytes := filter (fun c => negb (is_ws c)) e.

(* ASCIIHex: pairs of digits of either case; a last single digit d stands for d0 *)
Inductive ahx_body : bytes -> bytes -> Prop :=
| AHB_nil : ahx_body [] []
| AHB_odd : forall h b, hexval h = Some (b / 16) -> b mod 16 = 0 -> b < 256 -> ahx_body [h] [b]
| AHB_byte : forall h l b e x,
    hexval h = Some (b / 16) -> hexval l = Some (b mod 16) -> b < 256 ->
    ahx_body e x -> ahx_body (h :: l :: e) (b :: x).

Definition ahx_conforming (e x : bytes) : Prop :=
  exists body rest, e = body ++ 62 :: rest /\ ahx_body (strip_ws body) x.

(* ASCII85 *)
Definition be_val (b0 b1 b2 b3 : byte) : N := b0 * 16777216 + b1 * 65536 + b2 * 256 + b3.

Inductive a85_body : bytes -> bytes -> Prop :=
| A85B_nil : a85_body [] []
| A85B_grp : forall b0 b1 b2 b3 e x,
    b0 < 256 -> b1 < 256 -> b2 < 256 -> b3 < 256 -> a85_body e x ->
    a85_body (a85_digits (be_val b0 b1 b2 b3) ++ e) (b0 :: b1 :: b2 :: b3 :: x)
| A85B_z : forall e x, a85_body e x -> a85_body (122 :: e) (0 :: 0 :: 0 :: 0 :: x)
| A85B_1 : forall b0, b0 < 256 -> a85_body (firstn 2 (a85_digits (be_val b0 0 0 0))) [b0]
| A85B_2 : forall b0 b1, b0 < 256 -> b1 < 256 ->
    a85_body (firstn 3 (a85_digits (be_val b0 b1 0 0))) [b0; b1]
| A85B_3 : forall b0 b1 b2, b0 < 256 -> b1 < 256 -> b2 < 256 ->
    a85_body (firstn 4 (a85_digits (be_val b0 b1 b2 0))) [b0; b1; b2].

Definition a85_conforming (e x : bytes) : Prop :=
  exists body rest, e = body ++ 126 :: 62 :: rest /\ a85_body (strip_ws body) x.

(* RunLength: any sequence of well-formed records, then 128 *)
Definition rl_rec_ok (r : rl_rec) : Prop :=
  match r with
  | RLit l => (1 <= length l <= 128)%nat
  | RRep n _ => 2 <= n <= 128
  end.

Definition rl_conforming (e x : bytes) : Prop :=
  exists rs rest, Forall rl_rec_ok rs /\ e = flat_map rl_rec_enc rs ++ 128 :: rest /\ x = flat_map rl_rec_exp rs.
