From Coq Require Import List ZArith Bool Lia ZifyBool.
From GoPdf.Gen Require Import Gen_C06.
From GoPdf.C06 Require Import FilterParams.
Import ListNotations.
Open Scope Z_scope.

Lemma isValid_cases p : isValid p = true ->
  p = 0 \/ p = 1 \/ p = 2 \/ p = 10 \/ p = 11 \/ p = 12 \/ p = 13 \/ p = 14 \/ p = 15.
Proof.
  unfold isValid. intros H.
  match type of H with (if ?c then _ else _) = _ => destruct c eqn:E; [lia|discriminate] end.
Qed.

Lemma isValid_of p : (p = 0 \/ p = 1 \/ p = 2 \/ p = 10 \/ p = 11 \/ p = 12 \/ p = 13 \/ p = 14 \/ p = 15) -> isValid p = true.
Proof. intros H. repeat (destruct H as [->|H]; [reflexivity|]). subst; reflexivity. Qed.

Theorem flate_params_rt_proof v f :
  validate_flate_lzw v f = true -> flate_ints f = true ->
  parse_flate (flate_to_dict f) = effective_flate f.
Proof.
  destruct f as [p c b n].
  unfold validate_flate_lzw, flate_ints, parse_flate, flate_to_dict, effective_flate, int_ok, maxInt.
  cbn [f_pred f_colors f_bpc f_columns]. intros Hv Hi.
  apply andb_true_iff in Hv as [Hp Hv]. pose proof (isValid_cases p Hp) as Hc.
  unfold uses_predictor, FlatePredictorNone in *.
  destruct (negb (p =? 0) && negb (p =? 1)) eqn:Eu.
  - assert (Hp0 : (p =? 0) = false) by lia. assert (Hp1 : (p =? 1) = false) by lia.
    unfold V1_3, V1_5, maxDim, maxInt, bpc_ok in *.
    destruct (negb (c =? 0) && negb (c =? 1)) eqn:Ec;
    destruct (negb (b =? 0) && negb (b =? 8)) eqn:Eb;
    destruct (negb (n =? 0) && negb (n =? 1)) eqn:En;
    cbn [app get_int plookup pkey_eqb]; rewrite Hp, Hp0; cbn [negb andb]; rewrite Hp1; cbn [negb];
    f_equal;
    repeat match goal with |- context [if ?x then _ else _] => destruct x eqn:? end; lia.
  - cbn [get_int plookup]. reflexivity.
Qed.

Lemma plookup_app k a b :
  plookup k (a ++ b) = match plookup k a with Some v => Some v | None => plookup k b end.
Proof.
  induction a as [|[k' v] a IH]; cbn [app plookup]; [reflexivity|]. destruct (pkey_eqb k k'); [reflexivity|apply IH].
Qed.

Lemma flate_dict_no_early f : plookup KEarlyChange (flate_to_dict f) = None.
Proof.
  unfold flate_to_dict. destruct (uses_predictor (f_pred f)); [|reflexivity].
  repeat match goal with |- context [if ?x then _ else _] => destruct x end; reflexivity.
Qed.

Theorem lzw_params_rt_proof v l :
  validate_flate_lzw v (l_flate l) = true -> flate_ints (l_flate l) = true ->
  parse_lzw (lzw_to_dict l) = effective_lzw l.
Proof.
  intros Hv Hi. pose proof (flate_params_rt_proof v (l_flate l) Hv Hi) as Hf.
  destruct l as [f o]. cbn [l_flate l_offbyone] in *.
  unfold parse_lzw, lzw_to_dict, effective_lzw. cbn [l_flate l_offbyone].
  set (ex := if o then [] else [(KEarlyChange, VInt 0)]).
  assert (Hg : forall k, k <> KEarlyChange -> plookup k (flate_to_dict f ++ ex) = plookup k (flate_to_dict f)).
  { intros k Hk. rewrite plookup_app. destruct (plookup k (flate_to_dict f)); [reflexivity|].
    subst ex. destruct o; [reflexivity|]. destruct k; try reflexivity. congruence. }
  f_equal.
  - rewrite <- Hf. unfold parse_flate, get_int. rewrite !Hg by discriminate. reflexivity.
  - unfold get_int. rewrite plookup_app, flate_dict_no_early. subst ex. destruct o; reflexivity.
Qed.

Theorem ccitt_params_rt_proof c :
  validate_ccitt c = true -> int_ok (c_k c) = true ->
  parse_ccitt (ccitt_to_dict c) = effective_ccitt c.
Proof.
  destruct c as [k eol al cols rows ieob bi1 dmg].
  unfold validate_ccitt, int_ok, parse_ccitt, ccitt_to_dict, effective_ccitt, maxDim, maxInt.
  cbn [c_k c_eol c_align c_columns c_rows c_ignore_eob c_blackis1 c_damaged]. intros Hv Hk.
  destruct (negb (k =? 0)) eqn:Ek; destruct eol; destruct al;
  destruct (negb (cols =? 0) && negb (cols =? 1728)) eqn:Ec;
  destruct (0 <? rows) eqn:Er; destruct ieob; destruct bi1; destruct (0 <? dmg) eqn:Ed;
  cbn [app get_int get_bool plookup pkey_eqb negb];
  f_equal;
  repeat match goal with |- context [if ?x then _ else _] => destruct x eqn:? end; lia.
Qed.

(* whatever the dictionary holds, the parsed parameters are ones validation accepts *)
Theorem parse_valid_proof d :
  validate_flate_lzw V2_0 (parse_flate d) = true /\ flate_ints (parse_flate d) = true /\
  validate_ccitt (parse_ccitt d) = true /\ int_ok (c_k (parse_ccitt d)) = true.
Proof.
  unfold validate_flate_lzw, flate_ints, validate_ccitt, parse_flate, parse_ccitt, int_ok, uses_predictor,
    FlatePredictorNone, V2_0, V1_3, V1_5, maxDim, maxInt, bpc_ok.
  cbn [c_k c_columns c_rows c_damaged].
  repeat split.
  - destruct (get_int KPredictor d) as [p|]; [|reflexivity].
    destruct (isValid p && negb (p =? 0)) eqn:Ep; [|reflexivity].
    destruct (negb (p =? 1)) eqn:E1; cbn [f_pred f_colors f_bpc f_columns].
    + replace (isValid p) with true by lia. rewrite E1. replace (negb (p =? 0)) with true by lia. cbn [andb].
      destruct (get_int KColors d); destruct (get_int KBitsPerComponent d); destruct (get_int KColumns d);
      repeat match goal with |- context [if ?x then _ else _] => destruct x eqn:? end; lia.
    + replace (isValid p) with true by lia. rewrite E1. rewrite andb_false_r. reflexivity.
  - destruct (get_int KPredictor d) as [p|]; [|reflexivity].
    destruct (isValid p && negb (p =? 0)) eqn:Ep; [|reflexivity].
    pose proof (isValid_cases p ltac:(lia)).
    destruct (negb (p =? 1)) eqn:E1; cbn [f_pred f_colors f_bpc f_columns]; [|lia].
    destruct (get_int KColors d); destruct (get_int KBitsPerComponent d); destruct (get_int KColumns d);
      repeat match goal with |- context [if ?x then _ else _] => destruct x eqn:? end; lia.
  - destruct (get_int KColumns d); destruct (get_int KRows d); destruct (get_int KDamagedRowsBeforeError d);
      repeat match goal with |- context [if ?x then _ else _] => destruct x eqn:? end; lia.
  - destruct (get_int KK d);
      repeat match goal with |- context [if ?x then _ else _] => destruct x eqn:? end; lia.
Qed.
