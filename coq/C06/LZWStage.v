(* LZW reader (internal/filter/lzw/reader.go), the output staging buffer: Reader.decode collects decoded bytes at
   the start of r.output (o bytes pending) and builds the expansion of a table code right-to-left at the END of
   r.output before copying it behind the pending bytes; the pending bytes are handed out once there are
   flushBuffer of them.  An expansion of n bytes is staged in output[len-n .. len): it neither overwrites pending
   bytes nor is copied in part iff o + n <= len(output).  The two sizes come from the Go source
   (Gen_C06.lzw_flushBuffer, Gen_C06.lzw_outputLen).  Proved here for EVERY code stream, not only the encoder's:
   no expansion is longer than maxCode - 256 bytes, fewer than flushBuffer bytes are pending when a code is
   decoded, and therefore the staging area never reaches the pending bytes. *)
From Coq Require Import List NArith ZArith Bool Lia ZifyN ZifyNat ZifyBool FMapPositive.
From GoPdf.Base Require Import Bytes Res.
From GoPdf.Gen Require Import Gen_C06.
From GoPdf.C06 Require Import Machine MachineProofs LZW LZWCodeProofs.
Import ListNotations.
Open Scope N_scope.

Definition lzw_flush_at : N := Z.to_N lzw_flushBuffer.
Definition lzw_out_len : N := Z.to_N lzw_outputLen.
Definition lzw_max_expansion : N := lzw_max_code - 256.

(* o: pending bytes; ok: no staging so far reached the pending bytes; hw: high-water mark of o + n *)
Record stage := { sg_o : N; sg_ok : bool; sg_hw : N }.
Definition stage0 : stage := {| sg_o := 0; sg_ok := true; sg_hw := 0 |}.

(* a code with an expansion of n bytes (n = 1 for a literal, which is stored at output[o] directly) *)
Definition stage_code (sg : stage) (n : N) : stage :=
  let o' := sg_o sg + n in
  {| sg_o := if lzw_flush_at <=? o' then 0 else o';
     sg_ok := sg_ok sg && (o' <=? lzw_out_len);
     sg_hw := N.max (sg_hw sg) o' |}.

(* the decoder of LZW.v with the buffer bookkeeping alongside; a byte completes at most one code *)
Definition stage_step (ec : N) (st : lzw_dst * stage) (b : byte) : (lzw_dst * stage) * list byte :=
  let '(d, sg) := st in
  let '(d', s) := lzw_dec_step ec d b in
  ((d', stage_code sg (N.of_nat (length s))), s).

(* the bookkeeping at the end of a code stream *)
Definition lzw_stage_run (early : bool) (e : bytes) : stage :=
  snd (fst (run (stage_step (ec_of early)) (lzw_dinit, stage0) e)).

Lemma stage_run_out ec : forall e d sg,
  snd (run (stage_step ec) (d, sg) e) = snd (run (lzw_dec_step ec) d e) /\
  fst (fst (run (stage_step ec) (d, sg) e)) = fst (run (lzw_dec_step ec) d e).
Proof.
  induction e as [|b e IH]; intros d sg; [split; reflexivity|]. cbn [run]. unfold stage_step at 1 3.
  destruct (lzw_dec_step ec d b) as [d' s]. specialize (IH d' (stage_code sg (N.of_nat (length s)))).
  destruct (run (stage_step ec) (d', stage_code sg (N.of_nat (length s))) e) as [[d2 sg2] o2].
  destruct (run (lzw_dec_step ec) d' e) as [d3 o3]. cbn [fst snd] in *. destruct IH as [-> ->]. split; reflexivity.
Qed.

(* ---- the room in the buffer: a fact about the constants in the Go source ---- *)

Lemma stage_room_check : ((lzw_flush_at - 1 + lzw_max_expansion <=? lzw_out_len) && (0 <? lzw_flush_at)) = true.
Proof. vm_compute. reflexivity. Qed.

Lemma stage_room : lzw_flush_at - 1 + lzw_max_expansion <= lzw_out_len /\ 0 < lzw_flush_at.
Proof.
  pose proof stage_room_check as H. apply andb_true_iff in H as [H1 H2].
  apply N.leb_le in H1. apply N.ltb_lt in H2. split; assumption.
Qed.

(* ---- what every decoder state satisfies ---- *)

Record dinv (ec : N) (d : lzw_dst) : Prop := {
  di_w : 9 <= ld_width d <= 12;
  di_hi : 257 <= ld_hi d /\ ld_hi d + ec < 2 ^ ld_width d;
  di_last : forall l, ld_last d = Some l -> l < ld_hi d /\ 258 <= ld_hi d;
  di_tbl : forall c s, PM.find (N.succ_pos c) (ld_tbl d) = Some s -> N.of_nat (length s) + 256 <= c }.

Ltac split_w w :=
  let H := fresh in
  assert (H : w = 9 \/ w = 10 \/ w = 11 \/ w = 12) by lia;
  destruct H as [H | [H | [H | H]]]; rewrite H in *;
  [change (2 ^ 9) with 512 in * | change (2 ^ 10) with 1024 in * | change (2 ^ 11) with 2048 in * | change (2 ^ 12) with 4096 in *].

Lemma dinv_hi ec d : dinv ec d -> ld_hi d <= 4095.
Proof. intros [Hw [H1 H2] _ _]. split_w (ld_width d); lia. Qed.

Lemma dinv_init ec : ec <= 1 -> dinv ec lzw_dinit.
Proof.
  intros He. destruct lzw_consts as (C1 & C2 & C3 & C4 & C5). split; cbn [lzw_dinit ld_width ld_hi ld_last ld_tbl].
  - rewrite C4. lia.
  - rewrite C2, C4. change (2 ^ 9) with 512. lia.
  - discriminate.
  - intros c s H. rewrite PM.gempty in H. discriminate.
Qed.

Lemma dinv_status ec d s : dinv ec d -> dinv ec (lzw_set_status d s).
Proof. intros [H1 H2 H3 H4]. split; assumption. Qed.

Lemma str_len ec d c s : dinv ec d -> lzw_str (ld_tbl d) c = Some s ->
  N.of_nat (length s) <= 1 \/ N.of_nat (length s) + 256 <= c.
Proof.
  intros I H. unfold lzw_str in H. destruct (c <? 256).
  - inversion H. left. cbn. lia.
  - right. apply (di_tbl ec d I). assumption.
Qed.

Lemma dec_code_inv ec d code : ec <= 1 -> dinv ec d ->
  dinv ec (fst (lzw_dec_code ec d code)) /\ N.of_nat (length (snd (lzw_dec_code ec d code))) <= lzw_max_expansion.
Proof.
  intros He I. destruct lzw_consts as (C1 & C2 & C3 & C4 & C5).
  assert (Hme : lzw_max_expansion = 3839) by (unfold lzw_max_expansion; rewrite C3; reflexivity). rewrite Hme.
  pose proof (dinv_hi ec d I) as Hhi.
  unfold lzw_dec_code. destruct (code =? lzw_clear_code).
  { cbn [fst snd length]. split; [|lia]. split; cbn [ld_width ld_hi ld_last ld_tbl].
    - rewrite C4. lia.
    - rewrite C2, C4. change (2 ^ 9) with 512. lia.
    - discriminate.
    - intros c s H. rewrite PM.gempty in H. discriminate. }
  destruct (code =? lzw_eod_code).
  { cbn [fst snd length]. split; [apply dinv_status; assumption|lia]. }
  destruct (code <=? ld_hi d) eqn:Ecode.
  2:{ cbn [fst snd length]. split; [apply dinv_status; assumption|lia]. }
  apply N.leb_le in Ecode.
  set (prev := match ld_last d with Some l => lzw_str (ld_tbl d) l | None => None end).
  (* the previous expansion, one byte longer, still fits under hi *)
  assert (Hprev : forall sl, prev = Some sl -> N.of_nat (length sl) + 1 + 256 <= ld_hi d).
  { intros sl Hp. subst prev. destruct (ld_last d) as [l|] eqn:El; [|discriminate].
    destruct (di_last ec d I l El) as [L1 L2]. destruct (str_len ec d l sl I Hp); lia. }
  set (s := match prev with
            | Some sl => if code =? ld_hi d then Some (sl ++ [hd 0 sl]) else lzw_str (ld_tbl d) code
            | None => lzw_str (ld_tbl d) code
            end).
  destruct s as [s0|] eqn:Es.
  2:{ cbn [fst snd length]. split; [apply dinv_status; assumption|lia]. }
  assert (Hs : N.of_nat (length s0) <= 1 \/ N.of_nat (length s0) + 256 <= ld_hi d).
  { subst s. destruct prev as [sl|] eqn:Ep.
    - destruct (code =? ld_hi d).
      + inversion Es. right. rewrite app_length. cbn [length]. specialize (Hprev sl eq_refl). lia.
      + destruct (str_len ec d code s0 I Es); [left; assumption|right; lia].
    - destruct (str_len ec d code s0 I Es); [left; assumption|right; lia]. }
  cbn [fst snd]. split; [|lia].
  set (tbl' := match prev with
               | Some sl => PM.add (N.succ_pos (ld_hi d)) (sl ++ [hd 0 s0]) (ld_tbl d)
               | None => ld_tbl d
               end).
  assert (Ht : forall c x, PM.find (N.succ_pos c) tbl' = Some x -> N.of_nat (length x) + 256 <= c).
  { intros c x Hf. subst tbl'. destruct prev as [sl|] eqn:Ep; [|apply (di_tbl ec d I); assumption].
    destruct (N.eq_dec c (ld_hi d)) as [->|Hne].
    - rewrite PM.gss in Hf. inversion Hf. rewrite app_length. cbn [length]. specialize (Hprev sl eq_refl). lia.
    - rewrite PM.gso in Hf by (intros E; apply succ_pos_inj in E; congruence). apply (di_tbl ec d I). assumption. }
  destruct I as [Hw [H1 H2] Hl _]. unfold lzw_bump. rewrite C5.
  destruct (2 ^ ld_width d <=? ld_hi d + 1 + ec) eqn:Eov; [destruct (12 <=? ld_width d) eqn:Ew|].
  - split; cbn [ld_width ld_hi ld_last ld_tbl]; try assumption; [split; assumption|discriminate].
  - apply N.leb_le in Eov. apply N.leb_gt in Ew.
    split; cbn [ld_width ld_hi ld_last ld_tbl]; try assumption.
    + lia.
    + split; [lia|]. assert (Hx : ld_width d = 9 \/ ld_width d = 10 \/ ld_width d = 11) by lia.
      destruct Hx as [Hx | [Hx | Hx]]; rewrite Hx in *.
      * change (2 ^ 9) with 512 in *. change (2 ^ (9 + 1)) with 1024. lia.
      * change (2 ^ 10) with 1024 in *. change (2 ^ (10 + 1)) with 2048. lia.
      * change (2 ^ 11) with 2048 in *. change (2 ^ (11 + 1)) with 4096. lia.
    + intros l E. inversion E. subst l. lia.
  - apply N.leb_gt in Eov. split; cbn [ld_width ld_hi ld_last ld_tbl]; try assumption.
    + split; [lia|]. split_w (ld_width d); lia.
    + intros l E. inversion E. subst l. lia.
Qed.

Lemma dec_step_inv ec d b : ec <= 1 -> dinv ec d ->
  dinv ec (fst (lzw_dec_step ec d b)) /\ N.of_nat (length (snd (lzw_dec_step ec d b))) <= lzw_max_expansion.
Proof.
  intros He I. unfold lzw_dec_step. destruct (ld_status d); try (cbn [fst snd length]; split; [assumption|lia]).
  destruct (ld_width d <=? ld_n d + 8).
  - apply dec_code_inv; [assumption|]. destruct I as [H1 H2 H3 H4]. split; assumption.
  - cbn [fst snd length]. split; [|lia]. destruct I as [H1 H2 H3 H4]. split; assumption.
Qed.

(* ---- the staging area never reaches the pending bytes ---- *)

Definition sinv (sg : stage) : Prop :=
  sg_ok sg = true /\ sg_o sg < lzw_flush_at /\ sg_hw sg <= lzw_flush_at - 1 + lzw_max_expansion.

Lemma stage_code_inv sg n : sinv sg -> n <= lzw_max_expansion -> sinv (stage_code sg n).
Proof.
  intros (H1 & H2 & H3) Hn. destruct stage_room as [R1 R2]. unfold stage_code, sinv. cbn [sg_ok sg_o sg_hw].
  split; [|split].
  - rewrite H1. cbn [andb]. apply N.leb_le. lia.
  - destruct (lzw_flush_at <=? sg_o sg + n) eqn:E; [assumption|]. apply N.leb_gt in E. assumption.
  - lia.
Qed.

Lemma stage_run_inv ec : ec <= 1 -> forall e d sg, dinv ec d -> sinv sg ->
  sinv (snd (fst (run (stage_step ec) (d, sg) e))).
Proof.
  intros He. induction e as [|b e IH]; intros d sg I S; [exact S|].
  cbn [run]. unfold stage_step at 1.
  destruct (dec_step_inv ec d b He I) as [I' L']. destruct (lzw_dec_step ec d b) as [d' s]. cbn [fst snd] in *.
  specialize (IH d' (stage_code sg (N.of_nat (length s))) I' (stage_code_inv sg _ S L')).
  destruct (run (stage_step ec) (d', stage_code sg (N.of_nat (length s))) e) as [[d2 sg2] o2]. exact IH.
Qed.

Theorem lzw_staging_safe_proof early e :
  sg_ok (lzw_stage_run early e) = true /\ sg_hw (lzw_stage_run early e) <= lzw_out_len.
Proof.
  unfold lzw_stage_run. assert (He : ec_of early <= 1) by (destruct early; cbn; lia).
  destruct (stage_run_inv (ec_of early) He e lzw_dinit stage0 (dinv_init _ He)) as (H1 & H2 & H3).
  { destruct stage_room as [R1 R2]. unfold sinv, stage0. cbn [sg_ok sg_o sg_hw]. repeat split; lia. }
  split; [assumption|]. destruct stage_room as [R1 R2]. lia.
Qed.

(* the same decoder: the bookkeeping does not change what is decoded *)
Theorem lzw_stage_same_decoder early e :
  snd (run (stage_step (ec_of early)) (lzw_dinit, stage0) e) = snd (run (lzw_dec_step (ec_of early)) lzw_dinit e) /\
  fst (fst (run (stage_step (ec_of early)) (lzw_dinit, stage0) e)) = fst (run (lzw_dec_step (ec_of early)) lzw_dinit e).
Proof. apply stage_run_out. Qed.

(* decoder result and bookkeeping in one run (for the model driver) *)
Definition lzw_stage_dec (early : bool) (e : bytes) : stage * res bytes :=
  let r := run (stage_step (ec_of early)) (lzw_dinit, stage0) e in
  (snd (fst r),
   match ld_status (fst (fst r)) with LZ_Done => Ok (snd r) | LZ_Fail => Err Malformed | LZ_Run => Err EOF end).

Theorem lzw_stage_dec_spec early e :
  fst (lzw_stage_dec early e) = lzw_stage_run early e /\ snd (lzw_stage_dec early e) = lzw_dec early e.
Proof.
  unfold lzw_stage_dec, lzw_stage_run, lzw_dec. cbn [fst snd]. split; [reflexivity|].
  destruct (lzw_stage_same_decoder early e) as [-> ->].
  destruct (run (lzw_dec_step (ec_of early)) lzw_dinit e) as [d out]. cbn [fst snd].
  destruct d as [a n w h l t st]. cbn [ld_status]. destruct st; reflexivity.
Qed.

(* the room, on the constants as the translator took them from reader.go *)
Lemma stage_room_source :
  (lzw_flushBuffer - 1 + (lzw_maxCode - 256) <= lzw_outputLen)%Z /\ (0 < lzw_flushBuffer)%Z.
Proof. split; [apply Z.leb_le|apply Z.ltb_lt]; vm_compute; reflexivity. Qed.
