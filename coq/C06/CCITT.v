(* CCITTFaxDecode, K = 0: ITU-T T.4 one-dimensional coding as internal/filter/ccittfax
   implements it.  Code tables come from the Go source (Gen_C06ccitt.v): the encoder's
   (code, width) tables and the decoder's 4096/8192-entry lookup tables.
   Encoder (writer.go): each row is a sequence of runs of alternating colour starting with white
   (possibly of length 0); a run is written as [2560-make-up]* [1792..2496 make-up] [64..1728 make-up]
   terminating code; EndOfLine puts the EOL code 000000000001 before every row; EncodedByteAlign
   pads with zero bits after every row; unless EndOfBlock is false six EOL codes (RTC) end the data.
   Decoder (reader.go): 12/13 bits are looked up in the white/black table; bits past the end of the
   input read as zeros, and end of data is reported when such padding is *consumed* (looking at
   it is harmless); with EncodedByteAlign every line starts with a skip to the byte boundary. *)
From Coq Require Import List NArith ZArith Bool FMapPositive.
From GoPdf.Base Require Import Bytes Res.
From GoPdf.Gen Require Import Gen_C06ccitt Gen_C06ccitt2d.
From GoPdf.C06 Require Import Machine.
Import ListNotations.
Open Scope N_scope.

Record g3p := {
  g_cols : N;              (* Columns, > 0 *)
  g_eol : bool;            (* EndOfLine *)
  g_align : bool;          (* EncodedByteAlign *)
  g_blackis1 : bool;       (* BlackIs1 *)
  g_ignore_eob : bool;     (* EndOfBlock = false *)
  g_maxrows : nat          (* 0 = no limit *)
}.

(* ---- bits ---- *)

Fixpoint bits_of (w : nat) (c : N) : list bool :=       (* w bits of c, most significant first *)
  match w with
  | O => []
  | S w' => N.testbit c (N.of_nat w') :: bits_of w' c
  end.

Fixpoint num_of (l : list bool) (acc : N) : N :=
  match l with
  | [] => acc
  | b :: r => num_of r (2 * acc + (if b then 1 else 0))
  end.

Definition bits8 (b : byte) : list bool := bits_of 8 b.

Fixpoint pack_bits (l : list bool) : bytes :=           (* zero padded *)
  match l with
  | a :: b :: c :: d :: e :: f :: g :: h :: r => num_of [a; b; c; d; e; f; g; h] 0 :: pack_bits r
  | [] => []
  | _ => [num_of (firstn 8 (l ++ repeat false 7)) 0]
  end.

(* full bytes of a bit list and the bits left over *)
Fixpoint pack_full (l : list bool) : bytes * list bool :=
  match l with
  | a :: b :: c :: d :: e :: f :: g :: h :: r =>
    let '(bs, rest) := pack_full r in (num_of [a; b; c; d; e; f; g; h] 0 :: bs, rest)
  | _ => ([], l)
  end.

(* ---- tables ---- *)

Definition tnth (l : list Z) (i : N) : N := Z.to_N (nth (N.to_nat i) l 0%Z).

(* the decoder's lookup tables as finite maps (index + 1 -> value), built once *)
Fixpoint tmap_from (i : positive) (l : list Z) (m : PositiveMap.t N) : PositiveMap.t N :=
  match l with
  | [] => m
  | z :: r => tmap_from (Pos.succ i) r (PositiveMap.add i (Z.to_N z) m)
  end.
Definition tmap (l : list Z) : PositiveMap.t N := tmap_from 1 l (PositiveMap.empty N).
Definition tget (m : PositiveMap.t N) (i : N) : N :=
  match PositiveMap.find (N.succ_pos i) m with Some v => v | None => 0 end.

Definition whiteW := tmap whiteTable_Width.
Definition whiteS := tmap whiteTable_State.
Definition whiteP := tmap whiteTable_Param.
Definition blackW := tmap blackTable_Width.
Definition blackS := tmap blackTable_State.
Definition blackP := tmap blackTable_Param.

Definition code_bits (codes widths : list Z) (i : N) : list bool :=
  bits_of (N.to_nat (tnth widths i)) (tnth codes i).

Definition term_bits (white : bool) (n : N) : list bool :=
  if white then code_bits whiteTermEncodeTable_Code whiteTermEncodeTable_Width n
  else code_bits blackTermEncodeTable_Code blackTermEncodeTable_Width n.

Definition makeup_bits (white : bool) (i : N) : list bool :=
  if white then code_bits whiteMakeupEncodeTable_Code whiteMakeupEncodeTable_Width i
  else code_bits blackMakeupEncodeTable_Code blackMakeupEncodeTable_Width i.

Definition ext_bits (i : N) : list bool := code_bits extMakeupEncodeTable_Code extMakeupEncodeTable_Width i.

Definition eol_bits : list bool := repeat false 11 ++ [true].

(* ---- encoder ---- *)

Fixpoint rep_bits (k : nat) (l : list bool) : list bool :=
  match k with O => [] | S k' => l ++ rep_bits k' l end.

(* Writer.encode1DRun *)
Definition run_bits (white : bool) (n : N) : list bool :=
  let big := rep_bits (N.to_nat (n / 2560)) (ext_bits 12) in
  let n1 := n mod 2560 in
  let '(ext, n2) := if 1792 <=? n1 then (ext_bits ((n1 - 1792) / 64), n1 - ((n1 - 1792) / 64 + 28) * 64)
                    else ([], n1) in
  let '(mk, n3) := if 64 <=? n2 then (makeup_bits white (n2 / 64 - 1), n2 mod 64) else ([], n2) in
  big ++ ext ++ mk ++ term_bits white n3.

(* run lengths of a row of pixels ([true] = white), colours alternating, white first *)
Fixpoint runs_of (cur : bool) (n : N) (px : list bool) : list N :=
  match px with
  | [] => [n]
  | p :: r => if Bool.eqb p cur then runs_of cur (n + 1) r else n :: runs_of (negb cur) 1 r
  end.

Fixpoint runs_bits (white : bool) (rs : list N) : list bool :=
  match rs with
  | [] => []
  | n :: r => run_bits white n ++ runs_bits (negb white) r
  end.

(* pixels of a row as "is white" flags *)
Definition row_pixels (p : g3p) (row : bytes) : list bool :=
  map (fun b => Bool.eqb b (negb (g_blackis1 p))) (firstn (N.to_nat (g_cols p)) (flat_map bits8 row)).

Definition row_bits (p : g3p) (row : bytes) : list bool :=
  (if g_eol p then eol_bits else []) ++ runs_bits true (runs_of true 0 (row_pixels p row)).

Definition pad_to_byte (l : list bool) : list bool :=
  l ++ repeat false ((8 - length l mod 8) mod 8).

Definition line_bytes (p : g3p) : nat := N.to_nat ((g_cols p + 7) / 8).

(* row function for Machine.rows_step: the state is the bits not yet written (fewer than 8) *)
Definition g3_enc_row (p : g3p) (pend : list bool) (row : list byte) : list bool * list byte :=
  let bits := pend ++ row_bits p row in
  let bits := if g_align p then pad_to_byte bits else bits in
  let '(bs, rest) := pack_full bits in (rest, bs).

Definition g3_enc_close (p : g3p) (pend : list bool) : bytes :=
  pack_bits (pend ++ (if g_ignore_eob p then [] else rep_bits 6 eol_bits)).

Definition g3_enc (p : g3p) (x : bytes) : bytes :=
  let '(st, out) := run (rows_step (line_bytes p) (g3_enc_row p)) (rows_init []) x in
  out ++ g3_enc_close p (rp st).

(* ---- decoder ---- *)

Record g3r := {
  r_buf : list bool;       (* bits read and not yet consumed *)
  r_rest : bytes;          (* input not yet read *)
  r_err : option cls;
  r_eof : bool;            (* the input is exhausted: zero bits are supplied instead *)
  r_pad : nat              (* how many of the buffered bits are such padding *)
}.

(* Reader.peekBits: make sure n bits are buffered (at most 3 bytes are needed) *)
Fixpoint fill (fuel : nat) (n : nat) (r : g3r) : g3r :=
  match fuel with
  | O => r
  | S fuel' =>
    if Nat.ltb (length (r_buf r)) n then
      match r_err r, r_eof r, r_rest r with
      | None, false, b :: rest =>
        fill fuel' n {| r_buf := r_buf r ++ bits8 b; r_rest := rest; r_err := None; r_eof := false; r_pad := r_pad r |}
      | None, false, [] =>
        fill fuel' n {| r_buf := r_buf r ++ repeat false 8; r_rest := []; r_err := None; r_eof := true; r_pad := r_pad r + 8 |}
      | e, eof, rest =>
        fill fuel' n {| r_buf := r_buf r ++ repeat false 8; r_rest := rest; r_err := e; r_eof := eof;
                        r_pad := if eof then r_pad r + 8 else r_pad r |}
      end
    else r
  end.

Definition peek (n : nat) (r : g3r) : N * g3r :=
  let r' := fill 4 n r in (num_of (firstn n (r_buf r')) 0, r').

(* Reader.consumeBits *)
Definition consume (n : nat) (r : g3r) : g3r :=
  let r' := fill 4 n r in
  let buf := skipn n (r_buf r') in
  if Nat.ltb (length buf) (r_pad r') then
    {| r_buf := buf; r_rest := r_rest r'; r_eof := r_eof r'; r_pad := length buf;
       r_err := match r_err r' with None => Some EOF | e => e end |}
  else {| r_buf := buf; r_rest := r_rest r'; r_err := r_err r'; r_eof := r_eof r'; r_pad := r_pad r' |}.

Definition set_err (r : g3r) (e : cls) : g3r :=
  {| r_buf := r_buf r; r_rest := r_rest r; r_err := Some e; r_eof := r_eof r; r_pad := r_pad r |}.

(* Reader.decodeRun: (run length, state, reader) *)
Definition decode_run (white : bool) (r : g3r) : N * N * g3r :=
  let '(v, r1) := peek (if white then 12 else 13) r in
  let w := if white then tget whiteW v else tget blackW v in
  let st := if white then tget whiteS v else tget blackS v in
  let pa := if white then tget whiteP v else tget blackP v in
  if w =? 0 then (0, st, set_err r1 Malformed)
  else (pa, st, consume (N.to_nat w) r1).

(* Reader.waitForOne *)
Fixpoint wait_for_one (fuel : nat) (r : g3r) : g3r :=
  match fuel with
  | O => r
  | S fuel' =>
    match r_err r with
    | Some _ => r
    | None =>
      let '(v, r1) := peek 1 r in
      let r2 := consume 1 r1 in
      if v =? 0 then wait_for_one fuel' r2 else r2
    end
  end.

Definition st_eol : N := Z.to_N S_EOL.
Definition st_termw : N := Z.to_N S_TermW.
Definition st_termb : N := Z.to_N S_TermB.
Definition st_makeupw : N := Z.to_N S_MakeUpW.
Definition st_makeupb : N := Z.to_N S_MakeUpB.
Definition st_makeup : N := Z.to_N S_MakeUp.

Definition bits_left (r : g3r) : nat := length (r_buf r) + 8 * length (r_rest r).

(* Reader.decodeG3ScanLine1D: the pixels decoded so far are kept newest first ([true] = bit 1) *)
Fixpoint g3_line (fuel : nat) (p : g3p) (xpos : N) (white : bool) (num_eol : nat) (pending : bool)
         (line : list bool) (r : g3r) : list bool * g3r :=
  match fuel with
  | O => (line, r)
  | S fuel' =>
    if ((xpos <? g_cols p) || pending) && (match r_err r with None => true | Some _ => false end) then
      let '(n, st, r1) := decode_run white r in
      let pending' := (st =? st_makeupw) || (st =? st_makeupb) || (st =? st_makeup) in
      let k := N.min n (g_cols p - xpos) in
      let line' := repeat (negb (Bool.eqb white (g_blackis1 p))) (N.to_nat k) ++ line in
      let xpos' := xpos + k in
      if st =? st_eol then
        let r2 := wait_for_one (S (bits_left r1)) r1 in
        if xpos' =? 0 then
          if negb (g_ignore_eob p) && Nat.leb 6 (S num_eol) then (line', set_err r2 EOF)
          else g3_line fuel' p xpos' white (S num_eol) pending' line' r2
        else (line', r2)
      else if st =? st_termw then g3_line fuel' p xpos' false num_eol pending' line' r1
      else if st =? st_termb then g3_line fuel' p xpos' true num_eol pending' line' r1
      else g3_line fuel' p xpos' white num_eol pending' line' r1
    else (line, r)
  end.

(* Reader.Read until the end: rows are decoded while there is no error and MaxRows is not reached *)
Fixpoint g3_rows (fuel : nat) (p : g3p) (nrows : nat) (r : g3r) : bytes * option cls :=
  match fuel with
  | O => ([], Some OutOfFuel)
  | S fuel' =>
    match r_err r with
    | Some e => ([], Some e)
    | None =>
      if negb (Nat.eqb (g_maxrows p) 0) && Nat.leb (g_maxrows p) nrows then ([], Some EOF)
      else
        (* Reader.decodeScanLine: skip the fill bits of a byte-aligned line *)
        let r0 := if g_align p then consume (length (r_buf r) mod 8) r else r in
        let '(line, r1) := g3_line (S (S (bits_left r0))) p 0 true 0 false [] r0 in
        match line with
        | [] => ([], match r_err r1 with Some e => Some e | None => Some EOF end)
        | _ =>
          let '(out, e) := g3_rows fuel' p (S nrows) r1 in
          (pack_bits (rev_append line []) ++ out, e)
        end
    end
  end.

Definition g3_dec (p : g3p) (e : bytes) : res bytes :=
  let r := {| r_buf := []; r_rest := e; r_err := None; r_eof := false; r_pad := 0 |} in
  match g3_rows (S (S (8 * length e))) p 0 r with
  | (out, Some EOF) => Ok out
  | (_, Some c) => Err c
  | (_, None) => Err Panic
  end.

(* ---- two-dimensional coding: the run decoder of the horizontal mode ---- *)

(* Reader.decodeFullRun: make-up codes followed by the terminating code, at most [iter] codes *)
Fixpoint full_run (iter : nat) (cols : N) (white : bool) (total : N) (r : g3r) : N * g3r :=
  match iter with
  | O => (total, r)
  | S iter' =>
    let '(n, st, r1) := decode_run white r in
    let total' := total + n in
    if (st =? st_termw) || (st =? st_termb) || (st =? st_eol) ||
       (match r_err r1 with None => false | Some _ => true end) then (total', r1)
    else if cols <? total' then (total', r1)
    else full_run iter' cols white total' r1
  end.

(* the iteration bound is the expression of the `for range` statement in the Go source *)
Definition full_run_iter (cols : N) : nat := Z.to_nat (decodeFullRun_bound (Z.of_N cols)).

Definition decode_full_run (cols : N) (white : bool) (r : g3r) : N * g3r :=
  full_run (full_run_iter cols) cols white 0 r.

(* number of code words Writer.encode1DRun emits for a run *)
Definition run_codes (n : N) : nat :=
  (N.to_nat (n / 2560) + (if (64 <=? n mod 2560)%N then 1 else 0) + 1)%nat.
