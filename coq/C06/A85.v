(* ASCII85Decode (ISO 32000-2, 7.4.3).  Four bytes are a base-256 number written as
   five base-85 digits '!'..'u'; an all-zero group is 'z'; a final group of n = 1..3
   bytes is padded with zeros and only its first n+1 digits are written; "~>" is EOD.
   The decoder pads a short final group with the digit 84 ('u').  Encoder line
   handling follows internal/filter/ascii85/ascii85.go (an output buffer of 80 bytes
   which is flushed with a line feed when fewer than 8 bytes are left).  The Go
   decoder accumulates in a uint32, i.e. modulo 2^32; so does the model. *)
From Coq Require Import List NArith Bool.
From GoPdf.Base Require Import Bytes Res.
From GoPdf.C06 Require Import Machine AHx.
Import ListNotations.
Open Scope N_scope.

Definition a85_digits (v : N) : list byte :=
  let q1 := v / 85 in let q2 := q1 / 85 in let q3 := q2 / 85 in let q4 := q3 / 85 in
  [q4 mod 85 + 33; q3 mod 85 + 33; q2 mod 85 + 33; q1 mod 85 + 33; v mod 85 + 33].

Definition be32 (v : N) : list byte :=
  [v / 16777216 mod 256; v / 65536 mod 256; v / 256 mod 256; v mod 256].

(* encoder *)
Record a85_est := { ev : N; ek : N; ecol : N }.

Definition a85_einit : a85_est := {| ev := 0; ek := 0; ecol := 0 |}.

Definition a85_enc_step (st : a85_est) (b : byte) : a85_est * list byte :=
  let v := ev st * 256 + b in
  if ek st =? 3 then
    let '(nl, col) := if 80 <? ecol st + 8 then ([10], 0) else ([], ecol st) in
    let g := if v =? 0 then [122] else a85_digits v in
    ({| ev := 0; ek := 0; ecol := col + N.of_nat (length g) |}, nl ++ g)
  else ({| ev := v; ek := ek st + 1; ecol := ecol st |}, []).

Definition a85_shift (k : N) : N :=
  match k with 1 => 16777216 | 2 => 65536 | 3 => 256 | _ => 1 end.

Definition a85_enc_tail (st : a85_est) : list byte :=
  if ek st =? 0 then [] else firstn (N.to_nat (ek st) + 1) (a85_digits (ev st * a85_shift (ek st))).

Definition a85_enc_close (st : a85_est) : list byte := a85_enc_tail st ++ [126; 62].

Definition a85_enc (x : bytes) : bytes :=
  let '(st, out) := run a85_enc_step a85_einit x in out ++ a85_enc_close st.

(* decoder *)
Inductive a85_dst := A_Go (v k : N) | A_Tilde | A_Done | A_Fail.

Definition a85_acc (v d : N) : N := (v * 85 + d) mod 4294967296.

Definition a85_pad (v k : N) : N :=
  match k with
  | 2 => a85_acc (a85_acc (a85_acc v 84) 84) 84
  | 3 => a85_acc (a85_acc v 84) 84
  | 4 => a85_acc v 84
  | _ => v
  end.

Definition a85_dec_step (st : a85_dst) (c : byte) : a85_dst * list byte :=
  match st with
  | A_Go v k =>
    if (33 <=? c) && (c <? 118) then
      let v' := a85_acc v (c - 33) in
      if k =? 4 then (A_Go 0 0, be32 v') else (A_Go v' (k + 1), [])
    else if (k =? 0) && (c =? 122) then (A_Go 0 0, [0; 0; 0; 0])
    else if is_ws c then (st, [])
    else if c =? 126 then
      if k =? 0 then (A_Tilde, [])
      else if k =? 1 then (A_Fail, [])
      else (A_Tilde, firstn (N.to_nat k - 1) (be32 (a85_pad v k)))
    else (A_Fail, [])
  | A_Tilde => if c =? 62 then (A_Done, []) else (A_Fail, [])
  | _ => (st, [])
  end.

Definition a85_dec (e : bytes) : res bytes :=
  match run a85_dec_step (A_Go 0 0) e with
  | (A_Done, out) => Ok out
  | (A_Fail, _) => Err Malformed
  | (_, _) => Err EOF
  end.
