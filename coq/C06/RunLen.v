(* RunLengthDecode (ISO 32000-2, 7.4.5).  A length byte 0..127 is followed by 1..128
   literal bytes, 129..255 by one byte to be repeated 257-length = 2..128 times, 128 is
   EOD.  The encoder is the greedy one of internal/filter/runlength/writer.go: bytes are
   collected as literals; three equal bytes in a row start a run (after flushing the
   literals before them); runs and literal blocks are cut at 128. *)
From Coq Require Import List NArith Bool.
From GoPdf.Base Require Import Bytes Res.
From GoPdf.C06 Require Import Machine.
Import ListNotations.
Open Scope N_scope.

Inductive rl_rec := RLit (l : list byte) | RRep (n : N) (b : byte).

Definition rl_rec_enc (r : rl_rec) : list byte :=
  match r with
  | RLit l => (N.of_nat (length l) - 1) :: l
  | RRep n b => [257 - n; b]
  end.

Definition rl_rec_exp (r : rl_rec) : list byte :=
  match r with
  | RLit l => l
  | RRep n b => repeat b (N.to_nat n)
  end.

(* encoder state: pending literal bytes (newest first), current run *)
Record rl_st := { rl_buf : list byte; rl_rc : N; rl_rv : byte }.

Definition rl_init : rl_st := {| rl_buf := []; rl_rc := 0; rl_rv := 0 |}.

Definition rl_flush_lit (buf : list byte) : list rl_rec :=
  match buf with [] => [] | _ => [RLit (rev buf)] end.

Definition rl_push (buf : list byte) (b : byte) : rl_st * list rl_rec :=
  let buf' := b :: buf in
  match buf' with
  | x :: y :: z :: lit =>
    if (x =? y) && (y =? z) then
      ({| rl_buf := []; rl_rc := 3; rl_rv := z |}, rl_flush_lit lit)
    else if Nat.eqb (length buf') 128 then (rl_init, [RLit (rev buf')])
    else ({| rl_buf := buf'; rl_rc := 0; rl_rv := 0 |}, [])
  | _ => ({| rl_buf := buf'; rl_rc := 0; rl_rv := 0 |}, [])
  end.

Definition rl_enc_step (st : rl_st) (b : byte) : rl_st * list rl_rec :=
  if 0 <? rl_rc st then
    if (b =? rl_rv st) && (rl_rc st <? 128) then
      ({| rl_buf := rl_buf st; rl_rc := rl_rc st + 1; rl_rv := rl_rv st |}, [])
    else
      let '(st', o) := rl_push (rl_buf st) b in (st', RRep (rl_rc st) (rl_rv st) :: o)
  else rl_push (rl_buf st) b.

Definition rl_enc_close (st : rl_st) : list rl_rec :=
  (if 0 <? rl_rc st then [RRep (rl_rc st) (rl_rv st)] else []) ++ rl_flush_lit (rl_buf st).

Definition rl_enc_records (x : bytes) : list rl_rec :=
  let '(st, out) := run rl_enc_step rl_init x in out ++ rl_enc_close st.

Definition rl_enc (x : bytes) : bytes := flat_map rl_rec_enc (rl_enc_records x) ++ [128].

(* decoder *)
Inductive rl_dst := RL_Len | RL_Lit (n : N) | RL_Rep (n : N) | RL_Done.

Definition rl_dec_step (st : rl_dst) (c : byte) : rl_dst * list byte :=
  match st with
  | RL_Len =>
    if c =? 128 then (RL_Done, [])
    else if c <? 128 then (RL_Lit (c + 1), [])
    else (RL_Rep (257 - c), [])
  | RL_Lit n => (if n =? 1 then RL_Len else RL_Lit (n - 1), [c])
  | RL_Rep n => (RL_Len, repeat c (N.to_nat n))
  | RL_Done => (st, [])
  end.

(* End of input without EOD: the Go reader reports a clean end of data unless it
   is inside a literal block (there the verdict depends on how Read calls are cut:
   io.ReadFull gives EOF after 0 bytes and ErrUnexpectedEOF otherwise). *)
Definition rl_dec (e : bytes) : res bytes :=
  match run rl_dec_step RL_Len e with
  | (RL_Lit _, _) => Err EOF
  | (_, out) => Ok out
  end.
