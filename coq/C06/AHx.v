(* ASCIIHexDecode (ISO 32000-2, 7.4.2).  Encoder as in internal/filter/asciihex/write.go
   (lower-case digits, a line break after every 39 bytes, '>' as EOD); decoder from the
   specification: white space ignored, both digit cases, an odd final digit stands for
   a digit followed by 0, '>' ends the data, anything else is an error. *)
From Coq Require Import List NArith Bool.
From GoPdf.Base Require Import Bytes Res.
From GoPdf.C06 Require Import Machine.
Import ListNotations.
Open Scope N_scope.

Definition is_ws (c : byte) : bool :=
  (c =? 0) || (c =? 9) || (c =? 10) || (c =? 12) || (c =? 13) || (c =? 32).

Definition hexdig (n : N) : byte := if n <? 10 then 48 + n else 87 + n.

Definition hexval (c : byte) : option N :=
  if (48 <=? c) && (c <=? 57) then Some (c - 48)
  else if (65 <=? c) && (c <=? 70) then Some (c - 55)
  else if (97 <=? c) && (c <=? 102) then Some (c - 87)
  else None.

(* encoder: state = number of bytes already on the current output line *)
Definition ahx_line : N := 39.

Definition ahx_enc_step (col : N) (b : byte) : N * list byte :=
  if col =? ahx_line then (1, [10; hexdig (b / 16); hexdig (b mod 16)])
  else (col + 1, [hexdig (b / 16); hexdig (b mod 16)]).

Definition ahx_enc_close (col : N) : list byte := [62].

Definition ahx_enc (x : bytes) : bytes :=
  let '(col, out) := run ahx_enc_step 0 x in out ++ ahx_enc_close col.

(* decoder *)
Inductive ahx_st := AHx_Go (hi : option N) | AHx_Done | AHx_Fail.

Definition ahx_dec_step (st : ahx_st) (c : byte) : ahx_st * list byte :=
  match st with
  | AHx_Go hi =>
    match hexval c with
    | Some v =>
      match hi with
      | None => (AHx_Go (Some v), [])
      | Some h => (AHx_Go None, [h * 16 + v])
      end
    | None =>
      if is_ws c then (st, [])
      else if c =? 62 then (AHx_Done, match hi with Some h => [h * 16] | None => [] end)
      else (AHx_Fail, [])
    end
  | _ => (st, [])
  end.

Definition ahx_dec (e : bytes) : res bytes :=
  match run ahx_dec_step (AHx_Go None) e with
  | (AHx_Done, out) => Ok out
  | (AHx_Go _, _) => Err EOF          (* no EOD marker *)
  | (AHx_Fail, _) => Err Malformed
  end.
