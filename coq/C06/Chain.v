(* The /Filter and /DecodeParms entries of a stream dictionary: appendFilter (filter.go),
   the loop of Writer.OpenStream (writer.go) and GetFilters (container.go).
   A parameter dictionary is any type [D] with a size; null, a nil Dict and an empty Dict
   all have size 0 and are written [dnil] (GetFilters hands a nil Dict to MakeFilter for
   null or missing entries, and every parse function only looks keys up). *)
From Coq Require Import List Arith Bool.
From GoPdf.Base Require Import Bytes Res.
Import ListNotations.

Definition max_filter_chain : nat := 8.      (* maxFilterChainLength *)

Section Chain.
  Context {Nm D : Type}.
  Variable dsize : D -> nat.
  Variable dnil : D.

  Inductive fentry := FAbsent | FName (n : Nm) | FArr (l : list Nm).
  Inductive pentry := PAbsent | PDict (d : D) | PArr (l : list D).

  Record sdict := { s_filter : fentry; s_parms : pentry }.

  Definition sdict_empty : sdict := {| s_filter := FAbsent; s_parms := PAbsent |}.

  Definition nonempty (d : D) : bool := negb (Nat.eqb (dsize d) 0).

  Definition append_filter (s : sdict) (name : Nm) (parms : D) : sdict :=
    match s_filter s with
    | FName f0 =>
      let p0 := match s_parms s with PDict d => d | _ => dnil end in
      {| s_filter := FArr [f0; name];
         s_parms := if Nat.ltb 0 (dsize p0 + dsize parms) then PArr [p0; parms] else s_parms s |}
    | FArr fl =>
      let pp := match s_parms s with PArr l => l | _ => [] end in
      let needs := nonempty parms || existsb nonempty pp in
      {| s_filter := FArr (fl ++ [name]);
         s_parms := if needs
                    then PArr (firstn (length fl) (pp ++ repeat dnil (length fl - length pp)) ++ [parms])
                    else s_parms s |}
    | FAbsent =>
      {| s_filter := FName name;
         s_parms := if nonempty parms then PDict parms else s_parms s |}
    end.

  (* Writer.OpenStream: for each filter, in the order given, appendFilter(Info) *)
  Definition open_stream_dict (stages : list (Nm * D)) : sdict :=
    fold_left (fun s st => append_filter s (fst st) (snd st)) stages sdict_empty.

  (* GetFilters: the (name, parameter dictionary) pairs handed to MakeFilter *)
  Definition get_filters (s : sdict) : res (list (Nm * D)) :=
    match s_filter s with
    | FAbsent => Ok []
    | FName n =>
      match s_parms s with
      | PAbsent => Ok [(n, dnil)]
      | PDict d => Ok [(n, d)]
      | PArr _ => Err Other
      end
    | FArr fl =>
      if Nat.ltb max_filter_chain (length fl) then Err Malformed
      else match s_parms s with
           | PDict _ => Err Other
           | PAbsent => Ok (map (fun n => (n, dnil)) fl)
           | PArr pa => Ok (map (fun ni => (fst ni, nth (snd ni) pa dnil)) (combine fl (seq 0 (length fl))))
           end
    end.

  (* composed coding: the last filter given is applied to the data first when writing,
     the first filter given is undone first when reading *)
  Variable stage : Type.
  Variable enc : stage -> bytes -> bytes.
  Variable dec : stage -> bytes -> res bytes.

  Fixpoint enc_all (ss : list stage) (x : bytes) : bytes :=
    match ss with
    | [] => x
    | s :: r => enc s (enc_all r x)
    end.

  Fixpoint dec_all (ss : list stage) (e : bytes) : res bytes :=
    match ss with
    | [] => Ok e
    | s :: r => bind (dec s e) (dec_all r)
    end.
End Chain.
