(* CCITTFax two-dimensional coding: the run decoder of the horizontal mode (Reader.decodeFullRun)
   and its iteration bound, which is taken from the Go source (Gen_C06ccitt2d.decodeFullRun_bound). *)
From Coq Require Import List NArith ZArith Bool Lia ZifyN ZifyNat ZifyBool Arith.
From GoPdf.Base Require Import Bytes Res.
From GoPdf.Gen Require Import Gen_C06ccitt2d.
From GoPdf.C06 Require Import Machine CCITT CCITTTables CCITTProofs.
Import ListNotations.
Open Scope N_scope.

Definition is_makeup_word (white : bool) (c : cword) : Prop :=
  In c (codes_of white) /\ (fst (snd c) = st_makeupw \/ fst (snd c) = st_makeupb \/ fst (snd c) = st_makeup).

Fixpoint psum (cs : list cword) : N := match cs with [] => 0 | c :: r => snd (snd c) + psum r end.
Definition wbits (cs : list cword) : list bool := flat_map (fun c => fst c) cs.

(* make-up codes: the loop goes on *)
Lemma full_run_makeups white cols : forall cs iter total r rb rest,
  Forall (is_makeup_word white) cs -> good r rb -> real r rb = wbits cs ++ rest ->
  total + psum cs <= cols ->
  exists r' rb', good r' rb' /\ real r' rb' = wbits (skipn iter cs) ++ rest /\
    full_run iter cols white total r =
    full_run (iter - length cs) cols white (total + psum (firstn iter cs)) r'.
Proof.
  induction cs as [|c cs IH]; intros iter total r rb rest Hall G Hs Hsum.
  - exists r, rb. rewrite skipn_nil, firstn_nil. cbn [wbits flat_map psum length app] in *.
    rewrite Nat.sub_0_r, N.add_0_r. auto.
  - destruct iter as [|iter].
    + exists r, rb. cbn [skipn firstn psum Nat.sub]. rewrite N.add_0_r. auto.
    + pose proof (Forall_inv Hall) as [Hc Hst]. pose proof (Forall_inv_tail Hall) as Hall'.
      cbn [wbits flat_map psum] in Hs, Hsum. rewrite <- app_assoc in Hs. fold (wbits cs) in Hs.
      destruct (decode_run_code white c _ r rb Hc G Hs) as (r1 & rb1 & Hd & G1 & R1).
      destruct (IH iter (total + snd (snd c)) r1 rb1 rest Hall' G1 R1 ltac:(lia)) as (r2 & rb2 & G2 & R2 & E2).
      exists r2, rb2. split; [assumption|]. split; [exact R2|].
      cbn [full_run]. rewrite Hd. rewrite (proj1 G1).
      destruct st_values as (V1 & V2 & V3 & V4 & V5 & V6).
      replace ((fst (snd c) =? st_termw) || (fst (snd c) =? st_termb) || (fst (snd c) =? st_eol) || false) with false by lia.
      replace (cols <? total + snd (snd c)) with false by lia.
      rewrite E2. cbn [length Nat.sub firstn psum]. rewrite N.add_assoc. reflexivity.
Qed.

(* the words Writer.encode1DRun writes before the terminating code *)
Definition ext_word (i : N) : cword := (ext_bits i, (st_makeup, 1792 + 64 * i)).
Definition mk_word (white : bool) (i : N) : cword :=
  (makeup_bits white i, (if white then st_makeupw else st_makeupb, 64 * (i + 1))).

Definition run_makeups (white : bool) (n : N) : list cword :=
  let n1 := n mod 2560 in
  repeat (ext_word 12) (N.to_nat (n / 2560)) ++
  (if 1792 <=? n1 then [ext_word ((n1 - 1792) / 64)]
   else if 64 <=? n1 then [mk_word white (n1 / 64 - 1)] else []).

Lemma wbits_repeat c k : wbits (repeat c k) = rep_bits k (fst c).
Proof. induction k as [|k IH]; [reflexivity|]. cbn [repeat wbits flat_map rep_bits]. fold (wbits (repeat c k)). rewrite IH. reflexivity. Qed.

Lemma psum_repeat c k : psum (repeat c k) = N.of_nat k * snd (snd c).
Proof. induction k as [|k IH]; [reflexivity|]. cbn [repeat psum]. rewrite IH. lia. Qed.

Lemma psum_app a b : psum (a ++ b) = psum a + psum b.
Proof. induction a as [|c a IH]; [reflexivity|]. cbn [app psum]. rewrite IH. lia. Qed.

Lemma run_makeups_spec white n :
  run_bits white n = wbits (run_makeups white n) ++ term_bits white (n mod 64) /\
  Forall (is_makeup_word white) (run_makeups white n) /\
  psum (run_makeups white n) + n mod 64 = n /\
  length (run_makeups white n) = (run_codes n - 1)%nat.
Proof.
  unfold run_bits, run_makeups, run_codes.
  set (k := N.to_nat (n / 2560)). set (n1 := n mod 2560).
  assert (Hn : n = 2560 * N.of_nat k + n1) by (subst k n1; pose proof (N.div_mod n 2560); lia).
  assert (Hn1 : n1 < 2560) by (subst n1; apply N.mod_lt; discriminate).
  assert (Hm64 : n mod 64 = n1 mod 64).
  { rewrite Hn. replace (2560 * N.of_nat k + n1) with (n1 + (40 * N.of_nat k) * 64) by lia. apply N.mod_add. discriminate. }
  clearbody k n1. unfold wbits. rewrite flat_map_app. fold (wbits (repeat (ext_word 12) k)). rewrite wbits_repeat.
  assert (Hbig : is_makeup_word white (ext_word 12)) by (split; [apply (ext_in white 12); lia|right; right; reflexivity]).
  assert (Hrep : Forall (is_makeup_word white) (repeat (ext_word 12) k)) by (apply Forall_forall; intros x Hx; apply repeat_spec in Hx; subst; assumption).
  rewrite app_length, repeat_length, psum_app, psum_repeat. cbn [ext_word fst snd].
  pose proof (N.div_mod n1 64 ltac:(lia)) as Hd. pose proof (N.mod_lt n1 64 ltac:(lia)) as Hml.
  destruct (1792 <=? n1) eqn:E1.
  - set (i := (n1 - 1792) / 64).
    assert (Hi2 : 64 * i <= n1 - 1792 < 64 * i + 64) by (subst i; pose proof (N.div_mod (n1 - 1792) 64); pose proof (N.mod_lt (n1 - 1792) 64); lia).
    assert (Hi : i < 13) by lia. clearbody i.
    replace (64 <=? n1 - (i + 28) * 64) with false by lia.
    replace (64 <=? n1) with true by lia.
    assert (Hr : n1 mod 64 = n1 - (i + 28) * 64).
    { replace n1 with ((n1 - (i + 28) * 64) + (i + 28) * 64) at 1 by lia. rewrite N.mod_add by discriminate. apply N.mod_small. lia. }
    rewrite Hm64, Hr. cbn [flat_map app length psum fst snd ext_word]. rewrite app_nil_r. split; [rewrite <- !app_assoc; reflexivity|].
    split; [apply Forall_app; split; [assumption|constructor; [|constructor]]; split; [apply (ext_in white i Hi)|right; right; reflexivity]|].
    split; lia.
  - destruct (64 <=? n1) eqn:E2.
    + set (i := n1 / 64 - 1). assert (Hi : i < 27) by (subst i; assert (n1 / 64 < 28) by (apply N.div_lt_upper_bound; lia); lia).
      assert (Hi2 : 64 * (i + 1) = 64 * (n1 / 64)) by (subst i; lia). clearbody i.
      rewrite Hm64. cbn [flat_map app length psum fst snd mk_word]. rewrite app_nil_r. split; [rewrite <- !app_assoc; reflexivity|].
      split; [apply Forall_app; split; [assumption|constructor; [|constructor]]; split; [apply (makeup_in white i Hi)|cbn [fst snd]; destruct white; [left|right; left]; reflexivity]|].
      split; lia.
    + rewrite Hm64, (N.mod_small n1 64) by lia. cbn [flat_map app length psum]. rewrite !app_nil_r.
      split; [reflexivity|]. split; [assumption|]. split; lia.
Qed.

(* decoded completely iff the loop may run for as many code words as the run has *)
Theorem full_run_complete white cols n iter tail r rb :
  good r rb -> real r rb = run_bits white n ++ tail -> n <= cols -> (run_codes n <= iter)%nat ->
  exists r' rb', full_run iter cols white 0 r = (n, r') /\ good r' rb' /\ real r' rb' = tail.
Proof.
  intros G Hs Hn Hit. destruct (run_makeups_spec white n) as (Hb & Hall & Hsum & Hlen).
  assert (Hrc : (1 <= run_codes n)%nat) by (unfold run_codes; lia).
  rewrite Hb, <- app_assoc in Hs.
  destruct (full_run_makeups white cols _ iter 0 r rb _ Hall G Hs ltac:(lia)) as (r1 & rb1 & G1 & R1 & E1).
  rewrite skipn_all2 in R1 by lia. cbn [wbits flat_map app] in R1. rewrite firstn_all2 in E1 by lia.
  assert (Hm : n mod 64 < 64) by (apply N.mod_lt; discriminate).
  destruct (decode_run_code white _ tail r1 rb1 (term_in white (n mod 64) Hm) G1 R1) as (r2 & rb2 & Hd & G2 & R2).
  exists r2, rb2. split; [|split; assumption]. rewrite E1.
  destruct (iter - length (run_makeups white n))%nat as [|i] eqn:Ei; [lia|].
  cbn [full_run]. rewrite Hd. cbn [fst snd].
  replace ((((if white then st_termw else st_termb) =? st_termw) || ((if white then st_termw else st_termb) =? st_termb)
            || ((if white then st_termw else st_termb) =? st_eol)
            || match r_err r2 with None => false | Some _ => true end)) with true
    by (destruct white; destruct st_values as (V1 & V2 & V3 & _); rewrite ?V1, ?V2, ?V3; reflexivity).
  f_equal. lia.
Qed.

Theorem full_run_incomplete white cols n iter tail r rb :
  good r rb -> real r rb = run_bits white n ++ tail -> n <= cols -> (iter < run_codes n)%nat ->
  exists r' rb' left, snd (full_run iter cols white 0 r) = r' /\ good r' rb' /\
    real r' rb' = left ++ tail /\ left <> [].
Proof.
  intros G Hs Hn Hit. destruct (run_makeups_spec white n) as (Hb & Hall & Hsum & Hlen).
  assert (Hrc : (1 <= run_codes n)%nat) by (unfold run_codes; lia).
  rewrite Hb, <- app_assoc in Hs.
  destruct (full_run_makeups white cols _ iter 0 r rb _ Hall G Hs ltac:(lia)) as (r1 & rb1 & G1 & R1 & E1).
  exists r1, rb1, (wbits (skipn iter (run_makeups white n)) ++ term_bits white (n mod 64)).
  replace (iter - length (run_makeups white n))%nat with 0%nat in E1 by lia. cbn [full_run] in E1.
  rewrite E1. cbn [snd]. split; [reflexivity|]. split; [assumption|]. split; [rewrite R1, <- app_assoc; reflexivity|].
  assert (Hm : n mod 64 < 64) by (apply N.mod_lt; discriminate).
  pose proof (proj1 (code_len white _ (term_in white (n mod 64) Hm))) as L. cbn [fst] in L.
  intros Hc. apply (f_equal (@length bool)) in Hc. rewrite app_length in Hc. cbn [length] in Hc. lia.
Qed.

(* the bound of the Go source suffices for every run that fits into the line *)
Theorem full_run_bound_suffices cols n : n <= cols -> (run_codes n <= full_run_iter cols)%nat.
Proof.
  intros Hn. unfold run_codes, full_run_iter, decodeFullRun_bound.
  assert (H1 : n / 2560 <= cols / 64).
  { apply N.div_le_lower_bound; [discriminate|]. pose proof (N.div_mod n 2560 ltac:(lia)). pose proof (N.mod_lt n 2560 ltac:(lia)). lia. }
  rewrite Z.quot_div_nonneg by lia.
  destruct (64 <=? n mod 2560); lia.
Qed.

Theorem decode_full_run_rt white cols n tail r rb :
  good r rb -> real r rb = run_bits white n ++ tail -> n <= cols ->
  exists r' rb', decode_full_run cols white r = (n, r') /\ good r' rb' /\ real r' rb' = tail.
Proof.
  intros G Hs Hn. unfold decode_full_run.
  apply (full_run_complete white cols n _ tail r rb G Hs Hn (full_run_bound_suffices cols n Hn)).
Qed.

(* ---- the mode codes of two-dimensional coding (T.6 table 1) ---- *)

From GoPdf.C06 Require Import CCITT2D.
Open Scope N_scope.

(* mode code, (state, Param as the Go table stores it: the vertical offset as an unsigned 16-bit number) *)
Definition mode_codes : list cword :=
  [ ([false; false; false; true], (st_pass, 0));
    ([false; false; true], (st_horiz, 0));
    ([true], (st_vert, 0));
    ([false; true; true], (st_vert, 1));
    ([false; false; false; false; true; true], (st_vert, 2));
    ([false; false; false; false; false; true; true], (st_vert, 3));
    ([false; true; false], (st_vert, 65535));
    ([false; false; false; false; true; false], (st_vert, 65534));
    ([false; false; false; false; false; true; false], (st_vert, 65533));
    ([false; false; false; false; false; false; true], (st_ext, 0));
    ([false; false; false; false; false; false; false], (st_eol, 0)) ].

Definition main_entry (l : list bool) : N * N * N :=
  let v := num_of l 0 in (tget mainW v, tget mainS v, tget mainP v).

Definition mode_table_ok : bool :=
  forallb (fun l =>
    forallb (fun c => negb (is_prefix (fst c) l) || entry_is (main_entry l) c) mode_codes
    && existsb (fun c => is_prefix (fst c) l) mode_codes) (all_bits 7)
  && prefix_free mode_codes.

Local Transparent prefix_free.
Lemma mode_table_check : mode_table_ok = true.
Proof. vm_compute. reflexivity. Qed.
Global Opaque prefix_free mainW mainS mainP.

Lemma mode_code c l : In c mode_codes -> length l = 7%nat -> is_prefix (fst c) l = true ->
  main_entry l = (N.of_nat (length (fst c)), fst (snd c), snd (snd c)).
Proof.
  intros Hc Hl Hp. pose proof mode_table_check as Ht. unfold mode_table_ok in Ht.
  apply andb_true_iff in Ht as [Ht _]. rewrite forallb_forall in Ht.
  specialize (Ht l (all_bits_in _ l Hl)). apply andb_true_iff in Ht as [Ht _]. rewrite forallb_forall in Ht.
  specialize (Ht c Hc). rewrite Hp in Ht. cbn [negb orb] in Ht. unfold entry_is in Ht.
  destruct (main_entry l) as [[w s] p]. apply andb_true_iff in Ht as [Ht Hpp]. apply andb_true_iff in Ht as [Hw Hs].
  apply N.eqb_eq in Hw, Hs, Hpp. subst. reflexivity.
Qed.

(* reading a mode code: the 7-bit window is looked up and the code's bits are consumed *)
Lemma mode_read c tail r rb :
  In c mode_codes -> good r rb -> real r rb = fst c ++ tail ->
  exists rb1, let '(v, r1) := peek 7 r in
    tget mainS v = fst (snd c) /\ tget mainP v = snd (snd c) /\
    good (consume (N.to_nat (tget mainW v)) r1) rb1 /\ real (consume (N.to_nat (tget mainW v)) r1) rb1 = tail.
Proof.
  intros Hc G Hs.
  assert (Hlen : (1 <= length (fst c) <= 7)%nat).
  { unfold mode_codes in Hc. cbn [In] in Hc. repeat (destruct Hc as [<-|Hc]; [cbn; lia|]). contradiction. }
  destruct (peek_good 7 r rb G ltac:(lia)) as (rb1 & Pv & G1 & R1).
  destruct (peek 7 r) as [v r1]. cbn [fst snd] in *.
  pose proof (mode_code c (firstn 7 (real r rb ++ repeat false 7)) Hc) as Ht.
  rewrite firstn_length_le in Ht by (rewrite app_length, repeat_length; lia). specialize (Ht eq_refl).
  rewrite Hs, <- app_assoc in Ht. specialize (Ht (is_prefix_app (fst c) (tail ++ repeat false 7) 7 ltac:(lia))).
  unfold main_entry in Ht. rewrite Hs, <- app_assoc in Pv. rewrite <- Pv in Ht.
  apply pair_equal_spec in Ht as [Ht1 Ht3]. apply pair_equal_spec in Ht1 as [Ht1 Ht2].
  rewrite Ht1, Nat2N.id.
  destruct (consume_good (length (fst c)) r1 rb1 G1 ltac:(lia)) as (rb2 & G2 & R2).
  { rewrite R1, Hs, app_length. lia. }
  exists rb2. split; [assumption|]. split; [assumption|]. split; [assumption|].
  rewrite R2, R1, Hs, skipn_app, skipn_all, Nat.sub_diag. reflexivity.
Qed.

(* ---- one mode code in the decoder ---- *)

Open Scope Z_scope.

Lemma st2_values : st_pass = 1%N /\ st_horiz = 2%N /\ st_vert = 3%N /\ st_ext = 4%N /\ st_eol = 10%N.
Proof. repeat split; reflexivity. Qed.

Lemma dec2d_mode p refc cols a0 cur pa pc line r rb c tail :
  In c mode_codes -> fst (snd c) <> st_eol -> a0 < cols -> (a0 <> pa \/ cur <> pc) ->
  good r rb -> real r rb = fst c ++ tail ->
  exists r2 rb2, good r2 rb2 /\ real r2 rb2 = tail /\
    forall f, dec2d (S f) p refc cols a0 cur pa pc line r =
      let st := fst (snd c) in
      let '(b1, b2) := find_b1b2 p refc cols a0 cur in
      if (st =? st_pass)%N then dec2d f p refc cols b2 cur a0 cur (fill_row line a0 b2 cur) r2
      else if (st =? st_horiz)%N then
        let '(n1, r3) := decode_full_run (g_cols p) (Bool.eqb cur (white_bit p)) r2 in
        let a0' := Z.max a0 0 in
        let k1 := Z.min (Z.of_N n1) (cols - a0') in
        let line1 := fill_row line a0' (a0' + k1) cur in
        let a1 := a0' + k1 in
        let '(n2, r4) := decode_full_run (g_cols p) (negb (Bool.eqb cur (white_bit p))) r3 in
        let k2 := Z.min (Z.of_N n2) (cols - a1) in
        let line2 := fill_row line1 a1 (a1 + k2) (negb cur) in
        dec2d f p refc cols (a1 + k2) cur a0 cur line2 r4
      else if (st =? st_vert)%N then
        let a1 := Z.min (b1 + int16 (snd (snd c))) cols in
        dec2d f p refc cols a1 (negb cur) a0 cur (fill_row line a0 a1 cur) r2
      else if (st =? st_ext)%N then (line, set_err r2 Malformed)
      else dec2d f p refc cols a0 cur a0 cur line r2.
Proof.
  intros Hc Hne Ha Hg G Hs.
  pose proof (mode_read c tail r rb Hc G Hs) as (rb2 & Hm).
  destruct (peek 7 r) as [v r1] eqn:Ep. destruct Hm as (Hst & Hpa & G2 & R2).
  exists (consume (N.to_nat (tget mainW v)) r1), rb2. split; [assumption|]. split; [assumption|]. intros f.
  cbn [dec2d]. unfold no_err. rewrite (proj1 G). replace (a0 <? cols) with true by lia. cbn [andb].
  replace ((a0 =? pa) && Bool.eqb cur pc) with false.
  2:{ symmetry. apply andb_false_iff. destruct Hg as [H|H]; [left; lia|right; destruct cur, pc; try reflexivity; congruence]. }
  rewrite Ep, Hst, Hpa. replace (fst (snd c) =? st_eol)%N with false by lia. reflexivity.
Qed.

(* ---- changing elements ---- *)

Fixpoint incr (lo : Z) (l : list Z) : Prop :=
  match l with [] => True | x :: r => lo < x /\ incr x r end.

Lemma incr_weaken lo lo' l : lo' <= lo -> incr lo l -> incr lo' l.
Proof. destruct l; cbn; [auto|]. intros H [H1 H2]. split; [lia|assumption]. Qed.

Lemma drop_le_incr a0 cols : forall l lo, incr lo l -> Forall (fun x => x < cols) l ->
  incr a0 (drop_le a0 l) /\ Forall (fun x => x < cols) (drop_le a0 l).
Proof.
  induction l as [|x l IH]; intros lo Hi Hf; cbn [drop_le]; [split; [exact I|constructor]|].
  destruct Hi as [H1 H2]. destruct (x <=? a0) eqn:E.
  - apply (IH x H2). exact (Forall_inv_tail Hf).
  - split; [|assumption]. cbn [incr]. split; [lia|assumption].
Qed.

Lemma drop_le_idx_snd a0 : forall l i, snd (drop_le_idx a0 i l) = drop_le a0 l.
Proof. induction l as [|x l IH]; intros i; cbn [drop_le_idx drop_le]; [reflexivity|]. destruct (x <=? a0); [apply IH|reflexivity]. Qed.

Lemma next_two_spec linec cols a0 lo : incr lo linec -> Forall (fun x => x < cols) linec -> a0 < cols ->
  let '(a1, a2) := next_two linec cols a0 in a0 < a1 /\ a1 <= a2 /\ a2 <= cols.
Proof.
  intros Hi Hf Ha. unfold next_two. destruct (drop_le_incr a0 cols linec lo Hi Hf) as [H1 H2].
  destruct (drop_le a0 linec) as [|a1 [|a2 l]]; cbn [incr] in H1.
  - lia.
  - pose proof (Forall_inv H2). cbn beta in *. lia.
  - pose proof (Forall_inv H2). pose proof (Forall_inv (Forall_inv_tail H2)). cbn beta in *. lia.
Qed.

Lemma find_b1b2_spec p refc cols a0 cur lo : incr lo refc -> Forall (fun x => x < cols) refc -> a0 < cols ->
  let '(b1, b2) := find_b1b2 p refc cols a0 cur in a0 < b1 /\ b1 <= b2 /\ b2 <= cols.
Proof.
  intros Hi Hf Ha. unfold find_b1b2. pose proof (drop_le_idx_snd a0 refc 0) as Hs.
  destruct (drop_le_idx a0 0 refc) as [idx l]. cbn [snd] in Hs. subst l.
  destruct (drop_le_incr a0 cols refc lo Hi Hf) as [H1 H2].
  set (l := drop_le a0 refc) in *.
  assert (Hl' : forall l', (l' = l \/ l' = tl l) -> incr a0 l' /\ Forall (fun x => x < cols) l').
  { intros l' [->| ->]; [split; assumption|]. destruct l as [|x l0]; [split; [exact I|constructor]|]. cbn [tl].
    cbn [incr] in H1. split; [apply (incr_weaken x); [lia|tauto]|exact (Forall_inv_tail H2)]. }
  assert (Hsel : exists l', (l' = l \/ l' = tl l) /\
     match l with _ :: r => if negb (Bool.eqb (Nat.even idx) (Bool.eqb cur (white_bit p))) then r else l | [] => l end = l').
  { destruct l as [|x r]; [exists []; auto|]. destruct (negb (Bool.eqb (Nat.even idx) (Bool.eqb cur (white_bit p)))); eexists; eauto. }
  destruct Hsel as (l' & Hor & ->). destruct (Hl' l' Hor) as [I1 I2].
  destruct l' as [|b1 [|b2 l0]]; cbn [incr] in I1.
  - lia.
  - pose proof (Forall_inv I2). cbn beta in *. lia.
  - pose proof (Forall_inv I2). pose proof (Forall_inv (Forall_inv_tail I2)). cbn beta in *. lia.
Qed.

(* ---- the decoder follows the encoder through a row ---- *)

Fixpoint enc2d_end (fuel : nat) (p : g3p) (refc linec : list Z) (cols a0 : Z) (cur : bool) : Z * bool :=
  match fuel with
  | O => (a0, cur)
  | S fuel' =>
    if a0 <? cols then
      let '(a1, a2) := next_two linec cols a0 in
      let '(b1, b2) := find_b1b2 p refc cols a0 cur in
      let delta := a1 - b1 in
      if b2 <? a1 then enc2d_end fuel' p refc linec cols b2 cur
      else if (-3 <=? delta) && (delta <=? 3) then enc2d_end fuel' p refc linec cols a1 (negb cur)
      else enc2d_end fuel' p refc linec cols a2 cur
    else (a0, cur)
  end.

Lemma vert_word delta : -3 <= delta <= 3 ->
  exists c, In c mode_codes /\ fst c = vert_bits delta /\ fst (snd c) = st_vert /\ int16 (snd (snd c)) = delta.
Proof.
  intros H. assert (delta = -3 \/ delta = -2 \/ delta = -1 \/ delta = 0 \/ delta = 1 \/ delta = 2 \/ delta = 3) as Hd by lia.
  unfold mode_codes.
  destruct Hd as [->|[->|[->|[->|[->|[->| ->]]]]]].
  - exists (vert_bits (-3), (st_vert, 65533%N)). split; [cbn [In vert_bits]; tauto|repeat split; reflexivity].
  - exists (vert_bits (-2), (st_vert, 65534%N)). split; [cbn [In vert_bits]; tauto|repeat split; reflexivity].
  - exists (vert_bits (-1), (st_vert, 65535%N)). split; [cbn [In vert_bits]; tauto|repeat split; reflexivity].
  - exists (vert_bits 0, (st_vert, 0%N)). split; [cbn [In vert_bits]; tauto|repeat split; reflexivity].
  - exists (vert_bits 1, (st_vert, 1%N)). split; [cbn [In vert_bits]; tauto|repeat split; reflexivity].
  - exists (vert_bits 2, (st_vert, 2%N)). split; [cbn [In vert_bits]; tauto|repeat split; reflexivity].
  - exists (vert_bits 3, (st_vert, 3%N)). split; [cbn [In vert_bits]; tauto|repeat split; reflexivity].
Qed.

Theorem g4_row_sync p refc linec lo lo' (cols := Z.of_N (g_cols p)) :
  incr lo refc -> Forall (fun x => x < cols) refc -> incr lo' linec -> Forall (fun x => x < cols) linec ->
  forall fuelE a0 cur pa pc line r rb tail,
  -1 <= a0 -> (a0 <> pa \/ cur <> pc) -> good r rb ->
  real r rb = enc2d fuelE p refc linec cols a0 cur ++ tail ->
  exists r' rb' line' pa' pc', good r' rb' /\ real r' rb' = tail /\
    (fst (enc2d_end fuelE p refc linec cols a0 cur) <> pa' \/ snd (enc2d_end fuelE p refc linec cols a0 cur) <> pc') /\
    forall f, dec2d (fuelE + f) p refc cols a0 cur pa pc line r =
      dec2d f p refc cols (fst (enc2d_end fuelE p refc linec cols a0 cur)) (snd (enc2d_end fuelE p refc linec cols a0 cur))
            pa' pc' line' r'.
Proof.
  intros Hri Hrf Hli Hlf. induction fuelE as [|fuelE IH]; intros a0 cur pa pc line r rb tail Ha Hg G Hs.
  - cbn [enc2d enc2d_end app fst snd] in *. exists r, rb, line, pa, pc.
    split; [assumption|]. split; [assumption|]. split; [assumption|]. intros f. reflexivity.
  - cbn [enc2d enc2d_end] in *. destruct (a0 <? cols) eqn:Ea.
    2:{ cbn [app fst snd] in *. exists r, rb, line, pa, pc. split; [assumption|]. split; [assumption|]. split; [assumption|].
        intros f. assert (Hd : forall k, dec2d k p refc cols a0 cur pa pc line r = (line, r)).
        { intros [|k]; cbn [dec2d]; [reflexivity|]. fold cols. rewrite Ea. reflexivity. }
        rewrite !Hd. reflexivity. }
    apply Z.ltb_lt in Ea.
    pose proof (next_two_spec linec cols a0 lo' Hli Hlf Ea) as Hn.
    pose proof (find_b1b2_spec p refc cols a0 cur lo Hri Hrf Ea) as Hb.
    destruct (next_two linec cols a0) as [a1 a2]. destruct (find_b1b2 p refc cols a0 cur) as [b1 b2] eqn:Eb.
    destruct Hn as (N1 & N2 & N3). destruct Hb as (B1 & B2 & B3).
    destruct st2_values as (V1 & V2 & V3 & V4 & V5).
    destruct (b2 <? a1) eqn:Ep.
    + (* pass mode *)
      rewrite <- app_assoc in Hs.
      destruct (dec2d_mode p refc cols a0 cur pa pc line r rb ([false; false; false; true], (st_pass, 0%N)) _
                  ltac:(cbn; auto) ltac:(cbn [fst snd]; lia) Ea Hg G Hs) as (r2 & rb2 & G2 & R2 & F2).
      destruct (IH b2 cur a0 cur (fill_row line a0 b2 cur) r2 rb2 tail ltac:(lia) ltac:(left; lia) G2 R2)
        as (r' & rb' & line' & pa' & pc' & G' & R' & Hg' & F').
      exists r', rb', line', pa', pc'. split; [assumption|]. split; [assumption|]. split; [assumption|].
      intros f. cbn [Nat.add]. rewrite F2. cbn [fst snd]. rewrite Eb. replace (st_pass =? st_pass)%N with true by lia. apply F'.
    + destruct ((-3 <=? a1 - b1) && (a1 - b1 <=? 3)) eqn:Ev.
      * (* vertical mode *)
        destruct (vert_word (a1 - b1) ltac:(lia)) as (c & Hc & Hbits & Hst & Hd).
        rewrite <- Hbits in Hs. rewrite <- app_assoc in Hs.
        destruct (dec2d_mode p refc cols a0 cur pa pc line r rb c _ Hc ltac:(rewrite Hst; lia) Ea Hg G Hs) as (r2 & rb2 & G2 & R2 & F2).
        destruct (IH a1 (negb cur) a0 cur (fill_row line a0 a1 cur) r2 rb2 tail ltac:(lia)
                    ltac:(right; destruct cur; discriminate) G2 R2) as (r' & rb' & line' & pa' & pc' & G' & R' & Hg' & F').
        exists r', rb', line', pa', pc'. split; [assumption|]. split; [assumption|]. split; [assumption|].
        intros f. cbn [Nat.add]. rewrite F2. cbv zeta. rewrite Eb, Hst, Hd.
        replace (st_vert =? st_pass)%N with false by lia. replace (st_vert =? st_horiz)%N with false by lia.
        replace (st_vert =? st_vert)%N with true by lia.
        replace (Z.min (b1 + (a1 - b1)) cols) with a1 by lia. apply F'.
      * (* horizontal mode *)
        change ([false; false; true] ++ ?x) with ([false; false; true] ++ x) in Hs.
        rewrite <- !app_assoc in Hs.
        destruct (dec2d_mode p refc cols a0 cur pa pc line r rb ([false; false; true], (st_horiz, 0%N)) _
                    ltac:(cbn; auto) ltac:(cbn [fst snd]; lia) Ea Hg G Hs) as (r2 & rb2 & G2 & R2 & F2).
        destruct (decode_full_run_rt (Bool.eqb cur (white_bit p)) (g_cols p) (Z.to_N (a1 - Z.max a0 0)) _ r2 rb2 G2 R2
                    ltac:(unfold cols in *; lia)) as (r3 & rb3 & D3 & G3 & R3).
        destruct (decode_full_run_rt (negb (Bool.eqb cur (white_bit p))) (g_cols p) (Z.to_N (a2 - a1)) _ r3 rb3 G3 R3
                    ltac:(unfold cols in *; lia)) as (r4 & rb4 & D4 & G4 & R4).
        destruct (IH a2 cur a0 cur
                    (fill_row (fill_row line (Z.max a0 0) a1 cur) a1 a2 (negb cur)) r4 rb4 tail ltac:(lia) ltac:(left; lia) G4 R4)
          as (r' & rb' & line' & pa' & pc' & G' & R' & Hg' & F').
        exists r', rb', line', pa', pc'. split; [assumption|]. split; [assumption|]. split; [assumption|].
        intros f. cbn [Nat.add]. rewrite F2. cbv zeta. cbn [fst snd]. rewrite Eb.
        replace (st_horiz =? st_pass)%N with false by lia. replace (st_horiz =? st_horiz)%N with true by lia.
        rewrite D3, D4.
        replace (Z.min (Z.of_N (Z.to_N (a1 - Z.max a0 0))) (cols - Z.max a0 0)) with (a1 - Z.max a0 0) by lia.
        replace (Z.max a0 0 + (a1 - Z.max a0 0)) with a1 by lia.
        replace (Z.min (Z.of_N (Z.to_N (a2 - a1))) (cols - a1)) with (a2 - a1) by lia.
        replace (a1 + (a2 - a1)) with a2 by lia. apply F'.
Qed.

Lemma changes_from_incr : forall px x prev,
  incr (x - 1) (changes_from x prev px) /\ Forall (fun y => y < x + Z.of_nat (length px)) (changes_from x prev px).
Proof.
  induction px as [|c px IH]; intros x prev; cbn [changes_from length]; [split; [exact I|constructor]|].
  destruct (Bool.eqb c prev).
  - destruct (IH (x + 1) prev) as [I1 I2]. split.
    + apply (incr_weaken (x + 1 - 1)); [lia|assumption].
    + eapply Forall_impl; [|exact I2]. cbn beta. intros y Hy. lia.
  - destruct (IH (x + 1) c) as [I1 I2]. split.
    + cbn [incr]. split; [lia|]. replace (x + 1 - 1) with x in I1 by lia. exact I1.
    + constructor; [lia|]. eapply Forall_impl; [|exact I2]. cbn beta. intros y Hy. lia.
Qed.

Lemma changing_ok p row : incr (-1) (changing p (row_px p row)) /\
  Forall (fun y => y < Z.of_N (g_cols p)) (changing p (row_px p row)).
Proof.
  unfold changing. destruct (changes_from_incr (row_px p row) 0 (white_bit p)) as [I1 I2]. split; [exact I1|].
  eapply Forall_impl; [|exact I2]. cbn beta. intros y Hy.
  assert (length (row_px p row) <= N.to_nat (g_cols p))%nat by (unfold row_px; apply firstn_le_length). lia.
Qed.

(* ---- the row limit of FilterCCITTFax.toParams ---- *)

From GoPdf.C06 Require Import FilterParams CCITTParams.
Open Scope Z_scope.

Lemma ccitt_max_rows_pos columns rows : 1 <= ccitt_max_rows columns rows.
Proof.
  unfold ccitt_max_rows, ccitt_geo_max_rows.
  set (g := Z.max 1 _). assert (1 <= g) by (subst g; lia).
  destruct ((0 <? rows) && (rows <? g)) eqn:E; lia.
Qed.

(* what the encoder accepts is decoded exactly: "rows <= MaxRows" is discharged by the encoder's answer *)
Theorem g3_encode_rt p rows e :
  (0 < g_cols p)%N -> Forall (row_ok p) rows -> g3_encode p rows = Ok e -> g3_dec p e = Ok (concat rows).
Proof.
  intros Hc Hok. unfold g3_encode, rows_accepted.
  destruct (Nat.eqb (g_maxrows p) 0 || Nat.leb (length rows) (g_maxrows p)) eqn:E; [|discriminate].
  intros H. inversion H; subst. apply g3_1d_rt_proof; try assumption.
  apply orb_true_iff in E as [E|E]; [left; apply Nat.eqb_eq, E|right; apply Nat.leb_le, E].
Qed.

Theorem ccitt_filter_rt c rows e :
  validate_ccitt c = true -> 0 <= c_columns c -> Forall (row_ok (g3p_of c)) rows ->
  g3_encode (g3p_of c) rows = Ok e ->
  g3_dec (g3p_of c) e = Ok (concat rows) /\ (length rows <= Z.to_nat (ccitt_max_rows (c_columns c) (c_rows c)))%nat.
Proof.
  intros Hv Hcols Hok He. split.
  - apply (g3_encode_rt (g3p_of c) rows e); try assumption. unfold g3p_of; cbn [g_cols].
    destruct (c_columns c =? 0) eqn:E; lia.
  - unfold g3_encode, rows_accepted in He. cbn [g3p_of g_maxrows] in He.
    pose proof (ccitt_max_rows_pos (c_columns c) (c_rows c)).
    destruct (Nat.eqb (Z.to_nat (ccitt_max_rows (c_columns c) (c_rows c))) 0) eqn:E0; [apply Nat.eqb_eq in E0; lia|].
    cbn [orb] in He. destruct (Nat.leb (length rows) (Z.to_nat (ccitt_max_rows (c_columns c) (c_rows c)))) eqn:E1; [|discriminate].
    apply Nat.leb_le, E1.
Qed.
