(* LZWDecode (ISO 32000-2, 7.4.4.2/7.4.4.3): variable-width codes 9..12 bits, most
   significant bit first; 256 = clear table, 257 = EOD, 258.. = table entries.  With
   EarlyChange = 1 (the PDF default) the code width grows one code early.  The encoder
   starts with a clear-table code and emits another when the table is full
   (internal/filter/lzw/writer.go); the decoder keeps a full table until told to clear
   (reader.go).  Three machines: bytes -> (width, code) pairs, pairs -> packed bytes,
   packed bytes -> bytes. *)
From Coq Require Import List NArith ZArith Bool FMapPositive.
From GoPdf.Base Require Import Bytes Res.
From GoPdf.Gen Require Import Gen_C06.
From GoPdf.C06 Require Import Machine.
Import ListNotations.
Open Scope N_scope.

Module PM := PositiveMap.

Definition lzw_clear_code : N := Z.to_N lzw_clear.       (* 256 *)
Definition lzw_eod_code : N := Z.to_N lzw_eof.           (* 257 *)
Definition lzw_max_code : N := Z.to_N lzw_maxCode.       (* 4095 *)
Definition lzw_min_width : N := Z.to_N lzw_litWidth + 1. (* 9 *)
Definition lzw_max_width : N := Z.to_N lzw_maxWidth.     (* 12 *)

Definition ec_of (early : bool) : N := if early then 1 else 0.

(* ---- encoder, code level ---- *)

Definition lzw_key (code x : N) : positive := N.succ_pos (code * 256 + x).

Record lzw_est := { le_tbl : PM.t N; le_hi : N; le_width : N; le_saved : option N }.

Definition lzw_einit : lzw_est :=
  {| le_tbl := PM.empty N; le_hi := lzw_eod_code; le_width := lzw_min_width; le_saved := None |}.

(* after a code has been emitted: the next table index is used up (Writer.incHi) *)
Definition lzw_inc_hi (ec : N) (st : lzw_est) (newkey : option positive) (saved : option N)
  : lzw_est * list (N * N) :=
  let hi' := le_hi st + 1 in
  let w' := if hi' + ec =? 2 ^ le_width st then le_width st + 1 else le_width st in
  if hi' + ec =? lzw_max_code then
    ({| le_tbl := PM.empty N; le_hi := lzw_eod_code; le_width := lzw_min_width; le_saved := saved |},
     [(w', lzw_clear_code)])
  else
    ({| le_tbl := match newkey with Some k => PM.add k hi' (le_tbl st) | None => le_tbl st end;
        le_hi := hi'; le_width := w'; le_saved := saved |}, []).

Definition lzw_enc_step (ec : N) (st : lzw_est) (x : byte) : lzw_est * list (N * N) :=
  match le_saved st with
  | None =>
    ({| le_tbl := le_tbl st; le_hi := le_hi st; le_width := le_width st; le_saved := Some x |}, [])
  | Some code =>
    match PM.find (lzw_key code x) (le_tbl st) with
    | Some c =>
      ({| le_tbl := le_tbl st; le_hi := le_hi st; le_width := le_width st; le_saved := Some c |}, [])
    | None =>
      let '(st', o) := lzw_inc_hi ec st (Some (lzw_key code x)) (Some x) in
      (st', (le_width st, code) :: o)
    end
  end.

Definition lzw_enc_close (ec : N) (st : lzw_est) : list (N * N) :=
  match le_saved st with
  | None => [(le_width st, lzw_eod_code)]
  | Some code =>
    let '(st', o) := lzw_inc_hi ec st None None in
    (le_width st, code) :: o ++ [(le_width st', lzw_eod_code)]
  end.

Definition lzw_enc_codes (ec : N) (x : bytes) : list (N * N) :=
  let '(st, out) := run (lzw_enc_step ec) lzw_einit x in
  (lzw_min_width, lzw_clear_code) :: out ++ lzw_enc_close ec st.

(* ---- bit packing, most significant bit first ---- *)

Record bit_st := { b_acc : N; b_n : N }.      (* b_acc < 2^b_n, b_n < 8 between steps *)

Fixpoint bits_flush (fuel : nat) (acc n : N) : list byte * bit_st :=
  match fuel with
  | O => ([], {| b_acc := acc; b_n := n |})
  | S fuel' =>
    if 8 <=? n then
      let '(bs, st) := bits_flush fuel' (acc mod 2 ^ (n - 8)) (n - 8) in
      (acc / 2 ^ (n - 8) :: bs, st)
    else ([], {| b_acc := acc; b_n := n |})
  end.

Definition pack_step (st : bit_st) (wc : N * N) : bit_st * list byte :=
  let '(w, c) := wc in
  let '(bs, st') := bits_flush 3 (b_acc st * 2 ^ w + c) (b_n st + w) in (st', bs).

Definition pack_close (st : bit_st) : list byte :=
  if 0 <? b_n st then [b_acc st * 2 ^ (8 - b_n st)] else [].

Definition lzw_pack (codes : list (N * N)) : bytes :=
  let '(st, out) := run pack_step {| b_acc := 0; b_n := 0 |} codes in out ++ pack_close st.

Definition lzw_enc (early : bool) (x : bytes) : bytes := lzw_pack (lzw_enc_codes (ec_of early) x).

(* ---- decoder ---- *)

Inductive lzw_status := LZ_Run | LZ_Done | LZ_Fail.

Record lzw_dst := {
  ld_acc : N; ld_n : N; ld_width : N; ld_hi : N; ld_last : option N;
  ld_tbl : PM.t (list byte); ld_status : lzw_status }.

Definition lzw_dinit : lzw_dst :=
  {| ld_acc := 0; ld_n := 0; ld_width := lzw_min_width; ld_hi := lzw_eod_code; ld_last := None;
     ld_tbl := PM.empty (list byte); ld_status := LZ_Run |}.

Definition lzw_str (tbl : PM.t (list byte)) (c : N) : option (list byte) :=
  if c <? 256 then Some [c] else PM.find (N.succ_pos c) tbl.

(* the bookkeeping after a data code: last := code, hi++, width / table-full handling *)
Definition lzw_bump (ec : N) (st : lzw_dst) (code : N) (tbl : PM.t (list byte)) : lzw_dst :=
  let hi' := ld_hi st + 1 in
  if 2 ^ ld_width st <=? hi' + ec then
    if lzw_max_width <=? ld_width st then
      {| ld_acc := ld_acc st; ld_n := ld_n st; ld_width := ld_width st; ld_hi := ld_hi st; ld_last := None;
         ld_tbl := tbl; ld_status := LZ_Run |}
    else
      {| ld_acc := ld_acc st; ld_n := ld_n st; ld_width := ld_width st + 1; ld_hi := hi'; ld_last := Some code;
         ld_tbl := tbl; ld_status := LZ_Run |}
  else
    {| ld_acc := ld_acc st; ld_n := ld_n st; ld_width := ld_width st; ld_hi := hi'; ld_last := Some code;
       ld_tbl := tbl; ld_status := LZ_Run |}.

Definition lzw_set_status (st : lzw_dst) (s : lzw_status) : lzw_dst :=
  {| ld_acc := ld_acc st; ld_n := ld_n st; ld_width := ld_width st; ld_hi := ld_hi st; ld_last := ld_last st;
     ld_tbl := ld_tbl st; ld_status := s |}.

Definition lzw_dec_code (ec : N) (st : lzw_dst) (code : N) : lzw_dst * list byte :=
  if code =? lzw_clear_code then
    ({| ld_acc := ld_acc st; ld_n := ld_n st; ld_width := lzw_min_width; ld_hi := lzw_eod_code;
        ld_last := None; ld_tbl := PM.empty (list byte); ld_status := LZ_Run |}, [])
  else if code =? lzw_eod_code then (lzw_set_status st LZ_Done, [])
  else if code <=? ld_hi st then
    let prev := match ld_last st with Some l => lzw_str (ld_tbl st) l | None => None end in
    let s := match prev with
             | Some sl => if code =? ld_hi st then Some (sl ++ [hd 0 sl]) else lzw_str (ld_tbl st) code
             | None => lzw_str (ld_tbl st) code
             end in
    match s with
    | Some s =>
      let tbl' := match prev with
                  | Some sl => PM.add (N.succ_pos (ld_hi st)) (sl ++ [hd 0 s]) (ld_tbl st)
                  | None => ld_tbl st
                  end in
      (lzw_bump ec st code tbl', s)
    | None => (lzw_set_status st LZ_Fail, [])
    end
  else (lzw_set_status st LZ_Fail, []).

Definition lzw_dec_step (ec : N) (st : lzw_dst) (b : byte) : lzw_dst * list byte :=
  match ld_status st with
  | LZ_Run =>
    let acc := ld_acc st * 256 + b in
    let n := ld_n st + 8 in
    if ld_width st <=? n then
      let k := n - ld_width st in
      let st1 := {| ld_acc := acc mod 2 ^ k; ld_n := k; ld_width := ld_width st; ld_hi := ld_hi st;
                    ld_last := ld_last st; ld_tbl := ld_tbl st; ld_status := LZ_Run |} in
      lzw_dec_code ec st1 (acc / 2 ^ k)
    else
      ({| ld_acc := acc; ld_n := n; ld_width := ld_width st; ld_hi := ld_hi st;
          ld_last := ld_last st; ld_tbl := ld_tbl st; ld_status := LZ_Run |}, [])
  | _ => (st, [])
  end.

Definition lzw_dec (early : bool) (e : bytes) : res bytes :=
  match run (lzw_dec_step (ec_of early)) lzw_dinit e with
  | ({| ld_status := LZ_Done |}, out) => Ok out
  | ({| ld_status := LZ_Fail |}, _) => Err Malformed
  | (_, _) => Err EOF
  end.
