(* C19 - proofs about the reader-program language of ErrFlow.v. *)
From Coq Require Import List NArith ZArith Bool Lia.
From GoPdf.Base Require Import Res.
From GoPdf.Gen Require Import Gen_C19.
From GoPdf.C19 Require Import ErrFlow.
Import ListNotations.

(* ---------------------------------------------------------------------- *)
(* the policy table *)

Lemma policy_table_ok_true : policy_table_ok = true.
Proof. vm_compute. reflexivity. Qed.

Lemma policy_kind m ph c : policy m ph c = policy m ph (rep_of (kind_of c)).
Proof. destruct c; reflexivity. Qed.

Lemma policy_table_lemma :
  forall m ph c, In m all_modes -> policy m ph c <> Exit -> c = Malformed.
Proof.
  intros m ph c Hm Hne.
  pose proof policy_table_ok_true as T. unfold policy_table_ok in T.
  rewrite forallb_forall in T. specialize (T m Hm).
  rewrite forallb_forall in T.
  assert (Hph : In ph all_phases) by (destruct ph; cbn; tauto).
  specialize (T ph Hph). rewrite forallb_forall in T.
  assert (Hk : In (kind_of c) all_ckinds) by (destruct c; cbn; tauto).
  specialize (T _ Hk). unfold policy_row_ok in T.
  rewrite <- policy_kind in T.
  destruct (policy m ph c) eqn:E; [congruence| |];
    destruct c; cbn in T; try discriminate; reflexivity.
Qed.

(* independent of the mode: a non-malformed error always exits *)
Lemma policy_nonmalformed m ph c : is_malformed c = false -> policy m ph c = Exit.
Proof.
  intros H. unfold policy, should_exit. rewrite H. cbn. destruct (has_policy ph); reflexivity.
Qed.

Lemma policy_table_preF6_refuted_lemma :
  exists m c, In m all_modes /\ c <> Malformed /\
              (if has_policy PhCatalog then should_exit_preF6 m (is_malformed c) else Exit) <> Exit.
Proof.
  exists ErrorHandlingRecover, (IO 1). split; [cbn; tauto|]. split; [discriminate|].
  vm_compute. discriminate.
Qed.

(* ---------------------------------------------------------------------- *)
(* semantics *)

Section Flow.
  Variable file : N -> val.

  Lemma fires_id f n e : fires (Some f) n = Some e -> e = fid f.
  Proof.
    unfold fires. destruct (fm f).
    - destruct (Nat.leb (fk f) n); intro H; inversion H; reflexivity.
    - destruct (Nat.eqb n (fk f)); intro H; inversion H; reflexivity.
  Qed.

  Lemma read_faulted_fired f s e off n : fired (snd (read_faulted file f s e off n)) = true.
  Proof.
    unfold read_faulted. destruct f as [ft|]; [|reflexivity].
    destruct (fkd ft); try reflexivity; destruct (buffered_ctx s); try reflexivity; destruct (forc ft n); reflexivity.
  Qed.

  Lemma read_faulted_swallowed f s e off n : swallowed (snd (read_faulted file f s e off n)) = swallowed s.
  Proof.
    unfold read_faulted. destruct f as [ft|]; [|reflexivity].
    destruct (fkd ft); try reflexivity; destruct (buffered_ctx s); try reflexivity; destruct (forc ft n); reflexivity.
  Qed.

  Lemma read_faulted_reads f s e off n : reads (snd (read_faulted file f s e off n)) = S (reads s).
  Proof.
    unfold read_faulted. destruct f as [ft|]; [|reflexivity].
    destruct (fkd ft); try reflexivity; destruct (buffered_ctx s); try reflexivity; destruct (forc ft n); reflexivity.
  Qed.

  Lemma read_faulted_err ft s e off n :
    fkd ft = FKErr -> read_faulted file (Some ft) s e off n = (Err (IO e), read_fail s e).
  Proof. intro H. unfold read_faulted. rewrite H. reflexivity. Qed.

  (* fired and swallowed only ever go from false to true *)
  Lemma mono f p : forall s,
      (fired s = true -> fired (snd (eval file f p s)) = true) /\
      (swallowed s = true -> swallowed (snd (eval file f p s)) = true).
  Proof.
    induction p as [v|c|off|p IHp k IHk|l p IHp|p IHp d|m ph p IHp d|v|p IHp|p IHp|p IHp|p IHp h IHh|p IHp h IHh];
      intros s; cbn [eval].
    - cbn; tauto.
    - cbn; tauto.
    - destruct (lat s); try (destruct (fires f (S (reads s))); [rewrite read_faulted_fired, read_faulted_swallowed|cbn]; tauto); cbn; tauto.
    - specialize (IHp s). destruct (eval file f p s) as [[v|c] s']; cbn [snd] in *.
      + specialize (IHk v s'). tauto.
      + tauto.
    - apply IHp.
    - specialize (IHp s). destruct (eval file f p s) as [[v|c] s']; cbn [snd] in *; [tauto|].
      destruct c; cbn [snd]; tauto.
    - specialize (IHp s). destruct (eval file f p s) as [[v|c] s']; cbn [snd] in *; [tauto|].
      destruct (policy m ph c); cbn; tauto.
    - cbn; tauto.
    - specialize (IHp (set_lat s Armed)). destruct (eval file f p (set_lat s Armed)) as [r s'].
      cbn in *. tauto.
    - specialize (IHp (set_lat (set_chk s (Some None)) NoLatch)). destruct (eval file f p (set_lat (set_chk s (Some None)) NoLatch)) as [r s'].
      cbn [snd] in IHp.
      destruct r as [v|c]; [cbn in *; tauto|].
      destruct (chk s') as [[e|]|]; cbn in *; tauto.
    - specialize (IHp s). destruct (eval file f p s) as [[v|c] s']; cbn [snd] in *; tauto.
    - specialize (IHp s). destruct (eval file f p s) as [[v|c] s']; cbn [snd] in *; [tauto|].
      destruct c; cbn [snd]; try tauto; specialize (IHh s'); tauto.
    - specialize (IHp s). destruct (eval file f p s) as [[v|c] s']; cbn [snd] in *; [tauto|].
      specialize (IHh c (set_swallowed s')). cbn in IHh.
      split; intro H.
      + apply IHh. tauto.
      + apply IHh. rewrite (proj2 IHp H). apply orb_true_r.
  Qed.

  Lemma fired_mono f p s : fired s = true -> fired (snd (eval file f p s)) = true.
  Proof. apply mono. Qed.
  Lemma swallowed_mono f p s : swallowed s = true -> swallowed (snd (eval file f p s)) = true.
  Proof. apply mono. Qed.

  Lemma fired_back f p s : fired (snd (eval file f p s)) = false -> fired s = false.
  Proof.
    intro H. destruct (fired s) eqn:E; [|reflexivity].
    rewrite (fired_mono f p s E) in H. discriminate.
  Qed.

  (* as long as the fault has not fired the run is the fault-free run *)
  Lemma no_fire_same f p : forall s,
      fired (snd (eval file (Some f) p s)) = false ->
      eval file (Some f) p s = eval file None p s.
  Proof.
    induction p as [v|c|off|p IHp k IHk|l p IHp|p IHp d|m ph p IHp d|v|p IHp|p IHp|p IHp|p IHp h IHh|p IHp h IHh];
      intros s; cbn [eval]; try reflexivity.
    - destruct (lat s); try reflexivity;
        (destruct (fires (Some f) (S (reads s))) eqn:E; [rewrite read_faulted_fired; discriminate| reflexivity]).
    - intro H.
      assert (H1 : fired (snd (eval file (Some f) p s)) = false).
      { destruct (eval file (Some f) p s) as [[v|c] s'] eqn:E; cbn [snd] in *.
        - eapply fired_back. exact H.
        - exact H. }
      rewrite <- (IHp s H1).
      destruct (eval file (Some f) p s) as [[v|c] s']; cbn [snd] in *; [|reflexivity].
      apply IHk. exact H.
    - apply IHp.
    - intro H.
      assert (H1 : fired (snd (eval file (Some f) p s)) = false).
      { destruct (eval file (Some f) p s) as [[v|c] s']; cbn [snd] in *; [exact H|].
        destruct c; exact H. }
      rewrite <- (IHp s H1). reflexivity.
    - intro H.
      assert (H1 : fired (snd (eval file (Some f) p s)) = false).
      { destruct (eval file (Some f) p s) as [[v|c] s']; cbn [snd] in *; [exact H|].
        destruct (policy m ph c); exact H. }
      rewrite <- (IHp s H1). reflexivity.
    - intro H.
      assert (H1 : fired (snd (eval file (Some f) p (set_lat s Armed))) = false).
      { destruct (eval file (Some f) p (set_lat s Armed)) as [r s']; exact H. }
      rewrite <- (IHp _ H1). reflexivity.
    - intro H.
      assert (H1 : fired (snd (eval file (Some f) p (set_lat (set_chk s (Some None)) NoLatch))) = false).
      { destruct (eval file (Some f) p (set_lat (set_chk s (Some None)) NoLatch)) as [r s']; cbn [snd] in *.
        destruct r as [v|c]; [exact H|]. destruct (chk s') as [[e|]|]; exact H. }
      rewrite <- (IHp _ H1). reflexivity.
    - intro H.
      assert (H1 : fired (snd (eval file (Some f) p s)) = false).
      { destruct (eval file (Some f) p s) as [[v|c] s']; exact H. }
      rewrite <- (IHp s H1). reflexivity.
    - intro H.
      assert (H1 : fired (snd (eval file (Some f) p s)) = false).
      { destruct (eval file (Some f) p s) as [[v|c] s'] eqn:E; cbn [snd] in *; [exact H|].
        destruct c; try exact H; eapply fired_back; exact H. }
      rewrite <- (IHp s H1).
      destruct (eval file (Some f) p s) as [[v|c] s']; cbn [snd] in *; [reflexivity|].
      destruct c; try reflexivity; apply IHh; exact H.
    - intro H.
      assert (H1 : fired (snd (eval file (Some f) p s)) = false).
      { destruct (eval file (Some f) p s) as [[v|c] s'] eqn:E; cbn [snd] in *; [exact H|].
        apply fired_back in H. exact H. }
      rewrite <- (IHp s H1).
      destruct (eval file (Some f) p s) as [[v|c] s']; cbn [snd] in *; [reflexivity|].
      apply IHh. exact H.
  Qed.

  (* fault-free runs never touch the checker record *)
  Lemma clean_chk p : wsafe p -> forall s, chk (snd (eval file None p s)) = chk s.
  Proof.
    induction 1 as [v|c Hc|off|p k Hp IHp Hk IHk|l p Hp IHp|p Hp IHp|p Hp IHp]; intros s; cbn [eval]; try reflexivity.
    - destruct (lat s); reflexivity.
    - specialize (IHp s). destruct (eval file None p s) as [[v|c] s']; cbn [snd] in *; [|exact IHp].
      rewrite IHk. exact IHp.
    - apply IHp.
    - specialize (IHp (set_lat s Armed)). destruct (eval file None p (set_lat s Armed)) as [r s'].
      cbn in *. exact IHp.
    - specialize (IHp s). destruct (eval file None p s) as [[v|c] s']; exact IHp.
  Qed.

  (* inside a DecodeStream chain: once the fault has fired, the chain reports an
     error and the checker holds the injected error *)
  Lemma weak_surfacing f p (Hkd : fkd f = FKErr) : wsafe p -> forall s,
      fired s = false -> chk s = Some None ->
      fired (snd (eval file (Some f) p s)) = true ->
      (exists c, fst (eval file (Some f) p s) = Err c) /\
      chk (snd (eval file (Some f) p s)) = Some (Some (fid f)).
  Proof.
    induction 1 as [v|c Hc|off|p k Hp IHp Hk IHk|l p Hp IHp|p Hp IHp|p Hp IHp];
      intros s Hf Hc0; cbn [eval].
    - cbn. congruence.
    - cbn. congruence.
    - destruct (lat s) eqn:El.
      + destruct (fires (Some f) (S (reads s))) eqn:E; [rewrite read_faulted_err by exact Hkd|]; cbn; [|congruence].
        intros _. apply fires_id in E. subst n. rewrite Hc0. split; eauto.
      + destruct (fires (Some f) (S (reads s))) eqn:E; [rewrite read_faulted_err by exact Hkd|]; cbn; [|congruence].
        intros _. apply fires_id in E. subst n. rewrite Hc0. split; eauto.
      + cbn. congruence.
    - specialize (IHp s Hf Hc0).
      pose proof (no_fire_same f p s) as NF.
      pose proof (clean_chk p Hp s) as CC.
      destruct (eval file (Some f) p s) as [[v|c] s'] eqn:E; cbn [fst snd] in *.
      + destruct (fired s') eqn:Fs'.
        * destruct (IHp eq_refl) as [[c Hc] _]. discriminate.
        * intro H. apply IHk; [exact Fs'| |exact H].
          rewrite <- (NF eq_refl) in CC. cbn in CC. congruence.
      + intro H. destruct (IHp H) as [_ Hk']. split; eauto.
    - apply IHp; assumption.
    - specialize (IHp (set_lat s Armed) Hf Hc0).
      destruct (eval file (Some f) p (set_lat s Armed)) as [r s']. cbn in *. exact IHp.
    - specialize (IHp s Hf Hc0).
      destruct (eval file (Some f) p s) as [[v|c] s']; cbn [fst snd] in *; [exact IHp|].
      intro H. destruct (IHp H) as [_ Hk']. split; eauto.
  Qed.

  (* the general statement: once the fault has fired, the call returns the
     injected error - unless a catch-all construct swallowed an error *)
  Lemma strong_surfacing f c p (Hkd : fkd f = FKErr) : safe c p -> forall s,
      fired s = false ->
      fired (snd (eval file (Some f) p s)) = true ->
      fst (eval file (Some f) p s) = Err (IO (fid f)) \/
      swallowed (snd (eval file (Some f) p s)) = true.
  Proof.
    induction 1 as [v|e He|off|p k Hp IHp Hk IHk|l p Hp IHp|p d Hp IHp|m ph p d Hp IHp|v|p Hp IHp|p Hp|p h Hp IHp Hh IHh|p h Hc Hp IHp Hh IHh];
      intros s Hf; cbn [eval].
    - cbn. congruence.
    - cbn. congruence.
    - destruct (lat s) eqn:El.
      + destruct (fires (Some f) (S (reads s))) eqn:E; [rewrite read_faulted_err by exact Hkd|]; cbn; [|congruence].
        intros _. apply fires_id in E. subst n. left; reflexivity.
      + destruct (fires (Some f) (S (reads s))) eqn:E; [rewrite read_faulted_err by exact Hkd|]; cbn; [|congruence].
        intros _. apply fires_id in E. subst n. left; reflexivity.
      + cbn. congruence.
    - specialize (IHp s Hf).
      destruct (eval file (Some f) p s) as [[v|e] s'] eqn:E; cbn [fst snd] in *.
      + destruct (fired s') eqn:Fs'.
        * destruct (IHp eq_refl) as [H1|H1]; [discriminate|].
          intros _. right. apply swallowed_mono. exact H1.
        * apply IHk. exact Fs'.
      + exact IHp.
    - apply IHp; assumption.
    - specialize (IHp s Hf).
      destruct (eval file (Some f) p s) as [[v|e] s']; cbn [fst snd] in *; [exact IHp|].
      destruct e; cbn [fst snd]; try exact IHp.
      intro H. destruct (IHp H) as [H1|H1]; [discriminate|right; exact H1].
    - specialize (IHp s Hf).
      destruct (eval file (Some f) p s) as [[v|e] s']; cbn [fst snd] in *; [exact IHp|].
      destruct (policy m ph e) eqn:Ep; cbn [fst snd]; try exact IHp.
      + intro H. destruct (IHp H) as [H1|H1]; [|right; exact H1].
        inversion H1; subst e. rewrite policy_nonmalformed in Ep by reflexivity. discriminate.
      + intro H. destruct (IHp H) as [H1|H1]; [|right; exact H1].
        inversion H1; subst e. rewrite policy_nonmalformed in Ep by reflexivity. discriminate.
    - cbn. congruence.
    - specialize (IHp (set_lat s Armed) Hf).
      destruct (eval file (Some f) p (set_lat s Armed)) as [r s']. cbn in *. exact IHp.
    - pose proof (weak_surfacing f p Hkd Hp (set_lat (set_chk s (Some None)) NoLatch) Hf eq_refl) as W.
      destruct (eval file (Some f) p (set_lat (set_chk s (Some None)) NoLatch)) as [r s']. cbn [fst snd] in W.
      intro H.
      assert (Hs' : fired s' = true).
      { destruct r as [v|e]; [exact H|]. destruct (chk s') as [[x|]|]; exact H. }
      destruct (W Hs') as [[e He] Hk']. subst r. rewrite Hk'. left; reflexivity.
    - specialize (IHp s Hf).
      destruct (eval file (Some f) p s) as [[v|e] s'] eqn:E; cbn [fst snd] in *; [exact IHp|].
      destruct e; cbn [fst snd]; try exact IHp;
        (destruct (fired s') eqn:Fs';
         [ destruct (IHp eq_refl) as [H1|H1]; [discriminate|];
           intros _; right; apply swallowed_mono; exact H1
         | apply IHh; exact Fs' ]).
    - specialize (IHp s Hf).
      destruct (eval file (Some f) p s) as [[v|e] s'] eqn:E; cbn [fst snd] in *; [exact IHp|].
      destruct (fired s') eqn:Fs'.
      + intros _. right. apply swallowed_mono. cbn. rewrite Fs'. reflexivity.
      + apply IHh. cbn. exact Fs'.
  Qed.

  (* programs without a catch-all never set the swallowed flag *)
  Lemma wsafe_swallowed f p : wsafe p -> forall s, swallowed (snd (eval file f p s)) = swallowed s.
  Proof.
    induction 1 as [v|c Hc|off|p k Hp IHp Hk IHk|l p Hp IHp|p Hp IHp|p Hp IHp]; intros s; cbn [eval]; try reflexivity.
    - destruct (lat s); try reflexivity; destruct (fires f (S (reads s))); try reflexivity; apply read_faulted_swallowed.
    - specialize (IHp s). destruct (eval file f p s) as [[v|c] s']; cbn [snd] in *; [|exact IHp].
      rewrite IHk. exact IHp.
    - apply IHp.
    - specialize (IHp (set_lat s Armed)). destruct (eval file f p (set_lat s Armed)) as [r s']. cbn in *. exact IHp.
    - specialize (IHp s). destruct (eval file f p s) as [[v|c] s']; exact IHp.
  Qed.

  Lemma safe_swallowed f p : safe false p -> forall s, swallowed (snd (eval file f p s)) = swallowed s.
  Proof.
    induction 1 as [v|e He|off|p k Hp IHp Hk IHk|l p Hp IHp|p d Hp IHp|m ph p d Hp IHp|v|p Hp IHp|p Hp|p h Hp IHp Hh IHh|p h Hc Hp IHp Hh IHh];
      intros s; cbn [eval]; try reflexivity.
    - destruct (lat s); try reflexivity; destruct (fires f (S (reads s))); try reflexivity; apply read_faulted_swallowed.
    - specialize (IHp s). destruct (eval file f p s) as [[v|e] s']; cbn [snd] in *; [|exact IHp].
      rewrite IHk. exact IHp.
    - apply IHp.
    - specialize (IHp s). destruct (eval file f p s) as [[v|e] s']; cbn [snd] in *; [exact IHp|].
      destruct e; exact IHp.
    - specialize (IHp s). destruct (eval file f p s) as [[v|e] s']; cbn [snd] in *; [exact IHp|].
      destruct (policy m ph e); exact IHp.
    - specialize (IHp (set_lat s Armed)). destruct (eval file f p (set_lat s Armed)) as [r s']. cbn in *. exact IHp.
    - pose proof (wsafe_swallowed f p Hp (set_lat (set_chk s (Some None)) NoLatch)) as W.
      destruct (eval file f p (set_lat (set_chk s (Some None)) NoLatch)) as [r s']. cbn [snd] in *.
      destruct r as [v|e]; [exact W|]. destruct (chk s') as [[x|]|]; exact W.
    - specialize (IHp s). destruct (eval file f p s) as [[v|e] s']; cbn [snd] in *; [exact IHp|].
      destruct e; try exact IHp; rewrite IHh; exact IHp.
    - discriminate.
  Qed.

  (* an un-fired run has made fewer than k source calls *)
  Lemma unfired_reads f p : forall s,
      (reads s < fk f)%nat ->
      fired (snd (eval file (Some f) p s)) = false ->
      (reads (snd (eval file (Some f) p s)) < fk f)%nat.
  Proof.
    induction p as [v|c|off|p IHp k IHk|l p IHp|p IHp d|m ph p IHp d|v|p IHp|p IHp|p IHp|p IHp h IHh|p IHp h IHh];
      intros s Hr; cbn [eval]; try (cbn; intros; assumption).
    - destruct (lat s); try (cbn; intros; assumption).
      + unfold fires. destruct (fm f).
        * destruct (Nat.leb (fk f) (S (reads s))) eqn:E; [rewrite read_faulted_fired; discriminate|cbn].
          intros _. apply Nat.leb_gt in E. exact E.
        * destruct (Nat.eqb (S (reads s)) (fk f)) eqn:E; [rewrite read_faulted_fired; discriminate|cbn].
          intros _. apply Nat.eqb_neq in E. lia.
      + unfold fires. destruct (fm f).
        * destruct (Nat.leb (fk f) (S (reads s))) eqn:E; [rewrite read_faulted_fired; discriminate|cbn].
          intros _. apply Nat.leb_gt in E. exact E.
        * destruct (Nat.eqb (S (reads s)) (fk f)) eqn:E; [rewrite read_faulted_fired; discriminate|cbn].
          intros _. apply Nat.eqb_neq in E. lia.
    - specialize (IHp s Hr). pose proof (fired_back (Some f)) as FB.
      destruct (eval file (Some f) p s) as [[v|c] s'] eqn:E; cbn [snd] in *.
      + intro H. apply IHk; [|exact H]. apply IHp. eapply FB. exact H.
      + exact IHp.
    - apply IHp; assumption.
    - specialize (IHp s Hr).
      destruct (eval file (Some f) p s) as [[v|c] s']; cbn [snd] in *; [exact IHp|].
      destruct c; exact IHp.
    - specialize (IHp s Hr).
      destruct (eval file (Some f) p s) as [[v|c] s']; cbn [snd] in *; [exact IHp|].
      destruct (policy m ph c); exact IHp.
    - specialize (IHp (set_lat s Armed) Hr).
      destruct (eval file (Some f) p (set_lat s Armed)) as [r s']. cbn in *. exact IHp.
    - specialize (IHp (set_lat (set_chk s (Some None)) NoLatch) Hr).
      destruct (eval file (Some f) p (set_lat (set_chk s (Some None)) NoLatch)) as [r s']. cbn [snd] in *.
      destruct r as [v|c]; [exact IHp|]. destruct (chk s') as [[x|]|]; exact IHp.
    - specialize (IHp s Hr).
      destruct (eval file (Some f) p s) as [[v|c] s']; exact IHp.
    - specialize (IHp s Hr). pose proof (fired_back (Some f)) as FB.
      destruct (eval file (Some f) p s) as [[v|c] s'] eqn:E; cbn [snd] in *; [exact IHp|].
      destruct c; try exact IHp; (intro H; apply IHh; [|exact H]; apply IHp; eapply FB; exact H).
    - specialize (IHp s Hr). pose proof (fired_back (Some f)) as FB.
      destruct (eval file (Some f) p s) as [[v|c] s'] eqn:E; cbn [snd] in *; [exact IHp|].
      intro H. apply IHh; [|exact H].
      apply FB in H. cbn in H. apply IHp in H. exact H.
  Qed.

  (* ---- the theorems ---------------------------------------------------- *)

  Lemma fault_surfaces_unless_swallowed_lemma : forall c p f s,
      fkd f = FKErr -> safe c p -> fired s = false ->
      eval file (Some f) p s = eval file None p s \/
      fst (eval file (Some f) p s) = Err (IO (fid f)) \/
      swallowed (snd (eval file (Some f) p s)) = true.
  Proof.
    intros c p f s Hkd Hs Hf.
    destruct (fired (snd (eval file (Some f) p s))) eqn:E.
    - right. eapply strong_surfacing; eassumption.
    - left. apply no_fire_same. exact E.
  Qed.

  (* ---- data together with the error: simulation of the fault-free run ---- *)

  Definition lat_rel (e : N) (l1 l0 : latch) : Prop := l1 = l0 \/ (l1 = Tripped e /\ l0 = Armed).
  Definition chk_rel (e : N) (c1 c0 : option (option N)) : Prop :=
    c1 = c0 \/ (c1 = Some (Some e) /\ c0 = Some None).
  Definition sim (e : N) (s1 s0 : st) : Prop :=
    recorded s1 = recorded s0 /\ lat_rel e (lat s1) (lat s0) /\ chk_rel e (chk s1) (chk s0).

  (* inside a DecodeStream chain *)
  Definition wpre (e : N) (s1 s0 : st) : Prop :=
    chk s0 = Some None /\ (chk s1 = Some None \/ chk s1 = Some (Some e)) /\
    recorded s1 = recorded s0 /\ lat_rel e (lat s1) (lat s0) /\
    (lat s1 = Tripped e -> lat s0 = Armed -> chk s1 = Some (Some e)).

  Lemma chk_sticky f p : wsafe p -> forall s e, chk s = Some (Some e) -> chk (snd (eval file f p s)) = Some (Some e).
  Proof.
    induction 1 as [v|c Hc|off|p k Hp IHp Hk IHk|l p Hp IHp|p Hp IHp|p Hp IHp]; intros s e Hs; cbn [eval]; try exact Hs.
    - destruct (lat s); try exact Hs;
        (destruct (fires f (S (reads s))); [|exact Hs];
         unfold read_faulted; destruct f as [ft|]; [|cbn; rewrite Hs; reflexivity];
         destruct (fkd ft); try (cbn; rewrite Hs; reflexivity);
         destruct (buffered_ctx s); try (cbn; rewrite Hs; reflexivity);
         destruct (forc ft (S (reads s))); cbn; rewrite ?Hs; reflexivity).
    - specialize (IHp s e Hs). destruct (eval file f p s) as [[v|c] s']; cbn [snd] in *; [|exact IHp].
      apply IHk. exact IHp.
    - apply IHp; exact Hs.
    - specialize (IHp (set_lat s Armed) e Hs). destruct (eval file f p (set_lat s Armed)) as [r s']. cbn in *. exact IHp.
    - specialize (IHp s e Hs). destruct (eval file f p s) as [[v|c] s']; exact IHp.
  Qed.

  Lemma read_fail_chk s e :
    chk s = Some None \/ chk s = Some (Some e) -> chk (read_fail s e) = Some (Some e).
  Proof. intros [H|H]; cbn; rewrite H; reflexivity. Qed.

  Lemma eval_ReadAt f off s :
    eval file f (ReadAt off) s =
    match lat s with
    | Tripped e => (Err (IO e), s)
    | _ => match fires f (S (reads s)) with
           | Some e => read_faulted file f s e off (S (reads s))
           | None => (Ok (file off), read_ok s)
           end
    end.
  Proof. reflexivity. Qed.

  Lemma read_faulted_cases ft s off n :
    forc ft n <> ShortTaken ->
    read_faulted file (Some ft) s (fid ft) off n = (Err (IO (fid ft)), read_fail s (fid ft)) \/
    read_faulted file (Some ft) s (fid ft) off n = (Ok (file off), read_fail s (fid ft)) \/
    read_faulted file (Some ft) s (fid ft) off n = (Ok (file off), read_dropped s).
  Proof.
    intro NS. unfold read_faulted.
    destruct (fkd ft); [left; reflexivity| |];
      (destruct (buffered_ctx s); [|left; reflexivity]; destruct (forc ft n); [left; reflexivity|right; left; reflexivity|right; right; reflexivity|congruence]).
  Qed.

  Lemma lat_read_fail s e : lat (read_fail s e) = match lat s with Armed => Tripped e | l => l end.
  Proof. reflexivity. Qed.

  Lemma wpre_ok e s1 s0 : wpre e s1 s0 -> wpre e (read_ok s1) (read_ok s0).
  Proof. intro W. exact W. Qed.

  Lemma wpre_dropped e s1 s0 : wpre e s1 s0 -> wpre e (read_dropped s1) (read_ok s0).
  Proof. intro W. exact W. Qed.

  Lemma wpre_fail e s1 s0 :
    wpre e s1 s0 -> lat s1 = lat s0 -> (forall x, lat s1 <> Tripped x) ->
    wpre e (read_fail s1 e) (read_ok s0).
  Proof.
    intros (C0 & C1 & R & L & J) El NT.
    split; [exact C0|]. split; [right; apply read_fail_chk; exact C1|]. split; [exact R|].
    split.
    - rewrite lat_read_fail. cbn [lat read_ok]. rewrite <- El.
      destruct (lat s1); [left; reflexivity|right; split; reflexivity|left; reflexivity].
    - intros _ _. apply read_fail_chk; exact C1.
  Qed.

  Lemma sim_ok e s1 s0 : sim e s1 s0 -> sim e (read_ok s1) (read_ok s0).
  Proof. intro S. exact S. Qed.

  Lemma sim_dropped e s1 s0 : sim e s1 s0 -> sim e (read_dropped s1) (read_ok s0).
  Proof. intro S. exact S. Qed.

  Lemma sim_fail e s1 s0 :
    sim e s1 s0 -> lat s1 = lat s0 -> sim e (read_fail s1 e) (read_ok s0).
  Proof.
    intros (R & L & C) El. split; [exact R|]. split.
    - rewrite lat_read_fail. cbn [lat read_ok]. rewrite <- El.
      destruct (lat s1); [left; reflexivity|right; split; reflexivity|left; reflexivity].
    - cbn [chk read_fail read_ok]. destruct C as [C|[C1 C0]].
      + rewrite C. destruct (chk s0) as [[x|]|]; [left; reflexivity|right; split; reflexivity|left; reflexivity].
      + rewrite C1. right; split; [reflexivity|exact C0].
  Qed.

  Lemma readat_weak f off s1 s0 :
    (forall n, forc f n <> ShortTaken) -> wpre (fid f) s1 s0 ->
    (fst (eval file (Some f) (ReadAt off) s1) = fst (eval file None (ReadAt off) s0) /\
     wpre (fid f) (snd (eval file (Some f) (ReadAt off) s1)) (snd (eval file None (ReadAt off) s0))) \/
    ((exists c, fst (eval file (Some f) (ReadAt off) s1) = Err c) /\
     chk (snd (eval file (Some f) (ReadAt off) s1)) = Some (Some (fid f))).
  Proof.
    intros NS W. rewrite !eval_ReadAt.
    replace (fires None (S (reads s0))) with (@None N) by reflexivity.
    pose proof W as (C0 & C1 & R & L & J).
    destruct L as [L|[L1 L0]].
    - rewrite <- L.
      assert (NTcase : (forall x, lat s1 <> Tripped x) ->
                (fst match fires (Some f) (S (reads s1)) with
                     | Some e => read_faulted file (Some f) s1 e off (S (reads s1))
                     | None => (Ok (file off), read_ok s1) end = fst (Ok (file off), read_ok s0) /\
                 wpre (fid f) (snd match fires (Some f) (S (reads s1)) with
                     | Some e => read_faulted file (Some f) s1 e off (S (reads s1))
                     | None => (Ok (file off), read_ok s1) end) (snd (Ok (file off), read_ok s0))) \/
                ((exists c, fst match fires (Some f) (S (reads s1)) with
                     | Some e => read_faulted file (Some f) s1 e off (S (reads s1))
                     | None => (Ok (file off), read_ok s1) end = Err c) /\
                 chk (snd match fires (Some f) (S (reads s1)) with
                     | Some e => read_faulted file (Some f) s1 e off (S (reads s1))
                     | None => (Ok (file off), read_ok s1) end) = Some (Some (fid f)))).
      { intro NT. destruct (fires (Some f) (S (reads s1))) as [e|] eqn:E.
        - apply fires_id in E. subst e.
          destruct (read_faulted_cases f s1 off (S (reads s1)) (NS _)) as [H|[H|H]]; rewrite H; cbn [fst snd].
          + right. split; [eauto|apply read_fail_chk; exact C1].
          + left. split; [reflexivity|apply wpre_fail; assumption].
          + left. split; [reflexivity|apply wpre_dropped; exact W].
        - left. split; [reflexivity|apply wpre_ok; exact W]. }
      destruct (lat s1) as [| |x] eqn:El.
      + apply NTcase. intros x; discriminate.
      + apply NTcase. intros x; discriminate.
      + left. split; [reflexivity|exact W].
    - rewrite L1, L0. right. cbn [fst snd]. split; [eauto|apply J; assumption].
  Qed.

  Lemma readat_strong f off s1 s0 :
    (forall n, forc f n <> ShortTaken) -> sim (fid f) s1 s0 ->
    (fst (eval file (Some f) (ReadAt off) s1) = fst (eval file None (ReadAt off) s0) /\
     sim (fid f) (snd (eval file (Some f) (ReadAt off) s1)) (snd (eval file None (ReadAt off) s0))) \/
    fst (eval file (Some f) (ReadAt off) s1) = Err (IO (fid f)).
  Proof.
    intros NS Hsim. rewrite !eval_ReadAt.
    replace (fires None (S (reads s0))) with (@None N) by reflexivity.
    pose proof Hsim as (R & L & C).
    destruct L as [L|[L1 L0]].
    - rewrite <- L.
      assert (NTcase :
                (fst match fires (Some f) (S (reads s1)) with
                     | Some e => read_faulted file (Some f) s1 e off (S (reads s1))
                     | None => (Ok (file off), read_ok s1) end = fst (Ok (file off), read_ok s0) /\
                 sim (fid f) (snd match fires (Some f) (S (reads s1)) with
                     | Some e => read_faulted file (Some f) s1 e off (S (reads s1))
                     | None => (Ok (file off), read_ok s1) end) (snd (Ok (file off), read_ok s0))) \/
                fst match fires (Some f) (S (reads s1)) with
                     | Some e => read_faulted file (Some f) s1 e off (S (reads s1))
                     | None => (Ok (file off), read_ok s1) end = Err (IO (fid f))).
      { destruct (fires (Some f) (S (reads s1))) as [e|] eqn:E.
        - apply fires_id in E. subst e.
          destruct (read_faulted_cases f s1 off (S (reads s1)) (NS _)) as [H|[H|H]]; rewrite H; cbn [fst snd].
          + right. reflexivity.
          + left. split; [reflexivity|apply sim_fail; assumption].
          + left. split; [reflexivity|apply sim_dropped; exact Hsim].
        - left. split; [reflexivity|apply sim_ok; exact Hsim]. }
      destruct (lat s1) as [| |x] eqn:El.
      + exact NTcase.
      + exact NTcase.
      + left. split; [reflexivity|exact Hsim].
    - rewrite L1. right. reflexivity.
  Qed.

  Lemma sim_weak f p : (forall n, forc f n <> ShortTaken) -> wsafe p -> forall s1 s0,
      wpre (fid f) s1 s0 ->
      (fst (eval file (Some f) p s1) = fst (eval file None p s0) /\
       wpre (fid f) (snd (eval file (Some f) p s1)) (snd (eval file None p s0))) \/
      ((exists c, fst (eval file (Some f) p s1) = Err c) /\
       chk (snd (eval file (Some f) p s1)) = Some (Some (fid f))).
  Proof.
    intros NS.
    induction 1 as [v|c Hc|off|p k Hp IHp Hk IHk|l p Hp IHp|p Hp IHp|p Hp IHp];
      intros s1 s0 W; cbn [eval].
    - left. split; [reflexivity|exact W].
    - left. split; [reflexivity|exact W].
    - apply readat_weak; assumption.
    - specialize (IHp s1 s0 W).
      destruct (eval file (Some f) p s1) as [[v1|c1] s1'] eqn:E1;
        destruct (eval file None p s0) as [[v0|c0] s0'] eqn:E0; cbn [fst snd] in *.
      + destruct IHp as [[Hv W']|[[c Hc] _]]; [|discriminate].
        inversion Hv; subst v0. apply IHk. exact W'.
      + destruct IHp as [[Hv _]|[[c Hc] _]]; discriminate.
      + destruct IHp as [[Hv _]|[_ Hk']]; [discriminate|]. right. split; eauto.
      + destruct IHp as [[Hv W']|[_ Hk']].
        * left. split; assumption.
        * right. split; eauto.
    - apply IHp. exact W.
    - destruct W as (C0 & C1 & R & L & J).
      assert (W2 : wpre (fid f) (set_lat s1 Armed) (set_lat s0 Armed)).
      { repeat split; try assumption. left; reflexivity. cbn; intro; discriminate. }
      specialize (IHp _ _ W2).
      pose proof (chk_sticky (Some f) p Hp (set_lat s1 Armed) (fid f)) as CS.
      destruct (eval file (Some f) p (set_lat s1 Armed)) as [r1 s1'];
        destruct (eval file None p (set_lat s0 Armed)) as [r0 s0']; cbn [fst snd] in *.
      destruct IHp as [[Hr (C0' & C1' & R' & L' & J')]|[He Hk']].
      + left. split; [exact Hr|]. cbn. repeat split; try assumption.
        intros T A. apply CS. cbn. apply J; assumption.
      + right. split; [exact He|exact Hk'].
    - specialize (IHp s1 s0 W).
      destruct (eval file (Some f) p s1) as [[v1|c1] s1'] eqn:E1;
        destruct (eval file None p s0) as [[v0|c0] s0'] eqn:E0; cbn [fst snd] in *.
      + exact IHp.
      + destruct IHp as [[Hv _]|[[c Hc] _]]; discriminate.
      + destruct IHp as [[Hv _]|[_ Hk']]; [discriminate|]. right. split; eauto.
      + destruct IHp as [[Hv W']|[_ Hk']].
        * left. inversion Hv; subst. split; [reflexivity|exact W'].
        * right. split; eauto.
  Qed.

  Lemma sim_strong f p : (forall n, forc f n <> ShortTaken) -> safe false p -> forall s1 s0,
      sim (fid f) s1 s0 ->
      (fst (eval file (Some f) p s1) = fst (eval file None p s0) /\
       sim (fid f) (snd (eval file (Some f) p s1)) (snd (eval file None p s0))) \/
      fst (eval file (Some f) p s1) = Err (IO (fid f)).
  Proof.
    intros NS.
    induction 1 as [v|e He|off|p k Hp IHp Hk IHk|l p Hp IHp|p d Hp IHp|m ph p d Hp IHp|v|p Hp IHp|p Hp|p h Hp IHp Hh IHh|p h Hc Hp IHp Hh IHh];
      intros s1 s0 S; cbn [eval].
    - left. split; [reflexivity|exact S].
    - left. split; [reflexivity|exact S].
    - apply readat_strong; assumption.
    - specialize (IHp s1 s0 S).
      destruct (eval file (Some f) p s1) as [[v1|c1] s1'] eqn:E1;
        destruct (eval file None p s0) as [[v0|c0] s0'] eqn:E0; cbn [fst snd] in *.
      + destruct IHp as [[Hv S']|Hc]; [|discriminate]. inversion Hv; subst v0. apply IHk. exact S'.
      + destruct IHp as [[Hv _]|Hc]; discriminate.
      + destruct IHp as [[Hv _]|Hc]; [discriminate|]. right. exact Hc.
      + exact IHp.
    - apply IHp. exact S.
    - specialize (IHp s1 s0 S).
      destruct (eval file (Some f) p s1) as [[v1|c1] s1'] eqn:E1;
        destruct (eval file None p s0) as [[v0|c0] s0'] eqn:E0; cbn [fst snd] in *.
      + exact IHp.
      + destruct IHp as [[Hv _]|Hc]; discriminate.
      + destruct IHp as [[Hv _]|Hc]; [discriminate|]. inversion Hc; subst c1. right; reflexivity.
      + destruct IHp as [[Hv S']|Hc].
        * inversion Hv; subst c0. left. destruct c1; cbn [fst snd]; split; try reflexivity; exact S'.
        * inversion Hc; subst c1. right; reflexivity.
    - specialize (IHp s1 s0 S).
      destruct (eval file (Some f) p s1) as [[v1|c1] s1'] eqn:E1;
        destruct (eval file None p s0) as [[v0|c0] s0'] eqn:E0; cbn [fst snd] in *.
      + exact IHp.
      + destruct IHp as [[Hv _]|Hc]; discriminate.
      + destruct IHp as [[Hv _]|Hc]; [discriminate|]. inversion Hc; subst c1.
        rewrite policy_nonmalformed by reflexivity. right; reflexivity.
      + destruct IHp as [[Hv S']|Hc].
        * inversion Hv; subst c0. left. destruct (policy m ph c1); cbn [fst snd]; split; try reflexivity; try exact S'.
          destruct S' as (R' & L' & C'). split; [cbn; congruence|]. split; assumption.
        * inversion Hc; subst c1. rewrite policy_nonmalformed by reflexivity. right; reflexivity.
    - left. split; [reflexivity|]. destruct S as (R & L & C). split; [cbn; congruence|]. split; assumption.
    - destruct S as (R & L & C).
      assert (S2 : sim (fid f) (set_lat s1 Armed) (set_lat s0 Armed)).
      { split; [exact R|]. split; [left; reflexivity|exact C]. }
      specialize (IHp _ _ S2).
      destruct (eval file (Some f) p (set_lat s1 Armed)) as [r1 s1'];
        destruct (eval file None p (set_lat s0 Armed)) as [r0 s0']; cbn [fst snd] in *.
      destruct IHp as [[Hr (R' & L' & C')]|Hc]; [|right; exact Hc].
      left. split; [exact Hr|]. split; [exact R'|]. split; [exact L|exact C'].
    - destruct S as (R & L & C).
      assert (W : wpre (fid f) (set_lat (set_chk s1 (Some None)) NoLatch) (set_lat (set_chk s0 (Some None)) NoLatch)).
      { split; [reflexivity|]. split; [left; reflexivity|]. split; [exact R|]. split; [left; reflexivity|].
        cbn. intro; discriminate. }
      pose proof (sim_weak f p NS Hp _ _ W) as SW.
      destruct (eval file (Some f) p (set_lat (set_chk s1 (Some None)) NoLatch)) as [r1 s1'];
        destruct (eval file None p (set_lat (set_chk s0 (Some None)) NoLatch)) as [r0 s0']; cbn [fst snd] in *.
      destruct SW as [[Hr (C0' & C1' & R' & L' & J')]|[[c Hc] Hk']].
      + subst r0. rewrite C0'.
        assert (SR : sim (fid f) (set_lat (set_chk s1' (chk s1)) (lat s1)) (set_lat (set_chk s0' (chk s0)) (lat s0))).
        { split; [exact R'|]. split; [exact L|exact C]. }
        destruct r1 as [v|c].
        * left. split; [reflexivity|exact SR].
        * destruct C1' as [H|H]; rewrite H.
          -- left. split; [reflexivity|exact SR].
          -- right. reflexivity.
      + subst r1. rewrite Hk'. right. reflexivity.
    - specialize (IHp s1 s0 S).
      destruct (eval file (Some f) p s1) as [[v1|c1] s1'] eqn:E1;
        destruct (eval file None p s0) as [[v0|c0] s0'] eqn:E0; cbn [fst snd] in *.
      + exact IHp.
      + destruct IHp as [[Hv _]|Hc]; discriminate.
      + destruct IHp as [[Hv _]|Hc]; [discriminate|]. inversion Hc; subst c1. right; reflexivity.
      + destruct IHp as [[Hv S']|Hc].
        * inversion Hv; subst c0. destruct c1; try (left; split; [reflexivity|exact S']); apply IHh; exact S'.
        * inversion Hc; subst c1. right; reflexivity.
    - discriminate.
  Qed.

  Lemma sim_refl e s : sim e s s.
  Proof. split; [reflexivity|]. split; left; reflexivity. Qed.

  (* all three kinds of failing call, both fault modes, every decision except the
     one that takes short data for the end of the input *)
  Lemma fault_surfaces_lemma : forall p f s,
      safe false p -> (forall n, forc f n <> ShortTaken) ->
      (fst (eval file (Some f) p s) = fst (eval file None p s) /\
       recorded (snd (eval file (Some f) p s)) = recorded (snd (eval file None p s))) \/
      fst (eval file (Some f) p s) = Err (IO (fid f)).
  Proof.
    intros p f s Hs NS.
    destruct (sim_strong f p NS Hs s s (sim_refl _ _)) as [[H (R & _)]|H]; [left; split; assumption|right; exact H].
  Qed.

  (* every fault index that the fault-free run reaches yields the injected error *)
  Lemma fault_in_range_surfaces_lemma : forall p f,
      fkd f = FKErr -> safe false p ->
      (1 <= fk f <= reads (snd (eval file None p st0)))%nat ->
      fst (eval file (Some f) p st0) = Err (IO (fid f)).
  Proof.
    intros p f Hkd Hs [Hk1 Hk2].
    destruct (fired (snd (eval file (Some f) p st0))) eqn:E.
    - destruct (strong_surfacing f false p Hkd Hs st0 eq_refl E) as [H|H]; [exact H|].
      rewrite safe_swallowed in H by assumption. discriminate.
    - exfalso.
      pose proof (unfired_reads f p st0) as U. cbn [reads st0] in U.
      specialize (U ltac:(lia) E).
      rewrite (no_fire_same f p st0 E) in U. lia.
  Qed.
End Flow.

(* ---------------------------------------------------------------------- *)
(* go-pdf's programs are covered *)

Lemma not_io_malformed : not_io Malformed.
Proof. intros e; discriminate. Qed.
Lemma not_io_other : not_io Other.
Proof. intros e; discriminate. Qed.

Lemma read_one_safe c k i : safe c (read_one k i).
Proof.
  destruct k; cbn; repeat constructor.
Qed.

Lemma reads_from_safe c ks : forall i acc, safe c (reads_from ks i acc).
Proof.
  induction ks as [|k ks IH]; intros i acc; cbn.
  - constructor.
  - constructor; [apply read_one_safe|]. intro v. apply IH.
Qed.

Lemma block_safe c ks bad i : safe c (block ks bad i).
Proof.
  unfold block. constructor; [apply reads_from_safe|].
  intro v. destruct bad; constructor. apply not_io_malformed.
Qed.

Lemma open_prog_safe m t : safe false (open_prog m t).
Proof.
  unfold open_prog.
  repeat (first [ apply block_safe
                | apply S_Bind; [|intro]
                | apply S_Wrap
                | apply S_Policy
                | apply S_Ret
                | apply S_Note
                | apply S_Fail; apply not_io_malformed
                | match goal with |- safe _ (if ?b then _ else _) => destruct b end ]).
Qed.

Lemma get_prog_safe ks bad : safe false (get_prog ks bad).
Proof. unfold get_prog. constructor. apply block_safe. Qed.

Lemma drain_prog_safe ks bad : safe false (drain_prog ks bad).
Proof. apply block_safe. Qed.

Lemma decode_prog_safe ks bad : safe false (decode_prog ks bad).
Proof. unfold decode_prog. constructor. apply block_safe. Qed.

Lemma seq_prog_with_safe c tr m t :
  (forall p, safe c p -> safe c (tr p)) -> safe c (seq_prog_with tr m t).
Proof.
  intro Htr. unfold seq_prog_with.
  repeat (first [ apply block_safe
                | apply Htr
                | apply S_Bind; [|intro]
                | apply S_Wrap
                | apply S_Policy
                | apply S_Ret
                | apply S_Fail; apply not_io_malformed
                | match goal with |- safe _ (if ?b then _ else _) => destruct b end ]).
Qed.

Lemma seq_prog_safe m t : safe false (seq_prog m t).
Proof.
  apply seq_prog_with_safe. intros p Hp. apply S_OrElse; [exact Hp|].
  apply S_Fail. apply not_io_other.
Qed.

Lemma seq_prog_preF20_safe_with_catch m t : safe true (seq_prog_preF20 m t).
Proof.
  apply seq_prog_with_safe. intros p Hp. apply S_CatchAll; [reflexivity|exact Hp|].
  intro e. apply S_Fail. apply not_io_other.
Qed.

(* before fix F20 the trailer search of MakeReader lost the error: a two-read
   trace, the one-shot fault on the trailer read *)
Definition seq_witness : qtrace := mkQTrace [KRefill] [KRefill] [] [KRefill] [KRefill] [KRefill] false false false.

Lemma seq_trailer_refuted_lemma :
  outcome_at (seq_prog_preF20 ErrorHandlingRecover seq_witness) OnlyK 2 = OOtherErr /\
  outcome_at (seq_prog ErrorHandlingRecover seq_witness) OnlyK 2 = OIO.
Proof. vm_compute. auto. Qed.

(* why the hypotheses are needed: a catch-all returns different data, a
   reclassification outside a checker blames the file; a latch rescues a
   discarded read error when the scanner is used again *)
Lemma catchall_changes_data :
  outcome_at (CatchAll (ReadAt 0) (fun _ => Ret 0%N)) OnlyK 1 = ODifferent.
Proof. vm_compute. reflexivity. Qed.

Lemma reclass_blames_file :
  outcome_at (Reclass (ReadAt 0)) OnlyK 1 = OMalformed.
Proof. vm_compute. reflexivity. Qed.

Lemma latch_rescues :
  outcome_at (Latch (Bind (CatchAll (ReadAt 0) (fun _ => Ret 0%N)) (fun a => Bind (ReadAt 1) (fun b => Ret (a + b)%N)))) OnlyK 1 = OIO.
Proof. vm_compute. reflexivity. Qed.

(* data together with the error: a short view taken for the end of the input
   (scanner.PeekN before the fix) returns different data; every other decision
   gives the fault-free value or the injected error *)
Definition partial_fault (d : pdec) : fault := mkFault 1 OnlyK inj_id FKPartial (fun _ => d).

Lemma short_taken_breaks :
  fst (eval default_file (Some (partial_fault ShortTaken)) (Latch (ReadAt 0)) st0) = Ok 0%N /\
  fst (eval default_file None (Latch (ReadAt 0)) st0) = Ok 1%N /\
  fst (eval default_file (Some (partial_fault Enough)) (Latch (Bind (ReadAt 0) (fun a => Bind (ReadAt 1) (fun b => Ret (a + b)%N)))) st0) = Err (IO inj_id) /\
  fst (eval default_file (Some (partial_fault Enough)) (Latch (ReadAt 0)) st0) = Ok 1%N /\
  fst (eval default_file (Some (partial_fault Dropped)) (Latch (Bind (ReadAt 0) (fun a => Bind (ReadAt 1) (fun b => Ret (a + b)%N)))) st0) = Ok 3%N.
Proof. vm_compute. auto. Qed.

Lemma nolatch_loses :
  outcome_at (Bind (CatchAll (ReadAt 0) (fun _ => Ret 0%N)) (fun a => Bind (ReadAt 1) (fun b => Ret (a + b)%N))) OnlyK 1 = ODifferent.
Proof. vm_compute. reflexivity. Qed.

(* ---------------------------------------------------------------------- *)
(* statements as they appear in Prop_C19.v *)

Lemma gopdf_programs_covered_lemma :
  forall m t q ks bad,
    safe false (open_prog m t) /\ safe false (get_prog ks bad) /\
    safe false (drain_prog ks bad) /\ safe false (decode_prog ks bad) /\
    safe false (seq_prog m q).
Proof.
  intros. repeat split.
  - apply open_prog_safe.
  - apply get_prog_safe.
  - apply drain_prog_safe.
  - apply decode_prog_safe.
  - apply seq_prog_safe.
Qed.

(* NewReader, SequentialScan+MakeReader, Get, DecodeStream+ReadAll, typed
   decodes: every fault index the fault-free call reaches yields exactly the
   injected error *)
Lemma gopdf_fault_in_range_lemma :
  forall file m t q ks bad f p,
    p = open_prog m t \/ p = seq_prog m q \/ p = get_prog ks bad \/
    p = drain_prog ks bad \/ p = decode_prog ks bad ->
    fkd f = FKErr ->
    (1 <= fk f <= reads (snd (eval file None p st0)))%nat ->
    fst (eval file (Some f) p st0) = Err (IO (fid f)).
Proof.
  intros file m t q ks bad f p Hp Hkd Hk.
  apply fault_in_range_surfaces_lemma; [exact Hkd| |exact Hk].
  destruct Hp as [H|[H|[H|[H|H]]]]; subst p.
  - apply open_prog_safe.
  - apply seq_prog_safe.
  - apply get_prog_safe.
  - apply drain_prog_safe.
  - apply decode_prog_safe.
Qed.

Definition sample_trace : otrace :=
  mkOTrace [KProbe; KRefill] [KProbe; KRefill; KRefill; KBody] [KRefill] [KRefill]
           [KRefill] [KRefill; KLength; KProbe; KProbe] [KRefill] false false false false false.
