(* C19 - proofs about the reader-program language of ErrFlow.v. *)
From Coq Require Import List NArith ZArith Bool Lia.
From GoPdf.Base Require Import Res.
From GoPdf.Gen Require Import Gen_C19.
From GoPdf.C19 Require Import ErrFlow.
Import ListNotations.

(* ---------------------------------------------------------------------- *)
(* the policy table *)

Lemma policy_table_ok_true : policy_table_ok = true.
Proof. vm_compute. reflexivity. Qed.

Lemma policy_kind m ph c : policy m ph c = policy m ph (rep_of (kind_of c)).
Proof. destruct c; reflexivity. Qed.

Lemma policy_table_lemma :
  forall m ph c, In m all_modes -> policy m ph c <> Exit -> c = Malformed.
Proof.
  intros m ph c Hm Hne.
  pose proof policy_table_ok_true as T. unfold policy_table_ok in T.
  rewrite forallb_forall in T. specialize (T m Hm).
  rewrite forallb_forall in T.
  assert (Hph : In ph all_phases) by (destruct ph; cbn; tauto).
  specialize (T ph Hph). rewrite forallb_forall in T.
  assert (Hk : In (kind_of c) all_ckinds) by (destruct c; cbn; tauto).
  specialize (T _ Hk). unfold policy_row_ok in T.
  rewrite <- policy_kind in T.
  destruct (policy m ph c) eqn:E; [congruence| |];
    destruct c; cbn in T; try discriminate; reflexivity.
Qed.

(* independent of the mode: a non-malformed error always exits *)
Lemma policy_nonmalformed m ph c : is_malformed c = false -> policy m ph c = Exit.
Proof.
  intros H. unfold policy, should_exit. rewrite H. cbn. destruct (has_policy ph); reflexivity.
Qed.

Lemma policy_table_preF6_refuted_lemma :
  exists m c, In m all_modes /\ c <> Malformed /\
              (if has_policy PhCatalog then should_exit_preF6 m (is_malformed c) else Exit) <> Exit.
Proof.
  exists ErrorHandlingRecover, (IO 1). split; [cbn; tauto|]. split; [discriminate|].
  vm_compute. discriminate.
Qed.

(* ---------------------------------------------------------------------- *)
(* semantics *)

Section Flow.
  Variable file : N -> val.

  Lemma fires_id f n e : fires (Some f) n = Some e -> e = fid f.
  Proof.
    unfold fires. destruct (fm f).
    - destruct (Nat.leb (fk f) n); intro H; inversion H; reflexivity.
    - destruct (Nat.eqb n (fk f)); intro H; inversion H; reflexivity.
  Qed.

  (* fired and swallowed only ever go from false to true *)
  Lemma mono f p : forall s,
      (fired s = true -> fired (snd (eval file f p s)) = true) /\
      (swallowed s = true -> swallowed (snd (eval file f p s)) = true).
  Proof.
    induction p as [v|c|off|p IHp k IHk|l p IHp|p IHp d|m ph p IHp d|v|p IHp|p IHp|p IHp|p IHp h IHh|p IHp h IHh];
      intros s; cbn [eval].
    - cbn; tauto.
    - cbn; tauto.
    - destruct (lat s); try (destruct (fires f (S (reads s))); cbn; tauto); cbn; tauto.
    - specialize (IHp s). destruct (eval file f p s) as [[v|c] s']; cbn [snd] in *.
      + specialize (IHk v s'). tauto.
      + tauto.
    - apply IHp.
    - specialize (IHp s). destruct (eval file f p s) as [[v|c] s']; cbn [snd] in *; [tauto|].
      destruct c; cbn [snd]; tauto.
    - specialize (IHp s). destruct (eval file f p s) as [[v|c] s']; cbn [snd] in *; [tauto|].
      destruct (policy m ph c); cbn; tauto.
    - cbn; tauto.
    - specialize (IHp (set_lat s Armed)). destruct (eval file f p (set_lat s Armed)) as [r s'].
      cbn in *. tauto.
    - specialize (IHp (set_chk s (Some None))). destruct (eval file f p (set_chk s (Some None))) as [r s'].
      cbn [snd] in IHp.
      destruct r as [v|c]; [cbn in *; tauto|].
      destruct (chk s') as [[e|]|]; cbn in *; tauto.
    - specialize (IHp s). destruct (eval file f p s) as [[v|c] s']; cbn [snd] in *; tauto.
    - specialize (IHp s). destruct (eval file f p s) as [[v|c] s']; cbn [snd] in *; [tauto|].
      destruct c; cbn [snd]; try tauto; specialize (IHh s'); tauto.
    - specialize (IHp s). destruct (eval file f p s) as [[v|c] s']; cbn [snd] in *; [tauto|].
      specialize (IHh c (set_swallowed s')). cbn in IHh.
      split; intro H.
      + apply IHh. tauto.
      + apply IHh. rewrite (proj2 IHp H). apply orb_true_r.
  Qed.

  Lemma fired_mono f p s : fired s = true -> fired (snd (eval file f p s)) = true.
  Proof. apply mono. Qed.
  Lemma swallowed_mono f p s : swallowed s = true -> swallowed (snd (eval file f p s)) = true.
  Proof. apply mono. Qed.

  Lemma fired_back f p s : fired (snd (eval file f p s)) = false -> fired s = false.
  Proof.
    intro H. destruct (fired s) eqn:E; [|reflexivity].
    rewrite (fired_mono f p s E) in H. discriminate.
  Qed.

  (* as long as the fault has not fired the run is the fault-free run *)
  Lemma no_fire_same f p : forall s,
      fired (snd (eval file (Some f) p s)) = false ->
      eval file (Some f) p s = eval file None p s.
  Proof.
    induction p as [v|c|off|p IHp k IHk|l p IHp|p IHp d|m ph p IHp d|v|p IHp|p IHp|p IHp|p IHp h IHh|p IHp h IHh];
      intros s; cbn [eval]; try reflexivity.
    - destruct (lat s); try reflexivity;
        (destruct (fires (Some f) (S (reads s))) eqn:E; [cbn; discriminate| reflexivity]).
    - intro H.
      assert (H1 : fired (snd (eval file (Some f) p s)) = false).
      { destruct (eval file (Some f) p s) as [[v|c] s'] eqn:E; cbn [snd] in *.
        - eapply fired_back. exact H.
        - exact H. }
      rewrite <- (IHp s H1).
      destruct (eval file (Some f) p s) as [[v|c] s']; cbn [snd] in *; [|reflexivity].
      apply IHk. exact H.
    - apply IHp.
    - intro H.
      assert (H1 : fired (snd (eval file (Some f) p s)) = false).
      { destruct (eval file (Some f) p s) as [[v|c] s']; cbn [snd] in *; [exact H|].
        destruct c; exact H. }
      rewrite <- (IHp s H1). reflexivity.
    - intro H.
      assert (H1 : fired (snd (eval file (Some f) p s)) = false).
      { destruct (eval file (Some f) p s) as [[v|c] s']; cbn [snd] in *; [exact H|].
        destruct (policy m ph c); exact H. }
      rewrite <- (IHp s H1). reflexivity.
    - intro H.
      assert (H1 : fired (snd (eval file (Some f) p (set_lat s Armed))) = false).
      { destruct (eval file (Some f) p (set_lat s Armed)) as [r s']; exact H. }
      rewrite <- (IHp _ H1). reflexivity.
    - intro H.
      assert (H1 : fired (snd (eval file (Some f) p (set_chk s (Some None)))) = false).
      { destruct (eval file (Some f) p (set_chk s (Some None))) as [r s']; cbn [snd] in *.
        destruct r as [v|c]; [exact H|]. destruct (chk s') as [[e|]|]; exact H. }
      rewrite <- (IHp _ H1). reflexivity.
    - intro H.
      assert (H1 : fired (snd (eval file (Some f) p s)) = false).
      { destruct (eval file (Some f) p s) as [[v|c] s']; exact H. }
      rewrite <- (IHp s H1). reflexivity.
    - intro H.
      assert (H1 : fired (snd (eval file (Some f) p s)) = false).
      { destruct (eval file (Some f) p s) as [[v|c] s'] eqn:E; cbn [snd] in *; [exact H|].
        destruct c; try exact H; eapply fired_back; exact H. }
      rewrite <- (IHp s H1).
      destruct (eval file (Some f) p s) as [[v|c] s']; cbn [snd] in *; [reflexivity|].
      destruct c; try reflexivity; apply IHh; exact H.
    - intro H.
      assert (H1 : fired (snd (eval file (Some f) p s)) = false).
      { destruct (eval file (Some f) p s) as [[v|c] s'] eqn:E; cbn [snd] in *; [exact H|].
        apply fired_back in H. exact H. }
      rewrite <- (IHp s H1).
      destruct (eval file (Some f) p s) as [[v|c] s']; cbn [snd] in *; [reflexivity|].
      apply IHh. exact H.
  Qed.

  (* fault-free runs never touch the checker record *)
  Lemma clean_chk p : wsafe p -> forall s, chk (snd (eval file None p s)) = chk s.
  Proof.
    induction 1 as [v|c Hc|off|p k Hp IHp Hk IHk|l p Hp IHp|p Hp IHp|p Hp IHp]; intros s; cbn [eval]; try reflexivity.
    - destruct (lat s); reflexivity.
    - specialize (IHp s). destruct (eval file None p s) as [[v|c] s']; cbn [snd] in *; [|exact IHp].
      rewrite IHk. exact IHp.
    - apply IHp.
    - specialize (IHp (set_lat s Armed)). destruct (eval file None p (set_lat s Armed)) as [r s'].
      cbn in *. exact IHp.
    - specialize (IHp s). destruct (eval file None p s) as [[v|c] s']; exact IHp.
  Qed.

  (* inside a DecodeStream chain: once the fault has fired, the chain reports an
     error and the checker holds the injected error *)
  Lemma weak_surfacing f p : wsafe p -> forall s,
      fired s = false -> chk s = Some None ->
      fired (snd (eval file (Some f) p s)) = true ->
      (exists c, fst (eval file (Some f) p s) = Err c) /\
      chk (snd (eval file (Some f) p s)) = Some (Some (fid f)).
  Proof.
    induction 1 as [v|c Hc|off|p k Hp IHp Hk IHk|l p Hp IHp|p Hp IHp|p Hp IHp];
      intros s Hf Hc0; cbn [eval].
    - cbn. congruence.
    - cbn. congruence.
    - destruct (lat s) eqn:El.
      + destruct (fires (Some f) (S (reads s))) eqn:E; cbn; [|congruence].
        intros _. apply fires_id in E. subst n. rewrite Hc0. split; eauto.
      + destruct (fires (Some f) (S (reads s))) eqn:E; cbn; [|congruence].
        intros _. apply fires_id in E. subst n. rewrite Hc0. split; eauto.
      + cbn. congruence.
    - specialize (IHp s Hf Hc0).
      pose proof (no_fire_same f p s) as NF.
      pose proof (clean_chk p Hp s) as CC.
      destruct (eval file (Some f) p s) as [[v|c] s'] eqn:E; cbn [fst snd] in *.
      + destruct (fired s') eqn:Fs'.
        * destruct (IHp eq_refl) as [[c Hc] _]. discriminate.
        * intro H. apply IHk; [exact Fs'| |exact H].
          rewrite <- (NF eq_refl) in CC. cbn in CC. congruence.
      + intro H. destruct (IHp H) as [_ Hk']. split; eauto.
    - apply IHp; assumption.
    - specialize (IHp (set_lat s Armed) Hf Hc0).
      destruct (eval file (Some f) p (set_lat s Armed)) as [r s']. cbn in *. exact IHp.
    - specialize (IHp s Hf Hc0).
      destruct (eval file (Some f) p s) as [[v|c] s']; cbn [fst snd] in *; [exact IHp|].
      intro H. destruct (IHp H) as [_ Hk']. split; eauto.
  Qed.

  (* the general statement: once the fault has fired, the call returns the
     injected error - unless a catch-all construct swallowed an error *)
  Lemma strong_surfacing f c p : safe c p -> forall s,
      fired s = false ->
      fired (snd (eval file (Some f) p s)) = true ->
      fst (eval file (Some f) p s) = Err (IO (fid f)) \/
      swallowed (snd (eval file (Some f) p s)) = true.
  Proof.
    induction 1 as [v|e He|off|p k Hp IHp Hk IHk|l p Hp IHp|p d Hp IHp|m ph p d Hp IHp|v|p Hp IHp|p Hp|p h Hp IHp Hh IHh|p h Hc Hp IHp Hh IHh];
      intros s Hf; cbn [eval].
    - cbn. congruence.
    - cbn. congruence.
    - destruct (lat s) eqn:El.
      + destruct (fires (Some f) (S (reads s))) eqn:E; cbn; [|congruence].
        intros _. apply fires_id in E. subst n. left; reflexivity.
      + destruct (fires (Some f) (S (reads s))) eqn:E; cbn; [|congruence].
        intros _. apply fires_id in E. subst n. left; reflexivity.
      + cbn. congruence.
    - specialize (IHp s Hf).
      destruct (eval file (Some f) p s) as [[v|e] s'] eqn:E; cbn [fst snd] in *.
      + destruct (fired s') eqn:Fs'.
        * destruct (IHp eq_refl) as [H1|H1]; [discriminate|].
          intros _. right. apply swallowed_mono. exact H1.
        * apply IHk. exact Fs'.
      + exact IHp.
    - apply IHp; assumption.
    - specialize (IHp s Hf).
      destruct (eval file (Some f) p s) as [[v|e] s']; cbn [fst snd] in *; [exact IHp|].
      destruct e; cbn [fst snd]; try exact IHp.
      intro H. destruct (IHp H) as [H1|H1]; [discriminate|right; exact H1].
    - specialize (IHp s Hf).
      destruct (eval file (Some f) p s) as [[v|e] s']; cbn [fst snd] in *; [exact IHp|].
      destruct (policy m ph e) eqn:Ep; cbn [fst snd]; try exact IHp.
      + intro H. destruct (IHp H) as [H1|H1]; [|right; exact H1].
        inversion H1; subst e. rewrite policy_nonmalformed in Ep by reflexivity. discriminate.
      + intro H. destruct (IHp H) as [H1|H1]; [|right; exact H1].
        inversion H1; subst e. rewrite policy_nonmalformed in Ep by reflexivity. discriminate.
    - cbn. congruence.
    - specialize (IHp (set_lat s Armed) Hf).
      destruct (eval file (Some f) p (set_lat s Armed)) as [r s']. cbn in *. exact IHp.
    - pose proof (weak_surfacing f p Hp (set_chk s (Some None)) Hf eq_refl) as W.
      destruct (eval file (Some f) p (set_chk s (Some None))) as [r s']. cbn [fst snd] in W.
      intro H.
      assert (Hs' : fired s' = true).
      { destruct r as [v|e]; [exact H|]. destruct (chk s') as [[x|]|]; exact H. }
      destruct (W Hs') as [[e He] Hk']. subst r. rewrite Hk'. left; reflexivity.
    - specialize (IHp s Hf).
      destruct (eval file (Some f) p s) as [[v|e] s'] eqn:E; cbn [fst snd] in *; [exact IHp|].
      destruct e; cbn [fst snd]; try exact IHp;
        (destruct (fired s') eqn:Fs';
         [ destruct (IHp eq_refl) as [H1|H1]; [discriminate|];
           intros _; right; apply swallowed_mono; exact H1
         | apply IHh; exact Fs' ]).
    - specialize (IHp s Hf).
      destruct (eval file (Some f) p s) as [[v|e] s'] eqn:E; cbn [fst snd] in *; [exact IHp|].
      destruct (fired s') eqn:Fs'.
      + intros _. right. apply swallowed_mono. cbn. rewrite Fs'. reflexivity.
      + apply IHh. cbn. exact Fs'.
  Qed.

  (* programs without a catch-all never set the swallowed flag *)
  Lemma wsafe_swallowed f p : wsafe p -> forall s, swallowed (snd (eval file f p s)) = swallowed s.
  Proof.
    induction 1 as [v|c Hc|off|p k Hp IHp Hk IHk|l p Hp IHp|p Hp IHp|p Hp IHp]; intros s; cbn [eval]; try reflexivity.
    - destruct (lat s); try reflexivity; destruct (fires f (S (reads s))); reflexivity.
    - specialize (IHp s). destruct (eval file f p s) as [[v|c] s']; cbn [snd] in *; [|exact IHp].
      rewrite IHk. exact IHp.
    - apply IHp.
    - specialize (IHp (set_lat s Armed)). destruct (eval file f p (set_lat s Armed)) as [r s']. cbn in *. exact IHp.
    - specialize (IHp s). destruct (eval file f p s) as [[v|c] s']; exact IHp.
  Qed.

  Lemma safe_swallowed f p : safe false p -> forall s, swallowed (snd (eval file f p s)) = swallowed s.
  Proof.
    induction 1 as [v|e He|off|p k Hp IHp Hk IHk|l p Hp IHp|p d Hp IHp|m ph p d Hp IHp|v|p Hp IHp|p Hp|p h Hp IHp Hh IHh|p h Hc Hp IHp Hh IHh];
      intros s; cbn [eval]; try reflexivity.
    - destruct (lat s); try reflexivity; destruct (fires f (S (reads s))); reflexivity.
    - specialize (IHp s). destruct (eval file f p s) as [[v|e] s']; cbn [snd] in *; [|exact IHp].
      rewrite IHk. exact IHp.
    - apply IHp.
    - specialize (IHp s). destruct (eval file f p s) as [[v|e] s']; cbn [snd] in *; [exact IHp|].
      destruct e; exact IHp.
    - specialize (IHp s). destruct (eval file f p s) as [[v|e] s']; cbn [snd] in *; [exact IHp|].
      destruct (policy m ph e); exact IHp.
    - specialize (IHp (set_lat s Armed)). destruct (eval file f p (set_lat s Armed)) as [r s']. cbn in *. exact IHp.
    - pose proof (wsafe_swallowed f p Hp (set_chk s (Some None))) as W.
      destruct (eval file f p (set_chk s (Some None))) as [r s']. cbn [snd] in *.
      destruct r as [v|e]; [exact W|]. destruct (chk s') as [[x|]|]; exact W.
    - specialize (IHp s). destruct (eval file f p s) as [[v|e] s']; cbn [snd] in *; [exact IHp|].
      destruct e; try exact IHp; rewrite IHh; exact IHp.
    - discriminate.
  Qed.

  (* an un-fired run has made fewer than k source calls *)
  Lemma unfired_reads f p : forall s,
      (reads s < fk f)%nat ->
      fired (snd (eval file (Some f) p s)) = false ->
      (reads (snd (eval file (Some f) p s)) < fk f)%nat.
  Proof.
    induction p as [v|c|off|p IHp k IHk|l p IHp|p IHp d|m ph p IHp d|v|p IHp|p IHp|p IHp|p IHp h IHh|p IHp h IHh];
      intros s Hr; cbn [eval]; try (cbn; intros; assumption).
    - destruct (lat s); try (cbn; intros; assumption).
      + unfold fires. destruct (fm f).
        * destruct (Nat.leb (fk f) (S (reads s))) eqn:E; cbn; [discriminate|].
          intros _. apply Nat.leb_gt in E. exact E.
        * destruct (Nat.eqb (S (reads s)) (fk f)) eqn:E; cbn; [discriminate|].
          intros _. apply Nat.eqb_neq in E. lia.
      + unfold fires. destruct (fm f).
        * destruct (Nat.leb (fk f) (S (reads s))) eqn:E; cbn; [discriminate|].
          intros _. apply Nat.leb_gt in E. exact E.
        * destruct (Nat.eqb (S (reads s)) (fk f)) eqn:E; cbn; [discriminate|].
          intros _. apply Nat.eqb_neq in E. lia.
    - specialize (IHp s Hr). pose proof (fired_back (Some f)) as FB.
      destruct (eval file (Some f) p s) as [[v|c] s'] eqn:E; cbn [snd] in *.
      + intro H. apply IHk; [|exact H]. apply IHp. eapply FB. exact H.
      + exact IHp.
    - apply IHp; assumption.
    - specialize (IHp s Hr).
      destruct (eval file (Some f) p s) as [[v|c] s']; cbn [snd] in *; [exact IHp|].
      destruct c; exact IHp.
    - specialize (IHp s Hr).
      destruct (eval file (Some f) p s) as [[v|c] s']; cbn [snd] in *; [exact IHp|].
      destruct (policy m ph c); exact IHp.
    - specialize (IHp (set_lat s Armed) Hr).
      destruct (eval file (Some f) p (set_lat s Armed)) as [r s']. cbn in *. exact IHp.
    - specialize (IHp (set_chk s (Some None)) Hr).
      destruct (eval file (Some f) p (set_chk s (Some None))) as [r s']. cbn [snd] in *.
      destruct r as [v|c]; [exact IHp|]. destruct (chk s') as [[x|]|]; exact IHp.
    - specialize (IHp s Hr).
      destruct (eval file (Some f) p s) as [[v|c] s']; exact IHp.
    - specialize (IHp s Hr). pose proof (fired_back (Some f)) as FB.
      destruct (eval file (Some f) p s) as [[v|c] s'] eqn:E; cbn [snd] in *; [exact IHp|].
      destruct c; try exact IHp; (intro H; apply IHh; [|exact H]; apply IHp; eapply FB; exact H).
    - specialize (IHp s Hr). pose proof (fired_back (Some f)) as FB.
      destruct (eval file (Some f) p s) as [[v|c] s'] eqn:E; cbn [snd] in *; [exact IHp|].
      intro H. apply IHh; [|exact H].
      apply FB in H. cbn in H. apply IHp in H. exact H.
  Qed.

  (* ---- the theorems ---------------------------------------------------- *)

  Lemma fault_surfaces_unless_swallowed_lemma : forall c p f s,
      safe c p -> fired s = false ->
      eval file (Some f) p s = eval file None p s \/
      fst (eval file (Some f) p s) = Err (IO (fid f)) \/
      swallowed (snd (eval file (Some f) p s)) = true.
  Proof.
    intros c p f s Hs Hf.
    destruct (fired (snd (eval file (Some f) p s))) eqn:E.
    - right. eapply strong_surfacing; eassumption.
    - left. apply no_fire_same. exact E.
  Qed.

  Lemma fault_surfaces_lemma : forall p f s,
      safe false p -> fired s = false -> swallowed s = false ->
      eval file (Some f) p s = eval file None p s \/
      fst (eval file (Some f) p s) = Err (IO (fid f)).
  Proof.
    intros p f s Hs Hf Hw.
    destruct (fault_surfaces_unless_swallowed_lemma false p f s Hs Hf) as [H|[H|H]]; [tauto|tauto|].
    rewrite safe_swallowed in H by assumption. congruence.
  Qed.

  (* every fault index that the fault-free run reaches yields the injected error *)
  Lemma fault_in_range_surfaces_lemma : forall p f,
      safe false p ->
      (1 <= fk f <= reads (snd (eval file None p st0)))%nat ->
      fst (eval file (Some f) p st0) = Err (IO (fid f)).
  Proof.
    intros p f Hs [Hk1 Hk2].
    destruct (fired (snd (eval file (Some f) p st0))) eqn:E.
    - destruct (strong_surfacing f false p Hs st0 eq_refl E) as [H|H]; [exact H|].
      rewrite safe_swallowed in H by assumption. discriminate.
    - exfalso.
      pose proof (unfired_reads f p st0) as U. cbn [reads st0] in U.
      specialize (U ltac:(lia) E).
      rewrite (no_fire_same f p st0 E) in U. lia.
  Qed.
End Flow.

(* ---------------------------------------------------------------------- *)
(* go-pdf's programs are covered *)

Lemma not_io_malformed : not_io Malformed.
Proof. intros e; discriminate. Qed.
Lemma not_io_other : not_io Other.
Proof. intros e; discriminate. Qed.

Lemma read_one_safe c k i : safe c (read_one k i).
Proof.
  destruct k; cbn; repeat constructor.
Qed.

Lemma reads_from_safe c ks : forall i acc, safe c (reads_from ks i acc).
Proof.
  induction ks as [|k ks IH]; intros i acc; cbn.
  - constructor.
  - constructor; [apply read_one_safe|]. intro v. apply IH.
Qed.

Lemma block_safe c ks bad i : safe c (block ks bad i).
Proof.
  unfold block. constructor; [apply reads_from_safe|].
  intro v. destruct bad; constructor. apply not_io_malformed.
Qed.

Lemma open_prog_safe m t : safe false (open_prog m t).
Proof.
  unfold open_prog.
  repeat (first [ apply block_safe
                | apply S_Bind; [|intro]
                | apply S_Wrap
                | apply S_Policy
                | apply S_Ret
                | apply S_Note
                | apply S_Fail; apply not_io_malformed
                | match goal with |- safe _ (if ?b then _ else _) => destruct b end ]).
Qed.

Lemma get_prog_safe ks bad : safe false (get_prog ks bad).
Proof. unfold get_prog. constructor. apply block_safe. Qed.

Lemma drain_prog_safe ks bad : safe false (drain_prog ks bad).
Proof. apply block_safe. Qed.

Lemma decode_prog_safe ks bad : safe false (decode_prog ks bad).
Proof. unfold decode_prog. constructor. apply block_safe. Qed.

Lemma seq_prog_with_safe c tr m t :
  (forall p, safe c p -> safe c (tr p)) -> safe c (seq_prog_with tr m t).
Proof.
  intro Htr. unfold seq_prog_with.
  repeat (first [ apply block_safe
                | apply Htr
                | apply S_Bind; [|intro]
                | apply S_Wrap
                | apply S_Policy
                | apply S_Ret
                | apply S_Fail; apply not_io_malformed
                | match goal with |- safe _ (if ?b then _ else _) => destruct b end ]).
Qed.

Lemma seq_prog_safe m t : safe false (seq_prog m t).
Proof.
  apply seq_prog_with_safe. intros p Hp. apply S_OrElse; [exact Hp|].
  apply S_Fail. apply not_io_other.
Qed.

Lemma seq_prog_preF20_safe_with_catch m t : safe true (seq_prog_preF20 m t).
Proof.
  apply seq_prog_with_safe. intros p Hp. apply S_CatchAll; [reflexivity|exact Hp|].
  intro e. apply S_Fail. apply not_io_other.
Qed.

(* before fix F20 the trailer search of MakeReader lost the error: a two-read
   trace, the one-shot fault on the trailer read *)
Definition seq_witness : qtrace := mkQTrace [KRefill] [KRefill] [] [KRefill] [KRefill] [KRefill] false false false.

Lemma seq_trailer_refuted_lemma :
  outcome_at (seq_prog_preF20 ErrorHandlingRecover seq_witness) OnlyK 2 = OOtherErr /\
  outcome_at (seq_prog ErrorHandlingRecover seq_witness) OnlyK 2 = OIO.
Proof. vm_compute. auto. Qed.

(* why the hypotheses are needed: a catch-all returns different data, a
   reclassification outside a checker blames the file; a latch rescues a
   discarded read error when the scanner is used again *)
Lemma catchall_changes_data :
  outcome_at (CatchAll (ReadAt 0) (fun _ => Ret 0%N)) OnlyK 1 = ODifferent.
Proof. vm_compute. reflexivity. Qed.

Lemma reclass_blames_file :
  outcome_at (Reclass (ReadAt 0)) OnlyK 1 = OMalformed.
Proof. vm_compute. reflexivity. Qed.

Lemma latch_rescues :
  outcome_at (Latch (Bind (CatchAll (ReadAt 0) (fun _ => Ret 0%N)) (fun a => Bind (ReadAt 1) (fun b => Ret (a + b)%N)))) OnlyK 1 = OIO.
Proof. vm_compute. reflexivity. Qed.

Lemma nolatch_loses :
  outcome_at (Bind (CatchAll (ReadAt 0) (fun _ => Ret 0%N)) (fun a => Bind (ReadAt 1) (fun b => Ret (a + b)%N))) OnlyK 1 = ODifferent.
Proof. vm_compute. reflexivity. Qed.

(* ---------------------------------------------------------------------- *)
(* statements as they appear in Prop_C19.v *)

Lemma gopdf_programs_covered_lemma :
  forall m t q ks bad,
    safe false (open_prog m t) /\ safe false (get_prog ks bad) /\
    safe false (drain_prog ks bad) /\ safe false (decode_prog ks bad) /\
    safe false (seq_prog m q).
Proof.
  intros. repeat split.
  - apply open_prog_safe.
  - apply get_prog_safe.
  - apply drain_prog_safe.
  - apply decode_prog_safe.
  - apply seq_prog_safe.
Qed.

(* NewReader, SequentialScan+MakeReader, Get, DecodeStream+ReadAll, typed
   decodes: every fault index the fault-free call reaches yields exactly the
   injected error *)
Lemma gopdf_fault_in_range_lemma :
  forall file m t q ks bad f p,
    p = open_prog m t \/ p = seq_prog m q \/ p = get_prog ks bad \/
    p = drain_prog ks bad \/ p = decode_prog ks bad ->
    (1 <= fk f <= reads (snd (eval file None p st0)))%nat ->
    fst (eval file (Some f) p st0) = Err (IO (fid f)).
Proof.
  intros file m t q ks bad f p Hp Hk.
  apply fault_in_range_surfaces_lemma; [|exact Hk].
  destruct Hp as [H|[H|[H|[H|H]]]]; subst p.
  - apply open_prog_safe.
  - apply seq_prog_safe.
  - apply get_prog_safe.
  - apply drain_prog_safe.
  - apply decode_prog_safe.
Qed.

Definition sample_trace : otrace :=
  mkOTrace [KProbe; KRefill] [KProbe; KRefill; KRefill; KBody] [KRefill] [KRefill]
           [KRefill] [KRefill; KLength; KProbe; KProbe] [KRefill] false false false false false.
