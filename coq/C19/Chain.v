(* C19 - the error path of a decoded stream (container.go, filter.go):

     streamReader -> sourceErrChecker -> filter layers -> sourceAwareReader

   The layers are ARBITRARY: a layer stack is any state machine that, for one
   Read call of its consumer, performs any finite number of Read calls on the
   checked source and then returns some data and possibly some error.
   Definitions only; proofs in ChainProofs.v. *)
From Coq Require Import List NArith Bool.
From GoPdf.Base Require Import Res.
From GoPdf.C19 Require Import ErrFlow.
Import ListNotations.

(* what one io.Reader.Read call returns: the bytes and the error (if any) *)
Definition rres := (list N * option cls)%type.

(* the raw source: the result of its i-th Read call (0-based) *)
Definition source := nat -> rres.

Definition is_eof (c : cls) : bool := match c with EOF => true | _ => false end.

(* sourceErrChecker.Read: `if err != nil && !errors.Is(err, io.EOF) && s.srcErr == nil { s.srcErr = err }` *)
Definition chk_update (srcErr : option cls) (r : rres) : option cls :=
  match srcErr with
  | Some _ => srcErr
  | None => match snd r with
            | Some c => if is_eof c then None else Some c
            | None => None
            end
  end.

(* [is_eof] is the comparison `err == io.EOF`: the class EOF stands for the value
   io.EOF itself.  A failure of the source whose error merely wraps io.EOF, or
   whose Is method answers io.EOF, is an ordinary source error (some [IO id]);
   nothing in these definitions can tell such an id from any other.  The checker
   as it was before fix F59 used errors.Is(err, io.EOF); [chk_update_is] is that
   variant, with the set of source errors that errors.Is takes for io.EOF as a
   parameter. *)
Definition chk_update_is (eofish : cls -> bool) (srcErr : option cls) (r : rres) : option cls :=
  match srcErr with
  | Some _ => srcErr
  | None => match snd r with
            | Some c => if is_eof c || eofish c then None else Some c
            | None => None
            end
  end.

Record cstate := mkC { ccalls : nat; srcErr : option cls }.
Definition c0 : cstate := mkC 0 None.

(* the reaction of a layer stack with state S to one Read call *)
Inductive itree (S : Type) : Type :=
| Done (s : S) (out : rres)
| Ask (k : rres -> itree S).
Arguments Done {S} s out.
Arguments Ask {S} k.

Fixpoint run_tree {S : Type} (src : source) (t : itree S) (c : cstate) : S * rres * cstate :=
  match t with
  | Done s out => (s, out, c)
  | Ask k =>
      let r := src (ccalls c) in
      run_tree src (k r) (mkC (Datatypes.S (ccalls c)) (chk_update (srcErr c) r))
  end.

(* sourceAwareReader.Read: `if err != nil && s.src.srcErr != nil { err = s.src.srcErr }` *)
Definition sa_read {S : Type} (src : source) (layer : S -> itree S) (s : S) (c : cstate) : S * rres * cstate :=
  let '(s', out, c') := run_tree src (layer s) c in
  match snd out, srcErr c' with
  | Some _, Some e => (s', (fst out, Some e), c')
  | _, _ => (s', out, c')
  end.

(* n successive Read calls of the consumer *)
Fixpoint run_reads {S : Type} (src : source) (layer : S -> itree S) (n : nat) (s : S) (c : cstate)
  : list (rres * cstate) :=
  match n with
  | O => []
  | Datatypes.S n' =>
      let '(s', out, c') := sa_read src layer s c in
      (out, c') :: run_reads src layer n' s' c'
  end.

(* the first non-EOF error among the first m source calls *)
Fixpoint first_err (src : source) (m : nat) : option cls :=
  match m with
  | O => None
  | Datatypes.S m' =>
      match first_err src m' with
      | Some e => Some e
      | None => match snd (src m') with
                | Some c => if is_eof c then None else Some c
                | None => None
                end
      end
  end.

(* DecodeStream while the chain is built: `return nil, src.promote(err)` *)
Definition promote_ctor (srcErr : option cls) (err : cls) : cls :=
  match srcErr with Some e => e | None => err end.

(* io.ReadAll on the result of DecodeStream *)
Fixpoint read_all {S : Type} (src : source) (layer : S -> itree S) (fuel : nat) (s : S) (c : cstate) (acc : list N)
  : res (list N) * cstate :=
  match fuel with
  | O => (Err OutOfFuel, c)
  | Datatypes.S fuel' =>
      let '(s', out, c') := sa_read src layer s c in
      let acc' := rev_append (fst out) acc in        (* most recent byte first *)
      match snd out with
      | None => read_all src layer fuel' s' c' acc'
      | Some EOF => (Ok (rev acc'), c')
      | Some e => (Err e, c')
      end
  end.

(* ---------------------------------------------------------------------- *)
(* concrete layer stacks used by the correspondence run *)

(* the source of a stream body of n chunks under a fault schedule *)
Definition src_of_fault (n : nat) (f : option fault) : source :=
  fun i =>
    if Nat.ltb i n then
      match fires f (Datatypes.S i) with
      | Some e => ([], Some (IO e))
      | None => ([1%N], None)      (* one chunk; a truncated result is shorter *)
      end
    else ([], Some EOF).

(* filterContentReader over a pass-through decoder *)
Definition layer_reclass (s : unit) : itree unit :=
  Ask (fun r => Done tt (fst r, match snd r with Some c => Some (reclass c) | None => None end)).

(* a decoder that takes a failing read for the end of its input *)
Definition layer_eofify (s : unit) : itree unit :=
  Ask (fun r => Done tt (fst r, match snd r with Some _ => Some EOF | None => None end)).

(* a buffering decoder: reads twice per call; an error on the second read is
   held back and delivered (reclassified) by the next call *)
Definition layer_buffered (s : option cls) : itree (option cls) :=
  match s with
  | Some c => Done (Some c) ([], Some (reclass c))
  | None =>
      Ask (fun r1 =>
        match snd r1 with
        | Some c => Done (Some c) (fst r1, Some (reclass c))
        | None =>
            Ask (fun r2 =>
              match snd r2 with
              | Some c => Done (Some c) (fst r1 ++ fst r2, None)
              | None => Done None (fst r1 ++ fst r2, None)
              end)
        end)
  end.

Definition res_list_eqb (a b : res (list N)) : bool :=
  match a, b with
  | Ok x, Ok y => if list_eq_dec N.eq_dec x y then true else false
  | Err c, Err d => res_eqb (Err c) (Err d)
  | _, _ => false
  end.

Definition chain_classify (clean got : res (list N)) : outcome :=
  if res_list_eqb clean got then OSame
  else match got with
       | Ok _ => ODifferent
       | Err Malformed => OMalformed
       | Err (IO e) => if N.eqb e inj_id then OIO else OOtherErr
       | Err _ => OOtherErr
       end.

Definition chain_outcomes_with {S : Type} (layer : S -> itree S) (s0 : S) (n : nat) (fmd : fmode) : list outcome :=
  let fuel := Datatypes.S (Datatypes.S (n + n)) in
  let clean := fst (read_all (src_of_fault n None) layer fuel s0 c0 []) in
  map (fun k => chain_classify clean
                 (fst (read_all (src_of_fault n (Some (plain_fault k fmd inj_id))) layer fuel s0 c0 [])))
      (seq 1 n).

(* the three stacks must agree; otherwise OOtherErr *)
Definition agree3 (a b c : outcome) : outcome :=
  match a, b, c with
  | OIO, OIO, OIO => OIO
  | OSame, OSame, OSame => OSame
  | _, _, _ => OOtherErr
  end.

Fixpoint zip3 (a b c : list outcome) : list outcome :=
  match a, b, c with
  | x :: a', y :: b', z :: c' => agree3 x y z :: zip3 a' b' c'
  | _, _, _ => []
  end.

(* outcomes for k = 1 .. n of a body of n reads *)
Definition chain_outcomes (n : nat) (fmd : fmode) : list outcome :=
  zip3 (chain_outcomes_with layer_reclass tt n fmd)
       (chain_outcomes_with layer_eofify tt n fmd)
       (chain_outcomes_with layer_buffered None n fmd).

(* ---------------------------------------------------------------------- *)
(* table-driven layer stacks: the correspondence run drives the real
   sourceErrChecker / sourceAwareReader (through the verif hook
   VerifSourceAwareChain) with the same tables *)

Inductive lmode :=
| LPass    (* return the first source error of this call as it is *)
| LNil     (* swallow it *)
| LEof     (* report end of data instead *)
| LMal     (* reclassify it as filterContentReader does *)
| LDelay.  (* return the data now and the error on the next call *)

Definition apply_mode (m : lmode) (e : option cls) : option cls :=
  match e with
  | None => None
  | Some c =>
      match m with
      | LPass => Some c
      | LNil => None
      | LEof => Some EOF
      | LMal => Some (reclass c)
      | LDelay => None
      end
  end.

Definition deliver (m : lmode) (c : cls) : option cls :=
  match m with LDelay => Some c | _ => apply_mode m (Some c) end.

(* n reads of the source: all data, the first error *)
Fixpoint ask_n {S : Type} (n : nat) (data : list N) (e : option cls)
         (fin : list N -> option cls -> itree S) : itree S :=
  match n with
  | O => fin data e
  | Datatypes.S n' =>
      Ask (fun r => ask_n n' (data ++ fst r) (match e with Some _ => e | None => snd r end) fin)
  end.

Definition tstate := (list (nat * lmode) * option cls)%type.

Definition layer_table (s : tstate) : itree tstate :=
  match s with
  | ([], _) => Done ([], None) ([], Some EOF)
  | ((n, m) :: tbl, Some c) => Done (tbl, None) ([], deliver m c)
  | ((n, m) :: tbl, None) =>
      ask_n n [] None
            (fun data e => Done (tbl, match m with LDelay => e | _ => None end) (data, apply_mode m e))
  end.

Definition src_of_list (l : list rres) : source := fun i => nth i l ([], Some EOF).

(* what the consumer sees for each of ncalls Read calls *)
Definition table_run (l : list rres) (tbl : list (nat * lmode)) (ncalls : nat) : list rres :=
  map fst (run_reads (src_of_list l) layer_table ncalls (tbl, None) c0).

(* DecodeStream failing while the chain is built, after n source reads *)
Fixpoint chk_after (src : source) (n : nat) (c : cstate) : cstate :=
  match n with
  | O => c
  | Datatypes.S n' => chk_after src n' (mkC (Datatypes.S (ccalls c)) (chk_update (srcErr c) (src (ccalls c))))
  end.

Definition promote_run (l : list rres) (n : nat) (err : cls) : cls :=
  promote_ctor (srcErr (chk_after (src_of_list l) n c0)) err.
