(* C19 - proofs about the writing side (Sink.v). *)
From Coq Require Import List NArith Bool Lia Arith PeanoNat.
From GoPdf.Base Require Import Res.
From GoPdf.C19 Require Import ErrFlow ErrFlowProofs Sink.
Import ListNotations.

Section SinkFlow.
  Variable f : fault.
  Let e := fid f.

  (* what one sink call can do *)
  Definition raw_spec (s : wst) (r : option N) (s' : wst) : Prop :=
    berr s' = berr s /\ buffered s' = buffered s /\
    ((r = None /\ sfired s' = sfired s) \/ (r = Some e /\ sfired s' = true)).

  Lemma sink_call_spec c s : raw_spec s (fst (sink_call (Some f) c s)) (snd (sink_call (Some f) c s)).
  Proof.
    unfold sink_call, raw_spec.
    destruct (fires (Some f) (S (scalls s))) as [x|] eqn:E; cbn.
    - apply fires_id in E. subst x. auto.
    - auto.
  Qed.

  (* what an operation that goes through the bufio.Writer can do *)
  Definition buf_spec (s : wst) (r : option N) (s' : wst) : Prop :=
    match berr s with
    | Some x => r = Some x /\ s' = s
    | None => (r = None /\ berr s' = None /\ sfired s' = sfired s) \/
              (r = Some e /\ berr s' = Some e /\ sfired s' = true)
    end.

  Lemma bufio_sink_write_spec n s :
    berr s = None ->
    (fst (bufio_sink_write (Some f) n s) = None /\ berr (snd (bufio_sink_write (Some f) n s)) = None /\
     sfired (snd (bufio_sink_write (Some f) n s)) = sfired s) \/
    (fst (bufio_sink_write (Some f) n s) = Some e /\ berr (snd (bufio_sink_write (Some f) n s)) = Some e /\
     sfired (snd (bufio_sink_write (Some f) n s)) = true).
  Proof.
    intro Hb. unfold bufio_sink_write.
    pose proof (sink_call_spec (CWrite n) s) as Sp.
    destruct (sink_call (Some f) (CWrite n) s) as [[x|] s']; cbn [fst snd] in *;
      destruct Sp as (B & _ & [[H1 H2]|[H1 H2]]); try discriminate.
    - inversion H1; subst x. right. cbn. auto.
    - left. rewrite B. auto.
  Qed.

  Lemma bufio_flush_spec s : buf_spec s (fst (bufio_flush (Some f) s)) (snd (bufio_flush (Some f) s)).
  Proof.
    unfold buf_spec, bufio_flush. destruct (berr s) as [x|] eqn:Hb; [cbn; auto|].
    destruct (buffered s =? 0)%N; [cbn; auto|].
    pose proof (bufio_sink_write_spec (buffered s) s Hb) as Sp.
    destruct (bufio_sink_write (Some f) (buffered s) s) as [[x|] s']; cbn [fst snd] in *.
    - destruct Sp as [(H & _)|(H1 & H2 & H3)]; [discriminate|]. right; auto.
    - destruct Sp as [(_ & H2 & H3)|(H & _)]; [|discriminate]. left. cbn. auto.
  Qed.

  Lemma bufio_write_spec n s : buf_spec s (fst (bufio_write (Some f) n s)) (snd (bufio_write (Some f) n s)).
  Proof.
    unfold buf_spec, bufio_write. destruct (berr s) as [x|] eqn:Hb; [cbn; auto|].
    destruct (n <=? bufio_size - buffered s)%N; [cbn; auto|].
    destruct (buffered s =? 0)%N.
    - pose proof (bufio_sink_write_spec n s Hb) as Sp. tauto.
    - assert (Hb1 : berr (set_buf s bufio_size) = None) by exact Hb.
      pose proof (bufio_sink_write_spec bufio_size (set_buf s bufio_size) Hb1) as Sp.
      destruct (bufio_sink_write (Some f) bufio_size (set_buf s bufio_size)) as [[x|] s']; cbn [fst snd] in *.
      + destruct Sp as [(H & _)|(H1 & H2 & H3)]; [discriminate|]. right; auto.
      + destruct Sp as [(_ & H2 & H3)|(H & _)]; [|discriminate].
        destruct (n - (bufio_size - buffered s) <=? bufio_size)%N.
        * left. cbn. auto.
        * assert (Hb2 : berr (set_buf s' 0) = None) by exact H2.
          pose proof (bufio_sink_write_spec (n - (bufio_size - buffered s)) (set_buf s' 0) Hb2) as Sp2.
          cbn [sfired set_buf] in Sp2. rewrite H3 in Sp2. exact Sp2.
  Qed.

  Definition inv (s : wst) (rep : bool) : Prop :=
    (berr s = None \/ berr s = Some e) /\ (sfired s = true -> rep = true \/ berr s = Some e).

  Lemma inv_w0 : inv w0 false.
  Proof. split; cbn; [auto|discriminate]. Qed.

  Definition rep_of (op : sop) (r : option N) : bool :=
    is_raw op && match r with Some x => N.eqb x e | None => false end.

  Lemma step_inv op s rep :
    inv s rep ->
    inv (snd (step (Some f) op s)) (rep || rep_of op (fst (step (Some f) op s))).
  Proof.
    intros [I1 I2]. unfold rep_of.
    assert (FLUSH : forall r s', bufio_flush (Some f) s = (r, s') ->
                    (berr s' = None \/ berr s' = Some e) /\
                    (sfired s' = true -> (rep || false) = true \/ berr s' = Some e)).
    { intros r s' E. pose proof (bufio_flush_spec s) as Sp. unfold buf_spec in Sp.
      rewrite E in Sp. cbn [fst snd] in Sp. rewrite orb_false_r.
      destruct (berr s) as [x|] eqn:Hb.
      - destruct Sp as [_ ->]. split; rewrite ?Hb; auto.
      - destruct Sp as [(_ & H2 & H3)|(_ & H2 & H3)]; split; rewrite ?H2, ?H3; auto. }
    assert (RAW : forall c r s', sink_call (Some f) c s = (r, s') ->
                  (berr s' = None \/ berr s' = Some e) /\
                  (sfired s' = true ->
                   (rep || (true && match r with Some x => N.eqb x e | None => false end)) = true \/ berr s' = Some e)).
    { intros c r s' E. pose proof (sink_call_spec c s) as Sp. unfold raw_spec in Sp.
      rewrite E in Sp. cbn [fst snd] in Sp.
      destruct Sp as (B & _ & [[H1 H2]|[H1 H2]]); subst r; rewrite B.
      - cbn [andb]. rewrite orb_false_r. split; [exact I1|]. rewrite H2. exact I2.
      - unfold e. cbn [andb]. rewrite N.eqb_refl, orb_true_r. split; auto. }
    destruct op as [n| | |n| | |n|n|]; cbn [step is_raw andb];
      try exact (FLUSH _ _ (surjective_pairing (bufio_flush (Some f) s)));
      try (match goal with |- context [sink_call (Some f) ?c s] =>
             exact (RAW c _ _ (surjective_pairing (sink_call (Some f) c s))) end).
    2,3: (unfold sink_read; cbn; rewrite orb_false_r; split; assumption).
    pose proof (bufio_write_spec n s) as Sp. unfold buf_spec in Sp.
    destruct (bufio_write (Some f) n s) as [r s']; cbn [fst snd] in *.
    rewrite orb_false_r.
    destruct (berr s) as [x|] eqn:Hb.
    + destruct Sp as [_ ->]. split; rewrite ?Hb; auto.
    + destruct Sp as [(_ & H2 & H3)|(_ & H2 & H3)]; split; rewrite ?H2, ?H3; auto.
  Qed.

  Lemma run_inv : forall ops s rep,
      inv s rep ->
      inv (snd (run_ops (Some f) ops s)) (rep || raw_reported e ops (fst (run_ops (Some f) ops s))).
  Proof.
    induction ops as [|op ops IH]; intros s rep I; cbn [run_ops].
    - cbn. rewrite orb_false_r. exact I.
    - pose proof (step_inv op s rep I) as I1.
      destruct (step (Some f) op s) as [r s1]. cbn [fst snd] in I1.
      specialize (IH s1 _ I1).
      destruct (run_ops (Some f) ops s1) as [rs s2]. cbn [fst snd raw_reported] in *.
      unfold rep_of in IH. rewrite <- orb_assoc in IH. exact IH.
  Qed.

  (* after any operations: if the sink has failed, a raw call has already
     returned its error, or the next buffered operation returns it *)
  Lemma sink_surfaces_lemma : forall ops op,
      is_buffered_report op = true ->
      let (rs, s) := run_ops (Some f) ops w0 in
      let (r, s') := step (Some f) op s in
      sfired s' = true ->
      raw_reported (fid f) ops rs = true \/ r = Some (fid f).
  Proof.
    intros ops op Hop.
    pose proof (run_inv ops w0 false inv_w0) as I.
    destruct (run_ops (Some f) ops w0) as [rs s]. cbn [fst snd orb] in I.
    destruct I as [I1 I2].
    assert (Sp : buf_spec s (fst (step (Some f) op s)) (snd (step (Some f) op s))).
    { destruct op; try discriminate; cbn [step]; [apply bufio_write_spec|apply bufio_flush_spec|apply bufio_flush_spec]. }
    destruct (step (Some f) op s) as [r s']. cbn [fst snd] in Sp. unfold buf_spec in Sp.
    intro Hf. fold e.
    destruct (berr s) as [x|] eqn:Hb.
    - destruct Sp as [-> _]. destruct I1 as [H|H]; [discriminate|]. right. exact H.
    - destruct Sp as [(_ & _ & H3)|(H1 & _)]; [|right; exact H1].
      rewrite H3 in Hf. destruct (I2 Hf) as [H|H]; [left; exact H|discriminate].
  Qed.
  (* ---- Writer.Close ---------------------------------------------------- *)

  Lemma step_err_id op s rep x :
    inv s rep -> fst (step (Some f) op s) = Some x -> x = e.
  Proof.
    intros [I1 _] H.
    assert (FLUSH : fst (bufio_flush (Some f) s) = Some x -> x = e).
    { pose proof (bufio_flush_spec s) as Sp. unfold buf_spec in Sp.
      destruct (bufio_flush (Some f) s) as [r s']; cbn [fst snd] in *. intro; subst r.
      destruct (berr s) as [y|] eqn:Hb.
      - destruct Sp as [Hy _]. destruct I1 as [I|I]; congruence.
      - destruct Sp as [(Hn & _)|(Hs & _)]; congruence. }
    assert (RAW : forall c, fst (sink_call (Some f) c s) = Some x -> x = e).
    { intro c. pose proof (sink_call_spec c s) as Sp. unfold raw_spec in Sp.
      destruct (sink_call (Some f) c s) as [r s']; cbn [fst snd] in *. intro; subst r.
      destruct Sp as (_ & _ & [[Hn _]|[Hs _]]); congruence. }
    destruct op as [n| | |n| | |n|n|]; cbn [step] in H;
      try (apply FLUSH; exact H); try (eapply RAW; exact H); try (unfold sink_read in H; cbn in H; discriminate).
    pose proof (bufio_write_spec n s) as Sp. unfold buf_spec in Sp.
    destruct (bufio_write (Some f) n s) as [r s']; cbn [fst snd] in *. subst r.
    destruct (berr s) as [y|] eqn:Hb.
    - destruct Sp as [Hy _]. destruct I1 as [I|I]; congruence.
    - destruct Sp as [(Hn & _)|(Hs & _)]; congruence.
  Qed.

  Lemma run_close_inv : forall cl s rep,
      inv s rep ->
      fst (run_close (Some f) cl s) = Some e \/
      (fst (run_close (Some f) cl s) = None /\ inv (snd (run_close (Some f) cl s)) rep).
  Proof.
    induction cl as [|op cl IH]; intros s rep I; cbn [run_close].
    - right. split; [reflexivity|exact I].
    - pose proof (step_inv op s rep I) as I1.
      pose proof (step_err_id op s rep) as Eid.
      destruct (step (Some f) op s) as [r s1]. cbn [fst snd] in *.
      unfold rep_of in I1.
      destruct (reports op) eqn:Rp.
      + destruct r as [x|].
        * left. cbn. rewrite (Eid x I eq_refl). reflexivity.
        * rewrite andb_false_r, orb_false_r in I1. apply IH. exact I1.
      + assert (Hr : is_raw op = false) by (destruct op; try discriminate; reflexivity).
        rewrite Hr in I1. cbn [andb] in I1. rewrite orb_false_r in I1. apply IH. exact I1.
  Qed.

  (* the Flush of Close, when it succeeds, leaves no sticky error behind *)
  Lemma close_tail_inv (owns : bool) s rep :
    inv s rep ->
    fst (run_close (Some f) (FinalFlush :: (if owns then [SinkClose] else [])) s) = Some e \/
    (sfired (snd (run_close (Some f) (FinalFlush :: (if owns then [SinkClose] else [])) s)) = true -> rep = true).
  Proof.
    intros [I1 I2]. cbn [run_close step reports].
    pose proof (bufio_flush_spec s) as Sp. unfold buf_spec in Sp.
    destruct (bufio_flush (Some f) s) as [r s1]; cbn [fst snd] in *.
    destruct (berr s) as [y|] eqn:Hb.
    - destruct Sp as [-> _]. left. cbn. destruct I1 as [I|I]; congruence.
    - destruct Sp as [(-> & Hb1 & Hf1)|(-> & _)]; [|left; reflexivity].
      assert (K : sfired s1 = true -> rep = true).
      { rewrite Hf1. intro H. destruct (I2 H) as [H1|H1]; [exact H1|discriminate]. }
      destruct owns; cbn [run_close step reports].
      + pose proof (sink_call_spec CClose s1) as Sp2. unfold raw_spec in Sp2.
        destruct (sink_call (Some f) CClose s1) as [r2 s2]; cbn [fst snd] in *.
        destruct Sp2 as (_ & _ & [[-> Hf2]|[-> _]]); [|left; reflexivity].
        right. cbn. rewrite Hf2. exact K.
      + right. exact K.
  Qed.

  Lemma run_close_app : forall a b s,
      run_close (Some f) (a ++ b) s =
      match fst (run_close (Some f) a s) with
      | Some x => run_close (Some f) a s
      | None => run_close (Some f) b (snd (run_close (Some f) a s))
      end.
  Proof.
    induction a as [|op a IH]; intros b s; cbn [run_close app].
    - reflexivity.
    - destruct (step (Some f) op s) as [r s1].
      destruct (reports op); [destruct r as [x|]|]; try apply IH. reflexivity.
  Qed.

  (* if the sink fails at any call - before Close or during it - and no raw call
     of a Placeholder.Set / read-back has returned that error before Close, then
     Close itself returns it *)
  Lemma close_reports_lemma : forall before body owns,
      let s := snd (run_ops (Some f) before w0) in
      let rs := fst (run_ops (Some f) before w0) in
      sfired (snd (run_close (Some f) (close_ops body owns) s)) = true ->
      raw_reported (fid f) before rs = true \/
      fst (run_close (Some f) (close_ops body owns) s) = Some (fid f).
  Proof.
    intros before body owns s rs.
    pose proof (run_inv before w0 false inv_w0) as I. cbn [orb] in I. fold s rs in I.
    unfold close_ops. rewrite run_close_app.
    destruct (run_close_inv body s _ I) as [H|[H I2]].
    - rewrite H. intros _. right. exact H.
    - rewrite H. destruct (close_tail_inv owns _ _ I2) as [H2|H2].
      + intros _. right. exact H2.
      + intro Hf. left. apply H2. exact Hf.
  Qed.
  (* ---- Writer.err ------------------------------------------------------- *)

  Lemma run_close_inv2 : forall cl s rep,
      inv s rep ->
      (exists rep', inv (snd (run_close (Some f) cl s)) rep') /\
      (fst (run_close (Some f) cl s) = None \/ fst (run_close (Some f) cl s) = Some e).
  Proof.
    induction cl as [|op cl IH]; intros s rep I; cbn [run_close].
    - split; [exists rep; exact I|left; reflexivity].
    - pose proof (step_inv op s rep I) as I1.
      pose proof (step_err_id op s rep) as Eid.
      destruct (step (Some f) op s) as [r s1]. cbn [fst snd] in *.
      destruct (reports op).
      + destruct r as [x|].
        * cbn. split; [eexists; exact I1|]. right. rewrite (Eid x I eq_refl). reflexivity.
        * eapply IH. exact I1.
      + eapply IH. exact I1.
  Qed.

  (* what is known of the Writer between two calls *)
  Definition winv (st : option N * wst) : Prop :=
    (exists rep, inv (snd st) rep) /\ (fst st = None \/ fst st = Some e).

  Lemma winv_w0 : winv (None, w0).
  Proof. split; [exists false; apply inv_w0|left; reflexivity]. Qed.

  Lemma run_call_winv c st :
    winv st ->
    winv (snd (run_call (Some f) c st)) /\
    (fst (run_call (Some f) c st) = None \/ fst (run_call (Some f) c st) = Some e).
  Proof.
    intros [[rep I] W]. destruct st as [we s]. cbn [fst snd] in *. unfold run_call.
    destruct (if c_checks c then we else None) as [x|] eqn:Ec.
    - cbn. split; [split; [exists rep; exact I|exact W]|].
      right. destruct (c_checks c); [|discriminate]. subst we. destruct W as [W|W]; congruence.
    - destruct (run_close_inv2 (c_ops c) s rep I) as [[rep' I'] R].
      destruct (run_close (Some f) (c_ops c) s) as [r s']. cbn [fst snd] in *.
      split; [|exact R]. split; [exists rep'; exact I'|].
      destruct we as [y|]; [exact W|].
      destruct r as [y|]; [|left; reflexivity].
      destruct (c_records c); [|left; reflexivity]. right. cbn [fst]. destruct R as [R|R]; [discriminate R|exact R].
  Qed.

  (* a recording call that returns an error leaves Writer.err set *)
  Lemma run_call_records c st :
    winv st -> c_records c = true ->
    fst (run_call (Some f) c st) <> None ->
    fst (snd (run_call (Some f) c st)) = Some e.
  Proof.
    intros [[rep I] W] Hr. destruct st as [we s]. cbn [fst snd] in *. unfold run_call.
    destruct (if c_checks c then we else None) as [x|] eqn:Ec.
    - cbn. intros _. destruct (c_checks c); [|discriminate]. subst we. destruct W as [W|W]; congruence.
    - destruct (run_close_inv2 (c_ops c) s rep I) as [_ R].
      destruct (run_close (Some f) (c_ops c) s) as [r s']. cbn [fst snd] in *.
      intro Hne. destruct we as [y|]; [destruct W as [W|W]; congruence|].
      destruct r as [y|]; [|congruence]. rewrite Hr. destruct R as [R|R]; congruence.
  Qed.

  (* once set, Writer.err stays, and every checking call returns it *)
  Lemma sticky_calls : forall cs s,
      (forall k c2, nth_error cs k = Some c2 -> c_checks c2 = true ->
                    nth k (run_calls (Some f) cs (Some e, s)) None = Some e).
  Proof.
    induction cs as [|c cs IH]; intros s k c2 Hk Hc; [destruct k; discriminate|].
    cbn [run_calls]. unfold run_call at 1.
    destruct k as [|k]; cbn [nth_error] in Hk.
    - inversion Hk; subst c2. rewrite Hc. reflexivity.
    - destruct (c_checks c).
      + cbn [nth]. eapply IH; eassumption.
      + destruct (run_close (Some f) (c_ops c) s) as [r s']. cbn [nth]. eapply IH; eassumption.
  Qed.

  Lemma run_calls_app : forall a b st,
      run_calls (Some f) (a ++ b) st = run_calls (Some f) a st ++ run_calls (Some f) b (state_after (Some f) a st).
  Proof.
    induction a as [|c a IH]; intros b st; cbn [run_calls state_after app]; [reflexivity|].
    destruct (run_call (Some f) c st) as [r st']. cbn [snd]. rewrite IH. reflexivity.
  Qed.

  Lemma run_calls_length : forall cs st, length (run_calls (Some f) cs st) = length cs.
  Proof.
    induction cs as [|c cs IH]; intros st; cbn [run_calls]; [reflexivity|].
    destruct (run_call (Some f) c st) as [r st']. cbn. rewrite IH. reflexivity.
  Qed.

  Lemma state_after_winv : forall cs st, winv st -> winv (state_after (Some f) cs st).
  Proof.
    induction cs as [|c cs IH]; intros st W; cbn [state_after]; [exact W|].
    apply IH. apply run_call_winv. exact W.
  Qed.

  (* the strict form: the first error a recording call returns - it is the sink's
     error - is returned by every later Put, OpenStream, WriteCompressed and Close *)
  Lemma writer_sticky_lemma : forall pre c mid k c2,
      c_records c = true ->
      nth (length pre) (run_calls (Some f) (pre ++ c :: mid) (None, w0)) None <> None ->
      nth_error mid k = Some c2 -> c_checks c2 = true ->
      nth (length pre) (run_calls (Some f) (pre ++ c :: mid) (None, w0)) None = Some (fid f) /\
      nth (length pre + 1 + k) (run_calls (Some f) (pre ++ c :: mid) (None, w0)) None = Some (fid f).
  Proof.
    intros pre c mid k c2 Hr Hne Hk Hc.
    assert (E1 : forall X, nth (length pre) (run_calls (Some f) pre (None, w0) ++ X) None = nth 0 X None).
    { intro X. rewrite app_nth2 by (rewrite run_calls_length; lia). rewrite run_calls_length. f_equal. lia. }
    assert (E2 : forall X, nth (length pre + 1 + k) (run_calls (Some f) pre (None, w0) ++ X) None = nth (S k) X None).
    { intro X. rewrite app_nth2 by (rewrite run_calls_length; lia). rewrite run_calls_length. f_equal. lia. }
    rewrite run_calls_app in *. rewrite E1 in *. rewrite E2.
    pose proof (state_after_winv pre (None, w0) winv_w0) as W.
    set (st := state_after (Some f) pre (None, w0)) in *.
    cbn [run_calls] in *.
    pose proof (run_call_winv c st W) as [W1 R1].
    pose proof (run_call_records c st W Hr) as Rec.
    destruct (run_call (Some f) c st) as [r st1]. cbn [fst snd nth] in *.
    split.
    - destruct R1 as [R1|R1]; [congruence|exact R1].
    - destruct st1 as [we s1]. cbn [fst] in Rec. rewrite (Rec Hne).
      eapply sticky_calls; eassumption.
  Qed.
End SinkFlow.

(* ---------------------------------------------------------------------- *)
(* every index the fault-free run reaches makes the fault fire *)

Lemma sink_call_nofire f c s :
  sfired (snd (sink_call (Some f) c s)) = false ->
  sink_call (Some f) c s = sink_call None c s /\
  ((scalls s < fk f)%nat -> (scalls (snd (sink_call (Some f) c s)) < fk f)%nat).
Proof.
  unfold sink_call. cbn [fires].
  destruct (fm f) eqn:Em.
  - destruct (Nat.leb (fk f) (S (scalls s))) eqn:E; cbn; [discriminate|].
    intros _. split; [reflexivity|]. intros _. apply Nat.leb_gt in E. exact E.
  - destruct (Nat.eqb (S (scalls s)) (fk f)) eqn:E; cbn; [discriminate|].
    intros _. split; [reflexivity|]. intros H. apply Nat.eqb_neq in E. lia.
Qed.

Lemma sink_call_fired_mono f c s : sfired s = true -> sfired (snd (sink_call f c s)) = true.
Proof. unfold sink_call. destruct (fires f (S (scalls s))); cbn; auto. Qed.

Lemma bsw_nofire f n s :
  sfired (snd (bufio_sink_write (Some f) n s)) = false ->
  bufio_sink_write (Some f) n s = bufio_sink_write None n s /\
  ((scalls s < fk f)%nat -> (scalls (snd (bufio_sink_write (Some f) n s)) < fk f)%nat).
Proof.
  unfold bufio_sink_write. pose proof (sink_call_nofire f (CWrite n) s) as H.
  destruct (sink_call (Some f) (CWrite n) s) as [[x|] s'] eqn:E; cbn [snd] in *; intro Hf.
  - cbn in Hf. destruct (H Hf) as [H1 H2]. rewrite <- H1. split; [reflexivity|exact H2].
  - destruct (H Hf) as [H1 H2]. rewrite <- H1. split; [reflexivity|exact H2].
Qed.

Lemma bsw_fired_mono f n s : sfired s = true -> sfired (snd (bufio_sink_write f n s)) = true.
Proof.
  intro H. unfold bufio_sink_write. pose proof (sink_call_fired_mono f (CWrite n) s H) as M.
  destruct (sink_call f (CWrite n) s) as [[x|] s']; exact M.
Qed.

Lemma step_nofire f op s :
  sfired (snd (step (Some f) op s)) = false ->
  step (Some f) op s = step None op s /\
  ((scalls s < fk f)%nat -> (scalls (snd (step (Some f) op s)) < fk f)%nat).
Proof.
  assert (FL : sfired (snd (bufio_flush (Some f) s)) = false ->
               bufio_flush (Some f) s = bufio_flush None s /\
               ((scalls s < fk f)%nat -> (scalls (snd (bufio_flush (Some f) s)) < fk f)%nat)).
  { unfold bufio_flush. destruct (berr s); [auto|]. destruct (buffered s =? 0)%N; [auto|].
    pose proof (bsw_nofire f (buffered s) s) as H.
    destruct (bufio_sink_write (Some f) (buffered s) s) as [[x|] s'] eqn:E; cbn [snd] in *; intro Hf;
      destruct (H Hf) as [H1 H2]; rewrite <- H1; auto. }
  destruct op as [n| | |n| | |n|n|]; cbn [step]; try exact FL; try apply sink_call_nofire;
    try (unfold sink_read; cbn; auto).
  unfold bufio_write. destruct (berr s); [auto|].
  destruct (n <=? bufio_size - buffered s)%N; [auto|].
  destruct (buffered s =? 0)%N; [apply bsw_nofire|].
  pose proof (bsw_nofire f bufio_size (set_buf s bufio_size)) as H.
  pose proof (bsw_fired_mono (Some f)) as M.
  destruct (bufio_sink_write (Some f) bufio_size (set_buf s bufio_size)) as [[x|] s'] eqn:E; cbn [snd] in *.
  - intro Hf. destruct (H Hf) as [H1 H2]. rewrite <- H1. auto.
  - destruct (n - (bufio_size - buffered s) <=? bufio_size)%N.
    + intro Hf. cbn in Hf. destruct (H Hf) as [H1 H2]. rewrite <- H1. auto.
    + intro Hf.
      assert (Hs' : sfired s' = false).
      { destruct (sfired s') eqn:F; [|reflexivity].
        rewrite (M (n - (bufio_size - buffered s))%N (set_buf s' 0) F) in Hf. discriminate. }
      destruct (H Hs') as [H1 H2]. rewrite <- H1.
      pose proof (bsw_nofire f (n - (bufio_size - buffered s))%N (set_buf s' 0) Hf) as [H3 H4].
      split; [exact H3|]. intro Hk. apply H4. cbn. apply H2. exact Hk.
Qed.

Lemma step_fired_mono f op s : sfired s = true -> sfired (snd (step f op s)) = true.
Proof.
  intro H.
  assert (FL : sfired (snd (bufio_flush f s)) = true).
  { unfold bufio_flush. destruct (berr s); [exact H|]. destruct (buffered s =? 0)%N; [exact H|].
    pose proof (bsw_fired_mono f (buffered s) s H) as M.
    destruct (bufio_sink_write f (buffered s) s) as [[x|] s']; exact M. }
  destruct op as [n| | |n| | |n|n|]; cbn [step]; try exact FL; try (apply sink_call_fired_mono; exact H);
    try exact H.
  unfold bufio_write. destruct (berr s); [exact H|].
  destruct (n <=? bufio_size - buffered s)%N; [exact H|].
  destruct (buffered s =? 0)%N; [apply bsw_fired_mono; exact H|].
  pose proof (bsw_fired_mono f bufio_size (set_buf s bufio_size) H) as M.
  destruct (bufio_sink_write f bufio_size (set_buf s bufio_size)) as [[x|] s']; cbn [snd] in *; [exact M|].
  destruct (n - (bufio_size - buffered s) <=? bufio_size)%N; [exact M|].
  apply bsw_fired_mono. exact M.
Qed.

Lemma run_fired_mono f : forall ops s, sfired s = true -> sfired (snd (run_ops f ops s)) = true.
Proof.
  induction ops as [|op ops IH]; intros s H; cbn [run_ops]; [exact H|].
  pose proof (step_fired_mono f op s H) as M.
  destruct (step f op s) as [r s1]. cbn [snd] in M. specialize (IH s1 M).
  destruct (run_ops f ops s1) as [rs s2]. exact IH.
Qed.

Lemma run_nofire f : forall ops s,
    sfired (snd (run_ops (Some f) ops s)) = false ->
    run_ops (Some f) ops s = run_ops None ops s /\
    ((scalls s < fk f)%nat -> (scalls (snd (run_ops (Some f) ops s)) < fk f)%nat).
Proof.
  induction ops as [|op ops IH]; intros s; cbn [run_ops]; [auto|].
  pose proof (step_nofire f op s) as St.
  pose proof (run_fired_mono (Some f) ops) as M.
  destruct (step (Some f) op s) as [r s1] eqn:E1. cbn [snd] in St.
  specialize (IH s1). specialize (M s1).
  destruct (run_ops (Some f) ops s1) as [rs s2] eqn:E2. cbn [snd] in *.
  intro Hf.
  assert (H1 : sfired s1 = false).
  { destruct (sfired s1); [|reflexivity]. rewrite (M eq_refl) in Hf. discriminate. }
  destruct (St H1) as [St1 St2]. destruct (IH Hf) as [IH1 IH2].
  rewrite <- St1, <- IH1. split; [reflexivity|]. intro Hk. apply IH2, St2, Hk.
Qed.

(* a raw call that returned the error means the sink has failed *)
Lemma raw_reported_fired f : forall ops s,
    raw_reported (fid f) ops (fst (run_ops (Some f) ops s)) = true ->
    sfired (snd (run_ops (Some f) ops s)) = true.
Proof.
  induction ops as [|op ops IH]; intros s; cbn [run_ops]; [cbn; discriminate|].
  pose proof (run_fired_mono (Some f) ops) as M.
  destruct (step (Some f) op s) as [r s1] eqn:Es.
  specialize (IH s1). specialize (M s1).
  destruct (run_ops (Some f) ops s1) as [rs s2]. cbn [fst snd raw_reported] in *.
  intro H. apply orb_true_iff in H. destruct H as [H|H]; [|apply IH; exact H].
  apply M. apply andb_true_iff in H. destruct H as [Hraw Hr].
  destruct r as [x|]; [|discriminate].
  assert (RAW : forall c, step (Some f) op s = sink_call (Some f) c s -> sfired s1 = true).
  { intros c Ec. rewrite Ec in Es. pose proof (sink_call_spec f c s) as Sp. unfold raw_spec in Sp.
    rewrite Es in Sp. cbn [fst snd] in Sp. destruct Sp as (_ & _ & [[Hn _]|[_ Hf]]); [discriminate|exact Hf]. }
  destruct op; try discriminate; eapply RAW; reflexivity.
Qed.

(* the sink was healthy when Close was called and fails at a call Close makes:
   Close returns the sink's error *)
Lemma close_reports_own_calls_lemma : forall f before body owns,
    let s := snd (run_ops (Some f) before w0) in
    sfired s = false ->
    sfired (snd (run_close (Some f) (close_ops body owns) s)) = true ->
    fst (run_close (Some f) (close_ops body owns) s) = Some (fid f).
Proof.
  intros f before body owns s Hs Hf.
  destruct (close_reports_lemma f before body owns Hf) as [H|H]; [|exact H].
  apply raw_reported_fired in H. unfold s in Hs. congruence.
Qed.

Lemma run_ops_app f : forall a b s,
    run_ops f (a ++ b) s =
    let (r1, s1) := run_ops f a s in
    let (r2, s2) := run_ops f b s1 in (r1 ++ r2, s2).
Proof.
  induction a as [|op a IH]; intros b s; cbn [run_ops app].
  - destruct (run_ops f b s); reflexivity.
  - destruct (step f op s) as [r s1]. rewrite IH.
    destruct (run_ops f a s1) as [r1 s2]. destruct (run_ops f b s2) as [r2 s3]. reflexivity.
Qed.

Lemma run_ops_length f : forall ops s, length (fst (run_ops f ops s)) = length ops.
Proof.
  induction ops as [|op ops IH]; intros s; cbn [run_ops]; [reflexivity|].
  destruct (step f op s) as [r s1]. specialize (IH s1).
  destruct (run_ops f ops s1) as [rs s2]. cbn in *. congruence.
Qed.

Lemma raw_reported_app e : forall a ra b rb,
    length ra = length a ->
    raw_reported e (a ++ b) (ra ++ rb) = raw_reported e a ra || raw_reported e b rb.
Proof.
  induction a as [|op a IH]; intros ra b rb Hl; destruct ra as [|r ra]; try discriminate; cbn [app raw_reported].
  - reflexivity.
  - rewrite IH by (cbn in Hl; congruence). rewrite orb_assoc. reflexivity.
Qed.

(* the statement the correspondence run evaluates: for a program that ends with
   the Flush of Close, every fault index reached by the fault-free run comes
   back from a raw call or from that Flush *)
Lemma flush_reported_app e : forall a ra b rb,
    length ra = length a ->
    flush_reported e (a ++ b) (ra ++ rb) = flush_reported e a ra || flush_reported e b rb.
Proof.
  induction a as [|op a IH]; intros ra b rb Hl; destruct ra as [|r ra]; try discriminate; cbn [app flush_reported].
  - reflexivity.
  - rewrite IH by (cbn in Hl; congruence). rewrite orb_assoc. reflexivity.
Qed.

(* the statement the correspondence run evaluates: for a program that ends with
   the Flush of Close - and the Close of the sink if the Writer owns it - every
   fault index reached by the fault-free run comes back from a raw call or from
   a Flush whose result the Writer returns *)
Lemma sink_in_range_surfaces_lemma : forall ops (owns : bool) fmd k,
    (1 <= k <= scalls (snd (run_ops None (ops ++ close_ops [] owns) w0)))%nat ->
    surfaces_at (ops ++ close_ops [] owns) fmd k = true.
Proof.
  intros ops owns fmd k [Hk1 Hk2]. unfold surfaces_at.
  set (f := plain_fault k fmd inj_id).
  pose proof (sink_surfaces_lemma f ops FinalFlush eq_refl) as SS.
  pose proof (run_nofire f (ops ++ close_ops [] owns) w0) as NF.
  pose proof (run_ops_length (Some f) ops w0) as Len.
  assert (Efk : fk f = k) by reflexivity. assert (Efid : fid f = inj_id) by reflexivity.
  clearbody f. rewrite Efk in NF.
  assert (FIRED : sfired (snd (run_ops (Some f) (ops ++ close_ops [] owns) w0)) = true).
  { destruct (sfired (snd (run_ops (Some f) (ops ++ close_ops [] owns) w0))) eqn:F; [reflexivity|].
    exfalso. destruct (NF eq_refl) as [H1 H2].
    assert (Hlt : (scalls (snd (run_ops (Some f) (ops ++ close_ops [] owns) w0)) < k)%nat)
      by (apply H2; unfold w0; cbn; lia).
    rewrite H1 in Hlt. lia. }
  clear NF Hk2. unfold close_ops in *. cbn [app] in *.
  rewrite run_ops_app in *. cbn [run_ops] in *.
  destruct (run_ops (Some f) ops w0) as [rs s]. cbn [fst] in Len.
  destruct (step (Some f) FinalFlush s) as [r s'] eqn:Es.
  destruct (sfired s') eqn:F.
  - (* surfaced by the Flush or before *)
    assert (PRE : raw_reported inj_id ops rs || flush_reported inj_id [FinalFlush] [r] = true).
    { destruct (SS eq_refl) as [H|H].
      - rewrite Efid in H. rewrite H. reflexivity.
      - rewrite H, Efid. cbn [flush_reported is_returned_flush andb]. rewrite N.eqb_refl. apply orb_true_r. }
    destruct owns; cbn [run_ops] in *.
    + destruct (step (Some f) SinkClose s') as [r2 s2].
      change (r :: [r2]) with ([r] ++ [r2]). change (FinalFlush :: [SinkClose]) with ([FinalFlush] ++ [SinkClose]).
      rewrite !app_assoc.
      rewrite raw_reported_app by (rewrite !app_length; cbn; lia).
      rewrite flush_reported_app by (rewrite !app_length; cbn; lia).
      rewrite raw_reported_app by exact Len. rewrite flush_reported_app by exact Len.
      apply orb_true_iff in PRE. destruct PRE as [P|P]; rewrite P; repeat rewrite ?orb_true_r, ?orb_true_l; reflexivity.
    + rewrite raw_reported_app by exact Len. rewrite flush_reported_app by exact Len.
      apply orb_true_iff in PRE. destruct PRE as [P|P]; rewrite P; repeat rewrite ?orb_true_r, ?orb_true_l; reflexivity.
  - (* not yet fired after the Flush: the failing call is the Close of the sink *)
    destruct owns; cbn [run_ops snd] in *; [|congruence].
    cbn [step] in *.
    pose proof (sink_call_spec f CClose s') as Sp. unfold raw_spec in Sp.
    destruct (sink_call (Some f) CClose s') as [r2 s2]. cbn [fst snd] in *.
    destruct Sp as (_ & _ & [[_ Hs]|[Hr _]]); [congruence|]. subst r2.
    change (r :: [Some (fid f)]) with ([r] ++ [Some (fid f)]). change (FinalFlush :: [SinkClose]) with ([FinalFlush] ++ [SinkClose]).
    rewrite !app_assoc.
    rewrite raw_reported_app by (rewrite !app_length; cbn; lia).
    cbn [raw_reported is_raw andb]. rewrite Efid, N.eqb_refl. cbn [orb]. rewrite orb_true_r. reflexivity.
Qed.

(* the hypotheses are satisfiable: a program with a placeholder, 11 sink calls *)
Definition sink_example : list sop :=
  [BWrite 15; BWrite 7000; BWrite 12; BWrite 9000; FlushIgnored; RawSeek; RawSeek; RawWrite 4; RawSeek; BWrite 300; BWrite 5000; FinalFlush].

(* the same with a read-back (Writer.Get) in the middle *)
Definition sink_example_readback : list sop :=
  [BWrite 15; BWrite 7000; BWrite 12] ++ read_back [1024; 1024; 300; 0]%N ++ [BWrite 9000; BWrite 300; FinalFlush].

Lemma sink_example_readback_ok :
  length (sink_calls sink_example_readback) = 11%nat /\
  forallb (fun b => b) (surface_verdicts sink_example_readback OnlyK) = true /\
  forallb (fun b => b) (surface_verdicts sink_example_readback FromK) = true.
Proof. vm_compute. auto. Qed.

Lemma sink_example_ok :
  length (sink_calls sink_example) = 9%nat /\
  forallb (fun b => b) (surface_verdicts sink_example OnlyK) = true /\
  forallb (fun b => b) (surface_verdicts sink_example FromK) = true.
Proof. vm_compute. auto. Qed.
