(* C19 - proofs about the writing side (Sink.v). *)
From Coq Require Import List NArith Bool Lia Arith PeanoNat.
From GoPdf.Base Require Import Res.
From GoPdf.C19 Require Import ErrFlow ErrFlowProofs Sink.
Import ListNotations.

Section SinkFlow.
  Variable f : fault.
  Let e := fid f.

  (* what one sink call can do *)
  Definition raw_spec (s : wst) (r : option N) (s' : wst) : Prop :=
    berr s' = berr s /\ buffered s' = buffered s /\
    ((r = None /\ sfired s' = sfired s) \/ (r = Some e /\ sfired s' = true)).

  Lemma sink_call_spec c s : raw_spec s (fst (sink_call (Some f) c s)) (snd (sink_call (Some f) c s)).
  Proof.
    unfold sink_call, raw_spec.
    destruct (fires (Some f) (S (scalls s))) as [x|] eqn:E; cbn.
    - apply fires_id in E. subst x. auto.
    - auto.
  Qed.

  (* what an operation that goes through the bufio.Writer can do *)
  Definition buf_spec (s : wst) (r : option N) (s' : wst) : Prop :=
    match berr s with
    | Some x => r = Some x /\ s' = s
    | None => (r = None /\ berr s' = None /\ sfired s' = sfired s) \/
              (r = Some e /\ berr s' = Some e /\ sfired s' = true)
    end.

  Lemma bufio_sink_write_spec n s :
    berr s = None ->
    (fst (bufio_sink_write (Some f) n s) = None /\ berr (snd (bufio_sink_write (Some f) n s)) = None /\
     sfired (snd (bufio_sink_write (Some f) n s)) = sfired s) \/
    (fst (bufio_sink_write (Some f) n s) = Some e /\ berr (snd (bufio_sink_write (Some f) n s)) = Some e /\
     sfired (snd (bufio_sink_write (Some f) n s)) = true).
  Proof.
    intro Hb. unfold bufio_sink_write.
    pose proof (sink_call_spec (CWrite n) s) as Sp.
    destruct (sink_call (Some f) (CWrite n) s) as [[x|] s']; cbn [fst snd] in *;
      destruct Sp as (B & _ & [[H1 H2]|[H1 H2]]); try discriminate.
    - inversion H1; subst x. right. cbn. auto.
    - left. rewrite B. auto.
  Qed.

  Lemma bufio_flush_spec s : buf_spec s (fst (bufio_flush (Some f) s)) (snd (bufio_flush (Some f) s)).
  Proof.
    unfold buf_spec, bufio_flush. destruct (berr s) as [x|] eqn:Hb; [cbn; auto|].
    destruct (buffered s =? 0)%N; [cbn; auto|].
    pose proof (bufio_sink_write_spec (buffered s) s Hb) as Sp.
    destruct (bufio_sink_write (Some f) (buffered s) s) as [[x|] s']; cbn [fst snd] in *.
    - destruct Sp as [(H & _)|(H1 & H2 & H3)]; [discriminate|]. right; auto.
    - destruct Sp as [(_ & H2 & H3)|(H & _)]; [|discriminate]. left. cbn. auto.
  Qed.

  Lemma bufio_write_spec n s : buf_spec s (fst (bufio_write (Some f) n s)) (snd (bufio_write (Some f) n s)).
  Proof.
    unfold buf_spec, bufio_write. destruct (berr s) as [x|] eqn:Hb; [cbn; auto|].
    destruct (n <=? bufio_size - buffered s)%N; [cbn; auto|].
    destruct (buffered s =? 0)%N.
    - pose proof (bufio_sink_write_spec n s Hb) as Sp. tauto.
    - assert (Hb1 : berr (set_buf s bufio_size) = None) by exact Hb.
      pose proof (bufio_sink_write_spec bufio_size (set_buf s bufio_size) Hb1) as Sp.
      destruct (bufio_sink_write (Some f) bufio_size (set_buf s bufio_size)) as [[x|] s']; cbn [fst snd] in *.
      + destruct Sp as [(H & _)|(H1 & H2 & H3)]; [discriminate|]. right; auto.
      + destruct Sp as [(_ & H2 & H3)|(H & _)]; [|discriminate].
        destruct (n - (bufio_size - buffered s) <=? bufio_size)%N.
        * left. cbn. auto.
        * assert (Hb2 : berr (set_buf s' 0) = None) by exact H2.
          pose proof (bufio_sink_write_spec (n - (bufio_size - buffered s)) (set_buf s' 0) Hb2) as Sp2.
          cbn [sfired set_buf] in Sp2. rewrite H3 in Sp2. exact Sp2.
  Qed.

  Definition inv (s : wst) (rep : bool) : Prop :=
    (berr s = None \/ berr s = Some e) /\ (sfired s = true -> rep = true \/ berr s = Some e).

  Lemma inv_w0 : inv w0 false.
  Proof. split; cbn; [auto|discriminate]. Qed.

  Definition rep_of (op : sop) (r : option N) : bool :=
    is_raw op && match r with Some x => N.eqb x e | None => false end.

  Lemma step_inv op s rep :
    inv s rep ->
    inv (snd (step (Some f) op s)) (rep || rep_of op (fst (step (Some f) op s))).
  Proof.
    intros [I1 I2]. unfold rep_of.
    assert (FLUSH : forall r s', bufio_flush (Some f) s = (r, s') ->
                    (berr s' = None \/ berr s' = Some e) /\
                    (sfired s' = true -> (rep || false) = true \/ berr s' = Some e)).
    { intros r s' E. pose proof (bufio_flush_spec s) as Sp. unfold buf_spec in Sp.
      rewrite E in Sp. cbn [fst snd] in Sp. rewrite orb_false_r.
      destruct (berr s) as [x|] eqn:Hb.
      - destruct Sp as [_ ->]. split; rewrite ?Hb; auto.
      - destruct Sp as [(_ & H2 & H3)|(_ & H2 & H3)]; split; rewrite ?H2, ?H3; auto. }
    assert (RAW : forall c r s', sink_call (Some f) c s = (r, s') ->
                  (berr s' = None \/ berr s' = Some e) /\
                  (sfired s' = true ->
                   (rep || (true && match r with Some x => N.eqb x e | None => false end)) = true \/ berr s' = Some e)).
    { intros c r s' E. pose proof (sink_call_spec c s) as Sp. unfold raw_spec in Sp.
      rewrite E in Sp. cbn [fst snd] in Sp.
      destruct Sp as (B & _ & [[H1 H2]|[H1 H2]]); subst r; rewrite B.
      - cbn [andb]. rewrite orb_false_r. split; [exact I1|]. rewrite H2. exact I2.
      - unfold e. cbn [andb]. rewrite N.eqb_refl, orb_true_r. split; auto. }
    destruct op as [n| | |n| | |n|n]; cbn [step is_raw andb];
      try exact (FLUSH _ _ (surjective_pairing (bufio_flush (Some f) s)));
      try (match goal with |- context [sink_call (Some f) ?c s] =>
             exact (RAW c _ _ (surjective_pairing (sink_call (Some f) c s))) end).
    2,3: (unfold sink_read; cbn; rewrite orb_false_r; split; assumption).
    pose proof (bufio_write_spec n s) as Sp. unfold buf_spec in Sp.
    destruct (bufio_write (Some f) n s) as [r s']; cbn [fst snd] in *.
    rewrite orb_false_r.
    destruct (berr s) as [x|] eqn:Hb.
    + destruct Sp as [_ ->]. split; rewrite ?Hb; auto.
    + destruct Sp as [(_ & H2 & H3)|(_ & H2 & H3)]; split; rewrite ?H2, ?H3; auto.
  Qed.

  Lemma run_inv : forall ops s rep,
      inv s rep ->
      inv (snd (run_ops (Some f) ops s)) (rep || raw_reported e ops (fst (run_ops (Some f) ops s))).
  Proof.
    induction ops as [|op ops IH]; intros s rep I; cbn [run_ops].
    - cbn. rewrite orb_false_r. exact I.
    - pose proof (step_inv op s rep I) as I1.
      destruct (step (Some f) op s) as [r s1]. cbn [fst snd] in I1.
      specialize (IH s1 _ I1).
      destruct (run_ops (Some f) ops s1) as [rs s2]. cbn [fst snd raw_reported] in *.
      unfold rep_of in IH. rewrite <- orb_assoc in IH. exact IH.
  Qed.

  (* after any operations: if the sink has failed, a raw call has already
     returned its error, or the next buffered operation returns it *)
  Lemma sink_surfaces_lemma : forall ops op,
      is_buffered_report op = true ->
      let (rs, s) := run_ops (Some f) ops w0 in
      let (r, s') := step (Some f) op s in
      sfired s' = true ->
      raw_reported (fid f) ops rs = true \/ r = Some (fid f).
  Proof.
    intros ops op Hop.
    pose proof (run_inv ops w0 false inv_w0) as I.
    destruct (run_ops (Some f) ops w0) as [rs s]. cbn [fst snd orb] in I.
    destruct I as [I1 I2].
    assert (Sp : buf_spec s (fst (step (Some f) op s)) (snd (step (Some f) op s))).
    { destruct op; try discriminate; cbn [step]; [apply bufio_write_spec|apply bufio_flush_spec|apply bufio_flush_spec]. }
    destruct (step (Some f) op s) as [r s']. cbn [fst snd] in Sp. unfold buf_spec in Sp.
    intro Hf. fold e.
    destruct (berr s) as [x|] eqn:Hb.
    - destruct Sp as [-> _]. destruct I1 as [H|H]; [discriminate|]. right. exact H.
    - destruct Sp as [(_ & _ & H3)|(H1 & _)]; [|right; exact H1].
      rewrite H3 in Hf. destruct (I2 Hf) as [H|H]; [left; exact H|discriminate].
  Qed.
End SinkFlow.

(* ---------------------------------------------------------------------- *)
(* every index the fault-free run reaches makes the fault fire *)

Lemma sink_call_nofire f c s :
  sfired (snd (sink_call (Some f) c s)) = false ->
  sink_call (Some f) c s = sink_call None c s /\
  ((scalls s < fk f)%nat -> (scalls (snd (sink_call (Some f) c s)) < fk f)%nat).
Proof.
  unfold sink_call. cbn [fires].
  destruct (fm f) eqn:Em.
  - destruct (Nat.leb (fk f) (S (scalls s))) eqn:E; cbn; [discriminate|].
    intros _. split; [reflexivity|]. intros _. apply Nat.leb_gt in E. exact E.
  - destruct (Nat.eqb (S (scalls s)) (fk f)) eqn:E; cbn; [discriminate|].
    intros _. split; [reflexivity|]. intros H. apply Nat.eqb_neq in E. lia.
Qed.

Lemma sink_call_fired_mono f c s : sfired s = true -> sfired (snd (sink_call f c s)) = true.
Proof. unfold sink_call. destruct (fires f (S (scalls s))); cbn; auto. Qed.

Lemma bsw_nofire f n s :
  sfired (snd (bufio_sink_write (Some f) n s)) = false ->
  bufio_sink_write (Some f) n s = bufio_sink_write None n s /\
  ((scalls s < fk f)%nat -> (scalls (snd (bufio_sink_write (Some f) n s)) < fk f)%nat).
Proof.
  unfold bufio_sink_write. pose proof (sink_call_nofire f (CWrite n) s) as H.
  destruct (sink_call (Some f) (CWrite n) s) as [[x|] s'] eqn:E; cbn [snd] in *; intro Hf.
  - cbn in Hf. destruct (H Hf) as [H1 H2]. rewrite <- H1. split; [reflexivity|exact H2].
  - destruct (H Hf) as [H1 H2]. rewrite <- H1. split; [reflexivity|exact H2].
Qed.

Lemma bsw_fired_mono f n s : sfired s = true -> sfired (snd (bufio_sink_write f n s)) = true.
Proof.
  intro H. unfold bufio_sink_write. pose proof (sink_call_fired_mono f (CWrite n) s H) as M.
  destruct (sink_call f (CWrite n) s) as [[x|] s']; exact M.
Qed.

Lemma step_nofire f op s :
  sfired (snd (step (Some f) op s)) = false ->
  step (Some f) op s = step None op s /\
  ((scalls s < fk f)%nat -> (scalls (snd (step (Some f) op s)) < fk f)%nat).
Proof.
  assert (FL : sfired (snd (bufio_flush (Some f) s)) = false ->
               bufio_flush (Some f) s = bufio_flush None s /\
               ((scalls s < fk f)%nat -> (scalls (snd (bufio_flush (Some f) s)) < fk f)%nat)).
  { unfold bufio_flush. destruct (berr s); [auto|]. destruct (buffered s =? 0)%N; [auto|].
    pose proof (bsw_nofire f (buffered s) s) as H.
    destruct (bufio_sink_write (Some f) (buffered s) s) as [[x|] s'] eqn:E; cbn [snd] in *; intro Hf;
      destruct (H Hf) as [H1 H2]; rewrite <- H1; auto. }
  destruct op as [n| | |n| | |n|n]; cbn [step]; try exact FL; try apply sink_call_nofire;
    try (unfold sink_read; cbn; auto).
  unfold bufio_write. destruct (berr s); [auto|].
  destruct (n <=? bufio_size - buffered s)%N; [auto|].
  destruct (buffered s =? 0)%N; [apply bsw_nofire|].
  pose proof (bsw_nofire f bufio_size (set_buf s bufio_size)) as H.
  pose proof (bsw_fired_mono (Some f)) as M.
  destruct (bufio_sink_write (Some f) bufio_size (set_buf s bufio_size)) as [[x|] s'] eqn:E; cbn [snd] in *.
  - intro Hf. destruct (H Hf) as [H1 H2]. rewrite <- H1. auto.
  - destruct (n - (bufio_size - buffered s) <=? bufio_size)%N.
    + intro Hf. cbn in Hf. destruct (H Hf) as [H1 H2]. rewrite <- H1. auto.
    + intro Hf.
      assert (Hs' : sfired s' = false).
      { destruct (sfired s') eqn:F; [|reflexivity].
        rewrite (M (n - (bufio_size - buffered s))%N (set_buf s' 0) F) in Hf. discriminate. }
      destruct (H Hs') as [H1 H2]. rewrite <- H1.
      pose proof (bsw_nofire f (n - (bufio_size - buffered s))%N (set_buf s' 0) Hf) as [H3 H4].
      split; [exact H3|]. intro Hk. apply H4. cbn. apply H2. exact Hk.
Qed.

Lemma step_fired_mono f op s : sfired s = true -> sfired (snd (step f op s)) = true.
Proof.
  intro H.
  assert (FL : sfired (snd (bufio_flush f s)) = true).
  { unfold bufio_flush. destruct (berr s); [exact H|]. destruct (buffered s =? 0)%N; [exact H|].
    pose proof (bsw_fired_mono f (buffered s) s H) as M.
    destruct (bufio_sink_write f (buffered s) s) as [[x|] s']; exact M. }
  destruct op as [n| | |n| | |n|n]; cbn [step]; try exact FL; try (apply sink_call_fired_mono; exact H);
    try exact H.
  unfold bufio_write. destruct (berr s); [exact H|].
  destruct (n <=? bufio_size - buffered s)%N; [exact H|].
  destruct (buffered s =? 0)%N; [apply bsw_fired_mono; exact H|].
  pose proof (bsw_fired_mono f bufio_size (set_buf s bufio_size) H) as M.
  destruct (bufio_sink_write f bufio_size (set_buf s bufio_size)) as [[x|] s']; cbn [snd] in *; [exact M|].
  destruct (n - (bufio_size - buffered s) <=? bufio_size)%N; [exact M|].
  apply bsw_fired_mono. exact M.
Qed.

Lemma run_fired_mono f : forall ops s, sfired s = true -> sfired (snd (run_ops f ops s)) = true.
Proof.
  induction ops as [|op ops IH]; intros s H; cbn [run_ops]; [exact H|].
  pose proof (step_fired_mono f op s H) as M.
  destruct (step f op s) as [r s1]. cbn [snd] in M. specialize (IH s1 M).
  destruct (run_ops f ops s1) as [rs s2]. exact IH.
Qed.

Lemma run_nofire f : forall ops s,
    sfired (snd (run_ops (Some f) ops s)) = false ->
    run_ops (Some f) ops s = run_ops None ops s /\
    ((scalls s < fk f)%nat -> (scalls (snd (run_ops (Some f) ops s)) < fk f)%nat).
Proof.
  induction ops as [|op ops IH]; intros s; cbn [run_ops]; [auto|].
  pose proof (step_nofire f op s) as St.
  pose proof (run_fired_mono (Some f) ops) as M.
  destruct (step (Some f) op s) as [r s1] eqn:E1. cbn [snd] in St.
  specialize (IH s1). specialize (M s1).
  destruct (run_ops (Some f) ops s1) as [rs s2] eqn:E2. cbn [snd] in *.
  intro Hf.
  assert (H1 : sfired s1 = false).
  { destruct (sfired s1); [|reflexivity]. rewrite (M eq_refl) in Hf. discriminate. }
  destruct (St H1) as [St1 St2]. destruct (IH Hf) as [IH1 IH2].
  rewrite <- St1, <- IH1. split; [reflexivity|]. intro Hk. apply IH2, St2, Hk.
Qed.

Lemma run_ops_app f : forall a b s,
    run_ops f (a ++ b) s =
    let (r1, s1) := run_ops f a s in
    let (r2, s2) := run_ops f b s1 in (r1 ++ r2, s2).
Proof.
  induction a as [|op a IH]; intros b s; cbn [run_ops app].
  - destruct (run_ops f b s); reflexivity.
  - destruct (step f op s) as [r s1]. rewrite IH.
    destruct (run_ops f a s1) as [r1 s2]. destruct (run_ops f b s2) as [r2 s3]. reflexivity.
Qed.

Lemma run_ops_length f : forall ops s, length (fst (run_ops f ops s)) = length ops.
Proof.
  induction ops as [|op ops IH]; intros s; cbn [run_ops]; [reflexivity|].
  destruct (step f op s) as [r s1]. specialize (IH s1).
  destruct (run_ops f ops s1) as [rs s2]. cbn in *. congruence.
Qed.

Lemma raw_reported_app e : forall a ra b rb,
    length ra = length a ->
    raw_reported e (a ++ b) (ra ++ rb) = raw_reported e a ra || raw_reported e b rb.
Proof.
  induction a as [|op a IH]; intros ra b rb Hl; destruct ra as [|r ra]; try discriminate; cbn [app raw_reported].
  - reflexivity.
  - rewrite IH by (cbn in Hl; congruence). rewrite orb_assoc. reflexivity.
Qed.

(* the statement the correspondence run evaluates: for a program that ends with
   the Flush of Close, every fault index reached by the fault-free run comes
   back from a raw call or from that Flush *)
Lemma sink_in_range_surfaces_lemma : forall ops fmd k,
    (1 <= k <= scalls (snd (run_ops None (ops ++ [FinalFlush]) w0)))%nat ->
    surfaces_at (ops ++ [FinalFlush]) fmd k = true.
Proof.
  intros ops fmd k [Hk1 Hk2]. unfold surfaces_at.
  set (f := mkFault k fmd inj_id).
  pose proof (sink_surfaces_lemma f ops FinalFlush eq_refl) as SS.
  pose proof (run_nofire f (ops ++ [FinalFlush]) w0) as NF.
  pose proof (run_ops_length (Some f) ops w0) as Len.
  assert (Efk : fk f = k) by reflexivity. assert (Efid : fid f = inj_id) by reflexivity.
  clearbody f.
  rewrite run_ops_app in *. cbn [run_ops] in *. rewrite Efk in NF.
  destruct (run_ops (Some f) ops w0) as [rs s]. cbn [fst] in Len.
  destruct (step (Some f) FinalFlush s) as [r s'] eqn:Es. cbn [snd] in *.
  destruct (sfired s') eqn:F.
  - destruct (SS eq_refl) as [H|H].
    + rewrite raw_reported_app by exact Len. rewrite Efid in H. rewrite H. reflexivity.
    + rewrite last_last. rewrite H, Efid. rewrite N.eqb_refl. apply orb_true_r.
  - exfalso. destruct (NF eq_refl) as [H1 H2].
    assert (Hlt : (scalls s' < k)%nat) by (apply H2; unfold w0; cbn; lia).
    clear H2. rewrite run_ops_app in H1. cbn [run_ops] in H1.
    destruct (run_ops None ops w0) as [rs0 s0]. destruct (step None FinalFlush s0) as [r0 s0'].
    inversion H1; subst. cbn [snd] in Hk2. lia.
Qed.

(* the hypotheses are satisfiable: a program with a placeholder, 11 sink calls *)
Definition sink_example : list sop :=
  [BWrite 15; BWrite 7000; BWrite 12; BWrite 9000; FlushIgnored; RawSeek; RawSeek; RawWrite 4; RawSeek; BWrite 300; BWrite 5000; FinalFlush].

(* the same with a read-back (Writer.Get) in the middle *)
Definition sink_example_readback : list sop :=
  [BWrite 15; BWrite 7000; BWrite 12] ++ read_back [1024; 1024; 300; 0]%N ++ [BWrite 9000; BWrite 300; FinalFlush].

Lemma sink_example_readback_ok :
  length (sink_calls sink_example_readback) = 11%nat /\
  forallb (fun b => b) (surface_verdicts sink_example_readback OnlyK) = true /\
  forallb (fun b => b) (surface_verdicts sink_example_readback FromK) = true.
Proof. vm_compute. auto. Qed.

Lemma sink_example_ok :
  length (sink_calls sink_example) = 9%nat /\
  forallb (fun b => b) (surface_verdicts sink_example OnlyK) = true /\
  forallb (fun b => b) (surface_verdicts sink_example FromK) = true.
Proof. vm_compute. auto. Qed.
