(* C19 - the writing side: what reaches the sink and where a sink failure comes back.

   writer.go wraps the sink in a bufio.Writer (4096 bytes) unless the sink has
   its own Flush; posWriter counts bytes on top of it; Placeholder.Set
   (types.go) flushes (dropping the result), then seeks and writes on the raw
   sink and seeks back; Writer.Close ends with `err = w.w.w.Flush(); if err !=
   nil { return err }`.

   The model is the sequence of operations at the bufio boundary:
     BWrite n      posWriter.Write -> bufio.Writer.Write of n bytes
     FlushIgnored  x.pdf.w.Flush() in Placeholder.Set (result dropped)
     RawSeek       fill.Seek(...) on the sink            (error returned)
     RawWrite n    fill.Write(x.value) on the sink       (error returned)
     FinalFlush    the Flush of Writer.Close             (error returned)
   and, for Writer.Get (a read-back of an object already in the file, also
   reached from OpenStream when /Filter or /DecodeParms is a reference):
     FlushReturned `err = w.w.w.Flush(); if err != nil { return nil, err }`
     RawSeek       r.Seek(0, SeekCurrent), r.Seek(pos, SeekStart) and the deferred
                   r.Seek(savedPos, SeekStart) whose error becomes the result if
                   there is no earlier one
     RawRead n     the scanner reading the sink (io.Reader)
     RawReadAt n   stream bodies and endstream probes (io.ReaderAt)
   and, for Writer.Close on a Writer made by Create:
     SinkClose     `err = w.origW.(io.Closer).Close(); if err != nil { return err }`
   The property is about failing Write and Seek calls: the fault index counts
   those; Read and ReadAt calls are logged but never fail in the model (what a
   failing read of a read-back may do is the subject of ErrFlow.v: the call
   returns the error, or - a read-ahead nobody needed - the same result).
   run against a sink whose k-th call (Write or Seek) fails.
   Definitions only; proofs in SinkProofs.v. *)
From Coq Require Import List NArith Bool.
From GoPdf.Base Require Import Res.
From GoPdf.C19 Require Import ErrFlow.
Import ListNotations.
Local Open Scope N_scope.

Definition bufio_size : N := 4096.   (* bufio.defaultBufSize, used by bufio.NewWriter *)

Inductive sop :=
| BWrite (n : N) | FlushIgnored | RawSeek | RawWrite (n : N) | FinalFlush
| FlushReturned | RawRead (n : N) | RawReadAt (n : N)
| SinkClose.

Inductive scall := CWrite (n : N) | CSeek | CRead (n : N) | CReadAt (n : N) | CClose.

Record wst := mkW {
  buffered : N;          (* bufio.Writer.n *)
  berr : option N;       (* bufio.Writer.err - sticky *)
  scalls : nat;          (* Write and Seek calls made on the sink *)
  sfired : bool;
  slog : list scall      (* the calls, most recent first *)
}.

Definition w0 : wst := mkW 0 None 0%nat false [].

(* one call on the sink *)
Definition sink_call (f : option fault) (c : scall) (s : wst) : option N * wst :=
  let n := S (scalls s) in
  match fires f n with
  | Some e => (Some e, mkW (buffered s) (berr s) n true (c :: slog s))
  | None => (None, mkW (buffered s) (berr s) n (sfired s) (c :: slog s))
  end.

(* a Read / ReadAt of a read-back: logged, outside the fault index *)
Definition sink_read (c : scall) (s : wst) : option N * wst :=
  (None, mkW (buffered s) (berr s) (scalls s) (sfired s) (c :: slog s)).

Definition set_buf (s : wst) (b : N) : wst := mkW b (berr s) (scalls s) (sfired s) (slog s).
Definition set_berr (s : wst) (e : N) : wst := mkW (buffered s) (Some e) (scalls s) (sfired s) (slog s).

(* a Write of the bufio.Writer on the sink: on failure the error sticks *)
Definition bufio_sink_write (f : option fault) (n : N) (s : wst) : option N * wst :=
  match sink_call f (CWrite n) s with
  | (Some e, s') => (Some e, set_berr s' e)
  | (None, s') => (None, s')
  end.

(* bufio.Writer.Flush *)
Definition bufio_flush (f : option fault) (s : wst) : option N * wst :=
  match berr s with
  | Some e => (Some e, s)
  | None =>
      if buffered s =? 0 then (None, s)
      else match bufio_sink_write f (buffered s) s with
           | (Some e, s') => (Some e, s')
           | (None, s') => (None, set_buf s' 0)
           end
  end.

(* bufio.Writer.Write(p), len(p) = n:
     for len(p) > b.Available() && b.err == nil {
        if b.Buffered() == 0 { n, b.err = b.wr.Write(p) }      // large write, empty buffer: direct
        else { n = copy(b.buf[b.n:], p); b.n += n; b.Flush() }
        p = p[n:] }
     if b.err != nil { return nn, b.err }
     copy the rest into the buffer
   The loop body runs at most twice. *)
Definition bufio_write (f : option fault) (n : N) (s : wst) : option N * wst :=
  match berr s with
  | Some e => (Some e, s)
  | None =>
      let avail := bufio_size - buffered s in
      if n <=? avail then (None, set_buf s (buffered s + n))
      else if buffered s =? 0 then bufio_sink_write f n s
      else
        match bufio_sink_write f bufio_size (set_buf s bufio_size) with
        | (Some e, s') => (Some e, s')
        | (None, s') =>
            let rest := n - avail in
            let s'' := set_buf s' 0 in
            if rest <=? bufio_size then (None, set_buf s'' rest)
            else bufio_sink_write f rest s''
        end
  end.

Definition step (f : option fault) (op : sop) (s : wst) : option N * wst :=
  match op with
  | BWrite n => bufio_write f n s
  | FlushIgnored => bufio_flush f s
  | FinalFlush => bufio_flush f s
  | RawSeek => sink_call f CSeek s
  | RawWrite n => sink_call f (CWrite n) s
  | FlushReturned => bufio_flush f s
  | RawRead n => sink_read (CRead n) s
  | RawReadAt n => sink_read (CReadAt n) s
  | SinkClose => sink_call f CClose s
  end.

Fixpoint run_ops (f : option fault) (ops : list sop) (s : wst) : list (option N) * wst :=
  match ops with
  | [] => ([], s)
  | op :: ops' =>
      let (r, s') := step f op s in
      let (rs, s'') := run_ops f ops' s' in
      (r :: rs, s'')
  end.

(* operations whose error the Writer code returns to its caller without relying
   on any other propagation: the raw sink calls of Placeholder.Set *)
Definition is_raw (op : sop) : bool :=
  match op with RawSeek | RawWrite _ | SinkClose => true | _ => false end.

(* operations that go through the bufio.Writer and report its state *)
Definition is_buffered_report (op : sop) : bool :=
  match op with BWrite _ | FinalFlush | FlushReturned => true | _ => false end.

Fixpoint raw_reported (e : N) (ops : list sop) (rs : list (option N)) : bool :=
  match ops, rs with
  | op :: ops', r :: rs' =>
      (is_raw op && match r with Some x => N.eqb x e | None => false end) || raw_reported e ops' rs'
  | _, _ => false
  end.

(* Writer.Get of an object outside object streams: flush, remember the position,
   seek to the object, read, seek back *)
Definition read_back (reads : list N) : list sop :=
  [FlushReturned; RawSeek; RawSeek] ++ map RawRead reads ++ [RawSeek].

(* ---- Writer.Close ------------------------------------------------------ *)

(* Close writes the catalog, Info, whatever the resource manager deferred, the
   cross-reference table or stream (for a stream possibly with a placeholder:
   ignored Flush, raw Seek/Write) and the trailer, `return err` after each step
   that fails; then the Flush, then the Close of the sink if it owns it.  Only
   the Flush inside Placeholder.Set (and reads) do not report. *)
Definition reports (op : sop) : bool :=
  match op with FlushIgnored | RawRead _ | RawReadAt _ => false | _ => true end.

Fixpoint run_close (f : option fault) (cl : list sop) (s : wst) : option N * wst :=
  match cl with
  | [] => (None, s)
  | op :: cl' =>
      let (r, s') := step f op s in
      if reports op then
        match r with
        | Some e => (Some e, s')          (* `if err != nil { return err }` *)
        | None => run_close f cl' s'
        end
      else run_close f cl' s'
  end.

(* the operations of Close: any body, the Flush, the sink's Close if owned *)
Definition close_ops (body : list sop) (owns : bool) : list sop :=
  body ++ FinalFlush :: (if owns then [SinkClose] else []).

(* verdicts for every sink call index made during Close *)
Definition close_verdicts (before body : list sop) (owns : bool) (fmd : fmode) : list bool :=
  let n0 := scalls (snd (run_ops None before w0)) in
  let n1 := scalls (snd (run_close None (close_ops body owns) (snd (run_ops None before w0)))) in
  map (fun k =>
         let f := Some (plain_fault k fmd inj_id) in
         match fst (run_close f (close_ops body owns) (snd (run_ops f before w0))) with
         | Some x => N.eqb x inj_id
         | None => false
         end)
      (seq (S n0) (n1 - n0)).

(* ---- the Writer's own sticky error (writer.go: Writer.err, Writer.fail) ---- *)

(* A Writer call is a sequence of operations that returns at the first one that
   reports an error.  Put, WriteCompressed, the Write and Close of a stream
   record that error in Writer.err if none is recorded yet ([c_records]);
   Put, OpenStream, WriteCompressed and Close begin with
   `else if w.err != nil { return w.err }` ([c_checks]).  Writer.fail wraps with
   %w, so the recorded error is the sink's error as far as errors.Is goes. *)
Record wcall := mkCall { c_ops : list sop; c_records : bool; c_checks : bool }.

Definition run_call (f : option fault) (c : wcall) (st : option N * wst) : option N * (option N * wst) :=
  let (we, s) := st in
  match (if c_checks c then we else None) with
  | Some e => (Some e, (we, s))
  | None =>
      let (r, s') := run_close f (c_ops c) s in
      (r, (match we, r with
           | None, Some e => if c_records c then Some e else None
           | _, _ => we
           end, s'))
  end.

Fixpoint run_calls (f : option fault) (cs : list wcall) (st : option N * wst) : list (option N) :=
  match cs with
  | [] => []
  | c :: cs' => let (r, st') := run_call f c st in r :: run_calls f cs' st'
  end.

Fixpoint state_after (f : option fault) (cs : list wcall) (st : option N * wst) : option N * wst :=
  match cs with
  | [] => st
  | c :: cs' => state_after f cs' (snd (run_call f c st))
  end.

(* ---- entry points for the correspondence run -------------------------- *)

(* the sink calls of the fault-free run, in order *)
Definition sink_calls (ops : list sop) : list scall :=
  rev (slog (snd (run_ops None ops w0))).

(* does a fault at call k come back from a raw call or from the final Flush? *)
(* a Flush whose result the Writer returns (Writer.Get, Writer.Close) reported e *)
Definition is_returned_flush (op : sop) : bool :=
  match op with FinalFlush | FlushReturned => true | _ => false end.

Fixpoint flush_reported (e : N) (ops : list sop) (rs : list (option N)) : bool :=
  match ops, rs with
  | op :: ops', r :: rs' =>
      (is_returned_flush op && match r with Some x => N.eqb x e | None => false end) || flush_reported e ops' rs'
  | _, _ => false
  end.

Definition surfaces_at (ops : list sop) (fmd : fmode) (k : nat) : bool :=
  let f := Some (plain_fault k fmd inj_id) in
  let (rs, s) := run_ops f ops w0 in
  raw_reported inj_id ops rs || flush_reported inj_id ops rs.

Definition surface_verdicts (ops : list sop) (fmd : fmode) : list bool :=
  map (surfaces_at ops fmd) (seq 1%nat (scalls (snd (run_ops None ops w0)))).
