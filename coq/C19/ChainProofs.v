(* C19 - proofs about the filter-chain error path (Chain.v). *)
From Coq Require Import List NArith Bool Lia.
From GoPdf.Base Require Import Res.
From GoPdf.C19 Require Import ErrFlow Chain.
Import ListNotations.

Definition cinv (src : source) (c : cstate) : Prop := srcErr c = first_err src (ccalls c).

Lemma cinv_c0 src : cinv src c0.
Proof. reflexivity. Qed.

Lemma first_err_not_eof src m e : first_err src m = Some e -> is_eof e = false.
Proof.
  induction m as [|m IH]; cbn; [discriminate|].
  destruct (first_err src m) as [x|].
  - intro H; inversion H; subst. apply IH. reflexivity.
  - destruct (snd (src m)) as [c|]; [|discriminate].
    destruct (is_eof c) eqn:E; [discriminate|]. intro H; inversion H; subst. exact E.
Qed.

Lemma run_tree_inv {S : Type} src (t : itree S) : forall c,
    cinv src c -> cinv src (snd (run_tree src t c)).
Proof.
  induction t as [s out|k IH]; intros c Hc; cbn [run_tree].
  - exact Hc.
  - apply IH. unfold cinv in *. cbn [srcErr ccalls first_err]. rewrite <- Hc.
    unfold chk_update. destruct (srcErr c); reflexivity.
Qed.

Lemma sa_read_spec {S : Type} src (layer : S -> itree S) s c :
  let '(s1, out0, c1) := run_tree src (layer s) c in
  let '(s2, out, c2) := sa_read src layer s c in
  s2 = s1 /\ c2 = c1 /\ fst out = fst out0 /\
  snd out = match snd out0, srcErr c1 with Some _, Some e => Some e | x, _ => x end.
Proof.
  unfold sa_read. destruct (run_tree src (layer s) c) as [[s1 out0] c1].
  destruct (snd out0) as [x|] eqn:E1; destruct (srcErr c1) as [e|] eqn:E2; cbn; rewrite ?E1; auto.
Qed.

Lemma sa_read_inv {S : Type} src (layer : S -> itree S) s c :
  cinv src c -> cinv src (snd (sa_read src layer s c)).
Proof.
  intro Hc. pose proof (run_tree_inv src (layer s) c Hc) as H.
  pose proof (sa_read_spec src layer s c) as Sp.
  destruct (run_tree src (layer s) c) as [[s1 out0] c1].
  destruct (sa_read src layer s c) as [[s2 out] c2].
  destruct Sp as (_ & -> & _). exact H.
Qed.

(* what the consumer sees whenever the chain reports an error *)
Lemma sa_read_promotes {S : Type} src (layer : S -> itree S) s c e :
  cinv src c ->
  let '(_, out, c') := sa_read src layer s c in
  first_err src (ccalls c') = Some e -> snd out <> None -> snd out = Some e.
Proof.
  intro Hc. pose proof (run_tree_inv src (layer s) c Hc) as H.
  pose proof (sa_read_spec src layer s c) as Sp.
  destruct (run_tree src (layer s) c) as [[s1 out0] c1].
  destruct (sa_read src layer s c) as [[s2 out] c2].
  destruct Sp as (_ & -> & _ & Hs). cbn [snd] in H. unfold cinv in H.
  intros He Hne. rewrite Hs in *. rewrite H, He in *.
  destruct (snd out0); [reflexivity|congruence].
Qed.

Lemma promote_general {S : Type} src (layer : S -> itree S) : forall n s c out c' e,
    cinv src c ->
    In (out, c') (run_reads src layer n s c) ->
    first_err src (ccalls c') = Some e -> snd out <> None -> snd out = Some e.
Proof.
  induction n as [|n IH]; intros s c out c' e Hc Hin; cbn [run_reads] in Hin; [contradiction|].
  pose proof (sa_read_promotes src layer s c e Hc) as P.
  pose proof (sa_read_inv src layer s c Hc) as I.
  destruct (sa_read src layer s c) as [[s1 o1] c1]. cbn [snd] in I.
  destruct Hin as [Heq|Hin].
  - inversion Heq; subst. exact P.
  - eapply IH; eassumption.
Qed.

Lemma promote_lemma :
  forall (S : Type) (src : source) (layer : S -> itree S) (n : nat) (s : S) out c' e,
    In (out, c') (run_reads src layer n s c0) ->
    first_err src (ccalls c') = Some e ->
    snd out <> None ->
    snd out = Some e.
Proof. intros. eapply promote_general; eauto. apply cinv_c0. Qed.

Lemma promote_ctor_lemma : forall src c err e,
    cinv src c -> first_err src (ccalls c) = Some e -> promote_ctor (srcErr c) err = e.
Proof. intros src c err e Hc He. unfold promote_ctor. rewrite Hc, He. reflexivity. Qed.

Lemma read_all_general {S : Type} src (layer : S -> itree S) : forall fuel s c acc r c' e,
    cinv src c ->
    read_all src layer fuel s c acc = (r, c') ->
    r <> Err OutOfFuel ->
    first_err src (ccalls c') = Some e ->
    r = Err e.
Proof.
  induction fuel as [|fuel IH]; intros s c acc r c' e Hc Hr Hne He; cbn [read_all] in Hr.
  - inversion Hr; subst. congruence.
  - pose proof (sa_read_promotes src layer s c e Hc) as P.
    pose proof (sa_read_inv src layer s c Hc) as I.
    destruct (sa_read src layer s c) as [[s1 o1] c1]. cbn [snd] in I.
    destruct (snd o1) as [x|] eqn:Eo.
    + assert (Hx : x = e /\ c1 = c').
      { destruct x; inversion Hr; subst; split; try reflexivity;
          (assert (Some _ = Some e) as Q by (apply P; [assumption|discriminate]); inversion Q; reflexivity). }
      destruct Hx as [-> ->].
      pose proof (first_err_not_eof _ _ _ He) as NE.
      destruct e; inversion Hr; subst; try reflexivity. discriminate.
    + eapply IH; eassumption.
Qed.

Lemma read_all_promote_lemma :
  forall (S : Type) (src : source) (layer : S -> itree S) fuel (s : S) r c' e,
    read_all src layer fuel s c0 [] = (r, c') ->
    r <> Err OutOfFuel ->
    first_err src (ccalls c') = Some e ->
    r = Err e.
Proof. intros. eapply read_all_general; eauto. apply cinv_c0. Qed.

(* the hypotheses are satisfiable, and the three concrete stacks behave as predicted *)
Lemma chain_examples :
  chain_outcomes 3 OnlyK = [OIO; OIO; OIO] /\ chain_outcomes 4 FromK = [OIO; OIO; OIO; OIO].
Proof. vm_compute. auto. Qed.

(* the shape of the source's error does not matter to the == checker; the
   errors.Is checker of before fix F59 lost an error that wraps io.EOF: the
   construction-time error of DecodeStream stayed malformed *)
Lemma errors_Is_checker_loses_the_error :
  let wraps_eof := fun c => match c with IO 7 => true | _ => false end in
  promote_ctor (chk_update None ([], Some (IO 7))) Malformed = IO 7 /\
  promote_ctor (chk_update_is wraps_eof None ([], Some (IO 7))) Malformed = Malformed /\
  (forall c, chk_update_is (fun _ => false) None ([], Some c) = chk_update None ([], Some c)).
Proof.
  split; [reflexivity|]. split; [reflexivity|].
  intro c. unfold chk_update_is, chk_update. cbn. rewrite orb_false_r. reflexivity.
Qed.
