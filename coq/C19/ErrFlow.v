(* C19 - error flow of the reading side (DESIGN.md §4 C19, Appendix C "Error flow").

   (i)  A small language of reader programs and its semantics over a fault
        schedule of the byte source (io.ReaderAt): the k-th ReadAt call fails,
        either from the k-th call on or only the k-th.
   (ii) go-pdf's control flow written in that language, phase by phase:
        NewReader (reader.go), Reader.Get / ReadStreamData (scanner.go),
        DecodeStream (container.go, filter.go), the typed decodes, and
        SequentialScan+MakeReader (sequential.go).  The programs are built from
        the labelled trace of ReadAt calls the harness records in the fault-free
        run (which phase, which kind of read), so that the k-th ReadAt of the
        program is the k-th ReadAt of the real call.

   Definitions only; the proofs are in ErrFlowProofs.v. *)
From Coq Require Import List NArith ZArith Bool.
From GoPdf.Base Require Import Res.
From GoPdf.Gen Require Import Gen_C19.
Import ListNotations.
Local Open Scope N_scope.

Definition val := N.

(* ---------------------------------------------------------------------- *)
(* fault schedules *)

Inductive fmode := FromK | OnlyK.

(* What a failing call returns.  io.ReaderAt / io.Reader may return data
   together with the error:
     FKErr      (0, err)
     FKPartial  (n, err) with 0 < n < len(p)
     FKFull     (len(p), err)
   What the reading code makes of data that comes with an error depends on the
   bytes (is the part that arrived enough for what the caller wants?), which the
   language does not see; it is an extra input of the semantics, one decision
   per source call:
     NeedMore   the caller asks for more and gets the latched error
     Enough     the caller is served from the part that arrived
     Dropped    io.ReadFull / io.CopyN received exactly what they asked for and
                dropped the error (the data is complete, nothing is latched)
     ShortTaken the short data is taken for the end of the input - what
                scanner.PeekN does when its own refill received fewer bytes than
                its window; the surfacing theorem excludes this decision *)
Inductive fkind := FKErr | FKPartial | FKFull.
Inductive pdec := NeedMore | Enough | Dropped | ShortTaken.
Record fault := mkFault { fk : nat; fm : fmode; fid : N; fkd : fkind; forc : nat -> pdec }.

Definition plain_fault (k : nat) (m : fmode) (e : N) : fault := mkFault k m e FKErr (fun _ => NeedMore).

(* does the n-th ReadAt call (1-based) fail? *)
Definition fires (f : option fault) (n : nat) : option N :=
  match f with
  | None => None
  | Some f =>
      match fm f with
      | FromK => if Nat.leb (fk f) n then Some (fid f) else None
      | OnlyK => if Nat.eqb n (fk f) then Some (fid f) else None
      end
  end.

(* ---------------------------------------------------------------------- *)
(* the error-handling policy of NewReader / MakeReader (reader.go, sequential.go)

     shouldExit := func(err error) bool {
         if err == nil { return false }
         if !IsMalformed(err) { return true }
         if opt.ErrorHandling == ErrorHandlingReport {
             if errors.As(err, &e) { r.Errors = append(r.Errors, e); return false } }
         return opt.ErrorHandling != ErrorHandlingRecover }

   The mode constants are regenerated from the Go source (Gen_C19). *)

Inductive decision := Exit | Record | Ignore.

Definition is_malformed (c : cls) : bool := match c with Malformed => true | _ => false end.

Definition should_exit (m : Z) (malformed : bool) : decision :=
  if negb malformed then Exit
  else if Z.eqb m ErrorHandlingReport then Record
  else if negb (Z.eqb m ErrorHandlingRecover) then Exit
  else Ignore.

(* the phases of NewReader; the first three never consult the policy *)
Inductive phase := PhHeader | PhXRef | PhEncrypt | PhID | PhIDLen | PhCatDict | PhCatalog | PhInfo.

Definition has_policy (ph : phase) : bool :=
  match ph with PhHeader | PhXRef | PhEncrypt => false | _ => true end.

Definition policy (m : Z) (ph : phase) (c : cls) : decision :=
  if has_policy ph then should_exit m (is_malformed c) else Exit.

Definition all_modes : list Z := [ErrorHandlingRecover; ErrorHandlingReport; ErrorHandlingStop].
Definition all_phases : list phase := [PhHeader; PhXRef; PhEncrypt; PhID; PhIDLen; PhCatDict; PhCatalog; PhInfo].

(* error classes up to the identity of the I/O error *)
Inductive ckind := CMalformed | CEOF | CIO | CAuth | CPanic | COutOfFuel | COther.
Definition all_ckinds : list ckind := [CMalformed; CEOF; CIO; CAuth; CPanic; COutOfFuel; COther].
Definition kind_of (c : cls) : ckind :=
  match c with
  | Malformed => CMalformed | EOF => CEOF | IO _ => CIO | Auth => CAuth
  | Panic => CPanic | OutOfFuel => COutOfFuel | Other => COther
  end.
Definition rep_of (k : ckind) : cls :=
  match k with
  | CMalformed => Malformed | CEOF => EOF | CIO => IO 0 | CAuth => Auth
  | CPanic => Panic | COutOfFuel => OutOfFuel | COther => Other
  end.

(* the table check: whenever the policy does not exit, the error was malformed *)
Definition policy_row_ok (m : Z) (ph : phase) (k : ckind) : bool :=
  match policy m ph (rep_of k) with
  | Exit => true
  | _ => match k with CMalformed => true | _ => false end
  end.

Definition policy_table_ok : bool :=
  forallb (fun m => forallb (fun ph => forallb (policy_row_ok m ph) all_ckinds) all_phases) all_modes.

(* the policy as it was before fix F6 (no `!IsMalformed(err)` test) - kept to
   show what the table theorem excludes *)
Definition should_exit_preF6 (m : Z) (malformed : bool) : decision :=
  if Z.eqb m ErrorHandlingReport then (if malformed then Record else Exit)
  else if negb (Z.eqb m ErrorHandlingRecover) then Exit
  else Ignore.

(* ---------------------------------------------------------------------- *)
(* reader programs *)

Inductive prog : Type :=
| Ret (v : val)
| Fail (c : cls)                               (* a content error decided by the data *)
| ReadAt (off : N)                             (* one call of the byte source *)
| Bind (p : prog) (k : val -> prog)
| Wrap (loc : N) (p : prog)                    (* pdf.Wrap / fmt.Errorf("%w"): keeps the class *)
| Optional (p : prog) (dflt : val)             (* pdf.Optional and `if IsMalformed(err) { continue }` *)
| Policy (m : Z) (ph : phase) (p : prog) (dflt : val)
| Note (v : val)                               (* r.Errors = append(r.Errors, ...) *)
| Latch (p : prog)                             (* a scanner: refill latches the first source error *)
| SrcCheck (p : prog)                          (* sourceErrChecker ... sourceAwareReader *)
| Reclass (p : prog)                           (* filterContentReader: non-EOF, non-malformed -> malformed *)
| OrElse (p : prog) (h : prog)                 (* `if err == nil { return .. } else if isSourceFailure(err) { return err }`:
                                                  malformed or truncated content falls through to h *)
| CatchAll (p : prog) (h : cls -> prog).       (* an error-discarding construct *)

Inductive latch := NoLatch | Armed | Tripped (e : N).

Record st := mkSt {
  reads : nat;            (* ReadAt calls made on the byte source so far *)
  lat : latch;            (* scanner.err of the innermost scanner *)
  chk : option (option N);(* sourceErrChecker.srcErr of the innermost DecodeStream, if inside one *)
  recorded : nat;         (* len(r.Errors) *)
  fired : bool;           (* the injected fault has fired *)
  swallowed : bool        (* a CatchAll caught an error after the fault fired *)
}.

Definition st0 : st := mkSt 0%nat NoLatch None 0%nat false false.

Definition set_lat (s : st) (l : latch) : st := mkSt (reads s) l (chk s) (recorded s) (fired s) (swallowed s).
Definition set_chk (s : st) (c : option (option N)) : st := mkSt (reads s) (lat s) c (recorded s) (fired s) (swallowed s).
Definition add_recorded (s : st) : st := mkSt (reads s) (lat s) (chk s) (S (recorded s)) (fired s) (swallowed s).
Definition set_swallowed (s : st) : st := mkSt (reads s) (lat s) (chk s) (recorded s) (fired s) (orb (fired s) (swallowed s)).

(* one ReadAt that fails with e *)
Definition read_fail (s : st) (e : N) : st :=
  mkSt (S (reads s))
       (match lat s with Armed => Tripped e | l => l end)
       (match chk s with Some None => Some (Some e) | c => c end)
       (recorded s) true (swallowed s).

Definition read_ok (s : st) : st :=
  mkSt (S (reads s)) (lat s) (chk s) (recorded s) (fired s) (swallowed s).

(* the error came with all the data and was dropped by io.ReadFull *)
Definition read_dropped (s : st) : st :=
  mkSt (S (reads s)) (lat s) (chk s) (recorded s) true (swallowed s).

(* is the read made by a buffering consumer (a scanner's refill, a filter chain
   feeding one) rather than by a probe that looks at err first? *)
Definition buffered_ctx (s : st) : bool :=
  match lat s, chk s with
  | Armed, _ => true
  | _, Some _ => true
  | _, _ => false
  end.

(* a truncated value, different from every complete one of [default_file] *)
Definition short_of (v : val) : val := 0%N.

(* the failing call, n-th of the run *)
Definition read_faulted (file : N -> val) (f : option fault) (s : st) (e : N) (off : N) (n : nat) : res val * st :=
  match f with
  | None => (Err (IO e), read_fail s e)
  | Some ft =>
      match fkd ft with
      | FKErr => (Err (IO e), read_fail s e)
      | _ =>
          if buffered_ctx s then
            match forc ft n with
            | NeedMore => (Err (IO e), read_fail s e)
            | Enough => (Ok (file off), read_fail s e)
            | Dropped => (Ok (file off), read_dropped s)
            | ShortTaken => (Ok (short_of (file off)), read_fail s e)
            end
          else (Err (IO e), read_fail s e)     (* `if err != nil && err != io.EOF { return err }` *)
      end
  end.

Definition reclass (c : cls) : cls :=
  match c with EOF => EOF | _ => Malformed end.

Section Eval.
  Variable file : N -> val.
  Variable f : option fault.

  Fixpoint eval (p : prog) (s : st) : res val * st :=
    match p with
    | Ret v => (Ok v, s)
    | Fail c => (Err c, s)
    | ReadAt off =>
        match lat s with
        | Tripped e => (Err (IO e), s)           (* refill returns s.err without reading *)
        | _ =>
            match fires f (S (reads s)) with
            | Some e => read_faulted file f s e off (S (reads s))
            | None => (Ok (file off), read_ok s)
            end
        end
    | Bind p k =>
        match eval p s with
        | (Ok v, s') => eval (k v) s'
        | (Err c, s') => (Err c, s')
        end
    | Wrap _ p => eval p s
    | Optional p d =>
        match eval p s with
        | (Err Malformed, s') => (Ok d, s')
        | r => r
        end
    | Policy m ph p d =>
        match eval p s with
        | (Err c, s') =>
            match policy m ph c with
            | Exit => (Err c, s')
            | Record => (Ok d, add_recorded s')
            | Ignore => (Ok d, s')
            end
        | r => r
        end
    | Note v => (Ok v, add_recorded s)
    | Latch p =>
        let (r, s') := eval p (set_lat s Armed) in (r, set_lat s' (lat s))
    | SrcCheck p =>
        (* the chain reads its own source: the latch of a scanner around it does
           not apply to those reads, only to what comes out of the chain *)
        let (r, s') := eval p (set_lat (set_chk s (Some None)) NoLatch) in
        match r, chk s' with
        | Err _, Some (Some e) => (Err (IO e), set_lat (set_chk s' (chk s)) (lat s))
        | _, _ => (r, set_lat (set_chk s' (chk s)) (lat s))
        end
    | Reclass p =>
        match eval p s with
        | (Err c, s') => (Err (reclass c), s')
        | r => r
        end
    | OrElse p h =>
        match eval p s with
        | (Err Malformed, s') => eval h s'
        | (Err EOF, s') => eval h s'
        | r => r
        end
    | CatchAll p h =>
        match eval p s with
        | (Err c, s') => eval (h c) (set_swallowed s')
        | r => r
        end
    end.
End Eval.

(* ---------------------------------------------------------------------- *)
(* which programs the surfacing theorem covers *)

Definition not_io (c : cls) : Prop := forall e, c <> IO e.

(* inside a DecodeStream chain: reads, sequencing, sticky layers, reclassification *)
Inductive wsafe : prog -> Prop :=
| W_Ret v : wsafe (Ret v)
| W_Fail c : not_io c -> wsafe (Fail c)
| W_ReadAt off : wsafe (ReadAt off)
| W_Bind p k : wsafe p -> (forall v, wsafe (k v)) -> wsafe (Bind p k)
| W_Wrap l p : wsafe p -> wsafe (Wrap l p)
| W_Latch p : wsafe p -> wsafe (Latch p)
| W_Reclass p : wsafe p -> wsafe (Reclass p).

(* [safe c p]: no reclassification outside a DecodeStream chain; catch-alls only if c *)
Inductive safe (c : bool) : prog -> Prop :=
| S_Ret v : safe c (Ret v)
| S_Fail e : not_io e -> safe c (Fail e)
| S_ReadAt off : safe c (ReadAt off)
| S_Bind p k : safe c p -> (forall v, safe c (k v)) -> safe c (Bind p k)
| S_Wrap l p : safe c p -> safe c (Wrap l p)
| S_Optional p d : safe c p -> safe c (Optional p d)
| S_Policy m ph p d : safe c p -> safe c (Policy m ph p d)
| S_Note v : safe c (Note v)
| S_Latch p : safe c p -> safe c (Latch p)
| S_SrcCheck p : wsafe p -> safe c (SrcCheck p)
| S_OrElse p h : safe c p -> safe c h -> safe c (OrElse p h)
| S_CatchAll p h : c = true -> safe c p -> (forall e, safe c (h e)) -> safe c (CatchAll p h).

(* ---------------------------------------------------------------------- *)
(* go-pdf's control flow, built from a labelled trace *)

Inductive rkind :=
| KRefill    (* scanner.refill on a section of the file *)
| KProbe     (* findHeaderOffset, lastOccurence, endstreamAt, trimTrailingEOL: plain ReadAt, error returned *)
| KDiscard   (* scanner.Discard: io.CopyN from the section reader, error returned *)
| KBody      (* streamReader.Read below sourceErrChecker: a stream body read through DecodeStream *)
| KLength    (* a refill while ReadStreamData resolves an indirect /Length *)
| KUnknown.

Definition default_file (off : N) : val := (off + 1)%N.

(* one read of the given kind; [i] makes the values distinguishable *)
Definition read_one (k : rkind) (i : N) : prog :=
  match k with
  | KRefill | KDiscard => Latch (ReadAt i)       (* io.ReadFull / io.CopyN: error returned or latched *)
  | KProbe | KUnknown => ReadAt i
  | KBody => Latch (SrcCheck (Reclass (ReadAt i)))
  | KLength =>
      (* n, err := s.getInt(lengthObj); if IsReadError(err) { return nil, err }: only
         malformed errors make ReadStreamData distrust /Length and go on *)
      Optional (Wrap 1 (Latch (ReadAt i))) 0
  end.

(* all reads of a block in order; the result mixes in every value read *)
Fixpoint reads_from (ks : list rkind) (i : N) (acc : val) : prog :=
  match ks with
  | [] => Ret (acc + 1)%N
  | k :: ks' => Bind (read_one k i) (fun v => reads_from ks' (i + 1)%N (acc + v)%N)
  end.

(* a block: its reads, then the verdict of the content (malformed or not) *)
Definition block (ks : list rkind) (bad : bool) (i : N) : prog :=
  Bind (reads_from ks i 0) (fun v => if bad then Fail Malformed else Ret v).

Record otrace := mkOTrace {
  t_hdr : list rkind; t_xref : list rkind; t_enc : list rkind; t_id : list rkind;
  t_catd : list rkind; t_cat : list rkind; t_info : list rkind;
  bad_id : bool; bad_idlen : bool; bad_catd : bool; bad_cat : bool; bad_info : bool
}.

Definition lenN (l : list rkind) : N := N.of_nat (length l).

(* NewReader (reader.go), after [opt] has been read *)
Definition open_prog (m : Z) (t : otrace) : prog :=
  let o1 := lenN (t_hdr t) in
  let o2 := (o1 + lenN (t_xref t))%N in
  let o3 := (o2 + lenN (t_enc t))%N in
  let o4 := (o3 + lenN (t_id t))%N in
  let o5 := (o4 + lenN (t_catd t))%N in
  let o6 := (o5 + lenN (t_cat t))%N in
  (* findHeaderOffset, ReadHeaderVersion: `return nil, err` *)
  Bind (block (t_hdr t) false 0) (fun vh =>
  (* readXRef: `return nil, Wrap(err, "xref")` *)
  Bind (Wrap 2 (block (t_xref t) false o1)) (fun vx =>
  (* parseEncryptDict: surfaced regardless of ErrorHandling *)
  Bind (Wrap 3 (block (t_enc t) false o2)) (fun ve =>
  (* getID: `if shouldExit(err) { return nil, err }` *)
  Bind (Policy m PhID (block (t_id t) (bad_id t) o3) 0) (fun vi =>
  (* version 2.0 with a short ID: err := &MalformedFileError{errInvalidID}; shouldExit *)
  Bind (Policy m PhIDLen (if bad_idlen t then Fail Malformed else Ret 1%N) 0) (fun _ =>
  (* NewCursor(r).Dict(trailer["Root"]); err = Wrap(err, "document catalog"); shouldExit *)
  Bind (Policy m PhCatDict (Wrap 4 (block (t_catd t) (bad_catd t) o4)) 0) (fun cd =>
  (* Decode(..., catalogDict, DecodeCatalog): a nil dictionary is "missing catalog dictionary" *)
  Bind (Policy m PhCatalog (if N.eqb cd 0 then Fail Malformed else block (t_cat t) (bad_cat t) o5) 0) (fun c =>
  (* r.meta.Catalog == nil || Pages == 0: recorded in Report mode, fatal otherwise *)
  Bind (if N.eqb c 0 then (if Z.eqb m ErrorHandlingReport then Note 1%N else Fail Malformed) else Ret c) (fun c' =>
  (* Decode(..., trailer["Info"], ExtractInfo); shouldExit *)
  Bind (Policy m PhInfo (block (t_info t) (bad_info t) o6) 0) (fun vinfo =>
  Ret (vh + 7 * (vx + 7 * (ve + 7 * (vi + 7 * (c' + 7 * vinfo)))))%N))))))))).

(* Reader.Get / getFromObjStm: `err = Wrap(err, "object "+ref)` around the reads *)
Definition get_prog (ks : list rkind) (bad : bool) : prog := Wrap 5 (block ks bad 0).

(* DecodeStream + io.ReadAll: GetFilters' resolutions, then the chain *)
Definition drain_prog (ks : list rkind) (bad : bool) : prog := block ks bad 0.

(* typed decodes and page-tree walks: every node is read through
   Optional / `if IsMalformed(err) { continue }` *)
Definition decode_prog (ks : list rkind) (bad : bool) : prog := Optional (block ks bad 0) 0.

(* SequentialScan + MakeReader (sequential.go).  getTrailer tries, newest section
   first, the xref stream and then the trailer dictionary of each section; since
   fix F20 an error of reading them that is a failure of the byte source
   (isSourceFailure: not malformed, not EOF) is returned, only malformed or
   truncated content makes it go on to the next candidate and finally to
   errors.New("no trailer found").  [seq_prog_preF20] is the code before that
   fix: every error was dropped. *)
Record qtrace := mkQTrace {
  q_scan : list rkind; q_trailer : list rkind; q_enc : list rkind;
  q_catd : list rkind; q_cat : list rkind; q_info : list rkind;
  q_bad_catd : bool; q_bad_cat : bool; q_bad_info : bool
}.

Definition seq_prog_with (trailer : prog -> prog) (m : Z) (t : qtrace) : prog :=
  let o1 := lenN (q_scan t) in
  let o2 := (o1 + lenN (q_trailer t))%N in
  let o3 := (o2 + lenN (q_enc t))%N in
  let o4 := (o3 + lenN (q_catd t))%N in
  let o5 := (o4 + lenN (q_cat t))%N in
  Bind (block (q_scan t) false 0) (fun vs =>
  Bind (trailer (block (q_trailer t) false o1)) (fun vt =>
  Bind (Wrap 3 (block (q_enc t) false o2)) (fun ve =>
  (* NewCursor(r).Dict(trailer["Root"]): `return nil, err` *)
  Bind (block (q_catd t) (q_bad_catd t) o3) (fun cd =>
  (* Decode(..., DecodeCatalog); shouldExit; a nil catalog is fatal in every mode *)
  Bind (Policy m PhCatalog (block (q_cat t) (q_bad_cat t) o4) 0) (fun c =>
  Bind (if N.eqb c 0 then Fail Malformed else Ret c) (fun c' =>
  Bind (Policy m PhInfo (block (q_info t) (q_bad_info t) o5) 0) (fun vinfo =>
  Ret (vs + 7 * (vt + 7 * (ve + 7 * (cd + 7 * (c' + 7 * vinfo)))))%N))))))).

Definition seq_prog : Z -> qtrace -> prog := seq_prog_with (fun p => OrElse p (Fail Other)).
Definition seq_prog_preF20 : Z -> qtrace -> prog := seq_prog_with (fun p => CatchAll p (fun _ => Fail Other)).

(* ---------------------------------------------------------------------- *)
(* outcome of one faulted call, as the harness classifies it *)

Inductive outcome := OSame | OIO | OMalformed | ODifferent | OOtherErr.

Definition res_eqb (a b : res val) : bool :=
  match a, b with
  | Ok x, Ok y => N.eqb x y
  | Err c, Err d =>
      match c, d with
      | IO x, IO y => N.eqb x y
      | Malformed, Malformed | EOF, EOF | Auth, Auth | Panic, Panic | OutOfFuel, OutOfFuel | Other, Other => true
      | _, _ => false
      end
  | _, _ => false
  end.

Definition classify (inj : N) (clean got : res val) : outcome :=
  if res_eqb clean got then OSame
  else match got with
       | Ok _ => ODifferent
       | Err Malformed => OMalformed
       | Err (IO e) => if N.eqb e inj then OIO else OOtherErr
       | Err _ => OOtherErr
       end.

Definition inj_id : N := 77.

Definition run_clean (p : prog) : res val * st := eval default_file None p st0.

Definition outcome_at (p : prog) (fmd : fmode) (k : nat) : outcome :=
  classify inj_id (fst (run_clean p)) (fst (eval default_file (Some (plain_fault k fmd inj_id)) p st0)).

(* outcomes for every k = 1 .. number of reads of the fault-free run *)
Definition outcomes (p : prog) (fmd : fmode) : list outcome :=
  let c := run_clean p in
  map (fun k => classify inj_id (fst c) (fst (eval default_file (Some (plain_fault k fmd inj_id)) p st0)))
      (seq 1%nat (reads (snd c))).

(* one-shot faults that deliver data together with the error: what happens
   depends on a decision the language does not see, so the prediction is the set
   of outcomes over the three admissible decisions *)
Inductive prediction := PExact (o : outcome) | PSameOrIO.

Definition outcome_eqb (a b : outcome) : bool :=
  match a, b with
  | OSame, OSame | OIO, OIO | OMalformed, OMalformed | ODifferent, ODifferent | OOtherErr, OOtherErr => true
  | _, _ => false
  end.

Definition same_or_io (o : outcome) : bool := match o with OSame | OIO => true | _ => false end.

Definition predictions_partial (p : prog) (kd : fkind) : list prediction :=
  let c := run_clean p in
  let run k d := classify inj_id (fst c) (fst (eval default_file (Some (mkFault k OnlyK inj_id kd (fun _ => d))) p st0)) in
  map (fun k =>
         let a := run k NeedMore in let b := run k Enough in let d := run k Dropped in
         if outcome_eqb a b && outcome_eqb b d then PExact a
         else if same_or_io a && same_or_io b && same_or_io d then PSameOrIO
         else PExact OOtherErr)
      (seq 1%nat (reads (snd c))).

(* what the harness reads off the fault-free run *)
Inductive cclass := CleanOk | CleanMalformed | CleanOther.
Definition clean_class (p : prog) : cclass :=
  match fst (run_clean p) with
  | Ok _ => CleanOk
  | Err Malformed => CleanMalformed
  | Err _ => CleanOther
  end.
Definition clean_recorded (p : prog) : nat := recorded (snd (run_clean p)).
Definition clean_reads (p : prog) : nat := reads (snd (run_clean p)).
