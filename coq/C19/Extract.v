Require Extraction.
Require Import ExtrOcamlBasic.
From GoPdf.Base Require Import WireAnchor.
From GoPdf.C19 Require Import ErrFlow Chain Sink.
Separate Extraction wire_anchor open_prog get_prog drain_prog decode_prog seq_prog outcomes outcome_at
  clean_class clean_recorded clean_reads chain_outcomes sink_calls surface_verdicts table_run promote_run.
