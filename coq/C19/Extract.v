Require Extraction.
Require Import ExtrOcamlBasic.
From GoPdf.Base Require Import WireAnchor.
From GoPdf.C19 Require Import ErrFlow Chain Sink.
Separate Extraction wire_anchor open_prog get_prog drain_prog decode_prog seq_prog outcomes outcome_at
  should_exit clean_class clean_recorded clean_reads predictions_partial chain_outcomes sink_calls surface_verdicts close_verdicts table_run promote_run.
