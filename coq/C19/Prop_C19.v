(* C19: property theorems only; each closed by [exact] and followed by Print Assumptions. *)
From Coq Require Import List NArith ZArith Bool.
From GoPdf.Base Require Import Res.
From GoPdf.Gen Require Import Gen_C19.
From GoPdf.C19 Require Import ErrFlow ErrFlowProofs Chain ChainProofs Sink SinkProofs.
Import ListNotations.

(* ---- reading side ------------------------------------------------------ *)

(* For every program of the reader language without an error-discarding
   construct and without a reclassification outside a DecodeStream chain, every
   file, every start state and every fault - any index, both modes, the failing
   call returning (0, err), part of the data with err, or all of the data with
   err, and whatever the reading code makes of data that comes with an error,
   except taking it for the end of the input: the faulted run returns what the
   fault-free run returns and records the same errors, or it returns the
   injected I/O error - never a malformed-file error, never different data. *)
Theorem fault_surfaces :
  forall (file : N -> val) (p : prog) (f : fault) (s : st),
    safe false p -> (forall n, forc f n <> ShortTaken) ->
    (fst (eval file (Some f) p s) = fst (eval file None p s) /\
     recorded (snd (eval file (Some f) p s)) = recorded (snd (eval file None p s))) \/
    fst (eval file (Some f) p s) = Err (IO (fid f)).
Proof. exact (fun file p f s => fault_surfaces_lemma file p f s). Qed.
Print Assumptions fault_surfaces.

(* With error-discarding constructs allowed (failing calls returning (0, err)):
   the only way out is that one of them actually caught an error after the
   fault had fired. *)
Theorem fault_surfaces_unless_swallowed :
  forall (file : N -> val) (c : bool) (p : prog) (f : fault) (s : st),
    fkd f = FKErr -> safe c p -> fired s = false ->
    eval file (Some f) p s = eval file None p s \/
    fst (eval file (Some f) p s) = Err (IO (fid f)) \/
    swallowed (snd (eval file (Some f) p s)) = true.
Proof. exact (fun file c p f s => fault_surfaces_unless_swallowed_lemma file c p f s). Qed.
Print Assumptions fault_surfaces_unless_swallowed.

(* Every fault index that the fault-free run reaches (1 <= k <= number of ReadAt
   calls), the failing call returning (0, err), makes the call return exactly
   the injected error. *)
Theorem fault_in_range_surfaces :
  forall (file : N -> val) (p : prog) (f : fault),
    fkd f = FKErr -> safe false p ->
    (1 <= fk f <= reads (snd (eval file None p st0)))%nat ->
    fst (eval file (Some f) p st0) = Err (IO (fid f)).
Proof. exact fault_in_range_surfaces_lemma. Qed.
Print Assumptions fault_in_range_surfaces.

(* go-pdf's NewReader, SequentialScan+MakeReader, Get, DecodeStream+ReadAll and
   typed decodes, written in the language from any labelled trace, are such
   programs. *)
Theorem gopdf_programs_covered :
  forall m t q ks bad,
    safe false (open_prog m t) /\ safe false (get_prog ks bad) /\
    safe false (drain_prog ks bad) /\ safe false (decode_prog ks bad) /\
    safe false (seq_prog m q).
Proof. exact gopdf_programs_covered_lemma. Qed.
Print Assumptions gopdf_programs_covered.

Theorem gopdf_fault_in_range :
  forall file m t q ks bad f p,
    p = open_prog m t \/ p = seq_prog m q \/ p = get_prog ks bad \/
    p = drain_prog ks bad \/ p = decode_prog ks bad ->
    fkd f = FKErr ->
    (1 <= fk f <= reads (snd (eval file None p st0)))%nat ->
    fst (eval file (Some f) p st0) = Err (IO (fid f)).
Proof. exact gopdf_fault_in_range_lemma. Qed.
Print Assumptions gopdf_fault_in_range.

(* The error-handling policy, for all modes x phases x error classes: whatever
   is recorded or ignored was a malformed-file error. *)
Theorem policy_table :
  forall m ph c, In m all_modes -> policy m ph c <> Exit -> c = Malformed.
Proof. exact policy_table_lemma. Qed.
Print Assumptions policy_table.

(* ---- decoded streams --------------------------------------------------- *)

(* For all layer behaviours: whenever the chain reports any error (EOF
   included) to the consumer and the source has returned a non-EOF error before
   (e being the first), the consumer sees e. *)
Theorem promote :
  forall (S : Type) (src : source) (layer : S -> itree S) (n : nat) (s : S) out c' e,
    In (out, c') (run_reads src layer n s c0) ->
    first_err src (ccalls c') = Some e ->
    snd out <> None ->
    snd out = Some e.
Proof. exact promote_lemma. Qed.
Print Assumptions promote.

(* io.ReadAll over DecodeStream: once the source has failed with e, a finished
   ReadAll returns e - never data, never another error. *)
Theorem read_all_promote :
  forall (S : Type) (src : source) (layer : S -> itree S) fuel (s : S) r c' e,
    read_all src layer fuel s c0 [] = (r, c') ->
    r <> Err OutOfFuel ->
    first_err src (ccalls c') = Some e ->
    r = Err e.
Proof. exact read_all_promote_lemma. Qed.
Print Assumptions read_all_promote.

(* ---- writing side ------------------------------------------------------ *)

(* For all operation sequences at the bufio boundary and every fault: if the
   sink has failed, a raw call on the sink (the Seek/Write of Placeholder.Set,
   the Seek/Read/ReadAt of a Writer.Get read-back) has returned the sink's
   error, or the next operation that goes through the bufio.Writer (any Write,
   the Flush of Writer.Get, the Flush of Close) returns it. *)
Theorem sink_surfaces :
  forall (f : fault) (ops : list sop) (op : sop),
    is_buffered_report op = true ->
    let (rs, s) := run_ops (Some f) ops w0 in
    let (r, s') := step (Some f) op s in
    sfired s' = true ->
    raw_reported (fid f) ops rs = true \/ r = Some (fid f).
Proof. exact sink_surfaces_lemma. Qed.
Print Assumptions sink_surfaces.

(* Writer.Close in full: whatever it writes (catalog, Info, deferred objects,
   cross-reference table or stream with or without a placeholder, trailer),
   then the Flush, then the Close of the sink if the Writer owns it - if the
   sink has failed at ANY call, before Close or during it, and no raw call of a
   Placeholder.Set / read-back returned that error before Close was called, then
   the result of Close is the sink's error. *)
Theorem close_reports :
  forall (f : fault) (before body : list sop) (owns : bool),
    let s := snd (run_ops (Some f) before w0) in
    let rs := fst (run_ops (Some f) before w0) in
    sfired (snd (run_close (Some f) (close_ops body owns) s)) = true ->
    raw_reported (fid f) before rs = true \/
    fst (run_close (Some f) (close_ops body owns) s) = Some (fid f).
Proof. exact close_reports_lemma. Qed.
Print Assumptions close_reports.

(* In particular: the sink was healthy when Close was called (after the last
   Put) and fails at any call Close makes - a write of the cross-reference data
   or the trailer, a seek or write of a placeholder, the Flush, the sink's own
   Close: the result of Close is that error. *)
Theorem close_reports_own_calls :
  forall (f : fault) (before body : list sop) (owns : bool),
    let s := snd (run_ops (Some f) before w0) in
    sfired s = false ->
    sfired (snd (run_close (Some f) (close_ops body owns) s)) = true ->
    fst (run_close (Some f) (close_ops body owns) s) = Some (fid f).
Proof. exact close_reports_own_calls_lemma. Qed.
Print Assumptions close_reports_own_calls.

(* The Writer's own sticky error, in strict form: for all sequences of Writer
   calls (each any sequence of operations at the bufio boundary) and every
   fault: if a call that records (Put, WriteCompressed, the Write or Close of a
   stream) returns an error, that error is the sink's, and every later Put,
   OpenStream, WriteCompressed and Close returns it. *)
Theorem writer_sticky :
  forall (f : fault) (pre : list wcall) (c : wcall) (mid : list wcall) (k : nat) (c2 : wcall),
    c_records c = true ->
    nth (length pre) (run_calls (Some f) (pre ++ c :: mid) (None, w0)) None <> None ->
    nth_error mid k = Some c2 -> c_checks c2 = true ->
    nth (length pre) (run_calls (Some f) (pre ++ c :: mid) (None, w0)) None = Some (fid f) /\
    nth (length pre + 1 + k) (run_calls (Some f) (pre ++ c :: mid) (None, w0)) None = Some (fid f).
Proof. exact writer_sticky_lemma. Qed.
Print Assumptions writer_sticky.

(* Every index of a sink call of the fault-free run, both fault modes: the
   error comes back no later than the Flush of Close, or from the Close of the
   sink if the Writer owns it. *)
Theorem sink_in_range_surfaces :
  forall ops (owns : bool) fmd k,
    (1 <= k <= scalls (snd (run_ops None (ops ++ close_ops [] owns) w0)))%nat ->
    surfaces_at (ops ++ close_ops [] owns) fmd k = true.
Proof. exact sink_in_range_surfaces_lemma. Qed.
Print Assumptions sink_in_range_surfaces.

(* ---- the hypotheses are satisfiable; what they exclude ------------------ *)

Example sample_trace_reads : clean_reads (open_prog ErrorHandlingRecover sample_trace) = 14%nat.
Proof. vm_compute. reflexivity. Qed.

Example sample_all_io :
  forallb (fun o => match o with OIO => true | _ => false end)
          (outcomes (open_prog ErrorHandlingReport sample_trace) OnlyK) = true.
Proof. vm_compute. reflexivity. Qed.

(* the policy before fix F6 let an I/O error through in Recover mode *)
Example policy_table_preF6_refuted :
  exists m c, In m all_modes /\ c <> Malformed /\
              (if has_policy PhCatalog then should_exit_preF6 m (is_malformed c) else Exit) <> Exit.
Proof. exact policy_table_preF6_refuted_lemma. Qed.

(* what the hypothesis on the decisions excludes, and what the others give *)
Example short_read_decisions :
  fst (eval default_file (Some (partial_fault ShortTaken)) (Latch (ReadAt 0)) st0) = Ok 0%N /\
  fst (eval default_file None (Latch (ReadAt 0)) st0) = Ok 1%N /\
  fst (eval default_file (Some (partial_fault Enough)) (Latch (Bind (ReadAt 0) (fun a => Bind (ReadAt 1) (fun b => Ret (a + b)%N)))) st0) = Err (IO inj_id) /\
  fst (eval default_file (Some (partial_fault Enough)) (Latch (ReadAt 0)) st0) = Ok 1%N /\
  fst (eval default_file (Some (partial_fault Dropped)) (Latch (Bind (ReadAt 0) (fun a => Bind (ReadAt 1) (fun b => Ret (a + b)%N)))) st0) = Ok 3%N.
Proof. exact short_taken_breaks. Qed.

Example catchall_is_excluded : outcome_at (CatchAll (ReadAt 0) (fun _ => Ret 0%N)) OnlyK 1 = ODifferent.
Proof. exact catchall_changes_data. Qed.

Example reclass_is_excluded : outcome_at (Reclass (ReadAt 0)) OnlyK 1 = OMalformed.
Proof. exact reclass_blames_file. Qed.

(* MakeReader's getTrailer before and after fix F20 *)
Example seq_trailer_witness :
  outcome_at (seq_prog_preF20 ErrorHandlingRecover seq_witness) OnlyK 2 = OOtherErr /\
  outcome_at (seq_prog ErrorHandlingRecover seq_witness) OnlyK 2 = OIO.
Proof. exact seq_trailer_refuted_lemma. Qed.

(* what the injected error looks like (wrapping io.EOF, an Is method, a timeout)
   is invisible to the == comparisons of the checker; the errors.Is comparison
   of before fix F59 lost an error that wraps io.EOF *)
Example error_shape_and_the_checker :
  let wraps_eof := fun c => match c with IO 7 => true | _ => false end in
  promote_ctor (chk_update None ([], Some (IO 7))) Malformed = IO 7 /\
  promote_ctor (chk_update_is wraps_eof None ([], Some (IO 7))) Malformed = Malformed /\
  (forall c, chk_update_is (fun _ => false) None ([], Some c) = chk_update None ([], Some c)).
Proof. exact errors_Is_checker_loses_the_error. Qed.

Example chain_stacks : chain_outcomes 3 OnlyK = [OIO; OIO; OIO] /\ chain_outcomes 4 FromK = [OIO; OIO; OIO; OIO].
Proof. exact chain_examples. Qed.

Example sink_program_with_read_back :
  length (sink_calls sink_example_readback) = 11%nat /\
  forallb (fun b => b) (surface_verdicts sink_example_readback OnlyK) = true /\
  forallb (fun b => b) (surface_verdicts sink_example_readback FromK) = true.
Proof. exact sink_example_readback_ok. Qed.

Example sink_program :
  length (sink_calls sink_example) = 9%nat /\
  forallb (fun b => b) (surface_verdicts sink_example OnlyK) = true /\
  forallb (fun b => b) (surface_verdicts sink_example FromK) = true.
Proof. exact sink_example_ok. Qed.
