(* Every Extract.v lists [wire_anchor] so that positive, N, Z and nat are all
   extracted (ocaml/wire.ml converts to and from each of them). *)
From Coq Require Import NArith ZArith.
Definition wire_anchor (z : Z) (n : N) (k : nat) : Z := match k with O => z | S _ => Z.of_N n end.
