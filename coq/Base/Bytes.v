(* Bytes are [N] with an explicit well-formedness predicate (DESIGN.md §2.2). *)
From Coq Require Import List NArith Bool Lia.
Import ListNotations.
Open Scope N_scope.

Definition byte := N.
Definition bytes := list byte.
Definition wfb (b : byte) : bool := b <? 256.
Definition wfbs (s : bytes) : bool := forallb wfb s.

Fixpoint bytes_eqb (a b : bytes) : bool :=
  match a, b with
  | [], [] => true
  | x :: a', y :: b' => (x =? y) && bytes_eqb a' b'
  | _, _ => false
  end.

Lemma bytes_eqb_eq a b : bytes_eqb a b = true <-> a = b.
Proof.
  revert b; induction a as [|x a IH]; intros [|y b]; cbn; split; intro H; try congruence; try discriminate.
  - apply andb_true_iff in H as [H1 H2]. apply N.eqb_eq in H1. apply IH in H2. congruence.
  - inversion H; subst. rewrite N.eqb_refl. cbn. apply IH. reflexivity.
Qed.

Lemma bytes_eqb_refl a : bytes_eqb a a = true.
Proof. apply bytes_eqb_eq. reflexivity. Qed.

(* lexicographic order on byte strings *)
Fixpoint bytes_ltb (a b : bytes) : bool :=
  match a, b with
  | _, [] => false
  | [], _ :: _ => true
  | x :: a', y :: b' => (x <? y) || ((x =? y) && bytes_ltb a' b')
  end.
