(* Results with an error class instead of a message (DESIGN.md §2.2). *)
From Coq Require Import List NArith.

Inductive cls := Malformed | EOF | IO (id : N) | Auth | Panic | OutOfFuel | Other.

Inductive res (A : Type) :=
| Ok (a : A)
| Err (c : cls).
Arguments Ok {A} a.
Arguments Err {A} c.

Definition bind {A B} (r : res A) (f : A -> res B) : res B :=
  match r with Ok a => f a | Err c => Err c end.

Definition is_ok {A} (r : res A) : bool := match r with Ok _ => true | Err _ => false end.
Definition is_panic {A} (r : res A) : bool := match r with Err Panic => true | _ => false end.
