(* C15 model, part 2: the nesting state of graphics/content/state.go that decides whether a
   content stream is structurally valid: CurrentObject, the nesting frames of q/Q, BT/ET,
   BMC|BDC/EMC and BX/EX, CheckOperatorAllowed, the structural part of ApplyStateChanges
   (Push/Pop/TextBegin/TextEnd/MarkedContent*/Compatibility*/applyTransition), CanClose and
   ClosingOperators.  The graphics-state requirements (Requires/Usable bits) are not modelled.
   Definitions only. *)
From Coq Require Import List NArith ZArith Bool.
From GoPdf.Base Require Import Bytes Res.
Import ListNotations.
Open Scope N_scope.

(* content.Object: the kind of graphics object being built *)
Inductive cobj := CPage | CPath | CText | CClip | CT3Start.
Definition cobj_eqb (a b : cobj) : bool :=
  match a, b with
  | CPage, CPage | CPath, CPath | CText, CText | CClip, CClip | CT3Start, CT3Start => true
  | _, _ => false
  end.
(* bit masks as in operator.go: ObjPage=1, ObjPath=2, ObjText=4, ObjClippingPath=8, ObjType3Start=16 *)
Definition cobj_bit (c : cobj) : N :=
  match c with CPage => 1 | CPath => 2 | CText => 4 | CClip => 8 | CT3Start => 16 end.
Definition allowed_in (mask : N) (c : cobj) : bool := negb (N.land mask (cobj_bit c) =? 0).

Inductive pair := PQ | PBT | PBMC | PBX.
Definition pair_eqb (a b : pair) : bool :=
  match a, b with PQ, PQ | PBT, PBT | PBMC, PBMC | PBX, PBX => true | _, _ => false end.

Record nstate := mkNS {
  cur : cobj;              (* CurrentObject *)
  nesting : list pair;     (* innermost frame first *)
  pre2 : bool              (* 0 < Version < 2.0: q/Q limits of PDF 1.x apply *)
}.

(* the operators as far as nesting is concerned; [SOther mask trans]: any other operator with
   its Allowed mask and its Transition (None: no change) *)
Inductive sop :=
| SPush | SPop | SBT | SET | SBMC | SEMC | SBX | SEX
| SOther (mask : N) (trans : option cobj).

Definition m_page_text : N := 5.
Definition m_any : N := 31.

(* popNesting: remove the innermost frame of the expected kind *)
Fixpoint pop_nesting (k : pair) (l : list pair) : option (list pair) :=
  match l with
  | [] => None
  | x :: r => if pair_eqb x k then Some r
              else match pop_nesting k r with Some r' => Some (x :: r') | None => None end
  end.
Definition count_pair (k : pair) (l : list pair) : nat := length (filter (pair_eqb k) l).

Definition op_mask (o : sop) : N :=
  match o with
  | SPush | SPop | SBMC | SEMC => m_page_text
  | SBT => 1
  | SET => 4
  | SBX | SEX => m_any
  | SOther m _ => m
  end.

(* State.ApplyOperator without the Requires check *)
Definition apply_op (s : nstate) (o : sop) : option nstate :=
  if negb (allowed_in (op_mask o) (cur s)) then None
  else
    match o with
    | SPush =>
      if pre2 s && (cobj_eqb (cur s) CText || Nat.leb 28 (count_pair PQ (nesting s))) then None
      else Some (mkNS (cur s) (PQ :: nesting s) (pre2 s))
    | SPop =>
      if pre2 s && cobj_eqb (cur s) CText then None
      else match pop_nesting PQ (nesting s) with
           | Some n => Some (mkNS (cur s) n (pre2 s))
           | None => None
           end
    | SBT => Some (mkNS CText (PBT :: nesting s) (pre2 s))
    | SET =>
      match pop_nesting PBT (nesting s) with
      | Some n => Some (mkNS CPage n (pre2 s))
      | None => None
      end
    | SBMC => Some (mkNS (cur s) (PBMC :: nesting s) (pre2 s))
    | SEMC =>
      match pop_nesting PBMC (nesting s) with
      | Some n => Some (mkNS (cur s) n (pre2 s))
      | None => None
      end
    | SBX => Some (mkNS (cur s) (PBX :: nesting s) (pre2 s))
    | SEX =>
      match pop_nesting PBX (nesting s) with
      | Some n => Some (mkNS (cur s) n (pre2 s))
      | None => None
      end
    | SOther _ t => Some (mkNS (match t with Some c => c | None => cur s end) (nesting s) (pre2 s))
    end.

Fixpoint run_ops (s : nstate) (ops : list sop) : option nstate :=
  match ops with
  | [] => Some s
  | o :: r => match apply_op s o with Some s' => run_ops s' r | None => None end
  end.

(* CanClose *)
Definition can_close (s : nstate) : bool :=
  match nesting s with [] => cobj_eqb (cur s) CPage | _ => false end.

(* ClosingOperators: "n" for an open path, then one closer per frame, innermost first *)
Definition closer (k : pair) : sop :=
  match k with PQ => SPop | PBT => SET | PBMC => SEMC | PBX => SEX end.
Definition op_endpath : sop := SOther 10 (Some CPage).
Definition closing_ops (s : nstate) : list sop :=
  (if cobj_eqb (cur s) CPath || cobj_eqb (cur s) CClip then [op_endpath] else [])
  ++ map closer (nesting s).

(* what the operator table guarantees about every other operator: it never moves into a text
   object or to the start of a Type 3 glyph, and if it changes the object kind it is not
   allowed inside a text object *)
Definition other_ok (o : sop) : bool :=
  match o with
  | SOther m (Some t) => negb (cobj_eqb t CText) && negb (cobj_eqb t CT3Start) && negb (allowed_in m CText)
  | _ => true
  end.

(* ---- the operator table of operator.go, as far as the model needs it: name, Allowed,
        Transition (0: none).  Checked against the real State by the harness. ---- *)
Definition op_table : list (bytes * (N * N)) :=
  [ ([113], (5, 0)); ([81], (5, 0)); ([99; 109], (1, 0)); ([119], (5, 0)); ([74], (5, 0)); ([106], (5, 0));
    ([77], (5, 0)); ([100], (5, 0)); ([114; 105], (5, 0)); ([105], (5, 0)); ([103; 115], (5, 0));
    ([109], (3, 2)); ([108], (2, 0)); ([99], (2, 0)); ([118], (2, 0)); ([121], (2, 0)); ([104], (2, 0)); ([114; 101], (3, 2));
    ([83], (10, 1)); ([115], (10, 1)); ([102], (10, 1)); ([70], (10, 1)); ([102; 42], (10, 1)); ([66], (10, 1));
    ([66; 42], (10, 1)); ([98], (10, 1)); ([98; 42], (10, 1)); ([110], (10, 1));
    ([87], (2, 8)); ([87; 42], (2, 8));
    ([66; 84], (1, 4)); ([69; 84], (4, 1));
    ([84; 99], (31, 0)); ([84; 119], (31, 0)); ([84; 122], (31, 0)); ([84; 76], (31, 0)); ([84; 102], (31, 0));
    ([84; 114], (31, 0)); ([84; 115], (31, 0));
    ([84; 100], (4, 0)); ([84; 68], (4, 0)); ([84; 109], (4, 0)); ([84; 42], (4, 0));
    ([84; 106], (4, 0)); ([84; 74], (4, 0)); ([39], (4, 0)); ([34], (4, 0));
    ([100; 48], (16, 1)); ([100; 49], (16, 1));
    ([67; 83], (5, 0)); ([99; 115], (5, 0)); ([83; 67], (5, 0)); ([83; 67; 78], (5, 0)); ([115; 99], (5, 0));
    ([115; 99; 110], (5, 0)); ([71], (5, 0)); ([103], (5, 0)); ([82; 71], (5, 0)); ([114; 103], (5, 0));
    ([75], (5, 0)); ([107], (5, 0));
    ([115; 104], (1, 0)); ([66; 73], (1, 0)); ([73; 68], (1, 0)); ([69; 73], (1, 0)); ([68; 111], (1, 0));
    ([77; 80], (5, 0)); ([68; 80], (5, 0)); ([66; 77; 67], (5, 0)); ([66; 68; 67], (5, 0)); ([69; 77; 67], (5, 0));
    ([66; 88], (31, 0)); ([69; 88], (31, 0));
    ([37; 114; 97; 119; 37], (31, 0)); ([37; 105; 109; 97; 103; 101; 37], (1, 0)) ].

Fixpoint table_get (l : list (bytes * (N * N))) (k : bytes) : option (N * N) :=
  match l with
  | [] => None
  | x :: r => if bytes_eqb (fst x) k then Some (snd x) else table_get r k
  end.
Definition cobj_of_bit (n : N) : option cobj :=
  match n with 1 => Some CPage | 2 => Some CPath | 4 => Some CText | 8 => Some CClip | 16 => Some CT3Start | _ => None end.

(* the model operator for an operator name; unknown operators are allowed everywhere *)
Definition sop_of_name (name : bytes) : sop :=
  if bytes_eqb name [113] then SPush
  else if bytes_eqb name [81] then SPop
  else if bytes_eqb name [66; 84] then SBT
  else if bytes_eqb name [69; 84] then SET
  else if bytes_eqb name [66; 77; 67] || bytes_eqb name [66; 68; 67] then SBMC
  else if bytes_eqb name [69; 77; 67] then SEMC
  else if bytes_eqb name [66; 88] then SBX
  else if bytes_eqb name [69; 88] then SEX
  else match table_get op_table name with
       | Some (m, t) => SOther m (cobj_of_bit t)
       | None => SOther m_any None
       end.
