(* The scanner's literal result cnorm is the property-level canonical form canon (C01). *)
From Coq Require Import List NArith ZArith Bool Lia Permutation Sorted.
From GoPdf.Base Require Import Bytes Res.
From GoPdf.C01 Require Import Lex Obj Num Names Strings Format Wf
  LexProofs NumProofs FormatProofs SortProofs CanonProofs.
From GoPdf.C15 Require Import Content ContentSpec ContentProofs.
Import ListNotations.
Open Scope N_scope.

(* filtering a sorted list keeps it sorted *)
Lemma filter_sorted {A} (p : bytes * A -> bool) l :
  StronglySorted (@lt_e A) l -> StronglySorted (@lt_e A) (filter p l).
Proof.
  induction 1 as [|x r Hs IH Hall]; cbn [filter]; [constructor|].
  destruct (p x); [|exact IH]. constructor; [exact IH|].
  apply Forall_forall. intros y Hy. apply filter_In in Hy as [Hy _].
  rewrite Forall_forall in Hall. apply Hall. exact Hy.
Qed.

Lemma filter_sort_comm {A} (p : bytes * A -> bool) (l : list (bytes * A)) :
  NoDup (map fst l) -> filter p (sort_entries l) = sort_entries (filter p l).
Proof.
  intro Hnd. apply sorted_perm_eq.
  - apply filter_sorted. apply sort_sorted. exact Hnd.
  - apply sort_sorted. apply NoDup_filter_fst. exact Hnd.
  - rewrite (sort_perm (filter p l)). apply filter_perm. apply sort_perm.
Qed.

Theorem cnorm_canon_lemma : forall o L d, wf_obj L d o = true -> cnorm o = canon o.
Proof.
  apply (obj_ind2 (fun o => forall L d, wf_obj L d o = true -> cnorm o = canon o));
    try (intros; reflexivity).
  - (* array *)
    intros l IH L d Hw. cbn [wf_obj] in Hw. apply andb_true_iff in Hw as [_ Hall].
    cbn [cnorm canon]. f_equal. apply map_ext_in. intros x Hx.
    rewrite Forall_forall in IH. rewrite forallb_forall in Hall. eapply IH; eauto.
  - (* dictionary *)
    intros l IH L d Hw. cbn [wf_obj] in Hw. apply andb_true_iff in Hw as [Hw Hall].
    apply andb_true_iff in Hw as [Hw _]. apply andb_true_iff in Hw as [_ Hnd].
    apply nodup_keys_NoDup in Hnd.
    rewrite cnorm_dict, canon_dict. f_equal.
    assert (Hkeys : NoDup (map fst (cnorm_entries l))).
    { rewrite cnorm_entries_map. unfold ckv. rewrite (map_fst_keyed (fun kv => cnorm (snd kv))).
      apply NoDup_filter_fst. exact Hnd. }
    rewrite filter_sort_comm by exact Hkeys. f_equal.
    (* entry by entry *)
    clear Hnd Hkeys. induction l as [|[k v] r IHr]; [reflexivity|].
    inversion IH as [|? ? IHv IHr']; subst. cbn [forallb fst snd] in Hall.
    apply andb_true_iff in Hall as [Hv Hall]. apply andb_true_iff in Hv as [_ Hv].
    cbn [snd] in IHv. specialize (IHr IHr' Hall). pose proof (IHv L (d + 1) Hv) as Ev.
    cbn [cnorm_entries canon_entries].
    destruct v; cbn [filter]; try exact IHr;
      unfold nn2 at 1; cbn [snd]; rewrite Ev; 
      destruct (canon _) eqn:Ec; cbn [is_null negb]; rewrite IHr; try reflexivity.
Qed.
