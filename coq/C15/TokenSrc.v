(* C15 model: the look-ahead of the content scanner's ScanToken, written against the scanner's
   interface.  graphics/content/stream.go: after SkipWhiteSpace, bb := s.PeekN(2) decides between
   "<<", "<" (hex string), ">>" and the other tokens, then SkipByte/SkipN(2)/ReadByte consume one
   or two of the bytes seen.  The buffered source is C01/BufSrc.v with the content scanner's refill
   (one Read per refill, s.err latched, Peek/PeekN looping over refill).  Definitions only. *)
From Coq Require Import List NArith ZArith Bool.
From GoPdf.Base Require Import Bytes Res.
From GoPdf.C01 Require Import Lex Obj BufSrc.
From GoPdf.C15 Require Import Content.
Import ListNotations.
Open Scope N_scope.

Inductive thead :=
| HEnd                (* len(bb) == 0 *)
| HName | HString | HDictOpen | HHex | HDictClose
| HOther (b : byte).  (* a regular token or a single delimiter, starting with b *)

Definition head_of (bb : bytes) : thead :=
  match bb with
  | [] => HEnd
  | b :: _ =>
    if b =? cSLASH then HName
    else if b =? cLP then HString
    else if starts_with kw_ltlt bb then HDictOpen
    else if b =? cLT then HHex
    else if starts_with kw_gtgt bb then HDictClose
    else HOther b
  end.
(* SkipByte / SkipN(2) / ReadByte after the dispatch *)
Definition head_adv (bb : bytes) : nat :=
  match head_of bb with
  | HEnd => 0%nat
  | HDictOpen | HDictClose => 2%nat
  | _ => 1%nat
  end.
Definition token_head_p : prog unit thead := Peek 2 head_adv (fun bb => Ret (head_of bb)).

(* the same over a list *)
Definition token_head (s : bytes) : thead * bytes := run_list token_head_p s.

(* ScanToken in terms of the dispatch *)
Definition scan_token_via_head (L : limits) (s : bytes) : cres ctok :=
  match skip_ws s with
  | Err _ => CStop
  | Ok s1 =>
    match token_head s1 with
    | (HEnd, _) => CStop
    | (HName, r) =>
      match cread_name L r with
      | COk n rest => COk (TObj (OName n)) rest
      | CParse rest => CParse rest | CStop => CStop | CFuel => CFuel
      end
    | (HString, r) =>
      match cread_string L r with
      | COk v rest => COk (TObj (OStr v)) rest
      | CParse rest => CParse rest | CStop => CStop | CFuel => CFuel
      end
    | (HDictOpen, r) => COk (TOp kw_ltlt) r
    | (HHex, r) =>
      match chex_loop L None [] r with
      | COk v rest => COk (TObj (OStr v)) rest
      | CParse rest => CParse rest | CStop => CStop | CFuel => CFuel
      end
    | (HDictClose, r) => COk (TOp kw_gtgt) r
    | (HOther b, r) =>
      let '(tok, rest) :=
        if is_regular b then let '(t, rest) := span_regular r in (b :: t, rest) else ([b], r) in
      if max_name L <? blen tok then CParse rest else COk (classify tok) rest
    end
  end.

(* the content scanner's buffer: make([]byte, 512) *)
Definition content_buf : nat := 512.
