(* C15 model: content streams.
   Writer: graphics/content/writer.go Operator.Format (operands through C01's formatter).
   Reader: graphics/content/stream.go - a second, separate parser: ScanToken, the stack-based
   assembly of arrays and dictionaries in Scan, readInlineImage/readValueDepth/readDictBody/
   checkEI, and the resynchronising loop of pumpScanner.  Definitions only.

   An operator is a name and a list of operands; the pseudo-operators %raw% and %image% are
   operators with those names, as in Go.  An Operator value that the scanner meets inside an
   array or dictionary (only possible on text the writer does not produce) is represented as
   [OReal name]: a real is its token, and an operator token is never a number token. *)
From Coq Require Import List NArith ZArith Bool.
From GoPdf.Base Require Import Bytes Res.
From GoPdf.Gen Require Gen_Consts Gen_C15.
From GoPdf.C01 Require Import Lex Obj Num Names Strings Format.
Import ListNotations.
Open Scope N_scope.

(* ---- limits of the content scanner (its own variables and constants) ---- *)
Definition cstd_limits : limits :=
  mkLimits (Z.to_N Gen_C15.content_maxStringBytes) (Z.to_N Gen_C15.content_maxNameBytes)
           (Z.to_N Gen_C15.content_maxArrayLen) (Z.to_N Gen_C15.content_maxDictLen)
           (Z.to_N Gen_C15.maxContentNestDepth).
Definition max_args : N := Z.to_N Gen_C15.maxOperatorArgs.
Definition max_value_depth : N := Z.to_N Gen_C15.maxValueDepth.
Definition max_img_bytes : N := Z.to_N Gen_C15.maxInlineImageBytes.
Definition max_img_pixels : Z := Gen_C15.maxInlineImagePixels.
Definition max_img_dim : Z := Gen_C15.maxInlineImageDim.

Record cop := mkOp { op_name : bytes; op_args : list obj }.

Definition n_raw : bytes := [37; 114; 97; 119; 37].             (* %raw% *)
Definition n_image : bytes := [37; 105; 109; 97; 103; 101; 37]. (* %image% *)
Definition n_BI : bytes := [66; 73].
Definition n_ID : bytes := [73; 68].
Definition n_EI : bytes := [69; 73].

(* ================= writer ================= *)

(* slices.Sort on the keys of the inline image dictionary: plain byte order *)
Section LexSort.
  Context {A : Type}.
  Fixpoint insert_lex (e : bytes * A) (l : list (bytes * A)) : list (bytes * A) :=
    match l with
    | [] => [e]
    | x :: r => if bytes_ltb (fst x) (fst e) then x :: insert_lex e r else e :: l
    end.
  Fixpoint sort_lex (l : list (bytes * A)) : list (bytes * A) :=
    match l with
    | [] => []
    | e :: r => insert_lex e (sort_lex r)
    end.
End LexSort.

(* pdf.Format(out, OptContentStream, arg) for one operand *)
Definition fmt_operand (o : obj) : bytes := fst (fmt_obj false false o).

Definition fmt_image_entry (kv : bytes * obj) : bytes :=
  [cSLASH] ++ fst kv ++ [cSP] ++ (if is_null (snd kv) then [] else fmt_operand (snd kv)) ++ [cLF].

Definition op_format (op : cop) : bytes :=
  if bytes_eqb (op_name op) n_raw then
    match op_args op with
    | OStr s :: _ => s ++ [cLF]
    | _ => []
    end
  else if bytes_eqb (op_name op) n_image then
    match op_args op with
    | a0 :: a1 :: _ =>
      let d := match a0 with ODict l => l | _ => [] end in
      let data := match a1 with OStr s => s | _ => [] end in
      n_BI ++ [cLF] ++ concat (map fmt_image_entry (sort_lex d)) ++ n_ID ++ [cLF] ++ data ++ [cLF] ++ n_EI ++ [cLF]
    | _ => []
    end
  else
    concat (map (fun a => fmt_operand a ++ [cSP]) (op_args op)) ++ op_name op ++ [cLF].

Definition cformat (ops : list cop) : bytes := concat (map op_format ops).

(* ================= reader ================= *)

Inductive cres (A : Type) :=
| COk (a : A) (rest : bytes)
| CParse (rest : bytes)      (* parseError: pumpScanner resets the stack and scans on from rest *)
| CStop                      (* io.EOF: the scan ends *)
| CFuel.                     (* the model ran out of fuel *)
Arguments COk {A} a rest.
Arguments CParse {A} rest.
Arguments CStop {A}.
Arguments CFuel {A}.

Inductive ctok := TObj (o : obj) | TOp (name : bytes).

(* ReadName, after the "/" *)
Fixpoint cname_loop (acc : bytes) (s : bytes) : bytes * bytes :=
  match s with
  | [] => (rev acc, [])
  | b :: r =>
    if negb (is_regular b) then (rev acc, s)
    else if b =? cHASH then
      match r with
      | h :: l :: r' =>
        if is_hex h && is_hex l then cname_loop ((16 * hex_val h + hex_val l) mod 256 :: acc) r'
        else cname_loop (cHASH :: acc) r
      | _ => cname_loop (cHASH :: acc) r
      end
    else cname_loop (b :: acc) r
  end.
Definition cread_name (L : limits) (s : bytes) : cres bytes :=
  let '(n, rest) := cname_loop [] s in
  if max_name L <? blen n then CParse rest else COk n rest.

(* ReadString, after the "(": the same automaton as the file scanner's.  (When the string
   exceeds maxStringBytes the position of the resynchronisation is not modelled.) *)
Definition cread_string (L : limits) (s : bytes) : cres bytes :=
  match read_string L s with
  | Ok (v, r) => COk v r
  | Err EOF => CStop
  | Err OutOfFuel => CFuel
  | Err _ => CParse []
  end.

(* ReadHexString, after the "<": white space is skipped, any other non-hex byte is an error *)
Fixpoint chex_loop (L : limits) (hi : option N) (acc : bytes) (s : bytes) : cres bytes :=
  match s with
  | [] => CStop
  | b :: r =>
    if b =? cGT then COk (rev (match hi with Some h => h :: acc | None => acc end)) r
    else if is_space b then chex_loop L hi acc r
    else if is_hex b then
      match hi with
      | None => chex_loop L (Some ((16 * hex_val b) mod 256)) acc r
      | Some h =>
        if max_str L <=? blen acc then CParse r
        else chex_loop L None ((h + hex_val b) mod 256 :: acc) r
      end
    else CParse r
  end.

(* parseNumber *)
Definition simple_num (t : bytes) : bool :=
  match t with
  | [] => true
  | b :: r =>
    ((b =? cPLUS) || (b =? cMINUS) || is_digit b || (b =? cDOT))
    && forallb (fun c => is_digit c || (c =? cDOT)) r
  end.
Definition count_dots (t : bytes) : N := blen (filter (fun c => c =? cDOT) t).
Definition cparse_number (t : bytes) : option obj :=
  if simple_num t then
    let fl := if (count_dots t <=? 1) && float_ok t then Some (OReal t) else None in
    if has_dot t then fl
    else match parse_int_tok t with Some z => Some (OInt z) | None => fl end
  else None.

Fixpoint span_regular (s : bytes) : bytes * bytes :=
  match s with
  | b :: r => if is_regular b then let '(t, rest) := span_regular r in (b :: t, rest) else ([], s)
  | [] => ([], [])
  end.

Definition classify (tok : bytes) : ctok :=
  let kw :=
    if bytes_eqb tok kw_false then TObj (OBool false)
    else if bytes_eqb tok kw_true then TObj (OBool true)
    else if bytes_eqb tok kw_null then TObj ONull
    else TOp tok in
  match tok with
  | b :: _ =>
    if is_digit b || (b =? cDOT) || (b =? cMINUS) || (b =? cPLUS) then
      match cparse_number tok with Some o => TObj o | None => kw end
    else kw
  | [] => kw
  end.

(* ScanToken *)
Definition scan_token (L : limits) (s : bytes) : cres ctok :=
  match skip_ws s with
  | Err _ => CStop
  | Ok [] => CStop
  | Ok ((b :: r) as s1) =>
    if b =? cSLASH then
      match cread_name L r with
      | COk n rest => COk (TObj (OName n)) rest
      | CParse rest => CParse rest | CStop => CStop | CFuel => CFuel
      end
    else if b =? cLP then
      match cread_string L r with
      | COk v rest => COk (TObj (OStr v)) rest
      | CParse rest => CParse rest | CStop => CStop | CFuel => CFuel
      end
    else if starts_with kw_ltlt s1 then COk (TOp kw_ltlt) (drop 2 s1)
    else if b =? cLT then
      match chex_loop L None [] r with
      | COk v rest => COk (TObj (OStr v)) rest
      | CParse rest => CParse rest | CStop => CStop | CFuel => CFuel
      end
    else if starts_with kw_gtgt s1 then COk (TOp kw_gtgt) (drop 2 s1)
    else
      let '(tok, rest) :=
        if is_regular b then let '(t, rest) := span_regular r in (b :: t, rest) else ([b], r) in
      if max_name L <? blen tok then CParse rest else COk (classify tok) rest
  end.

(* ---- Scan: the stack of open arrays and dictionaries ---- *)
Record frame := mkFrame { f_dict : bool; f_data : list obj (* newest first *) }.

(* the dictionary built at ">>" from the interleaved keys and values *)
Fixpoint build_dict (acc : list (bytes * obj)) (data : list obj) : list (bytes * obj) :=
  match data with
  | k :: v :: r =>
    match k with
    | OName key => if is_null v then build_dict acc r else build_dict (dict_set acc key v) r
    | _ => build_dict acc r
    end
  | _ => acc
  end.

Definition tok_value (t : ctok) : obj := match t with TObj o => o | TOp name => OReal name end.

(* ---- inline images ---- *)
Definition check_ei (s : bytes) : bool :=
  match s with
  | e :: i :: r =>
    (e =? 69) && (i =? 73) && match r with [] => true | c :: _ => negb (is_regular c) end
  | _ => false
  end.

(* the additional white space after ID that is skipped for the ASCII filters (not comments):
   the rest and the last byte skipped (0: none) *)
Fixpoint skip_sp_last (last : byte) (s : bytes) : bytes * byte :=
  match s with
  | b :: r => if is_space b then skip_sp_last b r else (s, last)
  | [] => ([], last)
  end.

(* the search for EOL "EI" delimiter; acc: data so far, newest first; prev: previous byte *)
Fixpoint ei_loop (acc : bytes) (prev : byte) (s : bytes) : cres bytes :=
  if max_img_bytes <=? blen acc then CParse s
  else if ((prev =? cCR) || (prev =? cLF)) && check_ei s then COk (rev (tl acc)) s
  else
    match s with
    | [] => CStop
    | b :: r => ei_loop (b :: acc) b r
    end.

Fixpoint take_n (n : nat) (s : bytes) : option (bytes * bytes) :=
  match n with
  | O => Some ([], s)
  | S n' => match s with
            | [] => None
            | b :: r => match take_n n' r with Some (t, rest) => Some (b :: t, rest) | None => None end
            end
  end.

Definition k_W : bytes := [87].   Definition k_Width : bytes := [87; 105; 100; 116; 104].
Definition k_H : bytes := [72].   Definition k_Height : bytes := [72; 101; 105; 103; 104; 116].
Definition k_L : bytes := [76].   Definition k_Length : bytes := [76; 101; 110; 103; 116; 104].
Definition k_F : bytes := [70].   Definition k_Filter : bytes := [70; 105; 108; 116; 101; 114].

Fixpoint dict_get (l : list (bytes * obj)) (k : bytes) : option obj :=
  match l with
  | [] => None
  | x :: r => if bytes_eqb (fst x) k then Some (snd x) else dict_get r k
  end.
Definition dict_get2 (l : list (bytes * obj)) (abbrev full : bytes) : option obj :=
  match dict_get l abbrev with Some v => Some v | None => dict_get l full end.

(* int(v) for a real token: Go parses the token to the nearest float64 (ties to even) and
   truncates it.  [round53 n d] is the double nearest to n/d (n, d > 0), as mantissa and
   exponent: m * 2^x.  Go leaves the conversion of a float64 outside the int64 range
   implementation-defined; on amd64 it yields the minimum int64. *)
Definition round_half_even (n d : Z) : Z :=
  let q := (n / d)%Z in let r := (n mod d)%Z in
  if (2 * r <? d)%Z then q
  else if (d <? 2 * r)%Z then (q + 1)%Z
  else if Z.even q then q else (q + 1)%Z.
Definition round53 (n d : Z) : Z * Z :=
  (* e with 2^e <= n/d < 2^(e+1) *)
  let e0 := (Z.log2 n - Z.log2 d)%Z in
  let ge := fun e : Z => if (0 <=? e)%Z then (d * 2 ^ e <=? n)%Z else (d <=? n * 2 ^ (- e))%Z in
  let e := if ge e0 then (if ge (e0 + 1)%Z then (e0 + 1)%Z else e0) else (e0 - 1)%Z in
  let x := (e - 52)%Z in
  let m := if (0 <=? x)%Z then round_half_even n (d * 2 ^ x) else round_half_even (n * 2 ^ (- x)) d in
  (m, x).
Fixpoint frac_digits (s : bytes) : bytes :=
  match s with
  | b :: r => if b =? cDOT then take_digits r else frac_digits r
  | [] => []
  end.
Definition real_trunc (t : bytes) : Z :=
  let '(neg, u) := strip_sign t in
  let ip := take_digits u in
  let fp := frac_digits u in
  let d := (10 ^ Z.of_nat (length fp))%Z in
  let n := (digits_val ip * d + digits_val fp)%Z in
  if (n =? 0)%Z then 0%Z
  else
    let '(m, x) := round53 n d in
    let v := if (0 <=? x)%Z then (m * 2 ^ x)%Z else (m / 2 ^ (- x))%Z in
    if (2 ^ 63 <=? v)%Z then (- 2 ^ 63)%Z
    else if neg then (- v)%Z else v.
(* getInlineImageInt *)
Definition img_int (l : list (bytes * obj)) (abbrev full : bytes) : Z :=
  match dict_get2 l abbrev full with
  | Some (OInt z) => z
  | Some (OReal t) =>
    (* an operator token represented as OReal is not a number *)
    match cparse_number t with Some (OReal _) => real_trunc t | _ => (-1)%Z end
  | _ => (-1)%Z
  end.
Definition ascii_filters : list bytes :=
  [[65; 83; 67; 73; 73; 72; 101; 120; 68; 101; 99; 111; 100; 101]; [65; 72; 120];
   [65; 83; 67; 73; 73; 56; 53; 68; 101; 99; 111; 100; 101]; [65; 56; 53]].
Definition img_filter_ascii (l : list (bytes * obj)) : bool :=
  let name :=
    match dict_get2 l k_F k_Filter with
    | Some (OName n) => n
    | Some (OArr a) => match rev a with OName n :: _ => n | _ => [] end
    | _ => []
    end in
  existsb (bytes_eqb name) ascii_filters.

(* readValueDepth / readDictBody, on fuel *)
Fixpoint read_value (L : limits) (fuel : nat) (depth : N) (s : bytes) {struct fuel} : cres obj :=
  match fuel with
  | O => CFuel
  | S f =>
    match scan_token L s with
    | CParse rest => CParse rest | CStop => CStop | CFuel => CFuel
    | COk tok s1 =>
      match tok with
      | TOp name =>
        if bytes_eqb name [cLB] then
          if max_value_depth <=? depth then CParse s1 else read_value_arr L f (depth + 1) [] s1
        else if bytes_eqb name kw_ltlt then
          if max_value_depth <=? depth then CParse s1
          else
            match read_dict_body L f kw_gtgt (depth + 1) [] s1 with
            | COk d rest => COk (ODict d) rest
            | CParse rest => CParse rest | CStop => CStop | CFuel => CFuel
            end
        else COk (OReal name) s1
      | TObj o => COk o s1
      end
    end
  end
with read_value_arr (L : limits) (fuel : nat) (depth : N) (acc : list obj) (s : bytes) {struct fuel}
  : cres obj :=
  match fuel with
  | O => CFuel
  | S f =>
    match skip_ws s with
    | Err _ => CStop
    | Ok s1 =>
      match s1 with
      | b :: r =>
        if b =? cRB then COk (OArr (rev acc)) r
        else if max_arr L <=? N.of_nat (length acc) then CParse s1
        else
          match read_value L f depth s1 with
          | COk v rest => read_value_arr L f depth (v :: acc) rest
          | CParse rest => CParse rest | CStop => CStop | CFuel => CFuel
          end
      | [] => CStop
      end
    end
  end
with read_dict_body (L : limits) (fuel : nat) (term : bytes) (depth : N) (acc : list (bytes * obj))
  (s : bytes) {struct fuel} : cres (list (bytes * obj)) :=
  match fuel with
  | O => CFuel
  | S f =>
    match skip_ws s with
    | Err _ => CStop
    | Ok s1 =>
      if starts_with term s1 then COk acc (drop (length term) s1)
      else
        match read_value L f depth s1 with
        | CParse rest => CParse rest | CStop => CStop | CFuel => CFuel
        | COk k s2 =>
          match k with
          | OName key =>
            match read_value L f depth s2 with
            | CParse rest => CParse rest | CStop => CStop | CFuel => CFuel
            | COk v s3 =>
              if is_null v then read_dict_body L f term depth acc s3
              else if negb (dict_has acc key) && (max_dict L <=? N.of_nat (length acc)) then CParse s3
              else read_dict_body L f term depth (dict_set acc key v) s3
            end
          | _ => CParse s2
          end
        end
    end
  end.

Definition value_fuel (s : bytes) : nat := (2 * length s + 4)%nat.

(* readInlineImage, after the BI token *)
Definition read_inline_image (L : limits) (s : bytes) : cres cop :=
  match read_dict_body L (value_fuel s) n_ID 0 [] s with
  | CParse rest => CParse rest | CStop => CStop | CFuel => CFuel
  | COk d s1 =>
    let w := img_int d k_W k_Width in
    let h := img_int d k_H k_Height in
    if ((w <=? 0) || (h <=? 0) || (max_img_dim <? w) || (max_img_dim <? h))%Z then CParse s1
    else if (max_img_pixels <? w * h)%Z then CParse s1
    else
      let len := img_int d k_L k_Length in
      (* one white-space byte after ID *)
      let s2 := match s1 with b :: r => if is_space b then r else s1 | [] => [] end in
      let '(s3, prev0) := if img_filter_ascii d then skip_sp_last 0 s2 else (s2, 0) in
      match (if img_filter_ascii d then (match s3 with [] => Err EOF | _ => Ok s3 end) else Ok s3) with
      | Err _ => CStop
      | Ok s3 =>
        let body :=
          if (0 <? len)%Z then
            if (Z.of_N max_img_bytes <? len)%Z then CParse s3
            else
              match take_n (Z.to_nat len) s3 with
              | None => CStop
              | Some (data, s4) =>
                match skip_ws s4 with
                | Err _ => CStop
                | Ok s5 => COk data s5
                end
              end
          else ei_loop [] prev0 s3 in
        match body with
        | CParse rest => CParse rest | CStop => CStop | CFuel => CFuel
        | COk data s6 =>
          if starts_with n_EI s6 then
            let s7 := drop 2 s6 in
            match s7 with
            | c :: _ => if is_regular c then CParse s7 else COk (mkOp n_image [ODict d; OStr data]) s7
            | [] => COk (mkOp n_image [ODict d; OStr data]) s7
            end
          else match s6 with
               | _ :: _ :: _ => CParse s6
               | _ => CStop
               end
        end
      end
  end.

(* the token loop of Scan; stack: innermost frame first; args: newest first *)
Fixpoint cloop (L : limits) (fuel : nat) (stack : list frame) (args : list obj) (s : bytes) {struct fuel}
  : cres cop :=
  match fuel with
  | O => CFuel
  | S f =>
    match scan_token L s with
    | CParse rest => CParse rest | CStop => CStop | CFuel => CFuel
    | COk tok s1 =>
      (* deliver a finished value or an operator *)
      let deliver := fun (stack : list frame) (t : ctok) =>
        match stack with
        | top :: below =>
          let limit := if f_dict top then 2 * max_dict L else max_arr L in
          if limit <=? N.of_nat (length (f_data top)) then CParse s1
          else cloop L f (mkFrame (f_dict top) (tok_value t :: f_data top) :: below) args s1
        | [] =>
          match t with
          | TOp name =>
            if max_args <=? N.of_nat (length args) then cloop L f [] [] s1
            else if bytes_eqb name n_BI then read_inline_image L s1
            else COk (mkOp name (rev args)) s1
          | TObj o =>
            if N.of_nat (length args) <? max_args then cloop L f [] (o :: args) s1
            else cloop L f [] args s1
          end
        end in
      match tok with
      | TOp name =>
        if bytes_eqb name kw_ltlt then
          if max_depth L <=? N.of_nat (length stack) then CParse s1
          else cloop L f (mkFrame true [] :: stack) args s1
        else if bytes_eqb name kw_gtgt then
          match stack with
          | top :: below =>
            if f_dict top then
              if Nat.even (length (f_data top))
              then deliver below (TObj (ODict (build_dict [] (rev (f_data top)))))
              else cloop L f below args s1
            else cloop L f stack args s1
          | [] => cloop L f stack args s1
          end
        else if bytes_eqb name [cLB] then
          if max_depth L <=? N.of_nat (length stack) then CParse s1
          else cloop L f (mkFrame false [] :: stack) args s1
        else if bytes_eqb name [cRB] then
          match stack with
          | top :: below =>
            if f_dict top then cloop L f stack args s1
            else deliver below (TObj (OArr (rev (f_data top))))
          | [] => cloop L f stack args s1
          end
        else deliver stack tok
      | TObj _ => deliver stack tok
      end
    end
  end.

(* skipWhiteSpaceExceptComments *)
Fixpoint skip_sp (s : bytes) : bytes :=
  match s with
  | b :: r => if is_space b then skip_sp r else s
  | [] => []
  end.
(* ReadComment: up to the end of the line *)
Fixpoint span_line (s : bytes) : bytes * bytes :=
  match s with
  | b :: r => if (b =? cLF) || (b =? cCR) then ([], s) else let '(t, rest) := span_line r in (b :: t, rest)
  | [] => ([], [])
  end.

(* Scan *)
Definition cscan_one (L : limits) (s : bytes) : cres cop :=
  match skip_sp s with
  | [] => CStop
  | (b :: _) as s1 =>
    if b =? cPCT then
      let '(c, rest) := span_line s1 in
      if max_name L <? blen c then CParse rest else COk (mkOp n_raw [OStr c]) rest
    else cloop L (S (length s1)) [] [] s1
  end.

(* pumpScanner: all operators of the stream; None: out of fuel *)
Fixpoint cscan_fuel (L : limits) (fuel : nat) (s : bytes) : option (list cop) :=
  match fuel with
  | O => None
  | S f =>
    match cscan_one L s with
    | COk op rest => match cscan_fuel L f rest with Some l => Some (op :: l) | None => None end
    | CParse rest => cscan_fuel L f rest
    | CStop => Some []
    | CFuel => None
    end
  end.
Definition cscan (L : limits) (s : bytes) : option (list cop) := cscan_fuel L (S (length s)) s.

(* canonical form for printing scanner output: as Obj.canon, but real tokens (and the operator
   tokens represented as reals) are left as they were read *)
Fixpoint ccanon (o : obj) : obj :=
  match o with
  | ONilArr => ONull
  | ONilDict => ODict []
  | OArr l => OArr (map ccanon l)
  | ODict l =>
    ODict (sort_entries
      ((fix go (l : list (bytes * obj)) : list (bytes * obj) :=
          match l with
          | [] => []
          | (k, v) :: r => match ccanon v with ONull => go r | cv => (k, cv) :: go r end
          end) l))
  | _ => o
  end.
