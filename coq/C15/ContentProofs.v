(* cscan_format: the content scanner reads back, as operators with equal operands, what
   Operator.Format wrote. *)
From Coq Require Import List NArith ZArith Bool Lia Permutation.
From GoPdf.Base Require Import Bytes Res.
From GoPdf.Gen Require Gen_Consts Gen_C15.
From GoPdf.C01 Require Import Lex Obj Num Names Strings Format Scan Wf
  LexProofs NumProofs NamesProofs StringsProofs FormatProofs ScanProofs.
From GoPdf.C15 Require Import Content State ContentSpec.
Import ListNotations.
Open Scope N_scope.

(* the content scanner has its own copy of the character class table; the model uses C01's *)
Lemma class_tables_agree_lemma : Gen_C15.content_class = Gen_Consts.class.
Proof. reflexivity. Qed.

(* ---- runs of regular bytes ---- *)
Definition all_reg (t : bytes) : bool := forallb is_regular t.

Lemma span_regular_app t tail : all_reg t = true -> follow_ok tail = true ->
  span_regular (t ++ tail) = (t, tail).
Proof.
  induction t as [|b t IH]; intros Ht Hf.
  - cbn [app]. destruct tail as [|c r]; [reflexivity|]. cbn [follow_ok] in Hf. apply negb_true_iff in Hf.
    cbn [span_regular]. rewrite Hf. reflexivity.
  - cbn [all_reg forallb] in Ht. apply andb_true_iff in Ht as [Hb Ht].
    cbn [app span_regular]. rewrite Hb. rewrite IH by assumption. reflexivity.
Qed.

Lemma digit_regular b : is_digit b = true -> is_regular b = true.
Proof.
  intro H.
  assert (Hb : b < 256).
  { unfold is_digit, c9 in H. apply andb_true_iff in H as [_ H]. apply N.leb_le in H. lia. }
  pose proof (all_bytes_spec (fun b => implb (is_digit b) (is_regular b)) ltac:(vm_compute; reflexivity) b Hb) as H0.
  cbv beta in H0. rewrite H in H0. exact H0.
Qed.
Lemma digits_regular ds : all_digits ds = true -> all_reg ds = true.
Proof.
  induction ds as [|b ds IH]; [reflexivity|]. cbn [all_digits all_reg forallb]. intro H.
  apply andb_true_iff in H as [Hb H]. rewrite (digit_regular b Hb). exact (IH H).
Qed.
Lemma all_reg_app a b : all_reg (a ++ b) = all_reg a && all_reg b.
Proof. unfold all_reg. apply forallb_app. Qed.

(* a regular token: first byte regular, read as one token *)
Lemma scan_token_regular L ws t tail b r :
  is_lead ws -> t = b :: r -> all_reg t = true -> stops_ws b = true ->
  (b =? cSLASH) = false -> (b =? cLP) = false -> (b =? cLT) = false -> (b =? cGT) = false ->
  follow_ok tail = true -> blen t <= max_name L ->
  scan_token L (ws ++ t ++ tail) = COk (classify t) tail.
Proof.
  intros Hws -> Hreg Hs H1 H2 H3 H4 Hf Hl.
  cbn [all_reg forallb] in Hreg. apply andb_true_iff in Hreg as [Hb Hr].
  unfold scan_token. rewrite skip_is_lead by exact Hws. cbn [app]. rewrite skip_ws_stop by exact Hs.
  rewrite H1, H2, H3. unfold kw_ltlt, kw_gtgt. cbn [starts_with].
  rewrite (N.eqb_sym cLT b), H3, (N.eqb_sym cGT b), H4. cbn [andb].
  rewrite Hb. rewrite span_regular_app by assumption.
  replace (max_name L <? blen (b :: r)) with false by (symmetry; apply N.ltb_ge; exact Hl).
  reflexivity.
Qed.

(* ---- numbers ---- *)
Lemma simple_num_shape sgn b ds :
  (sgn = [] \/ sgn = [cMINUS]) -> is_digit b = true ->
  forallb (fun c => is_digit c || (c =? cDOT)) ds = true -> simple_num (sgn ++ b :: ds) = true.
Proof.
  intros [-> | ->] Hb Hd; cbn [app simple_num].
  - rewrite Hb, Hd. rewrite !orb_true_r. reflexivity.
  - cbn [forallb]. rewrite Hb, Hd. reflexivity.
Qed.
Lemma digits_dotok ds : all_digits ds = true -> forallb (fun c => is_digit c || (c =? cDOT)) ds = true.
Proof.
  induction ds as [|b ds IH]; [reflexivity|]. cbn [all_digits forallb]. intro H.
  apply andb_true_iff in H as [Hb H]. rewrite Hb. cbn [orb andb]. exact (IH H).
Qed.

Lemma classify_int z : in_int64 z = true -> classify (print_int z) = TObj (OInt z).
Proof.
  intro Hr. destruct (print_int_shape z) as (sgn & b & ds & E & Hs & Hb & Hd).
  assert (Hsimple : simple_num (print_int z) = true)
    by (rewrite E; apply simple_num_shape; auto using digits_dotok).
  assert (Hnd : has_dot (print_int z) = false).
  { rewrite E, has_dot_app. change (b :: ds) with ([b] ++ ds). rewrite has_dot_app.
    destruct (digit_not_sign b Hb) as (_ & _ & Hdot).
    rewrite (has_dot_digits ds Hd). unfold has_dot at 2. cbn [existsb]. rewrite Hdot.
    destruct Hs as [-> | ->]; reflexivity. }
  assert (Hcp : cparse_number (print_int z) = Some (OInt z)).
  { unfold cparse_number. rewrite Hsimple, Hnd. rewrite (parse_print_int z Hr). reflexivity. }
  unfold classify. rewrite Hcp.
  rewrite E. destruct Hs as [-> | ->]; cbn [app].
  - rewrite Hb. reflexivity.
  - change (is_digit cMINUS || (cMINUS =? cDOT) || (cMINUS =? cMINUS) || (cMINUS =? cPLUS)) with true. reflexivity.
Qed.

Lemma count_dots_digits ds : all_digits ds = true -> count_dots ds = 0.
Proof.
  unfold count_dots. induction ds as [|b ds IH]; [reflexivity|]. cbn [all_digits forallb filter]. intro H.
  apply andb_true_iff in H as [Hb H]. destruct (digit_not_sign b Hb) as (_ & _ & Hdot). rewrite Hdot. exact (IH H).
Qed.
Lemma count_dots_app a b : count_dots (a ++ b) = count_dots a + count_dots b.
Proof. unfold count_dots. rewrite filter_app, blen_app. reflexivity. Qed.

Lemma classify_real t : real_grammar t = true -> real_overflow (force_dot t) = false ->
  classify (force_dot t) = TObj (OReal (force_dot t)).
Proof.
  intros Hg Ho. destruct (real_shape t Hg) as (sgn & d1 & ds1 & ds2 & E & Hs & Hd1 & Hds1 & Hds2).
  assert (Hdots : forallb (fun c => is_digit c || (c =? cDOT)) (ds1 ++ cDOT :: ds2) = true).
  { rewrite forallb_app. apply andb_true_iff. split; [exact (digits_dotok ds1 Hds1)|].
    cbn [forallb]. apply andb_true_iff. split; [apply orb_true_r | exact (digits_dotok ds2 Hds2)]. }
  assert (Hsimple : simple_num (force_dot t) = true).
  { rewrite E. change ((d1 :: ds1) ++ cDOT :: ds2) with (d1 :: (ds1 ++ cDOT :: ds2)).
    apply simple_num_shape; auto. }
  assert (Hdot : has_dot (force_dot t) = true).
  { rewrite E, !has_dot_app. cbn [has_dot existsb]. change (cDOT =? cDOT) with true. rewrite !orb_true_r. reflexivity. }
  assert (Hcnt : count_dots (force_dot t) = 1).
  { rewrite E, !count_dots_app.
    assert (count_dots sgn = 0) by (destruct Hs as [-> | ->]; reflexivity).
    assert (count_dots (d1 :: ds1) = 0) by (apply count_dots_digits; cbn [all_digits forallb]; rewrite Hd1; exact Hds1).
    assert (count_dots (cDOT :: ds2) = 1).
    { change (cDOT :: ds2) with ([cDOT] ++ ds2). rewrite count_dots_app, (count_dots_digits ds2 Hds2). reflexivity. }
    lia. }
  assert (Hfo : float_ok (force_dot t) = true).
  { unfold float_ok. rewrite Ho. cbn [negb]. rewrite andb_true_r.
    rewrite E, existsb_app. cbn [app existsb]. rewrite Hd1. cbn [orb]. apply orb_true_r. }
  assert (Hcp : cparse_number (force_dot t) = Some (OReal (force_dot t))).
  { unfold cparse_number. rewrite Hsimple, Hdot, Hcnt, Hfo. reflexivity. }
  unfold classify. rewrite Hcp.
  rewrite E. destruct Hs as [-> | ->]; cbn [app].
  - rewrite Hd1. reflexivity.
  - change (is_digit cMINUS || (cMINUS =? cDOT) || (cMINUS =? cMINUS) || (cMINUS =? cPLUS)) with true. reflexivity.
Qed.

Lemma print_int_reg z : all_reg (print_int z) = true.
Proof.
  destruct (print_int_shape z) as (sgn & b & ds & E & Hs & Hb & Hd). rewrite E, all_reg_app.
  change (b :: ds) with ([b] ++ ds). rewrite all_reg_app. rewrite (digits_regular ds Hd).
  cbn [all_reg forallb]. rewrite (digit_regular b Hb). destruct Hs as [-> | ->]; reflexivity.
Qed.
Lemma force_dot_reg t : real_grammar t = true -> all_reg (force_dot t) = true.
Proof.
  intro Hg. destruct (real_shape t Hg) as (sgn & d1 & ds1 & ds2 & E & Hs & Hd1 & Hds1 & Hds2).
  rewrite E, !all_reg_app. change (cDOT :: ds2) with ([cDOT] ++ ds2). rewrite all_reg_app.
  rewrite (digits_regular ds2 Hds2).
  assert (all_reg (d1 :: ds1) = true) by (apply digits_regular; cbn [all_digits forallb]; rewrite Hd1; exact Hds1).
  rewrite H. destruct Hs as [-> | ->]; reflexivity.
Qed.

(* first byte facts for tokens that start with a digit or a minus sign *)
Lemma numhead_facts b : (is_digit b = true \/ b = cMINUS) ->
  stops_ws b = true /\ (b =? cSLASH) = false /\ (b =? cLP) = false /\ (b =? cLT) = false /\ (b =? cGT) = false.
Proof.
  intros [H| ->]; [|repeat split; reflexivity].
  assert (Hb : b < 256).
  { unfold is_digit, c9 in H. apply andb_true_iff in H as [_ H]. apply N.leb_le in H. lia. }
  pose proof (all_bytes_spec
    (fun b => implb (is_digit b) (stops_ws b && negb (b =? cSLASH) && negb (b =? cLP) && negb (b =? cLT) && negb (b =? cGT)))
    ltac:(vm_compute; reflexivity) b Hb) as H0.
  cbv beta in H0. rewrite H in H0. cbn [implb] in H0.
  apply andb_true_iff in H0 as [H0 H4]. apply andb_true_iff in H0 as [H0 H3].
  apply andb_true_iff in H0 as [H0 H2]. apply andb_true_iff in H0 as [H0 H1].
  repeat split; try assumption; apply negb_true_iff; assumption.
Qed.

(* ---- names ---- *)
Lemma cname_loop_fmt : forall n acc tail,
  wfbs n = true -> follow_ok tail = true ->
  cname_loop acc (fmt_name_body n ++ tail) = (rev acc ++ n, tail).
Proof.
  induction n as [|c r IH]; intros acc tail Hw Hf.
  - cbn [fmt_name_body app]. rewrite app_nil_r. destruct tail as [|b t]; [reflexivity|].
    cbn [follow_ok] in Hf. cbn [cname_loop]. rewrite Hf. reflexivity.
  - apply wfbs_cons in Hw as [Hc Hw]. cbn [fmt_name_body]. destruct (funny c) eqn:Ef.
    + destruct (hex_pair_rt c Hc) as (H1 & H2 & H3).
      cbn [app cname_loop]. change (negb (is_regular cHASH)) with false. change (cHASH =? cHASH) with true. cbn iota.
      rewrite H1, H2. cbn [andb]. rewrite H3. rewrite IH by assumption. cbn [rev]. rewrite <- app_assoc. reflexivity.
    + apply not_funny in Ef as [Hr Hh]. cbn [app cname_loop]. rewrite Hr, Hh. cbn [negb].
      rewrite IH by assumption. cbn [rev]. rewrite <- app_assoc. reflexivity.
Qed.

Lemma scan_token_name L ws n tail :
  is_lead ws -> wfbs n = true -> blen n <= max_name L -> follow_ok tail = true ->
  scan_token L (ws ++ fmt_name n ++ tail) = COk (TObj (OName n)) tail.
Proof.
  intros Hws Hw Hl Hf. unfold scan_token, fmt_name. rewrite skip_is_lead by exact Hws. cbn [app].
  rewrite skip_ws_stop by reflexivity. change (cSLASH =? cSLASH) with true. cbn iota.
  unfold cread_name. rewrite cname_loop_fmt by assumption. cbn [rev app].
  replace (max_name L <? blen n) with false by (symmetry; apply N.ltb_ge; exact Hl). reflexivity.
Qed.

(* ---- strings (literal form; the content writer never sets OptPretty) ---- *)
Lemma scan_token_string L ws s tail :
  is_lead ws -> blen s < max_str L ->
  scan_token L (ws ++ fmt_string false s ++ tail) = COk (TObj (OStr s)) tail.
Proof.
  intros Hws Hl. pose proof (read_fmt_str_lit L s tail Hl) as H.
  unfold fmt_string. cbn [andb]. unfold fmt_str_lit in *. cbn [app] in H |- *.
  change (read_string_tok L (cLP :: (fmt_str_body None 0 (count_rp s) s ++ [cRP]) ++ tail))
    with (read_string L ((fmt_str_body None 0 (count_rp s) s ++ [cRP]) ++ tail)) in H.
  unfold scan_token. rewrite skip_is_lead by exact Hws. rewrite skip_ws_stop by reflexivity.
  change (cLP =? cSLASH) with false. change (cLP =? cLP) with true. cbn iota.
  unfold cread_string. unfold bytes, byte in *. rewrite H. reflexivity.
Qed.

(* ---- keywords ---- *)
Lemma scan_token_kw L ws kw v tail :
  is_lead ws -> (kw = kw_null /\ v = ONull \/ kw = kw_true /\ v = OBool true \/ kw = kw_false /\ v = OBool false) ->
  follow_ok tail = true -> 5 <= max_name L ->
  scan_token L (ws ++ kw ++ tail) = COk (TObj v) tail.
Proof.
  intros Hws Hk Hf Hl.
  assert (Hc : classify kw = TObj v /\ exists b r, kw = b :: r /\ all_reg kw = true /\ stops_ws b = true /\
               (b =? cSLASH) = false /\ (b =? cLP) = false /\ (b =? cLT) = false /\ (b =? cGT) = false /\ blen kw <= 5).
  { destruct Hk as [[-> ->]|[[-> ->]|[-> ->]]]; (split; [reflexivity|]); eexists _, _;
      repeat split; try reflexivity; vm_compute; congruence. }
  destruct Hc as (Hc & b & r & E & Hreg & Hs & H1 & H2 & H3 & H4 & Hlen).
  rewrite (scan_token_regular L ws kw tail b r); auto; [rewrite Hc; reflexivity | lia].
Qed.

(* ---- delimiters ---- *)
Lemma scan_token_lb L ws X : is_lead ws -> 1 <= max_name L ->
  scan_token L (ws ++ cLB :: X) = COk (TOp [cLB]) X.
Proof.
  intros Hws Hl. unfold scan_token. rewrite skip_is_lead by exact Hws. rewrite skip_ws_stop by reflexivity.
  change (cLB =? cSLASH) with false. change (cLB =? cLP) with false. cbn [kw_ltlt kw_gtgt starts_with].
  change (cLT =? cLB) with false. change (cGT =? cLB) with false. change (cLB =? cLT) with false. cbn [andb].
  change (is_regular cLB) with false. cbn iota.
  match goal with |- context [max_name L <? ?x] => destruct (max_name L <? x) eqn:E end;
    [apply N.ltb_lt in E; unfold blen in E; cbn [length] in E; lia | reflexivity].
Qed.
Lemma scan_token_rb L ws X : is_lead ws -> 1 <= max_name L ->
  scan_token L (ws ++ cRB :: X) = COk (TOp [cRB]) X.
Proof.
  intros Hws Hl. unfold scan_token. rewrite skip_is_lead by exact Hws. rewrite skip_ws_stop by reflexivity.
  change (cRB =? cSLASH) with false. change (cRB =? cLP) with false. cbn [kw_ltlt kw_gtgt starts_with].
  change (cLT =? cRB) with false. change (cGT =? cRB) with false. change (cRB =? cLT) with false. cbn [andb].
  change (is_regular cRB) with false. cbn iota.
  match goal with |- context [max_name L <? ?x] => destruct (max_name L <? x) eqn:E end;
    [apply N.ltb_lt in E; unfold blen in E; cbn [length] in E; lia | reflexivity].
Qed.
Lemma scan_token_ltlt L ws X : is_lead ws -> scan_token L (ws ++ kw_ltlt ++ X) = COk (TOp kw_ltlt) X.
Proof.
  intros Hws. unfold scan_token. rewrite skip_is_lead by exact Hws. cbn [kw_ltlt app].
  rewrite skip_ws_stop by reflexivity. reflexivity.
Qed.
Lemma scan_token_gtgt L ws X : is_lead ws -> scan_token L (ws ++ kw_gtgt ++ X) = COk (TOp kw_gtgt) X.
Proof.
  intros Hws. unfold scan_token. rewrite skip_is_lead by exact Hws. cbn [kw_gtgt app].
  rewrite skip_ws_stop by reflexivity. reflexivity.
Qed.

Lemma scan_token_rb0 L X : 1 <= max_name L -> scan_token L (cRB :: X) = COk (TOp [cRB]) X.
Proof. intro H. apply (scan_token_rb L [] X); [left; reflexivity | exact H]. Qed.
Lemma scan_token_gtgt0 L X : scan_token L (kw_gtgt ++ X) = COk (TOp kw_gtgt) X.
Proof. apply (scan_token_gtgt L [] X). left; reflexivity. Qed.

(* ================= the stack machine of Scan ================= *)

Definition push (stack : list frame) (args : list obj) (v : obj) : list frame * list obj :=
  match stack with
  | [] => ([], v :: args)
  | top :: below => (mkFrame (f_dict top) (v :: f_data top) :: below, args)
  end.
Definition room (L : limits) (stack : list frame) (args : list obj) : Prop :=
  match stack with
  | [] => N.of_nat (length args) < max_args
  | top :: _ => N.of_nat (length (f_data top)) < (if f_dict top then 2 * max_dict L else max_arr L)
  end.

(* one step of the token loop *)
Definition deliver (L : limits) (f : nat) (args : list obj) (s1 : bytes) (stack : list frame) (t : ctok) : cres cop :=
  match stack with
  | top :: below =>
    let limit := if f_dict top then 2 * max_dict L else max_arr L in
    if limit <=? N.of_nat (length (f_data top)) then CParse s1
    else cloop L f (mkFrame (f_dict top) (tok_value t :: f_data top) :: below) args s1
  | [] =>
    match t with
    | TOp name =>
      if max_args <=? N.of_nat (length args) then cloop L f [] [] s1
      else if bytes_eqb name n_BI then read_inline_image L s1
      else COk (mkOp name (rev args)) s1
    | TObj o =>
      if N.of_nat (length args) <? max_args then cloop L f [] (o :: args) s1
      else cloop L f [] args s1
    end
  end.

Lemma cloop_eq L f stack args s :
  cloop L (S f) stack args s =
  match scan_token L s with
  | CParse rest => CParse rest | CStop => CStop | CFuel => CFuel
  | COk tok s1 =>
    match tok with
    | TOp name =>
      if bytes_eqb name kw_ltlt then
        if max_depth L <=? N.of_nat (length stack) then CParse s1
        else cloop L f (mkFrame true [] :: stack) args s1
      else if bytes_eqb name kw_gtgt then
        match stack with
        | top :: below =>
          if f_dict top then
            if Nat.even (length (f_data top))
            then deliver L f args s1 below (TObj (ODict (build_dict [] (rev (f_data top)))))
            else cloop L f below args s1
          else cloop L f stack args s1
        | [] => cloop L f stack args s1
        end
      else if bytes_eqb name [cLB] then
        if max_depth L <=? N.of_nat (length stack) then CParse s1
        else cloop L f (mkFrame false [] :: stack) args s1
      else if bytes_eqb name [cRB] then
        match stack with
        | top :: below =>
          if f_dict top then cloop L f stack args s1
          else deliver L f args s1 below (TObj (OArr (rev (f_data top))))
        | [] => cloop L f stack args s1
        end
      else deliver L f args s1 stack tok
    | TObj _ => deliver L f args s1 stack tok
    end
  end.
Proof. reflexivity. Qed.

Lemma deliver_obj L f args s1 stack o : room L stack args ->
  deliver L f args s1 stack (TObj o) = let '(st, ar) := push stack args o in cloop L f st ar s1.
Proof.
  intro Hr. unfold deliver, push. destruct stack as [|top below]; cbn [room] in Hr.
  - replace (N.of_nat (length args) <? max_args) with true by (symmetry; apply N.ltb_lt; exact Hr). reflexivity.
  - match goal with |- context [?l <=? ?x] => replace (l <=? x) with false by (symmetry; apply N.leb_gt; exact Hr) end.
    reflexivity.
Qed.

(* a value token is pushed *)
Lemma cloop_value L f stack args s s1 o :
  scan_token L s = COk (TObj o) s1 -> room L stack args ->
  cloop L (S f) stack args s = let '(st, ar) := push stack args o in cloop L f st ar s1.
Proof. intros Ht Hr. rewrite cloop_eq, Ht. apply deliver_obj. exact Hr. Qed.

(* the specification proved by induction over operands *)
Definition cspec (o : obj) : Prop :=
  forall L stack args ws tail f,
    limits_ok L = true ->
    wf_obj L (N.of_nat (length stack)) o = true -> no_ref o = true ->
    is_lead ws -> (ends_reg o = true -> follow_ok tail = true) -> room L stack args ->
    cloop L (ntok o + f) stack args (ws ++ body false o ++ tail)
    = let '(st, ar) := push stack args (cnorm o) in cloop L f st ar tail.

Lemma limits_ok_facts L : limits_ok L = true -> 5 <= max_name L /\ 0 < max_depth L.
Proof.
  unfold limits_ok. intro H. apply andb_true_iff in H as [H1 H2].
  apply N.leb_le in H1. apply N.ltb_lt in H2. auto.
Qed.

(* atoms: one token *)
Definition is_atomic (o : obj) : bool :=
  match o with
  | ONull | OBool _ | OInt _ | OReal _ | OName _ | OStr _ | ONilArr => true
  | _ => false
  end.

Lemma atom_token L d o ws tail :
  limits_ok L = true -> is_atomic o = true -> wf_obj L d o = true -> is_lead ws ->
  (ends_reg o = true -> follow_ok tail = true) ->
  scan_token L (ws ++ body false o ++ tail) = COk (TObj (cnorm o)) tail.
Proof.
  intros HL Ha Hw Hws Hf. destruct (limits_ok_facts L HL) as [Hn5 _].
  destruct o; try discriminate; cbn [ends_reg] in Hf.
  - change (body false ONull) with kw_null. apply scan_token_kw; auto.
  - destruct b.
    + change (body false (OBool true)) with kw_true. apply scan_token_kw; auto.
    + change (body false (OBool false)) with kw_false. apply scan_token_kw; auto.
  - (* integer *)
    cbn [wf_obj] in Hw. apply andb_true_iff in Hw as [Hin Hl]. apply N.leb_le in Hl.
    change (body false (OInt z)) with (print_int z).
    destruct (print_int_shape z) as (sgn & b & ds & E & Hs & Hb & Hd).
    assert (Hhead : exists b0 r0, print_int z = b0 :: r0 /\ (is_digit b0 = true \/ b0 = cMINUS)).
    { rewrite E. destruct Hs as [-> | ->]; cbn [app]; eexists _, _; split; eauto. }
    destruct Hhead as (b0 & r0 & E0 & Hb0).
    destruct (numhead_facts b0 Hb0) as (H1 & H2 & H3 & H4 & H5).
    rewrite (scan_token_regular L ws (print_int z) tail b0 r0); auto using print_int_reg.
    rewrite classify_int by exact Hin. reflexivity.
  - (* real *)
    cbn [wf_obj] in Hw. apply andb_true_iff in Hw as [Hw Ho]. apply andb_true_iff in Hw as [Hg Hl].
    apply N.leb_le in Hl. apply negb_true_iff in Ho.
    change (body false (OReal t)) with (force_dot t).
    destruct (real_shape t Hg) as (sgn & d1 & ds1 & ds2 & E & Hs & Hd1 & _).
    assert (Hhead : exists b0 r0, force_dot t = b0 :: r0 /\ (is_digit b0 = true \/ b0 = cMINUS)).
    { rewrite E. destruct Hs as [-> | ->]; cbn [app]; eexists _, _; split; eauto. }
    destruct Hhead as (b0 & r0 & E0 & Hb0).
    destruct (numhead_facts b0 Hb0) as (H1 & H2 & H3 & H4 & H5).
    rewrite (scan_token_regular L ws (force_dot t) tail b0 r0); auto using force_dot_reg.
    rewrite classify_real by assumption. reflexivity.
  - (* name *)
    cbn [wf_obj] in Hw. destruct (wf_name_facts L n Hw) as [Hw1 Hw2].
    change (body false (OName n)) with (fmt_name n). apply scan_token_name; auto. lia.
  - (* string *)
    cbn [wf_obj] in Hw. apply andb_true_iff in Hw as [Hw1 Hw2]. apply N.ltb_lt in Hw2.
    change (body false (OStr s)) with (fmt_string false s). apply scan_token_string; auto.
  - change (body false ONilArr) with kw_null. apply scan_token_kw; auto.
Qed.

Lemma cspec_atomic o : is_atomic o = true -> cspec o.
Proof.
  intros Ha L stack args ws tail f HL Hw Hr Hws Hf Hroom.
  assert (Hn : ntok o = 1%nat) by (destruct o; try discriminate; reflexivity).
  rewrite Hn. change (1 + f)%nat with (S f).
  apply cloop_value; [|exact Hroom]. eapply atom_token; eauto.
Qed.

(* ---- arrays ---- *)
Lemma cost_pos o : 1 <= cost o.
Proof. destruct o; cbn [cost]; lia. Qed.

Lemma of_nat_S n : N.of_nat (S n) = N.of_nat n + 1.
Proof. lia. Qed.

Lemma arr_elems L stack args rest : forall l sep data f,
  Forall cspec l -> limits_ok L = true ->
  forallb (wf_obj L (N.of_nat (S (length stack)))) l = true -> forallb no_ref l = true ->
  arr_fits L (N.of_nat (length data)) l = true ->
  cloop L (ntok_list l + f) (mkFrame false data :: stack) args (fmt_list_plain sep l ++ cRB :: rest)
  = cloop L f (mkFrame false (rev (map cnorm l) ++ data) :: stack) args (cRB :: rest).
Proof.
  induction l as [|o r IH]; intros sep data f HP HL Hw Hnr Hfit.
  - reflexivity.
  - inversion HP as [|? ? HPo HPr]; subst.
    cbn [forallb] in Hw, Hnr. apply andb_true_iff in Hw as [Hwo Hwr]. apply andb_true_iff in Hnr as [Hno Hnrr].
    apply arr_fits_cons in Hfit as [Hc Hfit]. pose proof (cost_pos o) as Hcp.
    rewrite fmt_list_plain_cons. rewrite <- !app_assoc.
    destruct (plain_tail L (N.of_nat (S (length stack))) r (ends_reg o) rest Hwr) as (t1 & _ & _ & Hfo).
    change (ntok_list (o :: r) + f)%nat with (ntok o + ntok_list r + f)%nat.
    rewrite <- Nat.add_assoc.
    rewrite (HPo L (mkFrame false data :: stack) args (lead sep o) _ (ntok_list r + f)%nat HL);
      [ | exact Hwo | exact Hno | apply lead_is_lead | exact Hfo | cbn [room f_dict f_data]; lia ].
    cbn [push f_dict f_data].
    rewrite IH; [ | exact HPr | exact HL | exact Hwr | exact Hnrr
                  | cbn [length]; rewrite of_nat_S; exact Hfit ].
    cbn [map rev]. rewrite <- app_assoc. reflexivity.
Qed.

Lemma cspec_arr l : Forall cspec l -> cspec (OArr l).
Proof.
  intros HP L stack args ws tail f HL Hw Hnr Hws Hf Hroom.
  destruct (limits_ok_facts L HL) as [Hn5 _].
  cbn [wf_obj] in Hw. apply andb_true_iff in Hw as [Hw Hall]. apply andb_true_iff in Hw as [Hd Hfit].
  apply N.ltb_lt in Hd. cbn [no_ref] in Hnr.
  unfold body. rewrite fmt_obj_arr. cbn [fst]. rewrite <- !app_assoc. cbn [app].
  change (ntok (OArr l) + f)%nat with (S (S (ntok_list l + f))).
  (* "[" *)
  rewrite cloop_eq. rewrite scan_token_lb by (auto; lia).
  change (bytes_eqb [cLB] kw_ltlt) with false. change (bytes_eqb [cLB] kw_gtgt) with false.
  change (bytes_eqb [cLB] [cLB]) with true. cbn iota.
  replace (max_depth L <=? N.of_nat (length stack)) with false by (symmetry; apply N.leb_gt; exact Hd).
  (* the elements *)
  replace (S (ntok_list l + f)) with (ntok_list l + S f)%nat by lia.
  etransitivity.
  { apply (arr_elems L stack args tail l false [] (S f)); auto. rewrite of_nat_S; exact Hall. }
  (* "]" *)
  rewrite cloop_eq. rewrite scan_token_rb0 by lia.
  change (bytes_eqb [cRB] kw_ltlt) with false. change (bytes_eqb [cRB] kw_gtgt) with false.
  change (bytes_eqb [cRB] [cLB]) with false. change (bytes_eqb [cRB] [cRB]) with true. cbn iota.
  cbn [f_dict f_data]. rewrite deliver_obj by exact Hroom.
  rewrite app_nil_r, rev_involutive. reflexivity.
Qed.

(* ---- dictionaries ---- *)
Definition ckv (kv : bytes * obj) : bytes * obj := (fst kv, cnorm (snd kv)).
Definition flat_es (es : list (bytes * obj)) : list obj :=
  flat_map (fun kv => [OName (fst kv); cnorm (snd kv)]) es.
Definition ntok_es (es : list (bytes * obj)) : nat :=
  fold_right (fun kv n => S (ntok (snd kv) + n))%nat 0%nat es.

Lemma build_dict_flat : forall es acc,
  NoDup (map fst acc ++ map fst es) ->
  build_dict acc (flat_es es) = acc ++ filter nn2 (map ckv es).
Proof.
  induction es as [|[k v] r IH]; intros acc Hnd.
  - cbn. rewrite app_nil_r. reflexivity.
  - cbn [flat_es flat_map app map filter fst snd]. fold (flat_es r).
    cbn [build_dict]. unfold nn2 at 1. unfold ckv at 1. cbn [fst snd].
    assert (Hfresh : dict_has acc k = false).
    { destruct (dict_has acc k) eqn:E; [|reflexivity]. exfalso.
      apply dict_has_in in E. cbn [map fst] in Hnd. apply NoDup_remove_2 in Hnd.
      apply Hnd. apply in_or_app. left. exact E. }
    destruct (is_null (cnorm v)) eqn:En; cbn [negb].
    + apply IH. cbn [map fst] in Hnd. apply NoDup_remove_1 in Hnd. exact Hnd.
    + rewrite dict_set_fresh by exact Hfresh. rewrite IH.
      * rewrite <- app_assoc. reflexivity.
      * rewrite map_app. cbn [map fst]. rewrite <- app_assoc. exact Hnd.
Qed.

Lemma flat_es_len es : length (flat_es es) = (2 * length es)%nat.
Proof. induction es as [|kv r IH]; [reflexivity|]. cbn [flat_es flat_map app length]. fold (flat_es r). lia. Qed.

Lemma dict_entries L stack args rest : forall es data f,
  Forall (fun kv => cspec (snd kv)) es -> limits_ok L = true ->
  Forall (fun kv => wf_name L (fst kv) = true /\ wf_obj L (N.of_nat (S (length stack))) (snd kv) = true
                    /\ no_ref (snd kv) = true) es ->
  N.of_nat (length data + 2 * length es) <= 2 * max_dict L ->
  cloop L (ntok_es es + f) (mkFrame true data :: stack) args (entries_text false es ++ kw_gtgt ++ rest)
  = cloop L f (mkFrame true (rev (flat_es es) ++ data) :: stack) args (kw_gtgt ++ rest).
Proof.
  induction es as [|[k v] r IH]; intros data f HP HL Hw Hlen.
  - reflexivity.
  - inversion HP as [|? ? HPv HPr]; subst. inversion Hw as [|? ? (Hk & Hwv & Hnv) Hwr]; subst.
    cbn [fst snd] in *. destruct (wf_name_facts L k Hk) as [Hk1 Hk2].
    unfold entries_text. cbn [map concat fst snd]. fold (entries_text false r).
    unfold fmt_entry. rewrite fmt_obj_split. cbn [fst]. rewrite <- !app_assoc.
    change (ntok_es ((k, v) :: r) + f)%nat with (S (ntok v + ntok_es r + f)).
    (* the key *)
    rewrite (cloop_value L _ _ _ _ (lead true v ++ body false v ++ entries_text false r ++ kw_gtgt ++ rest) (OName k)).
    + cbn [push f_dict f_data].
      destruct (entries_head false r rest) as (c & X0 & EX & Hc).
      destruct (key_end_facts c X0 Hc) as (_ & _ & Hfo).
      rewrite <- Nat.add_assoc.
      rewrite (HPv L (mkFrame true (OName k :: data) :: stack) args (lead true v) _ (ntok_es r + f)%nat HL);
        [ | exact Hwv | exact Hnv | apply lead_is_lead | intros _; rewrite EX; exact Hfo
          | cbn [room f_dict f_data length] in *; lia ].
      cbn [push f_dict f_data].
      rewrite IH; [ | exact HPr | exact HL | exact Hwr | cbn [length] in *; lia ].
      cbn [flat_es flat_map app rev]. fold (flat_es r). rewrite <- !app_assoc. reflexivity.
    + apply (scan_token_name L [] k); [left; reflexivity | exact Hk1 | lia |].
      apply follow_lead_body with (L := L) (d := N.of_nat (S (length stack))). exact Hwv.
    + cbn [room f_dict f_data length] in *. lia.
Qed.

Lemma cnorm_dict l : cnorm (ODict l) = ODict (filter nn2 (sort_entries (cnorm_entries l))).
Proof. cbn [cnorm]. f_equal. Qed.

Lemma cnorm_entries_map l : cnorm_entries l = map ckv (filter nonnull l).
Proof.
  induction l as [|[k v] r IH]; cbn [cnorm_entries filter]; [reflexivity|].
  unfold nonnull at 1. cbn [snd fst]. destruct v; cbn [is_null negb map]; rewrite IH; reflexivity.
Qed.

Lemma ntok_es_perm a b : Permutation a b -> ntok_es a = ntok_es b.
Proof. induction 1; cbn [ntok_es fold_right] in *; try fold (ntok_es l) in *; try fold (ntok_es l') in *; lia. Qed.
Lemma ntok_es_filter l : ntok_es (filter nonnull l) = ntok_entries l.
Proof.
  induction l as [|[k v] r IH]; [reflexivity|]. cbn [filter ntok_entries fold_right snd]. fold (ntok_entries r).
  unfold nonnull at 1. cbn [snd]. destruct (is_null v); cbn [negb]; [exact IH|].
  cbn [ntok_es fold_right snd]. fold (ntok_es (filter nonnull r)). rewrite IH. reflexivity.
Qed.

Lemma cspec_dict l : Forall (fun kv => cspec (snd kv)) l -> cspec (ODict l).
Proof.
  intros HP L stack args ws tail f HL Hw Hnr Hws Hf Hroom.
  destruct (limits_ok_facts L HL) as [Hn5 _].
  cbn [wf_obj] in Hw. apply andb_true_iff in Hw as [Hw Hall]. apply andb_true_iff in Hw as [Hw Hcnt].
  apply andb_true_iff in Hw as [Hd Hnd]. apply N.ltb_lt in Hd. apply N.leb_le in Hcnt.
  cbn [no_ref] in Hnr.
  set (es := sort_entries (filter nonnull l)).
  assert (Hperm : Permutation es (filter nonnull l)) by apply sort_perm.
  assert (Hin : forall kv, In kv es -> In kv l).
  { intros kv H. apply (Permutation_in _ Hperm) in H. apply filter_In in H. tauto. }
  assert (Htext : concat (map snd (sort_entries (fmt_frags false l))) = entries_text false es).
  { rewrite fmt_frags_map. rewrite (sort_map (fun kv => fmt_entry false (fst kv) (snd kv))).
    rewrite map_map. reflexivity. }
  assert (Hnorm : sort_entries (cnorm_entries l) = map ckv es).
  { rewrite cnorm_entries_map. unfold ckv. rewrite (sort_map (fun kv => cnorm (snd kv))). reflexivity. }
  assert (Hlen : length es = length (norm_entries l)).
  { rewrite (Permutation_length Hperm). rewrite norm_entries_map, map_length. reflexivity. }
  assert (Hndes : NoDup (map fst es)).
  { apply (Permutation_NoDup (l := map fst (filter nonnull l))).
    - apply Permutation_map. symmetry. exact Hperm.
    - apply NoDup_filter_fst. apply nodup_keys_NoDup. exact Hnd. }
  unfold body. rewrite fmt_obj_dict. cbn [fst app]. rewrite Htext. rewrite cnorm_dict, Hnorm.
  rewrite <- !app_assoc.
  change (ntok (ODict l) + f)%nat with (S (S (ntok_entries l + f))).
  (* "<<" *)
  rewrite cloop_eq. rewrite scan_token_ltlt by exact Hws.
  change (bytes_eqb kw_ltlt kw_ltlt) with true. cbn iota.
  replace (max_depth L <=? N.of_nat (length stack)) with false by (symmetry; apply N.leb_gt; exact Hd).
  (* the entries *)
  replace (S (ntok_entries l + f)) with (ntok_es es + S f)%nat
    by (rewrite (ntok_es_perm _ _ Hperm), ntok_es_filter; lia).
  etransitivity.
  { apply (dict_entries L stack args tail es [] (S f)); auto.
    - apply Forall_forall. intros kv Hkv. rewrite Forall_forall in HP. exact (HP kv (Hin kv Hkv)).
    - apply Forall_forall. intros kv Hkv. rewrite forallb_forall in Hall, Hnr.
      pose proof (Hall kv (Hin kv Hkv)) as H1. apply andb_true_iff in H1 as [H1 H2].
      rewrite of_nat_S. repeat split; auto; apply (Hnr kv (Hin kv Hkv)).
    - cbn [length]. rewrite Hlen. lia. }
  (* ">>" *)
  rewrite cloop_eq. rewrite scan_token_gtgt0.
  change (bytes_eqb kw_gtgt kw_ltlt) with false. change (bytes_eqb kw_gtgt kw_gtgt) with true. cbn iota.
  cbn [f_dict f_data]. rewrite app_nil_r, rev_length, flat_es_len.
  replace (Nat.even (2 * length es)) with true by (symmetry; apply Nat.even_spec; exists (length es); lia).
  rewrite rev_involutive. rewrite deliver_obj by exact Hroom.
  rewrite (build_dict_flat es []) by exact Hndes. reflexivity.
Qed.

Lemma cspec_nildict : cspec ONilDict.
Proof.
  intros L stack args ws tail f HL Hw Hnr Hws Hf Hroom.
  cbn [wf_obj] in Hw. apply N.ltb_lt in Hw.
  change (body false ONilDict) with (kw_ltlt ++ kw_gtgt). rewrite <- !app_assoc.
  change (ntok ONilDict + f)%nat with (S (S f)).
  rewrite cloop_eq. rewrite scan_token_ltlt by exact Hws.
  change (bytes_eqb kw_ltlt kw_ltlt) with true. cbn iota.
  replace (max_depth L <=? N.of_nat (length stack)) with false by (symmetry; apply N.leb_gt; exact Hw).
  rewrite cloop_eq. rewrite scan_token_gtgt0.
  change (bytes_eqb kw_gtgt kw_ltlt) with false. change (bytes_eqb kw_gtgt kw_gtgt) with true. cbn iota.
  cbn [f_dict f_data length Nat.even rev build_dict]. rewrite deliver_obj by exact Hroom. reflexivity.
Qed.

Theorem cspec_all : forall o, cspec o.
Proof.
  apply obj_ind2; intros; try (apply cspec_atomic; reflexivity).
  - apply cspec_arr. assumption.
  - apply cspec_dict. assumption.
  - (* references are outside the domain *)
    intros L stack args ws tail f HL Hw Hnr. discriminate.
  - apply cspec_nildict.
Qed.

(* ================= operators ================= *)

(* every token has at least one byte: the fuel Scan gives itself suffices *)
Definition tlen_spec (o : obj) : Prop :=
  forall L d, wf_obj L d o = true -> (ntok o <= length (body false o))%nat.

Lemma plain_tlen : forall l sep L d,
  Forall tlen_spec l -> forallb (wf_obj L d) l = true ->
  (ntok_list l <= length (fmt_list_plain sep l))%nat.
Proof.
  induction l as [|o r IH]; intros sep L d HP Hw; [cbn; lia|].
  inversion HP as [|? ? HPo HPr]; subst. cbn [forallb] in Hw. apply andb_true_iff in Hw as [Hwo Hwr].
  rewrite fmt_list_plain_cons, !app_length. cbn [ntok_list fold_right]. fold (ntok_list r).
  specialize (IH (ends_reg o) L d HPr Hwr). specialize (HPo L d Hwo). unfold bytes, byte in *. lia.
Qed.

Lemma frags_tlen : forall l L d,
  Forall (fun kv => tlen_spec (snd kv)) l ->
  forallb (fun kv => wf_name L (fst kv) && wf_obj L d (snd kv)) l = true ->
  (ntok_entries l <= length (concat (map snd (fmt_frags false l))))%nat.
Proof.
  induction l as [|[k v] r IH]; intros L d HP Hw; [cbn; lia|].
  inversion HP as [|? ? HPv HPr]; subst. cbn [forallb fst snd] in Hw.
  apply andb_true_iff in Hw as [Hwv Hwr]. apply andb_true_iff in Hwv as [_ Hwv].
  specialize (IH L d HPr Hwr). cbn [snd] in HPv. specialize (HPv L d Hwv).
  assert (Hent : (1 + length (body false v) <= length (fmt_entry false k v))%nat).
  { unfold fmt_entry. rewrite fmt_obj_split. cbn [fst]. unfold fmt_name. rewrite !app_length. cbn [length].
    unfold bytes, byte in *. lia. }
  unfold ntok_entries in *. cbn [fold_right snd].
  destruct v; cbn [is_null fmt_frags]; try exact IH;
    cbn [map snd concat]; rewrite app_length; unfold bytes, byte in *; lia.
Qed.

Lemma concat_len_perm' (a b : list bytes) : Permutation a b -> length (concat a) = length (concat b).
Proof. induction 1; cbn [concat]; rewrite ?app_length; lia. Qed.

Theorem tlen_all : forall o, tlen_spec o.
Proof.
  apply obj_ind2; unfold tlen_spec.
  1-6, 9-10: intros; cbn [ntok];
    match goal with H : wf_obj ?L ?d ?o = true |- context [body false ?o] =>
      destruct (body_head false L d o H) as (b0 & r0 & E0 & _); rewrite E0; cbn [length]; lia end.
  - intros l IH L d Hw. cbn [wf_obj] in Hw. apply andb_true_iff in Hw as [_ Hall].
    change (ntok (OArr l)) with (S (S (ntok_list l))).
    unfold body. rewrite fmt_obj_arr. cbn [fst]. rewrite !app_length. cbn [length].
    pose proof (plain_tlen l false L (d + 1) IH Hall). unfold bytes, byte in *. lia.
  - intros l IH L d Hw. cbn [wf_obj] in Hw. apply andb_true_iff in Hw as [_ Hall].
    change (ntok (ODict l)) with (S (S (ntok_entries l))).
    unfold body. rewrite fmt_obj_dict. cbn [fst]. rewrite !app_length.
    rewrite (concat_len_perm' _ _ (Permutation_map snd (sort_perm (fmt_frags false l)))).
    pose proof (frags_tlen l L (d + 1) IH Hall). cbn [kw_ltlt kw_gtgt length]. unfold bytes, byte in *. lia.
  - intros L d Hw. cbn. lia.
Qed.

(* the operands of an operator, each followed by a space *)
Definition args_text (args : list obj) : bytes := concat (map (fun a => fmt_operand a ++ [cSP]) args).

Lemma args_loop L X : forall args ws acc f,
  limits_ok L = true -> is_lead ws ->
  forallb (fun a => wf_obj L 0 a && no_ref a) args = true ->
  N.of_nat (length acc + length args) < max_args ->
  exists ws', is_lead ws' /\
    cloop L (ntok_list args + f) [] acc (ws ++ args_text args ++ X)
    = cloop L f [] (rev (map cnorm args) ++ acc) (ws' ++ X).
Proof.
  induction args as [|a r IH]; intros ws acc f HL Hws Hw Hlen.
  - exists ws. split; [exact Hws | reflexivity].
  - cbn [forallb] in Hw. apply andb_true_iff in Hw as [Ha Hw]. apply andb_true_iff in Ha as [Hwa Hna].
    unfold args_text. cbn [map concat]. fold (args_text r). unfold fmt_operand at 1. fold (body false a).
    rewrite <- !app_assoc. cbn [ntok_list fold_right]. fold (ntok_list r). rewrite <- Nat.add_assoc.
    rewrite (cspec_all a L [] acc ws _ (ntok_list r + f)%nat HL);
      [ | exact Hwa | exact Hna | exact Hws | intros _; reflexivity | cbn [room length] in *; lia ].
    cbn [push].
    destruct (IH [cSP] (cnorm a :: acc) f HL) as (ws' & Hws' & E);
      [right; reflexivity | exact Hw | cbn [length] in *; lia |].
    exists ws'. split; [exact Hws'|]. rewrite E. cbn [map rev]. rewrite <- app_assoc. reflexivity.
Qed.

Lemma regular_head_facts b : b < 256 -> is_regular b = true ->
  stops_ws b = true /\ (b =? cSLASH) = false /\ (b =? cLP) = false /\ (b =? cLT) = false /\ (b =? cGT) = false
  /\ (b =? cPCT) = false /\ is_space b = false.
Proof.
  intros Hb H.
  pose proof (all_bytes_spec
    (fun b => implb (is_regular b) (stops_ws b && negb (b =? cSLASH) && negb (b =? cLP) && negb (b =? cLT)
                                     && negb (b =? cGT) && negb (b =? cPCT) && negb (is_space b)))
    ltac:(vm_compute; reflexivity) b Hb) as H0.
  cbv beta in H0. rewrite H in H0. cbn [implb] in H0.
  apply andb_true_iff in H0 as [H0 H6]. apply andb_true_iff in H0 as [H0 H5].
  apply andb_true_iff in H0 as [H0 H4]. apply andb_true_iff in H0 as [H0 H3].
  apply andb_true_iff in H0 as [H0 H2]. apply andb_true_iff in H0 as [H0 H1].
  repeat split; try assumption; apply negb_true_iff; assumption.
Qed.

Lemma wf_opname_facts L name : wf_opname L name = true ->
  exists b r, name = b :: r /\ b < 256 /\ is_regular b = true /\ all_reg name = true /\ blen name <= max_name L /\
    classify name = TOp name /\ bytes_eqb name n_BI = false.
Proof.
  unfold wf_opname. destruct name as [|b r]; [discriminate|]. intro H.
  apply andb_true_iff in H as [H H5]. apply andb_true_iff in H as [H H4].
  apply andb_true_iff in H as [H H3]. apply andb_true_iff in H as [H1 H2].
  apply N.leb_le in H3. apply negb_true_iff in H5.
  exists b, r. repeat split; auto.
  - apply wfbs_cons in H1 as [Hb _]. exact Hb.
  - cbn [forallb] in H2. apply andb_true_iff in H2 as [Hb _]. exact Hb.
  - destruct (classify (b :: r)) as [o|n]; [discriminate|]. apply bytes_eqb_eq in H4. subst. reflexivity.
Qed.

Lemma reg_not_delims name : all_reg name = true ->
  bytes_eqb name kw_ltlt = false /\ bytes_eqb name kw_gtgt = false /\ bytes_eqb name [cLB] = false /\
  bytes_eqb name [cRB] = false /\ bytes_eqb name n_raw = false /\ bytes_eqb name n_image = false.
Proof.
  intro H.
  assert (G : forall X, all_reg X = false -> bytes_eqb name X = false).
  { intros X HX. destruct (bytes_eqb name X) eqn:E; [|reflexivity]. apply bytes_eqb_eq in E. subst. congruence. }
  repeat split; apply G; reflexivity.
Qed.

Fixpoint all_space (s : bytes) : bool := match s with [] => true | b :: r => is_space b && all_space r end.
Lemma skip_sp_app sp b r : all_space sp = true -> is_space b = false -> skip_sp (sp ++ b :: r) = b :: r.
Proof.
  induction sp as [|c sp IH]; intros Hs Hb; cbn [app skip_sp].
  - rewrite Hb. reflexivity.
  - cbn [all_space] in Hs. apply andb_true_iff in Hs as [Hc Hs]. rewrite Hc. apply IH; assumption.
Qed.

(* an ordinary operator *)
Lemma cscan_one_plain L sp op rest :
  limits_ok L = true -> all_space sp = true -> wf_plain_op L op = true ->
  cscan_one L (sp ++ op_format op ++ rest) = COk (cnorm_op op) (cLF :: rest).
Proof.
  intros HL Hsp Hw. destruct op as [name args]. unfold wf_plain_op in Hw. cbn [op_name op_args] in Hw.
  apply andb_true_iff in Hw as [Hw Hargs]. apply andb_true_iff in Hw as [Hname Hcnt]. apply N.ltb_lt in Hcnt.
  destruct (wf_opname_facts L name Hname) as (b & r & En & Hb & Hbr & Hreg & Hlen & Hcl & HnBI).
  destruct (reg_not_delims name Hreg) as (D1 & D2 & D3 & D4 & D5 & D6).
  destruct (regular_head_facts b Hb Hbr) as (Hs & H1 & H2 & H3 & H4 & H5 & H6).
  unfold op_format. cbn [op_name op_args]. rewrite D5, D6. fold (args_text args). rewrite <- !app_assoc.
  (* the first byte of the text is not white space and not "%" *)
  assert (Hhead : exists c t, args_text args ++ name ++ [cLF] ++ rest = c :: t /\ is_space c = false /\ (c =? cPCT) = false).
  { destruct args as [|a ar].
    - cbn [args_text map concat app]. rewrite En. cbn [app]. eexists _, _. split; [reflexivity|]. auto.
    - cbn [forallb] in Hargs. apply andb_true_iff in Hargs as [Ha _]. apply andb_true_iff in Ha as [Hwa _].
      unfold args_text. cbn [map concat]. unfold fmt_operand at 1. fold (body false a).
      destruct (body_head false L 0 a Hwa) as (c & t & E & Hg & _). rewrite E. cbn [app].
      eexists _, _. split; [reflexivity|].
      apply good_head_facts in Hg as (Hst & _). unfold stops_ws in Hst. apply andb_true_iff in Hst as [Hp Hsp'].
      apply negb_true_iff in Hp, Hsp'. auto. }
  destruct Hhead as (c & t & Et & Hc1 & Hc2).
  unfold cscan_one. unfold bytes, byte in *. rewrite Et. rewrite skip_sp_app by assumption. rewrite Hc2. rewrite <- Et.
  (* fuel *)
  assert (Hargs_len : (ntok_list args <= length (args_text args))%nat).
  { clear - Hargs. induction args as [|a ar IH]; [cbn; lia|].
    cbn [forallb] in Hargs. apply andb_true_iff in Hargs as [Ha Har]. apply andb_true_iff in Ha as [Hwa _].
    unfold args_text. cbn [map concat ntok_list fold_right]. fold (args_text ar). fold (ntok_list ar).
    rewrite !app_length. pose proof (tlen_all a L 0 Hwa). specialize (IH Har). unfold fmt_operand.
    fold (body false a). unfold bytes, byte in *. lia. }
  match goal with |- cloop L ?fu _ _ _ = _ =>
    assert (Hfuel : (ntok_list args + 1 <= fu)%nat)
      by (rewrite !app_length; unfold bytes, byte in *; lia);
    destruct (Nat.le_exists_sub _ _ Hfuel) as (f0 & Ef & _); rewrite Ef
  end.
  replace (f0 + (ntok_list args + 1))%nat with (ntok_list args + S f0)%nat by lia.
  destruct (args_loop L (name ++ [cLF] ++ rest) args [] [] (S f0) HL) as (ws' & Hws' & E);
    [left; reflexivity | exact Hargs | cbn [length]; lia |].
  etransitivity; [exact E|]. rewrite app_nil_r.
  (* the operator token *)
  rewrite cloop_eq.
  assert (Htok : scan_token L (ws' ++ name ++ cLF :: rest) = COk (TOp name) (cLF :: rest)).
  { rewrite <- Hcl. apply (scan_token_regular L ws' name (cLF :: rest) b r); auto. }
  match goal with |- context [scan_token L ?x] => change (scan_token L x) with (scan_token L (ws' ++ name ++ cLF :: rest)) end.
  rewrite Htok. rewrite D1, D2, D3, D4. unfold deliver.
  replace (max_args <=? N.of_nat (length (rev (map cnorm args)))) with false
    by (symmetry; apply N.leb_gt; rewrite rev_length, map_length; exact Hcnt).
  rewrite HnBI. rewrite rev_involutive. reflexivity.
Qed.

(* a comment line *)
Lemma span_line_app s rest : forallb (fun c => negb ((c =? cLF) || (c =? cCR))) s = true ->
  span_line (s ++ cLF :: rest) = (s, cLF :: rest).
Proof.
  induction s as [|b s IH]; intro H; [reflexivity|].
  cbn [forallb] in H. apply andb_true_iff in H as [Hb H]. apply negb_true_iff in Hb.
  cbn [app span_line]. rewrite Hb. rewrite IH by exact H. reflexivity.
Qed.

Lemma cscan_one_raw L sp s rest :
  all_space sp = true -> wf_raw L s = true ->
  cscan_one L (sp ++ op_format (mkOp n_raw [OStr s]) ++ rest) = COk (mkOp n_raw [OStr s]) (cLF :: rest).
Proof.
  intros Hsp Hw. unfold wf_raw in Hw. destruct s as [|b s']; [discriminate|].
  apply andb_true_iff in Hw as [Hw Hlen]. apply andb_true_iff in Hw as [Hb Hline].
  apply N.eqb_eq in Hb. subst b. apply N.leb_le in Hlen.
  change (op_format (mkOp n_raw [OStr (cPCT :: s')])) with ((cPCT :: s') ++ [cLF]).
  rewrite <- !app_assoc. cbn [app]. unfold cscan_one. rewrite skip_sp_app by (auto; reflexivity).
  change (cPCT =? cPCT) with true. cbn iota.
  change (cPCT :: s' ++ cLF :: rest) with ((cPCT :: s') ++ cLF :: rest).
  rewrite span_line_app by exact Hline.
  replace (max_name L <? blen (cPCT :: s')) with false by (symmetry; apply N.ltb_ge; exact Hlen).
  reflexivity.
Qed.

(* any operator of the domain *)
Lemma cscan_one_op L sp op rest :
  limits_ok L = true -> all_space sp = true -> wf_cop L op = true ->
  cscan_one L (sp ++ op_format op ++ rest) = COk (cnorm_op op) (cLF :: rest).
Proof.
  intros HL Hsp Hw. unfold wf_cop in Hw. destruct (bytes_eqb (op_name op) n_raw) eqn:E.
  - destruct op as [name args]. cbn [op_name op_args] in *. apply bytes_eqb_eq in E. subst name.
    destruct args as [|a [|a2 ar]]; [discriminate | | destruct a; discriminate].
    destruct a; try discriminate. apply cscan_one_raw; assumption.
  - apply cscan_one_plain; assumption.
Qed.

(* ---- pumpScanner over the whole stream ---- *)
Lemma cscan_one_skip L sp s : all_space sp = true -> cscan_one L (sp ++ s) = cscan_one L s.
Proof.
  intro H. unfold cscan_one. induction sp as [|c sp IH]; [reflexivity|].
  cbn [all_space] in H. apply andb_true_iff in H as [Hc H]. cbn [app skip_sp]. rewrite Hc. exact (IH H).
Qed.

Lemma cscan_fuel_skip L f sp s : all_space sp = true -> cscan_fuel L f (sp ++ s) = cscan_fuel L f s.
Proof. intro H. destruct f as [|f]; [reflexivity|]. cbn [cscan_fuel]. rewrite cscan_one_skip by exact H. reflexivity. Qed.

Lemma pump L : forall ops sp tail f r,
  limits_ok L = true -> all_space sp = true -> forallb (wf_cop L) ops = true ->
  cscan_fuel L f tail = Some r ->
  cscan_fuel L (length ops + f) (sp ++ cformat ops ++ tail) = Some (map cnorm_op ops ++ r).
Proof.
  induction ops as [|op ops IH]; intros sp tail f r HL Hsp Hw Ht.
  - cbn [cformat map concat app length]. rewrite cscan_fuel_skip by exact Hsp. exact Ht.
  - cbn [forallb] in Hw. apply andb_true_iff in Hw as [Hop Hw].
    unfold cformat. cbn [map concat length]. fold (cformat ops). rewrite <- !app_assoc.
    cbn [Nat.add cscan_fuel]. rewrite cscan_one_op by assumption.
    change (cLF :: cformat ops ++ tail) with ([cLF] ++ cformat ops ++ tail).
    pose proof (IH [cLF] tail f r HL eq_refl Hw Ht) as Hrec.
    unfold bytes, byte in *. rewrite Hrec. reflexivity.
Qed.

Lemma cformat_len L ops : forallb (wf_cop L) ops = true -> (length ops <= length (cformat ops))%nat.
Proof.
  induction ops as [|op ops IH]; intro H; [cbn; lia|].
  cbn [forallb] in H. apply andb_true_iff in H as [Hop H].
  unfold cformat. cbn [map concat length]. fold (cformat ops). rewrite app_length. specialize (IH H).
  assert (1 <= length (op_format op))%nat.
  { unfold wf_cop in Hop. unfold op_format. destruct (bytes_eqb (op_name op) n_raw).
    - destruct (op_args op) as [|a [|a2 ar]]; [discriminate | | destruct a; discriminate].
      destruct a; try discriminate. rewrite app_length. cbn [length]. lia.
    - unfold wf_plain_op in Hop. apply andb_true_iff in Hop as [Hop _]. apply andb_true_iff in Hop as [Hn _].
      destruct (wf_opname_facts L _ Hn) as (b & r & En & _ & _ & Hreg & _).
      destruct (reg_not_delims _ Hreg) as (_ & _ & _ & _ & _ & D6). rewrite D6.
      rewrite !app_length. cbn [length]. lia. }
  unfold bytes, byte in *. lia.
Qed.

Theorem cscan_format_lemma L ops :
  limits_ok L = true -> forallb (wf_cop L) ops = true ->
  cscan L (cformat ops) = Some (map cnorm_op ops).
Proof.
  intros HL Hw. unfold cscan. pose proof (cformat_len L ops Hw) as Hlen.
  destruct (Nat.le_exists_sub (length ops) (length (cformat ops)) Hlen) as (f0 & Ef & _).
  replace (S (length (cformat ops))) with (length ops + S f0)%nat by lia.
  pose proof (pump L ops [] [] (S f0) [] HL eq_refl Hw eq_refl) as H.
  cbn [app] in H. rewrite app_nil_r in H. rewrite app_nil_r in H. exact H.
Qed.

(* operators split over two content streams, which SegmentsReader joins with a newline *)
Theorem split_lemma L ops1 ops2 :
  limits_ok L = true -> forallb (wf_cop L) ops1 = true -> forallb (wf_cop L) ops2 = true ->
  cscan L (cformat ops1 ++ [cLF] ++ cformat ops2) = Some (map cnorm_op (ops1 ++ ops2)).
Proof.
  intros HL H1 H2. unfold cscan.
  pose proof (cformat_len L ops1 H1) as Hl1. pose proof (cformat_len L ops2 H2) as Hl2.
  set (n := length (cformat ops1 ++ [cLF] ++ cformat ops2)).
  assert (Hn : (length ops1 + (length ops2 + 2) <= S n)%nat)
    by (subst n; rewrite !app_length; cbn [length]; unfold bytes, byte in *; lia).
  destruct (Nat.le_exists_sub _ _ Hn) as (f0 & Ef & _). rewrite Ef.
  replace (f0 + (length ops1 + (length ops2 + 2)))%nat with (length ops1 + (length ops2 + S (S f0)))%nat by lia.
  assert (Hsecond : cscan_fuel L (length ops2 + S (S f0)) ([cLF] ++ cformat ops2) = Some (map cnorm_op ops2)).
  { pose proof (pump L ops2 [cLF] [] (S (S f0)) [] HL eq_refl H2 eq_refl) as H.
    rewrite !app_nil_r in H. exact H. }
  pose proof (pump L ops1 [] ([cLF] ++ cformat ops2) _ _ HL eq_refl H1 Hsecond) as H.
  cbn [app] in H |- *. rewrite map_app. exact H.
Qed.
