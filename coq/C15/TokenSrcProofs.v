(* The two-byte look-ahead of ScanToken is transparent to the buffering, and it is the dispatch
   of the list model Content.scan_token. *)
From Coq Require Import List NArith ZArith Bool Lia.
From GoPdf.Base Require Import Bytes Res.
From GoPdf.C01 Require Import Lex Obj BufSrc BufSrcProofs.
From GoPdf.C15 Require Import Content TokenSrc.
Import ListNotations.
Open Scope N_scope.

Lemma starts2 a b s : starts_with [a; b] s = starts_with [a; b] (firstn 2 s).
Proof. destruct s as [|x [|y r]]; reflexivity. Qed.

Lemma scan_token_head L s : scan_token L s = scan_token_via_head L s.
Proof.
  unfold scan_token, scan_token_via_head. destruct (skip_ws s) as [s1|e]; [|reflexivity].
  destruct s1 as [|b r]; [reflexivity|].
  unfold token_head, token_head_p. cbn [run_list].
  set (bb := firstn 2 (b :: r)).
  assert (Hbb : exists t, bb = b :: t) by (eexists; reflexivity).
  destruct Hbb as (t & Hbb).
  assert (Hlt : starts_with kw_ltlt (b :: r) = starts_with kw_ltlt bb) by apply starts2.
  assert (Hgt : starts_with kw_gtgt (b :: r) = starts_with kw_gtgt bb) by apply starts2.
  unfold head_adv, head_of. rewrite Hbb. cbv iota. rewrite <- Hbb. rewrite <- Hlt, <- Hgt.
  destruct (b =? cSLASH); [reflexivity|].
  destruct (b =? cLP); [reflexivity|].
  destruct (starts_with kw_ltlt (b :: r)) eqn:E1.
  { destruct r as [|c r']; [cbn in E1; rewrite andb_false_r in E1; discriminate|]. reflexivity. }
  destruct (b =? cLT); [reflexivity|].
  destruct (starts_with kw_gtgt (b :: r)) eqn:E2.
  { destruct r as [|c r']; [cbn in E2; rewrite andb_false_r in E2; discriminate|]. reflexivity. }
  reflexivity.
Qed.

Lemma wf_token_head BUF : (2 <= BUF)%nat -> wf_prog BUF false token_head_p.
Proof. intros H. unfold token_head_p. cbn [wf_prog]. split; [exact H|]. intros; exact I. Qed.

(* for every buffer of two bytes or more (stream.go: 512), every state of the buffer, every
   chunking of the reader and either way of reporting EOF *)
Theorem lookahead_transparent_lemma : forall BUF st,
  (2 <= BUF)%nat -> binv BUF st ->
  let (h, st') := run_buf BUF false token_head_p st in
  token_head (view st) = (h, view st') /\ binv BUF st'.
Proof.
  intros BUF st HB Hi. apply run_buf_list; [lia | apply wf_token_head; exact HB | exact Hi].
Qed.
