(* C15 model: the Builder calls that take caller-owned Go values (maps, slices) as arguments.
   graphics/content/builder: DrawInlineImageRaw(dict, data), TextShowRaw / TextShowNextLineRaw(s),
   TextShowKernedRaw(args...), MarkedContentPoint / MarkedContentStart(mc), and the calls without
   arguments that frame them.  A caller's program is a list of events: a call names the heap cells
   that hold its arguments, a mutation overwrites a cell (the caller re-using its map or slice).
   The Builder COPIES what it keeps: the operator a call appends is computed from the contents of
   the cells at the time of the call, and the cells are left as they are.  Definitions only. *)
From Coq Require Import List NArith ZArith Bool.
From GoPdf.Base Require Import Bytes Res.
From GoPdf.C01 Require Import Lex Obj.
From GoPdf.C15 Require Import Content ContentSpec.
Import ListNotations.
Open Scope N_scope.

(* a call with the VALUES of its arguments *)
Inductive bcall :=
| BImage (d : list (bytes * obj)) (data : bytes)
| BShow (s : bytes)                (* Tj *)
| BShowNext (s : bytes)            (* '  *)
| BShowKerned (args : list obj)    (* TJ *)
| BPoint (tag : bytes)             (* MP *)
| BMarkStart (tag : bytes)         (* BMC *)
| BPlain (name : bytes).           (* q Q BT ET EMC ... : no arguments *)

(* DrawInlineImageRaw: for PDF 2.0 a dictionary without /L and /Length gets /L = len(data)
   (in a private copy) unless the data is empty *)
Definition image_dict (v2 : bool) (d : list (bytes * obj)) (data : bytes) : list (bytes * obj) :=
  if v2 && negb (dict_has d k_L) && negb (dict_has d k_Length) && negb (match data with [] => true | _ => false end)
  then d ++ [(k_L, OInt (Z.of_nat (length data)))]
  else d.

Definition emit_op (v2 : bool) (c : bcall) : cop :=
  match c with
  | BImage d data => image_op (image_dict v2 d data) data
  | BShow s => mkOp [84; 106] [OStr s]
  | BShowNext s => mkOp [39] [OStr s]
  | BShowKerned args => mkOp [84; 74] [OArr args]
  | BPoint tag => mkOp [77; 80] [OName tag]
  | BMarkStart tag => mkOp [66; 77; 67] [OName tag]
  | BPlain name => mkOp name []
  end.

(* ---- the caller's heap ---- *)
Inductive cell :=
| CDict (d : list (bytes * obj))
| CBytes (s : bytes)
| CArr (l : list obj).
Definition heap := list cell.                      (* cell i at position i *)
Definition hget (h : heap) (i : nat) : cell := nth i h (CBytes []).
Fixpoint hset (h : heap) (i : nat) (c : cell) : heap :=
  match h, i with
  | [], _ => []
  | _ :: r, O => c :: r
  | x :: r, S i' => x :: hset r i' c
  end.
Definition as_dict (c : cell) := match c with CDict d => d | _ => [] end.
Definition as_bytes (c : cell) := match c with CBytes s => s | _ => [] end.
Definition as_arr (c : cell) := match c with CArr l => l | _ => [] end.

(* a call naming the cells of its arguments *)
Inductive rcall :=
| RImage (d data : nat) | RShow (s : nat) | RShowNext (s : nat) | RShowKerned (a : nat)
| RPoint (tag : bytes) | RMarkStart (tag : bytes) | RPlain (name : bytes).
Inductive event := ECall (c : rcall) | EMut (i : nat) (c : cell).

(* the values a call sees *)
Definition deref (h : heap) (c : rcall) : bcall :=
  match c with
  | RImage d data => BImage (as_dict (hget h d)) (as_bytes (hget h data))
  | RShow s => BShow (as_bytes (hget h s))
  | RShowNext s => BShowNext (as_bytes (hget h s))
  | RShowKerned a => BShowKerned (as_arr (hget h a))
  | RPoint t => BPoint t
  | RMarkStart t => BMarkStart t
  | RPlain n => BPlain n
  end.

(* the Builder: the stream so far (newest last) and the caller's heap *)
Fixpoint run_builder (v2 : bool) (evs : list event) (h : heap) (stream : list cop) : list cop * heap :=
  match evs with
  | [] => (stream, h)
  | ECall c :: r => run_builder v2 r h (stream ++ [emit_op v2 (deref h c)])
  | EMut i c :: r => run_builder v2 r (hset h i c) stream
  end.

(* the per-call values of a program: what each call saw *)
Fixpoint call_values (evs : list event) (h : heap) : list bcall :=
  match evs with
  | [] => []
  | ECall c :: r => deref h c :: call_values r h
  | EMut i c :: r => call_values r (hset h i c)
  end.
(* the caller's own changes *)
Fixpoint caller_heap (evs : list event) (h : heap) : heap :=
  match evs with
  | [] => h
  | ECall _ :: r => caller_heap r h
  | EMut i c :: r => caller_heap r (hset h i c)
  end.

Definition build_ops (v2 : bool) (calls : list bcall) : list cop := map (emit_op v2) calls.
