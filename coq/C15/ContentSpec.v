(* C15: the domain of the theorems and the normal form of operands.  Definitions only. *)
From Coq Require Import List NArith ZArith Bool.
From GoPdf.Base Require Import Bytes Res.
From GoPdf.C01 Require Import Lex Obj Num Names Strings Format Wf.
From GoPdf.C15 Require Import Content.
Import ListNotations.
Open Scope N_scope.

(* operands contain no references (and no operators) *)
Fixpoint no_ref (o : obj) : bool :=
  match o with
  | ORef _ _ => false
  | OArr l => forallb no_ref l
  | ODict l => forallb (fun kv => no_ref (snd kv)) l
  | _ => true
  end.

(* what the content scanner returns for the formatted text of an operand: as C01's norm, and
   a dictionary entry whose value reads as null is dropped (a nil entry is absent) *)
Definition nn2 (kv : bytes * obj) : bool := negb (is_null (snd kv)).
Fixpoint cnorm (o : obj) : obj :=
  match o with
  | ONilArr => ONull
  | ONilDict => ODict []
  | OReal t => OReal (force_dot t)
  | OArr l => OArr (map cnorm l)
  | ODict l =>
    ODict (filter nn2 (sort_entries
      ((fix go (l : list (bytes * obj)) : list (bytes * obj) :=
          match l with
          | [] => []
          | (k, v) :: r => match v with ONull => go r | _ => (k, cnorm v) :: go r end
          end) l)))
  | _ => o
  end.
Fixpoint cnorm_entries (l : list (bytes * obj)) : list (bytes * obj) :=
  match l with
  | [] => []
  | (k, v) :: r => match v with ONull => cnorm_entries r | _ => (k, cnorm v) :: cnorm_entries r end
  end.

(* number of tokens of the formatted text of an operand: the fuel one Scan needs for it *)
Fixpoint ntok (o : obj) : nat :=
  match o with
  | OArr l => S (S (fold_right (fun x n => ntok x + n) 0 l))%nat
  | ODict l => S (S (fold_right (fun kv n => if is_null (snd kv) then n else S (ntok (snd kv) + n)) 0 l))%nat
  | ONilDict => 2%nat
  | _ => 1%nat
  end.
Definition ntok_list (l : list obj) : nat := fold_right (fun x n => ntok x + n)%nat 0%nat l.
Definition ntok_entries (l : list (bytes * obj)) : nat :=
  fold_right (fun kv n => if is_null (snd kv) then n else S (ntok (snd kv) + n))%nat 0%nat l.

(* an operator name that is read back as that operator *)
Definition wf_opname (L : limits) (name : bytes) : bool :=
  match name with
  | [] => false
  | b :: _ =>
    wfbs name && forallb is_regular name && (blen name <=? max_name L)
    && match classify name with TOp n => bytes_eqb n name | TObj _ => false end
    && negb (bytes_eqb name n_BI)
  end.

(* an ordinary operator (not %raw%, not %image%) within the limits *)
Definition wf_plain_op (L : limits) (op : cop) : bool :=
  wf_opname L (op_name op)
  && (N.of_nat (length (op_args op)) <? max_args)
  && forallb (fun a => wf_obj L 0 a && no_ref a) (op_args op).

(* a comment line *)
Definition wf_raw (L : limits) (s : bytes) : bool :=
  match s with
  | b :: _ => (b =? cPCT) && forallb (fun c => negb ((c =? cLF) || (c =? cCR))) s && (blen s <=? max_name L)
  | [] => false
  end.

Definition cnorm_op (op : cop) : cop := mkOp (op_name op) (map cnorm (op_args op)).

(* the operators of the proved domain: ordinary operators and comment lines *)
Definition wf_cop (L : limits) (op : cop) : bool :=
  if bytes_eqb (op_name op) n_raw then
    match op_args op with [OStr s] => wf_raw L s | _ => false end
  else wf_plain_op L op.

(* limits every theorem assumes of the scanner configuration (true of the standard one) *)
Definition limits_ok (L : limits) : bool := (5 <=? max_name L) && (0 <? max_depth L).

(* ---- inline images ---- *)
(* "EI" preceded by an end-of-line and followed by a non-regular byte (or the end) occurs in
   the data as the scanner will see it, i.e. followed by the writer's EOL "EI" EOL *)
Definition img_trailer : bytes := [cLF; 69; 73; cLF].
Fixpoint ei_ok (prev : byte) (d : bytes) : bool :=
  match d with
  | [] => true
  | b :: r => negb (((prev =? cCR) || (prev =? cLF)) && check_ei (d ++ img_trailer)) && ei_ok b r
  end.

(* values of an inline image dictionary covered by the proof: atoms *)
Definition is_atom (o : obj) : bool :=
  match o with
  | OBool _ | OInt _ | OReal _ | OName _ | OStr _ => true
  | _ => false
  end.
Definition wf_img_key (L : limits) (k : bytes) : bool :=
  wfbs k && forallb (fun c => is_regular c && negb (c =? cHASH)) k && (blen k <=? max_name L).
Definition wf_img_entry (L : limits) (kv : bytes * obj) : bool :=
  wf_img_key L (fst kv) && is_atom (snd kv) && wf_obj L 0 (snd kv).

(* the dictionary as the scanner returns it: entries in the writer's (byte) order, values in
   normal form *)
Definition scanned_dict (d : list (bytes * obj)) : list (bytes * obj) :=
  map (fun kv => (fst kv, cnorm (snd kv))) (sort_lex d).

(* the guard of inline_rt: /W and /H acceptable, no ASCII filter, and the data can be framed:
   /L present and equal to the data length, or no EOL "EI" delimiter in the data *)
Definition wf_image (L : limits) (d : list (bytes * obj)) (data : bytes) : bool :=
  nodup_keys d && forallb (wf_img_entry L) d && (N.of_nat (length d) <=? max_dict L)
  && (let sd := scanned_dict d in
      let w := img_int sd k_W k_Width in let h := img_int sd k_H k_Height in
      (0 <? w)%Z && (0 <? h)%Z && (w <=? max_img_dim)%Z && (h <=? max_img_dim)%Z && (w * h <=? max_img_pixels)%Z
      && negb (img_filter_ascii sd)
      && (let len := img_int sd k_L k_Length in
          if (0 <? len)%Z then (len =? Z.of_nat (length data))%Z && (len <=? Z.of_N max_img_bytes)%Z
          else ei_ok 0 data && (blen data + 1 <? max_img_bytes))).

Definition image_op (d : list (bytes * obj)) (data : bytes) : cop := mkOp n_image [ODict d; OStr data].

(* an operator of the proved domain together with what the scanner returns for it: ordinary
   operators and comment lines (normal form of the operands), inline images inside the guard *)
Definition op_reads (L : limits) (op expected : cop) : Prop :=
  (wf_cop L op = true /\ expected = cnorm_op op) \/
  (exists d data, op = image_op d data /\ wf_image L d data = true /\ expected = image_op (scanned_dict d) data).

(* the guard of the full inline-image statement: values may be arrays and dictionaries, nested
   as deep as readValueDepth allows *)
Fixpoint no_empty_arr (o : obj) : bool :=
  match o with
  | OArr l => negb (match l with [] => true | _ => false end) && forallb no_empty_arr l
  | ODict l => forallb (fun kv => no_empty_arr (snd kv)) l
  | _ => true
  end.
Fixpoint vdepth (o : obj) : nat :=
  match o with
  | OArr l => S (fold_right (fun x n => Nat.max (vdepth x) n) 0%nat l)
  | ODict l => S (fold_right (fun kv n => Nat.max (vdepth (snd kv)) n) 0%nat l)
  | ONilDict => 1%nat
  | _ => 0%nat
  end.
Definition wf_img_entry_full (L : limits) (kv : bytes * obj) : bool :=
  wf_img_key L (fst kv) && negb (is_null (cnorm (snd kv))) && wf_obj L 0 (snd kv) && no_ref (snd kv)
  && Nat.leb (vdepth (snd kv)) 10.
(* data behind an ASCII filter: the scanner skips all white space after ID, so the data must
   not itself start with white space (ISO 32000 8.9.7: white space is not part of ASCII-encoded
   data); empty data is fine *)
Definition ascii_data_ok (data : bytes) : bool :=
  match data with [] => true | b :: _ => negb (is_space b) end.
Definition wf_image_full (L : limits) (d : list (bytes * obj)) (data : bytes) : bool :=
  nodup_keys d && forallb (wf_img_entry_full L) d && (N.of_nat (length d) <=? max_dict L)
  && (let sd := scanned_dict d in
      let w := img_int sd k_W k_Width in let h := img_int sd k_H k_Height in
      (0 <? w)%Z && (0 <? h)%Z && (w <=? max_img_dim)%Z && (h <=? max_img_dim)%Z && (w * h <=? max_img_pixels)%Z
      && (negb (img_filter_ascii sd) || ascii_data_ok data)
      && (let len := img_int sd k_L k_Length in
          if (0 <? len)%Z then (len =? Z.of_nat (length data))%Z && (len <=? Z.of_N max_img_bytes)%Z
          else ei_ok 0 data && (blen data + 1 <? max_img_bytes))).

(* the same with the full inline-image guard *)
Definition op_reads_full (L : limits) (op expected : cop) : Prop :=
  (wf_cop L op = true /\ expected = cnorm_op op) \/
  (exists d data, op = image_op d data /\ wf_image_full L d data = true /\ expected = image_op (scanned_dict d) data).
