(* C15: property theorems only; each closed by [exact] and followed by Print Assumptions. *)
From Coq Require Import List NArith ZArith Bool.
From GoPdf.Base Require Import Bytes Res.
From GoPdf.Gen Require Gen_Consts Gen_C15.
From GoPdf.C01 Require Import Lex Obj Num Names Strings Format Wf.
From GoPdf.C01 Require Import BufSrc.
From GoPdf.C15 Require Import Content State ContentSpec ContentProofs ImageProofs ValueProofs CanonLink StateProofs
  TokenSrc TokenSrcProofs BuilderModel BuilderModelProofs.
Import ListNotations.
Open Scope N_scope.

(* The two scanners classify bytes alike: graphics/content/stream.go's class table equals
   scanner.go's (both translated from the source on every run). *)
Theorem class_tables_agree : Gen_C15.content_class = Gen_Consts.class.
Proof. exact class_tables_agree_lemma. Qed.
Print Assumptions class_tables_agree.

(* Operators written are the operators read.  For every list of operators of the domain
   (op_reads_full: ordinary operators with operands nested arbitrarily within the scanner's
   limits, comment lines, inline images inside the guard of inline_rt) the content scanner returns
   exactly the operator names and the normal forms of the operands, in order. *)
Theorem cscan_format : forall L ops exps,
  limits_ok L = true -> Forall2 (op_reads_full L) ops exps ->
  cscan L (cformat ops) = Some exps.
Proof. exact cscan_format_full. Qed.
Print Assumptions cscan_format.

(* the same for ordinary operators and comment lines, with the result spelled out *)
Theorem cscan_format_plain : forall L ops,
  limits_ok L = true -> forallb (wf_cop L) ops = true ->
  cscan L (cformat ops) = Some (map cnorm_op ops).
Proof. exact cscan_format_lemma. Qed.
Print Assumptions cscan_format_plain.

Example cscan_format_hyp :
  limits_ok cstd_limits = true /\
  forallb (wf_cop cstd_limits)
    [ mkOp [99; 109] [OInt 1; OInt 0; OReal [48; 46; 53]; OInt 1; ONull; OBool true];
      mkOp [84; 74] [OArr [OStr [40; 41; 92]; OInt (-200); OArr [OName [65; 35]; ONilArr]; ODict [([75], OInt 1); ([76], ONull)]]];
      mkOp [120; 121; 122] [ONilDict];
      mkOp n_raw [OStr [37; 104; 105]] ] = true.
Proof. split; vm_compute; reflexivity. Qed.

(* Operators split over two content streams (joined by a newline, as page.SegmentsReader
   does) are read as the concatenation. *)
Theorem split : forall L ops1 exps1 ops2 exps2,
  limits_ok L = true -> Forall2 (op_reads_full L) ops1 exps1 -> Forall2 (op_reads_full L) ops2 exps2 ->
  cscan L (cformat ops1 ++ [cLF] ++ cformat ops2) = Some (exps1 ++ exps2).
Proof. exact split_full. Qed.
Print Assumptions split.

(* Inline images: BI dict ID data EI is read back as the %image% operator with the same
   dictionary (normal form, writer's key order) and the same data, under the guard wf_image_full:
   /W, /H acceptable; keys regular bytes without '#'; values any operands of the domain nested at
   most 10 deep; behind an ASCII filter (ASCIIHexDecode/ASCII85Decode, last of the chain) the data
   does not start with white space (ISO 32000 8.9.7: white space after ID is not data for these
   filters) - empty data is covered; and the data can be framed - /L is present and equals the
   data length, or the data contains no EOL "EI" delimiter. *)
Theorem inline_rt : forall L d data,
  limits_ok L = true -> wf_image_full L d data = true ->
  cscan L (op_format (image_op d data)) = Some [image_op (scanned_dict d) data].
Proof. exact inline_rt_full_lemma. Qed.
Print Assumptions inline_rt.

Example inline_rt_full_instance :
  wf_image_full cstd_limits [(k_W, OInt 2); (k_H, OInt 2); ([67; 83], OArr [OName [73]; OName [71]; OInt 1; OStr [0; 255]])] [120] = true /\
  cscan cstd_limits (op_format (image_op [(k_W, OInt 2); (k_H, OInt 2); ([67; 83], OArr [OName [73]; OName [71]; OInt 1; OStr [0; 255]])] [120]))
  = Some [image_op (scanned_dict [(k_W, OInt 2); (k_H, OInt 2); ([67; 83], OArr [OName [73]; OName [71]; OInt 1; OStr [0; 255]])]) [120]].
Proof. split; vm_compute; reflexivity. Qed.

(* the guard is inhabited: with /L the data may contain EOL EI; without /L it must not *)
Example inline_rt_hyp_L :
  wf_image_full cstd_limits [(k_W, OInt 2); (k_H, OInt 2); (k_L, OInt 6); ([66; 80; 67], OInt 8)] [97; cLF; 69; 73; cSP; 98] = true.
Proof. vm_compute. reflexivity. Qed.
Example inline_rt_hyp_noL :
  wf_image_full cstd_limits [(k_Width, OInt 2); (k_H, OReal [50; 46; 53]); ([67; 83], OName [71])] [69; 73; cSP; 0; 255; cLF; 69] = true.
Proof. vm_compute. reflexivity. Qed.

(* F9: the unguarded statement is false: no /L, data containing EOL "EI" space *)
Theorem inline_rt_refuted : exists d data,
  dict_get2 d k_L k_Length = None /\
  cscan cstd_limits (op_format (image_op d data)) <> Some [image_op (scanned_dict d) data].
Proof. exact inline_rt_refuted_stmt. Qed.
Print Assumptions inline_rt_refuted.

(* the two former inline-image defects (fixed), as instances: an empty array inside the
   dictionary is read back as an empty array, and ASCII85 data that starts with "%" or is empty
   is read back *)
(* ASCII-filter images inside the guard: data starting with "%", and no data at all *)
Example inline_rt_hyp_ascii :
  wf_image_full cstd_limits [(k_W, OInt 1); (k_H, OInt 1); (k_F, OName [65; 56; 53])] [37; 97; 126; 62] = true /\
  wf_image_full cstd_limits [(k_W, OInt 1); (k_H, OInt 1); (k_F, OArr [OName [65; 72; 120]])] [] = true /\
  wf_image_full cstd_limits [(k_W, OInt 1); (k_H, OInt 1); (k_F, OName [65; 56; 53])] [32; 97; 126; 62] = false.
Proof. vm_compute. repeat split; reflexivity. Qed.

Example inline_empty_array_instance :
  cscan cstd_limits (op_format (image_op [(k_W, OInt 1); (k_H, OInt 1); ([68], OArr [])] [120]))
  = Some [image_op [([68], OArr []); (k_H, OInt 1); (k_W, OInt 1)] [120]].
Proof. vm_compute. reflexivity. Qed.
Example inline_ascii_instance :
  cscan cstd_limits (op_format (image_op [(k_W, OInt 1); (k_H, OInt 1); (k_F, OName [65; 56; 53])] [37; 97; 126; 62]))
  = Some [image_op [(k_F, OName [65; 56; 53]); (k_H, OInt 1); (k_W, OInt 1)] [37; 97; 126; 62]] /\
  cscan cstd_limits (op_format (image_op [(k_W, OInt 1); (k_H, OInt 1); (k_F, OName [65; 56; 53])] []))
  = Some [image_op [(k_F, OName [65; 56; 53]); (k_H, OInt 1); (k_W, OInt 1)] []].
Proof. split; vm_compute; reflexivity. Qed.

(* The scanner's literal result is the canonical form of C01 (a nil entry is absent, a nil
   array is null, dictionaries are finite maps): operands are equal as the property reads it. *)
Theorem cnorm_canon : forall o L d, wf_obj L d o = true -> cnorm o = canon o.
Proof. exact cnorm_canon_lemma. Qed.
Print Assumptions cnorm_canon.

(* Balance.  Every operator sequence the nesting state accepts (from the initial page state,
   any PDF version class; other operators restricted as the operator table guarantees) is
   closed by ClosingOperators: all closers are accepted and CanClose holds afterwards. *)
Theorem balanced : forall p2 ops s,
  all_ok ops = true -> run_ops (init_state p2) ops = Some s ->
  exists s', run_ops s (closing_ops s) = Some s' /\ can_close s' = true.
Proof. exact balanced_lemma. Qed.
Print Assumptions balanced.

(* every operator of the table satisfies the side condition [all_ok] asks for *)
Theorem table_ok : forallb (fun e => other_ok (sop_of_name (fst e))) op_table = true.
Proof. exact table_other_ok. Qed.
Print Assumptions table_ok.

Example balanced_hyp :
  all_ok (map sop_of_name [[113]; [66; 84]; [66; 77; 67]; [109]]) = true /\
  run_ops (init_state true) (map sop_of_name [[113]; [66; 84]; [66; 77; 67]; [84; 100]]) <> None.
Proof. split; [reflexivity | vm_compute; discriminate]. Qed.

(* Buffering transparency of ScanToken's two-byte look-ahead ("<<" / "<", ">>" / ">"): over the
   content scanner's buffered source (C01/BufSrc.v with full = false: one Read per refill, s.err
   latched, PeekN looping over refill, compaction) the dispatch sees the same two bytes and leaves
   the same input as over the plain byte list - for every buffer of two bytes or more (stream.go
   allocates 512), every state of the buffer, every chunking of the reader (read sizes >= 1) and
   either way of reporting io.EOF.  The general statement for arbitrary readers is
   C01.buffering_transparent_any. *)
Theorem lookahead_transparent : forall BUF st,
  (2 <= BUF)%nat -> binv BUF st ->
  let (h, st') := run_buf BUF false token_head_p st in
  token_head (view st) = (h, view st') /\ binv BUF st'.
Proof. exact lookahead_transparent_lemma. Qed.
Print Assumptions lookahead_transparent.

(* ... and that dispatch is the one of the list model's ScanToken *)
Theorem scan_token_dispatch : forall L s, scan_token L s = scan_token_via_head L s.
Proof. exact scan_token_head. Qed.
Print Assumptions scan_token_dispatch.

(* "<" and "<" arrive in different reads, the second together with io.EOF, buffer of 2 bytes *)
Example lookahead_split_ex :
  fst (run_buf 2 false token_head_p (bstart 2 [[60]; [60]] true)) = HDictOpen /\
  fst (run_buf 2 false token_head_p (bstart 2 [[60]] false)) = HHex /\
  fst (run_buf content_buf false token_head_p (bstart content_buf [[62]; [62; 32]] false)) = HDictClose.
Proof. vm_compute. repeat split; reflexivity. Qed.

(* Builder calls are functions of argument VALUES.  A caller's program interleaves Builder calls,
   whose map and slice arguments live in heap cells that several calls may share, with mutations
   of those cells.  The stream the Builder holds is [build_ops] of the values each call saw at
   the time of the call - so two programs whose calls see the same values build the same stream,
   whatever cells they share and whatever happens to the cells between the calls and afterwards -
   and the Builder leaves the caller's cells as the caller's own mutations left them.  (The
   harness runs aliasing schedules on the real Builder against [build_ops].) *)
Theorem builder_values : forall v2 evs1 h1 evs2 h2,
  call_values evs1 h1 = call_values evs2 h2 ->
  fst (run_builder v2 evs1 h1 []) = fst (run_builder v2 evs2 h2 []) /\
  fst (run_builder v2 evs1 h1 []) = build_ops v2 (call_values evs1 h1) /\
  snd (run_builder v2 evs1 h1 []) = caller_heap evs1 h1.
Proof. exact builder_values_lemma. Qed.
Print Assumptions builder_values.

(* the same dictionary cell used for two images with data of different lengths (PDF 2.0): each
   operator gets the /L of its own data, and the caller's dictionary still has no /L *)
Example builder_alias_ex :
  run_builder true [ECall (RImage 0 1); EMut 1 (CBytes [1; 2; 3]); ECall (RImage 0 1)]
              [CDict [(k_W, OInt 1); (k_H, OInt 1)]; CBytes [7]] []
  = ([image_op [(k_W, OInt 1); (k_H, OInt 1); (k_L, OInt 1)] [7];
      image_op [(k_W, OInt 1); (k_H, OInt 1); (k_L, OInt 3)] [1; 2; 3]],
     [CDict [(k_W, OInt 1); (k_H, OInt 1)]; CBytes [1; 2; 3]]).
Proof. vm_compute. reflexivity. Qed.
