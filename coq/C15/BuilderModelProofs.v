(* The stream a Builder holds depends only on the values each call was given. *)
From Coq Require Import List NArith ZArith Bool.
From GoPdf.Base Require Import Bytes Res.
From GoPdf.C01 Require Import Lex Obj.
From GoPdf.C15 Require Import Content ContentSpec BuilderModel.
Import ListNotations.

Lemma run_builder_values v2 : forall evs h stream,
  run_builder v2 evs h stream = (stream ++ build_ops v2 (call_values evs h), caller_heap evs h).
Proof.
  induction evs as [|[c|i c] r IH]; intros h stream; cbn [run_builder call_values caller_heap build_ops map].
  - rewrite app_nil_r. reflexivity.
  - rewrite IH. unfold build_ops. rewrite <- app_assoc. reflexivity.
  - apply IH.
Qed.

(* two programs whose calls see the same values build the same stream, whatever the sharing of
   cells and whatever the caller does to them in between and afterwards *)
Lemma builder_values_lemma v2 evs1 h1 evs2 h2 :
  call_values evs1 h1 = call_values evs2 h2 ->
  fst (run_builder v2 evs1 h1 []) = fst (run_builder v2 evs2 h2 []) /\
  fst (run_builder v2 evs1 h1 []) = build_ops v2 (call_values evs1 h1) /\
  snd (run_builder v2 evs1 h1 []) = caller_heap evs1 h1.
Proof.
  intros H. rewrite !run_builder_values. cbn [fst snd app]. rewrite H. auto.
Qed.
