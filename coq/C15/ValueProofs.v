(* readValueDepth / readDictBody (the recursive reader used inside inline images) read back
   nested operands: the full guard of inline_rt. *)
From Coq Require Import List NArith ZArith Bool Lia Permutation.
From GoPdf.Base Require Import Bytes Res.
From GoPdf.C01 Require Import Lex Obj Num Names Strings Format Scan Wf
  LexProofs NumProofs NamesProofs StringsProofs FormatProofs ScanProofs.
From GoPdf.C01 Require FuelProofs.
From GoPdf.C15 Require Import Content State ContentSpec ContentProofs ImageProofs.
Import ListNotations.
Open Scope N_scope.

Definition vspec (o : obj) : Prop :=
  forall L d depth f ws tail,
    limits_ok L = true -> wf_obj L d o = true -> no_ref o = true ->
    N.of_nat (vdepth o) + depth <= max_value_depth ->
    is_lead ws -> (ends_reg o = true -> follow_ok tail = true) -> (osize o <= f)%nat ->
    read_value L f depth (ws ++ body false o ++ tail) = COk (cnorm o) tail.

Lemma read_value_arr_eq L f depth acc s :
  read_value_arr L (S f) depth acc s =
  match skip_ws s with
  | Err _ => CStop
  | Ok s1 =>
    match s1 with
    | b :: r =>
      if b =? cRB then COk (OArr (rev acc)) r
      else if max_arr L <=? N.of_nat (length acc) then CParse s1
      else
        match read_value L f depth s1 with
        | COk v rest => read_value_arr L f depth (v :: acc) rest
        | CParse rest => CParse rest | CStop => CStop | CFuel => CFuel
        end
    | [] => CStop
    end
  end.
Proof. reflexivity. Qed.

Lemma vspec_atomic o : is_atomic o = true -> vspec o.
Proof.
  intros Ha L d depth f ws tail HL Hw Hnr Hd Hws Hf Hfuel.
  assert (Hs : osize o = 1%nat) by (destruct o; try discriminate; reflexivity).
  destruct f as [|f]; [lia|]. rewrite read_value_eq.
  rewrite (atom_token L d o ws tail HL Ha Hw Hws Hf). reflexivity.
Qed.

(* the elements of an array *)
Lemma varr_elems L d depth tail : forall l sep acc f,
  Forall vspec l -> limits_ok L = true ->
  forallb (wf_obj L d) l = true -> forallb no_ref l = true ->
  (forall x, In x l -> N.of_nat (vdepth x) + depth <= max_value_depth) ->
  arr_fits L (N.of_nat (length acc)) l = true -> (lsize l <= f)%nat ->
  read_value_arr L f depth acc (fmt_list_plain sep l ++ cRB :: tail)
  = COk (OArr (rev (rev (map cnorm l) ++ acc))) tail.
Proof.
  induction l as [|o r IH]; intros sep acc f HP HL Hw Hnr Hdep Hfit Hfuel.
  - destruct f as [|f]; [cbn in Hfuel; lia|]. cbn [fmt_list_plain app map rev].
    rewrite read_value_arr_eq. rewrite skip_ws_stop by reflexivity.
    change (cRB =? cRB) with true. cbn iota. reflexivity.
  - inversion HP as [|? ? HPo HPr]; subst.
    cbn [forallb] in Hw, Hnr. apply andb_true_iff in Hw as [Hwo Hwr].
    apply andb_true_iff in Hnr as [Hno Hnrr].
    apply arr_fits_cons in Hfit as [Hc Hfit]. pose proof (cost_pos o) as Hcp.
    rewrite lsize_cons in Hfuel. destruct f as [|f]; [lia|].
    rewrite fmt_list_plain_cons. rewrite <- !app_assoc.
    rewrite read_value_arr_eq.
    rewrite (skip_lead_body false L d o (lead sep o) _ Hwo (lead_is_lead sep o)).
    destruct (body_head false L d o Hwo) as (b & t & E & Hg & _).
    apply good_head_facts in Hg as (_ & H1 & _).
    destruct (plain_tail L d r (ends_reg o) tail Hwr) as (t1 & _ & _ & Hfo).
    assert (Hval : read_value L f depth (body false o ++ fmt_list_plain (ends_reg o) r ++ cRB :: tail)
                   = COk (cnorm o) (fmt_list_plain (ends_reg o) r ++ cRB :: tail)).
    { apply (HPo L d depth f [] _ HL Hwo Hno); [apply Hdep; left; reflexivity | left; reflexivity | exact Hfo | lia]. }
    rewrite E in *. cbn [app] in *. rewrite H1.
    replace (max_arr L <=? N.of_nat (length acc)) with false by (symmetry; apply N.leb_gt; lia).
    unfold bytes, byte in *. rewrite Hval.
    rewrite IH; [ | exact HPr | exact HL | exact Hwr | exact Hnrr
                  | intros x Hx; apply Hdep; right; exact Hx
                  | cbn [length]; rewrite of_nat_S; exact Hfit | lia ].
    cbn [map rev]. rewrite <- app_assoc. reflexivity.
Qed.

Lemma vspec_arr l : Forall vspec l -> vspec (OArr l).
Proof.
  intros HP L d depth f ws tail HL Hw Hnr Hd Hws Hf Hfuel.
  destruct (limits_ok_facts L HL) as [Hn5 _].
  cbn [wf_obj] in Hw. apply andb_true_iff in Hw as [Hw Hall]. apply andb_true_iff in Hw as [_ Hfit].
  cbn [no_ref] in Hnr.
  change (osize (OArr l)) with (S (S (lsize l))) in Hfuel. destruct f as [|[|f]]; try lia.
  unfold body. rewrite fmt_obj_arr. cbn [fst]. rewrite <- !app_assoc. cbn [app].
  rewrite read_value_eq. rewrite scan_token_lb by (auto; lia).
  change (bytes_eqb [cLB] [cLB]) with true. cbn iota.
  assert (Hdep : forall x, In x l -> N.of_nat (vdepth x) + (depth + 1) <= max_value_depth).
  { intros x Hx. cbn [vdepth] in Hd.
    assert (vdepth x <= fold_right (fun x n => Nat.max (vdepth x) n) 0%nat l)%nat.
    { clear - Hx. induction l as [|y r IH]; [destruct Hx|]. cbn [fold_right].
      destruct Hx as [->|Hx]; [lia | specialize (IH Hx); lia]. }
    lia. }
  replace (max_value_depth <=? depth) with false
    by (symmetry; apply N.leb_gt; cbn [vdepth] in Hd; lia).
  etransitivity.
  { apply (varr_elems L (d + 1) (depth + 1) tail l false [] (S f)); auto. lia. }
  rewrite app_nil_r, rev_involutive. reflexivity.
Qed.

(* the entries of a dictionary *)
Lemma vdict_entries L d depth rest : forall es acc f,
  Forall (fun kv => vspec (snd kv)) es -> limits_ok L = true ->
  Forall (fun kv => wf_name L (fst kv) = true /\ wf_obj L d (snd kv) = true /\ no_ref (snd kv) = true
                    /\ N.of_nat (vdepth (snd kv)) + depth <= max_value_depth) es ->
  NoDup (map fst acc ++ map fst es) -> N.of_nat (length acc + length es) <= max_dict L ->
  (S (esz es) <= f)%nat ->
  read_dict_body L f kw_gtgt depth acc (entries_text false es ++ kw_gtgt ++ rest)
  = COk (acc ++ filter nn2 (map ckv es)) rest.
Proof.
  induction es as [|[k v] r IH]; intros acc f HP HL Hw Hnd Hlen Hfuel.
  - destruct f as [|f]; [lia|]. cbn [entries_text map concat app filter]. rewrite read_dict_body_eq.
    cbn [kw_gtgt app]. rewrite skip_ws_stop by reflexivity. cbn [starts_with].
    change (cGT =? cGT) with true. cbn [andb length drop]. rewrite app_nil_r. reflexivity.
  - inversion HP as [|? ? HPv HPr]; subst. inversion Hw as [|? ? (Hk & Hwv & Hnv & Hdv) Hwr]; subst.
    cbn [fst snd] in *. destruct (wf_name_facts L k Hk) as [Hk1 Hk2].
    cbn [esz fold_right snd] in Hfuel. fold (esz r) in Hfuel.
    destruct f as [|f]; [lia|].
    assert (Hfresh : dict_has acc k = false).
    { destruct (dict_has acc k) eqn:E; [|reflexivity]. exfalso.
      apply dict_has_in in E. cbn [map fst] in Hnd. apply NoDup_remove_2 in Hnd.
      apply Hnd. apply in_or_app. left. exact E. }
    assert (Hlen1 : N.of_nat (length acc) < max_dict L) by (cbn [length] in Hlen; lia).
    assert (Hlen' : N.of_nat (length (acc ++ [(k, cnorm v)]) + length r) <= max_dict L)
      by (rewrite app_length; cbn [length] in *; lia).
    assert (Hlen'' : N.of_nat (length acc + length r) <= max_dict L) by (cbn [length] in Hlen; lia).
    unfold entries_text. cbn [map concat fst snd]. fold (entries_text false r).
    unfold fmt_entry. rewrite fmt_obj_split. cbn [fst]. rewrite <- !app_assoc.
    rewrite read_dict_body_eq. unfold fmt_name at 1. cbn [app].
    rewrite skip_ws_stop by reflexivity. cbn [kw_gtgt starts_with]. change (cGT =? cSLASH) with false. cbn [andb].
    (* the key *)
    destruct f as [|f]; [lia|]. rewrite read_value_eq.
    destruct (entries_head false r rest) as (c & X0 & EX & Hc).
    destruct (key_end_facts c X0 Hc) as (_ & _ & Hfo).
    assert (Hfoll : follow_ok (entries_text false r ++ kw_gtgt ++ rest) = true) by (rewrite EX; exact Hfo).
    pose proof (scan_token_name L [] k (lead true v ++ body false v ++ entries_text false r ++ kw_gtgt ++ rest)
                  (or_introl eq_refl) Hk1 ltac:(lia)
                  (follow_lead_body false L d v _ Hwv)) as Hkey.
    unfold fmt_name in Hkey. cbn [app] in Hkey. unfold bytes, byte in *. rewrite Hkey.
    (* the value *)
    assert (Hval : read_value L (S f) depth (lead true v ++ body false v ++ entries_text false r ++ kw_gtgt ++ rest)
                   = COk (cnorm v) (entries_text false r ++ kw_gtgt ++ rest)).
    { apply (HPv L d depth (S f) (lead true v) _ HL Hwv Hnv Hdv); [apply lead_is_lead | | lia].
      intros _. exact Hfoll. }
    unfold bytes, byte in *. rewrite Hval.
    cbn [map filter]. unfold nn2 at 1. unfold ckv at 1. cbn [fst snd].
    destruct (is_null (cnorm v)) eqn:En; cbn [negb].
    + rewrite IH; [reflexivity | exact HPr | exact HL | exact Hwr
                   | cbn [map fst] in Hnd; apply NoDup_remove_1 in Hnd; exact Hnd | exact Hlen'' | lia ].
    + rewrite Hfresh. cbn [negb andb].
      replace (max_dict L <=? N.of_nat (length acc)) with false by (symmetry; apply N.leb_gt; exact Hlen1).
      rewrite dict_set_fresh by exact Hfresh.
      rewrite IH; [ | exact HPr | exact HL | exact Hwr
                    | rewrite map_app; cbn [map fst]; rewrite <- app_assoc; exact Hnd | exact Hlen' | lia ].
      rewrite <- app_assoc. reflexivity.
Qed.

Lemma esz_esize l : esz (sort_entries (filter nonnull l)) = esize l.
Proof. rewrite (esz_perm _ _ (sort_perm (filter nonnull l))). apply esz_filter. Qed.

Lemma vspec_dict l : Forall (fun kv => vspec (snd kv)) l -> vspec (ODict l).
Proof.
  intros HP L d depth f ws tail HL Hw Hnr Hd Hws Hf Hfuel.
  cbn [wf_obj] in Hw. apply andb_true_iff in Hw as [Hw Hall]. apply andb_true_iff in Hw as [Hw Hcnt].
  apply andb_true_iff in Hw as [_ Hnd]. apply N.leb_le in Hcnt.
  cbn [no_ref] in Hnr.
  set (es := sort_entries (filter nonnull l)).
  assert (Hperm : Permutation es (filter nonnull l)) by apply sort_perm.
  assert (Hin : forall kv, In kv es -> In kv l).
  { intros kv H. apply (Permutation_in _ Hperm) in H. apply filter_In in H. tauto. }
  assert (Htext : concat (map snd (sort_entries (fmt_frags false l))) = entries_text false es).
  { rewrite fmt_frags_map. rewrite (sort_map (fun kv => fmt_entry false (fst kv) (snd kv))).
    rewrite map_map. reflexivity. }
  assert (Hnorm : sort_entries (cnorm_entries l) = map ckv es).
  { rewrite cnorm_entries_map. unfold ckv. rewrite (sort_map (fun kv => cnorm (snd kv))). reflexivity. }
  assert (Hlen : length es = length (norm_entries l)).
  { rewrite (Permutation_length Hperm). rewrite norm_entries_map, map_length. reflexivity. }
  assert (Hndes : NoDup (map fst es)).
  { apply (Permutation_NoDup (l := map fst (filter nonnull l))).
    - apply Permutation_map. symmetry. exact Hperm.
    - apply NoDup_filter_fst. apply nodup_keys_NoDup. exact Hnd. }
  assert (Hdep : forall kv, In kv l -> N.of_nat (vdepth (snd kv)) + (depth + 1) <= max_value_depth).
  { intros kv Hx. cbn [vdepth] in Hd.
    assert (vdepth (snd kv) <= fold_right (fun kv n => Nat.max (vdepth (snd kv)) n) 0%nat l)%nat.
    { clear - Hx. induction l as [|y r IH]; [destruct Hx|]. cbn [fold_right].
      destruct Hx as [->|Hx]; [lia | specialize (IH Hx); lia]. }
    lia. }
  change (osize (ODict l)) with (S (S (esize l))) in Hfuel. destruct f as [|f]; [lia|].
  unfold body. rewrite fmt_obj_dict. cbn [fst app]. rewrite Htext. rewrite cnorm_dict, Hnorm.
  rewrite <- !app_assoc.
  rewrite read_value_eq. rewrite scan_token_ltlt by exact Hws.
  change (bytes_eqb kw_ltlt [cLB]) with false. change (bytes_eqb kw_ltlt kw_ltlt) with true. cbn iota.
  replace (max_value_depth <=? depth) with false
    by (symmetry; apply N.leb_gt; cbn [vdepth] in Hd; lia).
  rewrite (vdict_entries L (d + 1) (depth + 1) tail es [] f); auto.
  - apply Forall_forall. intros kv Hkv. rewrite Forall_forall in HP. exact (HP kv (Hin kv Hkv)).
  - apply Forall_forall. intros kv Hkv. rewrite forallb_forall in Hall, Hnr.
    pose proof (Hall kv (Hin kv Hkv)) as H1. apply andb_true_iff in H1 as [H1 H2].
    repeat split; auto;
      first [ apply (Hnr kv (Hin kv Hkv)) | apply Hdep; apply Hin; exact Hkv ].
  - cbn [length]. rewrite Hlen. lia.
  - unfold es. rewrite esz_esize. lia.
Qed.

Lemma vspec_nildict : vspec ONilDict.
Proof.
  intros L d depth f ws tail HL Hw Hnr Hd Hws Hf Hfuel.
  cbn [osize] in Hfuel. destruct f as [|[|f]]; try lia.
  change (body false ONilDict) with (kw_ltlt ++ kw_gtgt). rewrite <- !app_assoc.
  rewrite read_value_eq. rewrite scan_token_ltlt by exact Hws.
  change (bytes_eqb kw_ltlt [cLB]) with false. change (bytes_eqb kw_ltlt kw_ltlt) with true. cbn iota.
  replace (max_value_depth <=? depth) with false
    by (symmetry; apply N.leb_gt; cbn [vdepth] in Hd; lia).
  rewrite read_dict_body_eq. cbn [kw_gtgt app]. rewrite skip_ws_stop by reflexivity.
  cbn [starts_with]. change (cGT =? cGT) with true. cbn [andb length drop]. reflexivity.
Qed.

Theorem vspec_all : forall o, vspec o.
Proof.
  apply obj_ind2; intros; try (apply vspec_atomic; reflexivity).
  - apply vspec_arr. assumption.
  - apply vspec_dict. assumption.
  - intros L d depth f ws tail HL Hw Hnr. discriminate.
  - apply vspec_nildict.
Qed.

(* ================= inline images with nested values ================= *)
Definition efuel (es : list (bytes * obj)) : nat := fold_right (fun kv n => S (osize (snd kv)) + n)%nat 0%nat es.

Lemma efuel_len L es : forallb (wf_img_entry_full L) es = true ->
  (efuel es <= 2 * length (concat (map fmt_image_entry es)))%nat.
Proof.
  induction es as [|[k v] r IH]; intro H; [cbn; lia|].
  cbn [forallb] in H. apply andb_true_iff in H as [Hkv H]. specialize (IH H).
  unfold wf_img_entry_full in Hkv. cbn [fst snd] in Hkv.
  apply andb_true_iff in Hkv as [Hkv _]. apply andb_true_iff in Hkv as [Hkv _].
  apply andb_true_iff in Hkv as [Hkv Hwv].
  apply andb_true_iff in Hkv as [_ Hnn]. apply negb_true_iff in Hnn.
  cbn [efuel fold_right snd map concat]. fold (efuel r). rewrite app_length.
  unfold fmt_image_entry at 1. cbn [fst snd]. rewrite !app_length. cbn [length].
  pose proof (FuelProofs.fuel_all v false L 0 Hwv) as Hv.
  assert (Hfmt : (length (body false v) <= length (if is_null v then [] else fmt_operand v))%nat).
  { destruct (is_null v) eqn:E; [destruct v; discriminate|]. unfold fmt_operand, body. lia. }
  unfold bytes, byte in *. lia.
Qed.

Lemma image_entries_full L X : forall es ws acc f,
  limits_ok L = true -> is_lead ws \/ ws = [cLF] ->
  forallb (wf_img_entry_full L) es = true ->
  NoDup (map fst acc ++ map fst es) -> N.of_nat (length acc + length es) <= max_dict L ->
  (efuel es + 2 <= f)%nat ->
  read_dict_body L f n_ID 0 acc (ws ++ concat (map fmt_image_entry es) ++ n_ID ++ X)
  = COk (acc ++ map (fun kv => (fst kv, cnorm (snd kv))) es) X.
Proof.
  induction es as [|[k v] r IH]; intros ws acc f HL Hws Hw Hnd Hlen Hf.
  - destruct f as [|f]; [lia|]. rewrite read_dict_body_eq. cbn [map concat app].
    assert (Hsk : skip_ws (ws ++ n_ID ++ X) = Ok (n_ID ++ X)).
    { destruct Hws as [Hws | ->]; [rewrite skip_is_lead by exact Hws | cbn [app]; rewrite skip_ws_lf];
        cbn [n_ID app]; apply skip_ws_stop; reflexivity. }
    rewrite Hsk. rewrite starts_with_app. rewrite drop_app. rewrite app_nil_r. reflexivity.
  - cbn [efuel fold_right snd] in Hf. fold (efuel r) in Hf. destruct f as [|[|f]]; try lia.
    cbn [forallb] in Hw. apply andb_true_iff in Hw as [Hkv Hw].
    unfold wf_img_entry_full in Hkv. cbn [fst snd] in Hkv.
    apply andb_true_iff in Hkv as [Hkv Hvd].
    apply andb_true_iff in Hkv as [Hkv Hnrv]. apply andb_true_iff in Hkv as [Hkv Hwv].
    apply andb_true_iff in Hkv as [Hkey Hnn]. apply negb_true_iff in Hnn. apply Nat.leb_le in Hvd.
    unfold wf_img_key in Hkey. apply andb_true_iff in Hkey as [Hkey Hkl]. apply andb_true_iff in Hkey as [_ Hkr].
    apply N.leb_le in Hkl.
    destruct (limits_ok_facts L HL) as [Hn5 _].
    assert (Hlen' : N.of_nat (length (acc ++ [(k, cnorm v)]) + length r) <= max_dict L)
      by (rewrite app_length; cbn [length] in *; lia).
    assert (Hlen1 : N.of_nat (length acc) < max_dict L) by (cbn [length] in Hlen; lia).
    assert (Hf' : (efuel r + 2 <= S f)%nat) by lia.
    assert (Hfv : (osize v <= S f)%nat) by lia.
    cbn [map concat]. unfold fmt_image_entry at 1. cbn [fst snd].
    assert (Hvn : is_null v = false) by (destruct v; try discriminate; reflexivity). rewrite Hvn.
    rewrite <- !app_assoc. cbn [app].
    rewrite read_dict_body_eq.
    assert (Hsk : forall Y, skip_ws (ws ++ cSLASH :: Y) = Ok (cSLASH :: Y)).
    { intro Y. destruct Hws as [Hws | ->]; [rewrite skip_is_lead by exact Hws | cbn [app]; rewrite skip_ws_lf];
        apply skip_ws_stop; reflexivity. }
    rewrite Hsk. change (starts_with n_ID (cSLASH :: ?y)) with false. cbn iota.
    (* the key *)
    rewrite read_value_eq.
    assert (Hkeytok : forall Y, follow_ok Y = true ->
              scan_token L (cSLASH :: k ++ Y) = COk (TObj (OName k)) Y).
    { intros Y HY. unfold scan_token. rewrite skip_ws_stop by reflexivity.
      change (cSLASH =? cSLASH) with true. cbn iota. unfold cread_name.
      rewrite cname_loop_raw by assumption. cbn [rev app].
      replace (max_name L <? blen k) with false by (symmetry; apply N.ltb_ge; exact Hkl). reflexivity. }
    rewrite Hkeytok by reflexivity.
    (* the value *)
    pose proof (vspec_all v L 0 0 (S f) [cSP] (cLF :: concat (map fmt_image_entry r) ++ n_ID ++ X) HL Hwv Hnrv
                  ltac:(unfold max_value_depth; cbn; lia) (or_intror eq_refl) (fun _ => eq_refl) Hfv) as Hval.
    unfold fmt_operand. fold (body false v). cbn [app] in Hval.
    unfold bytes, byte in *. rewrite Hval.
    rewrite Hnn.
    assert (Hfresh : dict_has acc k = false).
    { destruct (dict_has acc k) eqn:E; [|reflexivity]. exfalso.
      apply dict_has_in in E. cbn [map fst] in Hnd. apply NoDup_remove_2 in Hnd.
      apply Hnd. apply in_or_app. left. exact E. }
    rewrite Hfresh. cbn [negb andb].
    replace (max_dict L <=? N.of_nat (length acc)) with false
      by (symmetry; apply N.leb_gt; exact Hlen1).
    rewrite dict_set_fresh by exact Hfresh.
    change (cLF :: concat (map fmt_image_entry r) ++ n_ID ++ X)
      with ([cLF] ++ concat (map fmt_image_entry r) ++ n_ID ++ X).
    rewrite IH; [ | exact HL | right; reflexivity | exact Hw
                  | rewrite map_app; cbn [map fst]; rewrite <- app_assoc; exact Hnd
                  | exact Hlen' | exact Hf' ].
    cbn [map fst snd]. rewrite <- app_assoc. reflexivity.
Qed.


Theorem cscan_one_image_full L sp d data rest :
  limits_ok L = true -> all_space sp = true -> wf_image_full L d data = true ->
  cscan_one L (sp ++ op_format (image_op d data) ++ rest)
  = COk (image_op (scanned_dict d) data) (cLF :: rest).
Proof.
  intros HL Hsp Hw. destruct (limits_ok_facts L HL) as [Hn5 _].
  unfold wf_image_full in Hw. apply andb_true_iff in Hw as [Hw Hguard]. apply andb_true_iff in Hw as [Hw Hcnt].
  apply andb_true_iff in Hw as [Hnd Hall]. apply N.leb_le in Hcnt. cbv zeta in Hguard.
  apply andb_true_iff in Hguard as [Hguard Hlenb]. apply andb_true_iff in Hguard as [Hguard Hasc].
  apply andb_true_iff in Hguard as [Hguard Hpix]. apply andb_true_iff in Hguard as [Hguard Hh2].
  apply andb_true_iff in Hguard as [Hguard Hw2]. apply andb_true_iff in Hguard as [Hw1 Hh1].
  apply Z.ltb_lt in Hw1, Hh1. apply Z.leb_le in Hw2, Hh2, Hpix.
  set (es := sort_lex d).
  assert (Hperm : Permutation es d) by apply sort_lex_perm.
  assert (Halles : forallb (wf_img_entry_full L) es = true).
  { apply forallb_forall. intros x Hx. rewrite forallb_forall in Hall. apply Hall.
    apply (Permutation_in _ Hperm). exact Hx. }
  assert (Hndes : NoDup (map fst es)).
  { apply (Permutation_NoDup (l := map fst d)); [apply Permutation_map; symmetry; exact Hperm|].
    apply nodup_keys_NoDup. exact Hnd. }
  assert (Hleses : length es = length d) by (apply Permutation_length; exact Hperm).
  assert (Hlen0 : N.of_nat (length (@nil (bytes * obj)) + length es) <= max_dict L)
    by (cbn [length]; rewrite Hleses; exact Hcnt).
  assert (Hfuel0 : forall Y0, (efuel es + 2 <= value_fuel ([cLF] ++ concat (map fmt_image_entry es) ++ n_ID ++ Y0))%nat).
  { intro Y0. unfold value_fuel. rewrite !app_length. pose proof (efuel_len L es Halles). cbn [length]. unfold bytes, byte in *. lia. }
  rewrite image_text_rest. fold es.
  (* Scan: not a comment *)
  unfold cscan_one. rewrite skip_sp_app by (auto; reflexivity).
  change (66 =? cPCT) with false. cbn iota.
  (* the BI token *)
  rewrite cloop_eq.
  set (Y := cLF :: data ++ cLF :: 69 :: 73 :: cLF :: rest).
  set (X := cLF :: concat (map fmt_image_entry es) ++ n_ID ++ Y).
  assert (Htok : scan_token L (66 :: 73 :: X) = COk (TOp n_BI) X).
  { apply (scan_token_regular L [] n_BI X 66 [73]); try reflexivity; [left; reflexivity | cbn; lia]. }
  unfold bytes, byte in *. rewrite Htok.
  change (bytes_eqb n_BI kw_ltlt) with false. change (bytes_eqb n_BI kw_gtgt) with false.
  change (bytes_eqb n_BI [cLB]) with false. change (bytes_eqb n_BI [cRB]) with false. cbn iota.
  unfold deliver. change (max_args <=? N.of_nat (length (@nil obj))) with false.
  change (bytes_eqb n_BI n_BI) with true. cbn iota.
  (* the dictionary *)
  unfold read_inline_image.
  assert (Hdict : read_dict_body L (value_fuel X) n_ID 0 [] X = COk (scanned_dict d) Y).
  { subst X. change (cLF :: concat (map fmt_image_entry es) ++ n_ID ++ Y)
      with ([cLF] ++ concat (map fmt_image_entry es) ++ n_ID ++ Y).
    rewrite (image_entries_full L Y es [cLF] [] _ HL (or_intror eq_refl) Halles);
      [reflexivity | exact Hndes | exact Hlen0 | apply Hfuel0 ]. }
  rewrite Hdict. fold (scanned_dict d) in *.
  set (sd := scanned_dict d) in *.
  replace ((img_int sd k_W k_Width <=? 0)%Z) with false by (symmetry; apply Z.leb_gt; exact Hw1).
  replace ((img_int sd k_H k_Height <=? 0)%Z) with false by (symmetry; apply Z.leb_gt; exact Hh1).
  replace ((max_img_dim <? img_int sd k_W k_Width)%Z) with false by (symmetry; apply Z.ltb_ge; exact Hw2).
  replace ((max_img_dim <? img_int sd k_H k_Height)%Z) with false by (symmetry; apply Z.ltb_ge; exact Hh2).
  cbn [orb].
  replace ((max_img_pixels <? img_int sd k_W k_Width * img_int sd k_H k_Height)%Z) with false
    by (symmetry; apply Z.ltb_ge; exact Hpix).
  (* the byte after ID; for an ASCII filter all further white space *)
  subst Y. change (is_space cLF) with true. cbn iota.
  replace (is_space cLF) with true by reflexivity. cbn iota.
  set (T := cLF :: 69 :: 73 :: cLF :: rest).
  destruct (img_filter_ascii sd) eqn:Ea; cbn [negb orb] in Hasc.
  - destruct data as [|b0 data'].
    + (* ASCII filter, no data: the scanner stops at EI with the EOL as previous byte *)
      cbn [app]. subst T.
      replace (skip_sp_last 0 (cLF :: 69 :: 73 :: cLF :: rest)) with (69 :: 73 :: cLF :: rest, cLF) by reflexivity.
      cbv beta iota.
      destruct (0 <? img_int sd k_L k_Length)%Z eqn:El.
      * apply andb_true_iff in Hlenb as [He _]. apply Z.eqb_eq in He. apply Z.ltb_lt in El.
        cbn [length] in He. lia.
      * apply andb_true_iff in Hlenb as [_ Hmax]. apply N.ltb_lt in Hmax.
        rewrite ei_loop_step.
        destruct (max_img_bytes <=? blen []) eqn:E0;
          [apply N.leb_le in E0; unfold blen in *; cbn [length] in *; lia|].
        change ((cLF =? cCR) || (cLF =? cLF)) with true.
        change (check_ei (69 :: 73 :: cLF :: rest)) with true. cbn [andb tl rev].
        cbn [n_EI starts_with]. change (69 =? 69) with true. change (73 =? 73) with true. cbn [andb drop].
        change (is_regular cLF) with false. cbn iota. reflexivity.
    + (* ASCII filter, data starting with a byte that is not white space *)
      cbn [ascii_data_ok] in Hasc. apply negb_true_iff in Hasc.
      replace (skip_sp_last 0 ((b0 :: data') ++ T)) with ((b0 :: data') ++ T, 0)
        by (cbn [app skip_sp_last]; rewrite Hasc; reflexivity).
      cbv beta iota. change ((b0 :: data') ++ T) with (b0 :: (data' ++ T)) at 1. cbv iota.
      set (data := b0 :: data') in *. subst T.
      destruct (0 <? img_int sd k_L k_Length)%Z eqn:El.
      * apply andb_true_iff in Hlenb as [He Hmax]. apply Z.eqb_eq in He. apply Z.leb_le in Hmax.
        replace ((Z.of_N max_img_bytes <? img_int sd k_L k_Length)%Z) with false by (symmetry; apply Z.ltb_ge; exact Hmax).
        rewrite He, Nat2Z.id, take_n_app. rewrite skip_ws_lf. rewrite skip_ws_stop by reflexivity.
        cbn [n_EI starts_with]. change (69 =? 69) with true. change (73 =? 73) with true. cbn [andb drop].
        change (is_regular cLF) with false. cbn iota. reflexivity.
      * apply andb_true_iff in Hlenb as [Hei Hmax]. apply N.ltb_lt in Hmax.
        rewrite ei_loop_ok; [ | exact Hei | rewrite blen_nil; lia].
        cbn [n_EI starts_with rev app]. change (69 =? 69) with true. change (73 =? 73) with true. cbn [andb drop].
        change (is_regular cLF) with false. cbn iota. reflexivity.
  - (* no ASCII filter *)
    subst T.
    destruct (0 <? img_int sd k_L k_Length)%Z eqn:El.
    + apply andb_true_iff in Hlenb as [He Hmax]. apply Z.eqb_eq in He. apply Z.leb_le in Hmax.
      replace ((Z.of_N max_img_bytes <? img_int sd k_L k_Length)%Z) with false by (symmetry; apply Z.ltb_ge; exact Hmax).
      rewrite He, Nat2Z.id, take_n_app. rewrite skip_ws_lf. rewrite skip_ws_stop by reflexivity.
      cbn [n_EI starts_with]. change (69 =? 69) with true. change (73 =? 73) with true. cbn [andb drop].
      change (is_regular cLF) with false. cbn iota. reflexivity.
    + apply andb_true_iff in Hlenb as [Hei Hmax]. apply N.ltb_lt in Hmax.
      rewrite ei_loop_ok; [ | exact Hei | rewrite blen_nil; lia].
      cbn [n_EI starts_with rev app]. change (69 =? 69) with true. change (73 =? 73) with true. cbn [andb drop].
      change (is_regular cLF) with false. cbn iota. reflexivity.
Qed.


(* ================= the whole stream with the full guard ================= *)
Lemma op_reads_full_reads L op e : limits_ok L = true -> op_reads_full L op e -> reads L op e.
Proof.
  intros HL [[Hw ->] | (d & data & -> & Hw & ->)] sp rest Hsp.
  - apply cscan_one_op; assumption.
  - apply cscan_one_image_full; assumption.
Qed.

Theorem cscan_format_full L ops exps :
  limits_ok L = true -> Forall2 (op_reads_full L) ops exps ->
  cscan L (cformat ops) = Some exps.
Proof.
  intros HL HF.
  assert (HR : Forall2 (reads L) ops exps).
  { induction HF; constructor; auto. apply op_reads_full_reads; assumption. }
  unfold cscan. pose proof (cformat_len_gen L ops exps HR) as Hlen.
  destruct (Nat.le_exists_sub _ _ Hlen) as (f0 & Ef & _).
  replace (S (length (cformat ops))) with (length ops + S f0)%nat by lia.
  pose proof (pump_gen L ops exps [] [] (S f0) [] HR eq_refl eq_refl) as H.
  cbn [app] in H. rewrite !app_nil_r in H. exact H.
Qed.

Theorem split_full L ops1 exps1 ops2 exps2 :
  limits_ok L = true -> Forall2 (op_reads_full L) ops1 exps1 -> Forall2 (op_reads_full L) ops2 exps2 ->
  cscan L (cformat ops1 ++ [cLF] ++ cformat ops2) = Some (exps1 ++ exps2).
Proof.
  intros HL HF1 HF2.
  assert (HR1 : Forall2 (reads L) ops1 exps1) by (induction HF1; constructor; auto; apply op_reads_full_reads; assumption).
  assert (HR2 : Forall2 (reads L) ops2 exps2) by (induction HF2; constructor; auto; apply op_reads_full_reads; assumption).
  unfold cscan.
  pose proof (cformat_len_gen L ops1 exps1 HR1) as Hl1. pose proof (cformat_len_gen L ops2 exps2 HR2) as Hl2.
  set (n := length (cformat ops1 ++ [cLF] ++ cformat ops2)).
  assert (Hn : (length ops1 + (length ops2 + 2) <= S n)%nat)
    by (subst n; rewrite !app_length; cbn [length]; unfold bytes, byte in *; lia).
  destruct (Nat.le_exists_sub _ _ Hn) as (f0 & Ef & _). rewrite Ef.
  replace (f0 + (length ops1 + (length ops2 + 2)))%nat with (length ops1 + (length ops2 + S (S f0)))%nat by lia.
  assert (Hsecond : cscan_fuel L (length ops2 + S (S f0)) ([cLF] ++ cformat ops2) = Some exps2).
  { pose proof (pump_gen L ops2 exps2 [cLF] [] (S (S f0)) [] HR2 eq_refl eq_refl) as H.
    rewrite !app_nil_r in H. exact H. }
  pose proof (pump_gen L ops1 exps1 [] ([cLF] ++ cformat ops2) _ _ HR1 eq_refl Hsecond) as H.
  cbn [app] in H |- *. exact H.
Qed.

Theorem inline_rt_full_lemma L d data :
  limits_ok L = true -> wf_image_full L d data = true ->
  cscan L (op_format (image_op d data)) = Some [image_op (scanned_dict d) data].
Proof.
  intros HL Hw.
  pose proof (cscan_format_full L [image_op d data] [image_op (scanned_dict d) data] HL) as H.
  unfold cformat in H. cbn [map concat] in H. rewrite app_nil_r in H. apply H.
  constructor; [|constructor]. right. exists d, data. auto.
Qed.
