(* balanced: every operator sequence the nesting state accepts can be closed by
   ClosingOperators, and is then closable (CanClose). *)
From Coq Require Import List NArith ZArith Bool Lia.
From GoPdf.Base Require Import Bytes Res.
From GoPdf.C15 Require Import State.
Import ListNotations.
Open Scope N_scope.

Lemma pair_eqb_eq a b : pair_eqb a b = true <-> a = b.
Proof. destruct a, b; cbn; split; intro H; try discriminate; try reflexivity; congruence. Qed.
Lemma pair_eqb_refl a : pair_eqb a a = true.
Proof. apply pair_eqb_eq. reflexivity. Qed.
Lemma cobj_eqb_eq a b : cobj_eqb a b = true <-> a = b.
Proof. destruct a, b; cbn; split; intro H; try discriminate; try reflexivity; congruence. Qed.

(* no q frame is nested inside the text object (PDF 1.x): no PQ with a PBT further out *)
Definition nqb (l : list pair) : Prop := forall l1 l2, l = l1 ++ PQ :: l2 -> ~ In PBT l2.
(* at most one BT frame *)
Definition one_bt (l : list pair) : Prop := forall l1 l2, l = l1 ++ PBT :: l2 -> ~ In PBT l1 /\ ~ In PBT l2.

Definition inv (s : nstate) : Prop :=
  (cur s = CText <-> In PBT (nesting s)) /\
  one_bt (nesting s) /\
  (pre2 s = true -> nqb (nesting s)) /\
  cur s <> CT3Start.

(* popNesting removes one element *)
Lemma pop_split k l l' : pop_nesting k l = Some l' ->
  exists a b, l = a ++ k :: b /\ l' = a ++ b /\ ~ In k a.
Proof.
  revert l'. induction l as [|y r IH]; intros l' H; cbn [pop_nesting] in H; [discriminate|].
  destruct (pair_eqb y k) eqn:E.
  - inversion H; subst. apply pair_eqb_eq in E. subst. exists [], l'. auto.
  - destruct (pop_nesting k r) as [r'|] eqn:E2; [|discriminate]. inversion H; subst.
    destruct (IH r' eq_refl) as (a & b & -> & -> & Hn). exists (y :: a), b. repeat split; auto.
    intros [->|Hin]; [rewrite pair_eqb_refl in E; discriminate | exact (Hn Hin)].
Qed.

Lemma pop_head k t : pop_nesting k (k :: t) = Some t.
Proof. cbn [pop_nesting]. rewrite pair_eqb_refl. reflexivity. Qed.

(* removing an element keeps nqb and one_bt *)
Lemma split_remove (a b l1 l2 : list pair) (x y : pair) :
  a ++ b = l1 ++ y :: l2 ->
  exists l1' l2', a ++ x :: b = l1' ++ y :: l2' /\ (forall z, In z l2 -> In z l2') /\ (forall z, In z l1 -> In z l1').
Proof.
  revert l1. induction a as [|h a IH]; intros l1 H; cbn [app] in *.
  - exists (x :: l1), l2. subst b. cbn [app]. repeat split; auto. intros z Hz. right. exact Hz.
  - destruct l1 as [|h1 l1]; cbn [app] in H; injection H as Hh Ht.
    + subst h. exists [], (a ++ x :: b). cbn [app]. split; [reflexivity|]. split; [|intros z []].
      intros z Hz. rewrite <- Ht in Hz. apply in_app_or in Hz. apply in_or_app. destruct Hz; [left|right; right]; assumption.
    + subst h1. destruct (IH l1 Ht) as (l1' & l2' & E & H3 & H4). exists (h :: l1'), l2'. cbn [app]. rewrite E.
      split; [reflexivity|]. split; [exact H3|]. intros z [->|Hz]; [left; reflexivity | right; apply H4; exact Hz].
Qed.

Lemma nqb_remove a x b : nqb (a ++ x :: b) -> nqb (a ++ b).
Proof.
  intros H l1 l2 E Hin. destruct (split_remove a b l1 l2 x PQ E) as (l1' & l2' & E' & H2 & _).
  apply (H l1' l2' E'). apply H2. exact Hin.
Qed.
Lemma one_bt_remove a x b : one_bt (a ++ x :: b) -> one_bt (a ++ b).
Proof.
  intros H l1 l2 E. destruct (split_remove a b l1 l2 x PBT E) as (l1' & l2' & E' & H2 & H1).
  destruct (H l1' l2' E') as [Ha Hb]. split; intro Hin; [apply Ha, H1, Hin | apply Hb, H2, Hin].
Qed.
Lemma nqb_cons x l : x <> PQ -> nqb l -> nqb (x :: l).
Proof.
  intros Hx H l1 l2 E. destruct l1 as [|h l1]; cbn [app] in E; inversion E; subst; [congruence|].
  eapply H. reflexivity.
Qed.
Lemma one_bt_cons x l : x <> PBT -> one_bt l -> one_bt (x :: l).
Proof.
  intros Hx H l1 l2 E. destruct l1 as [|h l1]; cbn [app] in E; inversion E; subst; [congruence|].
  destruct (H l1 l2 eq_refl) as [Ha Hb]. split; [|exact Hb]. intros [Hh|Hin]; [congruence | exact (Ha Hin)].
Qed.
Lemma not_in_one_bt l : ~ In PBT l -> one_bt l.
Proof. intros H l1 l2 E. exfalso. apply H. rewrite E. apply in_or_app. right. left. reflexivity. Qed.
Lemma not_in_nqb l : ~ In PBT l -> nqb l.
Proof. intros H l1 l2 E Hin. apply H. rewrite E. apply in_or_app. right. right. exact Hin. Qed.

Lemma in_remove_other (a b : list pair) x k : x <> k -> (In x (a ++ b) <-> In x (a ++ k :: b)).
Proof.
  intro Hx. rewrite !in_app_iff. cbn [In]. split; [tauto|]. intros [H|[H|H]]; auto. congruence.
Qed.

Definition init_state (p2 : bool) : nstate := mkNS CPage [] p2.

Lemma inv_init p2 : inv (init_state p2).
Proof.
  unfold inv, init_state. cbn [cur nesting pre2].
  split; [split; [discriminate | intros []]|].
  split; [intros l1 l2 E; destruct l1; discriminate|].
  split; [intros _ l1 l2 E; destruct l1; discriminate | discriminate].
Qed.

Ltac inv_split := unfold inv; cbn [cur nesting pre2]; split; [split|split; [|split]].

Lemma allowed_text_cases m c : allowed_in m c = true -> True.
Proof. trivial. Qed.

(* every accepted operator keeps the invariant *)
Lemma inv_step s o s' : inv s -> other_ok o = true -> apply_op s o = Some s' -> inv s'.
Proof.
  intros (I1 & I2 & I3 & I4) Hok H. unfold apply_op in H.
  destruct (allowed_in (op_mask o) (cur s)) eqn:Ea; cbn [negb] in H; [|discriminate].
  destruct o.
  - (* q *)
    destruct (pre2 s && (cobj_eqb (cur s) CText || Nat.leb 28 (count_pair PQ (nesting s)))) eqn:Ep; [discriminate|].
    inversion H; subst. inv_split.
    + intro Hc. right. apply I1. exact Hc.
    + intros [Hq|Hin]; [discriminate | apply I1; exact Hin].
    + apply one_bt_cons; [discriminate | exact I2].
    + intro Hp. rewrite Hp in Ep. cbn [andb] in Ep. apply orb_false_iff in Ep as [Ec _].
      assert (Hnt : ~ In PBT (nesting s)).
      { intro Hin. apply I1 in Hin. rewrite Hin in Ec. discriminate. }
      apply not_in_nqb. intros [Hq|Hin]; [discriminate | exact (Hnt Hin)].
    + exact I4.
  - (* Q *)
    destruct (pre2 s && cobj_eqb (cur s) CText); [discriminate|].
    destruct (pop_nesting PQ (nesting s)) as [n|] eqn:Epop; [|discriminate].
    inversion H; subst. destruct (pop_split _ _ _ Epop) as (a & b & E & -> & _).
    unfold inv; cbn [cur nesting pre2]; rewrite E in *; split; [split|split; [|split]].
    + intro Hc. apply (in_remove_other a b PBT PQ); [discriminate|]. apply I1. exact Hc.
    + intro Hin. apply I1. apply (in_remove_other a b PBT PQ); [discriminate | exact Hin].
    + eapply one_bt_remove. exact I2.
    + intro Hp. eapply nqb_remove. apply I3. exact Hp.
    + exact I4.
  - (* BT *)
    inversion H; subst. cbn [op_mask] in Ea.
    assert (Hc : cur s = CPage) by (destruct (cur s); cbn in Ea; try discriminate; reflexivity).
    assert (Hnt : ~ In PBT (nesting s)) by (intro Hin; apply I1 in Hin; congruence).
    inv_split.
    + intros _. left. reflexivity.
    + intros _. reflexivity.
    + intros l1 l2 E. destruct l1 as [|h l1]; cbn [app] in E.
      * injection E as Et. subst l2. split; [intros [] | exact Hnt].
      * injection E as Eh Et. exfalso. apply Hnt. rewrite Et. apply in_or_app. right. left. reflexivity.
    + intros Hp l1 l2 E. destruct l1 as [|h l1]; cbn [app] in E; [discriminate|].
      injection E as Eh Et. intro Hin. apply Hnt. rewrite Et. apply in_or_app. right. right. exact Hin.
    + discriminate.
  - (* ET *)
    destruct (pop_nesting PBT (nesting s)) as [n|] eqn:Epop; [|discriminate].
    inversion H; subst. destruct (pop_split _ _ _ Epop) as (a & b & E & -> & _).
    unfold inv. cbn [cur nesting pre2]. rewrite E in *.
    destruct (I2 a b eq_refl) as [Ha Hb].
    assert (Hnt : ~ In PBT (a ++ b)) by (intro Hin; apply in_app_or in Hin; tauto).
    split; [split|split; [|split]].
    + discriminate.
    + intro Hin. exfalso. exact (Hnt Hin).
    + apply not_in_one_bt. exact Hnt.
    + intros _. apply not_in_nqb. exact Hnt.
    + discriminate.
  - (* BMC *)
    inversion H; subst. inv_split.
    + intro Hc. right. apply I1. exact Hc.
    + intros [Hq|Hin]; [discriminate | apply I1; exact Hin].
    + apply one_bt_cons; [discriminate | exact I2].
    + intro Hp. apply nqb_cons; [discriminate | apply I3; exact Hp].
    + exact I4.
  - (* EMC *)
    destruct (pop_nesting PBMC (nesting s)) as [n|] eqn:Epop; [|discriminate].
    inversion H; subst. destruct (pop_split _ _ _ Epop) as (a & b & E & -> & _).
    unfold inv; cbn [cur nesting pre2]; rewrite E in *; split; [split|split; [|split]].
    + intro Hc. apply (in_remove_other a b PBT PBMC); [discriminate|]. apply I1. exact Hc.
    + intro Hin. apply I1. apply (in_remove_other a b PBT PBMC); [discriminate | exact Hin].
    + eapply one_bt_remove. exact I2.
    + intro Hp. eapply nqb_remove. apply I3. exact Hp.
    + exact I4.
  - (* BX *)
    inversion H; subst. inv_split.
    + intro Hc. right. apply I1. exact Hc.
    + intros [Hq|Hin]; [discriminate | apply I1; exact Hin].
    + apply one_bt_cons; [discriminate | exact I2].
    + intro Hp. apply nqb_cons; [discriminate | apply I3; exact Hp].
    + exact I4.
  - (* EX *)
    destruct (pop_nesting PBX (nesting s)) as [n|] eqn:Epop; [|discriminate].
    inversion H; subst. destruct (pop_split _ _ _ Epop) as (a & b & E & -> & _).
    unfold inv; cbn [cur nesting pre2]; rewrite E in *; split; [split|split; [|split]].
    + intro Hc. apply (in_remove_other a b PBT PBX); [discriminate|]. apply I1. exact Hc.
    + intro Hin. apply I1. apply (in_remove_other a b PBT PBX); [discriminate | exact Hin].
    + eapply one_bt_remove. exact I2.
    + intro Hp. eapply nqb_remove. apply I3. exact Hp.
    + exact I4.
  - (* any other operator *)
    inversion H; subst. cbn [op_mask] in Ea. cbn [other_ok] in Hok.
    destruct trans as [t|].
    + apply andb_true_iff in Hok as [Hok H3]. apply andb_true_iff in Hok as [H1 H2].
      apply negb_true_iff in H1, H2, H3.
      assert (Hnt : cur s <> CText) by (intro Hc; rewrite Hc in Ea; congruence).
      inv_split.
      * intro Hc. subst t. discriminate.
      * intro Hin. apply I1 in Hin. congruence.
      * exact I2.
      * exact I3.
      * intro Hc. subst t. discriminate.
    + inv_split; try apply I1; auto.
Qed.

Fixpoint all_ok (ops : list sop) : bool :=
  match ops with [] => true | o :: r => other_ok o && all_ok r end.

Lemma inv_run ops : forall s s', inv s -> all_ok ops = true -> run_ops s ops = Some s' -> inv s'.
Proof.
  induction ops as [|o r IH]; intros s s' Hi Hok H; cbn [run_ops] in H.
  - inversion H; subst. exact Hi.
  - cbn [all_ok] in Hok. apply andb_true_iff in Hok as [Ho Hr].
    destruct (apply_op s o) as [s1|] eqn:E; [|discriminate].
    eapply IH; [eapply inv_step; eauto | exact Hr | exact H].
Qed.

(* the closers of the frames, innermost first, are all accepted and empty the nesting *)
Lemma run_closers : forall n c p2,
  inv (mkNS c n p2) -> (c = CPage \/ c = CText) ->
  exists s', run_ops (mkNS c n p2) (map closer n) = Some s' /\ can_close s' = true.
Proof.
  induction n as [|k t IH]; intros c p2 Hi Hc.
  - exists (mkNS c [] p2). split; [reflexivity|].
    destruct Hi as (I1 & _). cbn [cur nesting] in I1. unfold can_close. cbn [nesting cur].
    destruct Hc as [->| ->]; [reflexivity|]. exfalso. destruct I1 as [I1 _]. exact (I1 eq_refl).
  - pose proof Hi as (I1 & I2 & I3 & I4). cbn [cur nesting pre2] in *.
    assert (Hmask : allowed_in m_page_text c = true) by (destruct Hc as [->| ->]; reflexivity).
    cbn [map run_ops]. destruct k; cbn [closer].
    + (* Q *)
      assert (Hstep : apply_op (mkNS c (PQ :: t) p2) SPop = Some (mkNS c t p2)).
      { unfold apply_op. cbn [op_mask cur nesting pre2]. rewrite Hmask. cbn [negb].
        assert (Hno : p2 && cobj_eqb c CText = false).
        { destruct p2; [|reflexivity]. cbn [andb]. destruct (cobj_eqb c CText) eqn:E; [|reflexivity].
          apply cobj_eqb_eq in E. subst c. exfalso.
          destruct I1 as [I1 _]. destruct (I1 eq_refl) as [Hq|Hin]; [discriminate|].
          exact (I3 eq_refl [] t eq_refl Hin). }
        rewrite Hno. rewrite pop_head. reflexivity. }
      rewrite Hstep. apply IH; [|exact Hc].
      eapply inv_step; [exact Hi | | exact Hstep]; reflexivity.
    + (* ET *)
      assert (Hct : c = CText) by (apply I1; left; reflexivity). subst c.
      assert (Hstep : apply_op (mkNS CText (PBT :: t) p2) SET = Some (mkNS CPage t p2)).
      { unfold apply_op. cbn [op_mask cur nesting pre2 allowed_in cobj_bit N.land negb].
        change (negb (N.land 4 4 =? 0)) with true. cbn [negb]. rewrite pop_head. reflexivity. }
      rewrite Hstep. apply IH; [|left; reflexivity].
      eapply inv_step; [exact Hi | | exact Hstep]; reflexivity.
    + (* EMC *)
      assert (Hstep : apply_op (mkNS c (PBMC :: t) p2) SEMC = Some (mkNS c t p2)).
      { unfold apply_op. cbn [op_mask cur nesting pre2]. rewrite Hmask. cbn [negb]. rewrite pop_head. reflexivity. }
      rewrite Hstep. apply IH; [|exact Hc].
      eapply inv_step; [exact Hi | | exact Hstep]; reflexivity.
    + (* EX *)
      assert (Hstep : apply_op (mkNS c (PBX :: t) p2) SEX = Some (mkNS c t p2)).
      { unfold apply_op. cbn [op_mask cur nesting pre2].
        assert (Hany : allowed_in m_any c = true) by (destruct c; reflexivity).
        rewrite Hany. cbn [negb]. rewrite pop_head. reflexivity. }
      rewrite Hstep. apply IH; [|exact Hc].
      eapply inv_step; [exact Hi | | exact Hstep]; reflexivity.
Qed.

Lemma balanced_state s : inv s ->
  exists s', run_ops s (closing_ops s) = Some s' /\ can_close s' = true.
Proof.
  intro Hi. destruct s as [c n p2]. unfold closing_ops. cbn [cur nesting].
  pose proof Hi as (I1 & I2 & I3 & I4). cbn [cur nesting pre2] in *.
  destruct c; cbn [cobj_eqb orb app]; try (exfalso; apply I4; reflexivity).
  - apply run_closers; [exact Hi | left; reflexivity].
  - (* open path: "n" first *)
    cbn [run_ops]. unfold apply_op at 1. cbn [op_mask op_endpath cur].
    change (negb (allowed_in 10 CPath)) with false. cbn iota. cbn [nesting pre2].
    apply run_closers; [|left; reflexivity].
    assert (Hs : apply_op (mkNS CPath n p2) op_endpath = Some (mkNS CPage n p2)) by reflexivity.
    eapply inv_step; [exact Hi | | exact Hs]; reflexivity.
  - apply run_closers; [exact Hi | right; reflexivity].
  - cbn [run_ops]. unfold apply_op at 1. cbn [op_mask op_endpath cur].
    change (negb (allowed_in 10 CClip)) with false. cbn iota. cbn [nesting pre2].
    apply run_closers; [|left; reflexivity].
    assert (Hs : apply_op (mkNS CClip n p2) op_endpath = Some (mkNS CPage n p2)) by reflexivity.
    eapply inv_step; [exact Hi | | exact Hs]; reflexivity.
Qed.

Theorem balanced_lemma p2 ops s :
  all_ok ops = true -> run_ops (init_state p2) ops = Some s ->
  exists s', run_ops s (closing_ops s) = Some s' /\ can_close s' = true.
Proof.
  intros Hok H. apply balanced_state. eapply inv_run; [apply inv_init | exact Hok | exact H].
Qed.

(* the operator table satisfies the side condition on other operators *)
Lemma table_other_ok : forallb (fun e => other_ok (sop_of_name (fst e))) op_table = true.
Proof. vm_compute. reflexivity. Qed.
