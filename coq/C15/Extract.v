Require Extraction.
Require Import ExtrOcamlBasic.
From GoPdf.Base Require Import WireAnchor.
From GoPdf.C01 Require Import Lex Obj Format.
From GoPdf.C15 Require Import Content State BuilderModel.
Separate Extraction wire_anchor cstd_limits mkLimits op_format cformat cscan ccanon
  apply_op run_ops closing_ops can_close sop_of_name mkNS other_ok op_table build_ops.
