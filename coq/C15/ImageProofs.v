(* inline_rt: BI ... ID data EI is read back as the %image% operator, under the guard. *)
From Coq Require Import List NArith ZArith Bool Lia Permutation.
From GoPdf.Base Require Import Bytes Res.
From GoPdf.C01 Require Import Lex Obj Num Names Strings Format Scan Wf
  LexProofs NumProofs NamesProofs StringsProofs FormatProofs ScanProofs.
From GoPdf.C15 Require Import Content State ContentSpec ContentProofs.
Import ListNotations.
Open Scope N_scope.

(* ---- the search for EI ---- *)
Lemma check_ei_prefix b r X Y :
  check_ei ((b :: r) ++ cLF :: 69 :: 73 :: X) = check_ei ((b :: r) ++ cLF :: 69 :: 73 :: Y).
Proof. destruct r as [|c [|e r']]; reflexivity. Qed.

Local Ltac limit_no :=
  match goal with |- context [max_img_bytes <=? ?x] =>
    let E := fresh "E" in
    destruct (max_img_bytes <=? x) eqn:E;
      [apply N.leb_le in E; unfold blen in *; cbn [length] in *; lia|]
  end.

Lemma ei_loop_step acc prev s :
  ei_loop acc prev s =
  if max_img_bytes <=? blen acc then CParse s
  else if ((prev =? cCR) || (prev =? cLF)) && check_ei s then COk (rev (tl acc)) s
  else match s with [] => CStop | b :: r => ei_loop (b :: acc) b r end.
Proof. destruct s; reflexivity. Qed.

Lemma ei_loop_ok rest : forall d acc prev,
  ei_ok prev d = true -> blen acc + blen d + 1 < max_img_bytes ->
  ei_loop acc prev (d ++ cLF :: 69 :: 73 :: cLF :: rest) = COk (rev acc ++ d) (69 :: 73 :: cLF :: rest).
Proof.
  induction d as [|b r IH]; intros acc prev Hok Hlen.
  - cbn [app]. rewrite ei_loop_step. limit_no.
    change (check_ei (cLF :: 69 :: 73 :: cLF :: rest)) with false. rewrite andb_false_r.
    rewrite ei_loop_step. limit_no.
    change ((cLF =? cCR) || (cLF =? cLF)) with true. change (check_ei (69 :: 73 :: cLF :: rest)) with true.
    cbn [andb tl]. rewrite app_nil_r. reflexivity.
  - cbn [ei_ok] in Hok. apply andb_true_iff in Hok as [H1 H2]. apply negb_true_iff in H1.
    cbn [app]. rewrite ei_loop_step. limit_no.
    pose proof (check_ei_prefix b r (cLF :: rest) [cLF]) as Hp. cbn [app] in Hp.
    unfold img_trailer in H1. cbn [app] in H1. unfold bytes, byte in *. rewrite Hp, H1.
    cbn [app]. rewrite IH; [ | exact H2 | unfold blen in *; cbn [length] in *; lia ].
    cbn [rev]. rewrite <- app_assoc. reflexivity.
Qed.

Lemma take_n_app d X : take_n (length d) (d ++ X) = Some (d, X).
Proof. induction d as [|b r IH]; [reflexivity|]. cbn [length app take_n]. rewrite IH. reflexivity. Qed.

(* ---- the dictionary between BI and ID ---- *)
Lemma read_value_eq L f depth s :
  read_value L (S f) depth s =
  match scan_token L s with
  | CParse rest => CParse rest | CStop => CStop | CFuel => CFuel
  | COk tok s1 =>
    match tok with
    | TOp name =>
      if bytes_eqb name [cLB] then
        if max_value_depth <=? depth then CParse s1 else read_value_arr L f (depth + 1) [] s1
      else if bytes_eqb name kw_ltlt then
        if max_value_depth <=? depth then CParse s1
        else
          match read_dict_body L f kw_gtgt (depth + 1) [] s1 with
          | COk d rest => COk (ODict d) rest
          | CParse rest => CParse rest | CStop => CStop | CFuel => CFuel
          end
      else COk (OReal name) s1
    | TObj o => COk o s1
    end
  end.
Proof. reflexivity. Qed.

Lemma read_dict_body_eq L f term depth acc s :
  read_dict_body L (S f) term depth acc s =
  match skip_ws s with
  | Err _ => CStop
  | Ok s1 =>
    if starts_with term s1 then COk acc (drop (length term) s1)
    else
      match read_value L f depth s1 with
      | CParse rest => CParse rest | CStop => CStop | CFuel => CFuel
      | COk k s2 =>
        match k with
        | OName key =>
          match read_value L f depth s2 with
          | CParse rest => CParse rest | CStop => CStop | CFuel => CFuel
          | COk v s3 =>
            if is_null v then read_dict_body L f term depth acc s3
            else if negb (dict_has acc key) && (max_dict L <=? N.of_nat (length acc)) then CParse s3
            else read_dict_body L f term depth (dict_set acc key v) s3
          end
        | _ => CParse s2
        end
      end
  end.
Proof. reflexivity. Qed.

(* a key written raw: regular bytes without "#" *)
Lemma cname_loop_raw : forall k acc tail,
  forallb (fun c => is_regular c && negb (c =? cHASH)) k = true -> follow_ok tail = true ->
  cname_loop acc (k ++ tail) = (rev acc ++ k, tail).
Proof.
  induction k as [|c r IH]; intros acc tail Hk Hf.
  - cbn [app]. rewrite app_nil_r. destruct tail as [|b t]; [reflexivity|].
    cbn [follow_ok] in Hf. cbn [cname_loop]. rewrite Hf. reflexivity.
  - cbn [forallb] in Hk. apply andb_true_iff in Hk as [Hc Hk]. apply andb_true_iff in Hc as [Hr Hh].
    apply negb_true_iff in Hh. cbn [app cname_loop]. rewrite Hr, Hh. cbn [negb].
    rewrite IH by assumption. cbn [rev]. rewrite <- app_assoc. reflexivity.
Qed.

Lemma atom_not_null v : is_atom v = true -> is_atomic v = true /\ is_null (cnorm v) = false /\ ends_reg v = ends_reg v.
Proof. destruct v; try discriminate; auto. Qed.

Lemma image_entries L X : forall es ws acc f,
  limits_ok L = true -> is_lead ws \/ ws = [cLF] ->
  forallb (wf_img_entry L) es = true ->
  NoDup (map fst acc ++ map fst es) -> N.of_nat (length acc + length es) <= max_dict L ->
  (length es + 2 <= f)%nat ->
  read_dict_body L f n_ID 0 acc (ws ++ concat (map fmt_image_entry es) ++ n_ID ++ X)
  = COk (acc ++ map (fun kv => (fst kv, cnorm (snd kv))) es) X.
Proof.
  induction es as [|[k v] r IH]; intros ws acc f HL Hws Hw Hnd Hlen Hf.
  - destruct f as [|f]; [lia|]. rewrite read_dict_body_eq. cbn [map concat app].
    assert (Hsk : skip_ws (ws ++ n_ID ++ X) = Ok (n_ID ++ X)).
    { destruct Hws as [Hws | ->]; [rewrite skip_is_lead by exact Hws | cbn [app]; rewrite skip_ws_lf];
        cbn [n_ID app]; apply skip_ws_stop; reflexivity. }
    rewrite Hsk. rewrite starts_with_app. rewrite drop_app. rewrite app_nil_r. reflexivity.
  - destruct f as [|[|f]]; try (cbn [length] in Hf; lia).
    cbn [forallb] in Hw. apply andb_true_iff in Hw as [Hkv Hw].
    unfold wf_img_entry in Hkv. cbn [fst snd] in Hkv.
    apply andb_true_iff in Hkv as [Hkv Hwv]. apply andb_true_iff in Hkv as [Hkey Hat].
    unfold wf_img_key in Hkey. apply andb_true_iff in Hkey as [Hkey Hkl]. apply andb_true_iff in Hkey as [_ Hkr].
    apply N.leb_le in Hkl.
    destruct (atom_not_null v Hat) as (Hatomic & Hnn & _).
    destruct (limits_ok_facts L HL) as [Hn5 _].
    assert (Hlen' : N.of_nat (length (acc ++ [(k, cnorm v)]) + length r) <= max_dict L)
      by (rewrite app_length; cbn [length] in *; lia).
    assert (Hlen1 : N.of_nat (length acc) < max_dict L) by (cbn [length] in Hlen; lia).
    assert (Hf' : (length r + 2 <= S f)%nat) by (cbn [length] in Hf; lia).
    cbn [map concat]. unfold fmt_image_entry at 1. cbn [fst snd].
    assert (Hvn : is_null v = false) by (destruct v; try discriminate; reflexivity). rewrite Hvn.
    rewrite <- !app_assoc. cbn [app].
    rewrite read_dict_body_eq.
    assert (Hsk : forall Y, skip_ws (ws ++ cSLASH :: Y) = Ok (cSLASH :: Y)).
    { intro Y. destruct Hws as [Hws | ->]; [rewrite skip_is_lead by exact Hws | cbn [app]; rewrite skip_ws_lf];
        apply skip_ws_stop; reflexivity. }
    rewrite Hsk. change (starts_with n_ID (cSLASH :: ?y)) with false. cbn iota.
    (* the key *)
    rewrite read_value_eq.
    assert (Hkeytok : forall Y, follow_ok Y = true ->
              scan_token L (cSLASH :: k ++ Y) = COk (TObj (OName k)) Y).
    { intros Y HY. unfold scan_token. rewrite skip_ws_stop by reflexivity.
      change (cSLASH =? cSLASH) with true. cbn iota. unfold cread_name.
      rewrite cname_loop_raw by assumption. cbn [rev app].
      replace (max_name L <? blen k) with false by (symmetry; apply N.ltb_ge; exact Hkl). reflexivity. }
    rewrite Hkeytok by reflexivity.
    (* the value *)
    rewrite read_value_eq.
    pose proof (atom_token L 0 v [cSP] (cLF :: concat (map fmt_image_entry r) ++ n_ID ++ X) HL Hatomic Hwv
                  (or_intror eq_refl) (fun _ => eq_refl)) as Hval.
    unfold fmt_operand. fold (body false v). cbn [app] in Hval.
    unfold bytes, byte in *. rewrite Hval.
    assert (Hobj : match cnorm v with OReal _ | _ => True end) by (destruct (cnorm v); exact I).
    rewrite Hnn.
    assert (Hfresh : dict_has acc k = false).
    { destruct (dict_has acc k) eqn:E; [|reflexivity]. exfalso.
      apply dict_has_in in E. cbn [map fst] in Hnd. apply NoDup_remove_2 in Hnd.
      apply Hnd. apply in_or_app. left. exact E. }
    rewrite Hfresh. cbn [negb andb].
    replace (max_dict L <=? N.of_nat (length acc)) with false
      by (symmetry; apply N.leb_gt; exact Hlen1).
    rewrite dict_set_fresh by exact Hfresh.
    change (cLF :: concat (map fmt_image_entry r) ++ n_ID ++ X)
      with ([cLF] ++ concat (map fmt_image_entry r) ++ n_ID ++ X).
    rewrite IH; [ | exact HL | right; reflexivity | exact Hw
                  | rewrite map_app; cbn [map fst]; rewrite <- app_assoc; exact Hnd
                  | exact Hlen' | exact Hf' ].
    cbn [map fst snd]. rewrite <- app_assoc. reflexivity.
Qed.

(* ---- sort_lex is a permutation ---- *)
Lemma insert_lex_perm {A} (e : bytes * A) l : Permutation (insert_lex e l) (e :: l).
Proof.
  induction l as [|x r IH]; cbn [insert_lex]; [reflexivity|].
  destruct (bytes_ltb (fst x) (fst e)); [|reflexivity]. rewrite IH. apply perm_swap.
Qed.
Lemma sort_lex_perm {A} (l : list (bytes * A)) : Permutation (sort_lex l) l.
Proof.
  induction l as [|e r IH]; cbn [sort_lex]; [reflexivity|]. rewrite insert_lex_perm. constructor. exact IH.
Qed.

Lemma image_text d data :
  op_format (image_op d data) =
  n_BI ++ cLF :: concat (map fmt_image_entry (sort_lex d)) ++ n_ID ++ cLF :: data ++ cLF :: 69 :: 73 :: [cLF].
Proof.
  unfold op_format, image_op. cbn [op_name op_args].
  change (bytes_eqb n_image n_raw) with false. change (bytes_eqb n_image n_image) with true. cbn iota.
  cbn [n_EI app]. rewrite <- ?app_assoc. reflexivity.
Qed.

Lemma image_text_rest d data rest :
  op_format (image_op d data) ++ rest =
  66 :: 73 :: cLF :: concat (map fmt_image_entry (sort_lex d)) ++ n_ID ++ cLF :: data ++ cLF :: 69 :: 73 :: cLF :: rest.
Proof.
  rewrite image_text. cbn [n_BI app]. do 3 f_equal. rewrite <- !app_assoc. do 2 f_equal.
  cbn [app]. f_equal. rewrite <- !app_assoc. reflexivity.
Qed.

Lemma entries_len d : (length d <= length (concat (map fmt_image_entry d)))%nat.
Proof.
  induction d as [|kv r IH]; [cbn; lia|]. cbn [map concat length]. rewrite app_length.
  unfold fmt_image_entry at 1. rewrite !app_length. cbn [length]. lia.
Qed.

Theorem cscan_one_image L sp d data rest :
  limits_ok L = true -> all_space sp = true -> wf_image L d data = true ->
  cscan_one L (sp ++ op_format (image_op d data) ++ rest)
  = COk (image_op (scanned_dict d) data) (cLF :: rest).
Proof.
  intros HL Hsp Hw. destruct (limits_ok_facts L HL) as [Hn5 _].
  unfold wf_image in Hw. apply andb_true_iff in Hw as [Hw Hguard]. apply andb_true_iff in Hw as [Hw Hcnt].
  apply andb_true_iff in Hw as [Hnd Hall]. apply N.leb_le in Hcnt. cbv zeta in Hguard.
  apply andb_true_iff in Hguard as [Hguard Hlenb]. apply andb_true_iff in Hguard as [Hguard Hasc].
  apply andb_true_iff in Hguard as [Hguard Hpix]. apply andb_true_iff in Hguard as [Hguard Hh2].
  apply andb_true_iff in Hguard as [Hguard Hw2]. apply andb_true_iff in Hguard as [Hw1 Hh1].
  apply negb_true_iff in Hasc.
  apply Z.ltb_lt in Hw1, Hh1. apply Z.leb_le in Hw2, Hh2, Hpix.
  set (es := sort_lex d).
  assert (Hperm : Permutation es d) by apply sort_lex_perm.
  assert (Halles : forallb (wf_img_entry L) es = true).
  { apply forallb_forall. intros x Hx. rewrite forallb_forall in Hall. apply Hall.
    apply (Permutation_in _ Hperm). exact Hx. }
  assert (Hndes : NoDup (map fst es)).
  { apply (Permutation_NoDup (l := map fst d)); [apply Permutation_map; symmetry; exact Hperm|].
    apply nodup_keys_NoDup. exact Hnd. }
  assert (Hleses : length es = length d) by (apply Permutation_length; exact Hperm).
  assert (Hlen0 : N.of_nat (length (@nil (bytes * obj)) + length es) <= max_dict L)
    by (cbn [length]; rewrite Hleses; exact Hcnt).
  assert (Hfuel0 : forall Y0, (length es + 2 <= value_fuel ([cLF] ++ concat (map fmt_image_entry es) ++ n_ID ++ Y0))%nat).
  { intro Y0. unfold value_fuel. rewrite !app_length. pose proof (entries_len es). cbn [length]. lia. }
  rewrite image_text_rest. fold es.
  (* Scan: not a comment *)
  unfold cscan_one. rewrite skip_sp_app by (auto; reflexivity).
  change (66 =? cPCT) with false. cbn iota.
  (* the BI token *)
  rewrite cloop_eq.
  set (Y := cLF :: data ++ cLF :: 69 :: 73 :: cLF :: rest).
  set (X := cLF :: concat (map fmt_image_entry es) ++ n_ID ++ Y).
  assert (Htok : scan_token L (66 :: 73 :: X) = COk (TOp n_BI) X).
  { apply (scan_token_regular L [] n_BI X 66 [73]); try reflexivity; [left; reflexivity | cbn; lia]. }
  unfold bytes, byte in *. rewrite Htok.
  change (bytes_eqb n_BI kw_ltlt) with false. change (bytes_eqb n_BI kw_gtgt) with false.
  change (bytes_eqb n_BI [cLB]) with false. change (bytes_eqb n_BI [cRB]) with false. cbn iota.
  unfold deliver. change (max_args <=? N.of_nat (length (@nil obj))) with false.
  change (bytes_eqb n_BI n_BI) with true. cbn iota.
  (* the dictionary *)
  unfold read_inline_image.
  assert (Hdict : read_dict_body L (value_fuel X) n_ID 0 [] X = COk (scanned_dict d) Y).
  { subst X. change (cLF :: concat (map fmt_image_entry es) ++ n_ID ++ Y)
      with ([cLF] ++ concat (map fmt_image_entry es) ++ n_ID ++ Y).
    rewrite (image_entries L Y es [cLF] [] _ HL (or_intror eq_refl) Halles);
      [reflexivity | exact Hndes | exact Hlen0 | apply Hfuel0 ]. }
  rewrite Hdict. fold (scanned_dict d) in *.
  set (sd := scanned_dict d) in *.
  replace ((img_int sd k_W k_Width <=? 0)%Z) with false by (symmetry; apply Z.leb_gt; exact Hw1).
  replace ((img_int sd k_H k_Height <=? 0)%Z) with false by (symmetry; apply Z.leb_gt; exact Hh1).
  replace ((max_img_dim <? img_int sd k_W k_Width)%Z) with false by (symmetry; apply Z.ltb_ge; exact Hw2).
  replace ((max_img_dim <? img_int sd k_H k_Height)%Z) with false by (symmetry; apply Z.ltb_ge; exact Hh2).
  cbn [orb].
  replace ((max_img_pixels <? img_int sd k_W k_Width * img_int sd k_H k_Height)%Z) with false
    by (symmetry; apply Z.ltb_ge; exact Hpix).
  (* the byte after ID, no ASCII filter *)
  subst Y. change (is_space cLF) with true. cbn iota. rewrite Hasc.
  (* the data, EI and the byte after it *)
  replace (is_space cLF) with true by reflexivity. cbn iota.
  destruct (0 <? img_int sd k_L k_Length)%Z eqn:El.
  - apply andb_true_iff in Hlenb as [He Hmax]. apply Z.eqb_eq in He. apply Z.leb_le in Hmax.
    replace ((Z.of_N max_img_bytes <? img_int sd k_L k_Length)%Z) with false by (symmetry; apply Z.ltb_ge; exact Hmax).
    rewrite He, Nat2Z.id, take_n_app. rewrite skip_ws_lf. rewrite skip_ws_stop by reflexivity.
    cbn [n_EI starts_with]. change (69 =? 69) with true. change (73 =? 73) with true. cbn [andb drop].
    change (is_regular cLF) with false. cbn iota. reflexivity.
  - apply andb_true_iff in Hlenb as [Hei Hmax]. apply N.ltb_lt in Hmax.
    rewrite ei_loop_ok; [ | exact Hei | rewrite blen_nil; lia].
    cbn [n_EI starts_with rev app]. change (69 =? 69) with true. change (73 =? 73) with true. cbn [andb drop].
    change (is_regular cLF) with false. cbn iota. reflexivity.
Qed.

(* ================= the whole stream, inline images included ================= *)
Definition reads (L : limits) (op expected : cop) : Prop :=
  forall sp rest, all_space sp = true ->
    cscan_one L (sp ++ op_format op ++ rest) = COk expected (cLF :: rest).

Lemma op_reads_reads L op e : limits_ok L = true -> op_reads L op e -> reads L op e.
Proof.
  intros HL [[Hw ->] | (d & data & -> & Hw & ->)] sp rest Hsp.
  - apply cscan_one_op; assumption.
  - apply cscan_one_image; assumption.
Qed.

Lemma reads_nonempty L op e : reads L op e -> (1 <= length (op_format op))%nat.
Proof.
  intro H. specialize (H [] [] eq_refl). cbn [app] in H. rewrite app_nil_r in H.
  destruct (op_format op); [discriminate | cbn [length]; lia].
Qed.

Lemma pump_gen L : forall ops exps sp tail f r,
  Forall2 (reads L) ops exps -> all_space sp = true ->
  cscan_fuel L f tail = Some r ->
  cscan_fuel L (length ops + f) (sp ++ cformat ops ++ tail) = Some (exps ++ r).
Proof.
  induction ops as [|op ops IH]; intros exps sp tail f r HF Hsp Ht.
  - inversion HF; subst. cbn [cformat map concat app length]. rewrite cscan_fuel_skip by exact Hsp. exact Ht.
  - inversion HF as [|? e ? exps' Hop HF']; subst.
    unfold cformat. cbn [map concat length]. fold (cformat ops). rewrite <- !app_assoc.
    cbn [Nat.add cscan_fuel]. rewrite (Hop sp _ Hsp).
    pose proof (IH exps' [cLF] tail f r HF' eq_refl Ht) as Hrec.
    cbn [app] in Hrec. unfold bytes, byte in *. rewrite Hrec. reflexivity.
Qed.

Lemma cformat_len_gen L ops exps : Forall2 (reads L) ops exps -> (length ops <= length (cformat ops))%nat.
Proof.
  induction 1 as [|op e ops exps Hop HF IH]; [cbn; lia|].
  unfold cformat. cbn [map concat length]. fold (cformat ops). rewrite app_length.
  pose proof (reads_nonempty L op e Hop). unfold bytes, byte in *. lia.
Qed.

Theorem cscan_format_gen L ops exps :
  limits_ok L = true -> Forall2 (op_reads L) ops exps ->
  cscan L (cformat ops) = Some exps.
Proof.
  intros HL HF.
  assert (HR : Forall2 (reads L) ops exps).
  { induction HF; constructor; auto. apply op_reads_reads; assumption. }
  unfold cscan. pose proof (cformat_len_gen L ops exps HR) as Hlen.
  destruct (Nat.le_exists_sub _ _ Hlen) as (f0 & Ef & _).
  replace (S (length (cformat ops))) with (length ops + S f0)%nat by lia.
  pose proof (pump_gen L ops exps [] [] (S f0) [] HR eq_refl eq_refl) as H.
  cbn [app] in H. rewrite !app_nil_r in H. exact H.
Qed.

Theorem split_gen L ops1 exps1 ops2 exps2 :
  limits_ok L = true -> Forall2 (op_reads L) ops1 exps1 -> Forall2 (op_reads L) ops2 exps2 ->
  cscan L (cformat ops1 ++ [cLF] ++ cformat ops2) = Some (exps1 ++ exps2).
Proof.
  intros HL HF1 HF2.
  assert (HR1 : Forall2 (reads L) ops1 exps1) by (induction HF1; constructor; auto; apply op_reads_reads; assumption).
  assert (HR2 : Forall2 (reads L) ops2 exps2) by (induction HF2; constructor; auto; apply op_reads_reads; assumption).
  unfold cscan.
  pose proof (cformat_len_gen L ops1 exps1 HR1) as Hl1. pose proof (cformat_len_gen L ops2 exps2 HR2) as Hl2.
  set (n := length (cformat ops1 ++ [cLF] ++ cformat ops2)).
  assert (Hn : (length ops1 + (length ops2 + 2) <= S n)%nat)
    by (subst n; rewrite !app_length; cbn [length]; unfold bytes, byte in *; lia).
  destruct (Nat.le_exists_sub _ _ Hn) as (f0 & Ef & _). rewrite Ef.
  replace (f0 + (length ops1 + (length ops2 + 2)))%nat with (length ops1 + (length ops2 + S (S f0)))%nat by lia.
  assert (Hsecond : cscan_fuel L (length ops2 + S (S f0)) ([cLF] ++ cformat ops2) = Some exps2).
  { pose proof (pump_gen L ops2 exps2 [cLF] [] (S (S f0)) [] HR2 eq_refl eq_refl) as H.
    rewrite !app_nil_r in H. exact H. }
  pose proof (pump_gen L ops1 exps1 [] ([cLF] ++ cformat ops2) _ _ HR1 eq_refl Hsecond) as H.
  cbn [app] in H |- *. exact H.
Qed.

(* the inline image alone *)
Theorem inline_rt_lemma L d data :
  limits_ok L = true -> wf_image L d data = true ->
  cscan L (op_format (image_op d data)) = Some [image_op (scanned_dict d) data].
Proof.
  intros HL Hw.
  pose proof (cscan_format_gen L [image_op d data] [image_op (scanned_dict d) data] HL) as H.
  unfold cformat in H. cbn [map concat] in H. rewrite app_nil_r in H. apply H.
  constructor; [|constructor]. right. exists d, data. auto.
Qed.

(* F9: without the guard the statement is false *)
Definition f9_dict : list (bytes * obj) := [(k_W, OInt 1); (k_H, OInt 1)].
Definition f9_data : bytes := [97; cLF; 69; 73; cSP; 98].
Lemma inline_rt_refuted_lemma :
  dict_get2 f9_dict k_L k_Length = None /\
  ei_ok 0 f9_data = false /\
  cscan cstd_limits (op_format (image_op f9_dict f9_data))
  = Some [image_op (scanned_dict f9_dict) [97]; mkOp [98] []; mkOp n_EI []].
Proof. repeat split; vm_compute; reflexivity. Qed.

Lemma inline_rt_refuted_stmt : exists d data,
  dict_get2 d k_L k_Length = None /\
  cscan cstd_limits (op_format (image_op d data)) <> Some [image_op (scanned_dict d) data].
Proof.
  exists f9_dict, f9_data. destruct inline_rt_refuted_lemma as (H1 & _ & H3).
  split; [exact H1|]. rewrite H3. discriminate.
Qed.
