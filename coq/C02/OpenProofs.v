(* C02: the model reader's [open] on the bytes the model writer produced
   succeeds and recovers the cross-reference map the writer serialised. *)
From Coq Require Import List NArith ZArith Bool Lia.
From Coq Require Decimal DecimalN DecimalPos DecimalFacts.
From GoPdf.Base Require Import Bytes Res.
From GoPdf.Gen Require Import Gen_Consts Gen_Limits.
From GoPdf.C02 Require Import Obj Dec Syntax Writer Reader WriterProofs LayoutProofs ReaderProofs.
Import ListNotations.
Open Scope N_scope.

(* ---- decimal text: digits only, and how many ---- *)
Lemma uint_bytes_digits u : forallb is_digit (uint_bytes u) = true.
Proof. induction u; cbn [uint_bytes forallb]; try exact IHu; reflexivity. Qed.

Lemma dec_digits n : forallb is_digit (dec n) = true.
Proof. apply uint_bytes_digits. Qed.

Lemma uint_bytes_length u : length (uint_bytes u) = Decimal.nb_digits u.
Proof. induction u; cbn [uint_bytes length Decimal.nb_digits]; congruence. Qed.

Lemma of_uint_acc_ge l : forall acc,
  (Npos acc * 10 ^ N.of_nat (Decimal.nb_digits l) <= Npos (Pos.of_uint_acc l acc)).
Proof.
  induction l; intros acc; cbn [Pos.of_uint_acc Decimal.nb_digits];
    try (rewrite Nat2N.inj_succ, N.pow_succ_r';
         match goal with |- _ <= N.pos (Pos.of_uint_acc _ ?a) => specialize (IHl a) end;
         set (p := 10 ^ N.of_nat (Decimal.nb_digits l)) in *; nia).
  cbn. lia.
Qed.

(* a number whose text has no leading zero is at least 10^(digits-1) *)
Lemma of_uint_ge d :
  Decimal.nzhead d <> Decimal.Nil -> 10 ^ N.of_nat (Decimal.nb_digits (Decimal.nzhead d) - 1) <= N.of_uint d.
Proof.
  unfold N.of_uint.
  induction d; intros H; cbn [Decimal.nzhead] in *; try contradiction; try (apply IHd; exact H);
    cbn [Pos.of_uint Decimal.nb_digits]; rewrite Nat.sub_succ, Nat.sub_0_r;
    (etransitivity; [|apply of_uint_acc_ge]); nia.
Qed.

Lemma dec_length_bound n w : n < 10 ^ N.of_nat w -> (0 < w)%nat -> (length (dec n) <= w)%nat.
Proof.
  intros Hn Hw. unfold dec. rewrite uint_bytes_length.
  set (d := N.to_uint n).
  assert (E : d = Decimal.unorm d).
  { unfold d. rewrite <- (DecimalN.Unsigned.of_to n) at 1. apply DecimalN.Unsigned.to_of. }
  assert (V : N.of_uint d = n) by apply DecimalN.Unsigned.of_to.
  destruct (Decimal.uint_eq_dec (Decimal.nzhead d) Decimal.Nil) as [Z|NZ].
  - unfold Decimal.unorm in E. rewrite Z in E. rewrite E. cbn. lia.
  - pose proof (of_uint_ge d NZ) as G. rewrite V in G.
    rewrite (DecimalFacts.unorm_nzhead d NZ) in E. rewrite <- E in G.
    destruct (Nat.le_gt_cases (Decimal.nb_digits d) w) as [L|L]; [exact L|exfalso].
    assert (10 ^ N.of_nat w <= 10 ^ N.of_nat (Decimal.nb_digits d - 1)) by (apply N.pow_le_mono_r; lia).
    lia.
Qed.

Lemma dec_length_10 n : n < 10000000000 -> (length (dec n) <= 10)%nat.
Proof. intros H. apply (dec_length_bound n 10); [exact H | lia]. Qed.

Lemma dec_length_5 n : n <= 65535 -> (length (dec n) <= 5)%nat.
Proof. intros H. apply (dec_length_bound n 5); [change (10 ^ N.of_nat 5) with 100000; lia | lia]. Qed.

(* ---- searching ---- *)
Lemma find_first_here (pat s : bytes) i f :
  s <> [] -> prefixb pat s = true -> find_first pat s i (S f) = Some i.
Proof. intros Hs H. destruct s; [contradiction|]. cbn [find_first]. rewrite H. reflexivity. Qed.

Lemma prefixb_head_ne p0 (p : bytes) y (s : bytes) : y <> p0 -> prefixb (p0 :: p) (y :: s) = false.
Proof.
  intros H. cbn [prefixb]. destruct (p0 =? y) eqn:E; [apply N.eqb_eq in E; congruence | reflexivity].
Qed.

Lemma find_last_nohead p0 (p r : bytes) : forall j b,
  Forall (fun y => y <> p0) r -> find_last (p0 :: p) r j b = b.
Proof.
  induction r as [|y r IH]; intros j b H; [reflexivity|]. inversion H; subst.
  cbn [find_last]. rewrite prefixb_head_ne by assumption. apply IH; assumption.
Qed.

Lemma find_last_skip (pat a : bytes) : forall (s : bytes) i b,
  exists b', find_last pat (a ++ s) i b = find_last pat s (i + N.of_nat (length a)) b'.
Proof.
  induction a as [|x a IH]; intros s i b.
  - exists b. cbn. rewrite N.add_0_r. reflexivity.
  - rewrite <- app_comm_cons. cbn [find_last].
    destruct (IH s (i + 1) (if prefixb pat (x :: a ++ s) then Some i else b)) as [b' E].
    exists b'. rewrite E. f_equal. unfold bytes, byte in *. cbn [length]. rewrite Nat2N.inj_succ. lia.
Qed.

(* the last occurrence: nothing after it starts with the first byte of the pattern *)
Lemma find_last_at p0 (p a r : bytes) i b :
  Forall (fun y => y <> p0) (p ++ r) ->
  find_last (p0 :: p) (a ++ (p0 :: p) ++ r) i b = Some (i + N.of_nat (length a)).
Proof.
  intros H. destruct (find_last_skip (p0 :: p) a ((p0 :: p) ++ r) i b) as [b' E]. rewrite E.
  pose proof (prefixb_app (p0 :: p) r) as P.
  rewrite <- app_comm_cons in *. cbn [find_last]. rewrite P.
  apply find_last_nohead. exact H.
Qed.

Lemma digits_not (k : N) (s : bytes) :
  is_digit k = false -> forallb is_digit s = true -> Forall (fun y => y <> k) s.
Proof.
  intros Hk H. induction s as [|y s IH]; constructor; cbn [forallb] in H; apply andb_true_iff in H as [H1 H2].
  - intros ->. congruence.
  - apply IH. exact H2.
Qed.

(* ---- the fixed-width fields of a table line ---- *)
Lemma pad0_length w (s : bytes) : (length s <= w)%nat -> length (pad0 w s) = w.
Proof. intros H. unfold pad0. unfold bytes, byte in *. rewrite app_length, repeat_length. lia. Qed.

Lemma pad0_digits w (s : bytes) : forallb is_digit s = true -> forallb is_digit (pad0 w s) = true.
Proof.
  intros H. unfold pad0. unfold bytes, byte in *. rewrite forallb_app, H, andb_true_r.
  induction (w - length s)%nat; cbn [repeat forallb]; [reflexivity|]. rewrite IHn. reflexivity.
Qed.

Lemma all_digits_pad0 w (s : bytes) :
  (0 < w)%nat -> (length s <= w)%nat -> forallb is_digit s = true -> all_digits (pad0 w s) = true.
Proof.
  intros Hw Hl Hd. unfold all_digits. unfold bytes, byte in *. rewrite pad0_length, pad0_digits by assumption.
  destruct w; [lia | reflexivity].
Qed.

Lemma read_digits_zeros k (s : bytes) :
  read_digits (repeat 48 k ++ s) = (Nat.iter k Decimal.D0 (fst (read_digits s)), snd (read_digits s)).
Proof.
  induction k.
  - change (repeat 48 0 ++ s) with s. destruct (read_digits s); reflexivity.
  - change (repeat 48 (S k) ++ s) with (48 :: (repeat 48 k ++ s)). cbn [read_digits Nat.iter].
    change (is_digit 48) with true. cbv iota. rewrite IHk. reflexivity.
Qed.

Lemma of_uint_iter_D0 k u : N.of_uint (Nat.iter k Decimal.D0 u) = N.of_uint u.
Proof. induction k; [reflexivity|]. cbn [Nat.iter]. exact IHk. Qed.

Lemma read_pad0_dec w n : N.of_uint (fst (read_digits (pad0 w (dec n)))) = n.
Proof.
  unfold pad0. rewrite read_digits_zeros. cbn [fst]. rewrite of_uint_iter_D0. unfold dec.
  rewrite <- (app_nil_r (uint_bytes (N.to_uint n))), read_digits_uint by exact I.
  apply DecimalN.Unsigned.of_to.
Qed.

Lemma line_facts (A B : bytes) t : length A = 10%nat -> length B = 5%nat ->
  let L := A ++ SP :: B ++ [SP; t; CR; LF] in
  length L = 20%nat /\ firstn 10 L = A /\ firstn 5 (skipn 11 L) = B /\ nth 19 L 0 = LF /\ nth 17 L 0 = t.
Proof.
  intros HA HB.
  destruct A as [|a0 [|a1 [|a2 [|a3 [|a4 [|a5 [|a6 [|a7 [|a8 [|a9 [|a10 A]]]]]]]]]]]; try discriminate.
  destruct B as [|b0 [|b1 [|b2 [|b3 [|b4 [|b5 B]]]]]]; try discriminate.
  cbn. repeat split; reflexivity.
Qed.

Lemma table_lines_AB k i (A B : bytes) t (r : bytes) x :
  length A = 10%nat -> length B = 5%nat -> all_digits A = true -> all_digits B = true ->
  table_lines (S k) i ((A ++ SP :: B ++ [SP; t; CR; LF]) ++ r) x =
    let off := N.of_uint (fst (read_digits A)) in
    let gen := N.of_uint (fst (read_digits B)) in
    match t with
    | 102 => if gen <=? 65535 then table_lines k (i + 1) r (merge_entry x i (EFree gen)) else None
    | 110 => if gen <=? 65535 then table_lines k (i + 1) r (merge_entry x i (EUse off gen)) else None
    | _ => None
    end.
Proof.
  intros HA HB DA DB. destruct (line_facts A B t HA HB) as [F1 [F2 [F3 [F4 F5]]]].
  unfold bytes, byte in *.
  pose proof (firstn_app_all (A ++ SP :: B ++ [SP; t; CR; LF]) r) as E1.
  pose proof (skipn_all_app (A ++ SP :: B ++ [SP; t; CR; LF]) r) as E2.
  unfold bytes, byte in *. rewrite F1 in E1, E2.
  cbn [table_lines]. unfold bytes, byte in *. rewrite E1, F1, F2, F3, F4, F5, DA, DB. cbn [Nat.eqb negb andb]. unfold LF in E2 |- *. rewrite E2.
  reflexivity.
Qed.

(* what the reader makes of a line *)
Definition rd (e : option entry) : entry :=
  match e with Some (EUse off g) => EUse off g | _ => EFree 65535 end.
Definition line_ok (e : option entry) : Prop :=
  match e with Some (EUse off g) => off < 10000000000 /\ g <= 65535 | _ => True end.

Lemma table_lines_line k i e (r : bytes) x : line_ok e ->
  table_lines (S k) i (xref_line e ++ r) x = table_lines k (i + 1) r (merge_entry x i (rd e)).
Proof.
  intros H.
  assert (Free : table_lines (S k) i ((pad0 10 [] ++ SP :: dec 65535 ++ [SP; 102; CR; LF]) ++ r) x =
                 table_lines k (i + 1) r (merge_entry x i (EFree 65535))).
  { rewrite table_lines_AB; reflexivity. }
  destruct e as [[g|off g|s j]|]; try exact Free.
  destruct H as [Ho Hg]. cbn [xref_line rd].
  rewrite table_lines_AB.
  - cbv zeta. rewrite !read_pad0_dec. replace (g <=? 65535) with true by (symmetry; apply N.leb_le; exact Hg).
    reflexivity.
  - apply pad0_length, dec_length_10, Ho.
  - apply pad0_length, dec_length_5, Hg.
  - apply all_digits_pad0; [lia | apply dec_length_10, Ho | apply dec_digits].
  - apply all_digits_pad0; [lia | apply dec_length_5, Hg | apply dec_digits].
Qed.

Lemma table_lines_all xw : forall k i (r : bytes) acc,
  (forall j, i <= j -> xlookup j acc = None) ->
  (forall j, line_ok (xlookup j xw)) ->
  table_lines k i (flat_map (fun j => xref_line (xlookup j xw)) (seqN i k) ++ r) acc =
    Some (acc ++ map (fun j => (j, rd (xlookup j xw))) (seqN i k), r).
Proof.
  induction k; intros i r acc Hacc Hok.
  - cbn. rewrite app_nil_r. reflexivity.
  - cbn [seqN flat_map map]. unfold bytes, byte in *. rewrite <- app_assoc.
    rewrite table_lines_line by apply Hok. unfold merge_entry. rewrite Hacc by lia.
    rewrite IHk.
    + rewrite <- app_assoc. reflexivity.
    + intros j Hj. rewrite xlookup_app, Hacc by lia. cbn [xlookup].
      destruct (j =? i) eqn:E; [apply N.eqb_eq in E; lia | reflexivity].
    + exact Hok.
Qed.

Lemma xlookup_map_seqN (f : N -> entry) k : forall i n,
  xlookup n (map (fun j => (j, f j)) (seqN i k)) =
    if (i <=? n) && (n <? i + N.of_nat k) then Some (f n) else None.
Proof.
  induction k; intros i n.
  - cbn [seqN map xlookup]. destruct (i <=? n) eqn:A; [|reflexivity].
    replace (n <? i + N.of_nat 0) with false; [reflexivity|]. symmetry. apply N.ltb_ge. apply N.leb_le in A. lia.
  - cbn [seqN map xlookup]. rewrite IHk. destruct (n =? i) eqn:E.
    + apply N.eqb_eq in E. subst n. rewrite N.leb_refl.
      replace (i <? i + N.of_nat (S k)) with true by (symmetry; apply N.ltb_lt; lia). reflexivity.
    + apply N.eqb_neq in E.
      destruct (i + 1 <=? n) eqn:A, (i <=? n) eqn:B; try (apply N.leb_le in A); try (apply N.leb_le in B);
        try (apply N.leb_gt in A); try (apply N.leb_gt in B); try lia; cbn [andb]; [|reflexivity].
      replace (i + 1 + N.of_nat k) with (i + N.of_nat (S k)) by lia. reflexivity.
Qed.

(* ---- keys of a normal form ---- *)
Definition nokey (k : bytes) (l : dict) : Prop := forall k' v, In (k', v) l -> bytes_eqb k k' = false.

Lemma nokey_get k l : nokey k l -> dict_get k l = None.
Proof.
  induction l as [|[k' v] l IH]; intros H; [reflexivity|]. cbn [dict_get].
  rewrite (H k' v) by (left; reflexivity). apply IH. intros k2 v2 Hin. apply (H k2 v2). right. exact Hin.
Qed.

Lemma nokey_insert k k1 v1 l : bytes_eqb k k1 = false -> nokey k l -> nokey k (dict_insert k1 v1 l).
Proof.
  intros Hk. induction l as [|[k' v'] l IH]; intros H k2 v2 Hin; cbn [dict_insert] in Hin.
  - destruct Hin as [E|[]]. injection E as <- <-. exact Hk.
  - destruct (bytes_ltb k1 k').
    + destruct Hin as [E|Hin]; [injection E as <- <-; exact Hk | exact (H _ _ Hin)].
    + destruct (bytes_eqb k1 k').
      * destruct Hin as [E|Hin]; [injection E as <- <-; exact Hk | apply (H k2 v2); right; exact Hin].
      * destruct Hin as [E|Hin]; [injection E as <- <-; apply (H k' v'); left; reflexivity|].
        apply (IH (fun a b Hab => H a b (or_intror Hab)) _ _ Hin).
Qed.

Lemma nokey_sort k l : nokey k l -> nokey k (dict_sort l).
Proof.
  induction l as [|[k' v'] l IH]; intros H; [exact H|]. cbn [dict_sort].
  apply nokey_insert; [apply (H k' v'); left; reflexivity|].
  apply IH. intros a b Hab. apply (H a b). right. exact Hab.
Qed.

Lemma nokey_norm k l :
  nokey k l ->
  dict_get k (match norm (ODict l) with ODict d => d | _ => [] end) = None.
Proof.
  intros H. cbn [norm]. apply nokey_get, nokey_sort.
  intros k' v Hin. apply filter_In in Hin as [Hin _]. apply in_map_iff in Hin as [[k2 v2] [E Hin]].
  injection E as <- <-. exact (H _ _ Hin).
Qed.

Lemma alloc_next st r st' :
  alloc st = Ok (r, st') -> r = nextRef st /\ nextRef st' = nextRef st + 1 /\ (Z.of_N (nextRef st) < maxXRefSize)%Z.
Proof.
  unfold alloc. destruct (_ >=? _)%Z eqn:E; [discriminate|]. intros H; injection H as <- <-. cbn.
  repeat split. rewrite Z.geb_leb in E. apply Z.leb_gt in E. exact E.
Qed.

Section Open.
  Variable fmt : obj -> bytes.
  Variable fmt_sd : dict -> lenrep -> bytes.
  Variable parse : bytes -> option (obj * bytes).
  Variables encS decS encB decB : N -> N -> bytes -> bytes.
  Variable fenc : bytes -> dict -> bytes -> bytes.
  Variable fdec : bytes -> dict -> bytes -> option bytes.
  Variable deflate : bytes -> bytes.
  Variable c : cfg.

  Notation run := (run fmt fmt_sd encS encB fenc deflate c).
  Notation run_from := (run_from fmt fmt_sd encS encB fenc deflate c).
  Notation step := (step fmt fmt_sd encS encB fenc deflate c).
  Notation close := (close fmt fmt_sd encS deflate c).
  Notation put_obj := (put_obj fmt encS c).
  Notation SInv := (SInv fmt fmt_sd encS encB fenc c).
  Notation Inv := (Inv fmt fmt_sd encS encB fenc c).
  Notation Final := (Final fmt fmt_sd encS encB fenc c).

  (* ---- T1: the shape of a closed file ---- *)
  Definition header : bytes :=
    kw_pdf ++ version_text (cv c) ++ [LF; 37; 128; 128; 128; 128; LF] ++ nl c.

  Definition tail (xp : N) : bytes := kw_startxref ++ LF :: dec xp ++ LF :: kw_eof ++ [LF].

  Definition table_section (x : list (N * entry)) (size : N) (tr : dict) : bytes :=
    kw_xref ++ LF :: 48 :: SP :: dec size ++ LF ::
    flat_map (fun i => xref_line (xlookup i x)) (seqN 0 (N.to_nat size)) ++
    kw_trailer ++ LF :: fmt (ODict tr) ++ [LF].

  (* the cross-reference stream of [size] entries, written as object [r] *)
  Definition xs_w2 (x : list (N * entry)) (size : N) : N :=
    width_of (fold_left N.max
      (map fst (map (fun i => fields_for_width (xlookup i x)) (seqN 0 (N.to_nat size)))) 0).
  Definition xs_w3 (x : list (N * entry)) (size : N) : N :=
    width_of (fold_left N.max
      (map snd (map (fun i => fields_for_width (xlookup i x)) (seqN 0 (N.to_nat size)))) 0).
  Definition xs_cols x size : N := 1 + xs_w2 x size + xs_w3 x size.
  Definition xs_rows x size : list bytes :=
    xref_rows x size (N.to_nat (xs_w2 x size)) (N.to_nat (xs_w3 x size)).
  Definition xs_zdata x size : bytes :=
    deflate (png_up (repeat 0 (N.to_nat (xs_cols x size))) (xs_rows x size)).
  Definition xs_sparse x size : bool :=
    (Gen_Limits.MaxXRefEntries (Z.of_nat (length (xs_zdata x size))) <? Z.of_N size)%Z.
  Definition xs_data x size : bytes :=
    if xs_sparse x size then concat (xs_rows x size) else xs_zdata x size.
  Definition xs_dict x size (tr : dict) : dict :=
    dict_set k_Size (OInt (Z.of_N size)) tr ++
    [(k_Type, OName k_XRef);
     (k_W, OArr [OInt 1; OInt (Z.of_N (xs_w2 x size)); OInt (Z.of_N (xs_w3 x size))])] ++
    (if xs_sparse x size then []
     else [(k_Filter, OName k_FlateDecode);
           (k_DecodeParms, ODict [(k_Columns, OInt (Z.of_N (xs_cols x size))); (k_Predictor, OInt 12)])]).
  Definition xstream_section (x : list (N * entry)) (size r : N) (tr : dict) : bytes :=
    hdr_of r 0 ++ fmt_sd (xs_dict x size tr) (LDirect (N.of_nat (length (xs_data x size)))) ++
    k_stream_nl ++ xs_data x size ++ k_endstream_endobj ++ nl c.

  Lemma init_out st0 : init c = Ok st0 -> out st0 = header /\ cv c <= 8.
  Proof.
    unfold init. destruct (cv c <=? 8) eqn:V; [|discriminate]. cbn [negb].
    destruct (_ && _); [discriminate|]. destruct (_ && _); [discriminate|].
    intros H; injection H as <-. split; [reflexivity | apply N.leb_le; exact V].
  Qed.

  Lemma step_closed st o st' :
    SInv st -> step st o = Ok st' -> closed st' = true ->
    exists cat info, o = Close cat info /\ close cat info st = Ok st'.
  Proof.
    intros SI H Hc. apply step_ok in H. unfold Writer.step0 in H. destruct (closed st) eqn:C0; [discriminate|]. destruct o.
    - binv H. destruct a as [r st1]. injection Hk as <-.
      destruct (alloc_fields _ _ _ Hb) as [_ [_ [_ [_ [_ [_ [F7 _]]]]]]]. congruence.
    - eapply put_inv in H; [|exact SI]. destruct H as [_ [C1 _]]. congruence.
    - eapply write_compressed_inv in H; [|exact SI]. destruct H as [_ [C1 _]]. congruence.
    - destruct SI as [I A]. eapply open_stream_inv in H; [|exact I]. destruct H as [_ [_ [_ [_ C1]]]]. congruence.
    - destruct SI as [I A]. eapply write_stream_inv in H; [|exact I]. destruct H as [_ [_ [C1 _]]]. congruence.
    - destruct SI as [I A]. eapply close_stream_inv in H; [|exact I]. destruct H as [_ [_ [C1 _]]]. congruence.
    - exists cat, info. auto.
  Qed.

  Lemma run_from_closed ops : forall st0 st,
    SInv st0 -> closed st0 = false -> run_from st0 ops = Ok st -> closed st = true ->
    exists st1 cat info, ext st0 st1 /\ SInv st1 /\ close cat info st1 = Ok st.
  Proof.
    induction ops as [|o ops IH]; intros st0 st SI C0 H Hc; cbn [Writer.run_from] in H.
    - injection H as <-. congruence.
    - binv H. destruct (closed a) eqn:Ca.
      + destruct (step_closed _ _ _ SI Hb Ca) as [cat [info [-> Hcl]]].
        destruct ops as [|o2 ops]; cbn [Writer.run_from] in Hk.
        * injection Hk as <-. exists st0, cat, info. split; [apply ext_refl | auto].
        * unfold Writer.step, Writer.step0 in Hk. rewrite Ca in Hk.
          destruct (accepts _ _ _ _) in Hk; discriminate.
      + destruct (step_inv _ _ _ _ _ _ _ _ _ _ SI Hb) as [_ [[S1 _]|F]].
        * destruct (IH _ _ S1 Ca Hk Hc) as [st1 [cat [info [E [S2 Hcl]]]]]. exists st1, cat, info.
          split; [eapply ext_trans; [eapply step_ext; eassumption | exact E] | auto].
        * destruct F as [_ [_ [_ [F _]]]]. congruence.
  Qed.

  Lemma put_obj_next n g o st st' : put_obj n g o st = Ok st' -> nextRef st' = N.max (nextRef st) (n + 1).
  Proof.
    unfold Writer.put_obj. intros H. binv H. injection Hk as <-.
    unfold set_xref in Hb. destruct (xlookup n (xref st)); [discriminate|]. injection Hb as <-. reflexivity.
  Qed.

  Lemma write_xref_stream_out tr st a0 :
    write_xref_stream fmt_sd deflate c tr st = Ok a0 ->
    (Z.of_N (nextRef st) < maxXRefSize)%Z /\ xlookup (nextRef st) (xref st) = None /\
    out a0 = out st ++ xstream_section (xref st) (nextRef st + 1) (nextRef st) tr /\
    nextRef a0 = nextRef st + 1 /\ xtab a0 = xref st /\
    xref a0 = xref st ++ [(nextRef st, EUse (pos st) 0)] /\ strm a0 = strm st.
  Proof.
    unfold Writer.write_xref_stream, alloc. destruct (_ >=? _)%Z eqn:E; [discriminate|].
    cbn [bind]. unfold set_xref. cbn [xref]. destruct (xlookup (nextRef st) (xref st)); [discriminate|].
    cbn [bind]. intros H. injection H as <-. cbn [out emit nextRef xtab xref strm pos].
    rewrite Z.geb_leb in E. apply Z.leb_gt in E. repeat split; try exact E. lia.
  Qed.

  Lemma close_out st cat info st' :
    close cat info st = Ok st' ->
    exists st5 root iref,
      ext st st5 /\ xpos st' = pos st5 /\ strm st' = None /\
      (if use_xrefstm c then
         (Z.of_N (nextRef st5 + 1) <= maxXRefSize)%Z /\ nextRef st' = nextRef st5 + 1 /\
         xtab st' = xref st5 /\ xref st' = xref st5 ++ [(nextRef st5, EUse (pos st5) 0)] /\
         xlookup (nextRef st5) (xref st5) = None /\
         out st' = out st5 ++ xstream_section (xref st5) (nextRef st5 + 1) (nextRef st5)
                                (trailer_dict c root iref (nextRef st5)) ++ tail (pos st5)
       else
         (Z.of_N (nextRef st5) <= maxXRefSize)%Z /\ nextRef st' = nextRef st5 /\
         xtab st' = xref st5 /\ xref st' = xref st5 /\ has_comp (xref st5) = false /\
         out st' = out st5 ++ table_section (xref st5) (nextRef st5)
                                (trailer_dict c root iref (nextRef st5)) ++ tail (pos st5)).
  Proof.
    intros H. apply close_ok in H. unfold Writer.close0 in H. destruct (strm st) eqn:Hs; [discriminate|].
    binv H. destruct a as [croot st1]. binv Hk. binv Hk0. destruct a0 as [iref st5].
    cbv zeta in Hk. binv Hk. injection Hk0 as <-.
    destruct (alloc_next _ _ _ Hb) as [-> [N1 B1]].
    pose proof (put_obj_next _ _ _ _ _ Hb0) as N2.
    destruct (alloc_fields _ _ _ Hb) as [_ [_ [_ [F4 _]]]].
    assert (S5 : ext a st5 /\ (Z.of_N (nextRef st5) <= maxXRefSize)%Z /\ strm st5 = None).
    { assert (Sa : strm a = None).
      { unfold Writer.put_obj in Hb0. binv Hb0. injection Hk as <-. unfold set_xref in Hb3.
        destruct (xlookup _ _); [discriminate|]. injection Hb3 as <-. cbn. congruence. }
      destruct info.
      - binv Hb1. destruct a1 as [ri st3]. binv Hk. injection Hk0 as <- <-.
        destruct (alloc_next _ _ _ Hb3) as [-> [N3 B3]].
        pose proof (put_obj_next _ _ _ _ _ Hb1) as N4.
        split; [eapply ext_trans; [eapply alloc_ext; eassumption | eapply put_obj_ext; eassumption]|].
        split; [lia|].
        destruct (alloc_fields _ _ _ Hb3) as [_ [_ [_ [G4 _]]]].
        unfold Writer.put_obj in Hb1. binv Hb1. injection Hk as <-. unfold set_xref in Hb4.
        destruct (xlookup _ _); [discriminate|]. injection Hb4 as <-. cbn. congruence.
      - injection Hb1 as <- <-. split; [apply ext_refl|]. split; [lia | exact Sa]. }
    destruct S5 as [E5 [B5 Ss5]].
    exists st5, (nextRef st), iref.
    split; [eapply ext_trans; [eapply alloc_ext; eassumption|];
            eapply ext_trans; [eapply put_obj_ext; eassumption | exact E5]|].
    destruct (use_xrefstm c).
    - destruct (write_xref_stream_out _ _ _ Hb2) as [B6 [Hx [O6 [N6 [T6 [X6 S6]]]]]].
      cbn [xpos strm nextRef xtab xref out emit pos].
      split; [reflexivity|]. split; [congruence|]. split; [lia|].
      split; [exact N6|]. split; [exact T6|]. split; [exact X6|]. split; [exact Hx|].
      rewrite O6, <- app_assoc. reflexivity.
    - binv Hb2. injection Hk as <-.
      unfold Writer.write_xref_table in Hb3. destruct (has_comp (xref st5)) eqn:Hc; [discriminate|].
      injection Hb3 as <-.
      cbn [xpos strm nextRef xtab xref out emit pos].
      split; [reflexivity|]. split; [exact Ss5|]. split; [exact B5|].
      split; [reflexivity|]. split; [reflexivity|]. split; [reflexivity|]. split; [reflexivity|].
      rewrite <- app_assoc. reflexivity.
  Qed.

  Theorem close_shape ops st :
    run ops = Ok st -> closed st = true ->
    exists body' root info,
      cv c <= 8 /\ strm st = None /\
      xpos st = N.of_nat (length (header ++ body')) /\
      (Z.of_N (nextRef st) <= maxXRefSize)%Z /\
      if use_xrefstm c then
        exists r, nextRef st = r + 1 /\ xlookup r (xtab st) = None /\
          xref st = xtab st ++ [(r, EUse (xpos st) 0)] /\
          out st = (header ++ body') ++
                   xstream_section (xtab st) (r + 1) r (trailer_dict c root info r) ++ tail (xpos st)
      else
        has_comp (xtab st) = false /\ xref st = xtab st /\
        out st = (header ++ body') ++
                 table_section (xtab st) (nextRef st) (trailer_dict c root info (nextRef st)) ++
                 tail (xpos st).
  Proof.
    intros H Hc. unfold Writer.run in H. binv H.
    destruct (init_sinv fmt fmt_sd encS encB fenc c _ Hb) as [S0 C0].
    destruct (init_out _ Hb) as [O0 V].
    destruct (run_from_closed _ _ _ S0 C0 Hk Hc) as [st1 [cat [info [E1 [S1 Hcl]]]]].
    destruct (close_out _ _ _ _ Hcl) as [st5 [root [iref [E5 [Xp [Ss R]]]]]].
    assert (E : ext a st5) by (eapply ext_trans; eassumption).
    assert (P5 : pos_ok st5) by (eapply ext_pos_ok; [exact E | eapply init_pos_ok; eassumption]).
    destruct E as [bs [Ho _]]. rewrite O0 in Ho.
    exists bs, root, iref. split; [exact V|]. split; [exact Ss|].
    rewrite <- Ho. split; [rewrite Xp; exact P5|].
    destruct (use_xrefstm c).
    - destruct R as [B [Nx [Xt [Xr [Hx Out]]]]]. split; [rewrite Nx; exact B|].
      exists (nextRef st5). rewrite Xt, Xp. auto.
    - destruct R as [B [Nx [Xt [Xr [Hco Out]]]]]. split; [rewrite Nx; exact B|].
      rewrite Xt, Xp, Nx. auto.
  Qed.
End Open.


(* ---- every entry of the map is below nextRef; the only free entry the writer makes is
   (0, free 65535); a compressed entry names an allocated object stream ---- *)
Section Bounded.
  Variable fmt : obj -> bytes.
  Variable fmt_sd : dict -> lenrep -> bytes.
  Variable encS : N -> N -> bytes -> bytes.
  Variable encB : N -> N -> bytes -> bytes.
  Variable fenc : bytes -> dict -> bytes -> bytes.
  Variable deflate : bytes -> bytes.
  Variable c : cfg.

  Notation step := (step fmt fmt_sd encS encB fenc deflate c).
  Notation run_from := (run_from fmt fmt_sd encS encB fenc deflate c).
  Notation run := (run fmt fmt_sd encS encB fenc deflate c).
  Notation put_obj := (put_obj fmt encS c).
  Notation finish_stream := (finish_stream fmt_sd encS encB fenc c).
  Notation flush_after := (flush_after fmt fmt_sd encS encB fenc c).
  Notation flush_objs := (flush_objs fmt encS c).
  Notation close_stream := (close_stream fmt fmt_sd encS encB fenc c).
  Notation put := (put fmt fmt_sd encS encB fenc c).
  Notation put_all := (put_all fmt fmt_sd encS encB fenc c).
  Notation write_compressed := (write_compressed fmt fmt_sd encS encB fenc c).
  Notation write_xref_table := (write_xref_table fmt).
  Notation write_xref_stream := (write_xref_stream fmt_sd deflate c).
  Notation close := (close fmt fmt_sd encS deflate c).
  Notation start_stream := (start_stream c).
  Notation write_stream := (write_stream c).

  Definition entry_ok (nr : N) (e : entry) : Prop :=
    match e with EFree g => g = 65535 | EComp s _ => s < nr | EUse _ _ => True end.
  Definition bounded (st : state) : Prop :=
    forall n e, xlookup n (xref st) = Some e -> n < nextRef st /\ entry_ok (nextRef st) e.
  Definition bx (st st' : state) : Prop := bounded st -> bounded st'.

  Lemma entry_ok_mono a b e : a <= b -> entry_ok a e -> entry_ok b e.
  Proof. destruct e; cbn; auto. lia. Qed.

  Lemma bx_refl st : bx st st.
  Proof. intros H; exact H. Qed.
  Lemma bx_trans a b d : bx a b -> bx b d -> bx a d.
  Proof. unfold bx; auto. Qed.
  Lemma bx_same a b : xref b = xref a -> nextRef b = nextRef a -> bx a b.
  Proof. intros Hx Hn B n e. rewrite Hx, Hn. apply B. Qed.
  Lemma bx_emit bs st : bx st (emit bs st).
  Proof. apply bx_same; reflexivity. Qed.

  Lemma alloc_bx st r st' : alloc st = Ok (r, st') -> bx st st'.
  Proof.
    unfold alloc. destruct (_ >=? _)%Z; [discriminate|]. intros H; inversion H; subst.
    intros B n e He. cbn in *. apply B in He. destruct He as [H1 H2].
    split; [lia | eapply entry_ok_mono; [|exact H2]; lia].
  Qed.

  Lemma set_xref_bx n e st st' :
    set_xref n e st = Ok st' -> entry_ok (N.max (nextRef st) (n + 1)) e -> bx st st'.
  Proof.
    unfold set_xref. destruct (xlookup n (xref st)) eqn:Hx; [discriminate|]. intros H; inversion H; subst.
    intros Hok B m e' He. cbn in *. rewrite xlookup_app in He. destruct (xlookup m (xref st)) eqn:Hm.
    - injection He as <-. apply B in Hm. destruct Hm as [H1 H2].
      split; [lia | eapply entry_ok_mono; [|exact H2]; lia].
    - cbn in He. destruct (m =? n) eqn:E; [|discriminate]. apply N.eqb_eq in E. injection He as <-.
      split; [lia | exact Hok].
  Qed.

  Lemma put_obj_bx n g o st st' : put_obj n g o st = Ok st' -> bx st st'.
  Proof.
    unfold Writer.put_obj. intros H. binv H. inversion Hk; subst.
    eapply bx_trans; [eapply set_xref_bx; [eassumption | exact I]|].
    apply bx_same; reflexivity.
  Qed.

  Lemma open_stream_bx n g d fs st st' : open_stream n g d fs st = Ok st' -> bx st st'.
  Proof.
    unfold open_stream. destruct (strm st); [discriminate|]. intros H. binv H.
    eapply bx_trans; [eapply set_xref_bx; [eassumption | exact I]|].
    destruct (dict_get k_Length d) as [[]|]; try discriminate; inversion Hk; subst; apply bx_same; reflexivity.
  Qed.

  Lemma start_stream_bx s st s' st' : start_stream s st = Ok (s', st') -> bx st st'.
  Proof.
    unfold Writer.start_stream. destruct (s_started s); [intros H; inversion H; subst; apply bx_refl|].
    destruct (dict_get k_Length (s_dict s)); [intros H; inversion H; subst; apply bx_refl|].
    destruct (cseek c); [intros H; inversion H; subst; apply bx_refl|].
    intros H. binv H. destruct a as [r st1]. inversion Hk; subst. eapply alloc_bx; eassumption.
  Qed.

  Lemma write_stream_bx bs b st st' : write_stream bs b st = Ok st' -> bx st st'.
  Proof.
    unfold Writer.write_stream. destruct (strm st) as [s|]; [|discriminate].
    destruct (_ && _); [discriminate|].
    destruct (b || s_started s).
    - intros H. binv H. destruct a as [s2 st1]. inversion Hk; subst.
      eapply bx_trans; [eapply start_stream_bx; eassumption|]. apply bx_same; reflexivity.
    - intros H; inversion H; subst. apply bx_same; reflexivity.
  Qed.

  Lemma finish_stream_bx big st st' : finish_stream big st = Ok st' -> bx st st'.
  Proof.
    unfold Writer.finish_stream. destruct (strm st) as [s0|]; [|discriminate].
    cbv zeta. intros H. binv H. destruct a as [s st1].
    assert (E1 : bx st st1).
    { destruct (if is_plain c s0 then _ else _).
      - eapply start_stream_bx; eassumption.
      - inversion Hb; subst; apply bx_refl. }
    destruct (Bool.eqb _ _); [|discriminate].
    destruct (dict_get k_Length (s_dict s)) as [[]|]; try discriminate.
    - destruct (_ =? _)%Z; [|discriminate]. inversion Hk; subst.
      eapply bx_trans; [exact E1|]. apply bx_same; reflexivity.
    - destruct (s_started s).
      + destruct (s_lenref s).
        * inversion Hk; subst. eapply bx_trans; [exact E1|]. apply bx_same; reflexivity.
        * destruct (cseek c); [|discriminate]. inversion Hk; subst.
          eapply bx_trans; [exact E1|]. apply bx_same; reflexivity.
      + inversion Hk; subst. eapply bx_trans; [exact E1|]. apply bx_same; reflexivity.
  Qed.

  Lemma flush_objs_bx l : forall st st', flush_objs l st = Ok st' -> bx st st'.
  Proof.
    induction l as [|[[n g] o] l IH]; intros st st' H; cbn in H.
    - inversion H; subst. apply bx_same; reflexivity.
    - destruct o; [|discriminate].
      binv H. eapply bx_trans; [eapply put_obj_bx; eassumption|]. eapply IH; eassumption.
  Qed.

  Lemma put_stream_now_bx n g d data st st' : put_stream_now n g d data st = Ok st' -> bx st st'.
  Proof.
    unfold put_stream_now. intros H. binv H.
    eapply bx_trans; [eapply open_stream_bx; eassumption|].
    destruct (strm a); [|discriminate]. inversion Hk; subst. apply bx_same; reflexivity.
  Qed.

  Lemma flush_after_bx l : forall st st', flush_after l st = Ok st' -> bx st st'.
  Proof.
    induction l as [|[[n g] o] l IH]; intros st st' H; cbn in H.
    - inversion H; subst. apply bx_refl.
    - destruct o.
      + binv H. eapply bx_trans; [eapply put_obj_bx; eassumption|]. eapply IH; eassumption.
      + binv H. binv Hk. binv Hk0.
        eapply bx_trans; [eapply put_stream_now_bx; eassumption|].
        eapply bx_trans; [eapply finish_stream_bx; eassumption|].
        eapply bx_trans; [eapply flush_objs_bx; eassumption|]. eapply IH; eassumption.
  Qed.

  Lemma close_stream_bx big st st' : close_stream big st = Ok st' -> bx st st'.
  Proof.
    unfold Writer.close_stream. intros H. binv H.
    eapply bx_trans; [eapply finish_stream_bx; eassumption|].
    eapply bx_trans; [|eapply flush_after_bx; eassumption]. apply bx_same; reflexivity.
  Qed.

  Lemma put_bx n g o big st st' : put n g o big st = Ok st' -> bx st st'.
  Proof.
    unfold Writer.put. destruct (strm st).
    - intros H; inversion H; subst. apply bx_same; reflexivity.
    - destruct o.
      + apply put_obj_bx.
      + intros H. binv H. eapply bx_trans; [eapply put_stream_now_bx; eassumption|].
        eapply close_stream_bx; eassumption.
  Qed.

  Lemma put_all_bx rs : forall os st st', put_all rs os st = Ok st' -> bx st st'.
  Proof.
    induction rs as [|[n g] rs IH]; intros os st st' H; cbn in H.
    - inversion H; subst; apply bx_refl.
    - destruct os as [|o os]; [inversion H; subst; apply bx_refl|].
      binv H. eapply bx_trans; [eapply put_bx; eassumption|]. eapply IH; eassumption.
  Qed.

  Lemma set_comp_bx sref rs : forall i st st',
    set_comp sref i rs st = Ok st' -> sref < nextRef st -> bx st st'.
  Proof.
    induction rs as [|[n g] rs IH]; intros i st st' H Hs; cbn in H.
    - inversion H; subst; apply bx_refl.
    - binv H. eapply bx_trans; [eapply set_xref_bx; [eassumption | cbn; lia]|].
      eapply IH; [eassumption|].
      unfold set_xref in Hb. destruct (xlookup n (xref st)); [discriminate|]. injection Hb as <-. cbn. lia.
  Qed.

  Lemma record_all_same rs : forall os st, xref (record_all rs os st) = xref st /\ nextRef (record_all rs os st) = nextRef st.
  Proof.
    induction rs as [|[n g] rs IH]; intros os st; cbn; [auto|].
    destruct os; [auto|]. destruct (IH os (record n g (VObj (pobj_obj p)) st)) as [A B].
    rewrite A, B. auto.
  Qed.

  Lemma wc_one_bx rs os big st st' : wc_one fmt fmt_sd encS encB fenc c rs os big st = Ok st' -> bx st st'.
  Proof.
    unfold wc_one. intros H. binv H. destruct a as [sref st1]. binv Hk.
    destruct (objstm_parts _ _ _) as [head body]. binv Hk0.
    destruct (strm a0) eqn:Es; [|discriminate].
    eapply bx_trans; [eapply alloc_bx; eassumption|].
    eapply bx_trans; [eapply set_comp_bx; [eassumption | destruct (alloc_next _ _ _ Hb) as [-> [-> _]]; lia]|].
    eapply bx_trans.
    { destruct (record_all_same rs os a) as [A B]. apply bx_same; eassumption. }
    eapply bx_trans; [eapply open_stream_bx; eassumption|].
    eapply bx_trans; [|eapply close_stream_bx; eassumption]. apply bx_same; reflexivity.
  Qed.

  Lemma wc_chunks_bx fuel : forall rs os bigs st st',
    wc_chunks fmt fmt_sd encS encB fenc c fuel rs os bigs st = Ok st' -> bx st st'.
  Proof.
    induction fuel as [|f IH]; intros rs os bigs st st' H; cbn [wc_chunks] in H; [discriminate|].
    destruct (Nat.ltb _ _).
    - binv H. eapply bx_trans; [eapply wc_one_bx; eassumption | eapply IH; eassumption].
    - eapply wc_one_bx; eassumption.
  Qed.

  Lemma write_compressed_bx rs os bigs st st' : write_compressed rs os bigs st = Ok st' -> bx st st'.
  Proof.
    unfold Writer.write_compressed. destruct (strm st); [discriminate|].
    destruct (negb (check_compressed rs os)); [discriminate|].
    destruct os as [|o os]; [intros H; inversion H; subst; apply bx_refl|].
    destruct (negb (use_objstm c)); [apply put_all_bx | apply wc_chunks_bx].
  Qed.

  Lemma write_xref_table_bx tr st st' : write_xref_table tr st = Ok st' -> bx st st'.
  Proof.
    unfold Writer.write_xref_table. destruct (has_comp _); [discriminate|].
    intros H; inversion H; subst. apply bx_emit.
  Qed.

  Lemma write_xref_stream_bx tr st st' : write_xref_stream tr st = Ok st' -> bx st st'.
  Proof.
    unfold Writer.write_xref_stream. intros H. binv H. destruct a as [r st1]. cbv zeta in Hk.
    binv Hk. inversion Hk0; subst.
    eapply bx_trans; [eapply alloc_bx; eassumption|].
    eapply bx_trans; [eapply set_xref_bx; [eassumption | exact I]|].
    match goal with |- bx _ (emit ?bs ?s) => eapply bx_trans; [|apply (bx_emit bs s)] end.
    apply bx_same; reflexivity.
  Qed.

  Lemma close_bx cat info st st' : close cat info st = Ok st' -> bx st st'.
  Proof.
    intros Hc0; apply close_ok in Hc0; revert Hc0.
    unfold Writer.close0. destruct (strm st); [discriminate|].
    intros H. binv H. destruct a as [croot st1]. binv Hk. binv Hk0. destruct a0 as [iref st5].
    cbv zeta in Hk. binv Hk. inversion Hk0; subst.
    eapply bx_trans; [eapply alloc_bx; eassumption|].
    eapply bx_trans; [eapply put_obj_bx; eassumption|].
    assert (E : bx a st5).
    { destruct info.
      - binv Hb1. destruct a1 as [ri st3]. binv Hk. inversion Hk1; subst.
        eapply bx_trans; [eapply alloc_bx; eassumption|]. eapply put_obj_bx; eassumption.
      - inversion Hb1; subst. apply bx_refl. }
    eapply bx_trans; [exact E|].
    assert (E2 : bx st5 a0).
    { destruct (use_xrefstm c).
      - eapply write_xref_stream_bx; eassumption.
      - binv Hb2. inversion Hk; subst. eapply bx_trans; [eapply write_xref_table_bx; eassumption|].
        apply bx_same; reflexivity. }
    eapply bx_trans; [exact E2|].
    apply bx_same; reflexivity.
  Qed.

  Lemma step_bx st o st' : step st o = Ok st' -> bx st st'.
  Proof.
    intros Hs0; apply step_ok in Hs0; revert Hs0.
    unfold Writer.step0. destruct (closed st); [discriminate|]. destruct o.
    - intros H. binv H. destruct a as [r st1]. inversion Hk; subst. eapply alloc_bx; eassumption.
    - apply put_bx.
    - apply write_compressed_bx.
    - apply open_stream_bx.
    - apply write_stream_bx.
    - apply close_stream_bx.
    - apply close_bx.
  Qed.

  Lemma run_from_bx ops : forall st st', run_from st ops = Ok st' -> bx st st'.
  Proof.
    induction ops as [|o ops IH]; intros st st' H; cbn in H.
    - inversion H; subst; apply bx_refl.
    - binv H. eapply bx_trans; [eapply step_bx; eassumption|]. eapply IH; eassumption.
  Qed.


  Lemma init_bounded st : init c = Ok st -> bounded st.
  Proof.
    unfold init. destruct (negb _); [discriminate|]. destruct (_ && _); [discriminate|].
    destruct (_ && _); [discriminate|]. intros H; inversion H; subst. intros n e He. cbn in *.
    destruct (n =? 0) eqn:E; [|discriminate]. apply N.eqb_eq in E. injection He as <-. split; [lia | reflexivity].
  Qed.

  Lemma run_bounded ops st : run ops = Ok st -> forall n e, xlookup n (xref st) = Some e -> n < nextRef st.
  Proof.
    unfold Writer.run. intros H. binv H. intros n e He.
    eapply (run_from_bx _ _ _ Hk); [eapply init_bounded; eassumption | exact He].
  Qed.

  Lemma run_entries ops st :
    run ops = Ok st -> forall n e, xlookup n (xref st) = Some e -> entry_ok (nextRef st) e.
  Proof.
    unfold Writer.run. intros H. binv H. intros n e He.
    eapply (run_from_bx _ _ _ Hk); [eapply init_bounded; eassumption | exact He].
  Qed.
End Bounded.

Ltac nb := unfold bytes, byte in *.
Ltac rw t := let E := fresh "E" in pose proof t as E; nb; rewrite E; clear E.
Section OpenRead.
  Variable fmt : obj -> bytes.
  Variable fmt_sd : dict -> lenrep -> bytes.
  Variable parse : bytes -> option (obj * bytes).
  Variables encS decS encB decB : N -> N -> bytes -> bytes.
  Variable fenc : bytes -> dict -> bytes -> bytes.
  Variable fdec : bytes -> dict -> bytes -> option bytes.
  Variable deflate : bytes -> bytes.
  Variable c : cfg.
  Variable wfo : obj -> Prop.          (* the values the object syntax round-trips *)

  Notation run := (run fmt fmt_sd encS encB fenc deflate c).
  Notation header := (header c).
  Notation table_section := (table_section fmt).
  Notation xstream_section := (xstream_section fmt_sd deflate c).
  Notation close_shape := (close_shape fmt fmt_sd encS encB fenc deflate c).

  (* ---- T2: opening a file with a cross-reference table ---- *)
  (* C01, in the one context in which Close writes a trailer dictionary: after "trailer" LF, followed
     by LF "startxref" *)
  Hypothesis parse_trailer : forall tr rest, wfo (ODict tr) ->
    parse (LF :: fmt (ODict tr) ++ LF :: kw_startxref ++ rest) =
    Some (norm (ODict tr), LF :: kw_startxref ++ rest).

  Notation open := (open parse decS fdec (encrypted c)).
  Notation read_chain := (read_chain parse decS fdec (encrypted c)).
  Notation read_section := (read_section parse decS fdec (encrypted c)).

  Definition kw_tartxref : bytes := Eval compute in List.tl kw_startxref.

  Lemma tail_clean xp : Forall (fun y => y <> 115) (kw_tartxref ++ LF :: dec xp ++ LF :: kw_eof ++ [LF]).
  Proof.
    apply Forall_app. split; [repeat constructor; discriminate|].
    constructor; [discriminate|]. apply Forall_app. split.
    - apply digits_not; [reflexivity | apply dec_digits].
    - repeat constructor; discriminate.
  Qed.

  Lemma version_of_text v (r : bytes) : v <= 8 -> version_of (version_text v ++ r) = Some v.
  Proof.
    intros Hv. unfold version_text. destruct (v =? 8) eqn:E.
    - apply N.eqb_eq in E. subst v. reflexivity.
    - apply N.eqb_neq in E. change ([49; 46; 48 + v] ++ r) with (49 :: 46 :: (48 + v) :: r).
      cbn [version_of].
      replace (48 <=? 48 + v) with true by (symmetry; apply N.leb_le; lia).
      replace (48 + v <=? 55) with true by (symmetry; apply N.leb_le; lia).
      cbn [andb]. f_equal. lia.
  Qed.

  (* the part of [open] before the chain of sections *)
  Lemma open_gen v (pre sect : bytes) xp x tr plain :
    v <= 8 ->
    let body := kw_pdf ++ version_text v ++ pre in
    let file := body ++ sect ++ tail xp in
    xp = N.of_nat (length body) ->
    read_chain (S (length file))
      {| rfile := file; rxref := []; rtrailer := []; rversion := v; rhdr := 0; rplain := [] |}
      xp [] [] None [] = Ok (x, tr, plain) ->
    open file = Ok {| rfile := file; rxref := x; rtrailer := tr; rversion := v; rhdr := 0; rplain := plain |}.
  Proof.
    intros Hv body file Hxp Hch. unfold Reader.open.
    assert (F1 : find_first kw_pdf (firstn 1024 file) 0 1025 = Some 0).
    { unfold file, body. rewrite <- !app_assoc.
      match goal with |- context [firstn 1024 (kw_pdf ++ ?Y)] =>
        replace (firstn 1024 (kw_pdf ++ Y)) with (kw_pdf ++ firstn 1019 Y) by reflexivity end.
      apply find_first_here; [discriminate | apply prefixb_app]. }
    unfold bytes, byte in *. rewrite F1.
    assert (F2 : version_of (drop (0 + 5) file) = Some v).
    { unfold file, body, drop. rewrite <- !app_assoc.
      match goal with |- context [skipn (N.to_nat (0 + 5)) (kw_pdf ++ ?Y)] =>
        replace (skipn (N.to_nat (0 + 5)) (kw_pdf ++ Y)) with Y by reflexivity end.
      apply version_of_text. exact Hv. }
    unfold bytes, byte in *. rewrite F2.
    assert (F3 : find_last kw_startxref file 0 None = Some (N.of_nat (length (body ++ sect)))).
    { unfold file, tail. rewrite (app_assoc body sect).
      change kw_startxref with (115 :: kw_tartxref).
      rewrite find_last_at; [reflexivity | apply tail_clean]. }
    unfold bytes, byte in *. rewrite F3.
    assert (F4 : drop (N.of_nat (length (body ++ sect)) + 9) file = LF :: dec xp ++ LF :: kw_eof ++ [LF]).
    { unfold file, tail, drop. rewrite (app_assoc body sect), (app_assoc (body ++ sect) kw_startxref).
      replace (N.to_nat (N.of_nat (length (body ++ sect)) + 9)) with (length ((body ++ sect) ++ kw_startxref)).
      - apply skipn_all_app.
      - rewrite (app_length (body ++ sect) kw_startxref). change (length kw_startxref) with 9%nat. lia. }
    unfold bytes, byte in *. rewrite F4.
    change (skip_ws (LF :: dec xp ++ LF :: kw_eof ++ [LF])) with (skip_ws (dec xp ++ LF :: kw_eof ++ [LF])).
    unfold bytes, byte in *. rewrite skip_ws_dec, read_nat_dec by reflexivity.
    assert (F5 : (xp =? 0) || (N.of_nat (length file) - 0 <=? xp) = false).
    { apply orb_false_iff. split.
      - apply N.eqb_neq. rewrite Hxp. unfold body. rewrite app_length. change (length kw_pdf) with 5%nat. lia.
      - apply N.leb_gt. rewrite Hxp. unfold file, tail. rewrite !app_length.
        change (length kw_startxref) with 9%nat. lia. }
    unfold bytes, byte in *. rewrite F5. cbv zeta. rewrite N.add_0_r. fold file. rewrite Hch. reflexivity.
  Qed.

  Definition normd (tr : dict) : dict :=
    dict_sort (filter (fun kv => negb (is_null (snd kv)))
                      (map (fun kv : bytes * obj => match kv with (k, v) => (k, norm v) end) tr)).

  Lemma norm_dict tr : norm (ODict tr) = ODict (normd tr).
  Proof. reflexivity. Qed.

  (* what the reader rebuilds from the table text *)
  Definition rtab (xw : list (N * entry)) (size : N) : list (N * entry) :=
    map (fun j => (j, rd (xlookup j xw))) (seqN 0 (N.to_nat size)).

  Lemma skip_ws_digits (A r : bytes) : all_digits A = true -> skip_ws (A ++ r) = A ++ r.
  Proof.
    unfold all_digits. destruct A as [|a A]; [discriminate|]. cbn [length Nat.eqb negb andb forallb].
    intros H. apply andb_true_iff in H as [H _]. rewrite <- app_comm_cons. cbn [skip_ws].
    rewrite (digit_not_ws _ H). reflexivity.
  Qed.

  Lemma xref_line_digits e : line_ok e -> exists A r, xref_line e = A ++ r /\ all_digits A = true.
  Proof.
    intros H.
    assert (Free : exists A r, pad0 10 [] ++ SP :: dec 65535 ++ [SP; 102; CR; LF] = A ++ r /\ all_digits A = true)
      by (eexists; eexists; split; reflexivity).
    destruct e as [[g|off g|s j]|]; try exact Free. destruct H as [Ho Hg]. cbn [xref_line].
    eexists; eexists; split; [reflexivity|].
    apply all_digits_pad0; [lia | apply dec_length_10, Ho | apply dec_digits].
  Qed.

  Lemma skip_ws_lines xw l (T : bytes) :
    (forall j, line_ok (xlookup j xw)) ->
    skip_ws (flat_map (fun j => xref_line (xlookup j xw)) l ++ kw_trailer ++ T) =
    flat_map (fun j => xref_line (xlookup j xw)) l ++ kw_trailer ++ T.
  Proof.
    intros Hok. destruct l as [|j l]; [reflexivity|]. cbn [flat_map].
    destruct (xref_line_digits _ (Hok j)) as [A [r [E D]]]. unfold bytes, byte in *. rewrite E, <- !app_assoc.
    apply skip_ws_digits. exact D.
  Qed.

  Lemma table_sections_one fuel xw size (T : bytes) :
    (Z.of_N size <= maxXRefSize)%Z -> (forall j, line_ok (xlookup j xw)) ->
    table_sections (S (S fuel))
      (48 :: SP :: dec size ++ LF ::
       flat_map (fun j => xref_line (xlookup j xw)) (seqN 0 (N.to_nat size)) ++ kw_trailer ++ T) [] =
    Some (rtab xw size, kw_trailer ++ T).
  Proof.
    intros Hs Hok. generalize (S fuel) (Nat.neq_succ_0 fuel). intros f Hf.
    cbn [table_sections]. change (is_digit 48) with true. cbv iota.
    unfold bytes, byte in *.
    match goal with |- context [read_nat (?a :: ?b :: ?Z)] =>
      change (read_nat (a :: b :: Z)) with (Some (0, b :: Z)) end.
    cbv beta iota.
    match goal with |- context [skip_ws (SP :: ?W)] => change (skip_ws (SP :: W)) with (skip_ws W) end.
    rewrite skip_ws_dec, read_nat_dec by reflexivity.
    replace (Z.of_N (0 + size) <=? maxXRefSize)%Z with true by (symmetry; apply Z.leb_le; lia).
    match goal with |- context [skip_ws (LF :: ?W)] => change (skip_ws (LF :: W)) with (skip_ws W) end.
    pose proof (skip_ws_lines xw (seqN 0 (N.to_nat size)) T Hok) as E1.
    pose proof (table_lines_all xw (N.to_nat size) 0 (kw_trailer ++ T) [] (fun j _ => eq_refl) Hok) as E2.
    unfold bytes, byte in *. rewrite E1, E2.
    change (skip_ws (kw_trailer ++ T)) with (kw_trailer ++ T).
    destruct f; [contradiction|]. reflexivity.
  Qed.

  Lemma read_section_table rs0 start xw size tr (rest : bytes) :
    drop start (rfile rs0) = table_section xw size tr ++ kw_startxref ++ rest ->
    wfo (ODict tr) ->
    (Z.of_N size <= maxXRefSize)%Z -> (forall j, line_ok (xlookup j xw)) ->
    read_section rs0 start [] = Ok (rtab xw size, normd tr, None).
  Proof.
    intros H Hwf Hs Hok. unfold Reader.read_section. rewrite H. clear H. unfold OpenProofs.table_section.
    set (rest' := kw_startxref ++ rest).
    repeat (rewrite <- app_assoc || rewrite <- app_comm_cons). nb. change ([] ++ rest') with rest'.
    match goal with |- context [prefixb kw_xref (?K ++ ?Y)] =>
      rw (prefixb_app K Y); change (skipn 4 (K ++ Y)) with Y;
      replace (S (length (K ++ Y))) with (S (S (3 + length Y))) by (rewrite app_length; reflexivity)
    end.
    match goal with |- context [skip_ws (LF :: ?a :: ?Z)] =>
      change (skip_ws (LF :: a :: Z)) with (a :: Z) end.
    match goal with |- context [table_sections (S (S ?f)) _ _] =>
      rw (table_sections_one f xw size (LF :: fmt (ODict tr) ++ LF :: rest') Hs Hok) end.
    match goal with |- context [skip_ws (kw_trailer ++ ?T)] =>
      change (skip_ws (kw_trailer ++ T)) with (kw_trailer ++ T); rw (strip_prefix_app kw_trailer T) end.
    subst rest'. rw (parse_trailer tr rest Hwf). reflexivity.
  Qed.

  Lemma trailer_no_prev root info size : nokey B_Prev (trailer_dict c root info size).
  Proof.
    intros k v Hin. unfold trailer_dict in Hin.
    repeat (apply in_app_or in Hin; destruct Hin as [Hin|Hin]).
    - destruct Hin as [E|[]]. injection E as <- <-. reflexivity.
    - destruct info; [destruct Hin as [E|[]]; injection E as <- <-; reflexivity | destruct Hin].
    - destruct (cid c) as [[a b]|]; [destruct Hin as [E|[]]; injection E as <- <-; reflexivity | destruct Hin].
    - destruct (cencrypt c); [destruct Hin as [E|[]]; injection E as <- <-; reflexivity | destruct Hin].
    - destruct Hin as [E|[]]. injection E as <- <-. reflexivity.
  Qed.

  Lemma normd_no_prev root info size : dict_get B_Prev (normd (trailer_dict c root info size)) = None.
  Proof. exact (nokey_norm _ _ (trailer_no_prev root info size)). Qed.

  Lemma xlookup_rtab xw size n :
    xlookup n (rtab xw size) = if n <? size then Some (rd (xlookup n xw)) else None.
  Proof.
    unfold rtab. rewrite (xlookup_map_seqN (fun j => rd (xlookup j xw))).
    replace (0 <=? n) with true by (symmetry; apply N.leb_le; lia). rewrite N2Nat.id. reflexivity.
  Qed.

  Theorem open_table ops st :
    run ops = Ok st -> closed st = true -> use_xrefstm c = false ->
    N.of_nat (length (out st)) < 10000000000 ->
    (forall n off g, xlookup n (xtab st) = Some (EUse off g) -> g <= 65535) ->
    (forall root info size, wfo (ODict (trailer_dict c root info size))) ->
    exists rs, open (out st) = Ok rs /\
      rfile rs = out st /\ rhdr rs = 0 /\ rversion rs = cv c /\ rplain rs = [] /\
      forall n, xlookup n (rxref rs) =
                if n <? nextRef st
                then Some (match xlookup n (xtab st) with
                           | Some (EUse off g) => EUse off g
                           | _ => EFree 65535
                           end)
                else None.
  Proof.
    intros H Hc Hm Hlen Hgen Hwf.
    destruct (close_shape ops st H Hc) as [body' [root [info [V [Ss [Xp [Bs R]]]]]]].
    rewrite Hm in R. destruct R as [Hco [Xr Out]].
    assert (Hok : forall j, line_ok (xlookup j (xtab st))).
    { intros j. unfold line_ok. destruct (xlookup j (xtab st)) as [[g|off g|s i]|] eqn:E; try exact I.
      split; [|eapply Hgen; exact E].
      destruct (layout_closed_lemma fmt fmt_sd encS encB fenc deflate c ops st H Hc _ _ _ E)
        as [v [ch [rest [_ [Sk Ch]]]]].
      destruct (chunk_nonempty _ _ _ _ _ _ _ _ _ _ _ _ Ch) as [a [r ->]].
      apply skipn_nonempty_lt in Sk. lia. }
    set (tr := trailer_dict c root info (nextRef st)) in *.
    set (sect := table_section (xtab st) (nextRef st) tr) in *.
    pose (pre := [LF; 37; 128; 128; 128; 128; LF] ++ nl c ++ body').
    assert (Hb : header ++ body' = kw_pdf ++ version_text (cv c) ++ pre).
    { unfold OpenProofs.header, pre. rewrite <- !app_assoc. reflexivity. }
    rewrite Hb in Out, Xp.
    eexists. split.
    - rewrite Out. apply (open_gen (cv c) pre sect (xpos st) (rtab (xtab st) (nextRef st))
                            (filter (fun kv => is_first_class (fst kv)) (normd tr)) [] V Xp).
      cbn [Reader.read_chain existsb].
      rewrite (read_section_table _ _ (xtab st) (nextRef st) tr (LF :: dec (xpos st) ++ LF :: kw_eof ++ [LF]));
        [| | apply Hwf | exact Bs | exact Hok].
      + cbn [bind]. unfold tr at 1. rewrite normd_no_prev. reflexivity.
      + cbn [rfile]. unfold drop. rewrite Xp, Nat2N.id. apply skipn_all_app.
    - cbn [rfile rhdr rversion rplain rxref]. rewrite Out. repeat split.
      intros n. rewrite xlookup_rtab. reflexivity.
  Qed.

  (* ---- T4: Get over the reopened file ---- *)
  Notation get := (get parse decS decB fdec (encrypted c)).
  Notation read_at := (read_at parse decS (encrypted c)).

  (* free and absent entries both read as null *)
  Definition live (e : option entry) : option entry :=
    match e with Some (EFree _) | None => None | _ => e end.
  Definition xagree (x1 x2 : list (N * entry)) : Prop :=
    forall n, live (xlookup n x1) = live (xlookup n x2).

  Lemma read_at_ext gi1 gi2 rs1 rs2 off n g :
    rfile rs1 = rfile rs2 -> rhdr rs1 = rhdr rs2 -> rplain rs1 = rplain rs2 ->
    (forall a b, gi1 a b = gi2 a b) ->
    read_at gi1 rs1 off n g = read_at gi2 rs2 off n g.
  Proof.
    intros F H P G. unfold Reader.read_at. rewrite F, H, P.
    destruct (read_header _) as [[[n' g'] s1]|]; [|reflexivity].
    destruct (parse s1) as [[o s2]|]; [|reflexivity].
    destruct (prefixb kw_stream (skip_ws s2)); [|reflexivity]. destruct o; try reflexivity.
    destruct (dict_get k_Length l) as [[]|]; try reflexivity. rewrite G. reflexivity.
  Qed.

  Lemma from_objstm_ext cont rs1 rs2 sn n :
    rplain rs1 = rplain rs2 ->
    from_objstm parse decB fdec (encrypted c) cont rs1 sn n =
    from_objstm parse decB fdec (encrypted c) cont rs2 sn n.
  Proof. intros P. unfold from_objstm, stream_data. rewrite P. reflexivity. Qed.

  Lemma get_ext rs1 rs2 :
    rfile rs1 = rfile rs2 -> rhdr rs1 = rhdr rs2 -> rplain rs1 = rplain rs2 ->
    xagree (rxref rs1) (rxref rs2) ->
    forall f n g, get f rs1 n g = get f rs2 n g.
  Proof.
    intros F H P X. induction f as [|f IH]; intros n g; [reflexivity|]. cbn [Reader.get].
    assert (G : forall a b,
      match get f rs1 a b with Ok (RObj (OInt z)) => Ok z | Ok _ => Err Malformed | Err e => Err e end =
      match get f rs2 a b with Ok (RObj (OInt z)) => Ok z | Ok _ => Err Malformed | Err e => Err e end).
    { intros a b. rewrite IH. reflexivity. }
    pose proof (X n) as Xn.
    destruct (xlookup n (rxref rs1)) as [[g1|o1 g1|s1 i1]|], (xlookup n (rxref rs2)) as [[g2|o2 g2|s2 i2]|];
      cbn [live] in Xn; try discriminate; try reflexivity.
    - injection Xn as -> ->. destruct (g2 =? g); [|reflexivity]. apply read_at_ext; assumption.
    - injection Xn as -> ->. destruct (g =? 0); [|reflexivity].
      rewrite (from_objstm_ext _ rs1 rs2 s2 n P). f_equal.
      pose proof (X s2) as Xs.
      destruct (xlookup s2 (rxref rs1)) as [[g1|o1 g1|s1 i1]|], (xlookup s2 (rxref rs2)) as [[g3|o3 g3|s3 i3]|];
        cbn [live] in Xs; try discriminate; try reflexivity.
      injection Xs as -> ->. destruct g3; [|reflexivity]. apply read_at_ext; assumption.
  Qed.

  Lemma has_comp_false x : has_comp x = false -> forall n s i, xlookup n x <> Some (EComp s i).
  Proof.
    induction x as [|[m e] x IH]; intros H n s i; cbn [xlookup]; [discriminate|].
    unfold has_comp in H. cbn [existsb snd] in H. apply orb_false_iff in H as [H1 H2].
    destruct (n =? m); [intros E; injection E as ->; discriminate | apply IH; exact H2].
  Qed.

  (* the map [open] rebuilds agrees with the writer's: free and absent entries both read as null *)
  Theorem open_table_agree ops st :
    run ops = Ok st -> closed st = true -> use_xrefstm c = false ->
    N.of_nat (length (out st)) < 10000000000 ->
    (forall n off g, xlookup n (xtab st) = Some (EUse off g) -> g <= 65535) ->
    (forall root info size, wfo (ODict (trailer_dict c root info size))) ->
    exists rs, open (out st) = Ok rs /\
      rfile rs = out st /\ rhdr rs = 0 /\ rversion rs = cv c /\ rplain rs = [] /\
      xagree (rxref rs) (xref st).
  Proof.
    intros H Hc Hm Hlen Hgen Hwf.
    destruct (open_table ops st H Hc Hm Hlen Hgen Hwf) as [rs [Ho [Rf [Rh [Rv [Rp Rx]]]]]].
    destruct (close_shape ops st H Hc) as [body' [root [info [V [Ss [Xp [Bs R]]]]]]].
    rewrite Hm in R. destruct R as [Hco [Xr _]].
    exists rs. do 5 (split; [assumption|]).
    intros n. rewrite Rx, Xr.
    destruct (xlookup n (xtab st)) as [[g1|o1 g1|s1 i1]|] eqn:E.
    - destruct (n <? nextRef st); reflexivity.
    - rewrite <- Xr in E. apply (run_bounded fmt fmt_sd encS encB fenc deflate c ops st H) in E.
      apply N.ltb_lt in E. rewrite E. reflexivity.
    - exfalso. exact (has_comp_false _ Hco _ _ _ E).
    - destruct (n <? nextRef st); reflexivity.
  Qed.

  (* T4: whatever Get answers over the writer's own map and the bytes of the file, it answers over
     the reopened file *)
  Theorem write_read_table ops st :
    run ops = Ok st -> closed st = true -> use_xrefstm c = false ->
    N.of_nat (length (out st)) < 10000000000 ->
    (forall n off g, xlookup n (xtab st) = Some (EUse off g) -> g <= 65535) ->
    (forall root info size, wfo (ODict (trailer_dict c root info size))) ->
    exists rs, open (out st) = Ok rs /\ rversion rs = cv c /\
      forall rs0, rfile rs0 = out st -> rhdr rs0 = 0 -> rplain rs0 = [] -> rxref rs0 = xref st ->
        forall f n g, get f rs n g = get f rs0 n g.
  Proof.
    intros H Hc Hm Hlen Hgen Hwf.
    destruct (open_table_agree ops st H Hc Hm Hlen Hgen Hwf) as [rs [Ho [Rf [Rh [Rv [Rp Rx]]]]]].
    exists rs. split; [exact Ho|]. split; [exact Rv|].
    intros rs0 F0 H0 P0 X0. apply get_ext; [congruence | congruence | congruence | rewrite X0; exact Rx].
  Qed.
End OpenRead.


(* ---- T3: opening a file with a cross-reference stream ---- *)

(* big-endian fields *)
Lemma be_eval w : forall x acc,
  be_val (be_bytes w x) acc = acc * 256 ^ N.of_nat w + x mod 256 ^ N.of_nat w.
Proof.
  induction w as [|w IH]; intros x acc; cbn [be_bytes be_val].
  - change (N.of_nat 0) with 0. rewrite N.pow_0_r, N.mod_1_r. lia.
  - rewrite IH. rewrite Nat2N.inj_succ, N.pow_succ_r'.
    set (P := 256 ^ N.of_nat w).
    assert (P <> 0) by (apply N.pow_nonzero; lia).
    rewrite (N.mul_comm 256 P). rewrite (N.mod_mul_r x P 256) by lia.
    set (b := (x / P) mod 256). set (q := x mod P). ring.
Qed.

Lemma be_length w x : length (be_bytes w x) = w.
Proof. induction w; cbn [be_bytes length]; congruence. Qed.

Lemma width_fits m x : x <= m -> x < 256 ^ (width_of m).
Proof.
  unfold width_of. intro H.
  pose proof (N.size_gt m) as G. set (s := N.size m) in *.
  assert (L : 2 ^ s <= 2 ^ (8 * ((s + 7) / 8))).
  { apply N.pow_le_mono_r; [lia|].
    pose proof (N.div_mod (s + 7) 8). pose proof (N.mod_lt (s + 7) 8). lia. }
  change 256 with (2 ^ 8). rewrite <- N.pow_mul_r. lia.
Qed.

Lemma width_le8 m : m < 2 ^ 64 -> width_of m <= 8.
Proof.
  intros H. unfold width_of.
  assert (S : N.size m <= 64).
  { destruct (N.eq_dec m 0) as [->|Hz]; [cbn; lia|]. rewrite N.size_log2 by exact Hz.
    assert (N.log2 m < 64) by (apply N.log2_lt_pow2; lia). lia. }
  assert (L : (N.size m + 7) / 8 < 9) by (apply N.div_lt_upper_bound; lia). lia.
Qed.

Lemma fold_max_ge l : forall a, a <= fold_left N.max l a.
Proof. induction l as [|y l IH]; intros a; cbn [fold_left]; [lia|]. specialize (IH (N.max a y)). lia. Qed.

Lemma fold_max_in l : forall a x, In x l -> x <= fold_left N.max l a.
Proof.
  induction l as [|y l IH]; intros a x Hin; [destruct Hin|]. cbn [fold_left]. destruct Hin as [->|Hin].
  - pose proof (fold_max_ge l (N.max a x)). lia.
  - apply IH. exact Hin.
Qed.

Lemma fold_max_lt l B : forall a, a < B -> (forall x, In x l -> x < B) -> fold_left N.max l a < B.
Proof.
  induction l as [|y l IH]; intros a Ha H; cbn [fold_left]; [exact Ha|]. apply IH.
  - pose proof (H y (or_introl eq_refl)). lia.
  - intros x Hx. apply H. right. exact Hx.
Qed.

(* lookups in a normal form *)
Definition fmn (l : dict) : dict :=
  filter (fun kv => negb (is_null (snd kv)))
         (map (fun kv : bytes * obj => match kv with (k, v) => (k, norm v) end) l).

Lemma dict_get_insert k k' v' l :
  dict_get k (dict_insert k' v' l) = if bytes_eqb k k' then Some v' else dict_get k l.
Proof.
  induction l as [|[k1 v1] l IH]; cbn [dict_insert dict_get]; [reflexivity|].
  destruct (bytes_ltb k' k1); [reflexivity|].
  destruct (bytes_eqb k' k1) eqn:E.
  - apply bytes_eqb_eq in E. subst k1. cbn [dict_get]. destruct (bytes_eqb k k'); reflexivity.
  - cbn [dict_get]. rewrite IH. destruct (bytes_eqb k k1) eqn:E1; [|reflexivity].
    destruct (bytes_eqb k k') eqn:E2; [|reflexivity].
    apply bytes_eqb_eq in E1, E2. subst. rewrite bytes_eqb_refl in E. discriminate.
Qed.

Lemma dict_get_sort k l : dict_get k (dict_sort l) = dict_get k l.
Proof.
  induction l as [|[k1 v1] l IH]; [reflexivity|]. cbn [dict_sort dict_get].
  rewrite dict_get_insert, IH. reflexivity.
Qed.

Lemma dict_get_normd k l : dict_get k (normd l) = dict_get k (fmn l).
Proof. apply dict_get_sort. Qed.

Lemma fmn_app l1 l2 : fmn (l1 ++ l2) = fmn l1 ++ fmn l2.
Proof. unfold fmn. rewrite map_app, filter_app. reflexivity. Qed.

Lemma dict_get_app k l1 l2 :
  dict_get k (l1 ++ l2) = match dict_get k l1 with Some v => Some v | None => dict_get k l2 end.
Proof.
  induction l1 as [|[k1 v1] l1 IH]; [reflexivity|]. rewrite <- app_comm_cons. cbn [dict_get].
  destruct (bytes_eqb k k1); [reflexivity | exact IH].
Qed.

Lemma nokey_fmn k l : nokey k l -> nokey k (fmn l).
Proof.
  intros H k' v Hin. unfold fmn in Hin. apply filter_In in Hin as [Hin _].
  apply in_map_iff in Hin as [[k2 v2] [E Hin]]. injection E as <- <-. exact (H _ _ Hin).
Qed.

Lemma nokey_del k k0 l : nokey k l -> nokey k (dict_del k0 l).
Proof.
  induction l as [|[k1 v1] l IH]; intros H; [exact H|]. cbn [dict_del].
  assert (H' : nokey k l) by (intros a b Hab; apply (H a b); right; exact Hab).
  destruct (bytes_eqb k0 k1); [exact (IH H')|].
  intros a b [E|Hab]; [injection E as <- <-; apply (H k1 v1); left; reflexivity | exact (IH H' a b Hab)].
Qed.

Lemma nokey_del_self k l : nokey k (dict_del k l).
Proof.
  induction l as [|[k1 v1] l IH]; [intros a b []|]. cbn [dict_del].
  destruct (bytes_eqb k k1) eqn:E; [exact IH|].
  intros a b [E1|Hab]; [injection E1 as <- <-; exact E | exact (IH a b Hab)].
Qed.

Lemma map_str_id : forall o, map_str (fun s => s) o = o.
Proof.
  fix IH 1. intros o. destruct o; cbn [map_str]; try reflexivity.
  - f_equal. induction l as [|x l IHl]; cbn [map]; [reflexivity|]. rewrite IH, IHl. reflexivity.
  - f_equal. induction l as [|[k v] l IHl]; cbn [map]; [reflexivity|]. rewrite IH, IHl. reflexivity.
Qed.

Lemma map_map_str_id (d : dict) :
  map (fun kv : bytes * obj => let (k, v) := kv in (k, map_str (fun s => s) v)) d = d.
Proof. induction d as [|[k v] d IH]; cbn [map]; [reflexivity|]. rewrite map_str_id, IH. reflexivity. Qed.

Lemma swrap_small x : (0 <= x < 9223372036854775808)%Z -> Gen_Limits.swrap 64 x = x.
Proof.
  intros H. unfold Gen_Limits.swrap.
  change (2 ^ (64 - 1))%Z with 9223372036854775808%Z. change (2 ^ 64)%Z with 18446744073709551616%Z.
  rewrite Z.mod_small by lia. lia.
Qed.

Lemma max_entries_ge L : (0 <= L < 1125899906842624)%Z -> (L <= MaxXRefEntries L)%Z.
Proof.
  intros H. unfold MaxXRefEntries. cbv zeta.
  replace (L <? 0)%Z with false by (symmetry; apply Z.ltb_ge; lia).
  rewrite (swrap_small (32 * L)) by lia. rewrite swrap_small by lia. lia.
Qed.

Lemma concat_length_const {A} (rows : list (list A)) k :
  (forall r, In r rows -> length r = k) -> length (concat rows) = (length rows * k)%nat.
Proof.
  induction rows as [|r rows IH]; intros H; [reflexivity|]. cbn [concat length]. rewrite app_length.
  rewrite (H r (or_introl eq_refl)), IH by (intros r' Hr; apply H; right; exact Hr). lia.
Qed.

Lemma seqN_length k : forall i, length (seqN i k) = k.
Proof. induction k; intros i; cbn [seqN length]; [reflexivity|]. rewrite IHk. reflexivity. Qed.


Lemma firstn_len_app {A} n (p r : list A) : length p = n -> firstn n (p ++ r) = p.
Proof. intros <-. apply firstn_app_all. Qed.
Lemma skipn_len_app {A} n (p r : list A) : length p = n -> skipn n (p ++ r) = r.
Proof. intros <-. apply skipn_all_app. Qed.

(* one row of the stream, as the reader decodes it *)
Lemma stream_rows_step k i w2 w3 t f2 f3 (rest : bytes) x :
  stream_rows (S k) i 1 w2 w3 ((t :: be_bytes w2 f2 ++ be_bytes w3 f3) ++ rest) x =
  let a := f2 mod 256 ^ N.of_nat w2 in
  let b := f3 mod 256 ^ N.of_nat w3 in
  stream_rows k (i + 1) 1 w2 w3 rest
    (match t with
     | 0 => if b <=? 65535 then merge_entry x i (EFree b) else x
     | 1 => if b <=? 65535 then merge_entry x i (EUse a b) else x
     | 2 => if (Z.of_N a <? maxXRefSize)%Z then merge_entry x i (EComp a b) else x
     | _ => x
     end).
Proof.
  set (R := t :: be_bytes w2 f2 ++ be_bytes w3 f3).
  assert (LR : length R = (1 + w2 + w3)%nat).
  { unfold R. nb. cbn [length]. rewrite app_length, !be_length. reflexivity. }
  pose proof (firstn_len_app _ R rest LR) as E1. pose proof (skipn_len_app _ R rest LR) as E2.
  assert (E3 : be_val (firstn 1 R) 0 = t) by reflexivity.
  assert (E4 : be_val (firstn w2 (skipn 1 R)) 0 = f2 mod 256 ^ N.of_nat w2).
  { unfold R. cbn [skipn]. nb. rewrite (firstn_len_app w2) by apply be_length. rewrite be_eval. lia. }
  assert (E5 : be_val (skipn (1 + w2) R) 0 = f3 mod 256 ^ N.of_nat w3).
  { unfold R. cbn [skipn Nat.add]. nb. rewrite (skipn_len_app w2) by apply be_length. rewrite be_eval. lia. }
  cbn [stream_rows]. nb. rewrite E1, E2, LR, Nat.eqb_refl. cbn [negb Nat.eqb].
  rewrite E3, E4, E5. reflexivity.
Qed.

(* what the reader makes of a row: free generations are truncated to the third field *)
Definition rdS (w3 : nat) (e : option entry) : entry :=
  match e with
  | Some (EUse off g) => EUse off g
  | Some (EComp s i) => EComp s i
  | Some (EFree g) => EFree (g mod 256 ^ N.of_nat w3)
  | None => EFree 0
  end.
Definition row_ok (w2 w3 : nat) (e : option entry) : Prop :=
  match e with
  | Some (EUse off g) => off < 256 ^ N.of_nat w2 /\ g < 256 ^ N.of_nat w3 /\ g <= 65535
  | Some (EComp s i) => s < 256 ^ N.of_nat w2 /\ i < 256 ^ N.of_nat w3 /\ (Z.of_N s < maxXRefSize)%Z
  | Some (EFree g) => g <= 65535
  | None => True
  end.
Definition xrow (w2 w3 : nat) (e : option entry) : bytes :=
  let '(t, f2, f3) := fields e in (t mod 256) :: be_bytes w2 f2 ++ be_bytes w3 f3.

Lemma stream_rows_row k i w2 w3 e (rest : bytes) x : row_ok w2 w3 e ->
  stream_rows (S k) i 1 w2 w3 (xrow w2 w3 e ++ rest) x =
  stream_rows k (i + 1) 1 w2 w3 rest (merge_entry x i (rdS w3 e)).
Proof.
  intros H. unfold xrow. destruct e as [[g|off g|s j]|]; cbn [fields rdS row_ok] in *.
  - change (0 mod 256) with 0. rewrite stream_rows_step. cbv zeta.
    assert (L : g mod 256 ^ N.of_nat w3 <= g) by (apply N.mod_le; apply N.pow_nonzero; lia).
    replace (g mod 256 ^ N.of_nat w3 <=? 65535) with true by (symmetry; apply N.leb_le; lia). reflexivity.
  - destruct H as [H1 [H2 H3]]. change (1 mod 256) with 1. rewrite stream_rows_step. cbv zeta.
    rewrite !N.mod_small by assumption.
    replace (g <=? 65535) with true by (symmetry; apply N.leb_le; lia). reflexivity.
  - destruct H as [H1 [H2 H3]]. change (2 mod 256) with 2. rewrite stream_rows_step. cbv zeta.
    rewrite !N.mod_small by assumption.
    replace (Z.of_N s <? maxXRefSize)%Z with true by (symmetry; apply Z.ltb_lt; exact H3). reflexivity.
  - change (0 mod 256) with 0. rewrite stream_rows_step. cbv zeta.
    rewrite N.mod_0_l by (apply N.pow_nonzero; lia). reflexivity.
Qed.

Lemma stream_rows_all xw w2 w3 : forall k i (r : bytes) acc,
  (forall j, i <= j -> xlookup j acc = None) ->
  (forall j, In j (seqN i k) -> row_ok w2 w3 (xlookup j xw)) ->
  stream_rows k i 1 w2 w3 (concat (map (fun j => xrow w2 w3 (xlookup j xw)) (seqN i k)) ++ r) acc =
    Some (acc ++ map (fun j => (j, rdS w3 (xlookup j xw))) (seqN i k), r).
Proof.
  induction k; intros i r acc Hacc Hok.
  - cbn. rewrite app_nil_r. reflexivity.
  - cbn [seqN map concat]. nb. rewrite <- app_assoc.
    rewrite stream_rows_row by (apply Hok; left; reflexivity). unfold merge_entry. rewrite Hacc by lia.
    rewrite IHk.
    + rewrite <- app_assoc. reflexivity.
    + intros j Hj. rewrite xlookup_app, Hacc by lia. cbn [xlookup].
      destruct (j =? i) eqn:E; [apply N.eqb_eq in E; lia | reflexivity].
    + intros j Hj. apply Hok. right. exact Hj.
Qed.

Lemma xref_rows_xrow x size w2 w3 :
  xref_rows x size w2 w3 = map (fun j => xrow w2 w3 (xlookup j x)) (seqN 0 (N.to_nat size)).
Proof. reflexivity. Qed.

Lemma xrow_length w2 w3 e : length (xrow w2 w3 e) = (1 + w2 + w3)%nat.
Proof.
  unfold xrow. destruct (fields e) as [[t f2] f3]. nb. cbn [length]. rewrite app_length, !be_length. reflexivity.
Qed.

(* the part of the stream dictionary that Close adds to the trailer entries *)
Definition xsd_tail (z a b cols : Z) (sp : bool) : dict :=
  [(k_Size, OInt z)] ++
  [(k_Type, OName k_XRef); (k_W, OArr [OInt 1; OInt a; OInt b])] ++
  (if sp then []
   else [(k_Filter, OName k_FlateDecode);
         (k_DecodeParms, ODict [(k_Columns, OInt cols); (k_Predictor, OInt 12)])]).

Lemma xsd_tail_gets z a b cols sp :
  dict_get k_Size (fmn (xsd_tail z a b cols sp)) = Some (OInt z) /\
  dict_get k_W (fmn (xsd_tail z a b cols sp)) = Some (OArr [OInt 1; OInt a; OInt b]) /\
  dict_get B_Index (fmn (xsd_tail z a b cols sp)) = None /\
  dict_get B_Prev (fmn (xsd_tail z a b cols sp)) = None /\
  dict_get k_Filter (fmn (xsd_tail z a b cols sp)) = (if sp then None else Some (OName k_FlateDecode)) /\
  dict_get k_DecodeParms (fmn (xsd_tail z a b cols sp)) =
    (if sp then None else Some (ODict [(k_Columns, OInt cols); (k_Predictor, OInt 12)])).
Proof. destruct sp; repeat split; reflexivity. Qed.

Lemma trailer_nokey K c root info size :
  (forall k, In k [k_Root; k_Info; k_ID; k_Encrypt; k_Size] -> bytes_eqb K k = false) ->
  nokey K (trailer_dict c root info size).
Proof.
  intros HK k v Hin. unfold trailer_dict in Hin.
  repeat (apply in_app_or in Hin; destruct Hin as [Hin|Hin]).
  - destruct Hin as [E|[]]. injection E as <- <-. apply HK. left. reflexivity.
  - destruct info; [destruct Hin as [E|[]]; injection E as <- <-; apply HK; right; left; reflexivity | destruct Hin].
  - destruct (cid c) as [[a b]|]; [destruct Hin as [E|[]]; injection E as <- <-; apply HK; do 2 right; left; reflexivity | destruct Hin].
  - destruct (cencrypt c); [destruct Hin as [E|[]]; injection E as <- <-; apply HK; do 3 right; left; reflexivity | destruct Hin].
  - destruct Hin as [E|[]]. injection E as <- <-. apply HK. do 4 right. left. reflexivity.
Qed.

Ltac trailer_keys := intros k Hk; repeat (destruct Hk as [<-|Hk]; [reflexivity|]); destruct Hk.

Section OpenXStream.
  Variable fmt : obj -> bytes.
  Variable fmt_sd : dict -> lenrep -> bytes.
  Variable parse : bytes -> option (obj * bytes).
  Variables encS decS encB decB : N -> N -> bytes -> bytes.
  Variable fenc : bytes -> dict -> bytes -> bytes.
  Variable fdec : bytes -> dict -> bytes -> option bytes.
  Variable deflate : bytes -> bytes.
  Variable c : cfg.

  Variable wfo : obj -> Prop.          (* the values the object syntax round-trips *)
  (* a stream dictionary with its /Length, in the context in which it is written: after "obj" LF,
     followed by LF "stream" *)
  Hypothesis parse_sd : forall sd lr rest, wfo (ODict sd) -> exists d',
      parse (LF :: fmt_sd sd lr ++ LF :: kw_stream ++ rest) = Some (ODict d', LF :: kw_stream ++ rest) /\
      dict_get k_Length d' = Some (lenval lr) /\
      ODict (dict_del k_Length d') = norm (ODict sd).
  (* Flate with the PNG "Up" predictor, as the cross-reference stream uses it: rows of equal length *)
  Hypothesis fdec_xref : forall cols rows,
      (forall r, In r rows -> length r = N.to_nat cols) ->
      fdec k_FlateDecode [(k_Columns, OInt (Z.of_N cols)); (k_Predictor, OInt 12)]
           (deflate (png_up (repeat 0 (N.to_nat cols)) rows)) = Some (concat rows).

  Notation run := (run fmt fmt_sd encS encB fenc deflate c).
  Notation xstream_section := (xstream_section fmt_sd deflate c).
  Notation close_shape := (close_shape fmt fmt_sd encS encB fenc deflate c).
  Notation open := (open parse decS fdec (encrypted c)).
  Notation read_chain := (read_chain parse decS fdec (encrypted c)).
  Notation read_section := (read_section parse decS fdec (encrypted c)).
  Notation read_at := (read_at parse decS (encrypted c)).
  Notation xs_dict := (xs_dict deflate).
  Notation xs_data := (xs_data deflate).
  Notation xs_sparse := (xs_sparse deflate).
  Notation xs_zdata := (xs_zdata deflate).

  (* an unencrypted stream object with a direct /Length *)
  Lemma read_at_plain_stream gi file x0 tr0 v0 xp r (d : dict) (data rest : bytes) :
    drop xp file =
      (hdr_of r 0 ++ fmt_sd d (LDirect (N.of_nat (length data))) ++
       k_stream_nl ++ data ++ k_endstream_endobj ++ nl c) ++ rest ->
    wfo (ODict d) ->
    read_at gi {| rfile := file; rxref := x0; rtrailer := tr0; rversion := v0; rhdr := 0; rplain := [r] |}
            xp r 0 = Ok (RStream (normd d) data).
  Proof.
    intros H Hwf. unfold Reader.read_at. cbn [rfile rhdr rplain]. rewrite N.add_0_r, H.
    rewrite <- (app_assoc (hdr_of r 0)), read_header_hdr.
    set (len := N.of_nat (length data)).
    replace (LF :: (fmt_sd d (LDirect len) ++ k_stream_nl ++ data ++ k_endstream_endobj ++ nl c) ++ rest)
      with (LF :: fmt_sd d (LDirect len) ++ LF ::
            (kw_stream ++ LF :: data ++ (LF :: kw_endstream ++ LF :: kw_endobj ++ [LF]) ++ nl c ++ rest)).
    2:{ unfold k_stream_nl, k_endstream_endobj. rewrite <- !app_assoc. reflexivity. }
    destruct (parse_sd d (LDirect len)
                (LF :: data ++ (LF :: kw_endstream ++ LF :: kw_endobj ++ [LF]) ++ nl c ++ rest) Hwf)
      as [d' [P1 [P2 P3]]].
    rewrite P1. cbn [existsb]. rewrite N.eqb_refl. cbn [orb].
    set (Y := (LF :: kw_endstream ++ LF :: kw_endobj ++ [LF]) ++ nl c ++ rest).
    replace (skip_ws (LF :: kw_stream ++ LF :: data ++ Y)) with (kw_stream ++ LF :: data ++ Y) by reflexivity.
    rewrite prefixb_app. cbv zeta.
    assert (Hsk : skipn (length kw_stream) (kw_stream ++ LF :: data ++ Y) = LF :: data ++ Y)
      by (rewrite skipn_app, skipn_all, Nat.sub_diag; reflexivity).
    unfold bytes, byte in *. rewrite Hsk.
    change (skip_stream_eol (LF :: data ++ Y)) with (data ++ Y). rewrite P2. cbn [lenval].
    assert (Hext : stream_extent (Some len) (data ++ Y) = Ok data).
    { unfold stream_extent, drop, take, len. rewrite Nat2N.id.
      assert (Hle : (N.of_nat (length data) <=? N.of_nat (length (data ++ Y))) = true).
      { apply N.leb_le. rewrite app_length. lia. }
      unfold bytes, byte in *. rewrite Hle, skipn_app, skipn_all, Nat.sub_diag. cbn [skipn andb].
      change ([] ++ Y) with Y.
      replace (skip_ws Y) with (kw_endstream ++ LF :: kw_endobj ++ [LF] ++ nl c ++ rest).
      2:{ unfold Y. reflexivity. }
      rewrite prefixb_app, firstn_app_all. reflexivity. }
    replace (0 <=? Z.of_N len)%Z with true by (symmetry; apply Z.leb_le; lia).
    rewrite N2Z.id. cbn [bind]. unfold bytes, byte in *. rewrite Hext. cbn [bind].
    rewrite !N.eqb_refl. cbn [andb]. f_equal. f_equal.
    unfold sd. cbn [negb]. rewrite andb_false_r.
    rewrite norm_dict in P3. injection P3 as P3. rewrite <- P3. f_equal. apply map_map_str_id.
  Qed.

  Lemma xs_dict_split x size tr :
    xs_dict x size tr =
    dict_del k_Size tr ++
    xsd_tail (Z.of_N size) (Z.of_N (xs_w2 x size)) (Z.of_N (xs_w3 x size)) (Z.of_N (xs_cols x size))
             (xs_sparse x size).
  Proof. unfold OpenProofs.xs_dict, dict_set, xsd_tail. rewrite <- app_assoc. reflexivity. Qed.

  Lemma xs_dict_get K x size tr :
    nokey K (dict_del k_Size tr) ->
    dict_get K (normd (xs_dict x size tr)) =
    dict_get K (fmn (xsd_tail (Z.of_N size) (Z.of_N (xs_w2 x size)) (Z.of_N (xs_w3 x size))
                              (Z.of_N (xs_cols x size)) (xs_sparse x size))).
  Proof.
    intros H. rewrite dict_get_normd, xs_dict_split, fmn_app, dict_get_app.
    rewrite (nokey_get _ _ (nokey_fmn _ _ H)). reflexivity.
  Qed.

  Lemma check_xs d' size w2 w3 rawlen :
    dict_get k_Size d' = Some (OInt (Z.of_N size)) ->
    dict_get k_W d' = Some (OArr [OInt 1; OInt (Z.of_N w2); OInt (Z.of_N w3)]) ->
    dict_get B_Index d' = None ->
    (Z.of_N size <= maxXRefSize)%Z -> w2 <= 8 -> w3 <= 8 ->
    (Z.of_N size <= MaxXRefEntries (Z.of_N rawlen))%Z ->
    check_xref_dict d' rawlen = Some (1%nat, N.to_nat w2, N.to_nat w3, [(0, size)]).
  Proof.
    intros H1 H2 H3 Hs Hw2 Hw3 Hm. unfold check_xref_dict. rewrite H1, H2, H3.
    assert (E1 : ((Z.of_N size <? 0) || (maxXRefSize <? Z.of_N size))%Z = false)
      by (apply orb_false_iff; split; apply Z.ltb_ge; lia).
    rewrite E1.
    assert (E2 : ((1 <? 0) || (8 <? 1) || (Z.of_N w2 <? 0) || (8 <? Z.of_N w2) ||
                  (Z.of_N w3 <? 0) || (8 <? Z.of_N w3))%Z = false)
      by (repeat (apply orb_false_iff; split); apply Z.ltb_ge; lia).
    rewrite E2.
    assert (E3 : (1 + Z.of_N w2 + Z.of_N w3 =? 0)%Z = false) by (apply Z.eqb_neq; lia).
    rewrite E3. cbn [fold_left snd]. rewrite N2Z.id.
    assert (E4 : (Z.min maxXRefSize (MaxXRefEntries (Z.of_N rawlen)) <? 0 + Z.of_N size)%Z = false)
      by (apply Z.ltb_ge; lia).
    rewrite E4. rewrite <- !Z_N_nat, !N2Z.id. reflexivity.
  Qed.

  Lemma read_section_xstream file v0 xp x size r tr (rest : bytes) :
    let rs0 := {| rfile := file; rxref := []; rtrailer := []; rversion := v0; rhdr := 0; rplain := [] |} in
    let w2 := N.to_nat (xs_w2 x size) in
    let w3 := N.to_nat (xs_w3 x size) in
    drop xp file = xstream_section x size r tr ++ rest ->
    wfo (ODict (xs_dict x size tr)) ->
    nokey k_W (dict_del k_Size tr) -> nokey B_Index (dict_del k_Size tr) ->
    nokey k_Filter (dict_del k_Size tr) -> nokey k_DecodeParms (dict_del k_Size tr) ->
    (Z.of_N size <= maxXRefSize)%Z -> xs_w2 x size <= 8 -> xs_w3 x size <= 8 ->
    (forall j, In j (seqN 0 (N.to_nat size)) -> row_ok w2 w3 (xlookup j x)) ->
    read_section rs0 xp [] =
      Ok (map (fun j => (j, rdS w3 (xlookup j x))) (seqN 0 (N.to_nat size)), normd (xs_dict x size tr), Some r).
  Proof.
    intros rs0 w2 w3 H Hwf KW KI KF KD Hs Hw2 Hw3 Rok.
    unfold Reader.read_section. cbn [rfile rhdr rs0]. rewrite H. unfold OpenProofs.xstream_section.
    rewrite <- (app_assoc (hdr_of r 0)).
    assert (NX : prefixb kw_xref (hdr_of r 0 ++
                   (fmt_sd (xs_dict x size tr) (LDirect (N.of_nat (length (xs_data x size)))) ++
                    k_stream_nl ++ xs_data x size ++ k_endstream_endobj ++ nl c) ++ rest) = false).
    { unfold hdr_of. destruct (dec_head r) as [b [t [E Hd]]]. rewrite E.
      rewrite <- app_comm_cons. apply prefixb_head_ne. intros ->. discriminate. }
    nb. rewrite NX. rewrite read_header_hdr. rewrite N.sub_0_r.
    rewrite (read_at_plain_stream _ file _ _ _ xp r (xs_dict x size tr) (xs_data x size) rest).
    2:{ rewrite H. unfold OpenProofs.xstream_section. reflexivity. }
    2:{ exact Hwf. }
    set (d' := normd (xs_dict x size tr)).
    destruct (xsd_tail_gets (Z.of_N size) (Z.of_N (xs_w2 x size)) (Z.of_N (xs_w3 x size))
                (Z.of_N (xs_cols x size)) (xs_sparse x size)) as [G1 [G2 [G3 [_ [G5 G6]]]]].
    assert (D1 : dict_get k_Size d' = Some (OInt (Z.of_N size)))
      by (unfold d'; rewrite xs_dict_get by apply nokey_del_self; exact G1).
    assert (D2 : dict_get k_W d' = Some (OArr [OInt 1; OInt (Z.of_N (xs_w2 x size)); OInt (Z.of_N (xs_w3 x size))]))
      by (unfold d'; rewrite xs_dict_get by exact KW; exact G2).
    assert (D3 : dict_get B_Index d' = None) by (unfold d'; rewrite xs_dict_get by exact KI; exact G3).
    assert (D5 : dict_get k_Filter d' = if xs_sparse x size then None else Some (OName k_FlateDecode))
      by (unfold d'; rewrite xs_dict_get by exact KF; exact G5).
    assert (D6 : dict_get k_DecodeParms d' =
                 if xs_sparse x size then None
                 else Some (ODict [(k_Columns, OInt (Z.of_N (xs_cols x size))); (k_Predictor, OInt 12)]))
      by (unfold d'; rewrite xs_dict_get by exact KD; exact G6).
    (* the rows *)
    assert (RL : forall rw, In rw (xs_rows x size) -> length rw = N.to_nat (xs_cols x size)).
    { intros rw Hin. unfold xs_rows in Hin. rewrite xref_rows_xrow in Hin.
      apply in_map_iff in Hin as [j [<- _]]. rewrite xrow_length. unfold xs_cols. lia. }
    assert (CL : length (concat (xs_rows x size)) = (N.to_nat size * N.to_nat (xs_cols x size))%nat).
    { rewrite (concat_length_const _ _ RL). unfold xs_rows. rewrite xref_rows_xrow, map_length, seqN_length.
      reflexivity. }
    assert (ME : (Z.of_N size <= MaxXRefEntries (Z.of_N (N.of_nat (length (xs_data x size)))))%Z).
    { unfold OpenProofs.xs_data. destruct (xs_sparse x size) eqn:Sp.
      - rewrite CL. etransitivity; [|apply max_entries_ge].
        + unfold xs_cols. nia.
        + unfold xs_cols. unfold maxXRefSize in Hs. nia.
      - unfold OpenProofs.xs_sparse in Sp. apply Z.ltb_ge in Sp. rewrite nat_N_Z. exact Sp. }
    rw (check_xs d' size (xs_w2 x size) (xs_w3 x size) _ D1 D2 D3 Hs Hw2 Hw3 ME).
    (* the data *)
    assert (DC : decode_chain fdec (filter_chain d') (xs_data x size) = Some (concat (xs_rows x size))).
    { unfold filter_chain. rewrite D5, D6. unfold OpenProofs.xs_data. destruct (xs_sparse x size).
      - reflexivity.
      - cbn [as_dict decode_chain]. unfold OpenProofs.xs_zdata. rewrite (fdec_xref _ _ RL). reflexivity. }
    nb. rewrite DC. cbn [stream_sections].
    pose proof (stream_rows_all x w2 w3 (N.to_nat size) 0 [] [] (fun j _ => eq_refl) Rok) as SR.
    rewrite app_nil_r in SR.
    unfold xs_rows. fold w2 w3. rewrite xref_rows_xrow. nb. rewrite SR. reflexivity.
  Qed.

  Theorem open_xref_stream ops st :
    run ops = Ok st -> closed st = true -> use_xrefstm c = true ->
    N.of_nat (length (out st)) < 10000000000 ->
    (forall n off g, xlookup n (xtab st) = Some (EUse off g) -> g <= 65535) ->
    (forall n s i, xlookup n (xtab st) = Some (EComp s i) -> i < 18446744073709551616) ->
    (forall root info r, nextRef st = r + 1 ->
       wfo (ODict (xs_dict (xtab st) (nextRef st) (trailer_dict c root info r)))) ->
    exists rs r, open (out st) = Ok rs /\ nextRef st = r + 1 /\
      rfile rs = out st /\ rhdr rs = 0 /\ rversion rs = cv c /\ rplain rs = [r] /\
      forall n, xlookup n (rxref rs) =
                if n <? nextRef st
                then Some (rdS (N.to_nat (xs_w3 (xtab st) (nextRef st))) (xlookup n (xtab st)))
                else None.
  Proof.
    intros H Hc Hm Hlen Hgen Hidx Hwf.
    destruct (close_shape ops st H Hc) as [body' [root [info [V [Ss [Xp [Bs R]]]]]]].
    rewrite Hm in R. destruct R as [r [Nx [Hr [Xr Out]]]].
    assert (Sub : forall n e, xlookup n (xtab st) = Some e -> entry_ok (nextRef st) e).
    { intros n e E. apply (run_entries fmt fmt_sd encS encB fenc deflate c ops st H n).
      rewrite Xr, xlookup_app, E. reflexivity. }
    assert (Hfree : forall n g, xlookup n (xtab st) = Some (EFree g) -> g <= 65535).
    { intros n g E. apply Sub in E. cbn in E. lia. }
    assert (Hcomp : forall n s i, xlookup n (xtab st) = Some (EComp s i) ->
                      (Z.of_N s < maxXRefSize)%Z /\ i < 18446744073709551616).
    { intros n s i E. split; [|exact (Hidx _ _ _ E)]. apply Sub in E. cbn in E. lia. }
    clear Sub. rewrite Nx in *.
    set (x := xtab st) in *. set (size := r + 1) in *.
    assert (Hoff : forall n off g, xlookup n x = Some (EUse off g) -> off < 10000000000).
    { intros n off g E.
      destruct (layout_closed_lemma fmt fmt_sd encS encB fenc deflate c ops st H Hc _ _ _ E)
        as [v [ch [rest [_ [Sk Ch]]]]].
      destruct (chunk_nonempty _ _ _ _ _ _ _ _ _ _ _ _ Ch) as [a [t ->]].
      apply skipn_nonempty_lt in Sk. lia. }
    assert (P64 : 2 ^ 64 = 18446744073709551616) by reflexivity.
    assert (F2 : forall j, fst (fields_for_width (xlookup j x)) < 2 ^ 64).
    { intros j. rewrite P64. destruct (xlookup j x) as [[g|off g|s i]|] eqn:E; cbn [fields_for_width fst]; try lia.
      - apply Hoff in E. lia.
      - apply Hcomp in E. unfold maxXRefSize in E. lia. }
    assert (F3 : forall j, snd (fields_for_width (xlookup j x)) < 2 ^ 64).
    { intros j. rewrite P64. destruct (xlookup j x) as [[g|off g|s i]|] eqn:E; cbn [fields_for_width snd]; try lia.
      - apply Hfree in E. destruct (Z.of_N g =? maxGeneration)%Z; lia.
      - apply Hgen in E. lia.
      - apply Hcomp in E. lia. }
    assert (W2 : xs_w2 x size <= 8).
    { unfold xs_w2. apply width_le8. apply fold_max_lt; [rewrite P64; lia|].
      intros v Hv. apply in_map_iff in Hv as [p [<- Hp]]. apply in_map_iff in Hp as [j [<- _]]. apply F2. }
    assert (W3 : xs_w3 x size <= 8).
    { unfold xs_w3. apply width_le8. apply fold_max_lt; [rewrite P64; lia|].
      intros v Hv. apply in_map_iff in Hv as [p [<- Hp]]. apply in_map_iff in Hp as [j [<- _]]. apply F3. }
    assert (Rok : forall j, In j (seqN 0 (N.to_nat size)) ->
                    row_ok (N.to_nat (xs_w2 x size)) (N.to_nat (xs_w3 x size)) (xlookup j x)).
    { intros j Hj. unfold row_ok. rewrite !N2Nat.id. unfold xs_w2, xs_w3.
      pose proof (in_map fst _ _ (in_map (fun i => fields_for_width (xlookup i x)) _ _ Hj)) as I2.
      pose proof (in_map snd _ _ (in_map (fun i => fields_for_width (xlookup i x)) _ _ Hj)) as I3.
      apply (fold_max_in _ 0) in I2. apply (fold_max_in _ 0) in I3. apply width_fits in I2, I3.
      destruct (xlookup j x) as [[g|off g|s i]|] eqn:E; cbn [fields_for_width fst snd] in *.
      - eapply Hfree; exact E.
      - split; [exact I2|]. split; [exact I3 | eapply Hgen; exact E].
      - split; [exact I2|]. split; [exact I3 | apply (Hcomp _ _ _ E)].
      - exact I. }
    set (tr := trailer_dict c root info r) in *.
    pose (pre := [LF; 37; 128; 128; 128; 128; LF] ++ nl c ++ body').
    assert (Hb : header c ++ body' = kw_pdf ++ version_text (cv c) ++ pre).
    { unfold header, pre. rewrite <- !app_assoc. reflexivity. }
    rewrite Hb in Out, Xp.
    assert (NK : forall K, (forall k, In k [k_Root; k_Info; k_ID; k_Encrypt; k_Size] -> bytes_eqb K k = false) ->
                 nokey K (dict_del k_Size tr)).
    { intros K HK. apply nokey_del, trailer_nokey. exact HK. }
    eexists. exists r. split.
    - rewrite Out.
      apply (open_gen parse decS fdec c (cv c) pre (xstream_section x size r tr) (xpos st)
               (map (fun j => (j, rdS (N.to_nat (xs_w3 x size)) (xlookup j x))) (seqN 0 (N.to_nat size)))
               (filter (fun kv => is_first_class (fst kv)) (normd (xs_dict x size tr))) [r] V Xp).
      cbn [Reader.read_chain existsb].
      rewrite (read_section_xstream _ (cv c) (xpos st) x size r tr (tail (xpos st)));
        [| | exact (Hwf root info r eq_refl)
         | apply NK; trailer_keys | apply NK; trailer_keys | apply NK; trailer_keys | apply NK; trailer_keys
         | exact Bs | exact W2 | exact W3 | exact Rok].
      + cbn [bind]. rewrite xs_dict_get by (apply NK; trailer_keys).
        destruct (xsd_tail_gets (Z.of_N size) (Z.of_N (xs_w2 x size)) (Z.of_N (xs_w3 x size))
                    (Z.of_N (xs_cols x size)) (xs_sparse x size)) as [_ [_ [_ [G4 _]]]].
        rewrite G4. reflexivity.
      + unfold drop. rewrite Xp, Nat2N.id. apply skipn_all_app.
    - cbn [rfile rhdr rversion rplain rxref]. rewrite Out. repeat split.
      intros n. rewrite (xlookup_map_seqN (fun j => rdS (N.to_nat (xs_w3 x size)) (xlookup j x))).
      replace (0 <=? n) with true by (symmetry; apply N.leb_le; lia). rewrite N2Nat.id. reflexivity.
  Qed.

  (* the rebuilt map agrees with the table the writer serialised (free and absent both read as null) *)
  Theorem open_xref_stream_agree ops st :
    run ops = Ok st -> closed st = true -> use_xrefstm c = true ->
    N.of_nat (length (out st)) < 10000000000 ->
    (forall n off g, xlookup n (xtab st) = Some (EUse off g) -> g <= 65535) ->
    (forall n s i, xlookup n (xtab st) = Some (EComp s i) -> i < 18446744073709551616) ->
    (forall root info r, nextRef st = r + 1 ->
       wfo (ODict (xs_dict (xtab st) (nextRef st) (trailer_dict c root info r)))) ->
    exists rs r, open (out st) = Ok rs /\ nextRef st = r + 1 /\
      rfile rs = out st /\ rhdr rs = 0 /\ rversion rs = cv c /\ rplain rs = [r] /\
      xref st = xtab st ++ [(r, EUse (xpos st) 0)] /\
      xagree (rxref rs) (xtab st).
  Proof.
    intros H Hc Hm Hlen Hgen Hidx Hwf.
    destruct (open_xref_stream ops st H Hc Hm Hlen Hgen Hidx Hwf) as [rs [r [Ho [Nx [Rf [Rh [Rv [Rp Rx]]]]]]]].
    destruct (close_shape ops st H Hc) as [body' [root [info [V [Ss [Xp [Bs R]]]]]]].
    rewrite Hm in R. destruct R as [r' [Nx' [Hr [Xr _]]]].
    assert (r' = r) by lia. subst r'.
    exists rs, r. do 6 (split; [assumption|]). split; [exact Xr|].
    intros n. rewrite Rx.
    destruct (xlookup n (xtab st)) as [[g1|o1 g1|s1 i1]|] eqn:E; cbn [rdS].
    - destruct (n <? nextRef st); reflexivity.
    - assert (B : n < nextRef st).
      { apply (run_bounded fmt fmt_sd encS encB fenc deflate c ops st H n (EUse o1 g1)).
        rewrite Xr, xlookup_app, E. reflexivity. }
      apply N.ltb_lt in B. rewrite B. reflexivity.
    - assert (B : n < nextRef st).
      { apply (run_bounded fmt fmt_sd encS encB fenc deflate c ops st H n (EComp s1 i1)).
        rewrite Xr, xlookup_app, E. reflexivity. }
      apply N.ltb_lt in B. rewrite B. reflexivity.
    - destruct (n <? nextRef st); reflexivity.
  Qed.
End OpenXStream.

(* ---- the hypotheses are satisfiable: the concrete instance that is run ---- *)
From GoPdf.C02 Require Import Stored Expect Inst Samples.

(* parse_trailer, on a trailer dictionary as Close builds it (with /Info and /ID) *)
Example open_parse_trailer_instance :
  let tr := [(k_Root, ORef 7 0); (k_Info, ORef 8 0);
             (k_ID, OArr [OStr [1; 2; 255]; OStr [40; 41; 0]]); (k_Size, OInt 9)] in
  let rest := LF :: dec 1234 ++ LF :: kw_eof ++ [LF] in
  parse_value (LF :: fmt_obj (ODict tr) ++ LF :: kw_startxref ++ rest) =
  Some (norm (ODict tr), LF :: kw_startxref ++ rest).
Proof. vm_compute. reflexivity. Qed.

(* parse_sd, on the dictionary of a cross-reference stream *)
Example open_parse_sd_instance :
  let sd := [(k_Root, ORef 7 0); (k_Size, OInt 9); (k_Type, OName k_XRef);
             (k_W, OArr [OInt 1; OInt 2; OInt 1]); (k_Filter, OName k_FlateDecode);
             (k_DecodeParms, ODict [(k_Columns, OInt 4); (k_Predictor, OInt 12)])] in
  let rest := LF :: [1; 2; 3] in
  exists d', parse_value (LF :: fmt_sd_concrete sd (LDirect 36) ++ LF :: kw_stream ++ rest)
             = Some (ODict d', LF :: kw_stream ++ rest) /\
             dict_get k_Length d' = Some (lenval (LDirect 36)) /\
             ODict (dict_del k_Length d') = norm (ODict sd).
Proof. eexists. vm_compute. repeat split. Qed.

(* fdec_xref: stored deflate blocks and the PNG "Up" predictor *)
Example open_fdec_xref_instance :
  let cols := 4 in
  let rows := [[1; 0; 17; 0]; [1; 1; 44; 7]; [2; 0; 9; 255]; [0; 0; 0; 0]] in
  fdec_concrete k_FlateDecode [(k_Columns, OInt (Z.of_N cols)); (k_Predictor, OInt 12)]
       (deflate_stored (png_up (repeat 0 (N.to_nat cols)) rows)) = Some (concat rows).
Proof. vm_compute. reflexivity. Qed.

Definition entry_eqb (a b : option entry) : bool :=
  match a, b with
  | Some (EUse x y), Some (EUse x' y') => (x =? x') && (y =? y')
  | Some (EComp x y), Some (EComp x' y') => (x =? x') && (y =? y')
  | Some (EFree x), Some (EFree x') => x =? x'
  | None, None => true
  | _, _ => false
  end.

(* the statement of [open_table], executed: a PDF 1.4 file (cross-reference table) with an allocated
   but unused number (3), written and reopened by the concrete instance *)
Definition open_sample_cfg : cfg :=
  {| cv := 4; chuman := false; cseek := false; ccipher := CNone; cid := None; cencrypt := None |}.
Definition open_sample_ops : list op :=
  [Alloc; Put 1 0 (PObj (ODict [(k_Type, OName k_XRef)])) false; Alloc; Alloc;
   Put 2 7 (PObj (OArr [OInt (-5); ORef 1 0])) false;
   Close (ODict [(k_Type, OName k_Root)]) (Some (OStr [1; 2]))].

Example open_table_instance :
  match run_concrete open_sample_cfg open_sample_ops with
  | Ok st =>
    match open_concrete (out st) with
    | Ok rs =>
      forallb (fun n =>
        entry_eqb (xlookup n (rxref rs))
          (if n <? nextRef st
           then Some (match xlookup n (xtab st) with Some (EUse off g) => EUse off g | _ => EFree 65535 end)
           else None)) [0; 1; 2; 3; 4; 5; 6; 7] &&
      (rversion rs =? 4) && (nextRef st =? 6) && negb (use_xrefstm open_sample_cfg)
    | Err _ => false
    end
  | Err _ => false
  end = true.
Proof. vm_compute. reflexivity. Qed.

(* the statement of [open_xref_stream], executed: a PDF 1.7 file with an object stream and a
   cross-reference stream *)
Example open_xref_stream_instance :
  match run_concrete sample_cfg sample_ops with
  | Ok st =>
    match open_concrete (out st) with
    | Ok rs =>
      forallb (fun n =>
        entry_eqb (xlookup n (rxref rs))
          (if n <? nextRef st
           then Some (rdS (N.to_nat (xs_w3 (xtab st) (nextRef st))) (xlookup n (xtab st)))
           else None)) [0; 1; 2; 3; 4; 5; 6; 7; 8; 9; 10; 11] &&
      (rversion rs =? 7) && use_xrefstm sample_cfg &&
      match rplain rs with [r] => nextRef st =? r + 1 | _ => false end
    | Err _ => false
    end
  | Err _ => false
  end = true.
Proof. vm_compute. reflexivity. Qed.
