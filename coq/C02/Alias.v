(* Store-passing model of the two places where the Go PDF writer writes
   through a slice it did not allocate (property "writing never modifies the
   caller's objects, so a value can be written any number of times").

   (1) formatString -> EncryptBytes(ref, buf), RC4 branch
         now:        out := make([]byte, len(buf)); c.XORKeyStream(out, buf); return out
         historical: c.XORKeyStream(buf, buf); return buf            (defect F1)
   (2) OpenStream: streamDict[key] = inlineFilterRefs(w, val)  (copy, cap = len)
       then appendFilter: streamDict["Filter"] = append(filter, name)

   Definitions only; all lemmas are in AliasProofs.v. *)
From Coq Require Import List NArith Bool Lia PeanoNat.
From GoPdf.Base Require Import Bytes.
Import ListNotations.
Local Open Scope nat_scope.

(* ------------------------------------------------------------------ *)
(* Heaps: an address maps to the FULL backing array (all cap elements). *)
(* The first binding of an address wins (update = shadowing cons).      *)

Definition addr := nat.

Definition heap (A : Type) := list (addr * A).

Fixpoint hlookup {A : Type} (a : addr) (h : heap A) : option A :=
  match h with
  | [] => None
  | (a', x) :: t => if Nat.eqb a a' then Some x else hlookup a t
  end.

Definition hupdate {A : Type} (a : addr) (x : A) (h : heap A) : heap A :=
  (a, x) :: h.

(* an address that is not bound in the heap: 1 + max of the domain *)
Definition hfresh {A : Type} (h : heap A) : addr :=
  S (fold_right (fun p m => Nat.max (fst p) m) 0 h).

(* h' extends h: every binding of h is unchanged in h' *)
Definition hext {A} (h h' : heap A) : Prop :=
  forall a x, hlookup a h = Some x -> hlookup a h' = Some x.

(* ------------------------------------------------------------------ *)
(* (1) byte heap, byte slices, Go values                                *)

Definition bheap := heap bytes.
Record bslice := mkB { b_addr : addr; b_len : nat }.

Definition lookupb (a : addr) (h : bheap) : option bytes := hlookup a h.
Definition updateb (a : addr) (bs : bytes) (h : bheap) : bheap := hupdate a bs h.
Definition fresh (h : bheap) : addr := hfresh h.

(* the bytes a slice denotes: the first b_len bytes of its backing array *)
Definition bcontents (h : bheap) (s : bslice) : bytes :=
  match lookupb (b_addr s) h with
  | Some bs => firstn (b_len s) bs
  | None => []
  end.

(* the slice is in the heap and within its backing array (len <= cap) *)
Definition wf_slice (h : bheap) (s : bslice) : bool :=
  match lookupb (b_addr s) h with
  | Some bs => Nat.leb (b_len s) (length bs)
  | None => false
  end.

Inductive gval : Type :=
| GNull
| GInt (z : N)
| GName (n : bytes)
| GStr (s : bslice)
| GArr (l : list gval)
| GDict (l : list (bytes * gval)).

(* every slice of v is in the heap and within its backing array *)
Fixpoint wf (h : bheap) (v : gval) {struct v} : bool :=
  match v with
  | GStr s => wf_slice h s
  | GArr l => forallb (wf h) l
  | GDict l => forallb (fun kv => match kv with (_, x) => wf h x end) l
  | _ => true
  end.

(* RC4's XORKeyStream with key stream ks, starting at key stream index i *)
Fixpoint xor_stream (ks : nat -> byte) (i : nat) (s : bytes) : bytes :=
  match s with
  | [] => []
  | b :: t => N.lxor b (ks i) :: xor_stream ks (S i) t
  end.

(* EncryptBytes, RC4 branch.  A new cipher is created per call, so the key
   stream restarts at 0.
     inplace = false : out := make([]byte, len(buf)); XORKeyStream(out, buf); return out
     inplace = true  : XORKeyStream(buf, buf); return buf      (historical F1) *)
Definition encrypt_bytes (inplace : bool) (ks : nat -> byte) (h : bheap) (s : bslice)
  : bheap * bslice :=
  if inplace then
    match lookupb (b_addr s) h with
    | Some bs =>
        (updateb (b_addr s)
                 (xor_stream ks 0 (firstn (b_len s) bs) ++ skipn (b_len s) bs) h, s)
    | None => (h, s)
    end
  else
    let a := fresh h in
    (updateb a (xor_stream ks 0 (bcontents h s)) h, mkB a (b_len s)).

(* format a sequence left to right, threading the heap; elements are
   separated by a space *)
Definition fmt_seq {A : Type} (f : bheap -> A -> bheap * bytes)
  : list A -> bheap -> bheap * bytes :=
  fix go (l : list A) (h : bheap) {struct l} : bheap * bytes :=
    match l with
    | [] => (h, [])
    | x :: t =>
        let (h1, o1) := f h x in
        let (h2, o2) := go t h1 in
        (h2, match t with [] => o1 | _ :: _ => o1 ++ 32%N :: o2 end)
    end.

Definition fmt_int (z : N) : bytes := [(48 + z mod 10)%N].

(* the bytes written for a value; the heap is threaded left to right *)
Fixpoint format_val (inplace : bool) (ks : nat -> byte) (h : bheap) (v : gval)
  {struct v} : bheap * bytes :=
  match v with
  | GNull => (h, [110; 117; 108; 108]%N)
  | GInt z => (h, fmt_int z)
  | GName n => (h, 47%N :: n)
  | GStr s =>
      let (h', s') := encrypt_bytes inplace ks h s in
      (h', 40%N :: bcontents h' s' ++ [41%N])
  | GArr l =>
      let (h', body) := fmt_seq (fun h0 x => format_val inplace ks h0 x) l h in
      (h', 91%N :: body ++ [93%N])
  | GDict l =>
      let (h', body) :=
        fmt_seq (fun h0 kv =>
                   match kv with
                   | (k, x) =>
                       let (h1, o) := format_val inplace ks h0 x in
                       (h1, 47%N :: k ++ 32%N :: o)
                   end) l h in
      (h', 60%N :: 60%N :: body ++ [62; 62]%N)
  end.

(* one Put of value v = formatting it once *)
Definition put (inplace : bool) (ks : nat -> byte) (h : bheap) (v : gval)
  : bheap * bytes :=
  format_val inplace ks h v.

(* heap h' extends h: every buffer visible in h (including spare capacity)
   is unchanged in h' *)
Definition bext (h h' : bheap) : Prop :=
  forall a bs, lookupb a h = Some bs -> lookupb a h' = Some bs.

(* ------------------------------------------------------------------ *)
(* (2) array heap: Filter arrays (filter names suffice)                 *)

Definition gname := bytes.
Definition aheap := heap (list gname).
Record aslice := mkA { a_addr : addr; a_len : nat }.

Definition lookupa (a : addr) (h : aheap) : option (list gname) := hlookup a h.

Definition acontents (h : aheap) (s : aslice) : list gname :=
  match lookupa (a_addr s) h with
  | Some l => firstn (a_len s) l
  | None => []
  end.

Definition wf_aslice (h : aheap) (s : aslice) : bool :=
  match lookupa (a_addr s) h with
  | Some l => Nat.leb (a_len s) (length l)
  | None => false
  end.

(* Go's append(s, x): in place when len < cap, else a fresh backing array *)
Definition append_name (h : aheap) (s : aslice) (x : gname) : aheap * aslice :=
  match lookupa (a_addr s) h with
  | Some l =>
      if Nat.ltb (a_len s) (length l) then
        (hupdate (a_addr s)
                 (firstn (a_len s) l ++ x :: skipn (S (a_len s)) l) h,
         mkA (a_addr s) (S (a_len s)))
      else
        let a := hfresh h in
        (hupdate a (firstn (a_len s) l ++ [x]) h, mkA a (S (a_len s)))
  | None =>
      let a := hfresh h in
      (hupdate a [x] h, mkA a 1)
  end.

(* inlineFilterRefs on an Array: out := make(Array, len(arr)); copy  (cap = len) *)
Definition inline_copy (h : aheap) (s : aslice) : aheap * aslice :=
  let a := hfresh h in
  (hupdate a (acontents h s) h, mkA a (a_len s)).

(* OpenStream's treatment of the Filter entry followed by appendFilter *)
Definition open_stream_filter (copy : bool) (h : aheap) (s : aslice) (x : gname)
  : aheap * aslice :=
  if copy then
    let (h1, s1) := inline_copy h s in append_name h1 s1 x
  else
    append_name h s x.

(* ------------------------------------------------------------------ *)
(* witnesses used by the refutation theorems and the wf examples        *)

Definition ks_ff : nat -> byte := fun _ => 255%N.
Definition h_hi : bheap := [(0, [104; 105; 33]%N)].       (* "hi" + 1 spare byte *)
Definition s_hi : bslice := mkB 0 2.

Definition h_ex : bheap :=
  [(3, [80; 68; 70; 0; 0]%N);          (* "PDF", cap 5 (2 spare bytes) *)
   (1, [104; 105]%N)].                 (* "hi", cap = len *)

Definition v_ex : gval :=
  GDict [([75]%N, GArr [GStr (mkB 1 2); GInt 7; GStr (mkB 1 2)]);
         ([84]%N, GStr (mkB 3 3));
         ([78]%N, GName [88]%N);
         ([90]%N, GNull)].

Definition ah_ex : aheap := [(0, [[65]; [66]; [67]]%N)].   (* cap 3 *)
