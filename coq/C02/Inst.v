(* C02: concrete decoders for the instance that is run (the inverse of Stored.v):
   zlib with stored blocks only, PNG-Up un-prediction, ASCIIHex. *)
From Coq Require Import List NArith ZArith Bool.
From GoPdf.Base Require Import Bytes Res.
From GoPdf.C02 Require Import Obj Dec Syntax Writer Stored Reader Expect.
Import ListNotations.
Open Scope N_scope.

Fixpoint stored_unblocks (fuel : nat) (s : bytes) : option bytes :=
  match fuel with
  | O => None
  | S f =>
    match s with
    | fin :: l0 :: l1 :: _ :: _ :: r =>
      let n := N.to_nat (l0 + 256 * l1) in
      let blk := firstn n r in
      if Nat.eqb (length blk) n then
        if fin =? 1 then Some blk
        else if fin =? 0 then
          match stored_unblocks f (skipn n r) with
          | Some t => Some (blk ++ t)
          | None => None
          end
        else None
      else None
    | _ => None
    end
  end.

Definition inflate_stored (s : bytes) : option bytes :=
  match s with
  | 120 :: _ :: r => stored_unblocks (S (length r)) r
  | _ => None
  end.

Fixpoint zipadd (a b : bytes) : bytes :=
  match a, b with
  | x :: a', y :: b' => ((x + y) mod 256) :: zipadd a' b'
  | x :: a', [] => x :: zipadd a' []
  | [], _ => []
  end.

Fixpoint png_undo (fuel : nat) (cols : nat) (prev : bytes) (s : bytes) : option bytes :=
  match fuel with
  | O => None
  | S f =>
    match s with
    | [] => Some []
    | 2 :: r =>
      let cur := zipadd (firstn cols r) prev in
      match png_undo f cols cur (skipn cols r) with
      | Some t => Some (cur ++ t)
      | None => None
      end
    | 0 :: r =>
      let cur := firstn cols r in
      match png_undo f cols cur (skipn cols r) with
      | Some t => Some (cur ++ t)
      | None => None
      end
    | _ => None
    end
  end.

Fixpoint unhex_all (s : bytes) : option bytes :=
  match s with
  | [] => Some []
  | [62] => Some []
  | a :: b :: r =>
    match unhex a, unhex b, unhex_all r with
    | Some x, Some y, Some t => Some ((16 * x + y) :: t)
    | _, _, _ => None
    end
  | _ => None
  end.

Definition fdec_concrete (name : bytes) (parms : dict) (s : bytes) : option bytes :=
  if bytes_eqb name k_FlateDecode then
    match inflate_stored s with
    | Some x =>
      match dict_get k_Predictor parms, dict_get k_Columns parms with
      | Some (OInt 12), Some (OInt cz) =>
        let cols := Z.to_nat cz in png_undo (S (length x)) cols (repeat 0 cols) x
      | _, _ => Some x
      end
    | None => None
    end
  else if bytes_eqb name k_AHx then unhex_all s
  else Some s.

Section WithDecoders.
  Variable fdec : bytes -> dict -> bytes -> option bytes.

  Definition open_with (f : bytes) : res rstate := open parse_value id_cipher fdec false f.
  Definition get_with (rs : rstate) (n g : N) : res rval :=
    get parse_value id_cipher id_cipher fdec false 4 rs n g.
  Definition data_with (rs : rstate) (n g : N) (d : dict) (raw : bytes) : option bytes :=
    stream_data id_cipher fdec false rs n g d raw.

  (* the model reader agrees with the specification on the given references *)
  Definition self_check (c : cfg) (st : state) (refs : list (N * N)) : bool :=
    match open_with (out st) with
    | Ok rs =>
      forallb (fun ng =>
          match observe (data_with rs (fst ng) (snd ng)) (get_with rs (fst ng) (snd ng)) with
          | Some o => eobs_eqb o (expected (wr st) (fst ng) (snd ng))
          | None => false
          end) refs &&
      (rversion rs =? cv c)
    | Err _ => false
    end.
End WithDecoders.

Definition open_concrete := open_with fdec_concrete.
Definition get_concrete := get_with fdec_concrete.
Definition data_concrete := data_with fdec_concrete.
