(* C02: write_read for files with a cross-reference table (versions below 1.5, or HumanReadable):
   opening the bytes succeeds and Get answers every reference as the record says - Reader.open
   included.  (With a cross-reference stream, open is proved too (OpenProofs.open_xref_stream); the
   step that is still missing there is the transfer of Get from the writer's map to the re-read
   one, where the stream's own number is free and exempt from decryption.) *)
From Coq Require Import List NArith ZArith Bool Lia.
From GoPdf.Base Require Import Bytes Res.
From GoPdf.C02 Require Import Obj Dec Syntax Writer Reader WriterProofs LayoutProofs ReaderProofs
  MoreProofs OpenProofs.
Import ListNotations.
Open Scope N_scope.

Section Full.
  Variable fmt : obj -> bytes.
  Variable fmt_sd : dict -> lenrep -> bytes.
  Variable parse : bytes -> option (obj * bytes).
  Variables encS decS encB decB : N -> N -> bytes -> bytes.
  Variable fenc : bytes -> dict -> bytes -> bytes.
  Variable fdec : bytes -> dict -> bytes -> option bytes.
  Variable deflate : bytes -> bytes.
  Variable c : cfg.
  Variable wfo : obj -> Prop.

  Hypothesis parse_fmt : forall o rest, wfo o ->
      parse (LF :: fmt o ++ LF :: kw_endobj ++ rest) = Some (norm o, LF :: kw_endobj ++ rest).
  Hypothesis parse_sd : forall sd lr rest, wfo (ODict sd) -> exists d',
      parse (LF :: fmt_sd sd lr ++ LF :: kw_stream ++ rest) = Some (ODict d', LF :: kw_stream ++ rest) /\
      dict_get k_Length d' = Some (lenval lr) /\
      ODict (dict_del k_Length d') = norm (ODict sd).
  Hypothesis parse_trailer : forall tr rest, wfo (ODict tr) ->
      parse (LF :: fmt (ODict tr) ++ LF :: kw_startxref ++ rest) = Some (norm (ODict tr), LF :: kw_startxref ++ rest).
  Hypothesis decS_encS : forall n g s, decS n g (encS n g s) = s.

  Notation run := (run fmt fmt_sd encS encB fenc deflate c).
  Notation get := (get parse decS decB fdec (encrypted c)).
  Notation open := (open parse decS fdec (encrypted c)).

  Lemma write_read_table_mode ops st :
    run ops = Ok st -> closed st = true -> use_xrefstm c = false ->
    N.of_nat (length (out st)) < 10000000000 ->
    (forall n off g, xlookup n (xtab st) = Some (EUse off g) -> g <= 65535) ->
    (forall root info size, wfo (ODict (trailer_dict c root info size))) ->
    wr_wf encS c wfo st ->
    exists rs, open (out st) = Ok rs /\ rversion rs = cv c /\
      (forall n g f,
         match xlookup n (xref st) with
         | None | Some (EFree _) => True
         | Some (EUse _ g') => g' <> g
         | Some (EComp _ _) => g <> 0
         end -> get (S f) rs n g = Ok RNull) /\
      (forall n off g v,
         xlookup n (xref st) = Some (EUse off g) -> wlookup n (wr st) = Some (g, v) ->
         get 2 rs n g = Ok (rval_of encB fenc c n g v)).
  Proof.
    intros H Hc Hx Hl Hg Htr WF.
    destruct (write_read_table fmt fmt_sd parse encS decS encB decB fenc fdec deflate c wfo parse_trailer
                ops st H Hc Hx Hl Hg Htr) as [rs [Ho [Hv T]]].
    exists rs. split; [exact Ho|]. split; [exact Hv|].
    assert (Hs : strm st = None).
    { destruct (run_inv fmt fmt_sd encS encB fenc deflate c ops st H) as [[_ C0]|[_ [S0 _]]]; [congruence | exact S0]. }
    pose proof (T (rs_of c st) eq_refl eq_refl eq_refl eq_refl) as T0.
    split.
    - intros n g f Hn. rewrite T0. apply get_null_lemma. exact Hn.
    - intros n off g v Hn Hw. rewrite T0.
      exact (get_written_lemma fmt fmt_sd parse encS decS encB decB fenc fdec deflate c wfo
               parse_fmt parse_sd decS_encS ops st H Hs WF n off g v Hn Hw).
  Qed.
End Full.
